use crate::util::*;
use engeom::common::{
    angle_in_direction, angle_signed_pi, angle_to_2pi, signed_compliment_2pi, AngleDir, AngleInterval, Interval,
};
use engeom::geom2::{directed_angle, signed_angle};
use serde_json::{json, Value};

fn iv(i: &Interval) -> Value {
    json!([hx(i.min), hx(i.max)])
}

pub fn run(k: &str, c: &Value) -> Value {
    match k {
        "c18.angles" => {
            let a = fx(&c["a"]);
            let b = fx(&c["b"]);
            json!({
                "to2pi": hx(angle_to_2pi(a)), "signed": hx(angle_signed_pi(a)),
                "cw": hx(angle_in_direction(a, b, AngleDir::Cw)), "ccw": hx(angle_in_direction(a, b, AngleDir::Ccw)),
                "comp": hx(signed_compliment_2pi(a)),
            })
        }
        "c18.vec" => {
            let v1 = v2(&c["v1"]);
            let w = v2(&c["v2"]);
            json!({
                "signed": hx(signed_angle(&v1, &w)),
                "cw": hx(directed_angle(&v1, &w, AngleDir::Cw)), "ccw": hx(directed_angle(&v1, &w, AngleDir::Ccw)),
                // the quarter-turn helpers and the direction <-> sign maps of the same files
                "rot90": [hv2(&(engeom::geom2::rot90(AngleDir::Ccw) * v1)), hv2(&(engeom::geom2::rot90(AngleDir::Cw) * v1))],
                "rot270": [hv2(&(engeom::geom2::rot270(AngleDir::Ccw) * v1)), hv2(&(engeom::geom2::rot270(AngleDir::Cw) * v1))],
                "signs": [hx(AngleDir::Ccw.to_sign()), hx(AngleDir::Cw.to_sign())],
                "from_sign": [matches!(AngleDir::from_sign(v1.x), AngleDir::Ccw), matches!(AngleDir::from_sign(-1.0), AngleDir::Cw), matches!(AngleDir::from_sign(1.0), AngleDir::Ccw),
                              matches!(AngleDir::Ccw.opposite(), AngleDir::Cw), matches!(AngleDir::Cw.opposite(), AngleDir::Ccw)],
            })
        }
        "c18.ainterval" => {
            let i = AngleInterval::new(fx(&c["s"]), fx(&c["e"]));
            let o = AngleInterval::new(fx(&c["os"]), fx(&c["oe"]));
            let qs = fxs(&c["qs"]);
            json!({
                "start": hx(i.start()), "angle": hx(i.angle()),
                "ostart": hx(o.start()), "oangle": hx(o.angle()),
                "contains": qs.iter().map(|q| i.contains(*q)).collect::<Vec<_>>(),
                "ocontains": qs.iter().map(|q| o.contains(*q)).collect::<Vec<_>>(),
                "intersects": i.intersects(&o), "rintersects": o.intersects(&i),
            })
        }
        "c18.interval" => {
            let (a, b, cc, d, x) = (fx(&c["a"]), fx(&c["b"]), fx(&c["c"]), fx(&c["d"]), fx(&c["x"]));
            let rnew = std::panic::catch_unwind(|| Interval::new(a, b));
            let rtry = Interval::try_new(a, b);
            let i = match rnew {
                Ok(i) => i,
                Err(_) => return json!({"new": Value::Null, "try": rtry.ok().map(|t| iv(&t))}),
            };
            let o = Interval::new_unchecked(cc.min(d), cc.max(d));
            json!({
                "new": iv(&i), "try": rtry.ok().map(|t| iv(&t)),
                "contains": i.contains(x), "overlaps": i.overlaps(&o), "roverlaps": o.overlaps(&i),
                "inter": i.intersection(&o).map(|k| iv(&k)), "rinter": o.intersection(&i).map(|k| iv(&k)),
                "clamp": hx(i.clamp(x)), "len": hx(i.length()), "cint": i.contains_interval(&o),
                "o": iv(&o),
            })
        }
        _ => json!({"unknown": k}),
    }
}
