use crate::util::*;
use engeom::common::svd_basis::{iso2_from_basis, iso3_from_basis, iso3_from_xyo, SvdBasis};
use engeom::geom3::{IsoExtensions3, Plane3, SvdBasis3, UnitVec3};
use engeom::{Iso2, Iso3, Point2, Point3, SurfacePoint3, SvdBasis2, Vector2, Vector3};
use serde_json::{json, Value};

fn iso3v(i: &Iso3) -> Value {
    let x = i * Vector3::x();
    let y = i * Vector3::y();
    let z = i * Vector3::z();
    let o = i * Point3::origin();
    json!({"x": hv3(&x), "y": hv3(&y), "z": hv3(&z), "o": hp3(&o)})
}
fn iso2v(i: &Iso2) -> Value {
    let x = i * Vector2::x();
    let y = i * Vector2::y();
    let o = i * Point2::origin();
    json!({"x": hv2(&x), "y": hv2(&y), "o": hp2(&o)})
}
fn planev(p: &Plane3, q: &Point3) -> Value {
    let inv = p.inverted_normal();
    json!({"n": hv3(&p.normal.into_inner()), "d": hx(p.d), "signed": hx(p.signed_distance_to_point(q)), "dist": hx(p.distance_to_point(q)),
           "proj": hp3(&p.project_point(q)), "inv_n": hv3(&inv.normal.into_inner()), "inv_d": hx(inv.d), "inv_signed": hx(inv.signed_distance_to_point(q))})
}

pub fn run(k: &str, c: &Value) -> Value {
    match k {
        "c19.frame" => {
            let (a, b) = (v3(&c["a"]), v3(&c["b"]));
            let o = if c["o"].is_null() { None } else { Some(p3(&c["o"])) };
            let r = match c["kind"].as_str().unwrap() {
                "xy" => Iso3::try_from_basis_xy(&a, &b, o),
                "xz" => Iso3::try_from_basis_xz(&a, &b, o),
                "yz" => Iso3::try_from_basis_yz(&a, &b, o),
                "yx" => Iso3::try_from_basis_yx(&a, &b, o),
                "zx" => Iso3::try_from_basis_zx(&a, &b, o),
                "zy" => Iso3::try_from_basis_zy(&a, &b, o),
                _ => return json!({"unknown": k}),
            };
            match r {
                Ok(i) => iso3v(&i),
                Err(_) => json!({"err": true}),
            }
        }
        "c19.xyo" => {
            let x0 = UnitVec3::new_normalize(v3(&c["a"]));
            let y = UnitVec3::new_normalize(v3(&c["b"]));
            let i = iso3_from_xyo(&x0, &y, &p3(&c["o"]));
            json!({"inv": iso3v(&i.inverse()), "x0": hv3(&x0.into_inner()), "y": hv3(&y.into_inner())})
        }
        "c19.svd3" => {
            let pts = p3s(&c["pts"]);
            let w = if c["w"].is_null() { None } else { Some(fxs(&c["w"])) };
            let b: SvdBasis3 = SvdBasis::from_points(&pts, w.as_deref());
            let q = p3(&c["q"]);
            let tb = b.point_to_basis(&q);
            let i: Iso3 = Iso3::from(&b);
            let i2 = iso3_from_basis(&b.basis, &b.center);
            json!({"center": hp3(&b.center), "basis": b.basis.iter().map(hv3).collect::<Vec<_>>(), "sv": hxs(&b.sv), "n": b.n,
                   "var": hxs(&b.basis_variances()), "std": hxs(&b.basis_stdevs()), "rank": b.rank(fx(&c["tol"])),
                   "to": hp3(&tb), "from": hp3(&b.point_from_basis(&q)), "round": hp3(&b.point_from_basis(&tb)),
                   "iso_inv": iso3v(&i.inverse()), "iso2_same": i == i2})
        }
        "c19.svd2" => {
            let pts = p2s(&c["pts"]);
            let w = if c["w"].is_null() { None } else { Some(fxs(&c["w"])) };
            let b: SvdBasis2 = SvdBasis::from_points(&pts, w.as_deref());
            let q = p2(&c["q"]);
            let tb = b.point_to_basis(&q);
            let i = iso2_from_basis(&b.basis, &b.center);
            json!({"center": hp2(&b.center), "basis": b.basis.iter().map(hv2).collect::<Vec<_>>(), "sv": hxs(&b.sv), "n": b.n,
                   "var": hxs(&b.basis_variances()), "rank": b.rank(fx(&c["tol"])),
                   "to": hp2(&tb), "from": hp2(&b.point_from_basis(&q)), "round": hp2(&b.point_from_basis(&tb)),
                   "iso_inv": iso2v(&i.inverse())})
        }
        "c19.plane3" => {
            let (a, b, d) = (p3(&c["p1"]), p3(&c["p2"]), p3(&c["p3"]));
            let p = Plane3::from((&a, &b, &d));
            planev(&p, &p3(&c["q"]))
        }
        "c19.planepn" => {
            let n = UnitVec3::new_normalize(v3(&c["n"]));
            let pt = p3(&c["p"]);
            let p = if c["sp"].as_bool().unwrap_or(false) { Plane3::from(&SurfacePoint3::new(pt, n)) } else { Plane3::from((&n, &pt)) };
            let mut v = planev(&p, &p3(&c["q"]));
            v["unit"] = hv3(&n.into_inner());
            v
        }
        _ => json!({"unknown": k}),
    }
}
