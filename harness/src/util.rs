#![allow(dead_code)]
use engeom::{Point2, Point3, Vector2, Vector3};
use serde_json::{json, Value};

pub fn fx(v: &Value) -> f64 {
    let s = v.as_str().expect("float must be a hex string");
    f64::from_bits(u64::from_str_radix(s, 16).expect("bad hex"))
}
pub fn hx(x: f64) -> Value {
    Value::String(format!("{:016x}", x.to_bits()))
}
pub fn fxs(v: &Value) -> Vec<f64> {
    v.as_array().expect("array").iter().map(fx).collect()
}
pub fn hxs(xs: &[f64]) -> Value {
    Value::Array(xs.iter().map(|x| hx(*x)).collect())
}
pub fn p2(v: &Value) -> Point2 {
    Point2::new(fx(&v[0]), fx(&v[1]))
}
pub fn v2(v: &Value) -> Vector2 {
    Vector2::new(fx(&v[0]), fx(&v[1]))
}
pub fn p3(v: &Value) -> Point3 {
    Point3::new(fx(&v[0]), fx(&v[1]), fx(&v[2]))
}
pub fn v3(v: &Value) -> Vector3 {
    Vector3::new(fx(&v[0]), fx(&v[1]), fx(&v[2]))
}
pub fn p2s(v: &Value) -> Vec<Point2> {
    v.as_array().expect("array").iter().map(p2).collect()
}
pub fn p3s(v: &Value) -> Vec<Point3> {
    v.as_array().expect("array").iter().map(p3).collect()
}
pub fn hp2(p: &Point2) -> Value {
    json!([hx(p.x), hx(p.y)])
}
pub fn hv2(p: &Vector2) -> Value {
    json!([hx(p.x), hx(p.y)])
}
pub fn hp3(p: &Point3) -> Value {
    json!([hx(p.x), hx(p.y), hx(p.z)])
}
pub fn hv3(p: &Vector3) -> Value {
    json!([hx(p.x), hx(p.y), hx(p.z)])
}
pub fn us(v: &Value) -> usize {
    v.as_u64().expect("usize") as usize
}
pub fn uss(v: &Value) -> Vec<usize> {
    v.as_array().expect("array").iter().map(us).collect()
}
pub fn opt_us(o: Option<usize>) -> Value {
    match o {
        Some(i) => json!(i),
        None => Value::Null,
    }
}
