use crate::util::*;
use engeom::common::Intersection;
use engeom::geom2::aabb2::Aabb2;
use engeom::geom2::{HasBounds2, Line2, Segment2};
use engeom::{Arc2, Circle2, Point2};
use serde_json::{json, Value};

fn circ(v: &Value) -> Circle2 { Circle2::new(fx(&v[0]), fx(&v[1]), fx(&v[2])) }
fn seg(s: &Segment2) -> Value { json!([hp2(&s.a), hp2(&s.b)]) }
fn bb(a: &Aabb2) -> Value { json!([hp2(&a.mins), hp2(&a.maxs)]) }
fn arcv(a: &Arc2, fs: &[f64]) -> Value {
    json!({"c": hp2(&a.center()), "r": hx(a.radius()), "a0": hx(a.angle0), "a": hx(a.angle), "start": hp2(&a.start()), "end": hp2(&a.end()),
           "len": hx(a.length()), "at_f": fs.iter().map(|f| hp2(&a.point_at_fraction(*f))).collect::<Vec<_>>(),
           "at_l": fs.iter().map(|f| hp2(&a.point_at_length(*f * a.length()))).collect::<Vec<_>>(), "aabb": bb(a.aabb())})
}

pub fn run(k: &str, c: &Value) -> Value {
    match k {
        "c11.boxes" => {
            // the cached box of a circle however it was made: every constructor, the least-squares fit and RANSAC included
            let pts = p2s(&c["pts"]);
            let g = circ(&c["guess"]);
            let mut out: Vec<Value> = vec![];
            let mut put = |how: &str, ci: &Circle2| out.push(json!({"how": how, "c": [hx(ci.x()), hx(ci.y()), hx(ci.r())], "aabb": bb(ci.aabb()), "arc": bb(ci.to_arc().aabb())}));
            put("new", &Circle2::new(g.x(), g.y(), g.r()));
            put("from_point", &Circle2::from_point(g.center, g.r()));
            if let Ok(ci) = Circle2::from_3_points(pts[0], pts[pts.len() / 2], pts[pts.len() - 1]) { put("from_3_points", &ci); }
            if let Ok(ci) = Circle2::fitting_circle(&pts, &g, engeom::common::BestFit::All) { put("fitting_circle", &ci); }
            if let Ok(ci) = Circle2::fitting_circle(&pts, &g, engeom::common::BestFit::Gaussian(3.0)) { put("fitting_circle_gaussian", &ci); }
            if let Ok(ci) = Circle2::ransac(&pts, 0.01, Some(50), None, None) { put("ransac", &ci); }
            json!({"out": out})
        }
        "c11.cc" => {
            let (c0, c1) = (circ(&c["c0"]), circ(&c["c1"]));
            let i01: Vec<Value> = c0.intersections_with(&c1).iter().map(hp2).collect();
            let i10: Vec<Value> = c1.intersections_with(&c0).iter().map(hp2).collect();
            let iv = c0.intersection_interval(c1).map(|i| json!([hx(i.start()), hx(i.angle())]));
            json!({"i01": i01, "i10": i10, "interval": iv, "aabb0": bb(c0.aabb())})
        }
        "c11.tangent" => {
            let c0 = circ(&c["c0"]);
            let p = p2(&c["p"]);
            let t = c0.tangent_points_to(&p).map(|(a, b)| json!([hp2(&a), hp2(&b)]));
            let c1 = circ(&c["c1"]);
            let ot = c0.outer_tangents_to(&c1).map(|(a, b)| json!([seg(&a), seg(&b)]));
            let pr = c0.project_point_to_perimeter(&p).map(|q| hp2(&q));
            json!({"tangent": t, "outer": ot, "project": pr, "dist": hx(c0.distance_to(&p)), "angle": hx(c0.angle_of_point(&p)),
                   "at_angle": hp2(&c0.point_at_angle(fx(&c["theta"])))})
        }
        "c11.line" => {
            let c0 = circ(&c["c0"]);
            let s = match Segment2::try_new(p2(&c["a"]), p2(&c["b"])) { Ok(s) => s, Err(_) => return json!({"err": true}) };
            let ts = engeom::geom2::circle2_verif::line_circle(&s, &c0);
            let pts: Vec<Value> = c0.intersection(&s).iter().map(hp2).collect();
            json!({"ts": hxs(&ts), "pts": pts, "dir": hv2(&s.dir())})
        }
        "c11.arc3" => {
            let (q0, q1, q2) = (p2(&c["p0"]), p2(&c["p1"]), p2(&c["p2"]));
            if Circle2::from_3_points(q0, q1, q2).is_err() { return json!({"err": true}); }
            let a = Arc2::three_points(q0, q1, q2);
            arcv(&a, &fxs(&c["fs"]))
        }
        "c11.arcpa" => {
            // an arc given by centre, radius, a point marking the start direction, and the sweep
            let a = Arc2::circle_point_angle(Point2::new(fx(&c["cx"]), fx(&c["cy"])), fx(&c["r"]), p2(&c["p"]), fx(&c["a"]));
            arcv(&a, &fxs(&c["fs"]))
        }
        "c11.arc" => {
            let a = Arc2::circle_angles(Point2::new(fx(&c["cx"]), fx(&c["cy"])), fx(&c["r"]), fx(&c["a0"]), fx(&c["a"]));
            arcv(&a, &fxs(&c["fs"]))
        }
        _ => json!({"unknown": k}),
    }
}
