use crate::util::*;
use engeom::geom2::Segment2;
use engeom::geom3::{Mesh, Plane3, PointCloud, PointCloudFeatures, UnitVec3};
use engeom::metrology::{Distance2, Distance3, Measurement};
use engeom::{Curve2, Curve3, Iso2, Iso3, Point2, Point3, SurfacePoint2, SurfacePoint3, To2D, To3D, TransformBy, UnitVec2, Vector2, Vector3};
use serde_json::{json, Value};

fn iso2(v: &Value) -> Iso2 { Iso2::new(Vector2::new(fx(&v["tx"]), fx(&v["ty"])), fx(&v["angle"])) }
fn iso3(v: &Value) -> Iso3 { Iso3::new(v3(&v["t"]), v3(&v["axisangle"])) }
fn iso2v(i: &Iso2) -> Value {
    let x = i * Vector2::x(); let o = i * Point2::origin();
    json!({"c": hx(x.x), "s": hx(x.y), "t": hp2(&o)})
}
fn iso3v(i: &Iso3) -> Value {
    let (x, y, z) = (i * Vector3::x(), i * Vector3::y(), i * Vector3::z());
    json!({"r0": [hx(x.x), hx(y.x), hx(z.x)], "r1": [hx(x.y), hx(y.y), hx(z.y)], "r2": [hx(x.z), hx(y.z), hx(z.z)], "t": hp3(&(i * Point3::origin()))})
}
fn meas2(c: &Curve2, qs: &[Point2], fs: &[f64]) -> Value {
    let at: Vec<Value> = fs.iter().map(|f| match c.at_length(f * c.length()) { Some(s) => json!({"p": hp2(&s.point()), "d": hv2(&s.direction().into_inner()), "n": hv2(&s.normal().into_inner())}), None => Value::Null }).collect();
    let cl: Vec<Value> = qs.iter().map(|q| { let s = c.at_closest_to_point(q); json!({"p": hp2(&s.point()), "l": hx(s.length_along()), "dist": hx(c.dist_to_point(q))}) }).collect();
    json!({"length": hx(c.length()), "points": c.points().iter().map(hp2).collect::<Vec<_>>(), "closed": c.is_closed(), "at": at, "closest": cl, "tol": hx(c.tol())})
}
fn meas3(c: &Curve3, qs: &[Point3], fs: &[f64]) -> Value {
    let at: Vec<Value> = fs.iter().map(|f| match c.at_length(f * c.length()) { Some(s) => json!({"p": hp3(&s.point()), "d": hv3(&s.direction().into_inner())}), None => Value::Null }).collect();
    let cl: Vec<Value> = qs.iter().map(|q| { let s = c.at_closest_to_point(q); json!({"p": hp3(&s.point()), "l": hx(s.length_along()), "dist": hx(c.dist_to_point(q))}) }).collect();
    json!({"length": hx(c.length()), "points": c.points().iter().map(hp3).collect::<Vec<_>>(), "at": at, "closest": cl, "tol": hx(c.tol())})
}

pub fn run(k: &str, c: &Value) -> Value {
    match k {
        "c03.curve2" => {
            let curve = match Curve2::from_points(&p2s(&c["pts"]), fx(&c["tol"]), c["closed"].as_bool().unwrap()) { Ok(c) => c, Err(_) => return json!({"err": true}) };
            let t = iso2(&c["iso"]);
            let qs = p2s(&c["qs"]);
            let fs = fxs(&c["fs"]);
            let tc = match std::panic::catch_unwind(std::panic::AssertUnwindSafe(|| curve.transformed_by(&t))) { Ok(c) => c, Err(_) => return json!({"panic": true}) };
            let tq: Vec<Point2> = qs.iter().map(|q| t * q).collect();
            let back = tc.transformed_by(&t.inverse());
            // surface point and segment
            let sp = SurfacePoint2::new(qs[0], UnitVec2::new_normalize(v2(&c["n"])));
            let spt = sp.transformed(&t);
            let seg = Segment2::try_new(qs[0], qs[1]).ok().map(|s| { let st = s.transform_by(&t); json!([hp2(&st.a), hp2(&st.b)]) });
            json!({"iso": iso2v(&t), "a": meas2(&curve, &qs, &fs), "b": meas2(&tc, &tq, &fs), "tq": tq.iter().map(hp2).collect::<Vec<_>>(),
                   "back": back.points().iter().map(hp2).collect::<Vec<_>>(), "back_tol": hx(back.tol()),
                   "sp": {"proj": hx(sp.scalar_projection(&qs[1])), "planar": hx(sp.planar_distance(&qs[1])), "tproj": hx(spt.scalar_projection(&tq[1])), "tplanar": hx(spt.planar_distance(&tq[1])),
                          "tp": hp2(&spt.point), "tn": hv2(&spt.normal.into_inner()), "n": hv2(&sp.normal.into_inner())}, "seg": seg})
        }
        "c03.curve3" => {
            let curve = match Curve3::from_points(&p3s(&c["pts"]), fx(&c["tol"])) { Ok(c) => c, Err(_) => return json!({"err": true}) };
            let t = iso3(&c["iso"]);
            let qs = p3s(&c["qs"]);
            let fs = fxs(&c["fs"]);
            let tc = match std::panic::catch_unwind(std::panic::AssertUnwindSafe(|| curve.transformed_by(&t))) { Ok(c) => c, Err(_) => return json!({"panic": true}) };
            let tq: Vec<Point3> = qs.iter().map(|q| t * q).collect();
            let back = tc.transformed_by(&t.inverse());
            json!({"iso": iso3v(&t), "a": meas3(&curve, &qs, &fs), "b": meas3(&tc, &tq, &fs), "tq": tq.iter().map(hp3).collect::<Vec<_>>(),
                   "back": back.points().iter().map(hp3).collect::<Vec<_>>(), "back_tol": hx(back.tol())})
        }
        "c03.geom3" => {
            let t = iso3(&c["iso"]);
            let u = iso3(&c["iso2"]);
            let pts = p3s(&c["pts"]);
            let q = p3(&c["q"]);
            let n = UnitVec3::new_normalize(v3(&c["n"]));
            let plane = Plane3::from((&n, &pts[0]));
            let tp = plane.transform_by(&t);
            let sp = SurfacePoint3::new(pts[0], n);
            let spt = sp.transformed(&t);
            let tq = t * q;
            // cloud: transform, then by the inverse; sequence vs composition
            let normals: Vec<UnitVec3> = pts.iter().map(|p| UnitVec3::new_normalize(p.coords + Vector3::new(0.3, 0.2, 0.1))).collect();
            let mut cloud = PointCloud::try_new(pts.clone(), Some(normals.clone()), None).unwrap();
            cloud.transform(&t);
            let c1: Vec<Value> = cloud.points().iter().map(hp3).collect();
            let n1: Vec<Value> = cloud.normals().unwrap().iter().map(|v| hv3(&v.into_inner())).collect();
            let mut seq = PointCloud::try_new(pts.clone(), Some(normals.clone()), None).unwrap();
            seq.transform(&t); seq.transform(&u);
            let mut comp = PointCloud::try_new(pts.clone(), Some(normals.clone()), None).unwrap();
            comp.transform(&(u * t));
            cloud.transform(&t.inverse());
            let vecs: Vec<Point3> = (&pts).transform_by(&t);
            // mesh
            let mut mesh = Mesh::create_box(fx(&c["box"][0]), fx(&c["box"][1]), fx(&c["box"][2]), false);
            let m0 = mesh.surf_closest_to(&q);
            mesh.transform(&t);
            let m1 = mesh.surf_closest_to(&tq);
            // a flat plate carrying a UV map (u, v) = (x, y): the UV answer for a point given in another frame together with
            // the transform into the mesh frame, and for the moved scene
            let uvj = |r: Option<(Point2, f64)>| r.map(|(uv, depth)| json!([hp2(&uv), hx(depth)]));
            let (pv, pf) = { let mut v = vec![]; let mut f = vec![];
                for j in 0..4 { for i in 0..4 { v.push(Point3::new(i as f64, j as f64, 0.0)); } }
                for j in 0..3u32 { for i in 0..3u32 { let a = j * 4 + i; f.push([a, a + 1, a + 5]); f.push([a, a + 5, a + 4]); } }
                (v, f) };
            let uvm = engeom::geom3::mesh::UvMapping::new(pv.iter().map(|p| Point2::new(p.x, p.y)).collect(), pf.clone()).unwrap();
            let plate = Mesh::new_with_uv(pv.clone(), pf.clone(), false, Some(uvm.clone()));
            let mut plate_m = Mesh::new_with_uv(pv.clone(), pf.clone(), false, Some(uvm));
            plate_m.transform(&t);
            let half = std::f64::consts::FRAC_PI_2;
            let uvs = json!({"direct": uvj(plate.uv_with_tol(&q, 1e3, half, None)), "via": uvj(plate.uv_with_tol(&(t.inverse() * q), 1e3, half, Some(&t))),
                             "moved": uvj(plate_m.uv_with_tol(&tq, 1e3, half, None)), "moved_via": uvj(plate_m.uv_with_tol(&q, 1e3, half, Some(&t)))});
            // distances 2d <-> 3d
            // an explicit (oblique, possibly opposing) measuring direction, or the default a -> b
            let dir2 = if c["dir2"].is_null() { None } else { Some(UnitVec2::new_normalize(v2(&c["dir2"]))) };
            let d2 = Distance2::new(Point2::new(q.x, q.y), Point2::new(pts[0].x, pts[0].y), dir2);
            let d3 = d2.to_3d(&t);
            let d2b = d3.to_2d(&t.inverse());
            json!({"iso": iso3v(&t), "iso2": iso3v(&u), "tq": hp3(&tq),
                   "plane": {"n": hv3(&plane.normal.into_inner()), "d": hx(plane.d), "signed": hx(plane.signed_distance_to_point(&q)), "proj": hp3(&plane.project_point(&q)),
                             "tn": hv3(&tp.normal.into_inner()), "td": hx(tp.d), "tsigned": hx(tp.signed_distance_to_point(&tq)), "tproj": hp3(&tp.project_point(&tq))},
                   "sp": {"proj": hx(sp.scalar_projection(&q)), "planar": hx(sp.planar_distance(&q)), "tproj": hx(spt.scalar_projection(&tq)), "tplanar": hx(spt.planar_distance(&tq)),
                          "tp": hp3(&spt.point), "tn": hv3(&spt.normal.into_inner()), "n": hv3(&n.into_inner())},
                   "cloud": {"pts": c1, "normals": n1, "normals0": normals.iter().map(|v| hv3(&v.into_inner())).collect::<Vec<_>>(),
                             "back": cloud.points().iter().map(hp3).collect::<Vec<_>>(), "seq": seq.points().iter().map(hp3).collect::<Vec<_>>(),
                             "comp": comp.points().iter().map(hp3).collect::<Vec<_>>(), "vec": vecs.iter().map(hp3).collect::<Vec<_>>()},
                   "uv": uvs,
                   "mesh": {"p0": hp3(&m0.point), "n0": hv3(&m0.normal.into_inner()), "p1": hp3(&m1.point), "n1": hv3(&m1.normal.into_inner())},
                   "dist": {"dir2": hv2(&d2.direction.into_inner()), "dir3": hv3(&d3.direction.into_inner()), "v2": hx(d2.value()), "v3": hx(d3.value()), "v2b": hx(d2b.value()), "a3": hp3(&d3.a), "b3": hp3(&d3.b)}})
        }
        _ => json!({"unknown": k}),
    }
}
