use crate::util::*;
use engeom::common::{linear_space, DiscreteDomain};
use engeom::func1::Series1;
use serde_json::{json, Value};

fn ser(s: &Series1) -> Value {
    json!({"x": hxs(s.x.values()), "y": hxs(&s.y)})
}
fn guard<F: FnOnce() -> Value + std::panic::UnwindSafe>(f: F) -> Value {
    match std::panic::catch_unwind(f) { Ok(v) => v, Err(_) => json!({"panic": true}) }
}

pub fn run(k: &str, c: &Value) -> Value {
    match k {
        "c17.domain" => {
            let vals = fxs(&c["vals"]);
            let tf = match DiscreteDomain::try_from(vals.clone()) { Ok(d) => json!(hxs(d.values())), Err(_) => Value::Null };
            // push history
            let mut d = DiscreteDomain::default();
            let mut pushes = vec![];
            for v in fxs(&c["pushes"]) {
                let ok = d.push(v).is_ok();
                pushes.push(json!({"ok": ok, "vals": hxs(d.values())}));
            }
            let (a, b, n) = (fx(&c["a"]), fx(&c["b"]), us(&c["n"]));
            let lin = guard(move || json!(hxs(DiscreteDomain::linear(a, b, n).values())));
            let lin_r = guard(move || json!(hxs(DiscreteDomain::linear(b, a, n).values())));
            let ls = guard(move || json!(hxs(linear_space(a, b, n).values())));
            json!({"try_from": tf, "pushes": pushes, "linear": lin, "linear_rev": lin_r, "linear_space": ls})
        }
        "c17.series" => {
            let xs = fxs(&c["xs"]);
            let ys = fxs(&c["ys"]);
            let s = match Series1::try_new(xs, ys) { Ok(s) => s, Err(_) => return json!({"err": true}) };
            let qs = fxs(&c["qs"]);
            let s1 = s.clone();
            let interp: Vec<Value> = qs.iter().map(|q| { let s2 = s1.clone(); let q = *q; guard(move || hx(s2.interpolate(q))) }).collect();
            let s1 = s.clone();
            let after: Vec<Value> = qs.iter().map(|q| { let s2 = s1.clone(); let q = *q; guard(move || json!(s2.index_of_x_after(q))) }).collect();
            let (sx, sy, dx, dy) = (fx(&c["sx"]), fx(&c["sy"]), fx(&c["dx"]), fx(&c["dy"]));
            let s2 = s.clone(); let scaled = guard(move || ser(&s2.scaled_by(sx, sy)));
            let s2 = s.clone(); let shifted = guard(move || ser(&s2.shift_by(dx, dy)));
            let (x0, x1) = (fx(&c["x0"]), fx(&c["x1"]));
            let s2 = s.clone(); let between = guard(move || ser(&s2.between(x0, x1)));
            let s2 = s.clone();
            let split = guard(move || { let (a, b) = s2.split_at_x(x0); json!({"a": a.map(|t| ser(&t)), "b": b.map(|t| ser(&t))}) });
            let s2 = s.clone(); let area = guard(move || hx(s2.area_under()));
            let s2 = s.clone();
            let split_areas = guard(move || { let (a, b) = s2.split_at_x(x0);
                json!({"a": a.map(|t| hx(t.area_under())), "b": b.map(|t| hx(t.area_under()))}) });
            let level = fx(&c["level"]);
            let s2 = s.clone(); let cross = guard(move || json!(hxs(&s2.y_crossings(level))));
            let n = us(&c["n"]);
            let s2 = s.clone(); let res = guard(move || ser(&s2.resampled_n(n)));
            let sp = fx(&c["spacing"]);
            let s2 = s.clone(); let resx = guard(move || ser(&s2.resampled_x(sp)));
            let s2 = s.clone(); let bnds = guard(move || json!(s2.bounds_at_y0().iter().map(|i| json!([hx(i.min), hx(i.max)])).collect::<Vec<_>>()));
            // further derived series: NaN removal (ordinates listed in "nan_at" are replaced by NaN first), the interval form of a slice,
            // absolute value, derivative, smoothing
            let nan_at: Vec<usize> = c["nan_at"].as_array().map(|a| a.iter().map(us).collect()).unwrap_or_default();
            let s2 = s.clone(); let nan_at2 = nan_at.clone();
            let removed = guard(move || { let mut ys = s2.xys().map(|(_, y)| *y).collect::<Vec<_>>(); for i in &nan_at2 { if *i < ys.len() { ys[*i] = f64::NAN; } }
                let xs: Vec<f64> = s2.xys().map(|(x, _)| *x).collect(); let t = Series1::try_new(xs, ys).unwrap();
                json!({"has_nan": t.has_nan(), "out": ser(&t.remove_nan())}) });
            let s2 = s.clone(); let in_iv = guard(move || ser(&s2.in_interval(engeom::common::Interval::new(x0, x1))));
            let s2 = s.clone(); let abs_s = guard(move || ser(&s2.abs()));
            let s2 = s.clone(); let dydx = guard(move || ser(&s2.dydx()));
            let s2 = s.clone();
            let extremes = guard(move || { let (gx, gy) = s2.global_maxima_xy(); let (mx, my) = s2.global_minima_xy();
                json!({"x_min": hx(s2.x_min()), "x_max": hx(s2.x_max()), "y_min": hx(s2.y_min()), "y_max": hx(s2.y_max()), "gmax": [hx(gx), hx(gy)], "gmin": [hx(mx), hx(my)],
                       "ordered": s2.is_ordered(), "npoints": s2.as_points().len(), "interval": [hx(s2.interval().min), hx(s2.interval().max)]}) });
            json!({"removed": removed, "in_interval": in_iv, "abs": abs_s, "dydx": dydx, "extremes": extremes,
                   "interp": interp, "after": after, "scaled": scaled, "shifted": shifted, "between": between, "split": split,
                   "area": area, "split_areas": split_areas, "cross": cross, "resampled": res, "resampled_x": resx, "bounds_y0": bnds})
        }
        _ => json!({"unknown": k}),
    }
}
