use crate::util::*;
use engeom::geom3::{Mesh, UvMapping};
use engeom::Point3;
use serde_json::{json, Value};

fn faces_of(c: &Value) -> Vec<[u32; 3]> {
    c["faces"].as_array().unwrap().iter().map(|f| [us(&f[0]) as u32, us(&f[1]) as u32, us(&f[2]) as u32]).collect()
}

pub fn run(k: &str, c: &Value) -> Value {
    match k {
        "c20.flatten" => {
            let mesh = Mesh::new(p3s(&c["verts"]), faces_of(c), false);
            let edges = match mesh.calc_edges() { Ok(e) => e, Err(_) => return json!({"edges_err": true}) };
            match std::panic::catch_unwind(std::panic::AssertUnwindSafe(|| edges.boundary_first_flatten())) {
                Ok(Ok(uv)) => {
                    let moved = if c["moved"].is_null() { Value::Null } else {
                        let m2 = Mesh::new(p3s(&c["moved"]), faces_of(c), false);
                        match m2.calc_edges().ok().and_then(|e| e.boundary_first_flatten().ok()) {
                            Some(uv2) => json!(uv2.iter().map(hp2).collect::<Vec<_>>()), None => json!({"err": true}) } };
                    json!({"uv": uv.iter().map(hp2).collect::<Vec<_>>(), "loops": edges.boundary_loops.len(), "moved": moved})
                }
                Ok(Err(_)) => json!({"err": true, "loops": edges.boundary_loops.len()}),
                Err(_) => json!({"panic": true}),
            }
        }
        "c20.internals" => {
            // engeom's own arithmetic upstream of the sparse solver (hook conformal_verif) together with the edge table it reads
            use engeom::geom3::mesh::conformal_verif as cv;
            let mesh = Mesh::new(p3s(&c["verts"]), faces_of(c), false);
            let edges = match mesh.calc_edges() { Ok(e) => e, Err(_) => return json!({"edges_err": true}) };
            if edges.boundary_loops.len() != 1 { return json!({"loops": edges.boundary_loops.len()}); }
            let ib = edges.boundary_loops[0].clone();
            let r = std::panic::catch_unwind(std::panic::AssertUnwindSafe(|| {
                let fa = cv::face_angles(&edges).unwrap();
                let df = cv::angle_defects(&edges, &ib).unwrap();
                let tr = cv::laplacian_triplets(&edges).unwrap();
                let bl = cv::boundary_lengths(&edges, &ib);
                let bm = cv::boundary_vertex_masses(&bl);
                let cs = cv::cumulative(&bl, -0.5);
                json!({"edges": edges.edges.iter().map(|e| json!([e[0], e[1]])).collect::<Vec<_>>(),
                       "face_edges": edges.face_edges.iter().map(|e| json!([e[0], e[1], e[2]])).collect::<Vec<_>>(),
                       "edge_lengths": hxs(&edges.edge_lengths), "bound": ib,
                       "angles": fa.iter().map(|a| json!([hx(a[0]), hx(a[1]), hx(a[2])])).collect::<Vec<_>>(),
                       "defects": hxs(&df), "triplets": tr.iter().map(|t| json!([t.0, t.1, hx(t.2)])).collect::<Vec<_>>(),
                       "blen": hxs(&bl), "bmass": hxs(&bm), "cumsum": hxs(&cs)})
            }));
            match r { Ok(v) => v, Err(_) => json!({"panic": true}) }
        }
        "c20.uv" => {
            let verts = p3s(&c["verts"]);
            let faces = faces_of(c);
            let uvmap = match UvMapping::new(p2s(&c["uvs"]), faces.clone()) { Ok(m) => m, Err(_) => return json!({"err": true}) };
            let mesh = Mesh::new_with_uv(verts.clone(), faces.clone(), false, Some(uvmap.clone()));
            let out: Vec<Value> = c["queries"].as_array().unwrap().iter().map(|q| {
                let f = faces[us(&q[0])];
                let bc = [fx(&q[1]), fx(&q[2]), fx(&q[3])];
                let p3 = Point3::from(verts[f[0] as usize].coords * bc[0] + verts[f[1] as usize].coords * bc[1] + verts[f[2] as usize].coords * bc[2]);
                let uv0 = uvmap.point(us(&q[0]), bc);
                let tri = std::panic::catch_unwind(std::panic::AssertUnwindSafe(|| uvmap.triangle(&uv0)));
                let (triv, back_uv) = match tri {
                    Ok(Some((id, b))) => (json!({"id": id, "bc": [hx(b[0]), hx(b[1]), hx(b[2])]}), json!(hp2(&uvmap.point(id, b)))),
                    Ok(None) => (Value::Null, Value::Null),
                    Err(_) => (json!({"panic": true}), Value::Null),
                };
                let to3 = std::panic::catch_unwind(std::panic::AssertUnwindSafe(|| mesh.uv_to_3d(&uv0))).ok().flatten().map(|s| hp3(&s.point));
                let from3 = mesh.uv_with_tol(&p3, 1e-3, std::f64::consts::FRAC_PI_2, None).map(|(uv, depth)| json!([hp2(&uv), hx(depth)]));
                // the same query given in another frame together with the transform that brings it into the mesh's frame
                let from3_t = if c["frame"].is_null() { Value::Null } else {
                    let f = &c["frame"];
                    let t = engeom::Iso3::new(engeom::Vector3::new(fx(&f[0]), fx(&f[1]), fx(&f[2])), engeom::Vector3::new(fx(&f[3]), fx(&f[4]), fx(&f[5])));
                    let other = t.inverse() * p3;
                    json!({"back": hp3(&(t * other)), "r": mesh.uv_with_tol(&other, 1e-3, std::f64::consts::FRAC_PI_2, Some(&t)).map(|(uv, depth)| json!([hp2(&uv), hx(depth)]))})
                };
                json!({"p3": hp3(&p3), "uv": hp2(&uv0), "tri": triv, "uv_back": back_uv, "to3": to3, "from3": from3, "from3_t": from3_t})
            }).collect();
            // a mesh that carries a UV map has one UV triangle per face, whatever is done to it: appending a piece without a map
            // (and a mapped mesh onto an unmapped one) either fails or leaves the two in step, and the round trip still holds
            let piece = Mesh::new(verts.iter().map(|p| Point3::new(p.x + 100.0, p.y, p.z)).collect(), faces.clone(), false);
            let mut grown = mesh.clone();
            let ok = grown.append(&piece).is_ok();
            let mut grown2 = piece.clone();
            let ok2 = grown2.append(&mesh).is_ok();
            let q0 = Point3::from((verts[faces[0][0] as usize].coords + verts[faces[0][1] as usize].coords + verts[faces[0][2] as usize].coords) / 3.0);
            let far = Point3::new(q0.x + 100.0, q0.y, q0.z);
            let probe = |m: &Mesh, p: &Point3| std::panic::catch_unwind(std::panic::AssertUnwindSafe(|| m.uv_with_tol(p, 1e-3, std::f64::consts::FRAC_PI_2, None)
                .and_then(|(uv, _)| m.uv_to_3d(&uv)).map(|s| hp3(&s.point)))).map_err(|_| ()).ok();
            let append = json!({"ok": ok, "faces": grown.faces().len(), "uv_faces": grown.uv().map(|u| u.faces().len()),
                                "ok_rev": ok2, "faces_rev": grown2.faces().len(), "uv_faces_rev": grown2.uv().map(|u| u.faces().len()),
                                "q0": hp3(&q0), "far": hp3(&far),
                                "near_trip": match probe(&grown, &q0) { Some(v) => json!(v), None => json!({"panic": true}) },
                                "far_trip": match probe(&grown, &far) { Some(v) => json!(v), None => json!({"panic": true}) }});
            json!({"out": out, "append": append})
        }
        _ => json!({"unknown": k}),
    }
}
