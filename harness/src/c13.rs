use crate::util::*;
use engeom::common::SplitResult;
use engeom::geom3::{Mesh, Plane3, UnitVec3};
use engeom::{Iso3, Point3};
use parry3d_f64::query::IntersectResult;
use serde_json::{json, Value};

fn mesh_of(c: &Value) -> Mesh {
    let verts = p3s(&c["verts"]);
    let faces: Vec<[u32; 3]> = c["faces"].as_array().unwrap().iter().map(|f| [us(&f[0]) as u32, us(&f[1]) as u32, us(&f[2]) as u32]).collect();
    Mesh::new(verts, faces, false)
}
fn area(m: &Mesh) -> f64 { m.tri_mesh().triangles().map(|t| t.area()).sum() }
fn meshv(m: &Mesh) -> Value {
    json!({"verts": m.vertices().iter().map(hp3).collect::<Vec<_>>(), "faces": m.faces().iter().map(|f| json!([f[0], f[1], f[2]])).collect::<Vec<_>>(), "area": hx(area(m))})
}

pub fn run(k: &str, c: &Value) -> Value {
    match k {
        "c13.section" => {
            let mesh = mesh_of(c);
            let n = UnitVec3::new_normalize(v3(&c["n"]));
            // the same plane through each of its constructors: (normal, d), three of its points, normal + point, a surface point
            let plane = {
                let d = fx(&c["d"]);
                let nv = n.into_inner();
                let p0 = engeom::Point3::from(nv * d);
                let helper = if nv.x.abs() < 0.9 { engeom::Vector3::x() } else { engeom::Vector3::y() };
                let u = nv.cross(&helper).normalize();
                let v = nv.cross(&u);
                let (s1, s2) = if c["via_s"].is_null() { (1.0, 1.0) } else { (fx(&c["via_s"][0]), fx(&c["via_s"][1])) };
                match c["via"].as_str().unwrap_or("nd") {
                    "three" => Plane3::from((&p0, &(p0 + u * s1), &(p0 + v * s2))),
                    "pn" => Plane3::from((&n, &(p0 + u * s1 + v * s2))),
                    "sp" => Plane3::from(&engeom::SurfacePoint3::new(p0 + u * s2, n)),
                    // the plane of a station of a guide curve running along the normal: part-way along an edge, and at the last vertex
                    "st" | "stb" => {
                        let pp = p0 + u * s2;
                        let last = if c["via"] == "st" { pp + nv * (1.3 * s1) } else { pp };
                        let guide = engeom::Curve3::from_points(&[pp - nv * (2.0 * s1), pp - nv * (0.7 * s1), last], 1e-9).unwrap();
                        let st = if c["via"] == "st" { guide.at_length(2.0 * s1).unwrap() } else { guide.at_back() };
                        st.plane()
                    }
                    _ => Plane3::new(n, d),
                }
            };
            let tol = fx(&c["tol"]);
            // what parry hands to engeom
            let raw = match mesh.tri_mesh().intersection_with_local_plane(&plane.normal, plane.d, 1.0e-6) {
                IntersectResult::Intersect(pl) => json!({"verts": pl.vertices().iter().map(hp3).collect::<Vec<_>>(),
                                                         "pairs": pl.indices().iter().map(|i| json!([i[0], i[1]])).collect::<Vec<_>>()}),
                IntersectResult::Negative => json!({"side": "negative"}),
                IntersectResult::Positive => json!({"side": "positive"}),
            };
            let curves = match std::panic::catch_unwind(std::panic::AssertUnwindSafe(|| mesh.section(&plane, Some(tol)))) {
                Ok(Ok(cs)) => Value::Array(cs.iter().map(|cv| json!({"points": cv.points().iter().map(hp3).collect::<Vec<_>>(), "length": hx(cv.length())})).collect()),
                Ok(Err(_)) => json!({"err": true}),
                Err(_) => json!({"panic": true}),
            };
            let split = match std::panic::catch_unwind(std::panic::AssertUnwindSafe(|| mesh.split(&plane))) {
                Ok(SplitResult::Pair(a, b)) => json!({"pair": [meshv(&a), meshv(&b)]}),
                Ok(SplitResult::Negative) => json!({"side": "negative"}),
                Ok(SplitResult::Positive) => json!({"side": "positive"}),
                Err(_) => json!({"panic": true}),
            };
            // the same after a rigid motion of mesh and plane together
            let t = Iso3::new(v3(&c["iso"]["t"]), v3(&c["iso"]["axisangle"]));
            let mut moved = mesh_of(c);
            moved.transform(&t);
            let mplane = plane.transform_by(&t);
            let mcurves = match std::panic::catch_unwind(std::panic::AssertUnwindSafe(|| moved.section(&mplane, Some(tol)))) {
                Ok(Ok(cs)) => Value::Array(cs.iter().map(|cv| { let back: Vec<Point3> = cv.points().iter().map(|p| t.inverse() * p).collect();
                    json!({"points": back.iter().map(hp3).collect::<Vec<_>>(), "length": hx(cv.length())}) }).collect()),
                _ => json!({"err": true}),
            };
            json!({"n": hv3(&n.into_inner()), "raw": raw, "curves": curves, "split": split, "moved": mcurves, "area": hx(area(&mesh))})
        }
        _ => json!({"unknown": k}),
    }
}
