use crate::util::*;
use engeom::{Curve2, Curve3};
use serde_json::{json, Value};

fn next_after(x: f64, up: bool) -> f64 {
    if x.is_nan() || x.is_infinite() { return x; }
    if x == 0.0 { return if up { f64::from_bits(1) } else { -f64::from_bits(1) }; }
    let b = x.to_bits();
    let nb = if (x > 0.0) == up { b + 1 } else { b - 1 };
    f64::from_bits(nb)
}

// symbolic length -> concrete f64 against the implementation's own cumulative lengths
fn resolve(q: &Value, lengths: &[f64]) -> f64 {
    let total = *lengths.last().unwrap();
    let base = match q["kind"].as_str().unwrap() {
        "vertex" => lengths[us(&q["k"]).min(lengths.len() - 1)],
        "frac" => fx(&q["f"]) * total,
        "edge" => { let k = us(&q["k"]).min(lengths.len() - 2); lengths[k] + fx(&q["f"]) * (lengths[k + 1] - lengths[k]) }
        _ => fx(&q["l"]),
    };
    match q["ulp"].as_i64().unwrap_or(0) { 1 => next_after(base, true), -1 => next_after(base, false), _ => base }
}

pub fn run(k: &str, c: &Value) -> Value {
    match k {
        "c01.curve2" => {
            let pts = p2s(&c["pts"]);
            let curve = match Curve2::from_points(&pts, fx(&c["tol"]), c["force_closed"].as_bool().unwrap()) {
                Ok(c) => c,
                Err(_) => return json!({"err": true}),
            };
            let lengths = curve.lengths().clone();
            let st = |s: &engeom::CurveStation2| json!({
                "index": s.index(), "fraction": hx(s.fraction()), "length_along": hx(s.length_along()),
                "point": hp2(&s.point()), "dir": hv2(&s.direction().into_inner()), "normal": hv2(&s.normal().into_inner())});
            let mut out = vec![];
            for q in c["queries"].as_array().unwrap() {
                let l = resolve(q, &lengths);
                let a = curve.at_length(l).map(|s| st(&s));
                let f = l / curve.length();
                let b = curve.at_fraction(f).map(|s| st(&s));
                out.push(json!({"l": hx(l), "at_length": a, "f": hx(f), "at_fraction": b}));
            }
            let iter: Vec<Value> = curve.iter().map(|s| st(&s)).collect();
            json!({"lengths": hxs(&lengths), "length": hx(curve.length()), "closed": curve.is_closed(), "count": curve.count(),
                   "points": curve.points().iter().map(hp2).collect::<Vec<_>>(), "queries": out, "iter": iter,
                   "front": st(&curve.at_front()), "back": st(&curve.at_back())})
        }
        "c01.curve3" => {
            let pts = p3s(&c["pts"]);
            let curve = match Curve3::from_points(&pts, fx(&c["tol"])) {
                Ok(c) => c,
                Err(_) => return json!({"err": true}),
            };
            let lengths = curve.lengths().to_vec();
            let st = |s: &engeom::CurveStation3| json!({
                "index": s.index(), "fraction": hx(s.fraction()), "length_along": hx(s.length_along()),
                "point": hp3(&s.point()), "dir": hv3(&s.direction().into_inner())});
            let mut out = vec![];
            for q in c["queries"].as_array().unwrap() {
                let l = resolve(q, &lengths);
                let a = curve.at_length(l).map(|s| st(&s));
                let f = l / curve.length();
                let b = curve.at_fraction(f).map(|s| st(&s));
                out.push(json!({"l": hx(l), "at_length": a, "f": hx(f), "at_fraction": b}));
            }
            json!({"lengths": hxs(&lengths), "length": hx(curve.length()), "count": curve.count(),
                   "points": curve.points().iter().map(hp3).collect::<Vec<_>>(), "queries": out})
        }
        _ => json!({"unknown": k}),
    }
}
