use crate::util::*;
use engeom::common::DistMode;
use engeom::geom2::align2::points_to_curve;
use engeom::geom3::align3::points_to_mesh;
use engeom::geom3::Mesh;
use engeom::{Curve2, Iso2, Iso3, Point2, Point3, Vector2, Vector3};
use serde_json::{json, Value};

fn iso2(v: &Value) -> Iso2 { Iso2::new(Vector2::new(fx(&v[0]), fx(&v[1])), fx(&v[2])) }
fn iso3(v: &Value) -> Iso3 { Iso3::new(Vector3::new(fx(&v[0]), fx(&v[1]), fx(&v[2])), Vector3::new(fx(&v[3]), fx(&v[4]), fx(&v[5]))) }
fn iso2v(i: &Iso2) -> Value { let x = i * Vector2::x(); let o = i * Point2::origin(); json!({"c": hx(x.x), "s": hx(x.y), "t": hp2(&o)}) }
fn iso3v(i: &Iso3) -> Value {
    let (x, y, z) = (i * Vector3::x(), i * Vector3::y(), i * Vector3::z());
    json!({"x": hv3(&x), "y": hv3(&y), "z": hv3(&z), "t": hp3(&(i * Point3::origin()))})
}

pub fn run(k: &str, c: &Value) -> Value {
    match k {
        "c07.curve" => {
            let curve = match Curve2::from_points(&p2s(&c["ref"]), 1e-8, true) { Ok(c) => c, Err(_) => return json!({"err_curve": true}) };
            let pts: Vec<Point2> = if !c["pts"].is_null() { p2s(&c["pts"]) } else { fxs(&c["fs"]).iter().filter_map(|f| curve.at_fraction(*f).map(|s| s.point())).collect() };
            // "pre": a further rigid motion of the scanned points, undone in the guess: the guess stays as close to the answer
            let pre = if c["pre"].is_null() { Iso2::identity() } else { iso2(&c["pre"]) };
            let disp = pre * iso2(&c["disp"]);
            let displaced: Vec<Point2> = pts.iter().map(|p| disp * p).collect();
            let init = iso2(&c["init"]) * pre.inverse();
            let eval = |t: &Iso2| -> Vec<Value> { displaced.iter().map(|p| { let m = t * p; let s = curve.at_closest_to_point(&m);
                let sp = s.surface_point(); json!({"moved": hp2(&m), "closest": hp2(&sp.point), "normal": hv2(&sp.normal.into_inner()), "proj": hx(sp.scalar_projection(&m)),
                "dist": hx(curve.dist_to_point(&m)), "fraction": hx(s.fraction()), "index": s.index()}) }).collect() };
            let r = match std::panic::catch_unwind(std::panic::AssertUnwindSafe(|| points_to_curve(&displaced, &curve, &init))) {
                Ok(Ok(a)) => json!({"transform": iso2v(a.transform()), "residuals": hxs(a.residuals()), "avg": hx(a.avg_residual()), "at_result": eval(a.transform())}),
                Ok(Err(_)) => json!({"err": true}),
                Err(_) => json!({"panic": true}),
            };
            json!({"curve": curve.points().iter().map(hp2).collect::<Vec<_>>(), "points": pts.iter().map(hp2).collect::<Vec<_>>(), "displaced": displaced.iter().map(hp2).collect::<Vec<_>>(),
                   "disp": iso2v(&disp), "init": iso2v(&init), "at_init": eval(&init), "result": r})
        }
        "c07.mesh" => {
            let verts = p3s(&c["verts"]);
            let faces: Vec<[u32; 3]> = c["faces"].as_array().unwrap().iter().map(|f| [us(&f[0]) as u32, us(&f[1]) as u32, us(&f[2]) as u32]).collect();
            let mesh = Mesh::new(verts.clone(), faces.clone(), false);
            let pts: Vec<Point3> = c["samples"].as_array().unwrap().iter().map(|q| { let f = faces[us(&q[0])];
                Point3::from(verts[f[0] as usize].coords * fx(&q[1]) + verts[f[1] as usize].coords * fx(&q[2]) + verts[f[2] as usize].coords * fx(&q[3])) }).collect();
            // "pre_inv_euler": the inverse of the further motion given as translation + Euler angles (roll, pitch, yaw), so that the
            // guess (guess * pre^-1) has exactly those Euler angles when the small guess is the identity (gimbal-lock poses)
            let pre = if !c["pre_inv_euler"].is_null() { let e = &c["pre_inv_euler"];
                    Iso3::from_parts(parry3d_f64::na::Translation3::new(fx(&e[0]), fx(&e[1]), fx(&e[2])), { use parry3d_f64::na::{UnitQuaternion as Q, Vector3 as V};
                        // engeom's convention: Rx * Ry * Rz
                        Q::from_axis_angle(&V::x_axis(), fx(&e[3])) * Q::from_axis_angle(&V::y_axis(), fx(&e[4])) * Q::from_axis_angle(&V::z_axis(), fx(&e[5])) }).inverse() }
                else if c["pre"].is_null() { Iso3::identity() } else { iso3(&c["pre"]) };
            let disp = pre * iso3(&c["disp"]);
            let displaced: Vec<Point3> = pts.iter().map(|p| disp * p).collect();
            // "init_exact": the guess is the answer itself (a stored result used again)
            let init = if c["init_exact"].as_bool().unwrap_or(false) { disp.inverse() } else { iso3(&c["init"]) * pre.inverse() };
            let to_point = c["mode"].as_str().unwrap() == "point";
            let eval = |t: &Iso3| -> Vec<Value> { displaced.iter().map(|p| { let m = t * p; let sp = mesh.surf_closest_to(&m);
                json!({"moved": hp3(&m), "closest": hp3(&sp.point), "normal": hv3(&sp.normal.into_inner()), "proj": hx(sp.scalar_projection(&m)), "dist": hx((m - sp.point).norm())}) }).collect() };
            let mode = || if to_point { DistMode::ToPoint } else { DistMode::ToPlane };
            let r = match std::panic::catch_unwind(std::panic::AssertUnwindSafe(|| points_to_mesh(&displaced, &mesh, &init, mode()))) {
                Ok(Ok(a)) => json!({"transform": iso3v(a.transform()), "residuals": hxs(a.residuals()), "at_result": eval(a.transform())}),
                Ok(Err(_)) => json!({"err": true}),
                Err(_) => json!({"panic": true}),
            };
            json!({"points": pts.iter().map(hp3).collect::<Vec<_>>(), "displaced": displaced.iter().map(hp3).collect::<Vec<_>>(), "disp": iso3v(&disp), "init": iso3v(&init),
                   "at_init": eval(&init), "result": r})
        }
        _ => json!({"unknown": k}),
    }
}
