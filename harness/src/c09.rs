use crate::util::*;
use engeom::common::BestFit;
use engeom::func1::{Func1, Polynomial, Series1};
use engeom::geom2::circle2_verif::CircleFitDriver;
use engeom::{Circle2, Point2};
use serde_json::{json, Value};

fn fit<const K: usize>(xs: &[f64], ys: &[f64], w: Option<&[f64]>, probe: &[f64]) -> Value {
    let p = Polynomial::<K>::least_squares(xs, ys, w);
    json!({"c": hxs(&p.c), "f": hxs(&probe.iter().map(|x| p.f(*x)).collect::<Vec<_>>())})
}

fn mode_of(v: &Value) -> BestFit {
    if v.is_null() { BestFit::All } else { BestFit::Gaussian(fx(v)) }
}

pub fn run(k: &str, c: &Value) -> Value {
    match k {
        "c09.poly" => {
            let xs = fxs(&c["xs"]);
            let ys = fxs(&c["ys"]);
            let w = if c["w"].is_null() { None } else { Some(fxs(&c["w"])) };
            let probe = fxs(&c["probe"]);
            let wr = w.as_deref();
            match us(&c["K"]) {
                2 => fit::<2>(&xs, &ys, wr, &probe),
                3 => fit::<3>(&xs, &ys, wr, &probe),
                4 => fit::<4>(&xs, &ys, wr, &probe),
                5 => fit::<5>(&xs, &ys, wr, &probe),
                6 => fit::<6>(&xs, &ys, wr, &probe),
                _ => json!({"unknown": "K"}),
            }
        }
        "c09.line" => {
            let xs = fxs(&c["xs"]);
            let ys = fxs(&c["ys"]);
            let s = match Series1::try_new(xs.clone(), ys.clone()) { Ok(s) => s, Err(_) => return json!({"err": true}) };
            let l = s.best_fit_line();
            let p = Polynomial::<2>::least_squares(&xs, &ys, None);
            // the line through the first and the last sample, in both argument orders
            let n = xs.len();
            let two = |a: usize, b: usize| match engeom::func1::Line1::try_from_points(xs[a], ys[a], xs[b], ys[b]) {
                Ok(l) => json!([hx(l.m()), hx(l.b())]), Err(_) => Value::Null };
            json!({"m": hx(l.m()), "b": hx(l.b()), "pc": hxs(&p.c), "two": two(0, n - 1), "two_rev": two(n - 1, 0)})
        }
        "c09.circle3" => {
            let (p0, p1, p2) = (p2(&c["p0"]), p2(&c["p1"]), p2(&c["p2"]));
            match Circle2::from_3_points(p0, p1, p2) {
                Ok(ci) => json!({"x": hx(ci.x()), "y": hx(ci.y()), "r": hx(ci.r())}),
                Err(_) => json!({"err": true}),
            }
        }
        "c09.fit" => {
            let pts = p2s(&c["pts"]);
            let g = fxs(&c["guess"]);
            let guess = Circle2::new(g[0], g[1], g[2]);
            match Circle2::fitting_circle(&pts, &guess, mode_of(&c["sigma"])) {
                Ok(ci) => json!({"x": hx(ci.x()), "y": hx(ci.y()), "r": hx(ci.r())}),
                Err(_) => json!({"err": true}),
            }
        }
        // drive the private LM problem through a parameter history
        "c09.problem" => {
            let pts = p2s(&c["pts"]);
            let g = fxs(&c["guess"]);
            let guess = Circle2::new(g[0], g[1], g[2]);
            let mut d = CircleFitDriver::new(&pts, mode_of(&c["sigma"]), &guess);
            let obs = |d: &CircleFitDriver| json!({"params": hxs(&d.params()), "res": hxs(&d.residuals()), "w": hxs(&d.weights()),
                                                   "jac": d.jacobian().iter().map(|r| hxs(r)).collect::<Vec<_>>()});
            let mut out = vec![obs(&d)];
            for h in c["history"].as_array().unwrap() {
                let x = fxs(h);
                d.set_params(x[0], x[1], x[2]);
                out.push(obs(&d));
            }
            json!({"out": out})
        }
        "c09.ransac" => {
            let pts = p2s(&c["pts"]);
            let minr = if c["min_r"].is_null() { None } else { Some(fx(&c["min_r"])) };
            let maxr = if c["max_r"].is_null() { None } else { Some(fx(&c["max_r"])) };
            match Circle2::ransac(&pts, fx(&c["tol"]), Some(us(&c["iters"])), minr, maxr) {
                Ok(ci) => {
                    let inl = pts.iter().filter(|p| ci.distance_to(p).abs() < fx(&c["tol"])).count();
                    json!({"x": hx(ci.x()), "y": hx(ci.y()), "r": hx(ci.r()), "inliers": inl})
                }
                Err(_) => json!({"err": true}),
            }
        }
        _ => json!({"unknown": k}),
    }
}
