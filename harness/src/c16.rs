use crate::util::*;
use engeom::common::points::dist;
use engeom::common::{DiscreteDomain, DistMode, SurfacePoint};
use engeom::geom3::mesh::Mesh;
use engeom::geom3::{PointCloud, PointCloudFeatures};
use engeom::metrology::{
    DiscreteDomainTolMap, Distance2, Distance3, Measurement, SurfaceDeviation2, SurfaceDeviationSet2,
    Tolerance, ToleranceMap,
};
use engeom::{Curve2, Point2, Point3, UnitVec2, UnitVec3, Vector2, Vector3};
use serde_json::{json, Value};

fn mk_dev(d: f64) -> SurfaceDeviation2 {
    SurfaceDeviation2::new(
        SurfacePoint::new_normalize(Point2::new(d, 0.0), Vector2::new(0.0, 1.0)),
        d,
    )
}

fn sds_obs(s: &SurfaceDeviationSet2) -> Value {
    json!({
        "len": s.len(),
        "max": s.max().map(|d| hx(d.deviation)),
        "min": s.min().map(|d| hx(d.deviation)),
        "zone": hx(s.symmetrical_zone_size()),
    })
}

pub fn run(k: &str, c: &Value) -> Value {
    match k {
        // history of a SurfaceDeviationSet: new(init) then pushes; observation after every step
        "c16.sds" => {
            let init = fxs(&c["init"]);
            let pushes = fxs(&c["pushes"]);
            let mut s = if c["use_default"].as_bool().unwrap_or(false) {
                SurfaceDeviationSet2::default()
            } else {
                SurfaceDeviationSet2::new(init.iter().map(|d| mk_dev(*d)).collect())
            };
            let mut obs = vec![sds_obs(&s)];
            for d in pushes {
                s.push(mk_dev(d));
                obs.push(sds_obs(&s));
            }
            json!({ "obs": obs })
        }
        // tolerance map lookup: zone i is Tolerance(lower=i, upper=i+0.5)
        "c16.tolmap" => {
            let bp = fxs(&c["bp"]);
            let dom = match DiscreteDomain::try_from(bp.clone()) {
                Ok(d) => d,
                Err(_) => return json!({"err": "domain"}),
            };
            let zones: Vec<Tolerance> = (0..bp.len())
                .map(|i| Tolerance::new_unchecked(i as f64, i as f64 + 0.5))
                .collect();
            let map = match DiscreteDomainTolMap::try_new(dom.clone(), zones) {
                Ok(m) => m,
                Err(_) => return json!({"err": "map"}),
            };
            let xs = fxs(&c["xs"]);
            let mut out = vec![];
            for x in xs {
                let r = std::panic::catch_unwind(|| {
                    (map.get(x).map(|t| t.lower as i64), dom.index_of(x))
                });
                out.push(match r {
                    Ok((z, i)) => json!({"zone": z, "idx": opt_us(i)}),
                    Err(_) => json!({"panic": true}),
                });
            }
            // the tolerance zone type itself (metrology/tolerance.rs): bounds, membership, size, centre
            let (a, b) = (bp[0], *bp.last().unwrap());
            let t = Tolerance::try_new(a, b).ok();
            let sym = Tolerance::symmetrical(a, b - a);
            let symn = Tolerance::symmetrical(a, a - b);
            let zone = json!({"try_rev": Tolerance::try_new(b, a).is_ok(), "ok": t.is_some(),
                "conforms": t.map(|t| fxs(&c["xs"]).iter().map(|x| t.conforms(*x)).collect::<Vec<_>>()), "size": t.map(|t| hx(t.size())), "center": t.map(|t| hx(t.center())),
                "sym": [hx(sym.lower), hx(sym.upper)], "symn": [hx(symn.lower), hx(symn.upper)]});
            json!({ "out": out, "zone": zone })
        }
        // point cloud history. points are (id,0,0); normals (0,0,1); colors [id,0,0]
        "c16.cloud" => {
            let mk_pts = |v: &Value| -> Vec<Point3> {
                v.as_array().unwrap().iter().map(|i| Point3::new(i.as_f64().unwrap(), 0.0, 0.0)).collect()
            };
            let mk_nrm = |v: &Value| -> Option<Vec<UnitVec3>> {
                if v.is_null() { None } else {
                    Some(v.as_array().unwrap().iter()
                        .map(|i| UnitVec3::new_unchecked(Vector3::new(0.0, i.as_f64().unwrap(), 1.0))).collect())
                }
            };
            let mk_col = |v: &Value| -> Option<Vec<[u8; 3]>> {
                if v.is_null() { None } else {
                    Some(v.as_array().unwrap().iter().map(|i| [i.as_u64().unwrap() as u8, 0, 0]).collect())
                }
            };
            let obs = |s: &PointCloud| -> Value {
                json!({
                    "pts": s.points().iter().map(|p| p.x as i64).collect::<Vec<_>>(),
                    "nrm": s.normals().map(|n| n.iter().map(|v| v.y as i64).collect::<Vec<_>>()),
                    "col": s.colors().map(|n| n.iter().map(|v| v[0] as i64).collect::<Vec<_>>()),
                })
            };
            let init = &c["init"];
            let mut s = match PointCloud::try_new(mk_pts(&init["p"]), mk_nrm(&init["n"]), mk_col(&init["c"])) {
                Ok(s) => s,
                Err(_) => return json!({"init_err": true}),
            };
            let mut out = vec![json!({"tag": 0, "s": obs(&s)})];
            for o in c["ops"].as_array().unwrap() {
                let kind = o["op"].as_str().unwrap();
                let tag: i64 = match kind {
                    "append" => {
                        let n = if o["n"].is_null() { None } else {
                            Some(UnitVec3::new_unchecked(Vector3::new(0.0, o["n"].as_f64().unwrap(), 1.0))) };
                        let cc = if o["c"].is_null() { None } else { Some([o["c"].as_u64().unwrap() as u8, 0, 0]) };
                        match s.append(Point3::new(o["p"].as_f64().unwrap(), 0.0, 0.0), n, cc) { Ok(_) => 0, Err(_) => 1 }
                    }
                    "merge" => match PointCloud::try_new(mk_pts(&o["p"]), mk_nrm(&o["n"]), mk_col(&o["c"])) {
                        Ok(other) => match s.merge(other) { Ok(_) => 0, Err(_) => 1 },
                        Err(_) => 1,
                    },
                    "select" => {
                        let idx = uss(&o["idx"]);
                        let r = std::panic::catch_unwind(std::panic::AssertUnwindSafe(|| s.create_from_indices(&idx)));
                        match r { Ok(n) => { s = n; 0 } Err(_) => 2 }
                    }
                    _ => 9,
                };
                out.push(json!({"tag": tag, "s": obs(&s)}));
            }
            json!({ "out": out })
        }
        // 2D deviation of points from a curve
        "c16.dev2" => {
            let pts = p2s(&c["curve"]);
            let curve = match Curve2::from_points(&pts, fx(&c["tol"]), c["closed"].as_bool().unwrap()) {
                Ok(c) => c,
                Err(_) => return json!({"err": "curve"}),
            };
            let mut out = vec![];
            for q in p2s(&c["queries"]) {
                let st = curve.at_closest_to_point(&q);
                let d = engeom::metrology::line_profiles::point_curve2_deviation(&st, &q);
                out.push(json!({
                    "sp": hp2(&st.point()), "sn": hv2(&st.normal().into_inner()),
                    "dist": hx(curve.dist_to_point(&q)),
                    "n": hv2(&d.surface.normal.into_inner()), "p": hp2(&d.surface.point),
                    "dev": hx(d.deviation), "actual": hp2(&d.actual_point()),
                }));
            }
            json!({ "out": out })
        }
        // line_surface_deviations: every actual point whose closest station lies in the interval, in order, as a deviation set
        "c16.lsd" => {
            let pts = p2s(&c["curve"]);
            let curve = match Curve2::from_points(&pts, fx(&c["tol"]), c["closed"].as_bool().unwrap()) { Ok(c) => c, Err(_) => return json!({"err": "curve"}) };
            let actual = p2s(&c["queries"]);
            let iv = if c["interval"].is_null() { None } else { Some(engeom::common::Interval::new(fx(&c["interval"][0]), fx(&c["interval"][1]))) };
            let set = match std::panic::catch_unwind(std::panic::AssertUnwindSafe(|| engeom::metrology::line_profiles::line_surface_deviations(&curve, &actual, iv))) {
                Ok(s) => s, Err(_) => return json!({"panic": true}) };
            let each: Vec<Value> = actual.iter().map(|q| { let st = curve.at_closest_to_point(q); let d = engeom::metrology::line_profiles::point_curve2_deviation(&st, q);
                json!({"l": hx(st.length_along()), "dev": hx(d.deviation), "p": hp2(&d.surface.point), "n": hv2(&d.surface.normal.into_inner()), "q": hp2(q)}) }).collect();
            let zone = std::panic::catch_unwind(std::panic::AssertUnwindSafe(|| set.symmetrical_zone_size())).ok();
            json!({"set": set.iter().map(|d| json!({"dev": hx(d.deviation), "p": hp2(&d.surface.point), "n": hv2(&d.surface.normal.into_inner())})).collect::<Vec<_>>(), "each": each,
                   "max": set.max().map(|d| hx(d.deviation)), "min": set.min().map(|d| hx(d.deviation)), "zone": zone.map(hx), "length": hx(curve.length())})
        }
        // directed distance
        "c16.dist2" => {
            let a = p2(&c["a"]);
            let b = p2(&c["b"]);
            let dir = if c["dir"].is_null() { None } else { Some(UnitVec2::new_normalize(v2(&c["dir"]))) };
            let d = Distance2::new(a, b, dir);
            let r = d.reversed();
            let ctr = d.center();
            json!({"dir": hv2(&d.direction.into_inner()), "value": hx(d.value()), "rvalue": hx(r.value()),
                   "ra": hp2(&r.a), "rb": hp2(&r.b), "center": hp2(&ctr.point), "cn": hv2(&ctr.normal.into_inner())})
        }
        "c16.dist3" => {
            let a = p3(&c["a"]);
            let b = p3(&c["b"]);
            let dir = if c["dir"].is_null() { None } else { Some(UnitVec3::new_normalize(v3(&c["dir"]))) };
            let d = Distance3::new(a, b, dir);
            let r = d.reversed();
            let ctr = d.center();
            json!({"dir": hv3(&d.direction.into_inner()), "value": hx(d.value()), "rvalue": hx(r.value()),
                   "center": hp3(&ctr.point)})
        }
        // 3D deviation of points from a mesh
        "c16.dev3" => {
            let verts = p3s(&c["verts"]);
            let faces: Vec<[u32; 3]> = c["faces"].as_array().unwrap().iter()
                .map(|f| [f[0].as_u64().unwrap() as u32, f[1].as_u64().unwrap() as u32, f[2].as_u64().unwrap() as u32]).collect();
            let mesh = Mesh::new(verts, faces, false);
            let mut out = vec![];
            for q in p3s(&c["queries"]) {
                let cp = mesh.surf_closest_to(&q);
                let d0 = mesh.measure_point_deviation(&q, DistMode::ToPoint);
                let d1 = mesh.measure_point_deviation(&q, DistMode::ToPlane);
                out.push(json!({
                    "cp": hp3(&cp.point), "cn": hv3(&cp.normal.into_inner()),
                    "cdist": hx(dist(&cp.point, &q)),
                    "a0": hp3(&d0.a), "b0": hp3(&d0.b), "d0": hv3(&d0.direction.into_inner()), "v0": hx(d0.value()),
                    "a1": hp3(&d1.a), "b1": hp3(&d1.b), "d1": hv3(&d1.direction.into_inner()), "v1": hx(d1.value()),
                }));
            }
            json!({ "out": out })
        }
        _ => json!({"unknown": k}),
    }
}
