use crate::util::*;
use engeom::Curve2;
use engeom::geom2::Line2;
use serde_json::{json, Value};

fn next_after(x: f64, up: bool) -> f64 {
    if x.is_nan() || x.is_infinite() { return x; }
    if x == 0.0 { return if up { f64::from_bits(1) } else { -f64::from_bits(1) }; }
    let b = x.to_bits();
    let nb = if (x > 0.0) == up { b + 1 } else { b - 1 };
    f64::from_bits(nb)
}
fn resolve(q: &Value, lengths: &[f64]) -> f64 {
    let total = *lengths.last().unwrap();
    let base = match q["kind"].as_str().unwrap() {
        "vertex" => lengths[us(&q["k"]).min(lengths.len() - 1)],
        "frac" => fx(&q["f"]) * total,
        "edge" => { let k = us(&q["k"]).min(lengths.len() - 2); lengths[k] + fx(&q["f"]) * (lengths[k + 1] - lengths[k]) }
        _ => fx(&q["l"]),
    };
    match q["ulp"].as_i64().unwrap_or(0) { 1 => next_after(base, true), -1 => next_after(base, false), _ => base }
}
fn cv(c: &Curve2) -> Value {
    json!({"points": c.points().iter().map(hp2).collect::<Vec<_>>(), "length": hx(c.length()), "closed": c.is_closed(), "lengths": hxs(c.lengths())})
}
fn ocv(c: &Option<Curve2>) -> Value { match c { Some(c) => cv(c), None => Value::Null } }
fn pair(r: engeom::Result<(Curve2, Curve2)>) -> Value { match r { Ok((a, b)) => json!([cv(&a), cv(&b)]), Err(_) => json!({"err": true}) } }

pub fn run(k: &str, c: &Value) -> Value {
    match k {
        "c04.portion" => {
            let curve = match Curve2::from_points(&p2s(&c["pts"]), fx(&c["tol"]), c["closed"].as_bool().unwrap()) {
                Ok(c) => c, Err(_) => return json!({"err": true}) };
            let lengths = curve.lengths().clone();
            let (l0, l1, lc) = (resolve(&c["l0"], &lengths), resolve(&c["l1"], &lengths), resolve(&c["control"], &lengths));
            let at = |l: f64| curve.at_length(l).map(|s| json!({"point": hp2(&s.point()), "index": s.index(), "length_along": hx(s.length_along())}));
            let bl = curve.between_lengths(l0, l1);
            let rev = std::panic::catch_unwind(std::panic::AssertUnwindSafe(|| curve.reversed()));
            let probes: Vec<f64> = fxs(&c["probes"]).iter().map(|f| f * curve.length()).collect();
            let revv = match &rev {
                Ok(r) => json!({"curve": cv(r), "at": probes.iter().map(|l| r.at_length(r.length() - *l).map(|s| hp2(&s.point()))).collect::<Vec<_>>()}),
                Err(_) => json!({"panic": true}) };
            let split = if curve.is_closed() { pair(curve.split_closed_at_lengths(l0, l1)) } else { pair(curve.split_open_at_length(l0)) };
            let wrong = if curve.is_closed() { pair(curve.split_open_at_length(l0)) } else { pair(curve.split_closed_at_lengths(l0, l1)) };
            // the airfoil edge extraction is a consumer of between_lengths: cut at the two ends of a spanning ray (here the
            // stations at l0 and l1), keep the portion shorter than a fraction of the perimeter, whichever way the ray points
            let edge_sub = match (curve.at_length(l0), curve.at_length(l1)) {
                (Some(a), Some(b)) if (a.point() - b.point()).norm() > 1e-9 => {
                    let (pa, pb) = (a.point(), b.point());
                    let frac = if c["frac"].is_null() { 0.4 } else { fx(&c["frac"]) };
                    let st = |f: engeom::Point2, t: engeom::Point2| engeom::airfoil::InscribedCircle::new(
                        engeom::geom2::polyline2::SpanningRay::new(f, t), t, f, engeom::Circle2::new(0.5 * (f.x + t.x), 0.5 * (f.y + t.y), 0.5));
                    let run = |f: engeom::Point2, t: engeom::Point2| match std::panic::catch_unwind(std::panic::AssertUnwindSafe(||
                        engeom::airfoil::helpers::extract_edge_sub_curve(&curve, &st(f, t), Some(frac)))) { Ok(r) => ocv(&r), Err(_) => json!({"panic": true}) };
                    // the two arc lengths exactly as the function finds them (origin, and origin + direction, of the station's ray): on a
                    // curve that passes through one place twice the closest station is a tie that the last bit decides
                    let ends = |f: engeom::Point2, t: engeom::Point2| { let s = st(f, t);
                        (curve.at_closest_to_point(&s.spanning_ray.origin()).length_along(),
                         curve.at_closest_to_point(&(s.spanning_ray.origin() + s.spanning_ray.dir())).length_along()) };
                    let (fa, fb) = ends(pa, pb);
                    let (ra, rb) = ends(pb, pa);
                    json!({"la": hx(fa), "lb": hx(fb), "ra": hx(ra), "rb": hx(rb), "frac": hx(frac), "fwd": run(pa, pb), "rev": run(pb, pa)})
                }
                _ => Value::Null };
            json!({"src": cv(&curve), "l0": hx(l0), "l1": hx(l1), "lc": hx(lc), "s0": at(l0), "s1": at(l1), "edge_sub": edge_sub,
                   "between": ocv(&bl), "control": ocv(&curve.between_lengths_by_control(l0, l1, lc)),
                   "trim_front": ocv(&curve.trim_front(l0)), "trim_back": ocv(&curve.trim_back(l0)),
                   "split": split, "split_wrong": wrong, "reversed": revv,
                   "probe_pts": probes.iter().map(|l| curve.at_length(*l).map(|s| hp2(&s.point()))).collect::<Vec<_>>(), "probe_ls": hxs(&probes)})
        }
        "c04.chain" => {
            let mut curve = match Curve2::from_points(&p2s(&c["pts"]), fx(&c["tol"]), c["closed"].as_bool().unwrap()) {
                Ok(c) => c, Err(_) => return json!({"err": true}) };
            let mut steps = vec![];
            for st in c["steps"].as_array().unwrap() {
                let lengths = curve.lengths().clone();
                let (l0, l1) = (resolve(&st[0], &lengths), resolve(&st[1], &lengths));
                let r = curve.between_lengths(l0, l1);
                steps.push(json!({"l0": hx(l0), "l1": hx(l1), "src_length": hx(curve.length()), "src_closed": curve.is_closed(), "out": ocv(&r)}));
                match r { Some(n) => curve = n, None => break }
            }
            json!({"steps": steps})
        }
        _ => json!({"unknown": k}),
    }
}
