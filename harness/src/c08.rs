use crate::util::*;
use engeom::geom2::align2::{iso2_from_param, param_from_iso2, verif::point_surface_jacobian, RcParams2};
use engeom::geom3::align3::jacobian::{point_plane_jacobian, point_plane_jacobian_rev, point_point_jacobian};
use engeom::geom3::align3::{iso3_from_param, param_from_iso3, RcParams3, RotationMatrices};
use engeom::geom3::UnitVec3;
use engeom::{Iso2, Iso3, Point2, Point3, SurfacePoint2, SurfacePoint3, UnitVec2, Vector2, Vector3};
use parry3d_f64::na::{Matrix3, Vector3 as NV3, Vector6};
use serde_json::{json, Value};

fn iso2v(i: &Iso2) -> Value {
    let x = i * Vector2::x(); let o = i * Point2::origin();
    json!({"c": hx(x.x), "s": hx(x.y), "t": hp2(&o)})
}
fn iso3v(i: &Iso3) -> Value {
    let (x, y, z) = (i * Vector3::x(), i * Vector3::y(), i * Vector3::z());
    json!({"x": hv3(&x), "y": hv3(&y), "z": hv3(&z), "t": hp3(&(i * Point3::origin()))})
}
fn m3(m: &Matrix3<f64>) -> Value {
    json!([[hx(m[(0, 0)]), hx(m[(0, 1)]), hx(m[(0, 2)])], [hx(m[(1, 0)]), hx(m[(1, 1)]), hx(m[(1, 2)])], [hx(m[(2, 0)]), hx(m[(2, 1)]), hx(m[(2, 2)])]])
}
fn p2state(p: &RcParams2) -> Value {
    json!({"x": hxs(p.x().as_slice()), "transform": iso2v(p.transform()), "inverse": iso2v(p.inverse()), "rotation": iso2v(p.rotation()), "current_rc": hp2(p.current_rc())})
}
fn p3state(p: &RcParams3) -> Value {
    let r = p.rotations();
    json!({"x": hxs(p.x().as_slice()), "transform": iso3v(p.transform()), "inverse": iso3v(p.inverse()), "current_rc": hp3(p.current_rc()),
           "r": [hx(r.r.x), hx(r.r.y), hx(r.r.z)], "q": m3(r.q.to_rotation_matrix().matrix()),
           "d": [m3(&r.d.x), m3(&r.d.y), m3(&r.d.z)], "rd": [m3(&r.rd.x), m3(&r.rd.y), m3(&r.rd.z)]})
}

pub fn run(k: &str, c: &Value) -> Value {
    match k {
        "c08.rc2" => {
            let init = Iso2::new(Vector2::new(fx(&c["init"][0]), fx(&c["init"][1])), fx(&c["init"][2]));
            let rc = p2(&c["rc"]);
            let mut p = RcParams2::from_initial(&init, &rc);
            let mut states = vec![p2state(&p)];
            let pt = p2(&c["p"]);
            let sp = SurfacePoint2::new(p2(&c["sp"]), UnitVec2::new_normalize(v2(&c["sn"])));
            let mut jac = vec![hxs(point_surface_jacobian(&pt, &sp, &p).as_slice())];
            let mut moved = vec![hp2(&(p.transform() * pt))];
            for x in c["sets"].as_array().unwrap() {
                let v = fxs(x);
                p.set(&NV3::new(v[0], v[1], v[2]));
                states.push(p2state(&p));
                jac.push(hxs(point_surface_jacobian(&pt, &sp, &p).as_slice()));
                moved.push(hp2(&(p.transform() * pt)));
            }
            let rt = param_from_iso2(&iso2_from_param(&NV3::new(fx(&c["init"][0]), fx(&c["init"][1]), fx(&c["init"][2]))));
            json!({"init": iso2v(&init), "states": states, "jac": jac, "moved": moved, "sn": hv2(&sp.normal.into_inner()), "roundtrip": hxs(rt.as_slice())})
        }
        "c08.rc3" => {
            let e = fxs(&c["init"]);
            let init = iso3_from_param(&Vector6::new(e[0], e[1], e[2], e[3], e[4], e[5]));
            let rc = p3(&c["rc"]);
            let mut p = RcParams3::from_initial(&init, &rc);
            let mut states = vec![p3state(&p)];
            let pt = p3(&c["p"]);
            let sp = SurfacePoint3::new(p3(&c["sp"]), UnitVec3::new_normalize(v3(&c["sn"])));
            let cp = p3(&c["cp"]);
            let jj = |p: &RcParams3| json!({"plane": hxs(point_plane_jacobian(&pt, &sp, p).as_slice()), "rev": hxs(point_plane_jacobian_rev(&pt, &sp, p).as_slice()),
                                           "point": hxs(point_point_jacobian(&pt, &cp, p).as_slice())});
            let mut jac = vec![jj(&p)];
            let mut moved = vec![hp3(&(p.transform() * pt))];
            for x in c["sets"].as_array().unwrap() {
                let v = fxs(x);
                p.set(&Vector6::new(v[0], v[1], v[2], v[3], v[4], v[5]));
                states.push(p3state(&p));
                jac.push(jj(&p));
                moved.push(hp3(&(p.transform() * pt)));
            }
            let rt = param_from_iso3(&init);
            let back = iso3_from_param(&rt);
            json!({"init": iso3v(&init), "states": states, "jac": jac, "moved": moved, "sn": hv3(&sp.normal.into_inner()),
                   "roundtrip": hxs(rt.as_slice()), "back": iso3v(&back)})
        }
        "c08.euler" => {
            let e = fxs(&c["r"]);
            let m = RotationMatrices::from_euler(e[0], e[1], e[2]);
            let m2 = RotationMatrices::from_rotation(&m.q);
            json!({"q": m3(m.q.to_rotation_matrix().matrix()), "d": [m3(&m.d.x), m3(&m.d.y), m3(&m.d.z)], "rd": [m3(&m.rd.x), m3(&m.rd.y), m3(&m.rd.z)],
                   "r2": [hx(m2.r.x), hx(m2.r.y), hx(m2.r.z)], "q2": m3(m2.q.to_rotation_matrix().matrix())})
        }
        _ => json!({"unknown": k}),
    }
}
