use crate::util::*;
use engeom::common::kd_tree::{KdTree, KdTreeSearch, PartialKdTree};
use engeom::common::poisson_disk::sample_poisson_disk;
use engeom::common::AngleDir;
use engeom::geom2::hull::{ball_pivot_with_centers_2d, convex_hull_2d, farthest_pair_indices, point_order_direction, BallPivotEnd, BallPivotStart};
use engeom::geom3::Mesh;
use parry2d_f64::shape::ConvexPolygon;
use serde_json::{json, Value};
use std::num::NonZero;

fn pairs(v: Vec<(usize, f64)>) -> Value { Value::Array(v.iter().map(|(i, d)| json!([i, hx(*d)])).collect()) }

fn kd<const D: usize, T: KdTreeSearch<D>>(t: &T, qs: &[parry3d_f64::na::Point<f64, D>], k: usize, r: f64) -> Value {
    Value::Array(qs.iter().map(|q| {
        let one = t.nearest_one(q);
        json!({"one": [one.0, hx(one.1)], "k": pairs(t.nearest(q, NonZero::new(k).unwrap())), "within": pairs(t.within(q, r))})
    }).collect())
}

// does kiddo's radius query agree with a brute-force scan on these points (queried at every point)?
fn kd_within_bad<const D: usize>(pts: &[parry3d_f64::na::Point<f64, D>], r: f64) -> Option<Value> {
    let tree = KdTree::new(pts);
    for (m, q) in pts.iter().enumerate() {
        let mut got: Vec<usize> = tree.within(q, r).iter().map(|w| w.0).collect();
        got.sort();
        let want: Vec<usize> = (0..pts.len()).filter(|&w| (pts[w] - q).norm_squared() <= r * r).collect();
        if got != want {
            return Some(json!({"at": m, "got": got, "want": want}));
        }
    }
    None
}

pub fn run(k: &str, c: &Value) -> Value {
    match k {
        "c15.kd2" => {
            let pts = p2s(&c["pts"]);
            let qs = p2s(&c["qs"]);
            let idx = uss(&c["indices"]);
            let (kk, r) = (us(&c["kcount"]), fx(&c["r"]));
            let full = KdTree::new(&pts);
            let part = PartialKdTree::new(&pts, &idx);
            json!({"full": kd(&full, &qs, kk, r), "part": kd(&part, &qs, kk.min(idx.len().max(1)), r), "len": full.len(), "plen": part.len()})
        }
        "c15.kd3" => {
            let pts = p3s(&c["pts"]);
            let qs = p3s(&c["qs"]);
            let idx = uss(&c["indices"]);
            let (kk, r) = (us(&c["kcount"]), fx(&c["r"]));
            let full = KdTree::new(&pts);
            let part = PartialKdTree::new(&pts, &idx);
            json!({"full": kd(&full, &qs, kk, r), "part": kd(&part, &qs, kk.min(idx.len().max(1)), r), "len": full.len(), "plen": part.len()})
        }
        "c15.poisson2" => {
            let pts = p2s(&c["pts"]);
            let idx = uss(&c["indices"]);
            let wp: Vec<_> = idx.iter().map(|i| pts[*i]).collect();
            json!({"keep": sample_poisson_disk(&pts, &idx, fx(&c["r"])), "kd_bad": kd_within_bad(&wp, fx(&c["r"]))})
        }
        "c15.poisson3" => {
            let pts = p3s(&c["pts"]);
            let idx = uss(&c["indices"]);
            let wp: Vec<_> = idx.iter().map(|i| pts[*i]).collect();
            json!({"keep": sample_poisson_disk(&pts, &idx, fx(&c["r"])), "kd_bad": kd_within_bad(&wp, fx(&c["r"]))})
        }
        "c15.mesh" => {
            let verts = p3s(&c["verts"]);
            let faces: Vec<[u32; 3]> = c["faces"].as_array().unwrap().iter().map(|f| [us(&f[0]) as u32, us(&f[1]) as u32, us(&f[2]) as u32]).collect();
            let mesh = Mesh::new(verts, faces, false);
            let sp = |v: Vec<engeom::SurfacePoint3>| Value::Array(v.iter().map(|s| json!([hp3(&s.point), hv3(&s.normal.into_inner())])).collect());
            let cu = |f: &dyn Fn() -> Vec<engeom::SurfacePoint3>| match std::panic::catch_unwind(std::panic::AssertUnwindSafe(f)) { Ok(v) => sp(v), Err(_) => json!({"panic": true}) };
            let start: Vec<engeom::Point3> = match std::panic::catch_unwind(std::panic::AssertUnwindSafe(|| mesh.sample_dense(fx(&c["radius"]) * 0.5))) {
                Ok(v) => v.iter().map(|s| s.point).collect(), Err(_) => vec![] };
            json!({"uniform": cu(&|| mesh.sample_uniform(us(&c["n"]))), "dense": cu(&|| mesh.sample_dense(fx(&c["spacing"]))), "poisson": cu(&|| mesh.sample_poisson(fx(&c["radius"]))),
                   "kd_bad": kd_within_bad(&start, fx(&c["radius"]))})
        }
        "c15.hull" => {
            let pts = p2s(&c["pts"]);
            let hull = convex_hull_2d(&pts);
            let poly = ConvexPolygon::from_convex_hull(&pts);
            let far = poly.as_ref().map(|p| { let (i, j) = farthest_pair_indices(p); json!([hp2(&p.points()[i]), hp2(&p.points()[j])]) });
            let far_idx = poly.as_ref().map(|p| { let (i, j) = farthest_pair_indices(p); json!({"i": i, "j": j, "poly": p.points().iter().map(hp2).collect::<Vec<_>>()}) });
            let dir = match point_order_direction(&pts) { AngleDir::Ccw => "ccw", AngleDir::Cw => "cw" };
            let pdir = if c["pivot_ccw"].as_bool().unwrap() { AngleDir::Ccw } else { AngleDir::Cw };
            let bp = match std::panic::catch_unwind(std::panic::AssertUnwindSafe(|| ball_pivot_with_centers_2d(&pts, BallPivotStart::StartOnConvex, BallPivotEnd::EndOnRepeat, pdir, fx(&c["radius"])))) {
                Ok(Ok((idx, centers))) => json!({"idx": idx, "centers": centers.iter().map(hp2).collect::<Vec<_>>()}),
                Ok(Err(_)) => json!({"err": true}),
                Err(_) => json!({"panic": true}),
            };
            json!({"hull": hull, "far": far, "far_idx": far_idx, "dir": dir, "pivot": bp})
        }
        _ => json!({"unknown": k}),
    }
}
