use crate::util::*;
use engeom::common::points::{fill_gaps, ramer_douglas_peucker};
use engeom::common::Resample;
use engeom::{Curve2, Curve3};
use serde_json::{json, Value};

fn mode_of(c: &Value) -> Resample {
    match c["mode"].as_str().unwrap() {
        "count" => Resample::ByCount(us(&c["n"])),
        "spacing" => Resample::BySpacing(fx(&c["s"])),
        _ => Resample::ByMaxSpacing(fx(&c["s"])),
    }
}

pub fn run(k: &str, c: &Value) -> Value {
    match k {
        "c05.curve2" => {
            let curve = match Curve2::from_points(&p2s(&c["pts"]), fx(&c["tol"]), c["closed"].as_bool().unwrap()) {
                Ok(c) => c, Err(_) => return json!({"err": true}) };
            let src = json!({"points": curve.points().iter().map(hp2).collect::<Vec<_>>(), "length": hx(curve.length()),
                             "closed": curve.is_closed(), "lengths": hxs(curve.lengths())});
            let cc = curve.clone();
            let m = mode_of(c);
            let res = std::panic::catch_unwind(std::panic::AssertUnwindSafe(|| cc.resample(m)));
            let resv = match res {
                Ok(Ok(r)) => json!({"points": r.points().iter().map(hp2).collect::<Vec<_>>(), "length": hx(r.length()), "closed": r.is_closed()}),
                Ok(Err(_)) => json!({"err": true}),
                Err(_) => json!({"panic": true}),
            };
            let e = fx(&c["e"]);
            let cc = curve.clone();
            let simp = match std::panic::catch_unwind(std::panic::AssertUnwindSafe(|| cc.simplify(e))) {
                Ok(r) => json!({"points": r.points().iter().map(hp2).collect::<Vec<_>>(), "closed": r.is_closed()}),
                Err(_) => json!({"panic": true}),
            };
            json!({"src": src, "resampled": resv, "simplified": simp})
        }
        "c05.curve3" => {
            let curve = match Curve3::from_points(&p3s(&c["pts"]), fx(&c["tol"])) { Ok(c) => c, Err(_) => return json!({"err": true}) };
            let src = json!({"points": curve.points().iter().map(hp3).collect::<Vec<_>>(), "length": hx(curve.length()), "lengths": hxs(curve.lengths())});
            let cc = curve.clone();
            let m = mode_of(c);
            let resv = match std::panic::catch_unwind(std::panic::AssertUnwindSafe(|| cc.resample(m))) {
                Ok(r) => json!({"points": r.points().iter().map(hp3).collect::<Vec<_>>(), "length": hx(r.length())}),
                Err(_) => json!({"panic": true}),
            };
            let e = fx(&c["e"]);
            let cc = curve.clone();
            let simp = match std::panic::catch_unwind(std::panic::AssertUnwindSafe(|| cc.simplify(e))) {
                Ok(r) => json!({"points": r.points().iter().map(hp3).collect::<Vec<_>>()}),
                Err(_) => json!({"panic": true}),
            };
            json!({"src": src, "resampled": resv, "simplified": simp})
        }
        "c05.sweep" => {
            // many counts on one curve: vertex count and end points only
            let n3 = c["dim"].as_u64().unwrap() == 3;
            let counts = uss(&c["counts"]);
            let mut out = Vec::new();
            if n3 {
                let curve = match Curve3::from_points(&p3s(&c["pts"]), fx(&c["tol"])) { Ok(c) => c, Err(_) => return json!({"err": true}) };
                for n in counts {
                    let cc = curve.clone();
                    let m = if c["max"].as_bool().unwrap() { Resample::ByMaxSpacing(curve.length() / (n as f64)) } else { Resample::ByCount(n) };
                    out.push(match std::panic::catch_unwind(std::panic::AssertUnwindSafe(|| cc.resample(m))) {
                        Ok(r) => json!({"n": r.points().len(), "first": hp3(&r.points()[0]), "last": hp3(r.points().last().unwrap()), "length": hx(r.length())}),
                        Err(_) => json!({"panic": true}) });
                }
                let p = curve.points();
                json!({"out": out, "first": hp3(&p[0]), "last": hp3(p.last().unwrap()), "length": hx(curve.length())})
            } else {
                let curve = match Curve2::from_points(&p2s(&c["pts"]), fx(&c["tol"]), false) { Ok(c) => c, Err(_) => return json!({"err": true}) };
                for n in counts {
                    let cc = curve.clone();
                    let m = if c["max"].as_bool().unwrap() { Resample::ByMaxSpacing(curve.length() / (n as f64)) } else { Resample::ByCount(n) };
                    out.push(match std::panic::catch_unwind(std::panic::AssertUnwindSafe(|| cc.resample(m))) {
                        Ok(Ok(r)) => json!({"n": r.points().len(), "first": hp2(&r.points()[0]), "last": hp2(r.points().last().unwrap()), "length": hx(r.length())}),
                        Ok(Err(_)) => json!({"err": true}),
                        Err(_) => json!({"panic": true}) });
                }
                let p = curve.points();
                json!({"out": out, "first": hp2(&p[0]), "last": hp2(p.last().unwrap()), "length": hx(curve.length())})
            }
        }
        "c05.rdp" => {
            let pts = p2s(&c["pts"]);
            let r = ramer_douglas_peucker(&pts, fx(&c["e"]));
            json!({"points": r.iter().map(hp2).collect::<Vec<_>>()})
        }
        "c05.fill" => {
            let pts = p2s(&c["pts"]);
            let r = fill_gaps(&pts, fx(&c["maxd"]));
            json!({"points": r.iter().map(hp2).collect::<Vec<_>>()})
        }
        _ => json!({"unknown": k}),
    }
}
