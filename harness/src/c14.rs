use crate::util::*;
use engeom::common::{SelectOp, Selection};
use engeom::geom3::mesh::Mesh;
use engeom::{SurfacePoint3, Vector3};
use serde_json::{json, Value};

fn faces_of(v: &Value) -> Vec<[u32; 3]> {
    v.as_array().unwrap().iter()
        .map(|f| [f[0].as_u64().unwrap() as u32, f[1].as_u64().unwrap() as u32, f[2].as_u64().unwrap() as u32])
        .collect()
}
fn mode_of(v: &Value) -> SelectOp {
    match v.as_str().unwrap() { "add" => SelectOp::Add, "remove" => SelectOp::Remove, _ => SelectOp::Keep }
}
fn optf(v: &Value) -> Option<f64> { if v.is_null() { None } else { Some(fx(v)) } }

pub fn run(k: &str, c: &Value) -> Value {
    match k {
        // a chain of selection steps; returns the sorted selection after every step, for `reps` fresh runs,
        // plus the cache-free geometric facts the model needs (computed through the public API)
        "c14.select" => {
            let mesh = Mesh::new(p3s(&c["verts"]), faces_of(&c["faces"]), false);
            let other = Mesh::new(p3s(&c["rverts"]), faces_of(&c["rfaces"]), false);
            let reps = c["reps"].as_u64().unwrap_or(3);
            let steps = c["steps"].as_array().unwrap();
            let mut runs = vec![];
            for _ in 0..reps {
                let start = match c["start"].as_str() {
                    Some("all") => Selection::All,
                    Some("none") => Selection::None,
                    _ => Selection::Indices(uss(&c["start"])),
                };
                let mut sel = mesh.face_select(start);
                let mut trace = vec![];
                for s in steps {
                    sel = match s["op"].as_str().unwrap() {
                        "facing" => sel.facing(&v3(&s["normal"]), fx(&s["angle"]), mode_of(&s["mode"])),
                        _ => sel.near_mesh(&other, s["all"].as_bool().unwrap(), fx(&s["dist"]), optf(&s["planar"]), optf(&s["angle"]), mode_of(&s["mode"])),
                    };
                    // peek: collect consumes, so rebuild from the collected indices
                    let mut cur = sel.collect();
                    cur.sort();
                    trace.push(json!(cur));
                    sel = mesh.face_select(Selection::Indices(cur));
                }
                runs.push(json!(trace));
            }
            // geometric oracles per step, without any cache
            let mut facts = vec![];
            for s in steps {
                if s["op"].as_str().unwrap() == "facing" {
                    let n = v3(&s["normal"]);
                    let a = fx(&s["angle"]);
                    let pf: Vec<bool> = (0..mesh.faces().len()).map(|i| {
                        match mesh.tri_mesh().triangle(i as u32).normal() { Some(nv) => nv.angle(&n) < a, None => false }
                    }).collect();
                    facts.push(json!({"face_pred": pf}));
                } else {
                    let dist = fx(&s["dist"]);
                    let planar = optf(&s["planar"]);
                    let angle = optf(&s["angle"]);
                    // vertex part: (ok, reference triangle id)
                    let vpart: Vec<Value> = mesh.vertices().iter().map(|p| {
                        match other.project_with_max_dist(p, dist) {
                            Some((prj, ri, _)) => {
                                if planar.is_none() && angle.is_none() { json!([true, Value::Null]) }
                                else if let Some(rn) = other.tri_mesh().triangle(ri).normal() {
                                    let rsp = SurfacePoint3::new(prj.point, rn);
                                    let ok = match planar { Some(t) => rsp.planar_distance(p) <= t, None => true };
                                    json!([ok, ri])
                                } else { json!([false, Value::Null]) }
                            }
                            None => json!([false, Value::Null]),
                        }
                    }).collect();
                    // angle test of face f against reference triangle ri
                    let nref = other.faces().len();
                    let ang: Vec<Vec<bool>> = (0..mesh.faces().len()).map(|f| {
                        let fnrm = mesh.tri_mesh().triangle(f as u32).normal();
                        (0..nref).map(|ri| {
                            match (angle, fnrm, other.tri_mesh().triangle(ri as u32).normal()) {
                                (Some(t), Some(a), Some(b)) => a.angle(&b) <= t,
                                (Some(_), _, _) => false,
                                (None, _, _) => true,
                            }
                        }).collect()
                    }).collect();
                    facts.push(json!({"vpart": vpart, "ang": ang}));
                }
            }
            json!({"runs": runs, "facts": facts, "faces": mesh.faces()})
        }
        "c14.from_indices" => {
            let mesh = Mesh::new(p3s(&c["verts"]), faces_of(&c["faces"]), false);
            let idx = uss(&c["idx"]);
            let r = std::panic::catch_unwind(std::panic::AssertUnwindSafe(|| mesh.create_from_indices(&idx)));
            match r {
                Ok(m) => {
                    let sm = mesh.face_select(Selection::Indices(idx.clone())).create_mesh();
                    let smj = json!({"nv": sm.vertices().len(), "nf": sm.faces().len()});
                    json!({"verts": m.vertices().iter().map(hp3).collect::<Vec<_>>(), "faces": m.faces(), "sel_mesh": smj})
                }
                Err(_) => json!({"panic": true}),
            }
        }
        _ => json!({"unknown": k}),
    }
}
