use crate::util::*;
use engeom::common::indices::chained_indices;
use engeom::geom3::mesh::Mesh;
use engeom::raster3::clusters_from_sparse;
use engeom::Point3;
use serde_json::{json, Value};
use std::collections::HashSet;

fn faces_of(v: &Value) -> Vec<[u32; 3]> {
    v.as_array().unwrap().iter()
        .map(|f| [f[0].as_u64().unwrap() as u32, f[1].as_u64().unwrap() as u32, f[2].as_u64().unwrap() as u32])
        .collect()
}

// deterministic, pairwise distinct, non-collinear vertex positions
fn verts_for(n: usize) -> Vec<Point3> {
    (0..n).map(|i| {
        let t = i as f64;
        Point3::new(t.cos() * (1.0 + 0.1 * t), t.sin() * (1.0 + 0.1 * t), 0.37 * t + (0.7 * t).sin())
    }).collect()
}

fn mesh_of(c: &Value) -> Mesh {
    let faces = faces_of(&c["faces"]);
    let n = faces.iter().flat_map(|f| f.iter()).max().map(|m| *m as usize + 1).unwrap_or(0);
    let verts = if c["verts"].is_array() { p3s(&c["verts"]) } else { verts_for(n.max(us(&c["nv"]))) };
    Mesh::new(verts, faces, false)
}

pub fn run(k: &str, c: &Value) -> Value {
    let reps = c["reps"].as_u64().unwrap_or(3);
    match k {
        "c12.edges" => {
            let mesh = mesh_of(c);
            let mut out = vec![];
            for _ in 0..reps {
                out.push(match mesh.calc_edges() {
                    Ok(e) => json!({"edges": e.edges, "lengths": hxs(&e.edge_lengths), "face_edges": e.face_edges,
                                    "loops": e.boundary_loops}),
                    Err(_) => json!({"err": true}),
                });
            }
            let vs: Vec<Value> = mesh.vertices().iter().map(hp3).collect();
            // a history on one mesh value: edge table, append a moved copy, edge table again, move, edge table again - every
            // table must describe the mesh as it is then
            let ej = |m: &Mesh| match m.calc_edges() {
                Ok(e) => json!({"edges": e.edges, "lengths": hxs(&e.edge_lengths), "face_edges": e.face_edges, "loops": e.boundary_loops}),
                Err(_) => json!({"err": true}) };
            let after = {
                let mut m2 = mesh.clone();
                let _ = m2.calc_edges();
                let mut other = mesh.clone();
                other.transform(&engeom::Iso3::translation(50.0, 7.0, -3.0));
                match m2.append(&other) {
                    Ok(()) => {
                        let first = ej(&m2);
                        let v1: Vec<Value> = m2.vertices().iter().map(hp3).collect();
                        m2.transform(&engeom::Iso3::new(engeom::Vector3::new(1.0, 2.0, 3.0), engeom::Vector3::new(0.3, -0.2, 0.9)));
                        json!({"runs": [first, ej(&m2)], "verts": v1, "faces": m2.faces()})
                    }
                    Err(_) => Value::Null }
            };
            json!({"runs": out, "verts": vs, "faces": mesh.faces(), "after": after})
        }
        "c12.patches" => {
            let mesh = mesh_of(c);
            let mut out = vec![];
            for _ in 0..reps {
                out.push(json!(mesh.get_patches()));
            }
            json!({"runs": out, "faces": mesh.faces()})
        }
        "c12.patch_boundaries" => {
            let mesh = mesh_of(c);
            let verts = mesh.vertices().to_vec();
            let idx = |p: &Point3| verts.iter().position(|q| q == p).unwrap();
            let mut out = vec![];
            for _ in 0..reps {
                out.push(match mesh.get_patch_boundary_points() {
                    Ok(ls) => json!({"loops": ls.iter().map(|l| l.iter().map(idx).collect::<Vec<_>>()).collect::<Vec<_>>()}),
                    Err(_) => json!({"err": true}),
                });
            }
            json!({"runs": out})
        }
        "c12.clusters" => {
            let mut out = vec![];
            for _ in 0..reps {
                let set: HashSet<(i32, i32, i32)> = c["voxels"].as_array().unwrap().iter()
                    .map(|v| (v[0].as_i64().unwrap() as i32, v[1].as_i64().unwrap() as i32, v[2].as_i64().unwrap() as i32)).collect();
                let cl = clusters_from_sparse(set);
                out.push(json!(cl.iter().map(|g| g.iter().map(|v| vec![v.0, v.1, v.2]).collect::<Vec<_>>()).collect::<Vec<_>>()));
            }
            json!({"runs": out})
        }
        "c12.chain" => {
            let pairs: Vec<[u32; 2]> = c["pairs"].as_array().unwrap().iter()
                .map(|p| [p[0].as_u64().unwrap() as u32, p[1].as_u64().unwrap() as u32]).collect();
            json!({"chains": chained_indices(&pairs)})
        }
        "c12.box" => {
            let m = Mesh::create_box(fx(&c["w"]), fx(&c["h"]), fx(&c["d"]), false);
            let n = m.get_face_normals();
            json!({"verts": m.vertices().iter().map(hp3).collect::<Vec<_>>(), "faces": m.faces(),
                   "normals": n.ok().map(|ns| ns.iter().map(|v| hv3(&v.into_inner())).collect::<Vec<_>>())})
        }
        "c12.cyl" => {
            let m = Mesh::create_cylinder(fx(&c["r"]), fx(&c["h"]), us(&c["steps"]));
            let n = m.get_face_normals();
            json!({"verts": m.vertices().iter().map(hp3).collect::<Vec<_>>(), "faces": m.faces(),
                   "normals": n.ok().map(|ns| ns.iter().map(|v| hv3(&v.into_inner())).collect::<Vec<_>>())})
        }
        _ => json!({"unknown": k}),
    }
}
