use crate::util::*;
use engeom::airfoil::helpers::{find_tmax_circle, reverse_inscribed_circles, OrientedCircles};
use engeom::airfoil::{AfGage, AirfoilGeometry, CamberOrient, ConstRadiusEdge, ConvergeTangentEdge, DirectionFwd, EdgeGeometry, EdgeLocate, FaceOrient, FitRadiusEdge,
                      InscribedCircle, IntersectEdge, OpenEdge, OpenIntersectGap, RansacRadiusEdge, TMaxFwd, TraceToMaxCurvature};
use engeom::geom2::polyline2::SpanningRay;
use engeom::geom2::Line2;
use engeom::metrology::Measurement;
use engeom::{Circle2, Curve2, Point2};
use serde_json::{json, Value};

fn edge_of(name: &str) -> Box<dyn EdgeLocate> {
    match name {
        "open" => OpenEdge::make(),
        "open_gap" => OpenIntersectGap::make(50),
        "intersect" => IntersectEdge::make(),
        "trace" => TraceToMaxCurvature::make(None),
        "fit" => FitRadiusEdge::make(None),
        "const" => ConstRadiusEdge::make(None),
        "converge" => ConvergeTangentEdge::make(None),
        _ => RansacRadiusEdge::make(1e-3, 500),
    }
}
fn circ(v: &InscribedCircle) -> Value {
    json!({"c": hp2(&v.center()), "r": hx(v.radius()), "pos": hp2(&v.contact_pos), "neg": hp2(&v.contact_neg), "ro": hp2(&v.spanning_ray.origin()), "rd": hv2(&v.spanning_ray.dir())})
}
fn mk_circle(v: &Value) -> InscribedCircle {
    // a synthetic station: centre (x, y), radius r, ray from (x, y - r) upwards (or reversed)
    let (x, y, r) = (fx(&v[0]), fx(&v[1]), fx(&v[2]));
    let up = v[3].as_bool().unwrap();
    let (a, b) = (Point2::new(x, y - r), Point2::new(x, y + r));
    let ray = if up { SpanningRay::new(a, b) } else { SpanningRay::new(b, a) };
    InscribedCircle::new(ray, if up { b } else { a }, if up { a } else { b }, Circle2::new(x, y, r))
}

pub fn run(k: &str, c: &Value) -> Value {
    match k {
        "c10.analyze" => {
            let section = match Curve2::from_points(&p2s(&c["pts"]), fx(&c["tol"]), c["closed"].as_bool().unwrap_or(true)) { Ok(s) => s, Err(_) => return json!({"err_section": true}) };
            let orient: Box<dyn CamberOrient> = if c["orient"].is_string() { TMaxFwd::make() } else { DirectionFwd::make(v2(&c["orient"])) };
            let face = if c["face"].is_string() { FaceOrient::Detect } else { FaceOrient::UpperDir(v2(&c["face"])) };
            let r = std::panic::catch_unwind(std::panic::AssertUnwindSafe(|| AirfoilGeometry::try_analyze(&section, fx(&c["core_tol"]), orient,
                edge_of(c["leading"].as_str().unwrap()), edge_of(c["trailing"].as_str().unwrap()), face)));
            let g = match r { Ok(Ok(g)) => g, Ok(Err(e)) => return json!({"err": format!("{}", e)}), Err(_) => return json!({"panic": true}) };
            let edge = |e: &Option<engeom::airfoil::AirfoilEdge>| e.as_ref().map(|e| json!({"p": hp2(&e.point), "kind": match e.geometry { EdgeGeometry::Open => "open", EdgeGeometry::Closed => "closed", EdgeGeometry::Arc(_) => "arc" }}));
            let cv = |c: &Option<Curve2>| c.as_ref().map(|c| json!({"points": c.points().iter().map(hp2).collect::<Vec<_>>(), "length": hx(c.length())}));
            let tmax = g.find_tmax();
            let thk = g.get_thickness_max().ok().map(|d| hx(d.value()));
            let gauges: Vec<Value> = c["gauges"].as_array().map(|a| a.iter().map(|q| {
                let x = fx(&q[1]);
                let gage = if q[0].as_str() == Some("camber") { AfGage::OnCamber(x) } else { AfGage::Radius(x) };
                match std::panic::catch_unwind(std::panic::AssertUnwindSafe(|| g.get_thickness(gage))) {
                    Ok(Ok(d)) => json!({"a": hp2(&d.a), "b": hp2(&d.b), "value": hx(d.value())}),
                    Ok(Err(e)) => json!({"err": format!("{}", e)}),
                    Err(_) => json!({"panic": true}),
                }
            }).collect()).unwrap_or_default();
            // the same section with its vertices in the opposite order (the results must not depend on it)
            let rev = if c["also_reversed"].as_bool().unwrap_or(false) {
                let mut rp = p2s(&c["pts"]); rp.reverse();
                match Curve2::from_points(&rp, fx(&c["tol"]), c["closed"].as_bool().unwrap_or(true)) {
                    Ok(rs) => {
                        let orient: Box<dyn CamberOrient> = if c["orient"].is_string() { TMaxFwd::make() } else { DirectionFwd::make(v2(&c["orient"])) };
                        let face = if c["face"].is_string() { FaceOrient::Detect } else { FaceOrient::UpperDir(v2(&c["face"])) };
                        match std::panic::catch_unwind(std::panic::AssertUnwindSafe(|| AirfoilGeometry::try_analyze(&rs, fx(&c["core_tol"]), orient,
                            edge_of(c["leading"].as_str().unwrap()), edge_of(c["trailing"].as_str().unwrap()), face))) {
                            Ok(Ok(g2)) => json!({"le": edge(&g2.leading_edge), "te": edge(&g2.trailing_edge), "stations": g2.stations.len(), "camber_length": hx(g2.camber.length()),
                                                 "tmax": circ(g2.find_tmax())}),
                            Ok(Err(e)) => json!({"err": format!("{}", e)}),
                            Err(_) => json!({"panic": true}),
                        }
                    }
                    Err(_) => json!({"err": "section"}),
                }
            } else { Value::Null };
            json!({"rev": rev, "section": section.points().iter().map(hp2).collect::<Vec<_>>(), "perimeter": hx(section.length()),
                   "stations": g.stations.iter().map(circ).collect::<Vec<_>>(), "le": edge(&g.leading_edge), "te": edge(&g.trailing_edge),
                   "camber": g.camber.points().iter().map(hp2).collect::<Vec<_>>(), "upper": cv(&g.upper), "lower": cv(&g.lower),
                   "tmax": circ(tmax), "thk_max": thk, "gauges": gauges,
                   "camber_length": hx(g.camber.length())})
        }
        "c10.oriented" => {
            // the container logic on synthetic stations: ops push / last / take, and reverse_inscribed_circles, find_tmax_circle
            let init: Vec<InscribedCircle> = c["init"].as_array().unwrap().iter().map(mk_circle).collect();
            let mut oc = OrientedCircles::new(init.clone(), c["reversed"].as_bool().unwrap());
            let mut lasts = vec![oc.last().map(circ)];
            for p in c["pushes"].as_array().unwrap() {
                oc.push(mk_circle(p));
                lasts.push(oc.last().map(circ));
            }
            let taken: Vec<Value> = oc.take_circles().iter().map(circ).collect();
            let mut rev = init.clone();
            reverse_inscribed_circles(&mut rev);
            let mut rev2 = rev.clone();
            reverse_inscribed_circles(&mut rev2);
            json!({"lasts": lasts, "taken": taken, "reversed": rev.iter().map(circ).collect::<Vec<_>>(), "twice": rev2.iter().map(circ).collect::<Vec<_>>(),
                   "init": init.iter().map(circ).collect::<Vec<_>>(), "tmax": find_tmax_circle(&init).map(circ)})
        }
        "c10.inscribed" => {
            // the bisection at the core of the analysis, on a given spanning ray (both ends on the section)
            let curve = match Curve2::from_points(&p2s(&c["pts"]), fx(&c["ctol"]), c["closed"].as_bool().unwrap()) { Ok(c) => c, Err(_) => return json!({"err_curve": true}) };
            let ray = SpanningRay::new(p2(&c["p0"]), p2(&c["p1"]));
            match std::panic::catch_unwind(std::panic::AssertUnwindSafe(|| engeom::airfoil::helpers::inscribed_from_spanning_ray(&curve, &ray, fx(&c["tol"])))) {
                Ok(ic) => json!({"circle": circ(&ic), "curve": curve.points().iter().map(hp2).collect::<Vec<_>>()}),
                Err(_) => json!({"panic": true}),
            }
        }
        "c10.caliper" => {
            // the caliper chord of a section: the longest leg of the convex hull as line of tangency, the extreme points along it
            let section = match Curve2::from_points(&p2s(&c["pts"]), fx(&c["ctol"]), true) { Ok(c) => c, Err(_) => return json!({"err_curve": true}) };
            let camber = match Curve2::from_points(&p2s(&c["camber"]), fx(&c["ctol"]), false) { Ok(c) => c, Err(_) => return json!({"err_curve": true}) };
            match std::panic::catch_unwind(std::panic::AssertUnwindSafe(|| engeom::airfoil::caliper_chord_line(&section, &camber))) {
                Ok(Ok(cc)) => json!({"chord": [hp2(&cc.chord.le), hp2(&cc.chord.te)], "tangent": [hp2(&cc.tangent.le), hp2(&cc.tangent.te)],
                                     "section": section.points().iter().map(hp2).collect::<Vec<_>>()}),
                Ok(Err(_)) => json!({"err": true}),
                Err(_) => json!({"panic": true}),
            }
        }
        "c10.orient" => {
            // airfoil/orientation.rs on synthetic stations (the section argument is not used by either implementation)
            let init: Vec<InscribedCircle> = c["init"].as_array().unwrap().iter().map(mk_circle).collect();
            let section = Curve2::from_points(&[Point2::new(0.0, 0.0), Point2::new(1.0, 0.0), Point2::new(1.0, 1.0)], 1e-6, false).unwrap();
            let orient: Box<dyn CamberOrient> = if c["orient"].is_string() { TMaxFwd::make() } else { DirectionFwd::make(v2(&c["orient"])) };
            match std::panic::catch_unwind(std::panic::AssertUnwindSafe(|| orient.orient_camber_line(&section, init.clone()))) {
                Ok(Ok(v)) => json!({"init": init.iter().map(circ).collect::<Vec<_>>(), "out": v.iter().map(circ).collect::<Vec<_>>()}),
                Ok(Err(e)) => json!({"init": init.iter().map(circ).collect::<Vec<_>>(), "err": format!("{}", e)}),
                Err(_) => json!({"panic": true}),
            }
        }
        _ => json!({"unknown": k}),
    }
}
