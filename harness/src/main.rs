// Runner for the implementation side of the correspondence check.
// stdin: one JSON case per line {"k": "<kind>", ...}; stdout: one JSON result per line.
// Floats cross the boundary as 16-hex-digit bit patterns.
mod util;
mod c01;
mod c02;
mod c03;
mod c04;
mod c05;
mod c06;
mod c07;
mod c08;
mod c09;
mod c10;
mod c11;
mod c12;
mod c13;
mod c14;
mod c15;
mod c16;
mod c17;
mod c18;
mod c19;
mod c20;

use serde_json::{json, Value};
use std::io::{BufRead, Write};
use std::sync::mpsc;
use std::time::Duration;

fn dispatch(case: &Value) -> Value {
    let k = case["k"].as_str().unwrap_or("");
    let p = k.split('.').next().unwrap_or("");
    match p {
        "c01" => c01::run(k, case),
        "c02" => c02::run(k, case),
        "c03" => c03::run(k, case),
        "c04" => c04::run(k, case),
        "c05" => c05::run(k, case),
        "c06" => c06::run(k, case),
        "c07" => c07::run(k, case),
        "c08" => c08::run(k, case),
        "c09" => c09::run(k, case),
        "c10" => c10::run(k, case),
        "c11" => c11::run(k, case),
        "c12" => c12::run(k, case),
        "c13" => c13::run(k, case),
        "c14" => c14::run(k, case),
        "c15" => c15::run(k, case),
        "c16" => c16::run(k, case),
        "c17" => c17::run(k, case),
        "c18" => c18::run(k, case),
        "c19" => c19::run(k, case),
        "c20" => c20::run(k, case),
        _ => json!({"unknown": k}),
    }
}

fn main() {
    std::panic::set_hook(Box::new(|info| { if std::env::var("VH_DEBUG").is_ok() { eprintln!("{}", info); } }));
    let stdin = std::io::stdin();
    // the library prints diagnostics to stdout from the worker thread: never hold the stdout lock across a case,
    // and mark result lines so that they can be told apart
    for line in stdin.lock().lines() {
        let line = line.unwrap();
        if line.trim().is_empty() {
            continue;
        }
        let case: Value = serde_json::from_str(&line).expect("bad case json");
        let tmo = case["timeout_ms"].as_u64().unwrap_or(20000);
        let (tx, rx) = mpsc::channel();
        std::thread::Builder::new()
            .stack_size(256 << 20)
            .spawn(move || {
                let r = std::panic::catch_unwind(|| dispatch(&case));
                let _ = tx.send(match r {
                    Ok(v) => v,
                    Err(_) => json!({"panic": true}),
                });
            })
            .unwrap();
        let (v, timed_out) = match rx.recv_timeout(Duration::from_millis(tmo)) {
            Ok(v) => (v, false),
            Err(_) => (json!({"timeout": true}), true),
        };
        {
            let mut out = std::io::stdout().lock();
            writeln!(out, "\n@@VH@@{}", v).unwrap();
            out.flush().unwrap();
        }
        if timed_out {
            // the worker thread cannot be killed and would keep a core busy for the rest of the batch (and starve the
            // watchdog of later cases): leave, the runner starts a fresh process for the remaining cases
            std::process::exit(3);
        }
    }
    std::process::exit(0);
}
