use crate::util::*;
use engeom::geom3::Mesh;
use engeom::{Curve2, Curve3, Iso3, Point3};
use parry3d_f64::shape::TrianglePointLocation;
use serde_json::{json, Value};

fn loc(l: &TrianglePointLocation) -> Value {
    match l {
        TrianglePointLocation::OnVertex(i) => json!({"kind": "vertex", "i": i}),
        TrianglePointLocation::OnEdge(i, bc) => json!({"kind": "edge", "i": i, "bc": [hx(bc[0]), hx(bc[1])]}),
        TrianglePointLocation::OnFace(i, bc) => json!({"kind": "face", "i": i, "bc": [hx(bc[0]), hx(bc[1]), hx(bc[2])]}),
        TrianglePointLocation::OnSolid => json!({"kind": "solid"}),
    }
}

pub fn run(k: &str, c: &Value) -> Value {
    match k {
        "c02.curve2" => {
            let curve = match Curve2::from_points(&p2s(&c["pts"]), fx(&c["tol"]), c["closed"].as_bool().unwrap()) { Ok(c) => c, Err(_) => return json!({"err": true}) };
            let out: Vec<Value> = p2s(&c["qs"]).iter().map(|q| {
                let s = curve.at_closest_to_point(q);
                json!({"p": hp2(&s.point()), "index": s.index(), "fraction": hx(s.fraction()), "length_along": hx(s.length_along()),
                       "dir": hv2(&s.direction().into_inner()), "dist": hx(curve.dist_to_point(q))})
            }).collect();
            json!({"points": curve.points().iter().map(hp2).collect::<Vec<_>>(), "lengths": hxs(curve.lengths()), "out": out})
        }
        "c02.curve3" => {
            let curve = match Curve3::from_points(&p3s(&c["pts"]), fx(&c["tol"])) { Ok(c) => c, Err(_) => return json!({"err": true}) };
            let out: Vec<Value> = p3s(&c["qs"]).iter().map(|q| {
                let s = curve.at_closest_to_point(q);
                json!({"p": hp3(&s.point()), "index": s.index(), "fraction": hx(s.fraction()), "length_along": hx(s.length_along()),
                       "dir": hv3(&s.direction().into_inner()), "dist": hx(curve.dist_to_point(q))})
            }).collect();
            json!({"points": curve.points().iter().map(hp3).collect::<Vec<_>>(), "lengths": hxs(curve.lengths()), "out": out})
        }
        "c02.mesh" => {
            let verts = p3s(&c["verts"]);
            let faces: Vec<[u32; 3]> = c["faces"].as_array().unwrap().iter().map(|f| [us(&f[0]) as u32, us(&f[1]) as u32, us(&f[2]) as u32]).collect();
            let mesh = Mesh::new(verts, faces, c["solid"].as_bool().unwrap());
            let (md, ma) = (fx(&c["max_dist"]), fx(&c["max_angle"]));
            let qs = p3s(&c["qs"]);
            let out: Vec<Value> = qs.iter().map(|q| {
                let sp = std::panic::catch_unwind(std::panic::AssertUnwindSafe(|| mesh.surf_closest_to(q)));
                let spv = match sp { Ok(s) => json!({"p": hp3(&s.point), "n": hv3(&s.normal.into_inner())}), Err(_) => json!({"panic": true}) };
                let pc = match std::panic::catch_unwind(std::panic::AssertUnwindSafe(|| mesh.point_closest_to(q))) { Ok(p) => p, Err(_) => Point3::new(f64::NAN, f64::NAN, f64::NAN) };
                let wm = mesh.project_with_max_dist(q, md).map(|(prj, id, l)| json!({"p": hp3(&prj.point), "inside": prj.is_inside, "id": id, "loc": loc(&l)}));
                let wt = mesh.project_with_tol(q, md, ma, None).map(|(prj, id, _)| json!({"p": hp3(&prj.point), "id": id}));
                let wtt = mesh.project_with_tol(q, md, ma, Some(&Iso3::identity())).map(|(prj, id, _)| json!({"p": hp3(&prj.point), "id": id}));
                // geom3/mesh/measurement.rs: the point-mode deviation reports the same distance
                let dev = std::panic::catch_unwind(std::panic::AssertUnwindSafe(|| { let m = mesh.measure_point_deviation(q, engeom::common::DistMode::ToPoint);
                    json!({"a": hp3(&m.a), "dir": hv3(&m.direction.into_inner()), "value": hx(engeom::metrology::Measurement::value(&m))}) })).unwrap_or(json!({"panic": true}));
                json!({"surf": spv, "closest": hp3(&pc), "max": wm, "tol": wt, "tol_id": wtt, "dev": dev})
            }).collect();
            let idx = mesh.indices_in_tol(&qs, md, ma, None);
            // the same cloud expressed in another frame together with the transform into the mesh's frame
            let idx_frame = if c["frame"].is_null() { Value::Null } else {
                let f = &c["frame"];
                let t = Iso3::new(engeom::Vector3::new(fx(&f[0]), fx(&f[1]), fx(&f[2])), engeom::Vector3::new(fx(&f[3]), fx(&f[4]), fx(&f[5])));
                let ti = t.inverse();
                let others: Vec<Point3> = qs.iter().map(|q| ti * q).collect();
                json!(mesh.indices_in_tol(&others, md, ma, Some(&t)))
            };
            let normals: Vec<Value> = (0..mesh.faces().len()).map(|i| { let f = mesh.faces()[i]; let v = mesh.vertices();
                let n = (v[f[1] as usize] - v[f[0] as usize]).cross(&(v[f[2] as usize] - v[f[0] as usize])); hv3(&n) }).collect();
            let _ = Point3::origin();
            json!({"out": out, "in_tol": idx, "in_tol_frame": idx_frame, "raw_normals": normals})
        }
        _ => json!({"unknown": k}),
    }
}
