use crate::util::*;
use engeom::geom2::polyline2::{farthest_point_direction_distance, max_intersection, polyline_intersections, ray_intersect_with_edge, spanning_ray};
use engeom::geom2::{intersection_param, Line2, Ray2};
use engeom::common::Intersection;
use engeom::{Curve2, Point2, SurfacePoint2, UnitVec2};
use parry2d_f64::shape::Polyline;
use serde_json::{json, Value};

pub fn run(k: &str, c: &Value) -> Value {
    match k {
        "c06.ray" => {
            let pts = p2s(&c["pts"]);
            let line = Polyline::new(pts.clone(), None);
            let ray = Ray2::new(p2(&c["o"]), v2(&c["d"]));
            let fast: Vec<Value> = polyline_intersections(&line, &ray).iter().map(|(t, i)| json!([hx(*t), i])).collect();
            let naive: Vec<Value> = (0..pts.len() - 1).map(|i| match ray_intersect_with_edge(&line, &ray, i) { Some(t) => hx(t), None => Value::Null }).collect();
            let sp = spanning_ray(&line, &ray).map(|s| json!({"o": hp2(&s.origin()), "d": hv2(&s.dir())}));
            let mx = max_intersection(&line, &ray).map(hx);
            let far = hx(farthest_point_direction_distance(&line, &ray));
            // the same through Curve2 (its own tolerance de-duplication may drop vertices: only when the vertex list survives)
            let via_curve = match Curve2::from_points(&pts, 0.0, false) {
                Ok(cv) if cv.points().len() == pts.len() => {
                    let a: Vec<Value> = cv.ray_intersections(&ray).iter().map(|(t, i)| json!([hx(*t), i])).collect();
                    let spc = cv.try_create_spanning_ray(&ray).map(|s| json!({"o": hp2(&s.origin()), "d": hv2(&s.dir())}));
                    let nrm = ray.dir.norm();
                    let spt = if nrm > 0.0 { let sp = SurfacePoint2::new(ray.origin, UnitVec2::new_normalize(ray.dir));
                        Some(hxs(&cv.intersection(&sp))) } else { None };
                    json!({"hits": a, "span": spc, "sp": spt})
                }
                _ => Value::Null,
            };
            json!({"fast": fast, "naive": naive, "span": sp, "max": mx, "far": far, "curve": via_curve})
        }
        "c06.param" => {
            let r = intersection_param(&p2(&c["a0"]), &v2(&c["ad"]), &p2(&c["b0"]), &v2(&c["bd"]));
            json!({"r": r.map(|(a, b)| json!([hx(a), hx(b)]))})
        }
        "c06.slab" => {
            let ray = Ray2::new(p2(&c["o"]), v2(&c["d"]));
            let mins: Point2 = p2(&c["mins"]);
            let maxs: Point2 = p2(&c["maxs"]);
            json!({"hit": engeom::geom2::polyline2::verif::slab_hit(mins, maxs, &ray)})
        }
        _ => json!({"unknown": k}),
    }
}
