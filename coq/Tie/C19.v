(* Correspondence checkers for C19. *)
From Coq Require Import ZArith List Bool Arith Floats.
From EG Require Export Num.Num Num.FTrig Num.FNum Lib.Vec Model.Types Model.Frames.
Import ListNotations.
Local Open Scope float_scope.

Notation F3 := (@V3 FNum).
Notation F2 := (@V2 FNum).
Definition c9 (a b : float) : bool := f_close a b.
Definition p39 (a b : F3) : bool := c9 (@x3 FNum a) (@x3 FNum b) && c9 (@y3 FNum a) (@y3 FNum b) && c9 (@z3 FNum a) (@z3 FNum b).
Definition p29 (a b : F2) : bool := c9 (fst a) (fst b) && c9 (snd a) (snd b).
Definition e3 (a b : F3) : bool := (@x3 FNum a =? @x3 FNum b) && (@y3 FNum a =? @y3 FNum b) && (@z3 FNum a =? @z3 FNum b).
Definition e2 (a b : F2) : bool := (fst a =? fst b) && (snd a =? snd b).
Definition l9 (a b : list float) : bool := Nat.eqb (length a) (length b) && forallb (fun p => c9 (fst p) (snd p)) (combine a b).

Definition frame_of (kind : Z) (a b : F3) : option (@frame FNum) :=
  match kind with
  | 0 => @basis_xy FNum a b | 1 => @basis_xz FNum a b | 2 => @basis_yz FNum a b
  | 3 => @basis_yx FNum a b | 4 => @basis_zx FNum a b | _ => @basis_zy FNum a b
  end%Z.

(* rtag 0: Ok with the images of x, y, z and of the origin; 1: Err *)
Definition check_frame (kind : Z) (a b : F3) (o : option F3) (rtag : Z) (rx ry rz ro : F3) : Z :=
  match frame_of kind a b with
  | None => if Z.eqb rtag 1 then 0%Z else 1%Z
  | Some (m0, m1, m2) =>
      if negb (Z.eqb rtag 0) then 2%Z
      else if negb (p39 m0 rx && p39 m1 ry && p39 m2 rz) then 3%Z
      else if negb (e3 ro (match o with Some p => p | None => (0, 0, 0) end)) then 4%Z
      else 0%Z
  end.

Definition check_xyo (x0 y o : F3) (rx ry rz ro : F3) : Z :=
  let '(m0, m1, m2) := @frame_xyo FNum x0 y in
  if negb (p39 m0 rx && p39 m1 ry && p39 m2 rz) then 3%Z else if negb (p39 ro o) then 4%Z else 0%Z.

(* ---- SVD certificate ---- *)
Definition gram3 (vs : list F3) (b : F3) : F3 :=
  fold_left (fun acc v => @add3 FNum acc (@scale3 FNum v (@dot3 FNum v b))) vs (0, 0, 0).
Definition gram2 (vs : list F2) (b : F2) : F2 :=
  fold_left (fun acc v => @add2 FNum acc (@scale2 FNum v (@dot2 FNum v b))) vs (0, 0).
Fixpoint nonincreasing (l : list float) : bool :=
  match l with a :: ((b :: _) as l') => (b <=? a) && nonincreasing l' | _ => true end.

(* eigen-pair residual: |M b - s^2 b| <= 1e-9 * max(s0^2, tiny) componentwise *)
Definition eig3 (vs : list F3) (s0 : float) (b : F3) (s : float) : bool :=
  let r := @sub3 FNum (gram3 vs b) (@scale3 FNum b (s * s)%float) in
  let lim := 0x1.12e0be826d695p-30 * f_max (s0 * s0) 0x1p-1000 in
  (abs (@x3 FNum r) <=? lim) && (abs (@y3 FNum r) <=? lim) && (abs (@z3 FNum r) <=? lim).
Definition eig2 (vs : list F2) (s0 : float) (b : F2) (s : float) : bool :=
  let r := @sub2 FNum (gram2 vs b) (@scale2 FNum b (s * s)%float) in
  let lim := 0x1.12e0be826d695p-30 * f_max (s0 * s0) 0x1p-1000 in
  (abs (fst r) <=? lim) && (abs (snd r) <=? lim).

Definition check_svd3 (pts : list F3) (w : option (list float)) (q : F3) (tol : float)
           (rc : F3) (rb : list F3) (rsv : list float) (rn : Z) (rvar rstd : list float) (rrank : Z)
           (rto rfrom : F3) (ix iy iz io : F3) : Z :=
  let '(c, vs) := @centred3 FNum pts w in
  match rb, rsv with
  | [b0; b1; b2], [s0; s1; s2] =>
      if negb (p39 c rc) then 1%Z
      else if negb (Z.eqb rn (Z.of_nat (length pts))) then 2%Z
      else if negb (c9 (@dot3 FNum b0 b0) 1 && c9 (@dot3 FNum b1 b1) 1 && c9 (@dot3 FNum b2 b2) 1 &&
                    c9 (@dot3 FNum b0 b1 + 1) 1 && c9 (@dot3 FNum b0 b2 + 1) 1 && c9 (@dot3 FNum b1 b2 + 1) 1) then 3%Z
      else if negb (nonincreasing rsv && (0 <=? s2)) then 4%Z
      else if negb (eig3 vs s0 b0 s0 && eig3 vs s0 b1 s1 && eig3 vs s0 b2 s2) then 5%Z
      else if negb (l9 (@variances FNum rsv (length pts)) rvar && l9 (@stdevs FNum rsv (length pts)) rstd) then 6%Z
      else if negb (Z.eqb rrank (Z.of_nat (@rank FNum rsv tol))) then 7%Z
      else if negb (p39 (@to_basis3 FNum (b0, b1, b2) rc q) rto && p39 (@from_basis3 FNum (b0, b1, b2) rc q) rfrom) then 8%Z
      else let '(m0, m1, m2) := @frame_from_basis FNum b0 b1 in
           if negb (p39 m0 ix && p39 m1 iy && p39 m2 iz && p39 io rc) then 9%Z else 0%Z
  | _, _ => 10%Z
  end.

Definition check_svd2 (pts : list F2) (w : option (list float)) (q : F2) (tol : float)
           (rc : F2) (rb : list F2) (rsv : list float) (rn : Z) (rvar : list float) (rrank : Z) (rto rfrom : F2) : Z :=
  let '(c, vs) := @centred2 FNum pts w in
  match rb, rsv with
  | [b0; b1], [s0; s1] =>
      if negb (p29 c rc) then 1%Z
      else if negb (Z.eqb rn (Z.of_nat (length pts))) then 2%Z
      else if negb (c9 (@dot2 FNum b0 b0) 1 && c9 (@dot2 FNum b1 b1) 1 && c9 (@dot2 FNum b0 b1 + 1) 1) then 3%Z
      else if negb (nonincreasing rsv && (0 <=? s1)) then 4%Z
      else if negb (eig2 vs s0 b0 s0 && eig2 vs s0 b1 s1) then 5%Z
      else if negb (l9 (@variances FNum rsv (length pts)) rvar) then 6%Z
      else if negb (Z.eqb rrank (Z.of_nat (@rank FNum rsv tol))) then 7%Z
      else if negb (p29 (@to_basis2 FNum b0 b1 rc q) rto && p29 (@from_basis2 FNum b0 b1 rc q) rfrom) then 8%Z
      else 0%Z
  | _, _ => 10%Z
  end.

(* ---- planes ---- *)
Definition check_plane (pl : @plane FNum) (q : F3) (rn : F3) (rd rs rdist : float) (rproj : F3) (rin : F3) (rid ris : float) : Z :=
  let inv := @plane_inverted FNum pl in
  if negb (p39 (pn pl) rn && c9 (pd pl) rd) then 1%Z
  else if negb (c9 (@plane_signed FNum pl q) rs && c9 (@plane_dist FNum pl q) rdist) then 2%Z
  else if negb (p39 (@plane_project FNum pl q) rproj) then 3%Z
  else if negb (p39 (pn inv) rin && c9 (pd inv) rid && c9 (@plane_signed FNum inv q) ris) then 4%Z
  else 0%Z.
Definition check_plane3 (p1 p2 p3 q : F3) := check_plane (@plane_from_3 FNum p1 p2 p3) q.
Definition check_planepn (n p q : F3) := check_plane (@plane_from_np FNum (@normalize3 FNum n) p) q.
