(* Correspondence checkers for C12 (discrete: exact comparison, sets compared as sets). *)
From Coq Require Import ZArith List Bool Arith.
From Coq Require Import Floats.
From EG Require Export Num.Num Num.FNum Lib.Vec Model.MeshTopo Model.MeshGeom.
Import ListNotations.

Definition zface (f : Z * Z * Z) : face := let '(a, b, c) := f in (Z.to_nat a, Z.to_nat b, Z.to_nat c).
Definition zedge (e : Z * Z) : edge := (Z.to_nat (fst e), Z.to_nat (snd e)).
Definition nat_list_eqb (a b : list nat) : bool :=
  (length a =? length b) && forallb (fun p => fst p =? snd p) (combine a b).
Definition edge_list_eqb (a b : list edge) : bool :=
  (length a =? length b) && forallb (fun p => edge_eqb (fst p) (snd p)) (combine a b).
Definition tri_eqb (a b : nat * nat * nat) : bool :=
  let '(a0, a1, a2) := a in let '(b0, b1, b2) := b in (a0 =? b0) && (a1 =? b1) && (a2 =? b2).
Definition tri_list_eqb (a b : list (nat * nat * nat)) : bool :=
  (length a =? length b) && forallb (fun p => tri_eqb (fst p) (snd p)) (combine a b).
Definition loops_eqb (a b : list (list nat)) : bool :=
  (length a =? length b) && forallb (fun p => nat_list_eqb (fst p) (snd p)) (combine a b).

(* rust: None = Err(non-manifold); Some (edges, face_edges, loops) *)
Definition both (a b : Z) : Z := if (a =? 0)%Z || (a =? 100)%Z then (if (b =? 0)%Z then a else b) else a.

Definition check_edges (faces : list (Z * Z * Z))
           (rust : option (list (Z * Z) * list (Z * Z * Z) * list (list Z))) : Z :=
  match identify_edges (map zface faces), rust with
  | IE_Err, None => 0
  | IE_Ok es fe loops, Some (res, rfe, rloops) =>
      if negb (edge_list_eqb es (map zedge res)) then 1
      else if negb (tri_list_eqb fe (map zface rfe)) then 2
      else if negb (loops_eqb loops (map (map Z.to_nat) rloops)) then 3
      else
        (* hypotheses of C12_loops_closed_cycles, checked on this mesh: proper edges, even degree, closed *)
        let bes := boundary_dedges (map zface faces) (unique_edges (naive_edges (map zface faces))) in
        if negb (forallb (fun e => negb (Nat.eqb (fst e) (snd e))) bes) then 6
        else if negb (forallb (fun v => Nat.even (length (filter (fun e => touches e v) bes)))
                              (flat_map (fun e => [fst e; snd e]) bes)) then 7
        else match boundary_loops_full bes with Some s => if ls_closed s then 0 else 8 | None => 9 end
  | IE_Panic, _ => 4
  | _, _ => 5
  end%Z.

Definition mem_nat (x : nat) (l : list nat) := existsb (Nat.eqb x) l.
Definition same_set (a b : list nat) : bool :=
  (length a =? length b) && forallb (fun x => mem_nat x b) a && forallb (fun x => mem_nat x a) b.
Definition same_partition (A B : list (list nat)) : bool :=
  (length A =? length B) && forallb (fun a => existsb (same_set a) B) A && forallb (fun b => existsb (same_set b) A) B.

Definition pick_first (l : list nat) : option nat := hd_error l.
Definition pick_last (l : list nat) : option nat := hd_error (rev l).

Definition check_patches (faces : list (Z * Z * Z)) (runs : list (list (list Z))) : Z :=
  match compute_patch_indices pick_first (map zface faces), compute_patch_indices pick_last (map zface faces) with
  | Some p1, Some p2 =>
      if negb (same_partition p1 p2) then 1
      else if forallb (fun r => same_partition p1 (map (map Z.to_nat) r)) runs then 0 else 2
  | _, _ => 3
  end%Z.

Definition check_chain (pairs : list (Z * Z)) (rust : list (list Z)) : Z :=
  match chained_indices (map zedge pairs) with
  | Some ch => if loops_eqb ch (map (map Z.to_nat) rust) then 0 else 1
  | None => 2
  end%Z.

Definition vsame_set (a b : list voxel) : bool :=
  (length a =? length b) && forallb (fun x => vmem x b) a && forallb (fun x => vmem x a) b.
Definition vsame_partition (A B : list (list voxel)) : bool :=
  (length A =? length B) && forallb (fun a => existsb (vsame_set a) B) A && forallb (fun b => existsb (vsame_set b) A) B.
Definition check_clusters (voxels : list voxel) (runs : list (list (list voxel))) : Z :=
  match clusters_from_sparse (@hd_error voxel) voxels,
        clusters_from_sparse (fun l => hd_error (rev l)) voxels with
  | Some c1, Some c2 =>
      if negb (vsame_partition c1 c2) then 1
      else if forallb (fun r => vsame_partition c1 r) runs then 0 else 2
  | _, _ => 3
  end%Z.

Definition check_box_faces (rust : list (Z * Z * Z)) : Z :=
  if tri_list_eqb box_faces (map zface rust) then 0%Z else 1%Z.
Definition check_cyl_faces (steps : Z) (rust : list (Z * Z * Z)) : Z :=
  if tri_list_eqb (cylinder_faces (Z.to_nat steps)) (map zface rust) then 0%Z else 1%Z.

(* generator geometry *)
Definition fsame (a b : float) : bool := PrimFloat.eqb a b.
Definition v3_close (a b : @V3 FNum) : bool :=
  f_close (@x3 FNum a) (@x3 FNum b) && f_close (@y3 FNum a) (@y3 FNum b) && f_close (@z3 FNum a) (@z3 FNum b).
Definition v3_list_close (a b : list (@V3 FNum)) : bool :=
  (length a =? length b) && forallb (fun p => v3_close (fst p) (snd p)) (combine a b).
Definition check_box (w h d : float) (verts : list (@V3 FNum)) (rust : list (Z * Z * Z)) : Z :=
  if negb (tri_list_eqb box_faces (map zface rust)) then 1%Z
  else if negb (v3_list_close (@box_vertices FNum w h d) verts) then 2%Z else 0%Z.
Definition check_cyl (r h : float) (steps : Z) (verts : list (@V3 FNum)) (rust : list (Z * Z * Z)) : Z :=
  if negb (tri_list_eqb (cylinder_faces (Z.to_nat steps)) (map zface rust)) then 1%Z
  else if negb (v3_list_close (@cyl_vertices FNum r h (Z.to_nat steps)) verts) then 2%Z else 0%Z.

(* get_patch_boundary_points (patches.rs): the loops reported for the directed boundary edges [m] (successor map) use every edge
   exactly once as closed cycles, and there are as many loops as the model finds with any pick (here: the first key).
   0 agree; 11 an edge is missing or repeated or foreign; 12 the number of loops differs *)
From EG Require Import Model.PatchLoops.
Definition edge_eqb2 (a b : nat * nat) : bool := Nat.eqb (fst a) (fst b) && Nat.eqb (snd a) (snd b).
Definition count_edge (e : nat * nat) (l : list (nat * nat)) : nat := length (filter (edge_eqb2 e) l).
Definition check_patch_loops (m : list (Z * Z)) (loops : list (list Z)) : Z :=
  let mm := map (fun e => (Z.to_nat (fst e), Z.to_nat (snd e))) m in
  let ls := map (map Z.to_nat) loops in
  let got := flat_map cyc_edges ls in
  if negb (Nat.eqb (length got) (length mm) && forallb (fun e => Nat.eqb (count_edge e got) (count_edge e mm)) mm) then 11%Z
  else if negb (Nat.eqb (length (boundary_loops_of (fun m => match m with [] => None | (k, _) :: _ => Some k end) mm)) (length ls)) then 12%Z
  else 0%Z.
