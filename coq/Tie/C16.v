(* Correspondence checkers for C16: run the model at binary64 on the inputs the
   implementation ran on and compare with what the implementation returned. *)
From Coq Require Import ZArith List Bool Floats.
From EG Require Export Num.Num Num.FNum Lib.Vec.
From EG Require Export Model.Deviation Model.DevSet Model.Cloud Model.TolMap.
Import ListNotations.
Local Open Scope float_scope.

Definition f_same (a b : float) : bool := (a =? b) || (is_nan a && is_nan b).
Definition opt_same (a b : option float) : bool :=
  match a, b with Some x, Some y => f_same x y | None, None => true | _, _ => false end.
Definition close2 (a b : @V2 FNum) : bool := f_close (fst a) (fst b) && f_close (snd a) (snd b).
Definition close3 (a b : @V3 FNum) : bool :=
  f_close (@x3 FNum a) (@x3 FNum b) && f_close (@y3 FNum a) (@y3 FNum b) && f_close (@z3 FNum a) (@z3 FNum b).

(* --- SurfaceDeviationSet --- *)
Definition fsds := @sds float.
Definition obs_ok (s : fsds) (o : Z * option float * option float * float) : bool :=
  let '(len, mx, mn, zone) := o in
  Z.eqb len (Z.of_nat (length (vals s))) &&
  match sds_max s, sds_min s, @sds_zone FNum s with
  | Ok m, Ok n, Ok z => opt_same m mx && opt_same n mn && f_same z zone
  | _, _, _ => false
  end.

Fixpoint sds_steps (s : fsds) (ds : list float) (obs : list (Z * option float * option float * float)) (k : Z) : Z :=
  match obs with
  | [] => 1000
  | o :: obs' =>
      if negb (obs_ok s o) then k else
      match ds with
      | [] => match obs' with [] => 0 | _ => 1001 end
      | d :: ds' =>
          match sds_push PrimFloat.ltb s d with
          | Ok s' => sds_steps s' ds' obs' (k + 1)
          | _ => 2000 + k
          end
      end
  end%Z.

(* rust = Some obs (ran to completion) | None (panicked) *)
Definition check_sds (use_default : bool) (init ds : list float)
           (rust : option (list (Z * option float * option float * float))) : Z :=
  let s0 := if use_default then Ok (@sds_default float) else sds_new PrimFloat.ltb is_nan init in
  match s0, rust with
  | Ok s, Some obs => sds_steps s ds obs 1
  | Panic, None => 0
  | Ok _, None => 3000
  | _, _ => 3001
  end%Z.

(* --- tolerance map: zones are their own indices; rust = per query (panic?, zone, idx) --- *)
Definition nth_or (l : list float) (i : nat) := nth i l nan.
Definition check_tol_query (bp : list float) (x : float) (r : option (option Z * option Z)) : Z :=
  let zones := map Z.of_nat (seq 0 (length bp)) in
  match tolmap_get PrimFloat.ltb PrimFloat.leb is_nan bp zones x,
        index_of PrimFloat.ltb PrimFloat.leb is_nan bp x, r with
  | Panic, _, None => 0
  | Ok mz, Ok mi, Some (rz, ri) =>
      (* compare by breakpoint value: equal breakpoints may be reported under any of their indices *)
      let zone_ok := match mz, rz with
        | None, None => true
        | Some a, Some b => f_same (nth_or bp (Z.to_nat a)) (nth_or bp (Z.to_nat b))
        | _, _ => false end in
      let idx_ok := match mi, ri with
        | None, None => true
        | Some a, Some b => f_same (nth_or bp a) (nth_or bp (Z.to_nat b))
        | _, _ => false end in
      if zone_ok then (if idx_ok then 0 else 2) else 1
  | _, _, _ => 3
  end%Z.
Fixpoint check_tol (bp : list float) (qs : list (float * option (option Z * option Z))) (k : Z) : Z :=
  match qs with
  | [] => 0
  | (x, r) :: qs' =>
      match check_tol_query bp x r with
      | 0 => check_tol bp qs' (k + 1)
      | c => 10 * k + c
      end
  end%Z.

(* --- point cloud: elements are integers --- *)
Definition zcloud := cloud Z Z Z.
Definition zop := cop Z Z Z.
Definition list_eqb (a b : list Z) : bool :=
  Nat.eqb (length a) (length b) && forallb (fun p => Z.eqb (fst p) (snd p)) (combine a b).
Definition optl_eqb (a b : option (list Z)) : bool :=
  match a, b with Some x, Some y => list_eqb x y | None, None => true | _, _ => false end.
Definition cloud_obs_ok (s : zcloud) (o : list Z * option (list Z) * option (list Z)) : bool :=
  let '(p, n, c) := o in list_eqb (pts s) p && optl_eqb (nrm s) n && optl_eqb (col s) c.
Fixpoint cloud_steps (s : zcloud) (ops : list zop)
         (obs : list (Z * (list Z * option (list Z) * option (list Z)))) (k : Z) : Z :=
  match ops, obs with
  | [], [] => 0
  | o :: ops', (tag, ob) :: obs' =>
      let '(s', t) := cloud_step s o in
      if negb (Z.eqb t tag) then 10 * k + 1
      else if negb (cloud_obs_ok s' ob) then 10 * k + 2
      else cloud_steps s' ops' obs' (k + 1)
  | _, _ => 5
  end%Z.
(* rust = None: try_new rejected the initial vectors *)
Definition check_cloud (p : list Z) (n c : option (list Z)) (ops : list zop)
           (rust : option (list (Z * (list Z * option (list Z) * option (list Z))))) : Z :=
  match cloud_try_new p n c, rust with
  | Ok s, Some ((_, ob0) :: obs) => if cloud_obs_ok s ob0 then cloud_steps s ops obs 1 else 6
  | Err, None => 0
  | _, _ => 7
  end%Z.

(* --- deviations --- *)
(* 2D: station point, station normal, query; rust (normal, deviation, actual) *)
Definition check_dev2 (sp n p : @V2 FNum) (rn : @V2 FNum) (rdev : float) (ract : @V2 FNum) : Z :=
  (* inside the 1e-6 switch band either branch is legitimate: ambiguous, not compared *)
  let nv := @norm2 FNum (@sub2 FNum p sp) in
  if abs (nv - @eps6 FNum) <? 0x1p-40 then 100 else
  if negb (close2 (@dev2_normal FNum sp n p) rn) then 1
  else if negb (f_close (@dev2_value FNum sp n p) rdev) then 2
  else if negb (close2 (@dev2_actual FNum sp n p) ract) then 3
  else 0%Z.

Definition check_dev3 (to_plane : bool) (cp n p : @V3 FNum) (rdir : @V3 FNum) (rval : float) : Z :=
  let v := @sub3 FNum p cp in
  let nv := @norm3 FNum v in
  if abs (nv - @eps6 FNum) <? 0x1p-40 then 100 else
  if negb to_plane && (abs (@dot3 FNum n v) <? 0x1p-40) then 100 else
  if negb (close3 (@dev3_dir FNum to_plane cp n p) rdir) then 1
  else if negb (f_close (@dev3_value FNum to_plane cp n p) rval) then 2
  else 0%Z.

Definition check_dist2 (a b : @V2 FNum) (dir : option (@V2 FNum)) (rdir : @V2 FNum) (rval rrval : float) : Z :=
  let d := match dir with Some d => @normalize2 FNum d | None => @dist2_default_dir FNum a b end in
  if negb (close2 d rdir) then 1
  else if negb (f_close (@dist2_value FNum a b d) rval) then 2
  else if negb (f_close (@dist2_reversed_value FNum a b d) rrval) then 3
  else 0%Z.
Definition check_dist3 (a b : @V3 FNum) (dir : option (@V3 FNum)) (rdir : @V3 FNum) (rval rrval : float) : Z :=
  let d := match dir with Some d => @normalize3 FNum d | None => @dist3_default_dir FNum a b end in
  if negb (close3 d rdir) then 1
  else if negb (f_close (@dist3_value FNum a b d) rval) then 2
  else if negb (f_close (@dist3_reversed_value FNum a b d) rrval) then 3
  else 0%Z.
