(* Correspondence checkers for C14. Geometry (per-vertex projection facts, per-face angle facts) is
   supplied by the harness through the public API without any cache; the model supplies the selection
   logic, the cache and the evaluation order. *)
From Coq Require Import ZArith List Bool Arith.
From EG Require Export Model.Select.
Import ListNotations.

Inductive step :=
| SFacing (pred : list bool) (mode : select_op)
| SNear (all_points : bool) (vpart : list (bool * option nat)) (ang : list (list bool)) (has_angle : bool) (mode : select_op).

Definition same_set (a b : list nat) : bool :=
  forallb (fun x => mem x b) a && forallb (fun x => mem x a) b.

Definition run_step (nfaces : nat) (tri : nat -> nat * nat * nat) (rev_order : bool) (sel : list nat) (s : step) : list nat :=
  let ord := if rev_order then rev sel else sel in
  match s with
  | SFacing pred mode => mutate nfaces sel mode (fun i => nth i pred false)
  | SNear all vpart ang has_angle mode =>
      near_mesh nfaces nat tri (fun v => nth v vpart (false, None))
                (fun f rn => nth rn (nth f ang []) false) has_angle sel ord all mode
  end.

Fixpoint run_steps (nfaces : nat) (tri : nat -> nat * nat * nat) (rev_order : bool) (sel : list nat)
         (steps : list step) (expect : list (list nat)) (k : Z) : Z :=
  match steps, expect with
  | [], [] => 0
  | s :: steps', e :: expect' =>
      let sel' := run_step nfaces tri rev_order sel s in
      if same_set sel' e then run_steps nfaces tri rev_order sel' steps' expect' (k + 1) else k
  | _, _ => 1000
  end%Z.

Definition check_select (faces : list (nat * nat * nat)) (start : list nat) (steps : list step)
           (runs : list (list (list nat))) : Z :=
  let n := length faces in
  let tri := fun f => nth f faces (0, 0, 0) in
  fold_left (fun acc run =>
               if Z.eqb acc 0 then
                 match run_steps n tri false start steps run 1 with
                 | 0%Z => run_steps n tri true start steps run 101
                 | c => c
                 end
               else acc) runs 0%Z.

(* create_from_indices: rust = (old vertex id of each new vertex, new triangles) or None (panic) *)
Definition tri_eqb (a b : nat * nat * nat) : bool :=
  let '(a0, a1, a2) := a in let '(b0, b1, b2) := b in (a0 =? b0) && (a1 =? b1) && (a2 =? b2).
Definition check_from_indices (faces : list (nat * nat * nat)) (idx : list nat)
           (rust : option (list nat * list (nat * nat * nat))) : Z :=
  match create_from_indices faces idx, rust with
  | Some (keep, tris), Some (rkeep, rtris) =>
      if negb ((length keep =? length rkeep) && forallb (fun p => fst p =? snd p) (combine keep rkeep)) then 1%Z
      else if negb ((length tris =? length rtris) && forallb (fun p => tri_eqb (fst p) (snd p)) (combine tris rtris)) then 2%Z
      else 0%Z
  | None, None => 0%Z
  | _, _ => 3%Z
  end.
