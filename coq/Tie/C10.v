(* Correspondence checker for C10: the container logic through the public airfoil::helpers API. *)
From Coq Require Import ZArith List Bool Arith Floats.
From EG Require Export Num.Num Num.FTrig Num.FNum Lib.Vec Model.Types Model.Airfoil.
Import ListNotations.
Local Open Scope float_scope.

Notation F2 := (@V2 FNum).
Notation St := (@station FNum).
Definition e2 (a b : F2) : bool := (fst a =? fst b) && (snd a =? snd b).
Definition c9 (a b : float) : bool := f_close a b.
Definition p29 (a b : F2) : bool := c9 (fst a) (fst b) && c9 (snd a) (snd b).
Definition st_eq (a b : St) : bool :=
  e2 (s_c a) (s_c b) && (s_r a =? s_r b) && e2 (s_pos a) (s_pos b) && e2 (s_neg a) (s_neg b) && p29 (s_ro a) (s_ro b) && p29 (s_rd a) (s_rd b).
Definition sts_eq (a b : list St) : bool := Nat.eqb (length a) (length b) && forallb (fun p => st_eq (fst p) (snd p)) (combine a b).
Definition ost_eq (a b : option St) : bool := match a, b with Some x, Some y => st_eq x y | None, None => true | _, _ => false end.

Fixpoint replay (o : @oriented FNum) (pushes : list St) (lasts : list (option St)) : bool :=
  match lasts with
  | [] => true
  | l :: lasts' =>
      ost_eq (@o_last FNum o) l &&
      match pushes with
      | p :: pushes' => replay (@o_push FNum o p) pushes' lasts'
      | [] => true
      end
  end.

(* 0 agree; 1 a `last` after some push differs; 2 take_circles differs; 3 reverse_inscribed_circles differs; 4 tmax differs *)
Definition check_oriented (init : list St) (reversed : bool) (pushes : list St) (lasts : list (option St)) (taken rev : list St) (tmax : option St) : Z :=
  let o0 := @mkOr FNum init reversed in
  if negb (replay o0 pushes lasts) then 1%Z
  else if negb (sts_eq (o_circles (fold_left (@o_push FNum) pushes o0)) taken) then 2%Z
  else if negb (sts_eq (@reverse_inscribed_circles FNum init) rev) then 3%Z
  else if negb (ost_eq (@find_tmax FNum init) tmax) then 4%Z
  else 0%Z.

(* orientation: 0 agree; 100 decision within rounding of its threshold; 5 error status differs; 6 list differs *)
Definition res_sts_eq (a : res (list St)) (ok : bool) (b : list St) : Z :=
  match a with
  | Ok l => if ok then (if sts_eq l b then 0%Z else 6%Z) else 5%Z
  | _ => if ok then 5%Z else 0%Z
  end.
Definition check_orient_dir (dir : F2) (init : list St) (ok : bool) (out : list St) : Z :=
  match init with
  | s0 :: _ =>
      let a := @dot2 FNum dir (s_c s0) in let b := @dot2 FNum dir (s_c (last init s0)) in
      if f_close a b then 100%Z else res_sts_eq (@direction_fwd FNum dir init) ok out
  | [] => res_sts_eq (@direction_fwd FNum dir init) ok out
  end.
Definition check_orient_tmax (init : list St) (ok : bool) (out : list St) : Z :=
  match @tmax_fraction FNum init with
  | Ok f => if f_close f 0.5 then 100%Z else res_sts_eq (@tmax_fwd FNum init) ok out
  | _ => res_sts_eq (@tmax_fwd FNum init) ok out
  end.

(* inscribed_from_spanning_ray (Model/Inscribed.v): the bisection replayed on the implementation's polyline; a step whose
   decision (to_closest . dir > 0, or the loop test) is within rounding of its threshold makes the case ambiguous (100);
   7: the model needs more than the fuel; 8: centre, radius or a contact differs *)
From EG Require Import Model.Closest Model.Inscribed.
Fixpoint bisect_amb (fuel : nat) (pts : list F2) (r : @sray FNum) (tol : float) (pos neg : @side FNum) : bool :=
  match fuel with
  | O => false
  | S fuel' =>
      let w := (s_frac pos - s_frac neg) * @norm2 FNum (sr_dir r) in
      if f_close_tol 0x1p-40 w tol then true
      else if tol <? w then
        let fraction := (s_frac pos + s_frac neg) * 0x1p-1 in
        let working := @ray_at FNum r fraction in
        let cp := @closest_pt FNum pts working in
        let d := @dot2 FNum (@sub2 FNum cp working) (sr_dir r) in
        let distance := @dist2 FNum working cp in
        if abs d <=? 0x1p-30 * (distance * @norm2 FNum (sr_dir r)) then true
        else if 0 <? d then bisect_amb fuel' pts r tol (@mkSide FNum fraction distance cp) neg
        else bisect_amb fuel' pts r tol pos (@mkSide FNum fraction distance cp)
      else false
  end.
Definition check_inscribed (pts : list F2) (p0 p1 : F2) (tol : float) (c : F2) (rad : float) (cp cn : F2) : Z :=
  let r := @mkSRay FNum p0 (@sub2 FNum p1 p0) in
  if bisect_amb 200 pts r tol (@mkSide FNum 1 0 (@ray_at FNum r 1)) (@mkSide FNum 0 0 (@ray_at FNum r 0)) then 100%Z
  else match @inscribed FNum 200 pts r tol with
       | None => 7%Z
       | Some (mc, mr, mp, mn) =>
           let p29 := fun a b : F2 => f_close (fst a) (fst b) && f_close (snd a) (snd b) in
           if p29 mc c && f_close mr rad && p29 mp cp && p29 mn cn then 0%Z else 8%Z
       end.
