(* Correspondence checkers for C06. *)
From Coq Require Import ZArith List Bool Arith Floats.
From EG Require Export Num.Num Num.FTrig Num.FNum Lib.Vec Model.Types Model.Intersect.
Import ListNotations.
Local Open Scope float_scope.

Notation F2 := (@V2 FNum).
Definition c9 (a b : float) : bool := f_close a b.
Definition p29 (a b : F2) : bool := c9 (fst a) (fst b) && c9 (snd a) (snd b).
Definition SL : float := 0x1p-49.                      (* 8 * f64::EPSILON *)
Definition FMAX : float := 0x1.fffffffffffffp+1023.

Definition opt9 (m r : option float) : bool :=
  match m, r with Some a, Some b => c9 a b | None, None => true | _, _ => false end.

Fixpoint naive_opts (o d : F2) (pts : list F2) : list (option float) :=
  match pts with
  | v0 :: ((v1 :: _) as rest) => @ray_edge FNum o d v0 v1 :: naive_opts o d rest
  | _ => []
  end.
Fixpoint all2 {A B} (f : A -> B -> bool) (a : list A) (b : list B) : bool :=
  match a, b with [], [] => true | x :: a', y :: b' => f x y && all2 f a' b' | _, _ => false end.

(* 0 agree; 1 per-edge results differ; 2 accelerated list differs from sort+dedup of the per-edge scan; 3 spanning ray;
   4 max; 5 farthest *)
Definition check_ray (pts : list F2) (o d : F2) (rfast : list float) (rnaive : list (option float))
           (rspan : option (F2 * F2)) (rmax : option float) (rfar : float) : Z :=
  if negb (all2 opt9 (naive_opts o d pts) rnaive) then 1%Z
  else if negb (all2 c9 (map fst (@polyline_intersections FNum o d pts)) rfast) then 2%Z
  else if negb (match @spanning_ray FNum o d pts, rspan with
                | Some (p, v), Some (rp, rv) => p29 p rp && p29 v rv | None, None => true | _, _ => false end) then 3%Z
  else if negb (opt9 (@max_intersection FNum o d pts) rmax) then 4%Z
  else if negb (c9 (@farthest_distance FNum o d pts (PrimFloat.opp FMAX)) rfar) then 5%Z
  else 0%Z.

Definition check_param (a0 ad b0 bd : F2) (r : option (float * float)) : Z :=
  match @intersection_param FNum a0 ad b0 bd, r with
  | Some (a, b), Some (ra, rb) => if (a =? ra) && (b =? rb) then 0%Z else 1%Z
  | None, None => 0%Z
  | _, _ => 2%Z
  end.

Definition check_slab (o d mins maxs : F2) (r : bool) : Z :=
  if Bool.eqb (@slab_hit FNum SL FMAX o d mins maxs) r then 0%Z else 1%Z.
