(* Correspondence checker for C20: UvMapping::point and UvMapping::triangle. *)
From Coq Require Import ZArith List Bool Arith Floats.
From EG Require Export Num.Num Num.FTrig Num.FNum Lib.Vec Model.Types Model.Flatten.
Import ListNotations.
Local Open Scope float_scope.

Notation F2 := (@V2 FNum).
Definition c9 (a b : float) : bool := f_close a b.
Definition p29 (a b : F2) : bool := c9 (fst a) (fst b) && c9 (snd a) (snd b).

(* one query: face id and barycentric given -> uv reported by point(); then triangle(uv) -> (id', bc') *)
Definition check_one (uvs : list F2) (faces : list (Z * Z * Z)) (o : Z * (float * float * float) * F2 * Z * (float * float * float)) : Z :=
  let '(fid, bc, ruv, rid, rbc) := o in
  let tri (i : Z) := let '(a, b, c) := nth (Z.to_nat i) faces (0, 0, 0)%Z in
                     (nth (Z.to_nat a) uvs (0, 0), nth (Z.to_nat b) uvs (0, 0), nth (Z.to_nat c) uvs (0, 0)) in
  let '(a, b, c) := tri fid in
  if negb (p29 (@uv_point FNum a b c bc) ruv) then 1%Z
  else
    let '(a', b', c') := tri rid in
    (* the reported triangle and coordinates reproduce the uv point *)
    if negb (p29 (@uv_point FNum a' b' c' rbc) ruv) then 2%Z
    (* strictly inside the reported triangle the coordinates are the area coordinates *)
    else if @inside2 FNum a' b' c' ruv then
      let '(w0, w1, w2) := @bary2 FNum a' b' c' ruv in let '(r0, r1, r2) := rbc in
      if c9 w0 r0 && c9 w1 r1 && c9 w2 r2 then 0%Z else 3%Z
    else 0%Z.
Fixpoint first_nz (l : list Z) : Z := match l with [] => 0%Z | x :: l' => if Z.eqb x 0 then first_nz l' else x end.
Definition check_uv (uvs : list F2) (faces : list (Z * Z * Z)) (obs : list (Z * (float * float * float) * F2 * Z * (float * float * float))) : Z :=
  first_nz (map (check_one uvs faces) obs).

(* ---- engeom's arithmetic upstream of the sparse solver (hook conformal_verif), on the edge table the implementation built ---- *)
From EG Require Import Model.Conformal.
Notation F3 := (@V3 FNum).
Fixpoint all2 {A B} (f : A -> B -> bool) (l1 : list A) (l2 : list B) : bool :=
  match l1, l2 with [], [] => true | a :: l1', b :: l2' => f a b && all2 f l1' l2' | _, _ => false end.
Definition c93 (a b : float * float * float) : bool :=
  let '(a0, a1, a2) := a in let '(b0, b1, b2) := b in c9 a0 b0 && c9 a1 b1 && c9 a2 b2.
Definition zn2 (e : Z * Z) : nat * nat := (Z.to_nat (fst e), Z.to_nat (snd e)).
Definition zn3 (e : Z * Z * Z) : nat * nat * nat := let '(a, b, c) := e in (Z.to_nat a, Z.to_nat b, Z.to_nat c).
(* an angle within 0.05 of 0 or pi: the cotangent amplifies rounding beyond any fixed tolerance *)
Definition thin (t : float * float * float) : bool :=
  let '(a, b, c) := t in let lo := 0x1.999999999999ap-5 in let hi := @npi FNum - lo in
  (a <? lo) || (b <? lo) || (c <? lo) || (hi <? a) || (hi <? b) || (hi <? c).
Definition trip_eq (m : nat * nat * float) (r : Z * Z * float) : bool :=
  let '(mr, mc, mv) := m in let '(rr, rc, rv) := r in Z.eqb (Z.of_nat mr) rr && Z.eqb (Z.of_nat mc) rc && c9 mv rv.

Definition check_internals (verts : list F3) (faces : list (Z * Z * Z)) (edges : list (Z * Z)) (face_edges : list (Z * Z * Z)) (bound : list Z)
    (r_len : list float) (r_ang : list (float * float * float)) (r_def : list float) (r_trip : list (Z * Z * float))
    (r_blen r_bmass r_cum : list float) : Z :=
  let es := map zn2 edges in let fes := map zn3 face_edges in let fs := map zn3 faces in let ib := map Z.to_nat bound in
  let n := length verts in
  let lens := @edge_lengths FNum verts es in
  if negb (all2 c9 lens r_len) then 1%Z else
  let angs := @all_face_angles FNum lens fes in
  if existsb thin angs then 100%Z else
  if negb (all2 c93 angs r_ang) then 2%Z else
  if negb (all2 c9 (@angle_defects FNum n ib angs fs) r_def) then 3%Z else
  if negb (all2 trip_eq (@triplets FNum n es (@edge_weights FNum (length es) fes angs)) r_trip) then 4%Z else
  let bl := @boundary_edge_lengths FNum verts ib in
  if negb (all2 c9 bl r_blen) then 5%Z else
  if negb (all2 c9 (@boundary_vertex_masses FNum bl) r_bmass) then 6%Z else
  if negb (all2 c9 (@cumulative_sum FNum bl (- 0x1p-1)) r_cum) then 7%Z else 0%Z.

(* ---- the flattening certificate of Proofs/Congruent.v (face_ok for every face), evaluated in binary64 with the
        relative tolerance 1e-6 of the longest edge on the lengths: flat source coordinates and the returned layout ---- *)
Definition check_cert (flat uv : list F2) (faces : list (Z * Z * Z)) (scale : float) : Z :=
  let P (l : list F2) (i : Z) := nth (Z.to_nat i) l (0, 0) in
  let tol := 0x1.0c6f7a0b5ed8dp-20 * scale in
  let lenok (i j : Z) := abs (@dist2 FNum (P flat i) (P flat j) - @dist2 FNum (P uv i) (P uv j)) <=? tol in
  first_nz (map (fun f => let '(i, j, k) := f in
     if negb (lenok i j && lenok j k && lenok i k) then 1%Z
     else if negb ((0 <? @area2 FNum (P flat i) (P flat j) (P flat k)) && (0 <? @area2 FNum (P uv i) (P uv j) (P uv k))) then 2%Z
     else 0%Z) faces).
