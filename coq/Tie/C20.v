(* Correspondence checker for C20: UvMapping::point and UvMapping::triangle. *)
From Coq Require Import ZArith List Bool Arith Floats.
From EG Require Export Num.Num Num.FTrig Num.FNum Lib.Vec Model.Types Model.Flatten.
Import ListNotations.
Local Open Scope float_scope.

Notation F2 := (@V2 FNum).
Definition c9 (a b : float) : bool := f_close a b.
Definition p29 (a b : F2) : bool := c9 (fst a) (fst b) && c9 (snd a) (snd b).

(* one query: face id and barycentric given -> uv reported by point(); then triangle(uv) -> (id', bc') *)
Definition check_one (uvs : list F2) (faces : list (Z * Z * Z)) (o : Z * (float * float * float) * F2 * Z * (float * float * float)) : Z :=
  let '(fid, bc, ruv, rid, rbc) := o in
  let tri (i : Z) := let '(a, b, c) := nth (Z.to_nat i) faces (0, 0, 0)%Z in
                     (nth (Z.to_nat a) uvs (0, 0), nth (Z.to_nat b) uvs (0, 0), nth (Z.to_nat c) uvs (0, 0)) in
  let '(a, b, c) := tri fid in
  if negb (p29 (@uv_point FNum a b c bc) ruv) then 1%Z
  else
    let '(a', b', c') := tri rid in
    (* the reported triangle and coordinates reproduce the uv point *)
    if negb (p29 (@uv_point FNum a' b' c' rbc) ruv) then 2%Z
    (* strictly inside the reported triangle the coordinates are the area coordinates *)
    else if @inside2 FNum a' b' c' ruv then
      let '(w0, w1, w2) := @bary2 FNum a' b' c' ruv in let '(r0, r1, r2) := rbc in
      if c9 w0 r0 && c9 w1 r1 && c9 w2 r2 then 0%Z else 3%Z
    else 0%Z.
Fixpoint first_nz (l : list Z) : Z := match l with [] => 0%Z | x :: l' => if Z.eqb x 0 then first_nz l' else x end.
Definition check_uv (uvs : list F2) (faces : list (Z * Z * Z)) (obs : list (Z * (float * float * float) * F2 * Z * (float * float * float))) : Z :=
  first_nz (map (check_one uvs faces) obs).
