(* Correspondence checkers for C08. *)
From Coq Require Import ZArith List Bool Arith Floats.
From EG Require Export Num.Num Num.FTrig Num.FNum Lib.Vec Model.Types Model.Rigid Model.AlignParams.
Import ListNotations.
Local Open Scope float_scope.

Notation F2 := (@V2 FNum).
Notation F3 := (@V3 FNum).
Notation FM := (@M3 FNum).
Definition c9 (a b : float) : bool := f_close a b.
Definition p29 (a b : F2) : bool := c9 (fst a) (fst b) && c9 (snd a) (snd b).
Definition p39 (a b : F3) : bool := c9 (@x3 FNum a) (@x3 FNum b) && c9 (@y3 FNum a) (@y3 FNum b) && c9 (@z3 FNum a) (@z3 FNum b).
Definition m39 (a b : FM) : bool :=
  p39 (@mrow FNum a 0) (@mrow FNum b 0) && p39 (@mrow FNum a 1) (@mrow FNum b 1) && p39 (@mrow FNum a 2) (@mrow FNum b 2).
Definition EPS_BAND : float := 0x1.203af9ee75616p-50.    (* 1e-15, the gimbal band of to_wpr *)

(* one observed RcParams2 state: transform (c, s, t), inverse (c, s, t), current_rc, Jacobian row, the moved test point *)
Definition obs2 : Type := (float * float * F2) * (float * float * F2) * F2 * F3 * F2.
Definition check_state2 (s : @rc2 FNum) (p sn : F2) (o : obs2) : bool :=
  let '((tc, ts, ttr), (ic, is_, itr), cur, jac, moved) := o in
  let th := @z3 FNum (rc2_x s) in
  c9 tc (@ncos FNum th) && c9 ts (@nsin FNum th) && p29 ttr (@rc2_transform FNum s (0, 0)) &&
  p29 itr (@rc2_inverse FNum s (0, 0)) && c9 ic tc && c9 is_ (- ts) &&
  p29 cur (@rc2_current FNum s) && p39 jac (@point_surface_jacobian FNum p sn s) && p29 moved (@rc2_transform FNum s p).

Fixpoint check_states2 (s : @rc2 FNum) (p sn : F2) (sets : list F3) (obs : list obs2) : Z :=
  match obs with
  | [] => 0%Z
  | o :: obs' =>
      if negb (check_state2 s p sn o) then (1 + Z.of_nat (length obs'))%Z
      else match sets with
           | x :: sets' => check_states2 (@rc2_set FNum s x) p sn sets' obs'
           | [] => 0%Z
           end
  end.
Definition check_rc2 (ic is_ : float) (itr rc p sn : F2) (sets : list F3) (obs : list obs2) : Z :=
  check_states2 (@rc2_from_initial FNum (@mkRigid2 FNum ic is_ itr) rc) p sn sets obs.

(* RcParams3: transform as (matrix rows, translation), current_rc, r, q, d, rd, three Jacobian rows, moved point *)
Definition jac3 : Type := ((F3 * F3) * (F3 * F3) * (F3 * F3))%type.
Definition obs3 : Type := (FM * F3) * (FM * F3) * F3 * FM * (FM * FM * FM) * (FM * FM * FM) * jac3 * F3.
Definition j39 (a b : F3 * F3) : bool := p39 (fst a) (fst b) && p39 (snd a) (snd b).
Definition check_state3 (s : @rc3 FNum) (p cp cn cpt : F3) (o : obs3) : bool :=
  let '((tm, ttr), (im, itr), cur, q, (dx, dy, dz), (rdx, rdy, rdz), (jp, jr, jq), moved) := o in
  let r := rc3_rot s in
  m39 tm (rm_m r) && p39 ttr (@rc3_transform FNum s (0, 0, 0)) &&
  m39 im (@mtrans FNum (rm_m r)) && p39 itr (@rc3_inverse FNum s (0, 0, 0)) &&
  p39 cur (@rc3_current FNum s) && m39 q (rm_m r) &&
  m39 dx (rm_dx r) && m39 dy (rm_dy r) && m39 dz (rm_dz r) && m39 rdx (rm_rdx r) && m39 rdy (rm_rdy r) && m39 rdz (rm_rdz r) &&
  j39 jp (@point_plane_jacobian FNum p cp cn s) && j39 jr (@point_plane_jacobian_rev FNum p cp cn s) &&
  j39 jq (@point_point_jacobian FNum p cpt s) && p39 moved (@rc3_transform FNum s p).

Fixpoint check_states3 (s : @rc3 FNum) (p cp cn cpt : F3) (sets : list (F3 * F3)) (obs : list obs3) : Z :=
  match obs with
  | [] => 0%Z
  | o :: obs' =>
      if negb (check_state3 s p cp cn cpt o) then (1 + Z.of_nat (length obs'))%Z
      else match sets with
           | x :: sets' => check_states3 (@rc3_set FNum s x) p cp cn cpt sets' obs'
           | [] => 0%Z
           end
  end.
Definition check_rc3 (m : FM) (t rc p cp cn cpt : F3) (sets : list (F3 * F3)) (obs : list obs3) : Z :=
  check_states3 (@rc3_from_initial FNum EPS_BAND m t rc) p cp cn cpt sets obs.

Definition check_euler (r : F3) (q : FM) (d rd : FM * FM * FM) (q2 : FM) : Z :=
  let m := @from_euler FNum (@x3 FNum r) (@y3 FNum r) (@z3 FNum r) in
  let '(dx, dy, dz) := d in let '(rdx, rdy, rdz) := rd in
  if negb (m39 q (rm_m m)) then 1%Z
  else if negb (m39 dx (rm_dx m) && m39 dy (rm_dy m) && m39 dz (rm_dz m)) then 2%Z
  else if negb (m39 rdx (rm_rdx m) && m39 rdy (rm_rdy m) && m39 rdz (rm_rdz m)) then 3%Z
  else if negb (m39 q2 (rm_m (@from_rotation FNum EPS_BAND q))) then 4%Z
  else 0%Z.
