(* Correspondence checkers for C05. *)
From Coq Require Import ZArith List Bool Arith Floats.
From EG Require Export Num.Num Num.FNum Lib.Vec Model.TolMap Model.Curve Model.Resample.
Import ListNotations.
Local Open Scope float_scope.

Definition c6 (a b : float) : bool := f_close6 a b.
Definition p26 (a b : @V2 FNum) : bool := c6 (fst a) (fst b) && c6 (snd a) (snd b).
Definition p36 (a b : @V3 FNum) : bool := c6 (@x3 FNum a) (@x3 FNum b) && c6 (@y3 FNum a) (@y3 FNum b) && c6 (@z3 FNum a) (@z3 FNum b).
Definition pl26 (a b : list (@V2 FNum)) : bool := Nat.eqb (length a) (length b) && forallb (fun p => p26 (fst p) (snd p)) (combine a b).
Definition pl36 (a b : list (@V3 FNum)) : bool := Nat.eqb (length a) (length b) && forallb (fun p => p36 (fst p) (snd p)) (combine a b).

(* mode: 0 = by count n (also by max spacing, n supplied), 1 = by spacing s with fuel *)
Definition positions (V : @VOps FNum) (c : curve V) (mode : Z) (n : Z) (s : float) : res (list float) :=
  if Z.eqb mode 0 then Ok (@positions_by_count FNum (clength V c) (Z.to_nat n))
  else @positions_by_spacing FNum (Z.to_nat n) (clength V c) s.

(* rust: 0 = points, 1 = Err, 2 = panic *)
Definition check_resample2 (pts : list (@V2 FNum)) (tol : float) (closed : bool) (mode n : Z) (s : float)
           (rtag : Z) (rpts : list (@V2 FNum)) : Z :=
  match from_points (@VO2 FNum) true pts tol closed with
  | Ok c =>
      match positions (@VO2 FNum) c mode n s with
      | Ok ps =>
          match resample_at_positions (@VO2 FNum) c ps with
          | Ok r => if Z.eqb rtag 0 then (if pl26 (cpts _ r) rpts then 0 else 1) else 2
          | Err => if Z.eqb rtag 1 then 0 else 3
          | Panic => if Z.eqb rtag 2 then 0 else 4
          end
      | _ => if Z.eqb rtag 2 then 0 else 5
      end
  | _ => 6
  end%Z.

Definition check_resample3 (pts : list (@V3 FNum)) (tol : float) (mode n : Z) (s : float)
           (rtag : Z) (rpts : list (@V3 FNum)) : Z :=
  match from_points (@VO3 FNum) false pts tol false with
  | Ok c =>
      match positions (@VO3 FNum) c mode n s with
      | Ok ps =>
          match resample_at_positions (@VO3 FNum) c ps with
          | Ok r => if Z.eqb rtag 0 then (if pl36 (cpts _ r) rpts then 0 else 1) else 2
          | _ => if Z.eqb rtag 2 then 0 else 3      (* Curve3::resample unwraps: Err -> panic *)
          end
      | _ => if Z.eqb rtag 2 then 0 else 5
      end
  | _ => 6
  end%Z.

Definition check_simplify2 (pts : list (@V2 FNum)) (tol : float) (closed : bool) (e : float) (rtag : Z) (rpts : list (@V2 FNum)) : Z :=
  match from_points (@VO2 FNum) true pts tol closed with
  | Ok c => match simplify (@VO2 FNum) c e with
            | Ok r => if Z.eqb rtag 0 then (if pl26 (cpts _ r) rpts then 0 else 1) else 2
            | _ => if Z.eqb rtag 2 then 0 else 3
            end
  | _ => 6
  end%Z.
Definition check_simplify3 (pts : list (@V3 FNum)) (tol : float) (e : float) (rtag : Z) (rpts : list (@V3 FNum)) : Z :=
  match from_points (@VO3 FNum) false pts tol false with
  | Ok c => match simplify (@VO3 FNum) c e with
            | Ok r => if Z.eqb rtag 0 then (if pl36 (cpts _ r) rpts then 0 else 1) else 2
            | _ => if Z.eqb rtag 2 then 0 else 3
            end
  | _ => 6
  end%Z.

Definition check_rdp (pts : list (@V2 FNum)) (e : float) (rpts : list (@V2 FNum)) : Z :=
  if pl26 (rdp_points (@VO2 FNum) pts e) rpts then 0%Z else 1%Z.
Definition check_fill (pts : list (@V2 FNum)) (maxd : float) (fuel : Z) (rpts : list (@V2 FNum)) : Z :=
  match fill_gaps (@VO2 FNum) (Z.to_nat fuel) pts maxd with
  | Ok r => if pl26 r rpts then 0%Z else 1%Z
  | _ => 2%Z
  end.
