(* Correspondence checkers for C18 (the translator tie is primary; this is the differential tie). *)
From Coq Require Import ZArith List Bool Floats.
From EG Require Export Num.Num Num.FTrig Num.FNum Model.Types Model.Angles Model.Interval.
Import ListNotations.
Local Open Scope float_scope.

Definition fsame (a b : float) : bool := (a =? b) || (is_nan a && is_nan b).
Definition dir_of (b : bool) : AngleDir := if b then AngleDir_Ccw else AngleDir_Cw.

(* scalar angle functions: rust = (to_2pi a, signed_pi a, in_dir a b cw, in_dir a b ccw, compliment a).
   fmod is exact in both, every other step is one IEEE operation: results must agree to the last bit
   except for the libm-free pi constants, so exact comparison with a 2-ulp escape *)
Definition near (a b : float) : bool := fsame a b || f_close_tol 0x1p-48 a b.
Definition check_angles (a b : float) (r : float * float * float * float * float) : Z :=
  let '(r1, r2, r3, r4, r5) := r in
  if negb (near (@angle_to_2pi FNum a) r1) then 1
  else if negb (near (@angle_signed_pi FNum a) r2) then 2
  else if negb (near (@angle_in_direction FNum a b AngleDir_Cw) r3) then 3
  else if negb (near (@angle_in_direction FNum a b AngleDir_Ccw) r4) then 4
  else if negb (near (@signed_compliment_2pi FNum a) r5) then 5
  else 0%Z.

(* vector angles: atan2 is libm on the Rust side, so tolerance 1e-9; near the branch cut (+-pi) and for
   a = 0 the +2pi decision is ambiguous *)
Definition check_vec_angles (v1 v2 : float * float) (r : float * float * float) : Z :=
  let '(rs, rcw, rccw) := r in
  let s := @signed_angle FNum v1 v2 in
  if (abs s <? 0x1p-40) || (abs (abs s - f_pi) <? 0x1p-40) then 100 else
  if negb (f_close s rs) then 1
  else if negb (f_close (@directed_angle FNum v1 v2 AngleDir_Cw) rcw) then 2
  else if negb (f_close (@directed_angle FNum v1 v2 AngleDir_Ccw) rccw) then 3
  else 0%Z.

(* AngleInterval: rust = (start, angle, [contains q], intersects other) *)
Definition check_ainterval (s e : float) (qs : list float) (os oe : float)
           (r : float * float * list bool * bool) : Z :=
  let '(rs, re, rc, ri) := r in
  let i := @AngleInterval_new FNum s e in
  let o := @AngleInterval_new FNum os oe in
  if negb (near (AngleInterval_start i) rs && near (AngleInterval_angle i) re) then 1
  else if negb (forallb (fun p => Bool.eqb (@AngleInterval_contains FNum i (fst p)) (snd p)) (combine qs rc)) then 2
  else if negb (Bool.eqb (@AngleInterval_intersects FNum i o) ri) then 3
  else 0%Z.

(* Interval: comparison only -> exact.  rust option encodings: panic = None *)
Definition ival_same (i : @Interval FNum) (r : float * float) : bool :=
  fsame (Interval_min i) (fst r) && fsame (Interval_max i) (snd r).
Definition check_interval (a b c d x : float)
           (rnew : option (float * float)) (rtry : option (float * float))
           (rcontains roverlaps : bool) (rinter : option (float * float)) (rclamp : float) : Z :=
  match rnew with
  | None => if @Interval_new__asserts FNum a b then 1 else
            match @Interval_try_new FNum a b, rtry with Err, None => 0 | _, _ => 2 end
  | Some rn =>
    if negb (@Interval_new__asserts FNum a b) then 3 else
    let i := @Interval_new FNum a b in
    if negb (ival_same i rn) then 4 else
    match @Interval_try_new FNum a b, rtry with
    | Ok t, Some rt => if negb (ival_same t rt) then 5 else
        let o := @Interval_new_unchecked FNum (f_min c d) (f_max c d) in
        if negb (Bool.eqb (@Interval_contains FNum i x) rcontains) then 6
        else if negb (Bool.eqb (@Interval_overlaps FNum i o) roverlaps) then 7
        else if negb (match @Interval_intersection FNum i o, rinter with
                      | Some k, Some rk => ival_same k rk | None, None => true | _, _ => false end) then 8
        else if negb (fsame (@Interval_clamp FNum i x) rclamp) then 9
        else 0
    | _, _ => 10
    end
  end%Z.
