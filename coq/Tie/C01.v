(* Correspondence checkers for C01. *)
From Coq Require Import ZArith List Bool Arith Floats.
From EG Require Export Num.Num Num.FNum Lib.Vec Model.TolMap Model.Curve.
Import ListNotations.
Local Open Scope float_scope.

Definition fsame (a b : float) : bool := (a =? b) || (is_nan a && is_nan b).
Definition near (a b : float) : bool := fsame a b || f_close_tol 0x1p-40 a b.
Definition list_same (a b : list float) : bool :=
  Nat.eqb (length a) (length b) && forallb (fun p => fsame (fst p) (snd p)) (combine a b).
Definition list_near (a b : list float) : bool :=
  Nat.eqb (length a) (length b) && forallb (fun p => near (fst p) (snd p)) (combine a b).

Definition p2_same (a b : @V2 FNum) : bool := fsame (fst a) (fst b) && fsame (snd a) (snd b).
Definition p2_near (a b : @V2 FNum) : bool := near (fst a) (fst b) && near (snd a) (snd b).
Definition p3_same (a b : @V3 FNum) : bool :=
  fsame (@x3 FNum a) (@x3 FNum b) && fsame (@y3 FNum a) (@y3 FNum b) && fsame (@z3 FNum a) (@z3 FNum b).
Definition p3_near (a b : @V3 FNum) : bool :=
  near (@x3 FNum a) (@x3 FNum b) && near (@y3 FNum a) (@y3 FNum b) && near (@z3 FNum a) (@z3 FNum b).

(* rust station: (index, fraction, length_along, point, dir, normal) *)
Definition rst2 : Type := Z * float * float * (@V2 FNum) * (@V2 FNum) * (@V2 FNum).
Definition st2_ok (c : curve (@VO2 FNum)) (m : station (@VO2 FNum)) (r : rst2) : bool :=
  let '(ri, rf, rla, rp, rd, rn) := r in
  Z.eqb (Z.of_nat (st_index _ m)) ri && near (st_frac _ m) rf && near (length_along _ c m) rla &&
  p2_near (st_point _ m) rp && p2_near (st_dir _ m) rd && p2_near (@normal2 FNum (st_dir _ m)) rn.
Definition opt_st2_ok c (m : option (station (@VO2 FNum))) (r : option rst2) : bool :=
  match m, r with Some a, Some b => st2_ok c a b | None, None => true | _, _ => false end.

Definition check_curve2 (pts : list (@V2 FNum)) (tol : float) (force : bool)
           (rust : option (list float * bool * list (@V2 FNum) *
                           list (float * option rst2 * float * option rst2) * list rst2)) : Z :=
  match from_points (@VO2 FNum) true pts tol force, rust with
  | Err, None => 0
  | Ok c, Some (rlens, rclosed, rpts, rqs, riter) =>
      if negb (Nat.eqb (length (cpts _ c)) (length rpts) && forallb (fun p => p2_same (fst p) (snd p)) (combine (cpts _ c) rpts)) then 1
      else if negb (Bool.eqb (cclosed _ c) rclosed) then 2
      else if negb (list_near (clens _ c) rlens) then 3
      else if negb (list_same (clens _ c) rlens) then 100   (* lengths differ in the last bits: branch decisions not comparable *)
      else if negb (forallb (fun q => let '(l, ra, f, rb) := q in
                                      opt_st2_ok c (at_length _ c l) ra && opt_st2_ok c (at_fraction _ c f) rb) rqs) then 4
      else if negb (Nat.eqb (length riter) (count _ c) &&
                    forallb (fun p => st2_ok c (fst p) (snd p)) (combine (iter_stations _ c) riter)) then 5
      else 0
  | _, _ => 6
  end%Z.

Definition rst3 : Type := Z * float * float * (@V3 FNum) * (@V3 FNum).
Definition st3_ok (c : curve (@VO3 FNum)) (m : station (@VO3 FNum)) (r : rst3) : bool :=
  let '(ri, rf, rla, rp, rd) := r in
  Z.eqb (Z.of_nat (st_index _ m)) ri && near (st_frac _ m) rf && near (length_along _ c m) rla &&
  p3_near (st_point _ m) rp && p3_near (st_dir _ m) rd.
Definition opt_st3_ok c (m : option (station (@VO3 FNum))) (r : option rst3) : bool :=
  match m, r with Some a, Some b => st3_ok c a b | None, None => true | _, _ => false end.

Definition check_curve3 (pts : list (@V3 FNum)) (tol : float)
           (rust : option (list float * list (@V3 FNum) * list (float * option rst3 * float * option rst3))) : Z :=
  match from_points (@VO3 FNum) false pts tol false, rust with
  | Err, None => 0
  | Ok c, Some (rlens, rpts, rqs) =>
      if negb (Nat.eqb (length (cpts _ c)) (length rpts) && forallb (fun p => p3_same (fst p) (snd p)) (combine (cpts _ c) rpts)) then 1
      else if negb (list_near (clens _ c) rlens) then 3
      else if negb (list_same (clens _ c) rlens) then 100
      else if negb (forallb (fun q => let '(l, ra, f, rb) := q in
                                      opt_st3_ok c (at_length _ c l) ra && opt_st3_ok c (at_fraction _ c f) rb) rqs) then 4
      else 0
  | _, _ => 6
  end%Z.
