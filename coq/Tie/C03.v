(* Correspondence checkers for C03. *)
From Coq Require Import ZArith List Bool Arith Floats.
From EG Require Export Num.Num Num.FTrig Num.FNum Lib.Vec Model.Types Model.TolMap Model.Curve Model.Frames Model.Rigid.
Import ListNotations.
Local Open Scope float_scope.

Notation F2 := (@V2 FNum).
Notation F3 := (@V3 FNum).
Definition c9 (a b : float) : bool := f_close a b.
Definition p29 (a b : F2) : bool := c9 (fst a) (fst b) && c9 (snd a) (snd b).
Definition p39 (a b : F3) : bool := c9 (@x3 FNum a) (@x3 FNum b) && c9 (@y3 FNum a) (@y3 FNum b) && c9 (@z3 FNum a) (@z3 FNum b).
Definition pl29 (a b : list F2) : bool := Nat.eqb (length a) (length b) && forallb (fun p => p29 (fst p) (snd p)) (combine a b).
Definition pl39 (a b : list F3) : bool := Nat.eqb (length a) (length b) && forallb (fun p => p39 (fst p) (snd p)) (combine a b).

(* the transformed curve: vertices = images of the source curve's vertices (same count: no vertex merges or splits) *)
Definition check_curve2 (T : @rigid2 FNum) (src : list F2) (tol : float) (closed : bool) (rsrc rdst : list F2)
           (qs rtq : list F2) (sp : @sp2 FNum) (rtp rtn : F2) : Z :=
  match from_points (@VO2 FNum) true src tol closed with
  | Ok c =>
      if negb (pl29 (cpts _ c) rsrc) then 1%Z
      else match @curve_transformed FNum (@VO2 FNum) c (@apply2 FNum T) with
           | Ok tc => if negb (pl29 (cpts _ tc) rdst) then 2%Z
                      else if negb (pl29 (map (@apply2 FNum T) qs) rtq) then 3%Z
                      else let s := @sp2_transformed FNum T sp in
                           if negb (p29 (fst s) rtp && p29 (snd s) rtn) then 4%Z else 0%Z
           | _ => 5%Z
           end
  | _ => 99%Z
  end.

Definition check_curve3 (T : @rigid3 FNum) (src : list F3) (tol : float) (rsrc rdst : list F3) (qs rtq : list F3) : Z :=
  match from_points (@VO3 FNum) false src tol false with
  | Ok c =>
      if negb (pl39 (cpts _ c) rsrc) then 1%Z
      else match @curve_transformed FNum (@VO3 FNum) c (@apply3 FNum T) with
           | Ok tc => if negb (pl39 (cpts _ tc) rdst) then 2%Z
                      else if negb (pl39 (map (@apply3 FNum T) qs) rtq) then 3%Z else 0%Z
           | _ => 5%Z
           end
  | _ => 99%Z
  end.

Definition check_geom3 (T U : @rigid3 FNum) (pts : list F3) (q : F3) (n : F3) (d : float)
           (rtn : F3) (rtd : float) (rtq : F3) (rspp rspn : F3) (rcloud rseq rcomp rnorm0 rnorm1 : list F3)
           (da db ddir : F2) (ra3 rb3 rdir3 : F3) (rv2 rv3 : float) : Z :=
  let pl := @mkPlane FNum n d in
  let tp := @plane_transform FNum T pl in
  let p0 := match pts with p :: _ => p | [] => (0, 0, 0) end in
  let s := @sp3_transformed FNum T (p0, n) in
  let '(a3, b3, dir3) := @dist_to_3d FNum T da db ddir in
  if negb (p39 (pn tp) rtn && c9 (pd tp) rtd) then 1%Z
  else if negb (p39 (@apply3 FNum T q) rtq) then 2%Z
  else if negb (p39 (fst s) rspp && p39 (snd s) rspn) then 3%Z
  else if negb (pl39 (map (@apply3 FNum T) pts) rcloud) then 4%Z
  else if negb (pl39 (map (@rot3 FNum T) rnorm0) rnorm1) then 5%Z
  else if negb (pl39 (map (@apply3 FNum U) (map (@apply3 FNum T) pts)) rseq && pl39 (map (@apply3 FNum (@compose3 FNum U T)) pts) rcomp) then 6%Z
  else if negb (p39 a3 ra3 && p39 b3 rb3 && p39 dir3 rdir3) then 7%Z
  else if negb (c9 (@dist2_value FNum da db ddir) rv2 && c9 (@dist3_value FNum a3 b3 dir3) rv3) then 8%Z
  else 0%Z.
