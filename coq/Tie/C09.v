(* Correspondence checkers for C09. *)
From Coq Require Import ZArith List Bool Arith Floats.
From EG Require Export Num.Num Num.FNum Lib.Vec Model.Poly.
Import ListNotations.
Local Open Scope float_scope.

Definition fsame (a b : float) : bool := (a =? b) || (is_nan a && is_nan b).
Definition list_close (a b : list float) : bool :=
  Nat.eqb (length a) (length b) && forallb (fun p => f_close (fst p) (snd p)) (combine a b).

Definition mk_samples (xs ys : list float) (w : option (list float)) : list (@sample FNum) :=
  match w with
  | Some ws => map (fun p => (fst (fst p), snd (fst p), snd p)) (combine (combine xs ys) ws)
  | None => map (fun p => (fst p, snd p, 1)) (combine xs ys)
  end.

(* the returned coefficients must solve the model's normal equations (solve = oracle), row by row, relative
   to the size of the terms of that row *)
Definition check_poly (K : Z) (tol : float) (xs ys : list float) (w : option (list float)) (rc : list float) : Z :=
  let k := Z.to_nat K in
  let S := mk_samples xs ys w in
  let M := @hankel FNum k (@sums_of FNum k S) in
  let rhs := @rhs_of FNum k S in
  if negb (Nat.eqb (length rc) k) then 1%Z else
  let rows := combine M rhs in
  if forallb (fun rw =>
        let '(row, b) := rw in
        let lhs := @dotl FNum row rc in
        let scale := fold_left (fun acc p => acc + abs (fst p * snd p)) (combine row rc) (abs b) in
        abs (lhs - b) <=? tol * f_max 0x1p-60 scale) rows
  then 0%Z else 2%Z.

Definition check_line (xs ys : list float) (rm rb : float) : Z :=
  let '(m, b) := @best_fit_line FNum xs ys in
  if is_nan m || is_nan b then (if is_nan rm || is_nan rb then 0%Z else 100%Z)
  else if f_close6 m rm && f_close6 b rb then 0%Z else 1%Z.

(* Line1::try_from_points in both argument orders *)
Definition check_two_points (x0 y0 x1 y1 : float) (r : option (float * float)) : Z :=
  match @line_two_points FNum x0 y0 x1 y1, r with
  | Err, None => 0%Z
  | Ok (m, b), Some (rm, rb) => if f_close6 m rm && f_close6 b rb then 0%Z else 1%Z
  | _, _ => if abs (abs (x1 - x0) - 0x1.19799812dea11p-40) <? 0x1p-80 then 100%Z else 2%Z
  end.

Definition both (a b : Z) : Z := if (a =? 0)%Z || (a =? 100)%Z then (if (b =? 0)%Z then a else b) else a.

Definition check_circle3 (p0 p1 p2 : @V2 FNum) (r : option (float * float * float)) : Z :=
  match @circle3 FNum p0 p1 p2, r with
  | Err, None => 0%Z
  | Ok (cx, cy, rad), Some (rx, ry, rr) => if f_close6 cx rx && f_close6 cy ry && f_close6 rad rr then 0%Z else 1%Z
  | _, _ =>
      (* the collinearity decision |det| < 1e-6 is ambiguous within rounding of the threshold *)
      let det := (fst p0 - fst p1) * (snd p1 - snd p2) - (fst p1 - fst p2) * (snd p0 - snd p1) in
      if abs (abs det - 0x1.0c6f7a0b5ed8dp-20) <? 0x1p-60 then 100%Z else 2%Z
  end.

(* LM problem: after each set_params the residuals, weights and Jacobian rows *)
Definition row_close (a b : float * float * float) : bool :=
  let '(a0, a1, a2) := a in let '(b0, b1, b2) := b in f_close a0 b0 && f_close a1 b1 && f_close a2 b2.
Definition weights_ambiguous (pts : list (@V2 FNum)) (sigma : option float) (c : @circle FNum) : bool :=
  match sigma with
  | None => false
  | Some sg =>
      let res := map (@circle_dist FNum c) pts in
      let m := @mean FNum res in let sd := PrimFloat.sqrt (@variance FNum res) in
      existsb (fun r => abs (abs (r - m) / sd - sg) <? 0x1p-30) res
  end.
Fixpoint check_states (pts : list (@V2 FNum)) (sigma : option float)
         (hist : list (@circle FNum)) (obs : list (list float * list float * list (float * float * float))) (k : Z) : Z :=
  match hist, obs with
  | [], [] => 0%Z
  | c :: hist', (rres, rw, rjac) :: obs' =>
      if weights_ambiguous pts sigma c then 100%Z else
      let '(res, w) := @fit_state FNum pts sigma c in
      if negb (list_close w rw) then (10 * k + 1)%Z
      else if negb (list_close (@fit_residuals FNum pts sigma c) rres) then (10 * k + 2)%Z
      else if negb (Nat.eqb (length rjac) (length pts) &&
                    forallb (fun p => row_close (fst p) (snd p)) (combine (@fit_jacobian FNum pts sigma c) rjac)) then (10 * k + 3)%Z
      else check_states pts sigma hist' obs' (k + 1)%Z
  | _, _ => 5%Z
  end.
