(* Correspondence checkers for C17. *)
From Coq Require Import ZArith List Bool Arith Floats.
From EG Require Export Num.Num Num.FNum Model.TolMap Model.Series.
Import ListNotations.
Local Open Scope float_scope.

Definition fsame (a b : float) : bool := (a =? b) || (is_nan a && is_nan b).
Definition near (a b : float) : bool := fsame a b || f_close_tol 0x1p-40 a b.
Definition list_near (a b : list float) : bool :=
  Nat.eqb (length a) (length b) && forallb (fun p => near (fst p) (snd p)) (combine a b).
Definition list_same (a b : list float) : bool :=
  Nat.eqb (length a) (length b) && forallb (fun p => fsame (fst p) (snd p)) (combine a b).

Definition fseries := @series FNum.
(* rust series encodings: None = panic *)
Definition ser_near (m : res fseries) (r : option (list float * list float)) : bool :=
  match m, r with
  | Ok (xs, ys), Some (rx, ry) => list_near xs rx && list_near ys ry
  | Panic, None => true
  | _, _ => false
  end.

Definition has_dup (xs : list float) (x : float) : bool :=
  Nat.ltb 1 (length (filter (fun v => v =? x) xs)).

(* --- domain --- *)
Fixpoint push_hist (vals : list float) (ps : list float) (obs : list (bool * list float)) (k : Z) : Z :=
  match ps, obs with
  | [], [] => 0
  | v :: ps', (ok, rv) :: obs' =>
      match @dd_push FNum vals v with
      | Ok vals' => if ok && list_same vals' rv then push_hist vals' ps' obs' (k + 1) else k
      | _ => if negb ok && list_same vals rv then push_hist vals ps' obs' (k + 1) else k
      end
  | _, _ => 1000
  end%Z.

Definition check_domain (vals : list float) (rtf : option (list float))
           (ps : list float) (obs : list (bool * list float))
           (a b : float) (n : Z) (rlin rlin_rev rls : option (list float)) : Z :=
  let tf_ok := match @dd_try_from FNum vals, rtf with
               | Ok d, Some r => list_same d r | Err, None => true | _, _ => false end in
  if negb tf_ok then 1%Z else
  match push_hist [] ps obs 10 with
  | 0%Z =>
      let lin := @dd_linear FNum a b (Z.to_nat n) in
      let okl := fun r => match r with Some l => list_near lin l | None => false end in
      if negb (okl rlin) then 2%Z else if negb (okl rlin_rev) then 3%Z else if negb (okl rls) then 4%Z else 0%Z
  | c => c
  end.

(* --- series --- *)
(* interpolation: rust = None (panic) | Some v (v may be NaN) *)
Definition check_interp (s : fseries) (q : float) (r : option float) : Z :=
  let '(xs, ys) := s in
  match @s_interpolate FNum s q, r with
  | Panic, None => 0
  | Ok None, Some v => if is_nan v then 0 else 1
  | Ok (Some m), Some v =>
      if existsb (fun x => PrimFloat.eqb x q) xs
      then (* at a knot: any ordinate stored for that abscissa is a legitimate answer *)
           if existsb (fun p => PrimFloat.eqb (fst p) q && fsame (snd p) v) (combine xs ys) then 0 else 2
      else if f_close m v then 0 else 3
  | _, _ => 4
  end%Z.

Definition first_bad (l : list Z) : Z := fold_left (fun acc c => if Z.eqb acc 0 then c else acc) l 0%Z.

Definition check_series (xs ys qs : list float) (rinterp : list (option float))
           (sx sy dx dy : float) (rscaled rshifted : option (list float * list float))
           (x0 x1 : float) (rbetween : option (list float * list float))
           (level : float) (rcross : option (list float))
           (n : Z) (rres : option (list float * list float))
           (rarea : option float) : Z :=
  match @s_try_new FNum xs ys with
  | Ok s =>
      let c1 := first_bad (map (fun p => check_interp s (fst p) (snd p)) (combine qs rinterp)) in
      if negb (Z.eqb c1 0) then (10 + c1)%Z else
      if negb (ser_near (@s_scaled_by FNum s sx sy) rscaled) then 20%Z else
      if negb (ser_near (@s_shift_by FNum s dx dy) rshifted) then 21%Z else
      let dup := has_dup xs x0 || has_dup xs x1 in
      let cb := match @s_between FNum s x0 x1, rbetween with
                | Err, _ => 100      (* NaN ordinates would be stored: outside the property's domain *)
                | m, r => if dup then 100 else if ser_near m r then 0 else 30
                end%Z in
      if Z.eqb cb 30 then 30%Z else
      let cc := match rcross with
                | Some rc => if list_near (@s_y_crossings FNum s level) rc then 0 else 40
                | None => 41 end%Z in
      if negb (Z.eqb cc 0) then cc else
      let ca := match rarea with Some a => if f_close (@s_area_under FNum s) a then 0 else 50 | None => 51 end%Z in
      if negb (Z.eqb ca 0) then ca else
      let cr := match rres with
                | Some (rx, ry) =>
                    let mx := @s_resampled_xs FNum s (Z.to_nat n) in
                    if negb (list_near mx rx) then 60
                    else first_bad (map (fun p => match check_interp s (fst p) (Some (snd p)) with 0 => 0 | c => 60 + c end) (combine rx ry))
                | None => if Z.ltb n 1 then 0 else 69
                end%Z in
      if negb (Z.eqb cr 0) then cr else cb
  | _ => 1%Z
  end.
