(* Correspondence checkers for C02. *)
From Coq Require Import ZArith List Bool Arith Floats.
From EG Require Export Num.Num Num.FTrig Num.FNum Lib.Vec Model.Types Model.Curve Model.Closest.
Import ListNotations.
Local Open Scope float_scope.

Notation F2 := (@V2 FNum).
Notation F3 := (@V3 FNum).
Definition c9 (a b : float) : bool := f_close a b.
Definition p29 (a b : F2) : bool := c9 (fst a) (fst b) && c9 (snd a) (snd b).
Definition p39 (a b : F3) : bool := c9 (@x3 FNum a) (@x3 FNum b) && c9 (@y3 FNum a) (@y3 FNum b) && c9 (@z3 FNum a) (@z3 FNum b).

(* one query on a polyline: the implementation's (point, index, fraction, distance).
   0 agree; 1 the distance is not the minimum over all edges; 2 the reported point is not at the reported distance;
   3 index/fraction do not reproduce the point *)
Definition check_q2 (pts : list F2) (q rp : F2) (ri : Z) (rf rd : float) : Z :=
  match @poly_closest FNum (@VO2 FNum) q pts with
  | None => 9%Z
  | Some (d2, _, _, _) =>
      let i := Z.to_nat ri in
      let a := nth i pts (0, 0) in let b := nth (S i) pts (0, 0) in
      if negb (c9 (sqrt d2) rd) then 1%Z
      else if negb (c9 (@dist2 FNum q rp) rd) then 2%Z
      else if negb (p29 (@lerp2 FNum a b rf) rp) then 3%Z
      else 0%Z
  end.
Definition check_q3 (pts : list F3) (q rp : F3) (ri : Z) (rf rd : float) : Z :=
  match @poly_closest FNum (@VO3 FNum) q pts with
  | None => 9%Z
  | Some (d2, _, _, _) =>
      let i := Z.to_nat ri in
      let a := nth i pts (0, 0, 0) in let b := nth (S i) pts (0, 0, 0) in
      if negb (c9 (sqrt d2) rd) then 1%Z
      else if negb (c9 (@dist3 FNum q rp) rd) then 2%Z
      else if negb (p39 (@lerp3 FNum a b rf) rp) then 3%Z
      else 0%Z
  end.
Fixpoint first_nz (l : list Z) : Z := match l with [] => 0%Z | x :: l' => if Z.eqb x 0 then first_nz l' else x end.
Definition check_curve2 (pts : list F2) (qs : list (F2 * F2 * Z * float * float)) : Z :=
  first_nz (map (fun o => let '(q, rp, ri, rf, rd) := o in check_q2 pts q rp ri rf rd) qs).
Definition check_curve3 (pts : list F3) (qs : list (F3 * F3 * Z * float * float)) : Z :=
  first_nz (map (fun o => let '(q, rp, ri, rf, rd) := o in check_q3 pts q rp ri rf rd) qs).

(* one query on a non-solid mesh: reported closest point, and whether the capped query answered.
   100 = the distance is within rounding of the cap (not compared) *)
Definition check_qm (verts : list F3) (faces : list (nat * nat * nat)) (cap : float) (q rp : F3) (rmax : bool) : Z :=
  match @mesh_closest FNum q verts faces with
  | None => 9%Z
  | Some (d2, _, _) =>
      let d := sqrt d2 in
      if negb (c9 (@dist3 FNum q rp) d) then 1%Z
      else if abs (d - cap) <=? 0x1p-30 * f_max 1 cap then 100%Z
      else if negb (Bool.eqb (@within_cap FNum d2 cap) rmax) then 2%Z
      else 0%Z
  end.
Definition check_mesh (verts : list F3) (faces : list (Z * Z * Z)) (cap : float) (qs : list (F3 * F3 * bool)) : Z :=
  let fs := map (fun f => let '(a, b, c) := f in (Z.to_nat a, Z.to_nat b, Z.to_nat c)) faces in
  let rs := map (fun o => let '(q, rp, rmax) := o in check_qm verts fs cap q rp rmax) qs in
  let bad := filter (fun x => negb (Z.eqb x 0) && negb (Z.eqb x 100)) rs in
  match bad with x :: _ => x | [] => if existsb (Z.eqb 100) rs && forallb (fun x => Z.eqb x 100) rs then 100%Z else 0%Z end.
