(* Correspondence checkers for C04. *)
From Coq Require Import ZArith List Bool Arith Floats.
From EG Require Export Num.Num Num.FTrig Num.FNum Lib.Vec Model.Types Model.TolMap Model.Curve Model.Portion.
Import ListNotations.
Local Open Scope float_scope.

Notation F2 := (@V2 FNum).
Notation VF := (@VO2 FNum).
Definition c6 (a b : float) : bool := f_close6 a b.
Definition p26 (a b : F2) : bool := c6 (fst a) (fst b) && c6 (snd a) (snd b).
Definition pl26 (a b : list F2) : bool := Nat.eqb (length a) (length b) && forallb (fun p => p26 (fst p) (snd p)) (combine a b).

(* model result vs implementation: 0 agree, 1 points differ, 2 Some/None differ, 3 model panics *)
Definition cmp_opt (m : res (option (curve VF))) (r : option (list F2)) : Z :=
  match m, r with
  | Ok (Some c), Some pts => if pl26 (cpts VF c) pts then 0%Z else 1%Z
  | Ok None, None => 0%Z
  | Ok _, _ => 2%Z
  | _, _ => 3%Z
  end.
Definition cmp_pair (m : res (curve VF * curve VF)) (r : option (list F2 * list F2)) : Z :=
  match m, r with
  | Ok (a, b), Some (ra, rb) => if pl26 (cpts VF a) ra && pl26 (cpts VF b) rb then 0%Z else 1%Z
  | Err, None => 0%Z
  | Panic, _ => 3%Z
  | _, _ => 2%Z
  end.
Definition first_nz (l : list Z) : Z :=
  fold_left (fun acc x => if Z.eqb acc 0 then x else acc) l 0%Z.

Definition check_portion (pts : list F2) (tol : float) (closed : bool) (l0 l1 lc : float)
           (rb rc rtf rtb : option (list F2)) (rsplit rwrong : option (list F2 * list F2)) (rrev : option (list F2)) : Z :=
  match from_points VF true pts tol closed with
  | Ok c =>
      let split := if cclosed VF c then split_closed_at_lengths VF c l0 l1 else split_open_at_length VF c l0 in
      let wrong := if cclosed VF c then split_open_at_length VF c l0 else split_closed_at_lengths VF c l0 l1 in
      first_nz [ cmp_opt (between_lengths VF c l0 l1) rb;
                 (let x := cmp_opt (between_lengths_by_control VF c l0 l1 lc) rc in if Z.eqb x 0 then 0 else 10 + x)%Z;
                 (let x := cmp_opt (trim_front VF c l0) rtf in if Z.eqb x 0 then 0 else 20 + x)%Z;
                 (let x := cmp_opt (trim_back VF c l0) rtb in if Z.eqb x 0 then 0 else 30 + x)%Z;
                 (let x := cmp_pair split rsplit in if Z.eqb x 0 then 0 else 40 + x)%Z;
                 (let x := cmp_pair wrong rwrong in if Z.eqb x 0 then 0 else 50 + x)%Z;
                 (let x := match reversed VF c, rrev with
                           | Ok r, Some rp => if pl26 (cpts VF r) rp then 0 else 1
                           | Panic, None => 0 | _, _ => 2 end in if Z.eqb x 0 then 0 else 60 + x)%Z ]
  | _ => 99%Z
  end.

(* the airfoil edge extraction from the two arc lengths, in both orders; a piece whose length is within rounding of the limit is
   ambiguous *)
Definition near_limit (c : curve VF) (frac : float) (m : res (option (curve VF))) : bool :=
  match m with
  | Ok (Some q) => abs (clength VF q - clength VF c * frac) <? 0x1p-30 * (1 + clength VF c)
  | _ => false
  end.
Definition check_edge_sub (pts : list F2) (tol : float) (closed : bool) (la lb frac : float) (r : option (list F2)) : Z :=
  match from_points VF true pts tol closed with
  | Ok c =>
      let x := cmp_opt (edge_sub VF c la lb frac) r in
      if Z.eqb x 0 then 0%Z
      else if near_limit c frac (between_lengths VF c la lb) || near_limit c frac (between_lengths VF c lb la) then 100%Z else x
  | _ => 99%Z
  end.
Definition both (a b : Z) : Z := if (a =? 0)%Z || (a =? 100)%Z then (if (b =? 0)%Z then a else b) else a.

(* a chain of portionings; each step is compared and the next one runs on the model's own piece *)
Fixpoint check_chain_from (c : curve VF) (steps : list (float * float * option (list F2))) : Z :=
  match steps with
  | [] => 0%Z
  | (l0, l1, r) :: rest =>
      match between_lengths VF c l0 l1, r with
      | Ok (Some n), Some pts => if pl26 (cpts VF n) pts then check_chain_from n rest else 1%Z
      | Ok None, None => 0%Z
      | Ok _, _ => 2%Z
      | _, _ => 3%Z
      end
  end.
Definition check_chain (pts : list F2) (tol : float) (closed : bool) (steps : list (float * float * option (list F2))) : Z :=
  match from_points VF true pts tol closed with
  | Ok c => check_chain_from c steps
  | _ => 99%Z
  end.
