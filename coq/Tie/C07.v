(* Correspondence checkers for C07: the reported residuals against the specification of the distance (C02's exhaustive
   scan) evaluated at the reported transform. *)
From Coq Require Import ZArith List Bool Arith Floats.
From EG Require Export Num.Num Num.FTrig Num.FNum Lib.Vec Model.Types Model.Curve Model.Closest Model.Rigid.
Import ListNotations.
Local Open Scope float_scope.

Notation F2 := (@V2 FNum).
Notation F3 := (@V3 FNum).
Definition c9 (a b : float) : bool := f_close a b.
Definition c6 (a b : float) : bool := f_close6 a b.
Fixpoint first_nz (l : list Z) : Z := match l with [] => 0%Z | x :: l' => if Z.eqb x 0 then first_nz l' else x end.

(* 2D: |residual i| = distance from T(p_i) to the curve, whenever the closest point is interior to an edge (there the
   station normal is the edge normal); interior : the implementation's fraction is away from 0 and 1 *)
Definition check_curve (curve : list F2) (T : @rigid2 FNum) (displaced : list F2) (obs : list (float * bool)) : Z :=
  first_nz (map (fun po => let '(p, (res, interior)) := po in
                           let m := @apply2 FNum T p in
                           match @poly_closest FNum (@VO2 FNum) m curve with
                           | Some (d2, _, _, _) => if negb interior then 0%Z else if c6 (abs res) (sqrt d2) || (abs (abs res - sqrt d2) <=? 0x1p-30) then 0%Z else 1%Z
                           | None => 9%Z
                           end) (combine displaced obs)).

(* 3D, point mode: residual i = distance from T(p_i) to the mesh *)
Definition check_mesh_point (verts : list F3) (faces : list (Z * Z * Z)) (T : @rigid3 FNum) (displaced : list F3) (res : list float) : Z :=
  let fs := map (fun f => let '(a, b, c) := f in (Z.to_nat a, Z.to_nat b, Z.to_nat c)) faces in
  first_nz (map (fun pr => let m := @apply3 FNum T (fst pr) in
                           match @mesh_closest FNum m verts fs with
                           | Some (d2, _, _) => if c6 (snd pr) (sqrt d2) || (abs (snd pr - sqrt d2) <=? 0x1p-30) then 0%Z else 1%Z
                           | None => 9%Z
                           end) (combine displaced res)).
