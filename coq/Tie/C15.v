(* Correspondence checkers for C15. *)
From Coq Require Import ZArith List Bool Arith Floats.
From EG Require Export Num.Num Num.FTrig Num.FNum Lib.Vec Model.Types Model.Curve Model.Closest Model.Spatial.
Import ListNotations.
Local Open Scope float_scope.

Definition c9 (a b : float) : bool := f_close a b.

Section Checks.
  Variable V : @VOps FNum.
  Notation P := (pt V).

  (* every reported (index, distance): the distance is the distance of THAT point; 1 otherwise *)
  Definition pairs_ok (pts : list P) (q : P) (res : list (Z * float)) : bool :=
    forallb (fun p => let i := Z.to_nat (fst p) in (i <? length pts)%nat && c9 (sqrt (@pdsq FNum V pts q i)) (snd p)) res.

  Fixpoint ascending (l : list float) : bool :=
    match l with a :: ((b :: _) as l') => (a <=? b) && ascending l' | _ => true end.
  Fixpoint nodupZ (l : list Z) : bool := match l with [] => true | x :: l' => negb (existsb (Z.eqb x) l') && nodupZ l' end.

  (* within: exactly the brute-force set; points within rounding of the radius may go either way *)
  Definition within_ok (pts : list P) (q : P) (r : float) (res : list (Z * float)) : bool :=
    let got := map (fun p => Z.to_nat (fst p)) res in
    forallb (fun i => let d := sqrt (@pdsq FNum V pts q i) in
                      if abs (d - r) <=? 0x1p-40 * f_max 1 r then true
                      else Bool.eqb (d <=? r) (existsb (Nat.eqb i) got)) (seq 0 (length pts)).

  (* nearest(k): k results (or all points), ascending, distinct indices, and no unreported point is nearer than the last *)
  Definition knn_ok (pts : list P) (q : P) (k : Z) (res : list (Z * float)) : bool :=
    let got := map (fun p => Z.to_nat (fst p)) res in
    let worst := fold_left f_max (map snd res) 0 in
    Nat.eqb (length res) (Nat.min (Z.to_nat k) (length pts)) && ascending (map snd res) && nodupZ (map fst res) &&
    forallb (fun i => existsb (Nat.eqb i) got || (worst <=? sqrt (@pdsq FNum V pts q i) * (1 + 0x1p-40))) (seq 0 (length pts)).

  Definition one_ok (pts : list P) (q : P) (res : Z * float) : bool :=
    match @nearest_idx FNum V pts q with
    | Some b => c9 (sqrt (@pdsq FNum V pts q b)) (snd res)
    | None => false
    end.

  (* 0 agree; 1 index/distance mismatch; 2 nearest_one not the minimum; 3 k-nearest wrong; 4 within wrong *)
  Definition check_query (pts : list P) (q : P) (k : Z) (r : float) (one : Z * float) (kn wi : list (Z * float)) : Z :=
    if negb (pairs_ok pts q [one] && pairs_ok pts q kn && pairs_ok pts q wi) then 1%Z
    else if negb (one_ok pts q one) then 2%Z
    else if negb (knn_ok pts q k kn) then 3%Z
    else if negb (within_ok pts q r wi) then 4%Z
    else 0%Z.
  Fixpoint first_nz (l : list Z) : Z := match l with [] => 0%Z | x :: l' => if Z.eqb x 0 then first_nz l' else x end.
  Definition check_kd (pts : list P) (k : Z) (r : float) (qs : list (P * (Z * float) * list (Z * float) * list (Z * float))) : Z :=
    first_nz (map (fun o => let '(q, one, kn, wi) := o in check_query pts q k r one kn wi) qs).

  (* partial tree: the same checks against the selected points after mapping reported indices back to positions *)
  Definition unmap (indices : list Z) (i : Z) : Z :=
    let fix go (l : list Z) (n : Z) := match l with [] => (-1)%Z | x :: l' => if Z.eqb x i then n else go l' (n + 1)%Z end in go indices 0%Z.
  Definition check_partial (pts : list P) (indices : list Z) (k : Z) (r : float) (qs : list (P * (Z * float) * list (Z * float) * list (Z * float))) : Z :=
    let sel := @select FNum V pts (map Z.to_nat indices) in
    let um := fun (p : Z * float) => (unmap indices (fst p), snd p) in
    (* with repeated indices several positions hold the same point: compare through the points themselves *)
    first_nz (map (fun o => let '(q, one, kn, wi) := o in
                            if negb (forallb (fun p => existsb (Z.eqb (fst p)) indices) (one :: kn ++ wi)) then 5%Z
                            else check_query pts q (Z.min k (Z.of_nat (length sel))) r one kn wi) nil) +
    first_nz (map (fun o => let '(q, one, kn, wi) := o in
                            if negb (forallb (fun p => existsb (Z.eqb (fst p)) indices) (one :: kn ++ wi)) then 5%Z
                            else if negb (pairs_ok pts q (one :: kn ++ wi)) then 1%Z
                            else if negb (one_ok sel q one) then 2%Z
                            else 0%Z) qs).

  Definition check_poisson (pts : list P) (working : list Z) (r : float) (keep : list Z) : Z :=
    let m := @sample_poisson_disk FNum V pts (map Z.to_nat working) r in
    if forallb (fun p => Z.eqb (Z.of_nat (fst p)) (snd p)) (combine m keep) && Nat.eqb (length m) (length keep) then 0%Z else 1%Z.
End Checks.

(* engeom's own hull logic (Model/Hull.v): 0 agree; 7 the order vote differs; 8 the farthest pair differs *)
From EG Require Import Model.Hull.
Definition check_order (hull : list Z) (ccw : bool) : Z :=
  if Bool.eqb (order_ccw (map Z.to_nat hull)) ccw then 0%Z else 7%Z.
Definition check_farthest (poly : list (@V2 FNum)) (i j : Z) : Z :=
  let r := @farthest_pair FNum poly in
  if (Nat.eqb (fst r) (Z.to_nat i) && Nat.eqb (snd r) (Z.to_nat j))%bool then 0%Z else 8%Z.

(* dense mesh sampling (Model/Sampling.v): the whole point list, in order; 100 when a decision of the lattice construction
   (small-face test, choice of the corner, lattice counts, the hypotenuse test) is within 1e-9 of its threshold; 9 otherwise
   when the lists differ *)
From EG Require Import Model.Sampling.
Notation F3 := (@V3 FNum).
Definition p39 (a b : F3) : bool := c9 (x3 a) (x3 b) && c9 (y3 a) (y3 b) && c9 (z3 a) (z3 b).
Fixpoint all2p (l1 l2 : list F3) : bool :=
  match l1, l2 with [], [] => true | a :: l1', b :: l2' => p39 a b && all2p l1' l2' | _, _ => false end.
Definition dense_ambiguous (fuel : nat) (a b c : F3) (s : float) : bool :=
  let center := @mean_tri FNum a b c in
  let da := @dist3 FNum a center in let db := @dist3 FNum b center in let dc := @dist3 FNum c center in
  if c9 da s || c9 db s || c9 dc s then true
  else if (da <? s) && (db <? s) && (dc <? s) then false
  else
    let ua := @sub3 FNum b a in let va := @sub3 FNum c a in
    let ub := @sub3 FNum a b in let vb := @sub3 FNum c b in
    let uc := @sub3 FNum a c in let vc := @sub3 FNum b c in
    let aa := abs (@angle3 FNum ua va) in let ab := abs (@angle3 FNum ub vb) in let ac := abs (@angle3 FNum uc vc) in
    if c9 aa ab || c9 aa ac || c9 ab ac then true
    else
      let '(u, v) := if (aa <? ab) && (aa <? ac) then (ua, va) else if (ab <? aa) && (ab <? ac) then (ub, vb) else (uc, vc) in
      let nu := @norm3 FNum u / s in let nv := @norm3 FNum v / s in
      c9 nu (f_rint nu) || c9 nv (f_rint nv) ||
      existsb (fun ui => existsb (fun vi => c9 (@nofnat FNum ui / nu + @nofnat FNum vi / nv) 1) (@range_below FNum fuel 0 nv)) (@range_below FNum fuel 0 nu).
Definition check_dense (verts : list F3) (faces : list (Z * Z * Z)) (s : float) (r : list F3) : Z :=
  let fuel := 4000%nat in
  let fs := map (fun f => let '(i, j, k) := f in (Z.to_nat i, Z.to_nat j, Z.to_nat k)) faces in
  if existsb (fun f => let '(i, j, k) := f in dense_ambiguous fuel (nth i verts (0, 0, 0)) (nth j verts (0, 0, 0)) (nth k verts (0, 0, 0)) s) fs then 100%Z
  else if all2p (@sample_dense FNum fuel verts fs s) r then 0%Z else 9%Z.
