(* Correspondence checkers for C11. *)
From Coq Require Import ZArith List Bool Arith Floats.
From EG Require Export Num.Num Num.FTrig Num.FNum Lib.Vec Model.Types Model.Angles Model.Circle.
Import ListNotations.
Local Open Scope float_scope.

Definition c6 (a b : float) : bool := f_close6 a b.
Definition p6 (a b : @V2 FNum) : bool := c6 (fst a) (fst b) && c6 (snd a) (snd b).
Definition pl6 (a b : list (@V2 FNum)) : bool :=
  Nat.eqb (length a) (length b) && forallb (fun p => p6 (fst p) (snd p)) (combine a b).
Definition s6 (a b : @seg FNum) : bool := p6 (fst a) (fst b) && p6 (snd a) (snd b).
Definition tiny := 0x1p-36.
Definition mk (c : float * float * float) : @circ FNum := let '(x, y, r) := c in @mkCirc FNum ((x, y) : @V2 FNum) r.

(* decision margins of intersections_with *)
Definition cc_ambiguous (c0 c1 : @circ FNum) : bool :=
  let d := @dist2 FNum (cc c0) (cc c1) in
  let rs := cr c0 + cr c1 in let rd := abs (cr c0 - cr c1) in
  let t := @TOL10 FNum in
  (abs (d - t) <? tiny * t) || (abs (d - rs) <? tiny) || (abs (d - (rd - t)) <? tiny) ||
  (abs (abs (d - rs) - t) <? tiny * t) || (abs (abs (d - rd) - t) <? tiny * t).

Definition check_cc (c0 c1 : float * float * float) (r01 r10 : list (@V2 FNum)) : Z :=
  let a := mk c0 in let b := mk c1 in
  if cc_ambiguous a b then 100%Z
  else if negb (pl6 (@intersections_with FNum a b) r01) then 1%Z
  else if negb (pl6 (@intersections_with FNum b a) r10) then 2%Z
  else 0%Z.

(* intersection_interval: start and extent of the chosen interval; a start within rounding of the 0 / 2pi seam is ambiguous *)
Definition check_cc_interval (c0 c1 : float * float * float) (r : option (float * float)) : Z :=
  let a := mk c0 in let b := mk c1 in
  if cc_ambiguous a b then 100%Z
  else match @intersection_interval FNum a b, r with
       | None, None => 0%Z
       | Some i, Some (rs, ra) =>
           if c6 (AngleInterval_start i) rs && c6 (AngleInterval_angle i) ra then 0%Z
           else if c6 (AngleInterval_angle i) ra && (0x1.8p2 <? abs (AngleInterval_start i - rs)) then 100%Z else 1%Z
       | _, _ => 2%Z
       end.
Definition both (x y : Z) : Z := if (x =? 0)%Z || (x =? 100)%Z then (if (y =? 0)%Z then x else y) else x.

Definition opt_pair6 (m r : option (@V2 FNum * @V2 FNum)) : bool :=
  match m, r with Some (a, b), Some (c, d) => p6 a c && p6 b d | None, None => true | _, _ => false end.
Definition opt_segs6 (m r : option (@seg FNum * @seg FNum)) : bool :=
  match m, r with Some (a, b), Some (c, d) => s6 a c && s6 b d | None, None => true | _, _ => false end.

Definition check_tangent (c0 c1 : float * float * float) (p : @V2 FNum) (theta : float)
           (rt : option (@V2 FNum * @V2 FNum)) (rot : option (@seg FNum * @seg FNum))
           (rproj : option (@V2 FNum)) (rdist rangle : float) (rat : @V2 FNum) : Z :=
  let a := mk c0 in let b := mk c1 in
  let d := @dist2 FNum (cc a) p in
  if abs (d - cr a) <? tiny then 100%Z
  else if negb (opt_pair6 (@tangent_points_to FNum a p) rt) then 1%Z
  else if negb (c6 (@circ_distance FNum a p) rdist) then 3%Z
  else if negb (p6 (@point_at_angle FNum a theta) rat) then 5%Z
  else if negb (match @project_to_perimeter FNum a p, rproj with
                | Some x, Some y => p6 x y | None, None => true | _, _ => false end) then 4%Z
  else
    let dcc := @dist2 FNum (cc a) (cc b) in
    if (abs (dcc - @TOL10 FNum) <? tiny) || (abs (abs (cr a - cr b) - @TOL10 FNum) <? tiny) then 100%Z
    else if negb (opt_segs6 (@outer_tangents_to FNum 3 a b) rot) then 2%Z
    else
      let ang := @angle_of_point FNum a p in
      if abs (abs ang - f_pi) <? tiny then 100%Z else if c6 ang rangle then 0%Z else 6%Z.

Definition check_line (c0 : float * float * float) (a b : @V2 FNum) (rts : list float) (rpts : list (@V2 FNum)) : Z :=
  let c := mk c0 in
  let s := (a, b) in
  let tc := @line_projected_parameter FNum a (@seg_dir FNum s) (cc c) in
  let d := @dist2 FNum (cc c) (@add2 FNum a (@scale2 FNum (@seg_dir FNum s) tc)) in
  if (abs (abs (d - cr c) - @TOL10 FNum) <? tiny * @TOL10 FNum) || (abs (d - cr c) <? tiny) then 100%Z else
  let ts := @intersection_line_circle FNum a (@seg_dir FNum s) c in
  if negb (Nat.eqb (length ts) (length rts) && forallb (fun p => c6 (fst p) (snd p)) (combine ts rts)) then 1%Z
  else if existsb (fun t => (abs (t + @TOL10 FNum) <? tiny) || (abs (t - (1 + @TOL10 FNum)) <? tiny)) ts then 100%Z
  else if negb (pl6 (@circle_segment_intersection FNum c s) rpts) then 2%Z else 0%Z.

(* rust arc: (a0, a, start, end, len, at_f, at_l, aabb) *)
Definition rarc : Type := float * float * @V2 FNum * @V2 FNum * float * list (@V2 FNum) * list (@V2 FNum) * (@V2 FNum * @V2 FNum).
Definition arc_ok (m : @arc FNum) (fs : list float) (r : rarc) (cmp_angles : bool) : Z :=
  let '(ra0, ra, rs, re, rlen, rf, rl, rbb) := r in
  if cmp_angles && ((abs (abs (a0 m) - f_pi) <? tiny) || (abs (asweep m) <? tiny) || (abs (abs (asweep m) - 2 * f_pi) <? tiny)) then 100%Z
  else if cmp_angles && negb (c6 (a0 m) ra0 && c6 (asweep m) ra) then 1%Z
  else if negb (p6 (@arc_start FNum m) rs && p6 (@arc_end FNum m) re) then 2%Z
  else if negb (c6 (@arc_length FNum m) rlen) then 3%Z
  else if negb (pl6 (map (@arc_point_at_fraction FNum m) fs) rf) then 4%Z
  else if negb (pl6 (map (fun f => @arc_point_at_length FNum m (f * @arc_length FNum m)) fs) rl) then 5%Z
  else
    let bbm := @arc_aabb FNum (acirc m) (a0 m) (asweep m) in
    if p6 (fst bbm) (fst rbb) && p6 (snd bbm) (snd rbb) then 0%Z else 6%Z.

Definition check_arc3 (c0 : float * float * float) (p0 p1 p2 : @V2 FNum) (fs : list float) (r : rarc) : Z :=
  arc_ok (@arc_three_points FNum (mk c0) p0 p1 p2) fs r true.
Definition check_arc (c0 : float * float * float) (ang0 ang : float) (fs : list float) (r : rarc) : Z :=
  arc_ok (mkArc (mk c0) ang0 ang) fs r false.
Definition check_circle_aabb (c0 : float * float * float) (rbb : @V2 FNum * @V2 FNum) : Z :=
  let bbm := @circle_aabb FNum (mk c0) in if p6 (fst bbm) (fst rbb) && p6 (snd bbm) (snd rbb) then 0%Z else 1%Z.
