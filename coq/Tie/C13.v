(* Correspondence checker for C13. *)
From Coq Require Import ZArith List Bool Arith Floats.
From EG Require Export Num.Num Num.FTrig Num.FNum Lib.Vec Model.Types Model.Curve Model.MeshTopo Model.Section.
Import ListNotations.
Local Open Scope float_scope.

Notation F3 := (@V3 FNum).
Definition p3e (a b : F3) : bool := (@x3 FNum a =? @x3 FNum b) && (@y3 FNum a =? @y3 FNum b) && (@z3 FNum a =? @z3 FNum b).
Definition pl3e (a b : list F3) : bool := Nat.eqb (length a) (length b) && forallb (fun p => p3e (fst p) (snd p)) (combine a b).

(* the curves engeom returns are exactly the model's assembly of parry's polyline: same curves, same order, same vertices
   (bitwise: vertices are copied) *)
Definition check_section (verts : list F3) (pairs : list (Z * Z)) (tol : float) (rcurves : list (list F3)) : Z :=
  match @assemble FNum verts (map (fun p => (Z.to_nat (fst p), Z.to_nat (snd p))) pairs) tol with
  | None => 3%Z
  | Some cs =>
      if negb (Nat.eqb (length cs) (length rcurves)) then 1%Z
      else if forallb (fun p : curve (@VO3 FNum) * list F3 => pl3e (cpts (@VO3 FNum) (fst p)) (snd p)) (combine cs rcurves) then 0%Z else 2%Z
  end.
