(* C07  Rigid alignment recovers a known displacement and reports honest residuals. *)
From Coq Require Import ZArith List.
From EG Require Import Num.Num Model.LsqProblem Proofs.LsqProblem.
Import ListNotations.

(* for every history of parameter updates issued by the solver: the cached moved points are the input points under the
   transform of the current parameters and the cached closest points are the closest points of those *)
Theorem C07_cache_invariant : forall {N : Num} (X P S : Type) (tr : X -> P -> P) (cp : P -> S) (pts : list P) (x0 : X) (h : list X),
  let s := run X P S tr cp pts x0 h in
  st_x X P S s = last h x0 /\ st_moved X P S s = map (tr (last h x0)) pts /\ st_closest X P S s = map cp (st_moved X P S s).
Proof. intros. apply cache_invariant. Qed.
Print Assumptions C07_cache_invariant.

(* the i-th residual is the mode-specific distance between the i-th input point moved by the current transform and its
   closest reference point, whatever the history *)
Theorem C07_residuals_honest : forall {N : Num} (X P S : Type) (tr : X -> P -> P) (cp : P -> S) (mdist : P -> S -> num) (pts : list P) (x0 : X) (h : list X),
  let s := run X P S tr cp pts x0 h in
  residuals X P S mdist s = map (fun p => let m := tr (st_x X P S s) p in mdist m (cp m)) pts.
Proof. intros. apply residuals_honest. Qed.
Print Assumptions C07_residuals_honest.

(* transform and residuals returned on success describe the same state *)
Theorem C07_result_consistent : forall {N : Num} (X P S : Type) (tr : X -> P -> P) (cp : P -> S) (mdist : P -> S -> num) (pts : list P) (x0 : X) (h : list X),
  let '(t, res) := finish X P S tr mdist (run X P S tr cp pts x0 h) in
  res = map (fun p => mdist (t p) (cp (t p))) pts.
Proof. intros. apply result_consistent. Qed.
Print Assumptions C07_result_consistent.
