(* C01  Curve stations are consistent with arc length. *)
From Coq Require Import ZArith Reals List Sorted Lra Lia.
From Flocq Require Import Core.Raux.
From Coq Require Import Floats.
From EG Require Import Num.Num Num.RNum Num.FloatOrder Lib.Vec Model.TolMap Model.Curve.
From EG Require Import Proofs.Curve Proofs.SearchFloat.
Import ListNotations.
Local Open Scope R_scope.

(* the theorems are generic in the vector operations; VLaws2 / VLaws3 instantiate them for Curve2 / Curve3 *)
Theorem C01_laws_curve2 : VLaws (@VO2 RNum).
Proof. exact VLaws2. Qed.
Print Assumptions C01_laws_curve2.
Theorem C01_laws_curve3 : VLaws (@VO3 RNum).
Proof. exact VLaws3. Qed.
Print Assumptions C01_laws_curve3.

Theorem C01_from_points_wf : forall (V : @VOps RNum), VLaws V ->
  forall avg points tol fc c, 0 <= tol -> from_points V avg points tol fc = Ok c -> WF V c.
Proof. intros V L. exact (from_points_wf V). Qed.
Print Assumptions C01_from_points_wf.

(* cumulative lengths: start at 0, one per vertex, each step adds the edge length (so they are
   non-decreasing and end at the sum of the edge lengths) *)
Theorem C01_lengths : forall (V : @VOps RNum) (pts : list (pt V)), pts <> [] ->
  length (lengths_of V pts) = length pts /\ nth 0 (lengths_of V pts) 0 = 0 /\
  forall i, (S i < length pts)%nat ->
    nth (S i) (lengths_of V pts) 0 = vdist V (nth (S i) pts (vzero V)) (nth i pts (vzero V)) + nth i (lengths_of V pts) 0.
Proof. intros V pts H. exact (lengths_of_ok V pts H). Qed.
Print Assumptions C01_lengths.

Theorem C01_lengths_nondecreasing : forall (V : @VOps RNum), VLaws V -> forall pts lens,
  lens_ok V pts lens -> forall i, (S i < length pts)%nat -> nth i lens 0 <= nth (S i) lens 0.
Proof. intros V L pts lens H i Hi. eapply lens_monotone; eassumption. Qed.
Print Assumptions C01_lengths_nondecreasing.

Theorem C01_outside_no_station : forall (V : @VOps RNum) (c : curve V) (l : R),
  l < 0 \/ clength V c < l -> at_length V c l = None.
Proof. exact at_length_outside. Qed.
Print Assumptions C01_outside_no_station.

Theorem C01_station_inside : forall (V : @VOps RNum), VLaws V -> forall (c : curve V), WF V c ->
  forall l, 0 <= l <= clength V c ->
  exists s, at_length V c l = Some s /\
    (S (st_index V s) < count V c)%nat /\ 0 <= st_frac V s <= 1 /\
    length_along V c s = l /\
    st_point V s = vlerp V (vtx V c (st_index V s)) (vtx V c (S (st_index V s))) (st_frac V s) /\
    ((forall k, (k < count V c)%nat -> nth k (clens V c) 0 <> l) ->
       st_dir V s = dir_of_edge V c (st_index V s) /\ vdot V (st_dir V s) (st_dir V s) = 1 /\ 0 < st_frac V s < 1).
Proof. intros V L c Hwf. exact (at_length_inside V L c Hwf). Qed.
Print Assumptions C01_station_inside.

Theorem C01_by_fraction : forall (V : @VOps RNum) (c : curve V) (f : R),
  at_fraction V c f = at_length V c (f * clength V c).
Proof. exact at_fraction_eq. Qed.
Print Assumptions C01_by_fraction.

Theorem C01_by_vertex : forall (V : @VOps RNum), VLaws V -> forall (c : curve V), WF V c ->
  forall k, (k < count V c)%nat -> at_length V c (nth k (clens V c) 0) = Some (at_vertex V c k).
Proof. intros V L c Hwf k Hk. eapply at_length_vertex; eassumption. Qed.
Print Assumptions C01_by_vertex.

Theorem C01_by_iteration : forall (V : @VOps RNum) (c : curve V) k,
  (k < count V c)%nat -> nth_error (iter_stations V c) k = Some (at_vertex V c k).
Proof. exact iter_eq. Qed.
Print Assumptions C01_by_iteration.

Theorem C01_vertex_station : forall (V : @VOps RNum), VLaws V -> forall (c : curve V), WF V c ->
  forall k, (k < count V c)%nat ->
  let s := at_vertex V c k in
  st_point V s = vtx V c k /\ (S (st_index V s) < count V c)%nat /\ length_along V c s = nth k (clens V c) 0 /\
  ((k < count V c - 1)%nat -> st_index V s = k /\ st_frac V s = 0) /\
  (k = (count V c - 1)%nat -> st_index V s = (count V c - 2)%nat /\ st_frac V s = 1).
Proof. intros V L c Hwf k Hk. eapply at_vertex_spec; eassumption. Qed.
Print Assumptions C01_vertex_station.

Theorem C01_vertex_direction_2d : forall (c : curve (@VO2 RNum)) (k : nat),
  cavg _ c = true -> (0 < k)%nat -> (k < count _ c - 1)%nat ->
  dir_of_vertex _ c k = vnormalize _ (vadd (@VO2 RNum) (dir_of_edge _ c (k - 1)) (dir_of_edge _ c k)) /\
  (0 < vnorm (@VO2 RNum) (vadd (@VO2 RNum) (dir_of_edge _ c (k - 1)) (dir_of_edge _ c k)) ->
   vdot (@VO2 RNum) (dir_of_vertex _ c k) (dir_of_vertex _ c k) = 1).
Proof. exact dir_of_vertex_interior. Qed.
Print Assumptions C01_vertex_direction_2d.

Theorem C01_seam_direction_2d : forall (c : curve (@VO2 RNum)) (k : nat),
  cavg _ c = true -> cclosed _ c = true -> (k = 0 \/ k = count _ c - 1)%nat ->
  dir_of_vertex _ c k = vnormalize _ (vadd (@VO2 RNum) (dir_of_edge _ c 0) (dir_of_edge _ c (count _ c - 2))).
Proof. exact dir_of_vertex_seam. Qed.
Print Assumptions C01_seam_direction_2d.

(* binary64: the search over the stored lengths takes the real-number branch on every finite input,
   so "exactly at a stored length" and "one ulp either side" are decided exactly *)
Theorem C01_search_binary64_found : forall (l : list PrimFloat.float) (x : PrimFloat.float) i,
  Forall fin l -> fin x ->
  last_eq PrimFloat.ltb l x i = last_eq Rlt_bool (map F2R' l) (F2R' x) i.
Proof. exact last_eq_float. Qed.
Print Assumptions C01_search_binary64_found.
Theorem C01_search_binary64_insert : forall (l : list PrimFloat.float) (x : PrimFloat.float),
  Forall fin l -> fin x ->
  count_below PrimFloat.ltb l x = count_below Rlt_bool (map F2R' l) (F2R' x).
Proof. exact count_below_float. Qed.
Print Assumptions C01_search_binary64_insert.

(* non-vacuity: a two-vertex curve is well formed, so the hypotheses of the station theorems are met *)
Example C01_nonvacuous :
  WF (@VO2 RNum) (mkCurve (@VO2 RNum) [(0, 0); (1, 0)] (lengths_of (@VO2 RNum) [(0, 0); (1, 0)]) false 0 true).
Proof.
  unfold WF, count. cbn [cpts ctol clens length]. split; [lia|]. split; [lra|]. split; [|reflexivity].
  intros [|i] Hi; [|cbn in Hi; lia]. cbn [nth]. unfold vdist, vnorm. cbn [vsub vdot VO2 nsqrt RNum].
  apply sqrt_lt_R0. Proofs.VecR.vec_unfold. lra.
Qed.
