(* C10  Airfoil analysis yields inscribed circles and recovers a known medial axis. *)
From Coq Require Import ZArith Reals List Lra.
From EG Require Import Num.Num Num.RNum Lib.Vec Model.Types Model.Airfoil Model.Inscribed.
From EG Require Import Proofs.VecR Proofs.Airfoil Proofs.Inscribed.
Import ListNotations.
Local Open Scope R_scope.

Notation St := (@station RNum).

(* reversing a station swaps its contacts and flips its ray, keeps centre and radius; reversing a list of stations
   twice restores it (so orientation reversal never loses or changes a station) *)
Theorem C10_reverse : forall (s : St) (l : list St),
  (s_rd (st_reversed s) = neg2 (s_rd s) /\ s_pos (st_reversed s) = s_neg s /\ s_neg (st_reversed s) = s_pos s /\
   s_c (st_reversed s) = s_c s /\ s_r (st_reversed s) = s_r s) /\
  reverse_inscribed_circles (reverse_inscribed_circles l) = l.
Proof. intros s l. split; [apply st_reversed_flips | apply reverse_involutive]. Qed.
Print Assumptions C10_reverse.

(* OrientedCircles: a push adds exactly one station at the working end (front iff reversed), leaves the others in
   order, and orients the new one like the previous working end *)
Theorem C10_push : forall (o : @oriented RNum) (c : St),
  let o' := o_push o c in
  o_reversed o' = o_reversed o /\
  exists c', (c' = c \/ c' = st_reversed c) /\ o_last o' = Some c' /\
             o_circles o' = (if o_reversed o then c' :: o_circles o else o_circles o ++ [c']) /\
             (forall l, o_last o = Some l -> 0 <= dot2 (s_rd l) (s_rd c')).
Proof. exact push_spec. Qed.
Print Assumptions C10_push.

(* maximum thickness: the station of largest radius *)
Theorem C10_tmax : forall (l : list St),
  match find_tmax l with
  | Some m => In m l /\ forall s, In s l -> s_r s <= s_r m
  | None => forall s, In s l -> s_r s <= 0
  end.
Proof. exact find_tmax_spec. Qed.
Print Assumptions C10_tmax.

(* orientation by a known forward direction: the list comes back unchanged or reversed, and its first centre is then at
   least as far along the direction as its last *)
Theorem C10_direction_fwd : forall (dir : @V2 RNum) (l l' : list St), direction_fwd dir l = Ok l' ->
  l <> [] /\ (l' = l \/ l' = reverse_inscribed_circles l) /\
  forall d, dot2 dir (s_c (last l' d)) <= dot2 dir (s_c (hd d l')).
Proof. exact direction_fwd_spec. Qed.
Print Assumptions C10_direction_fwd.

(* orientation by maximum thickness: unchanged when the largest circle sits in the first half of the camber length
   (measured along the polyline of centres at the closest point to its centre), reversed when in the second half *)
Theorem C10_tmax_fwd : forall (l l' : list St), tmax_fwd l = Ok l' ->
  exists f, tmax_fraction l = Ok f /\ ((f <= 1 / 2 /\ l' = l) \/ (1 / 2 < f /\ l' = reverse_inscribed_circles l)).
Proof. exact tmax_fwd_spec. Qed.
Print Assumptions C10_tmax_fwd.

(* the core of the analysis, inscribed_from_spanning_ray (Model/Inscribed.v, compared with the implementation on every run):
   the bisection ends for every section, every spanning ray and every positive tolerance ... *)
Theorem C10_inscribed_terminates : forall (pts : list (@V2 RNum)) (r : @sray RNum) (tol : R), (0 < tol)%R ->
  exists fuel, @inscribed RNum fuel pts r tol <> None.
Proof. exact inscribed_terminates. Qed.
Print Assumptions C10_inscribed_terminates.

(* ... and returns an inscribed circle within the tolerance: both contacts are points of the section, no point of the section is
   nearer to the centre than the radius less the tolerance, and the contacts are at most the radius plus the tolerance from it -
   the distance from the centre to the section equals the radius within the analysis tolerance (C02's closest-point
   specification is the section query) *)
Theorem C10_inscribed_spec : forall (pts : list (@V2 RNum)) (r : @sray RNum) (tol : R) (fuel : nat) (c : @V2 RNum) (rad : R) (cp cn : @V2 RNum),
  (2 <= length pts)%nat -> (0 <= tol)%R ->
  on_poly pts (@ray_at RNum r 0%R) -> on_poly pts (@ray_at RNum r 1%R) ->
  @inscribed RNum fuel pts r tol = Some (c, rad, cp, cn) ->
  on_poly pts cp /\ on_poly pts cn /\
  (forall y, on_poly pts y -> (rad - tol <= dist2 c y)%R) /\
  (dist2 c cp <= rad + tol)%R /\ (dist2 c cn <= rad + tol)%R.
Proof. exact inscribed_spec. Qed.
Print Assumptions C10_inscribed_spec.
