(* C08  Alignment parameters round-trip and Jacobians are true derivatives. *)
From Coq Require Import ZArith Reals List Lra Lia.
From Coquelicot Require Import Coquelicot.
From EG Require Import Num.Num Num.RNum Lib.Vec Model.Types Model.Rigid Model.AlignParams.
From EG Require Import Proofs.VecR Proofs.AlignParams Proofs.EulerRoundTrip.
Import ListNotations.
Local Open Scope R_scope.

Notation V2R := (@V2 RNum).
Notation V3R := (@V3 RNum).

(* 2D: the parameter object reproduces exactly the initial isometry, wherever the rotation centre is *)
Theorem C08_rc2_reproduces : forall (T : @rigid2 RNum) (rc p : V2R), r2c T * r2c T + r2s T * r2s T = 1 ->
  rc2_transform (rc2_from_initial T rc) p = apply2 T p.
Proof. exact rc2_reproduces. Qed.
Print Assumptions C08_rc2_reproduces.

(* after any parameter update: inverse and transform are mutually inverse, the moved centre is rc + (x, y), and a
   pure-translation change translates by that vector *)
Theorem C08_rc2_consistent : forall (s : @rc2 RNum) (p : V2R) (a b : R),
  rc2_inverse s (rc2_transform s p) = p /\ rc2_transform s (rc2_inverse s p) = p /\
  rc2_current s = add2 (rc2_rc s) (x3 (rc2_x s), y3 (rc2_x s)) /\
  rc2_transform (rc2_set s (mk3 (x3 (rc2_x s) + a) (y3 (rc2_x s) + b) (z3 (rc2_x s)))) p = add2 (rc2_transform s p) (a, b).
Proof.
  intros s p a b. destruct (rc2_inverse_spec s p) as [H1 H2]. repeat split; [exact H1 | exact H2 | apply rc2_current_spec | apply rc2_translation].
Qed.
Print Assumptions C08_rc2_consistent.

(* the 2D Jacobian row is the derivative of the residual sn . (T_x q - sp) in x, y and theta *)
Theorem C08_jacobian2 : forall (rc q sp sn : V2R) (x y th : R),
  let J := point_surface_jacobian (rc2_transform (@mkRc2 RNum rc (x, y, th)) q) sn (@mkRc2 RNum rc (x, y, th)) in
  is_derive (fun t => res2 rc q sp sn t y th) x (x3 J) /\
  is_derive (fun t => res2 rc q sp sn x t th) y (y3 J) /\
  is_derive (fun t => res2 rc q sp sn x y t) th (z3 J).
Proof. intros rc q sp sn x y th J. split; [apply jac2_dx | split; [apply jac2_dy | apply jac2_dth]]. Qed.
Print Assumptions C08_jacobian2.

(* the Euler-angle derivative matrices are the entrywise derivatives of the rotation matrix Rx * Ry * Rz *)
Theorem C08_euler_derivatives : forall (rx ry rz : R) (i j : nat),
  is_derive (fun t => ment (@euler_m RNum t ry rz) i j) rx (ment (rm_dx (@from_euler RNum rx ry rz)) i j) /\
  is_derive (fun t => ment (@euler_m RNum rx t rz) i j) ry (ment (rm_dy (@from_euler RNum rx ry rz)) i j) /\
  is_derive (fun t => ment (@euler_m RNum rx ry t) i j) rz (ment (rm_dz (@from_euler RNum rx ry rz)) i j).
Proof. intros. split; [apply euler_dx_is_derivative | split; [apply euler_dy_is_derivative | apply euler_dz_is_derivative]]. Qed.
Print Assumptions C08_euler_derivatives.

(* the rotation matrix is orthogonal and rd = d * R^T acts on rotated vectors as d acts on the originals *)
Theorem C08_rd : forall rx ry rz (u : V3R),
  let r := @from_euler RNum rx ry rz in
  mvec (mtrans (rm_m r)) (mvec (rm_m r) u) = u /\
  mvec (rm_rdx r) (mvec (rm_m r) u) = mvec (rm_dx r) u /\
  mvec (rm_rdy r) (mvec (rm_m r) u) = mvec (rm_dy r) u /\
  mvec (rm_rdz r) (mvec (rm_m r) u) = mvec (rm_dz r) u.
Proof.
  intros rx ry rz u r. split; [unfold r; rewrite from_euler_m; apply euler_orthogonal | apply rd_spec].
Qed.
Print Assumptions C08_rd.

(* 3D parameter object after any set(): inverse consistent; pure translation translates by that vector *)
Theorem C08_rc3_consistent : forall (s : @rc3 RNum) (x : V3R * V3R) (p a : V3R),
  (let s' := rc3_set s x in rc3_inverse s' (rc3_transform s' p) = p /\ rc3_transform s' (rc3_inverse s' p) = p) /\
  rc3_transform (rc3_set s (add3 (fst x) a, snd x)) p = add3 (rc3_transform (rc3_set s (fst x, snd x)) p) a.
Proof. intros s x p a. split; [apply rc3_inverse_spec | apply rc3_translation]. Qed.
Print Assumptions C08_rc3_consistent.

(* the rotation entries of the 3D Jacobian rows: n . (rd_i (p - current_rc)) is the derivative of n . (T_x q - c) *)
Theorem C08_jacobian3 : forall (rc rcd q cp n t : V3R) (rx ry rz : R),
  let s := st3 rc rcd t rx ry rz in
  let from_rc := sub3 (rc3_transform s q) (rc3_current s) in
  is_derive (fun a => res3 rc rcd q cp n t a ry rz) rx (dot3 n (mvec (rm_rdx (@from_euler RNum rx ry rz)) from_rc)) /\
  is_derive (fun b => res3 rc rcd q cp n t rx b rz) ry (dot3 n (mvec (rm_rdy (@from_euler RNum rx ry rz)) from_rc)) /\
  is_derive (fun c => res3 rc rcd q cp n t rx ry c) rz (dot3 n (mvec (rm_rdz (@from_euler RNum rx ry rz)) from_rc)).
Proof. intros. split; [apply jac3_drx | split; [apply jac3_dry | apply jac3_drz]]. Qed.
Print Assumptions C08_jacobian3.

(* converting a rotation to Euler angles and back is the identity: for every proper rotation matrix whose sin(ry)
   entry stays outside the gimbal band, and exactly at both poles (inside the band but off the pole the
   reconstruction is within the band's width; that part is checked per case) *)
Theorem C08_euler_roundtrip_generic : forall (eps : R) a00 a01 a02 a10 a11 a12 a20 a21 a22,
  0 < eps -> is_rotation a00 a01 a02 a10 a11 a12 a20 a21 a22 -> eps - 1 <= a02 <= 1 - eps ->
  rm_m (@from_rotation RNum eps (m9' a00 a01 a02 a10 a11 a12 a20 a21 a22)) = m9' a00 a01 a02 a10 a11 a12 a20 a21 a22.
Proof. exact wpr_roundtrip_generic. Qed.
Print Assumptions C08_euler_roundtrip_generic.

Theorem C08_euler_roundtrip_poles : forall (eps : R) a00 a01 a10 a11 a12 a20 a21 a22, 0 < eps < 1 ->
  (is_rotation a00 a01 1 a10 a11 a12 a20 a21 a22 ->
   rm_m (@from_rotation RNum eps (m9' a00 a01 1 a10 a11 a12 a20 a21 a22)) = m9' a00 a01 1 a10 a11 a12 a20 a21 a22) /\
  (is_rotation a00 a01 (-1) a10 a11 a12 a20 a21 a22 ->
   rm_m (@from_rotation RNum eps (m9' a00 a01 (-1) a10 a11 a12 a20 a21 a22)) = m9' a00 a01 (-1) a10 a11 a12 a20 a21 a22).
Proof.
  intros eps a00 a01 a10 a11 a12 a20 a21 a22 He. split; intros H; [apply wpr_roundtrip_pole_pos; [lra | exact H] | apply wpr_roundtrip_pole_neg; [exact He | exact H]].
Qed.
Print Assumptions C08_euler_roundtrip_poles.

Example C08_rotation_nonvacuous : is_rotation 0 (-1) 0 1 0 0 0 0 1.
Proof. unfold is_rotation. repeat split; lra. Qed.
