(* C03  Measurements do not depend on the coordinate frame. *)
From Coq Require Import ZArith Reals List Lra Lia.
From Flocq Require Import Core.Raux.
From EG Require Import Num.Num Num.RNum Lib.Vec Model.Types Model.TolMap Model.Curve Model.Closest Model.Frames Model.Rigid.
From EG Require Import Proofs.VecR Proofs.Curve Proofs.Frames Proofs.Rigid Proofs.RigidMore.
Import ListNotations.
Local Open Scope R_scope.

(* rigid motions given by their matrices satisfy the two laws everything below needs *)
Theorem C03_laws_2d : forall (T : @rigid2 RNum), rigid2_ok T -> IsoLaws (@VO2 RNum) (apply2 T) (rot2 T).
Proof. exact iso_laws2. Qed.
Print Assumptions C03_laws_2d.
Theorem C03_laws_3d : forall (T : @rigid3 RNum), rigid3_ok T -> IsoLaws (@VO3 RNum) (apply3 T) (rot3 T).
Proof. exact iso_laws3. Qed.
Print Assumptions C03_laws_3d.

(* distances, cumulative lengths (hence the total length) are invariant *)
Theorem C03_distance_invariant : forall (V : @VOps RNum) (T Rm : pt V -> pt V), IsoLaws V T Rm ->
  forall a b, vdist V (T a) (T b) = vdist V a b.
Proof. exact vdist_iso. Qed.
Print Assumptions C03_distance_invariant.
Theorem C03_lengths_invariant : forall (V : @VOps RNum) (T Rm : pt V -> pt V), IsoLaws V T Rm ->
  forall l, lengths_of V (map T l) = lengths_of V l.
Proof. exact lengths_iso. Qed.
Print Assumptions C03_lengths_invariant.

(* building the curve commutes with the motion: same tolerance decisions, same vertex count, same cumulative
   lengths and closedness, vertices mapped one by one; success and failure coincide in the two frames *)
Theorem C03_curve_commutes : forall (V : @VOps RNum) (T Rm : pt V -> pt V), IsoLaws V T Rm ->
  forall avg pts tol fc,
  from_points V avg (map T pts) tol fc =
  match from_points V avg pts tol fc with Ok c => Ok (map_curve V T c) | Err => Err | Panic => Panic end.
Proof. exact from_points_iso. Qed.
Print Assumptions C03_curve_commutes.

(* inverse and composition *)
Theorem C03_inverse_2d : forall (T : @rigid2 RNum) p, rigid2_ok T ->
  apply2 (inv2 T) (apply2 T p) = p /\ apply2 T (apply2 (inv2 T) p) = p.
Proof. exact inv2_apply. Qed.
Print Assumptions C03_inverse_2d.
Theorem C03_inverse_3d : forall (T : @rigid3 RNum) p, rigid3_ok T -> apply3 (inv3 T) (apply3 T p) = p.
Proof. exact inv3_apply. Qed.
Print Assumptions C03_inverse_3d.
Theorem C03_compose : (forall (U T : @rigid2 RNum) p, apply2 (compose2 U T) p = apply2 U (apply2 T p)) /\
                      (forall (U T : @rigid3 RNum) p, apply3 (compose3 U T) p = apply3 U (apply3 T p)).
Proof. split; [exact compose2_apply | exact compose3_apply]. Qed.
Print Assumptions C03_compose.

(* surface points: the point moves, the normal only rotates; scalar projection and planar distance are invariant *)
Theorem C03_surface_point : forall (T : @rigid3 RNum) (s : @sp3 RNum) q, rigid3_ok T ->
  sp3_scalar_projection (sp3_transformed T s) (apply3 T q) = sp3_scalar_projection s q /\
  sp3_planar_distance (sp3_transformed T s) (apply3 T q) = sp3_planar_distance s q.
Proof. intros T s q H. split; [apply sp3_projection_invariant | apply sp3_planar_invariant]; exact H. Qed.
Print Assumptions C03_surface_point.

(* planes: the transformed plane keeps a unit normal and measures transformed points as before *)
Theorem C03_plane : forall (T : @rigid3 RNum) (pl : @plane RNum) q, rigid3_ok T -> dot3 (pn pl) (pn pl) = 1 ->
  plane_signed (plane_transform T pl) (apply3 T q) = plane_signed pl q /\
  dot3 (pn (plane_transform T pl)) (pn (plane_transform T pl)) = 1.
Proof. exact plane_distance_invariant. Qed.
Print Assumptions C03_plane.

(* a 2D distance lifted into 3D and moved keeps its value *)
Theorem C03_distance_to_3d : forall (T : @rigid3 RNum) (a b dir : @V2 RNum), rigid3_ok T -> dot2 dir dir = 1 ->
  let '(a3, b3, d3) := dist_to_3d T a b dir in dist3_value a3 b3 d3 = dist2_value a b dir.
Proof. exact dist_to_3d_value. Qed.
Print Assumptions C03_distance_to_3d.

Example C03_nonvacuous : rigid2_ok (@mkRigid2 RNum (Rdiv 3 5) (Rdiv 4 5) (1%R, 2%R)) /\
  rigid3_ok (@mkRigid3 RNum (0%R, 1%R, 0%R) (Ropp 1, 0%R, 0%R) (0%R, 0%R, 1%R) (5%R, 6%R, 7%R)).
Proof.
  split.
  - cbv [rigid2_ok r2c r2s]. lra.
  - cbv [rigid3_ok orthonormal3 r3x r3y r3z]. vec_unfold. change (@num RNum) with R. repeat split; lra.
Qed.

(* the rotation part of a rigid motion is linear (2D and 3D) *)
Theorem C03_linear : (forall T : @rigid2 RNum, IsoLin (@VO2 RNum) (apply2 T) (rot2 T)) /\
                     (forall T : @rigid3 RNum, IsoLin (@VO3 RNum) (apply3 T) (rot3 T)).
Proof. split; [exact iso_lin2 | exact iso_lin3]. Qed.
Print Assumptions C03_linear.

(* stations commute with the motion: the station of the moved curve at l is the moved station - moved point, rotated
   direction, same edge index and fraction - and there is one exactly when there is one on the source *)
Theorem C03_station_equivariant : forall (V : @VOps RNum) (T Rm : pt V -> pt V), IsoLaws V T Rm -> IsoLin V T Rm ->
  forall (c : curve V), WF V c -> forall l,
  at_length V (map_curve V T c) l = option_map (map_station V T Rm) (at_length V c l).
Proof. exact at_length_iso. Qed.
Print Assumptions C03_station_equivariant.

(* closest points commute with the motion: same squared distance, same edge, same fraction, moved point *)
Theorem C03_closest_equivariant : forall (V : @VOps RNum) (T Rm : pt V -> pt V), IsoLaws V T Rm -> IsoLin V T Rm ->
  forall (q : pt V) (pts : list (pt V)),
  poly_closest V (T q) (map T pts) = map_best V T (poly_closest V q pts).
Proof. exact poly_closest_iso. Qed.
Print Assumptions C03_closest_equivariant.
