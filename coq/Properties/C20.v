(* C20  Conformal flattening is an isometry on planar disks and never folds them. *)
From Coq Require Import ZArith Reals List Lra Permutation.
From EG Require Import Num.Num Num.RNum Lib.Vec Model.Types Model.Flatten Model.Conformal.
From EG Require Import Proofs.VecR Proofs.Flatten Proofs.Congruent Proofs.Conformal.
Import ListNotations.
Local Open Scope R_scope.

(* UV round trips of the map: a UV point gives area coordinates that sum to one and reproduce it ... *)
Theorem C20_uv_roundtrip : forall (a b c p : @V2 RNum), area2 a b c <> 0 ->
  let '(w0, w1, w2) := bary2 a b c p in w0 + w1 + w2 = 1 /\ uv_point a b c (w0, w1, w2) = p.
Proof. exact bary_roundtrip. Qed.
Print Assumptions C20_uv_roundtrip.

(* ... and coordinates give a UV point whose area coordinates are the coordinates *)
Theorem C20_coordinates_roundtrip : forall (a b c : @V2 RNum) (w0 w1 w2 : R), area2 a b c <> 0 -> w0 + w1 + w2 = 1 ->
  bary2 a b c (uv_point a b c (w0, w1, w2)) = (w0, w1, w2).
Proof. exact bary_unique. Qed.
Print Assumptions C20_coordinates_roundtrip.

(* "every edge keeps its length and every triangle keeps positive orientation, i.e. the original shape up to a rigid motion":
   the per-face certificate that every run evaluates (Tie.C20.check_cert) is exactly that. One triangle ... *)
Theorem C20_triangle_congruent : forall (a b c a' b' c' : P2),
  dist2 a b = dist2 a' b' -> dist2 b c = dist2 b' c' -> dist2 a c = dist2 a' c' ->
  0 < orient2 a b c -> 0 < orient2 a' b' c' ->
  exists m, proper m /\ move m a = a' /\ move m b = b' /\ move m c = c'.
Proof. exact triangle_congruent. Qed.
Print Assumptions C20_triangle_congruent.

(* ... and the whole mesh: one proper rigid motion of the plane carries every face that is connected to the first through shared
   edges onto its layout ... *)
Theorem C20_mesh_congruent : forall (src img : nat -> P2) (fs : list (nat * nat * nat)) (f0 : nat * nat * nat),
  (forall f, In f fs -> face_ok src img f) -> In f0 fs ->
  exists m, proper m /\ forall g, econn src fs f0 g -> maps_face src img m g.
Proof. exact mesh_congruent. Qed.
Print Assumptions C20_mesh_congruent.

(* ... and nothing weaker would do: every proper rigid motion passes the certificate *)
Theorem C20_motion_passes : forall (src img : nat -> P2) (m : motion) (f : nat * nat * nat), proper m ->
  (forall v, In v (fverts f) -> img v = move m (src v)) ->
  (let '(i, j, k) := f in 0 < orient2 (src i) (src j) (src k)) -> face_ok src img f.
Proof. exact motion_passes. Qed.
Print Assumptions C20_motion_passes.

(* engeom's arithmetic upstream of the sparse solver (model Model/Conformal.v, tied through the hook conformal_verif).
   The face angles are the angles of the triangle, for every non-degenerate triangle in space *)
Theorem C20_face_angles_geometric : forall (p0 p1 p2 : P3),
  let a := dist3 p1 p2 in let b := dist3 p2 p0 in let c := dist3 p0 p1 in
  0 < a -> 0 < b -> 0 < c ->
  let '(t0, t1, t2) := @face_angles RNum a b c in
  (0 <= t0 <= PI /\ cos t0 = cos_at3 p0 p1 p2) /\
  (0 <= t1 <= PI /\ cos t1 = cos_at3 p1 p2 p0) /\
  (0 <= t2 <= PI /\ cos t2 = cos_at3 p2 p0 p1).
Proof. exact face_angles_geometric. Qed.
Print Assumptions C20_face_angles_geometric.

(* the assembled matrix is a graph Laplacian plus the regulariser, whatever the weights: row i applied to x *)
Theorem C20_laplacian_form : forall n edges (w : list R) x i, (i < n)%nat ->
  @row_apply RNum (@triplets RNum n edges w) x i = @lap_eps RNum * x i + edge_sum i x (combine edges w).
Proof. exact laplacian_form. Qed.
Print Assumptions C20_laplacian_form.
Theorem C20_laplacian_rows_sum : forall n edges (w : list R) i, (i < n)%nat ->
  @row_apply RNum (@triplets RNum n edges w) (fun _ => 1) i = @lap_eps RNum.
Proof. exact laplacian_rows_sum. Qed.
Print Assumptions C20_laplacian_rows_sum.
Theorem C20_laplacian_symmetric : forall n edges (w : list R) r c v, r <> c ->
  In (r, c, v) (@triplets RNum n edges w) -> In (c, r, v) (@triplets RNum n edges w).
Proof. exact laplacian_symmetric. Qed.
Print Assumptions C20_laplacian_symmetric.

(* with the edge table of identify_edges (C12) the edge-wise assembly is the sum over the faces of their cotangent terms *)
Theorem C20_assembly_is_face_sum : forall (edges : list (nat * nat)) (faces fes : list (nat * nat * nat)) (angs : list (R * R * R)) (x : nat -> R) (i n : nat),
  (i < n)%nat -> length fes = length faces -> length angs = length faces ->
  Forall2 (table_ok edges) faces fes ->
  @row_apply RNum (@triplets RNum n edges (@edge_weights RNum (length edges) fes angs)) x i
  = @lap_eps RNum * x i + fold_right (fun ft acc => face_row i x (fst ft) (snd ft) + acc) 0 (combine faces angs).
Proof. exact assembly_is_face_sum. Qed.
Print Assumptions C20_assembly_is_face_sum.

(* on a positively oriented planar triangle the two cotangent terms at a vertex are half the opposite edge turned by a right angle *)
Theorem C20_face_contrib_planar : forall (p0 p1 p2 : P2), 0 < area2 p0 p1 p2 ->
  face_contrib p0 p1 p2 = scale2 (J2 (sub2 p2 p1)) (/ 2).
Proof. exact face_contrib_planar. Qed.
Print Assumptions C20_face_contrib_planar.

(* so that, for a planar mesh, the row of every vertex with a closed positively oriented fan maps both coordinate functions to
   eps times the coordinate: the layout that reproduces the mesh satisfies the interior equations of the flattening *)
Theorem C20_planar_coordinates_harmonic : forall (p : nat -> P2) (edges : list (nat * nat)) (faces fes others : list (nat * nat * nat)) (n i q0 : nat) (qs : list nat),
  (i < n)%nat -> length fes = length faces -> Forall2 (table_ok edges) faces fes ->
  Permutation faces (others ++ fan_faces i q0 qs q0) -> Forall (absent i) others -> fan_ok p i q0 qs q0 ->
  let L := @triplets RNum n edges (@edge_weights RNum (length edges) fes (map (angles_of p) faces)) in
  @row_apply RNum L (fun v => fst (p v)) i = @lap_eps RNum * fst (p i) /\
  @row_apply RNum L (fun v => snd (p v)) i = @lap_eps RNum * snd (p i).
Proof. exact planar_coordinates_harmonic. Qed.
Print Assumptions C20_planar_coordinates_harmonic.
