(* C20  Conformal flattening is an isometry on planar disks and never folds them. *)
From Coq Require Import ZArith Reals List Lra.
From EG Require Import Num.Num Num.RNum Lib.Vec Model.Types Model.Flatten.
From EG Require Import Proofs.VecR Proofs.Flatten.
Local Open Scope R_scope.

(* UV round trips of the map: a UV point gives area coordinates that sum to one and reproduce it ... *)
Theorem C20_uv_roundtrip : forall (a b c p : @V2 RNum), area2 a b c <> 0 ->
  let '(w0, w1, w2) := bary2 a b c p in w0 + w1 + w2 = 1 /\ uv_point a b c (w0, w1, w2) = p.
Proof. exact bary_roundtrip. Qed.
Print Assumptions C20_uv_roundtrip.

(* ... and coordinates give a UV point whose area coordinates are the coordinates *)
Theorem C20_coordinates_roundtrip : forall (a b c : @V2 RNum) (w0 w1 w2 : R), area2 a b c <> 0 -> w0 + w1 + w2 = 1 ->
  bary2 a b c (uv_point a b c (w0, w1, w2)) = (w0, w1, w2).
Proof. exact bary_unique. Qed.
Print Assumptions C20_coordinates_roundtrip.
