(* C13  Plane sections and splits of a mesh lie on the plane and on the surface. *)
From Coq Require Import ZArith List Lia Permutation.
From EG Require Import Num.Num Num.RNum Lib.Vec Model.Types Model.TolMap Model.Curve Model.MeshTopo Model.Section.
From Coq Require Import Reals.
From EG Require Import Model.Frames Proofs.Frames Proofs.MeshChains Proofs.Section Proofs.SectionGeom.
Import ListNotations.

(* engeom's assembly of parry's polyline never fails or hangs: chaining terminates on every list of index pairs and uses
   each pair exactly once (C12) *)
Theorem C13_assembly_total : forall (verts : list (@V3 RNum)) (pairs : list edge) (tol : @EG.Num.Num.num RNum),
  exists cs, @assemble RNum verts pairs tol = Some cs.
Proof. exact assemble_total. Qed.
Print Assumptions C13_assembly_total.

Theorem C13_each_segment_once : forall (pairs : list edge),
  exists chains used, chained_indices_full pairs = Some (chains, used) /\ Permutation used (seq 0 (length pairs)).
Proof. exact chains_exactly_once. Qed.
Print Assumptions C13_each_segment_once.

(* every vertex of every returned curve is one of the polyline's vertices, at an index that ends one of its segments:
   lying on the plane and on the surface is inherited from parry's polyline (certified per case) *)
Theorem C13_vertices_from_polyline : forall (verts : list (@V3 RNum)) (pairs : list edge) (tol : @EG.Num.Num.num RNum) cs,
  @assemble RNum verts pairs tol = Some cs ->
  forall c, In c cs -> forall q, In q (cpts (@VO3 RNum) c) ->
  exists i, is_end pairs i /\ q = nth i verts (mk3 n0 n0 n0).
Proof. exact assemble_vertices. Qed.
Print Assumptions C13_vertices_from_polyline.

(* what the per-case certificates check, as geometry: an edge whose ends lie strictly on opposite sides of the plane carries exactly
   one point of the plane, strictly inside the edge, at the parameter da / (da - db) ... *)
Theorem C13_crossing_point : forall (pl : @plane RNum) (a b : @V3 RNum) (da db : R),
  da = plane_signed pl a -> db = plane_signed pl b -> (da * db < 0)%R ->
  plane_signed pl (cross_point a b da db) = 0%R /\ (0 < cross_param da db < 1)%R /\
  forall t, plane_signed pl (lerp3 a b t) = 0%R -> t = cross_param da db.
Proof. exact crossing_point. Qed.
Print Assumptions C13_crossing_point.

(* ... and cutting a triangle along the segment between two such points conserves its area: the corner piece and the two
   triangles of the remaining quadrilateral add up to the triangle (the split's "areas sum to the original area") *)
Theorem C13_split_triangle_area : forall (a b c : @V3 RNum) (s t : R), (0 <= s <= 1)%R -> (0 <= t <= 1)%R ->
  let x := lerp3 a b s in let y := lerp3 a c t in
  (tri_area a x y + tri_area x b c + tri_area x c y = tri_area a b c)%R.
Proof. exact split_triangle_area. Qed.
Print Assumptions C13_split_triangle_area.

(* the cutting plane taken from a station of a guide curve (CurveStation3::plane: normal = the station's direction, through the
   station's point) contains that point - wherever on its edge the station lies, not the edge's start vertex *)
Theorem C13_station_plane : forall (s : station (@VO3 RNum)),
  plane_signed (plane_from_np (st_dir (@VO3 RNum) s) (st_point (@VO3 RNum) s)) (st_point (@VO3 RNum) s) = 0%R.
Proof. intros s. apply plane_np_contains. Qed.
Print Assumptions C13_station_plane.
