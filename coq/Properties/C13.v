(* C13  Plane sections and splits of a mesh lie on the plane and on the surface. *)
From Coq Require Import ZArith List Lia Permutation.
From EG Require Import Num.Num Num.RNum Lib.Vec Model.Types Model.TolMap Model.Curve Model.MeshTopo Model.Section.
From EG Require Import Proofs.MeshChains Proofs.Section.
Import ListNotations.

(* engeom's assembly of parry's polyline never fails or hangs: chaining terminates on every list of index pairs and uses
   each pair exactly once (C12) *)
Theorem C13_assembly_total : forall (verts : list (@V3 RNum)) (pairs : list edge) (tol : @num RNum),
  exists cs, @assemble RNum verts pairs tol = Some cs.
Proof. exact assemble_total. Qed.
Print Assumptions C13_assembly_total.

Theorem C13_each_segment_once : forall (pairs : list edge),
  exists chains used, chained_indices_full pairs = Some (chains, used) /\ Permutation used (seq 0 (length pairs)).
Proof. exact chains_exactly_once. Qed.
Print Assumptions C13_each_segment_once.

(* every vertex of every returned curve is one of the polyline's vertices, at an index that ends one of its segments:
   lying on the plane and on the surface is inherited from parry's polyline (certified per case) *)
Theorem C13_vertices_from_polyline : forall (verts : list (@V3 RNum)) (pairs : list edge) (tol : @num RNum) cs,
  @assemble RNum verts pairs tol = Some cs ->
  forall c, In c cs -> forall q, In q (cpts (@VO3 RNum) c) ->
  exists i, is_end pairs i /\ q = nth i verts (mk3 n0 n0 n0).
Proof. exact assemble_vertices. Qed.
Print Assumptions C13_vertices_from_polyline.
