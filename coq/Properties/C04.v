(* C04  Curve portions, splits, trims and reversal conserve length and endpoints. *)
From Coq Require Import ZArith Reals List Lra Lia.
From Flocq Require Import Core.Raux.
From EG Require Import Num.Num Num.RNum Lib.Vec Model.TolMap Model.Curve Model.Portion.
From EG Require Import Proofs.Curve Proofs.Portion Proofs.PortionMore Proofs.EdgeSub.
Import ListNotations.
Local Open Scope R_scope.

(* forward request: the raw point list handed to from_points is the start point, the source vertices strictly after
   the start station up to the end station's edge (in source order), and the end point unless within tolerance *)
Theorem C04_forward : forall (V : @VOps RNum), VLaws V -> forall (c : curve V), WF V c ->
  forall l0 l1 s e, at_length V c l0 = Some s -> at_length V c l1 = Some e -> l0 <= l1 -> ctol V c <= Rabs (l1 - l0) ->
  (st_index V s <= st_index V e)%nat /\
  portion_points V c l0 l1 =
    Ok (Some (with_end V c (st_point V s :: map (vtx V c) (seq (S (st_index V s)) (st_index V e - st_index V s))) e)).
Proof. exact portion_forward. Qed.
Print Assumptions C04_forward.

(* through the seam of a closed curve: on to the last distinct vertex, the first vertex, then up to the end station *)
Theorem C04_through_seam : forall (V : @VOps RNum), VLaws V -> forall (c : curve V), WF V c ->
  forall l0 l1 s e, cclosed V c = true ->
  at_length V c l0 = Some s -> at_length V c l1 = Some e -> l1 < l0 -> ctol V c <= Rabs (l1 - l0) ->
  portion_points V c l0 l1 =
    Ok (Some (with_end V c (st_point V s :: map (vtx V c) (seq (S (st_index V s)) (count V c - 2 - st_index V s)) ++
                            vtx V c 0 :: map (vtx V c) (seq 1 (st_index V e))) e)).
Proof. exact portion_through_seam. Qed.
Print Assumptions C04_through_seam.

(* ill-posed requests (out of range, closer than the tolerance, reversed on an open curve) yield nothing *)
Theorem C04_ill_posed : forall (V : @VOps RNum), VLaws V -> forall (c : curve V), WF V c -> forall l0 l1,
  (at_length V c l0 = None \/ at_length V c l1 = None \/ Rabs (l1 - l0) < ctol V c \/ (cclosed V c = false /\ l1 < l0)) ->
  portion_points V c l0 l1 = Ok None /\ between_lengths V c l0 l1 = Ok None.
Proof.
  intros V L c Hwf l0 l1 H. pose proof (portion_ill_posed V L c Hwf l0 l1 H) as E. split; [exact E|].
  unfold between_lengths. rewrite E. reflexivity.
Qed.
Print Assumptions C04_ill_posed.

(* the walk never runs out of fuel: between_lengths terminates on every request *)
Theorem C04_terminates : forall (V : @VOps RNum), VLaws V -> forall (c : curve V), WF V c -> forall l0 l1,
  portion_points V c l0 l1 <> Panic.
Proof. exact portion_terminates. Qed.
Print Assumptions C04_terminates.

(* the polyline start point -> vertices between -> end point has exactly the requested arc length *)
Theorem C04_forward_length : forall (V : @VOps RNum), VLaws V -> forall (c : curve V), WF V c ->
  (forall (a b : pt V) f0 f1, f0 <= f1 -> vdist V (vlerp V a b f1) (vlerp V a b f0) = (f1 - f0) * vdist V b a) ->
  forall l0 l1 s e, at_length V c l0 = Some s -> at_length V c l1 = Some e -> l0 <= l1 ->
  path_len V (st_point V s) (map (vtx V c) (seq (S (st_index V s)) (st_index V e - st_index V s)) ++ [st_point V e]) = l1 - l0.
Proof. exact portion_forward_length. Qed.
Print Assumptions C04_forward_length.

Theorem C04_lerp_law_curve2 : forall (a b : pt (@VO2 RNum)) f0 f1, f0 <= f1 ->
  vdist (@VO2 RNum) (vlerp (@VO2 RNum) a b f1) (vlerp (@VO2 RNum) a b f0) = (f1 - f0) * vdist (@VO2 RNum) b a.
Proof. exact vn_lerp2. Qed.
Print Assumptions C04_lerp_law_curve2.

(* stations are in normal form and ordered like their arc lengths *)
Theorem C04_station_order : forall (V : @VOps RNum), VLaws V -> forall (c : curve V), WF V c ->
  forall l0 l1 s e, at_length V c l0 = Some s -> at_length V c l1 = Some e -> l0 <= l1 ->
  (st_index V s <= st_index V e)%nat /\ length_along V c s = l0 /\ length_along V c e = l1.
Proof.
  intros V L c Hwf l0 l1 s e Hs He Hle.
  destruct (at_length_valid V L c Hwf _ _ Hs) as [Vs Ls]. destruct (at_length_valid V L c Hwf _ _ He) as [Ve Le].
  split; [apply (index_mono V c Hwf); [exact Vs | exact Ve | lra] | split; assumption].
Qed.
Print Assumptions C04_station_order.

(* reversal: the reversed curve exists, has the source vertices in reverse order (so its first point is the
   source's last and vice versa), the same total length and tolerance, and is well formed *)
Theorem C04_reversed : forall (V : @VOps RNum), (forall a b : pt V, vdist V a b = vdist V b a) ->
  forall (c : curve V), WF V c ->
  exists r, reversed V c = Ok r /\ cpts V r = rev (cpts V c) /\ clength V r = clength V c /\ ctol V r = ctol V c /\ WF V r.
Proof. exact reversed_ok. Qed.
Print Assumptions C04_reversed.

Theorem C04_reversed_twice : forall (V : @VOps RNum), (forall a b : pt V, vdist V a b = vdist V b a) ->
  forall (c : curve V), WF V c ->
  exists r r2, reversed V c = Ok r /\ reversed V r = Ok r2 /\ cpts V r2 = cpts V c /\ clength V r2 = clength V c.
Proof. exact reversed_twice. Qed.
Print Assumptions C04_reversed_twice.

Theorem C04_dist_sym_curve2 : forall a b : pt (@VO2 RNum), vdist (@VO2 RNum) a b = vdist (@VO2 RNum) b a.
Proof. exact vdist_sym2. Qed.
Print Assumptions C04_dist_sym_curve2.

(* split at l (each piece at least a tolerance long): both raw pieces exist, the first is requested to end and the
   second starts at the curve's point at l, and their polyline lengths add up to the length of the curve *)
Theorem C04_split_pieces : forall (V : @VOps RNum), VLaws V -> forall (c : curve V), WF V c ->
  (forall (a b : pt V) f0 f1, f0 <= f1 -> vdist V (vlerp V a b f1) (vlerp V a b f0) = (f1 - f0) * vdist V b a) ->
  forall l, ctol V c <= l -> ctol V c <= clength V c - l ->
  exists s0 sl sL,
    at_length V c 0 = Some s0 /\ at_length V c l = Some sl /\ at_length V c (clength V c) = Some sL /\
    portion_points V c 0 l = Ok (Some (with_end V c (piece V c s0 sl) sl)) /\
    portion_points V c l (clength V c) = Ok (Some (with_end V c (piece V c sl sL) sL)) /\
    path_len V (st_point V s0) (map (vtx V c) (seq (S (st_index V s0)) (st_index V sl - st_index V s0)) ++ [st_point V sl]) +
    path_len V (st_point V sl) (map (vtx V c) (seq (S (st_index V sl)) (st_index V sL - st_index V sl)) ++ [st_point V sL]) = clength V c.
Proof. exact split_pieces. Qed.
Print Assumptions C04_split_pieces.

(* a consumer of the portions (airfoil::helpers::extract_edge_sub_curve, from the arc lengths of the two ray ends): on an open curve
   one of the two orders is ill-posed and yields nothing, the extraction falls through to the other, and the result is the same
   whichever way the spanning ray points: the piece between the smaller and the larger arc length when it is shorter than the
   stated fraction of the perimeter, nothing otherwise *)
Theorem C04_edge_portion_open : forall (V : @VOps RNum), VLaws V -> forall (c : curve V), WF V c ->
  forall la lb frac, cclosed V c = false -> la < lb ->
  edge_sub V c la lb frac = one_order V c la lb frac /\ edge_sub V c lb la frac = one_order V c la lb frac.
Proof. intros V L c W la lb frac Hc Hl. split; [apply edge_sub_open_forward | apply edge_sub_open_backward]; assumption. Qed.
Print Assumptions C04_edge_portion_open.
Theorem C04_edge_portion_symmetric : forall (V : @VOps RNum), VLaws V -> forall (c : curve V), WF V c ->
  forall la lb frac, cclosed V c = false -> la <> lb -> edge_sub V c la lb frac = edge_sub V c lb la frac.
Proof. exact edge_sub_open_symmetric. Qed.
Print Assumptions C04_edge_portion_symmetric.
(* open or closed: whatever is returned is shorter than the fraction of the perimeter *)
Theorem C04_edge_portion_short : forall (V : @VOps RNum) (c : curve V) la lb frac q,
  edge_sub V c la lb frac = Ok (Some q) -> clength V q < clength V c * frac.
Proof. exact edge_sub_short. Qed.
Print Assumptions C04_edge_portion_short.
