(* C17  Series and discrete domains stay sorted, finite and function-preserving. *)
From Coq Require Import ZArith Reals List Sorted Lra Lia.
From Flocq Require Import Core.Raux.
From EG Require Import Num.Num Num.RNum Num.FNum Num.FloatOrder Model.TolMap Model.Series.
From EG Require Import Proofs.TolMap Proofs.Series Proofs.SeriesFloat Proofs.SeriesSlice.
Import ListNotations.
Local Open Scope R_scope.

Theorem C17_try_from : forall l : list R,
  (StronglySorted Rle l -> @dd_try_from RNum l = Ok l) /\
  (forall d, @dd_try_from RNum l = Ok d -> d = l /\ StronglySorted Rle l) /\
  (@dd_try_from RNum l = Ok l \/ @dd_try_from RNum l = Err).
Proof. exact dd_try_from_spec. Qed.
Print Assumptions C17_try_from.

Theorem C17_try_from_binary64 : forall l : list PrimFloat.float,
  Forall fin l -> (@ascending FNum l = true <-> StronglySorted Rle (map F2R' l)).
Proof. exact dd_try_from_float. Qed.
Print Assumptions C17_try_from_binary64.

Theorem C17_push : forall (vals : list R) (v : R),
  StronglySorted Rle vals ->
  match @dd_push RNum vals v with
  | Ok r => r = vals ++ [v] /\ StronglySorted Rle r
  | Err => vals <> [] /\ v < last vals 0
  | Panic => False
  end.
Proof. exact dd_push_spec. Qed.
Print Assumptions C17_push.

Theorem C17_linear : forall (a b : R) (n : nat),
  length (@dd_linear RNum a b n) = n /\ StronglySorted Rle (@dd_linear RNum a b n) /\
  ((2 <= n)%nat -> hd 0 (@dd_linear RNum a b n) = Rmin a b /\ last (@dd_linear RNum a b n) 0 = Rmax a b) /\
  (n = 1%nat -> @dd_linear RNum a b n = [Rmin a b]).
Proof. exact dd_linear_spec. Qed.
Print Assumptions C17_linear.

Theorem C17_linear_either_order : forall (a b : R) (n : nat), @dd_linear RNum a b n = @dd_linear RNum b a n.
Proof. exact dd_linear_either_order. Qed.
Print Assumptions C17_linear_either_order.

Theorem C17_scaled_by_valid : forall (xs ys : list R) (sx sy : R),
  StronglySorted Rle xs ->
  exists xs' ys', @s_scaled_by RNum (xs, ys) sx sy = Ok (xs', ys') /\ StronglySorted Rle xs' /\
                  length xs' = length xs /\ length ys' = length ys.
Proof. exact s_scaled_by_valid. Qed.
Print Assumptions C17_scaled_by_valid.

Theorem C17_shift_by_valid : forall (xs ys : list R) (dx dy : R),
  StronglySorted Rle xs ->
  exists xs' ys', @s_shift_by RNum (xs, ys) dx dy = Ok (xs', ys') /\ StronglySorted Rle xs' /\
                  length xs' = length xs /\ length ys' = length ys.
Proof. exact s_shift_by_valid. Qed.
Print Assumptions C17_shift_by_valid.

Theorem C17_interp_outside : forall (x_first : R) (xs_rest ys : list R) (x : R),
  x < x_first \/ last (x_first :: xs_rest) 0 < x ->
  @s_interpolate RNum (x_first :: xs_rest, ys) x = Ok None.
Proof. exact interp_outside. Qed.
Print Assumptions C17_interp_outside.

Theorem C17_interp_knot : forall (x_first : R) (xs_rest ys : list R),
  StronglySorted Rle (x_first :: xs_rest) -> length ys = length (x_first :: xs_rest) ->
  forall x, In x (x_first :: xs_rest) ->
  exists j, nth_error (x_first :: xs_rest) j = Some x /\
            @s_interpolate RNum (x_first :: xs_rest, ys) x = Ok (Some (nth j ys 0)).
Proof. exact interp_knot. Qed.
Print Assumptions C17_interp_knot.

Theorem C17_interp_blend : forall (x_first : R) (xs_rest ys : list R),
  StronglySorted Rle (x_first :: xs_rest) -> length ys = length (x_first :: xs_rest) ->
  forall x j, (S j < length (x_first :: xs_rest))%nat ->
  nth j (x_first :: xs_rest) 0 < x < nth (S j) (x_first :: xs_rest) 0 ->
  @s_interpolate RNum (x_first :: xs_rest, ys) x =
  Ok (Some (nth j ys 0 + (nth (S j) ys 0 - nth j ys 0) /
                         (nth (S j) (x_first :: xs_rest) 0 - nth j (x_first :: xs_rest) 0) *
                         (x - nth j (x_first :: xs_rest) 0))).
Proof. exact interp_blend. Qed.
Print Assumptions C17_interp_blend.

Theorem C17_resampled : forall (x_first : R) (xs_rest ys : list R) (n : nat),
  StronglySorted Rle (x_first :: xs_rest) -> (2 <= n)%nat ->
  length (@s_resampled_xs RNum (x_first :: xs_rest, ys) n) = n /\
  StronglySorted Rle (@s_resampled_xs RNum (x_first :: xs_rest, ys) n) /\
  hd 0 (@s_resampled_xs RNum (x_first :: xs_rest, ys) n) = x_first /\
  last (@s_resampled_xs RNum (x_first :: xs_rest, ys) n) 0 = last (x_first :: xs_rest) 0 /\
  (forall x, In x (@s_resampled_xs RNum (x_first :: xs_rest, ys) n) -> x_first <= x <= last (x_first :: xs_rest) 0).
Proof. exact resampled_xs_spec. Qed.
Print Assumptions C17_resampled.

Theorem C17_crossings_sound : forall (xs ys : list R) (level x : R),
  length xs = length ys -> strictly_increasing xs ->
  In x (@s_y_crossings RNum (xs, ys) level) -> exists j, on_segment xs ys j x level.
Proof. exact y_crossings_sound. Qed.
Print Assumptions C17_crossings_sound.

Theorem C17_crossings_complete_raw : forall (xs ys : list R) (level : R) j,
  length xs = length ys -> strictly_increasing xs -> (S j < length xs)%nat ->
  (nth j ys 0 < level < nth (S j) ys 0 \/ nth (S j) ys 0 < level < nth j ys 0) ->
  In (nth j xs 0 + (level - nth j ys 0) / ((nth (S j) ys 0 - nth j ys 0) / (nth (S j) xs 0 - nth j xs 0)))
     (@raw_crossings RNum xs ys level).
Proof. exact raw_crossings_complete. Qed.
Print Assumptions C17_crossings_complete_raw.

Theorem C17_index_of : forall (first : R) (rest : list R) (x : R),
  StronglySorted Rle (first :: rest) ->
  (x < first \/ last (first :: rest) first < x ->
     index_of Rlt_bool Rle_bool Proofs.TolMap.nonan (first :: rest) x = Ok None) /\
  (first <= x <= last (first :: rest) first ->
     exists i v, index_of Rlt_bool Rle_bool Proofs.TolMap.nonan (first :: rest) x = Ok (Some i) /\
                 nth_error (first :: rest) i = Some v /\ v <= x /\
                 forall j w, (i < j)%nat -> nth_error (first :: rest) j = Some w -> x < w).
Proof. exact index_of_spec. Qed.
Print Assumptions C17_index_of.

(* a slice (Series1::between) of a series with strictly increasing abscissae, requested inside the domain: it exists,
   its ends are exactly the requested bounds, its abscissae are strictly increasing with as many ordinates, and it
   evaluates to the same values as its parent everywhere on [x0, x1] *)
Theorem C17_slice : forall (xs ys : list R),
  strictly_increasing xs -> length ys = length xs -> xs <> [] -> forall (x0 x1 : R),
  nth 0 xs 0 <= x0 -> x0 < x1 -> x1 <= last xs 0 ->
  exists X Y, @s_between RNum (xs, ys) x0 x1 = Ok (X, Y) /\
    nth 0 X 0 = x0 /\ last X 0 = x1 /\ strictly_increasing X /\ length Y = length X /\
    forall x, x0 <= x <= x1 -> @s_interpolate RNum (X, Y) x = @s_interpolate RNum (xs, ys) x.
Proof. exact between_ok. Qed.
Print Assumptions C17_slice.

(* splitting strictly inside the domain: both pieces exist, meet at x, keep the outer ends, evaluate like the parent
   on their intervals, and their areas add up to the area of the whole *)
Theorem C17_split : forall (xs ys : list R),
  strictly_increasing xs -> length ys = length xs -> xs <> [] -> forall (x : R), nth 0 xs 0 < x -> x < last xs 0 ->
  exists XL YL XR YR,
    @s_split_at_x RNum (xs, ys) x = Ok (Some (XL, YL), Some (XR, YR)) /\
    nth 0 XL 0 = nth 0 xs 0 /\ last XL 0 = x /\ nth 0 XR 0 = x /\ last XR 0 = last xs 0 /\
    (forall t, nth 0 xs 0 <= t <= x -> @s_interpolate RNum (XL, YL) t = @s_interpolate RNum (xs, ys) t) /\
    (forall t, x <= t <= last xs 0 -> @s_interpolate RNum (XR, YR) t = @s_interpolate RNum (xs, ys) t) /\
    @s_area_under RNum (XL, YL) + @s_area_under RNum (XR, YR) = @s_area_under RNum (xs, ys).
Proof. exact split_area. Qed.
Print Assumptions C17_split.

Example C17_nonvacuous : StronglySorted Rle [0; 1; 1; 3] /\ strictly_increasing [0; 1; 3].
Proof.
  split; [repeat constructor; lra|]. intros [|[|[|j]]] Hj; cbn in *; try lra; lia.
Qed.
