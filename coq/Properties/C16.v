(* C16  Deviations equal signed distance and aggregates track their contents.
   Only pinned statements, closed by [exact], each followed by Print Assumptions. *)
From Coq Require Import ZArith Reals List Sorted Lra.
From Flocq Require Import Core.Raux.
From EG Require Import Num.Num Num.RNum Lib.Vec.
From EG Require Import Model.Deviation Model.DevSet Model.Cloud Model.TolMap.
From EG Require Import Proofs.VecR Proofs.Deviation Proofs.DevSet Proofs.Cloud Proofs.TolMap.
Import ListNotations.
Local Open Scope R_scope.

(* ---- 2D deviation from a curve station (sp = closest point, n = its unit normal) ---- *)
Theorem C16_dev2_magnitude : forall sp n p : @V2 RNum, dot2 n n = 1 ->
  Rabs (Rabs (dev2_value sp n p) - dist2 p sp) < @eps6 RNum.
Proof. exact dev2_magnitude. Qed.
Print Assumptions C16_dev2_magnitude.

Theorem C16_dev2_magnitude_exact : forall sp n p : @V2 RNum,
  @eps6 RNum <= norm2 (sub2 p sp) -> Rabs (dev2_value sp n p) = dist2 p sp.
Proof. exact dev2_magnitude_far. Qed.
Print Assumptions C16_dev2_magnitude_exact.

Theorem C16_dev2_sign : forall sp n p : @V2 RNum,
  @eps6 RNum <= norm2 (sub2 p sp) ->
  (0 < dot2 (sub2 p sp) n -> 0 < dev2_value sp n p) /\
  (dot2 (sub2 p sp) n < 0 -> dev2_value sp n p < 0).
Proof. exact dev2_sign_far. Qed.
Print Assumptions C16_dev2_sign.

Theorem C16_dev2_reconstructs : forall sp n p : @V2 RNum,
  @eps6 RNum <= norm2 (sub2 p sp) -> dev2_actual sp n p = p.
Proof. exact dev2_reconstruct_far. Qed.
Print Assumptions C16_dev2_reconstructs.

Theorem C16_dev2_normal_unit : forall sp n p : @V2 RNum, dot2 n n = 1 ->
  dot2 (dev2_normal sp n p) (dev2_normal sp n p) = 1.
Proof. exact dev2_normal_unit. Qed.
Print Assumptions C16_dev2_normal_unit.

(* ---- 3D deviation from a mesh (cp = closest point, n = its face normal) ---- *)
Theorem C16_dev3_plane_is_normal_component : forall cp n p : @V3 RNum,
  dev3_value true cp n p = dot3 n (sub3 p cp).
Proof. exact dev3_plane_value. Qed.
Print Assumptions C16_dev3_plane_is_normal_component.

Theorem C16_dev3_point_magnitude : forall cp n p : @V3 RNum, dot3 n n = 1 ->
  Rabs (Rabs (dev3_value false cp n p) - dist3 p cp) < @eps6 RNum.
Proof. exact dev3_point_magnitude. Qed.
Print Assumptions C16_dev3_point_magnitude.

Theorem C16_dev3_point_sign : forall cp n p : @V3 RNum,
  @eps6 RNum <= norm3 (sub3 p cp) ->
  (0 < dot3 n (sub3 p cp) -> 0 < dev3_value false cp n p) /\
  (dot3 n (sub3 p cp) < 0 -> dev3_value false cp n p < 0).
Proof. exact dev3_point_sign_far. Qed.
Print Assumptions C16_dev3_point_sign.

Theorem C16_dev3_point_reconstructs : forall cp n p : @V3 RNum,
  @eps6 RNum <= norm3 (sub3 p cp) ->
  add3 cp (scale3 (dev3_dir false cp n p) (dev3_value false cp n p)) = p.
Proof. exact dev3_point_reconstruct_far. Qed.
Print Assumptions C16_dev3_point_reconstructs.

(* ---- directed distances ---- *)
Theorem C16_distance_is_projection : forall a b d : @V2 RNum, dist2_value a b d = dot2 (sub2 b a) d.
Proof. exact dist2_value_is_projection. Qed.
Print Assumptions C16_distance_is_projection.
Theorem C16_distance_reversed2 : forall a b d : @V2 RNum, dist2_reversed_value a b d = dist2_value a b d.
Proof. exact dist2_reversed_same. Qed.
Print Assumptions C16_distance_reversed2.
Theorem C16_distance_reversed3 : forall a b d : @V3 RNum, dist3_reversed_value a b d = dist3_value a b d.
Proof. exact dist3_reversed_same. Qed.
Print Assumptions C16_distance_reversed3.

(* ---- deviation set: every history (construction from any vector, then any pushes) ---- *)
Theorem C16_set_history : forall init ds : list R,
  exists s, sds_run Rlt_bool Proofs.DevSet.nonan init ds = Ok s /\ vals s = init ++ ds /\ sds_inv s.
Proof. exact sds_run_ok. Qed.
Print Assumptions C16_set_history.

Theorem C16_set_extremes : forall s : @sds R, sds_inv s ->
  match vals s with
  | [] => sds_max s = Ok None /\ sds_min s = Ok None
  | _ => exists m n, sds_max s = Ok (Some m) /\ sds_min s = Ok (Some n) /\
                     In m (vals s) /\ In n (vals s) /\ forall v, In v (vals s) -> n <= v <= m
  end.
Proof. exact sds_extremes. Qed.
Print Assumptions C16_set_extremes.

Theorem C16_set_zone : forall s : @sds R, sds_inv s ->
  exists z, @sds_zone RNum s = Ok z /\
    (vals s = [] -> z = 0) /\
    (forall v, In v (vals s) -> 2 * Rabs v <= z) /\
    (vals s <> [] -> exists v, In v (vals s) /\ z = 2 * Rabs v).
Proof. exact sds_zone_spec. Qed.
Print Assumptions C16_set_zone.

(* ---- point cloud: every history ---- *)
Theorem C16_cloud_history : forall (P Nm C : Type) (ops : list (cop P Nm C)) (s : cloud P Nm C),
  cloud_inv s -> cloud_inv (cloud_run s ops).
Proof. intros P Nm C. exact cloud_run_inv. Qed.
Print Assumptions C16_cloud_history.

Theorem C16_cloud_reject_noop : forall (P Nm C : Type) (s : cloud P Nm C) (o : cop P Nm C),
  snd (cloud_step s o) <> 0%Z -> fst (cloud_step s o) = s.
Proof. intros P Nm C. exact cloud_step_reject. Qed.
Print Assumptions C16_cloud_reject_noop.

Theorem C16_cloud_try_new : forall (P Nm C : Type) p n c (s : cloud P Nm C),
  cloud_try_new p n c = Ok s -> cloud_inv s.
Proof. intros P Nm C. exact try_new_inv. Qed.
Print Assumptions C16_cloud_try_new.

(* ---- tolerance map ---- *)
Theorem C16_tolmap : forall (Z0 : Type) (first : R) (rest : list R) (zones : list Z0) (x : R),
  StronglySorted Rle (first :: rest) -> length zones = length (first :: rest) ->
  (x < first -> tolmap_get Rlt_bool Rle_bool Proofs.TolMap.nonan (first :: rest) zones x = Ok None) /\
  (last (first :: rest) first < x ->
     exists z0, tolmap_get Rlt_bool Rle_bool Proofs.TolMap.nonan (first :: rest) zones x
                = Ok (Some (last zones z0))) /\
  (first <= x <= last (first :: rest) first ->
     exists i v z, tolmap_get Rlt_bool Rle_bool Proofs.TolMap.nonan (first :: rest) zones x = Ok (Some z) /\
       nth_error zones i = Some z /\ nth_error (first :: rest) i = Some v /\ v <= x /\
       forall j w, (i < j)%nat -> nth_error (first :: rest) j = Some w -> x < w).
Proof. intros Z0. exact tolmap_get_spec. Qed.
Print Assumptions C16_tolmap.

(* ---- non-vacuity: the hypotheses are met by concrete states ---- *)
Example C16_set_nonvacuous :
  exists s, sds_run Rlt_bool Proofs.DevSet.nonan [1; -2] [3; 3; -5] = Ok s /\ vals s = [1; -2; 3; 3; -5].
Proof. destruct (sds_run_ok [1; -2] [3; 3; -5]) as (s & H & Hv & _). exists s; auto. Qed.
Example C16_tolmap_nonvacuous : StronglySorted Rle [1; 2; 2; 3].
Proof. repeat constructor; lra. Qed.
