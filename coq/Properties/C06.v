(* C06  Line-polyline intersection search is complete and sound. *)
From Coq Require Import ZArith Reals List Lra Lia Sorted.
From Flocq Require Import Core.Raux.
From EG Require Import Num.Num Num.RNum Lib.Vec Model.Types Model.Intersect.
From EG Require Import Proofs.VecR Proofs.Intersect.
Import ListNotations.
Local Open Scope R_scope.

Notation V := (@V2 RNum).

(* the two parameters describe one point, on both lines; None exactly when the determinant is below 1e-12 *)
Theorem C06_param_sound : forall (a0 ad b0 bd : V) t0 t1,
  intersection_param a0 ad b0 bd = Some (t0, t1) ->
  at_param a0 ad t0 = at_param b0 bd t1 /\ @DET_TOL RNum <= Rabs (det2 ad bd).
Proof. exact intersection_param_sound. Qed.
Print Assumptions C06_param_sound.
Theorem C06_param_complete : forall (a0 ad b0 bd : V) t0 t1,
  @DET_TOL RNum <= Rabs (det2 ad bd) -> at_param a0 ad t0 = at_param b0 bd t1 -> intersection_param a0 ad b0 bd = Some (t0, t1).
Proof. exact intersection_param_complete. Qed.
Print Assumptions C06_param_complete.
Theorem C06_param_none : forall (a0 ad b0 bd : V),
  intersection_param a0 ad b0 bd = None <-> Rabs (det2 ad bd) < @DET_TOL RNum.
Proof. exact intersection_param_none. Qed.
Print Assumptions C06_param_none.

(* one edge: a reported parameter gives a point of the edge; a crossing inside the edge (negative line parameters
   included) is always reported *)
Theorem C06_edge_sound : forall (o d v0 v1 : V) t, ray_edge o d v0 v1 = Some t ->
  exists t1, 0 <= t1 <= 1 /\ at_param o d t = at_param v0 (sub2 v1 v0) t1.
Proof. exact ray_edge_sound. Qed.
Print Assumptions C06_edge_sound.
Theorem C06_edge_complete : forall (o d v0 v1 : V) t t1,
  @DET_TOL RNum <= Rabs (det2 d (sub2 v1 v0)) -> 0 <= t1 <= 1 -> at_param o d t = at_param v0 (sub2 v1 v0) t1 ->
  ray_edge o d v0 v1 = Some t.
Proof. exact ray_edge_complete. Qed.
Print Assumptions C06_edge_complete.

(* the per-edge scan lists exactly the (parameter, edge) pairs of the edges that are hit *)
Theorem C06_scan : forall (o d : V) pts t k,
  In (t, k) (naive o d pts) <->
  (S k < length pts)%nat /\ ray_edge o d (nth k pts (0, 0)) (nth (S k) pts (0, 0)) = Some t.
Proof. exact naive_spec. Qed.
Print Assumptions C06_scan.

(* pruning is sound: a box that the line meets (at any parameter, negative included, zero direction components
   included) passes the test, so the accelerated search visits every edge the scan would report *)
Theorem C06_prune_sound : forall (sl fmax : R) (o d lo hi : V) t, 0 <= sl -> - fmax <= t <= fmax ->
  fst lo <= fst (at_param o d t) <= fst hi -> snd lo <= snd (at_param o d t) <= snd hi ->
  slab_hit sl fmax o d lo hi = true.
Proof. exact slab_sound. Qed.
Print Assumptions C06_prune_sound.

(* the reported list: only computed hits, ascending with gaps of at least 1e-8, every computed hit within 1e-8 of a reported one *)
Theorem C06_post : forall (l : list (R * nat)),
  (forall y, In y (@post RNum l) -> In y l) /\
  (match @post RNum l with [] => l = [] | k :: rest => spaced_from k rest end) /\
  (forall x, In x l -> exists y, In y (@post RNum l) /\ Rabs (fst x - fst y) < @DEDUP_TOL RNum).
Proof. exact post_spec. Qed.
Print Assumptions C06_post.

(* a spanning ray exactly when there are two crossings; it starts at the first, ends at the second, keeps the direction *)
Theorem C06_spanning : forall (o d : V) pts,
  match @spanning_ray RNum o d pts with
  | Some (p, v) => exists t0 i0 t1 i1, polyline_intersections o d pts = [(t0, i0); (t1, i1)] /\
                                       p = at_param o d t0 /\ add2 p v = at_param o d t1 /\ v = scale2 d (t1 - t0) /\ @DEDUP_TOL RNum <= t1 - t0
  | None => length (polyline_intersections o d pts) <> 2%nat
  end.
Proof. exact spanning_ray_spec. Qed.
Print Assumptions C06_spanning.

Example C06_nonvacuous : @ray_edge RNum (0, -1) (0, 2) (-1, 0) (1, 0) = Some (1 / 2).
Proof.
  apply (ray_edge_complete _ _ _ _ (1 / 2) (1 / 2)).
  - unfold det2, sub2. cbn [fst snd]. rn. replace (Rabs _) with 4.
    + unfold DET_TOL. cbn. unfold Rlit. cbn. apply Rmult_le_reg_r with 1000000000000; [lra|]. unfold Rdiv. rewrite Rmult_assoc, Rinv_l by lra. lra.
    + symmetry. replace ((1 - -1) * 2 - (0 - 0) * 0) with 4 by ring. apply Rabs_pos_eq. lra.
  - lra.
  - unfold at_param. vec_unfold. f_equal; field.
Qed.
