(* C18  Angle normalisation and interval arithmetic are consistent. *)
From Coq Require Import ZArith Reals List Lra Bool.
From Flocq Require Import Core.Raux.
From Coq Require Import Floats.
From EG Require Import Num.Num Num.RNum Num.FNum Num.FloatOrder Model.Types Model.Angles Model.Interval.
From EG Require Import Proofs.Angles Proofs.Interval Proofs.IntervalFloat Proofs.Atan2R.
Local Open Scope R_scope.

Theorem C18_to_2pi_range : forall a : R, 0 <= @angle_to_2pi RNum a < 2 * PI.
Proof. exact angle_to_2pi_range. Qed.
Print Assumptions C18_to_2pi_range.
Theorem C18_to_2pi_same_direction : forall a : R, exists k : Z, @angle_to_2pi RNum a = a + 2 * PI * IZR k.
Proof. exact angle_to_2pi_same. Qed.
Print Assumptions C18_to_2pi_same_direction.
Theorem C18_signed_pi_range : forall a : R, - PI <= @angle_signed_pi RNum a <= PI.
Proof. exact angle_signed_pi_range. Qed.
Print Assumptions C18_signed_pi_range.
Theorem C18_signed_pi_same_direction : forall a : R, exists k : Z, @angle_signed_pi RNum a = a + 2 * PI * IZR k.
Proof. exact angle_signed_pi_same. Qed.
Print Assumptions C18_signed_pi_same_direction.

Theorem C18_in_direction_range : forall (a b : R) d, 0 <= @angle_in_direction RNum a b d <= 2 * PI.
Proof. exact angle_in_direction_range. Qed.
Print Assumptions C18_in_direction_range.
Theorem C18_in_direction_rotates : forall (a b : R) d,
  exists k : Z, b = a + @AngleDir_to_sign RNum d * @angle_in_direction RNum a b d + 2 * PI * IZR k.
Proof. exact angle_in_direction_rotates. Qed.
Print Assumptions C18_in_direction_rotates.
Theorem C18_cw_ccw_sum : forall a b : R,
  @angle_in_direction RNum a b AngleDir_Cw + @angle_in_direction RNum a b AngleDir_Ccw = 2 * PI \/
  (@angle_in_direction RNum a b AngleDir_Cw = 0 /\ @angle_in_direction RNum a b AngleDir_Ccw = 0).
Proof. exact cw_ccw_sum. Qed.
Print Assumptions C18_cw_ccw_sum.
Theorem C18_signed_compliment : forall r : R,
  @signed_compliment_2pi RNum r = (if Rle_bool 0 r then r - 2 * PI else r + 2 * PI).
Proof. exact signed_compliment_spec. Qed.
Print Assumptions C18_signed_compliment.

Theorem C18_vector_signed_angle_range : forall v1 v2 : R * R, - PI < @signed_angle RNum v1 v2 <= PI.
Proof. exact signed_angle_range. Qed.
Print Assumptions C18_vector_signed_angle_range.
Theorem C18_vector_directed_angle_range : forall (v1 v2 : R * R) d, 0 <= @directed_angle RNum v1 v2 d <= 2 * PI.
Proof. exact directed_angle_range. Qed.
Print Assumptions C18_vector_directed_angle_range.
Theorem C18_vector_signed_angle_rotates : forall v1 v2 : R * R,
  let t := @signed_angle RNum v1 v2 in
  let n1 := R_sqrt.sqrt (fst v1 * fst v1 + snd v1 * snd v1) in
  let n2 := R_sqrt.sqrt (fst v2 * fst v2 + snd v2 * snd v2) in
  n2 * (fst v1 * cos t - snd v1 * sin t) = n1 * fst v2 /\
  n2 * (fst v1 * sin t + snd v1 * cos t) = n1 * snd v2.
Proof. exact signed_angle_rotates. Qed.
Print Assumptions C18_vector_signed_angle_rotates.

Theorem C18_angle_interval_wf : forall s e : R,
  0 <= AngleInterval_start (@AngleInterval_new RNum s e) < 2 * PI /\
  0 <= AngleInterval_angle (@AngleInterval_new RNum s e) <= 2 * PI.
Proof. exact angle_interval_new_wf. Qed.
Print Assumptions C18_angle_interval_wf.
Theorem C18_angle_interval_negative_extent : forall s e : R,
  e < 0 -> @AngleInterval_new RNum s e = @AngleInterval_new RNum (s + e) (- e).
Proof. exact angle_interval_negative_extent. Qed.
Print Assumptions C18_angle_interval_negative_extent.
Theorem C18_angle_interval_contains_sound : forall (i : @AngleInterval RNum),
  0 <= AngleInterval_start i < 2 * PI ->
  forall a : R, @AngleInterval_contains RNum i a = true ->
  exists t, - @c_ANGLE_TOL RNum <= t <= AngleInterval_angle i + @c_ANGLE_TOL RNum /\
            exists k : Z, a = AngleInterval_start i + t + 2 * PI * IZR k.
Proof. exact contains_sound. Qed.
Print Assumptions C18_angle_interval_contains_sound.
Theorem C18_angle_interval_contains_complete : forall (i : @AngleInterval RNum),
  0 <= AngleInterval_start i < 2 * PI -> 0 <= AngleInterval_angle i <= 2 * PI ->
  forall a t : R, 0 <= t <= AngleInterval_angle i ->
  (exists k : Z, a = AngleInterval_start i + t + 2 * PI * IZR k) ->
  @AngleInterval_contains RNum i a = true.
Proof. exact contains_complete. Qed.
Print Assumptions C18_angle_interval_contains_complete.
Theorem C18_angle_interval_intersects_sound : forall i j : @AngleInterval RNum,
  0 <= AngleInterval_start i < 2 * PI -> 0 <= AngleInterval_angle i <= 2 * PI ->
  0 <= AngleInterval_start j < 2 * PI -> 0 <= AngleInterval_angle j <= 2 * PI ->
  @AngleInterval_intersects RNum i j = true ->
  exists a, @AngleInterval_contains RNum i a = true /\ @AngleInterval_contains RNum j a = true.
Proof. exact intersects_sound. Qed.
Print Assumptions C18_angle_interval_intersects_sound.
(* intersects is complete for arcs that share an angle exactly: some t, u inside the two extents name the same direction *)
Theorem C18_angle_interval_intersects_complete : forall (i j : @AngleInterval RNum) (t u : R),
  0 <= AngleInterval_start i < 2 * PI -> 0 <= AngleInterval_angle i <= 2 * PI ->
  0 <= AngleInterval_start j < 2 * PI -> 0 <= AngleInterval_angle j <= 2 * PI ->
  0 <= t <= AngleInterval_angle i -> 0 <= u <= AngleInterval_angle j ->
  (exists k : Z, AngleInterval_start j + u = AngleInterval_start i + t + 2 * PI * IZR k) ->
  @AngleInterval_intersects RNum i j = true.
Proof. exact intersects_complete. Qed.
Print Assumptions C18_angle_interval_intersects_complete.

(* scalar intervals, over the reals *)
Theorem C18_interval_new_ordered : forall a b : R,
  Interval_min (@Interval_new RNum a b) <= Interval_max (@Interval_new RNum a b).
Proof. exact interval_new_ordered. Qed.
Print Assumptions C18_interval_new_ordered.
Theorem C18_interval_contains_iff : forall (i : @Interval RNum) (x : R),
  @Interval_contains RNum i x = true <-> Interval_min i <= x <= Interval_max i.
Proof. exact interval_contains_iff. Qed.
Print Assumptions C18_interval_contains_iff.
Theorem C18_interval_overlaps_iff : forall i o : @Interval RNum,
  Interval_min i <= Interval_max i -> Interval_min o <= Interval_max o ->
  (@Interval_overlaps RNum i o = true <->
   exists x, Interval_min i <= x <= Interval_max i /\ Interval_min o <= x <= Interval_max o).
Proof. exact interval_overlaps_iff. Qed.
Print Assumptions C18_interval_overlaps_iff.
Theorem C18_interval_intersection_spec : forall i o : @Interval RNum,
  wf_I i -> wf_I o ->
  match @Interval_intersection RNum i o with
  | Some k => wf_I k /\ forall x, In_I k x <-> In_I i x /\ In_I o x
  | None => forall x, ~ (In_I i x /\ In_I o x)
  end.
Proof. exact interval_intersection_spec. Qed.
Print Assumptions C18_interval_intersection_spec.
Theorem C18_interval_intersection_comm : forall i o : @Interval RNum,
  wf_I i -> wf_I o -> @Interval_intersection RNum i o = @Interval_intersection RNum o i.
Proof. exact interval_intersection_comm. Qed.
Print Assumptions C18_interval_intersection_comm.
Theorem C18_interval_clamp_spec : forall (i : @Interval RNum) (x : R),
  wf_I i ->
  In_I i (@Interval_clamp RNum i x) /\ (In_I i x -> @Interval_clamp RNum i x = x) /\
  (x < Interval_min i -> @Interval_clamp RNum i x = Interval_min i) /\
  (Interval_max i < x -> @Interval_clamp RNum i x = Interval_max i).
Proof. exact interval_clamp_spec. Qed.
Print Assumptions C18_interval_clamp_spec.

(* scalar intervals, for binary64 itself (every finite float, bit-exactly) *)
Theorem C18_interval_contains_binary64 : forall a b x : PrimFloat.float,
  fin a -> fin b -> fin x ->
  (@Interval_contains FNum (@Interval_new FNum a b) x = true <->
   Rmin (F2R' a) (F2R' b) <= F2R' x <= Rmax (F2R' a) (F2R' b)).
Proof. exact interval_contains_float_iff. Qed.
Print Assumptions C18_interval_contains_binary64.
Theorem C18_interval_intersection_binary64 : forall i o : @Interval FNum,
  finI i -> finI o ->
  option_map mapI (@Interval_intersection FNum i o) = @Interval_intersection RNum (mapI i) (mapI o).
Proof. exact interval_intersection_float. Qed.
Print Assumptions C18_interval_intersection_binary64.
Theorem C18_interval_clamp_binary64 : forall (i : @Interval FNum) x,
  finI i -> fin x -> F2R' (@Interval_clamp FNum i x) = @Interval_clamp RNum (mapI i) (F2R' x).
Proof. exact interval_clamp_float. Qed.
Print Assumptions C18_interval_clamp_binary64.
Theorem C18_interval_nan_rejected : forall a b : PrimFloat.float,
  PrimFloat.is_nan a = true \/ PrimFloat.is_nan b = true ->
  @Interval_new__asserts FNum a b = false /\ @Interval_try_new FNum a b = Err.
Proof. exact interval_nan_rejected. Qed.
Print Assumptions C18_interval_nan_rejected.

(* non-vacuity *)
Example C18_nonvacuous_interval : wf_I (@Interval_new RNum 3 1) /\ In_I (@Interval_new RNum 3 1) 2.
Proof. split; [apply interval_new_ordered|]. unfold In_I, Interval_new; cbn. unfold Rmin, Rmax. destruct (Rle_dec 3 1); lra. Qed.
