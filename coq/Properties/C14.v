(* C14  Mesh face selection is set algebra over a per-face predicate. *)
From Coq Require Import ZArith List Bool Arith.
From EG Require Import Model.Select Proofs.Select.
Import ListNotations.

Theorem C14_pass_list_set_algebra : forall sel mode pass y,
  In y (mutate_pass_list sel mode pass) <->
  match mode with
  | OpAdd => In y sel \/ In y pass
  | OpRemove => In y sel /\ ~ In y pass
  | OpKeep => In y sel /\ In y pass
  end.
Proof. exact mutate_pass_list_spec. Qed.
Print Assumptions C14_pass_list_set_algebra.

(* the cached evaluation equals the cache-free criterion, whatever is already cached *)
Theorem C14_criterion_pure : forall (Nrm : Type) (tri : nat -> nat * nat * nat) (V : nat -> bool * option Nrm)
    (ang : nat -> Nrm -> bool) (has_angle_tol all_points : bool) (l : list nat) (c : cache Nrm),
  cache_ok Nrm V c ->
  fst (filter_faces Nrm tri V ang has_angle_tol all_points c l) = filter (pure_face Nrm tri V ang has_angle_tol all_points) l.
Proof. intros. apply filter_faces_pure. assumption. Qed.
Print Assumptions C14_criterion_pure.

(* near_mesh, for every iteration order of the selection set *)
Theorem C14_near_mesh_set_algebra : forall (nfaces : nat) (Nrm : Type) (tri : nat -> nat * nat * nat)
    (V : nat -> bool * option Nrm) (ang : nat -> Nrm -> bool) (has_angle_tol : bool)
    (sel ord : list nat) (all_points : bool) (mode : select_op) (y : nat),
  (forall x, In x ord <-> In x sel) -> (forall x, In x sel -> x < nfaces) ->
  (In y (near_mesh nfaces Nrm tri V ang has_angle_tol sel ord all_points mode) <->
   match mode with
   | OpAdd => In y sel \/ (y < nfaces /\ pure_face Nrm tri V ang has_angle_tol all_points y = true)
   | OpRemove => In y sel /\ pure_face Nrm tri V ang has_angle_tol all_points y = false
   | OpKeep => In y sel /\ pure_face Nrm tri V ang has_angle_tol all_points y = true
   end).
Proof. exact near_mesh_spec. Qed.
Print Assumptions C14_near_mesh_set_algebra.

Theorem C14_facing_set_algebra : forall nfaces sel mode (pred : nat -> bool) y,
  (forall x, In x sel -> x < nfaces) ->
  (In y (mutate nfaces sel mode pred) <->
   match mode with
   | OpAdd => In y sel \/ (y < nfaces /\ pred y = true)
   | OpRemove => In y sel /\ pred y = false
   | OpKeep => In y sel /\ pred y = true
   end).
Proof. exact mutate_spec. Qed.
Print Assumptions C14_facing_set_algebra.

(* mesh from a selection *)
Theorem C14_mesh_only_used_vertices : forall faces idx v,
  In v (unique_vertices faces idx) <->
  exists i, In i idx /\ let '(a, b, c) := nth i faces (0, 0, 0) in v = a \/ v = b \/ v = c.
Proof. exact unique_vertices_spec. Qed.
Print Assumptions C14_mesh_only_used_vertices.

Theorem C14_mesh_same_triangles : forall keep f t,
  remap_face keep f = Some t ->
  let '(a, b, c) := f in let '(x, y, z) := t in
  nth x keep 0 = a /\ nth y keep 0 = b /\ nth z keep 0 = c /\ x < length keep /\ y < length keep /\ z < length keep.
Proof. exact remap_face_spec. Qed.
Print Assumptions C14_mesh_same_triangles.

Theorem C14_mesh_total : forall faces idx,
  exists keep tris, create_from_indices faces idx = Some (keep, tris) /\ length tris = length idx /\
    forall j, j < length idx ->
      remap_face keep (nth (nth j idx 0) faces (0, 0, 0)) = Some (nth j tris (0, 0, 0)).
Proof. exact create_from_indices_total. Qed.
Print Assumptions C14_mesh_total.

(* non-vacuity: D12's witness -- two faces sharing vertices 0 and 1, the angle test passes for face 0 only;
   the cached evaluation selects exactly face 0 in either iteration order *)
Example C14_witness :
  let tri := fun f => nth f [(0, 1, 2); (0, 3, 1)] (0, 0, 0) in
  let V := fun v => nth v [(true, Some 0); (true, Some 0); (true, Some 0); (false, None)] (false, None) in
  let ang := fun f (rn : nat) => Nat.eqb f 0 in
  near_mesh 2 nat tri V ang true [0; 1] [0; 1] false OpKeep = [0] /\
  near_mesh 2 nat tri V ang true [0; 1] [1; 0] false OpKeep = [0].
Proof. split; vm_compute; reflexivity. Qed.
