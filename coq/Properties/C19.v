(* C19  Basis, frame and plane constructions are orthonormal and right-handed. *)
From Coq Require Import ZArith Reals List Lra Lia.
From Flocq Require Import Core.Raux.
From EG Require Import Num.Num Num.RNum Lib.Vec Model.Types Model.Frames.
From EG Require Import Proofs.VecR Proofs.Frames.
Import ListNotations.
Local Open Scope R_scope.

Notation V := (@V3 RNum).
(* frame_ok (e0, e1, e2): the three axes are orthonormal and e0 x e1 = e2 (a proper rotation) *)

Theorem C19_basis_xy : forall (a b : V) f, basis_xy a b = Some f ->
  frame_ok f /\ fst (fst f) = normalize3 a /\ 0 < dot3 (snd (fst f)) b.
Proof. exact basis_xy_ok. Qed.
Print Assumptions C19_basis_xy.
Theorem C19_basis_xz : forall (a b : V) f, basis_xz a b = Some f ->
  frame_ok f /\ fst (fst f) = normalize3 a /\ 0 < dot3 (snd f) b.
Proof. exact basis_xz_ok. Qed.
Print Assumptions C19_basis_xz.
Theorem C19_basis_yz : forall (a b : V) f, basis_yz a b = Some f ->
  frame_ok f /\ snd (fst f) = normalize3 a /\ 0 < dot3 (snd f) b.
Proof. exact basis_yz_ok. Qed.
Print Assumptions C19_basis_yz.
Theorem C19_basis_yx : forall (a b : V) f, basis_yx a b = Some f ->
  frame_ok f /\ snd (fst f) = normalize3 a /\ 0 < dot3 (fst (fst f)) b.
Proof. exact basis_yx_ok. Qed.
Print Assumptions C19_basis_yx.
Theorem C19_basis_zx : forall (a b : V) f, basis_zx a b = Some f ->
  frame_ok f /\ snd f = normalize3 a /\ 0 < dot3 (fst (fst f)) b.
Proof. exact basis_zx_ok. Qed.
Print Assumptions C19_basis_zx.
Theorem C19_basis_zy : forall (a b : V) f, basis_zy a b = Some f ->
  frame_ok f /\ snd f = normalize3 a /\ 0 < dot3 (snd (fst f)) b.
Proof. exact basis_zy_ok. Qed.
Print Assumptions C19_basis_zy.

(* failure exactly when the first argument is (near) zero or the sine of the angle between them is at most 1e-10 *)
Theorem C19_fail_iff : forall (a b : V),
  let deg := norm3 a <= MIN_NORM \/ norm3 (cross3 (normalize3 a) b) <= MIN_NORM * norm3 b in
  (basis_xy a b = None <-> deg) /\ (basis_xz a b = None <-> deg) /\ (basis_yz a b = None <-> deg) /\
  (basis_yx a b = None <-> deg) /\ (basis_zx a b = None <-> deg) /\ (basis_zy a b = None <-> deg).
Proof.
  intros a b deg. unfold deg.
  split; [apply basis_xy_none_iff|]. split; [apply basis_xz_none_iff|]. split; [apply basis_yz_none_iff|].
  split; [apply basis_yx_none_iff|]. split; [apply basis_zx_none_iff | apply basis_zy_none_iff].
Qed.
Print Assumptions C19_fail_iff.

Theorem C19_weighted_mean_scale : forall (pts : list V) (w : list R) (s : R), s <> 0 ->
  snd (@wsum3 RNum pts w) <> 0 ->
  @mean3_weighted RNum pts (map (fun x => Rmult x s) w) = @mean3_weighted RNum pts w.
Proof. exact mean3_weighted_scale. Qed.
Print Assumptions C19_weighted_mean_scale.

(* the decomposition's whole input - centre and centred weighted vectors - is unchanged by uniformly scaling the weights *)
Theorem C19_weights_scale : forall (pts : list V) (w : list R) (s : R), s <> 0 ->
  snd (@wsum3 RNum pts w) <> 0 -> @mean_weight RNum w <> 0 ->
  @centred3 RNum pts (Some (map (fun x => Rmult x s) w)) = @centred3 RNum pts (Some w).
Proof. exact centred3_weights_scale. Qed.
Print Assumptions C19_weights_scale.

Theorem C19_to_from_basis : forall (b0 b1 b2 c q : V), orthonormal3 b0 b1 b2 ->
  @to_basis3 RNum (b0, b1, b2) c (@from_basis3 RNum (b0, b1, b2) c q) = q /\
  @from_basis3 RNum (b0, b1, b2) c (@to_basis3 RNum (b0, b1, b2) c q) = q.
Proof. intros b0 b1 b2 c q H. split; [apply to_from_basis3 | apply from_to_basis3]; exact H. Qed.
Print Assumptions C19_to_from_basis.

Theorem C19_plane_point_normal : forall (n p : V), plane_signed (plane_from_np n p) p = 0.
Proof. exact plane_np_contains. Qed.
Print Assumptions C19_plane_point_normal.

Theorem C19_plane_three_points : forall (p1 p2 p3 : V), 0 < norm3 (cross3 (sub3 p2 p1) (sub3 p3 p1)) ->
  let pl := plane_from_3 p1 p2 p3 in
  dot3 (pn pl) (pn pl) = 1 /\ plane_signed pl p1 = 0 /\ plane_signed pl p2 = 0 /\ plane_signed pl p3 = 0.
Proof. exact plane_from_3_contains. Qed.
Print Assumptions C19_plane_three_points.

Theorem C19_plane_project : forall (pl : @plane RNum) (q : V), dot3 (pn pl) (pn pl) = 1 ->
  plane_signed pl (plane_project pl q) = 0 /\ plane_project pl (plane_project pl q) = plane_project pl q /\
  (plane_signed pl q = 0 -> plane_project pl q = q).
Proof.
  intros pl q H. split; [apply plane_project_on_plane; exact H|]. split; [apply plane_project_idempotent; exact H|].
  apply plane_point_on_plane_fixed.
Qed.
Print Assumptions C19_plane_project.

Theorem C19_plane_invert : forall (pl : @plane RNum) (q : V),
  plane_signed (plane_inverted pl) q = - plane_signed pl q /\ plane_dist (plane_inverted pl) q = plane_dist pl q.
Proof. exact plane_inverted_flips. Qed.
Print Assumptions C19_plane_invert.

(* non-vacuity: x and a skew second vector give the identity frame *)
Example C19_nonvacuous : exists f, basis_xy ((2, 0, 0) : V) ((1, 3, 0) : V) = Some f.
Proof.
  destruct (basis_xy ((2, 0, 0) : V) ((1, 3, 0) : V)) as [f|] eqn:E; [exists f; reflexivity|]. exfalso.
  apply basis_xy_none_iff in E. unfold degenerate_pair in E.
  assert (Hn : norm3 ((2, 0, 0) : V) = 2).
  { vec_unfold. replace (2 * 2 + 0 * 0 + 0 * 0) with (2 * 2) by ring. apply sqrt_square. lra. }
  assert (Hm : @MIN_NORM RNum < 1 / 2) by (unfold MIN_NORM; cbn; unfold Rlit; cbn; lra).
  destruct E as [E | E]; [rewrite Hn in E; lra|].
  unfold normalize3 in E. rewrite Hn in E.
  assert (Hc : norm3 (cross3 (div3 ((2, 0, 0) : V) 2) ((1, 3, 0) : V)) = 3).
  { vec_unfold. replace ((0 / 2 * 0 - 0 / 2 * 3) * (0 / 2 * 0 - 0 / 2 * 3) + (0 / 2 * 1 - 2 / 2 * 0) * (0 / 2 * 1 - 2 / 2 * 0) + (2 / 2 * 3 - 0 / 2 * 1) * (2 / 2 * 3 - 0 / 2 * 1)) with (3 * 3) by field.
    apply sqrt_square. lra. }
  rewrite Hc in E.
  assert (Hb : norm3 ((1, 3, 0) : V) <= 4).
  { vec_unfold. replace (1 * 1 + 3 * 3 + 0 * 0) with 10 by ring. apply Rsqr_incr_0_var; [|lra]. unfold Rsqr. rewrite sqrt_sqrt by lra. lra. }
  pose proof min_norm_pos. pose proof (norm3_nonneg ((1, 3, 0) : V)). rn. nra.
Qed.
