(* C11  Circle, arc and tangent constructions satisfy their defining constraints. *)
From Coq Require Import ZArith Reals List Lra.
From EG Require Import Num.Num Num.RNum Lib.Vec Model.Types Model.Angles Model.Circle Proofs.Circle Proofs.ArcBox Proofs.CircleInterval.
Import ListNotations.
Local Open Scope R_scope.

Notation C0 x y r := (@mkCirc RNum ((x, y) : @V2 RNum) r).

(* number of circle-circle intersections matches the configuration *)
Theorem C11_cc_count : forall x0 y0 r0 x1 y1 r1 : R,
  let d := sqrt ((x0 - x1) * (x0 - x1) + (y0 - y1) * (y0 - y1)) in
  let rs := r0 + r1 in let rd := Rabs (r0 - r1) in
  (d < @TOL10 RNum \/ rs < d \/ d <= rd - @TOL10 RNum -> @intersections_with RNum (C0 x0 y0 r0) (C0 x1 y1 r1) = []) /\
  (@TOL10 RNum <= d -> d <= rs -> rd - @TOL10 RNum < d -> (Rabs (d - rs) < @TOL10 RNum \/ Rabs (d - rd) < @TOL10 RNum) ->
     exists p, @intersections_with RNum (C0 x0 y0 r0) (C0 x1 y1 r1) = [p]) /\
  (@TOL10 RNum <= d -> rd + @TOL10 RNum <= d -> d <= rs - @TOL10 RNum ->
     exists p q, @intersections_with RNum (C0 x0 y0 r0) (C0 x1 y1 r1) = [p; q]).
Proof. intros. apply cc_count. Qed.
Print Assumptions C11_cc_count.

(* in the crossing case the square root is taken of a non-negative number and both points lie on both circles *)
Theorem C11_cc_on_both : forall x0 y0 r0 x1 y1 r1 : R, 0 <= r0 -> 0 <= r1 -> forall p q,
  @intersections_with RNum (C0 x0 y0 r0) (C0 x1 y1 r1) = [p; q] ->
  let d := sqrt ((x0 - x1) * (x0 - x1) + (y0 - y1) * (y0 - y1)) in
  let a := (r0 * r0 - r1 * r1 + d * d) / (2 * d) in
  0 <= r0 * r0 - a * a /\
  on_circle (C0 x0 y0 r0) p /\ on_circle (C0 x1 y1 r1) p /\ on_circle (C0 x0 y0 r0) q /\ on_circle (C0 x1 y1 r1) q.
Proof. intros x0 y0 r0 x1 y1 r1 H0 H1 p q H. exact (cc_two_points x0 y0 r0 x1 y1 r1 H0 H1 p q H). Qed.
Print Assumptions C11_cc_on_both.

(* tangent points: on the circle, tangent line perpendicular to the radius, for every d/r > 1 *)
Theorem C11_tangent_points : forall cx cy r px py : R, 0 <= r -> forall t0 t1,
  @tangent_points_to RNum (C0 cx cy r) (px, py) = Some (t0, t1) ->
  r < sqrt ((px - cx) * (px - cx) + (py - cy) * (py - cy)) /\
  on_circle (C0 cx cy r) t0 /\ on_circle (C0 cx cy r) t1 /\
  (fst t0 - cx) * (px - fst t0) + (snd t0 - cy) * (py - snd t0) = 0 /\
  (fst t1 - cx) * (px - fst t1) + (snd t1 - cy) * (py - snd t1) = 0.
Proof. intros cx cy r px py Hr t0 t1 H. exact (tangent_points_spec cx cy r px py Hr t0 t1 H). Qed.
Print Assumptions C11_tangent_points.

Theorem C11_tangent_none_iff : forall cx cy r px py : R,
  @tangent_points_to RNum (C0 cx cy r) (px, py) = None <-> sqrt ((px - cx) * (px - cx) + (py - cy) * (py - cy)) <= r.
Proof. intros. apply tangent_none_iff. Qed.
Print Assumptions C11_tangent_none_iff.

Theorem C11_line_circle_on_both : forall ox oy vx vy cx cy r : R, 0 < vx * vx + vy * vy -> 0 <= r -> forall t0 t1,
  @intersection_line_circle RNum (ox, oy) (vx, vy) (C0 cx cy r) = [t0; t1] ->
  on_circle (C0 cx cy r) (ox + vx * t0, oy + vy * t0) /\ on_circle (C0 cx cy r) (ox + vx * t1, oy + vy * t1).
Proof. intros ox oy vx vy cx cy r Hv Hr t0 t1 H. eapply line_circle_two; eassumption. Qed.
Print Assumptions C11_line_circle_on_both.

Theorem C11_arc_three_points_ends : forall (c : @circ RNum) (p0 p1 p2 : R * R),
  0 <= cr c -> on_circle c p0 -> on_circle c p2 ->
  @arc_start RNum (@arc_three_points RNum c p0 p1 p2) = p0 /\
  @arc_end RNum (@arc_three_points RNum c p0 p1 p2) = p2.
Proof. exact arc_three_points_ends. Qed.
Print Assumptions C11_arc_three_points_ends.

Theorem C11_arc_length_consistent : forall a : @arc RNum,
  @arc_length RNum a = cr (acirc a) * Rabs (asweep a) /\
  (forall l, @arc_point_at_length RNum a l = @arc_point_at_fraction RNum a (l / @arc_length RNum a)) /\
  (forall f, @arc_point_at_fraction RNum a f = @point_at_angle RNum (acirc a) (a0 a + asweep a * f)).
Proof. exact arc_length_spec. Qed.
Print Assumptions C11_arc_length_consistent.

Theorem C11_circle_aabb_tight : forall c : @circ RNum, 0 <= cr c ->
  let '(mins, maxs) := @circle_aabb RNum c in
  (forall t, fst mins <= fst (@point_at_angle RNum c t) <= fst maxs /\ snd mins <= snd (@point_at_angle RNum c t) <= snd maxs) /\
  fst (@point_at_angle RNum c 0) = fst maxs /\ fst (@point_at_angle RNum c PI) = fst mins /\
  snd (@point_at_angle RNum c (PI / 2)) = snd maxs /\ snd (@point_at_angle RNum c (- (PI / 2))) = snd mins.
Proof. exact circle_aabb_tight. Qed.
Print Assumptions C11_circle_aabb_tight.

(* non-vacuity: the D7 witness configuration has tangent points *)
Example C11_nonvacuous : exists t0 t1, @tangent_points_to RNum (C0 0 0 1) (3, 0) = Some (t0, t1).
Proof.
  destruct (@tangent_points_to RNum (C0 0 0 1) (3, 0)) as [[t0 t1]|] eqn:E; [eauto|].
  apply (proj1 (tangent_none_iff 0 0 1 3 0)) in E.
  assert (H : sqrt ((3 - 0) * (3 - 0) + (0 - 0) * (0 - 0)) = 3) by (replace ((3 - 0) * (3 - 0) + (0 - 0) * (0 - 0)) with (3 * 3) by ring; apply sqrt_square; lra).
  rewrite H in E. lra.
Qed.

(* the cached bounding box of an arc contains every point of the arc: every circle, every start angle, every signed sweep up to a
   full turn (the box is the hull of the two ends and of the axis points AngleInterval::contains accepts, C18) *)
Theorem C11_arc_aabb_contains : forall (c : @circ RNum) (a0 sweep f : R), 0 <= cr c -> Rabs sweep <= 2 * PI -> 0 <= f <= 1 ->
  let bb := @arc_aabb RNum c a0 sweep in let p := @point_at_angle RNum c (a0 + sweep * f)%R in
  fst (fst bb) <= fst p <= fst (snd bb) /\ snd (fst bb) <= snd p <= snd (snd bb).
Proof. exact arc_aabb_contains. Qed.
Print Assumptions C11_arc_aabb_contains.

(* Circle2::intersection_interval picks, of the two intervals from the first crossing point (the signed angle to the second, or its
   complement), the one containing the direction it tests - the other centre: whatever the start s and the signed angle a in
   (-pi, pi], the picked interval contains that direction, and both candidates end at the same place up to a whole turn *)
Theorem C11_intersection_interval_faces : forall s a theta : R, - PI < a <= PI ->
  @AngleInterval_contains RNum (@pick_interval RNum s a theta) theta = true.
Proof. exact pick_interval_contains. Qed.
Print Assumptions C11_intersection_interval_faces.
Theorem C11_intersection_interval_ends : forall a : R, exists k : Z, @signed_compliment_2pi RNum a = a + 2 * PI * IZR k.
Proof. exact pick_interval_ends. Qed.
Print Assumptions C11_intersection_interval_ends.
