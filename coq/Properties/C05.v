(* C05  Resampling, simplifying and gap filling stay on the curve and cover it all. *)
From Coq Require Import ZArith Reals List Sorted Lra Lia.
From Flocq Require Import Core.Raux.
From EG Require Import Num.Num Num.RNum Lib.Vec Model.TolMap Model.Curve Model.Resample.
From EG Require Import Proofs.Curve Proofs.Portion Proofs.PortionMore Proofs.Resample Proofs.ResampleLen.
Import ListNotations.
Local Open Scope R_scope.

(* ByCount(n), n >= 2: n positions from 0 to L inclusive, evenly L/(n-1) apart *)
Theorem C05_positions_by_count : forall (L : R) (n : nat), (2 <= n)%nat -> 0 <= L ->
  let ps := @positions_by_count RNum L n in
  length ps = n /\ nth 0 ps 0 = 0 /\ nth (n - 1) ps 0 = L /\
  (forall i, (i < n)%nat -> 0 <= nth i ps 0 <= L) /\
  (forall i, (S i < n)%nat -> nth (S i) ps 0 - nth i ps 0 = L / INR (n - 1)).
Proof. exact positions_by_count_spec. Qed.
Print Assumptions C05_positions_by_count.

(* ByMaxSpacing(s): ceil(L/s) + 1 points is at least two and makes the arc-length step at most s *)
Theorem C05_max_spacing_count : forall (L s : R), 0 < s -> 0 < L ->
  let n := (Z.to_nat (Zceil (L / s)) + 1)%nat in (2 <= n)%nat /\ L / INR (n - 1) <= s.
Proof. exact max_spacing_count_spec. Qed.
Print Assumptions C05_max_spacing_count.

(* BySpacing(s): centred, equal margins in (0, s/2], exact spacing s, inside [0, L], as many as fit *)
Theorem C05_positions_by_spacing : forall (fuel : nat) (L s : R) ps, 0 < s -> 0 < L ->
  @positions_by_spacing RNum fuel L s = Ok ps ->
  let m := length ps in
  (1 <= m)%nat /\ 0 < nth 0 ps 0 <= s / 2 /\ L - nth (m - 1) ps 0 = nth 0 ps 0 /\
  (forall i, (S i < m)%nat -> nth (S i) ps 0 - nth i ps 0 = s) /\
  (forall i, (i < m)%nat -> 0 <= nth i ps 0 <= L) /\
  L <= INR m * s /\ INR (m - 1) * s < L.
Proof. exact positions_by_spacing_spec. Qed.
Print Assumptions C05_positions_by_spacing.

(* the `while length < L` loop terminates for every positive spacing *)
Theorem C05_spacing_loop_terminates : forall (L s : R), 0 < s -> forall k len, L <= len + INR k * s ->
  @spacing_loop RNum (S k) L s len <> None.
Proof. exact spacing_loop_terminates. Qed.
Print Assumptions C05_spacing_loop_terminates.

(* resampling by count: k points, first and last are the curve's first and last vertices, each on the curve at
   its requested arc length *)
Theorem C05_resample_by_count : forall (V : @VOps RNum), VLaws V -> forall (c : curve V), WF V c ->
  forall k, (2 <= k)%nat ->
  exists pts, points_at V c (positions_by_count (clength V c) k) = Ok pts /\ length pts = k /\
    nth 0 pts (vzero V) = vtx V c 0 /\ nth (k - 1) pts (vzero V) = vtx V c (count V c - 1) /\
    Forall2 (sample_of V c) (positions_by_count (clength V c) k) pts.
Proof. exact resample_by_count_points. Qed.
Print Assumptions C05_resample_by_count.

(* every vertex of any resampled curve lies on the original (on an edge, at a fraction in [0,1]) at one of the
   requested arc lengths; positions inside [0, L] never panic *)
Theorem C05_resample_on_curve : forall (V : @VOps RNum), VLaws V -> forall (c : curve V), WF V c ->
  forall ps, (forall p, In p ps -> 0 <= p <= clength V c) ->
  resample_at_positions V c ps <> Panic /\
  forall r, resample_at_positions V c ps = Ok r -> forall q, In q (cpts V r) ->
    exists p, In p ps /\
      exists s, at_length V c p = Some s /\ q = st_point V s /\ (S (st_index V s) < count V c)%nat /\
                0 <= st_frac V s <= 1 /\ length_along V c s = p /\
                q = vlerp V (vtx V c (st_index V s)) (vtx V c (S (st_index V s))) (st_frac V s).
Proof. exact resample_on_curve. Qed.
Print Assumptions C05_resample_on_curve.

(* Ramer-Douglas-Peucker: a subsequence that keeps both ends; every dropped vertex is within the tolerance of the
   segment between the nearest kept vertices on either side *)
Theorem C05_rdp : forall (V : @VOps RNum) (pts : list (pt V)) (tol : R), 0 <= tol -> (2 <= length pts)%nat ->
  let out := rdp_points V pts tol in
  subseq out pts /\ hd (vzero V) out = hd (vzero V) pts /\ last out (vzero V) = last pts (vzero V) /\
  forall k, (k < length pts)%nat ->
    In (nth k pts (vzero V)) out \/
    exists a b, (0 <= a < k)%nat /\ (k < b <= length pts - 1)%nat /\
      nth a (rdp_flags V pts tol) false = true /\ nth b (rdp_flags V pts tol) false = true /\
      (forall m, (a < m < b)%nat -> nth m (rdp_flags V pts tol) false = false) /\
      seg_dist V (nth a pts (vzero V)) (nth b pts (vzero V)) (nth k pts (vzero V)) <= tol.
Proof. exact rdp_points_spec. Qed.
Print Assumptions C05_rdp.

(* gap filling: originals kept in order, no consecutive pair farther apart than the maximum *)
Theorem C05_fill_gaps : forall (V : @VOps RNum), VLaws V -> VStep V -> forall (maxd : R), 0 < maxd ->
  forall fuel pts out, fill_gaps V fuel pts maxd = Ok out ->
  subseq pts out /\ match out with [] => pts = [] | p :: rest => chain_le V maxd p rest end.
Proof. intros V L S maxd _. exact (fill_gaps_spec V L S maxd). Qed.
Print Assumptions C05_fill_gaps.

(* the inserted points: |b - a| / (n + 1) apart, n the smallest count (from 1) that brings that under the maximum *)
Theorem C05_gap_count : forall (maxd d : R) fuel n m, @gap_count RNum fuel d maxd n = Some m ->
  (n <= m)%nat /\ d / INR (m + 1) <= maxd /\ forall j, (n <= j < m)%nat -> maxd < d / INR (j + 1).
Proof. intros maxd d. exact (gap_count_spec maxd d). Qed.
Print Assumptions C05_gap_count.

Theorem C05_fill_gaps_terminates : forall (V : @VOps RNum), VLaws V -> forall (maxd : R), 0 < maxd ->
  forall fuel l prev, (forall a b, vdist V a b <= INR fuel * maxd) ->
  exists out, fill_gaps_from V (S fuel) maxd prev l = Ok out.
Proof. intros V L maxd Hm. exact (fill_gaps_total V maxd Hm). Qed.
Print Assumptions C05_fill_gaps_terminates.

Theorem C05_steps_curve2 : VStep (@VO2 RNum).
Proof. exact VStep2. Qed.
Print Assumptions C05_steps_curve2.
Theorem C05_steps_curve3 : VStep (@VO3 RNum).
Proof. exact VStep3. Qed.
Print Assumptions C05_steps_curve3.

(* the premises are satisfiable: a concrete curve is well formed (same witness as C01), so every theorem above applies to it *)
Example C05_nonvacuous :
  WF (@VO2 RNum) (mkCurve (@VO2 RNum) [(0, 0); (1, 0)] (lengths_of (@VO2 RNum) [(0, 0); (1, 0)]) false 0 true).
Proof.
  unfold WF, count. cbn [cpts ctol clens length]. split; [lia|]. split; [lra|]. split; [|reflexivity].
  intros [|i] Hi; [|cbn in Hi; lia]. cbn [nth]. unfold vdist, vnorm. cbn [vsub vdot VO2 nsqrt RNum].
  apply sqrt_lt_R0. Proofs.VecR.vec_unfold. lra.
Qed.

(* resampling never lengthens: an open curve resampled at ascending positions is at most as long as the stretch of the
   source between its first and last requested positions (chord <= arc by the triangle inequality; tolerance
   de-duplication only removes vertices) *)
Theorem C05_resample_not_longer : forall (V : @VOps RNum), VLaws V -> MetricLaws V -> forall (c : curve V), WF V c ->
  forall ps r, cclosed V c = false -> StronglySorted Rle ps -> resample_at_positions V c ps = Ok r ->
  clength V r <= last ps 0 - hd 0 ps.
Proof. exact resample_not_longer. Qed.
Print Assumptions C05_resample_not_longer.

Theorem C05_chord_le_arc : forall (V : @VOps RNum), VLaws V -> MetricLaws V -> forall (c : curve V), WF V c ->
  forall l0 l1 s e, at_length V c l0 = Some s -> at_length V c l1 = Some e -> l0 <= l1 ->
  vdist V (st_point V e) (st_point V s) <= l1 - l0.
Proof. exact chord_le_arc. Qed.
Print Assumptions C05_chord_le_arc.

Theorem C05_metric_laws : MetricLaws (@VO2 RNum) /\ MetricLaws (@VO3 RNum).
Proof. split; [exact metric2 | exact metric3]. Qed.
Print Assumptions C05_metric_laws.
