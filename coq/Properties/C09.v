(* C09 -- theorems are added below as they are proved. *)
From Coq Require Import ZArith List.
From EG Require Import Num.Num Model.Poly.
