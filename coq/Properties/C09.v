(* C09  Least-squares fits are optimal. *)
From Coq Require Import ZArith Reals List Lra.
From Coquelicot Require Import Coquelicot.
From EG Require Import Num.Num Num.RNum Lib.Vec Model.Poly Proofs.Poly Proofs.CircleJac.
Import ListNotations.
Local Open Scope R_scope.

(* the accumulated sums are the weighted power sums for every order 0..2K (the order-K sum included) *)
Theorem C09_sums_spec : forall (K : nat) (S : list (@sample RNum)) (j : nat), (j <= 2 * K)%nat ->
  nth j (@sums_of RNum K S) 0 = sumf (fun s => W s * X s ^ j) S.
Proof. exact sums_of_spec. Qed.
Print Assumptions C09_sums_spec.
Theorem C09_rhs_spec : forall (S : list (@sample RNum)) (k : nat),
  @rhs_entry RNum S k = sumf (fun s => W s * X s ^ k * Y s) S.
Proof. exact rhs_entry_spec. Qed.
Print Assumptions C09_rhs_spec.

Theorem C09_residual_orthogonal : forall (K : nat) (S : list (@sample RNum)) (c : list R),
  NE K S c -> forall k, (k < K)%nat -> sumf (fun s => W s * X s ^ k * (Y s - P K c (X s))) S = 0.
Proof. exact normal_eq_orthogonal. Qed.
Print Assumptions C09_residual_orthogonal.

Theorem C09_lsq_optimal : forall (K : nat) (S : list (@sample RNum)) (c c' : list R),
  NE K S c -> (forall s, In s S -> 0 <= W s) -> SS K S c <= SS K S c'.
Proof. exact lsq_optimal. Qed.
Print Assumptions C09_lsq_optimal.

Theorem C09_exact_recovery : forall (K : nat) (S : list (@sample RNum)) (q c : list R),
  (forall s, In s S -> Y s = P K q (X s)) -> NE K S c ->
  (forall a b, NE K S a -> NE K S b -> forall j, (j < K)%nat -> nth j a 0 = nth j b 0) ->
  forall j, (j < K)%nat -> nth j c 0 = nth j q 0.
Proof. exact lsq_exact_recovery. Qed.
Print Assumptions C09_exact_recovery.

Theorem C09_best_fit_line_is_deg1 : forall xs ys : list R,
  INR (length xs) <> 0 ->
  INR (length xs) * @sum_list RNum (map (fun x => @nmul RNum x x) xs) - @sum_list RNum xs * @sum_list RNum xs <> 0 ->
  INR (length xs) * snd (@best_fit_line RNum xs ys) + @sum_list RNum xs * fst (@best_fit_line RNum xs ys) = @sum_list RNum ys /\
  @sum_list RNum xs * snd (@best_fit_line RNum xs ys)
    + @sum_list RNum (map (fun x => @nmul RNum x x) xs) * fst (@best_fit_line RNum xs ys)
    = @sum_list RNum (map (fun p => @nmul RNum (fst p) (snd p)) (combine xs ys)).
Proof. exact best_fit_line_normal_eqs. Qed.
Print Assumptions C09_best_fit_line_is_deg1.

Theorem C09_three_point_through : forall (p0 p1 p2 : R * R) cx cy r,
  @circle3 RNum p0 p1 p2 = Ok (cx, cy, r) ->
  (cx - fst p0) ^ 2 + (cy - snd p0) ^ 2 = r ^ 2 /\
  (cx - fst p1) ^ 2 + (cy - snd p1) ^ 2 = r ^ 2 /\
  (cx - fst p2) ^ 2 + (cy - snd p2) ^ 2 = r ^ 2.
Proof. exact circle3_through. Qed.
Print Assumptions C09_three_point_through.
Theorem C09_three_point_collinear : forall p0 p1 p2 : R * R,
  (fst p0 - fst p1) * (snd p1 - snd p2) - (fst p1 - fst p2) * (snd p0 - snd p1) = 0 -> @circle3 RNum p0 p1 p2 = Err.
Proof. exact circle3_collinear_rejected. Qed.
Print Assumptions C09_three_point_collinear.

Theorem C09_circle_jacobian_dcx : forall (p : R * R) (w cx cy r : R),
  0 < (cx - fst p) * (cx - fst p) + (cy - snd p) * (cy - snd p) ->
  is_derive (fun t => res_w p w t cy r) cx (fst (fst (jac_row p w cx cy))).
Proof. exact jac_dcx. Qed.
Print Assumptions C09_circle_jacobian_dcx.
Theorem C09_circle_jacobian_dcy : forall (p : R * R) (w cx cy r : R),
  0 < (cx - fst p) * (cx - fst p) + (cy - snd p) * (cy - snd p) ->
  is_derive (fun t => res_w p w cx t r) cy (snd (fst (jac_row p w cx cy))).
Proof. exact jac_dcy. Qed.
Print Assumptions C09_circle_jacobian_dcy.
Theorem C09_circle_jacobian_dr : forall (p : R * R) (w cx cy r : R),
  is_derive (fun t => res_w p w cx cy t) r (snd (jac_row p w cx cy)).
Proof. exact jac_dr. Qed.
Print Assumptions C09_circle_jacobian_dr.

Theorem C09_ransac_best : forall (pts : list (R * R)) (tol : R) (cands : list (option (@circle RNum))),
  let '(best, k) := @ransac_pick RNum pts tol cands in
  (forall c, In (Some c) cands -> (@inliers RNum pts tol c <= k)%nat) /\
  match best with
  | Some c => In (Some c) cands /\ @inliers RNum pts tol c = k /\ (0 < k)%nat
  | None => k = 0%nat
  end.
Proof. exact ransac_pick_best. Qed.
Print Assumptions C09_ransac_best.

(* non-vacuity: the D6 witness data satisfy the normal equations with their own coefficients *)
Example C09_nonvacuous :
  NE 3 [((0, 1), 1); ((1, 6), 1); ((2, 17), 1)] [1; 2; 3].
Proof. apply exact_poly_solves. intros s [<- | [<- | [<- | []]]]; unfold Y, X, P; cbn; lra. Qed.

(* the line through two samples (Line1::try_from_points) passes through both and does not depend on which is given first; it is
   refused exactly when the abscissae are within 1e-12 of each other *)
Theorem C09_two_point_line : forall x0 y0 x1 y1 m b : R,
  @line_two_points RNum x0 y0 x1 y1 = Ok (m, b) ->
  m * x0 + b = y0 /\ m * x1 + b = y1 /\ @line_two_points RNum x1 y1 x0 y0 = Ok (m, b).
Proof. exact line_two_points_through. Qed.
Print Assumptions C09_two_point_line.
Theorem C09_two_point_refused : forall x0 y0 x1 y1 : R,
  @line_two_points RNum x0 y0 x1 y1 = Err <-> Rabs (x1 - x0) < Rlit 1 (-12).
Proof. exact line_two_points_refused. Qed.
Print Assumptions C09_two_point_refused.
