(* C15  Spatial search, sampling and hulls agree with exhaustive computation. *)
From Coq Require Import ZArith Reals List Lra Lia.
From Flocq Require Import Core.Raux.
From EG Require Import Num.Num Num.RNum Lib.Vec Model.Types Model.Curve Model.Closest Model.Spatial.
From EG Require Import Proofs.VecR Proofs.Spatial.
Import ListNotations.
Local Open Scope R_scope.

(* the radius query of the specification returns exactly the points within the radius *)
Theorem C15_within : forall (V : @VOps RNum) (pts : list (pt V)) (q : pt V) (r : R) (i : nat),
  In i (within_idx V pts q r) <-> (i < length pts)%nat /\ pdsq V pts q i <= r * r.
Proof. exact within_iff. Qed.
Print Assumptions C15_within.

(* nearest: an index of minimal distance over the whole set *)
Theorem C15_nearest : forall (V : @VOps RNum) (pts : list (pt V)) (q : pt V), pts <> [] ->
  exists m, nearest_idx V pts q = Some m /\ (m < length pts)%nat /\ forall i, (i < length pts)%nat -> pdsq V pts q m <= pdsq V pts q i.
Proof. exact nearest_spec. Qed.
Print Assumptions C15_nearest.

(* the Poisson-disk sweep, for every visiting order (cands is any list of positions): a subset; every earlier kept
   position is farther than the radius from every later one; every candidate is within the radius of a kept position *)
Theorem C15_poisson : forall (V : @VOps RNum), (forall a : pt V, dsq V a a = 0) ->
  forall (wp : list (pt V)) (r : R) fuel cands, (length cands < fuel)%nat ->
  let res := poisson_go V fuel wp r cands in
  incl res cands /\ separated V wp r res /\ forall w, In w cands -> exists k, In k res /\ W V wp r k w.
Proof. exact poisson_go_spec. Qed.
Print Assumptions C15_poisson.

Theorem C15_poisson_pairwise : forall (V : @VOps RNum), (forall a b : pt V, dsq V a b = dsq V b a) ->
  forall (wp : list (pt V)) (r : R) l, separated V wp r l -> forall a b, In a l -> In b l -> a <> b -> NoDup l -> ~ W V wp r a b.
Proof. exact separated_pairwise. Qed.
Print Assumptions C15_poisson_pairwise.

Theorem C15_metric_laws :
  (forall a : pt (@VO2 RNum), dsq (@VO2 RNum) a a = 0) /\ (forall a b : pt (@VO2 RNum), dsq (@VO2 RNum) a b = dsq (@VO2 RNum) b a) /\
  (forall a : pt (@VO3 RNum), dsq (@VO3 RNum) a a = 0) /\ (forall a b : pt (@VO3 RNum), dsq (@VO3 RNum) a b = dsq (@VO3 RNum) b a).
Proof. repeat split; [exact dsq_refl2 | exact dsq_sym2 | exact dsq_refl3 | exact dsq_sym3]. Qed.
Print Assumptions C15_metric_laws.
