(* C15  Spatial search, sampling and hulls agree with exhaustive computation. *)
From Coq Require Import ZArith Reals List Lra Lia Sorted.
From Flocq Require Import Core.Raux.
From EG Require Import Num.Num Num.RNum Lib.Vec Model.Types Model.Curve Model.Closest Model.Spatial Model.Hull Model.Sampling.
From EG Require Import Model.Circle Proofs.VecR Proofs.Spatial Proofs.Hull Proofs.Sampling Proofs.Circle.
Import ListNotations.
Local Open Scope R_scope.

(* the radius query of the specification returns exactly the points within the radius *)
Theorem C15_within : forall (V : @VOps RNum) (pts : list (pt V)) (q : pt V) (r : R) (i : nat),
  In i (within_idx V pts q r) <-> (i < length pts)%nat /\ pdsq V pts q i <= r * r.
Proof. exact within_iff. Qed.
Print Assumptions C15_within.

(* nearest: an index of minimal distance over the whole set *)
Theorem C15_nearest : forall (V : @VOps RNum) (pts : list (pt V)) (q : pt V), pts <> [] ->
  exists m, nearest_idx V pts q = Some m /\ (m < length pts)%nat /\ forall i, (i < length pts)%nat -> pdsq V pts q m <= pdsq V pts q i.
Proof. exact nearest_spec. Qed.
Print Assumptions C15_nearest.

(* the Poisson-disk sweep, for every visiting order (cands is any list of positions): a subset; every earlier kept
   position is farther than the radius from every later one; every candidate is within the radius of a kept position *)
Theorem C15_poisson : forall (V : @VOps RNum), (forall a : pt V, dsq V a a = 0) ->
  forall (wp : list (pt V)) (r : R) fuel cands, (length cands < fuel)%nat ->
  let res := poisson_go V fuel wp r cands in
  incl res cands /\ separated V wp r res /\ forall w, In w cands -> exists k, In k res /\ W V wp r k w.
Proof. exact poisson_go_spec. Qed.
Print Assumptions C15_poisson.

Theorem C15_poisson_pairwise : forall (V : @VOps RNum), (forall a b : pt V, dsq V a b = dsq V b a) ->
  forall (wp : list (pt V)) (r : R) l, separated V wp r l -> forall a b, In a l -> In b l -> a <> b -> NoDup l -> ~ W V wp r a b.
Proof. exact separated_pairwise. Qed.
Print Assumptions C15_poisson_pairwise.

Theorem C15_metric_laws :
  (forall a : pt (@VO2 RNum), dsq (@VO2 RNum) a a = 0) /\ (forall a b : pt (@VO2 RNum), dsq (@VO2 RNum) a b = dsq (@VO2 RNum) b a) /\
  (forall a : pt (@VO3 RNum), dsq (@VO3 RNum) a a = 0) /\ (forall a b : pt (@VO3 RNum), dsq (@VO3 RNum) a b = dsq (@VO3 RNum) b a).
Proof. repeat split; [exact dsq_refl2 | exact dsq_sym2 | exact dsq_refl3 | exact dsq_sym3]. Qed.
Print Assumptions C15_metric_laws.

(* the farthest pair of hull vertices is the true diameter: no pair of hull vertices is farther apart *)
Theorem C15_farthest_pair : forall (pts : list (@V2 RNum)) a b, (a < b)%nat -> (b < length pts)%nat ->
  @dist2 RNum (nth a pts (0, 0)) (nth b pts (0, 0)) <=
  @dist2 RNum (nth (fst (@farthest_pair RNum pts)) pts (0, 0)) (nth (snd (@farthest_pair RNum pts)) pts (0, 0)).
Proof. intros pts a b Hab Hb. apply (farthest_pair_max pts a b Hab Hb). Qed.
Print Assumptions C15_farthest_pair.

(* order direction: a hull (of three or more vertices) whose source indices ascend cyclically - the points were given
   counter-clockwise - votes counter-clockwise, one whose indices descend cyclically votes clockwise *)
Theorem C15_order_direction : forall (l1 l2 : list nat), l2 <> [] -> (3 <= length (l2 ++ l1))%nat ->
  (StronglySorted lt (l1 ++ l2) -> order_ccw (l2 ++ l1) = true) /\
  (StronglySorted gt (l1 ++ l2) -> order_ccw (l2 ++ l1) = false).
Proof. exact order_direction_spec. Qed.
Print Assumptions C15_order_direction.

(* mesh sampling: every point of the dense sample is a convex combination of the corners of a face of the mesh (lies on that face),
   whatever the spacing ... *)
Theorem C15_dense_on_mesh : forall (fuel : nat) (verts : list (@V3 RNum)) (faces : list (nat * nat * nat)) (s : R) (q : @V3 RNum),
  In q (@sample_dense RNum fuel verts faces s) ->
  exists i j k, In (i, j, k) faces /\ in_tri (nth i verts (0, 0, 0)) (nth j verts (0, 0, 0)) (nth k verts (0, 0, 0)) q.
Proof. exact sample_dense_on_mesh. Qed.
Print Assumptions C15_dense_on_mesh.

(* ... the uniform sample for any two draws in [0, 1] lies on its face ... *)
Theorem C15_uniform_on_face : forall (a b c : @V3 RNum) (r1 r2 : R), 0 <= r1 <= 1 -> 0 <= r2 <= 1 ->
  in_tri a b c (@uniform_point RNum a b c r1 r2).
Proof. exact uniform_point_on_face. Qed.
Print Assumptions C15_uniform_on_face.

(* ... and a draw r selects face i exactly when it falls in the i-th interval of the running totals of the areas, an interval as
   long as the area of face i: faces are hit in proportion to area *)
Theorem C15_uniform_face_interval : forall (areas : list R) (r : R),
  let cum := @cumulative RNum 0 areas in let i := @count_below RNum cum r in
  (i < length areas)%nat ->
  (match i with O => 0 | S i' => nth i' cum 0 end) + nth i areas 0 = nth i cum 0 /\
  (match i with O => True | S i' => nth i' cum 0 < r end) /\ r <= nth i cum 0.
Proof. exact uniform_face_interval. Qed.
Print Assumptions C15_uniform_face_interval.

Notation C0 x y r := (@mkCirc RNum ((x, y) : @V2 RNum) r).
(* ball pivot: the candidate ball centres of a step are the crossing points of the two circles of the ball's radius around the
   working point and a neighbour (Circle2::intersections_with, C11); both crossing points are exactly one radius from both
   points, so every reported centre is one radius from the two consecutive hull points *)
Theorem C15_pivot_centre : forall (wx wy nx ny r : R), 0 <= r -> forall p q,
  @intersections_with RNum (C0 wx wy r) (C0 nx ny r) = [p; q] ->
  on_circle (C0 wx wy r) p /\ on_circle (C0 nx ny r) p /\ on_circle (C0 wx wy r) q /\ on_circle (C0 nx ny r) q.
Proof. intros wx wy nx ny r Hr p q H. destruct (cc_two_points wx wy r nx ny r Hr Hr p q H) as (_ & A). exact A. Qed.
Print Assumptions C15_pivot_centre.
