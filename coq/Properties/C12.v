(* C12  Mesh connectivity results are exact partitions and always terminate. *)
From Coq Require Import ZArith Reals List Bool Arith Permutation Relations.
From EG Require Import Num.Num Num.RNum Lib.Vec Model.MeshTopo Model.MeshGeom.
From EG Require Import Proofs.MeshEdges Proofs.MeshLoops Proofs.MeshLoopsClosed Proofs.MeshPatches
                       Proofs.MeshPatchesConn Proofs.MeshClusters Proofs.MeshClustersConn Proofs.MeshChains Proofs.MeshGeom.
From EG Require Model.PatchLoops Proofs.PatchLoops.
Import ListNotations.

(* ---- edge table ---- *)
Theorem C12_edges_once : forall es : list edge,
  sorted_keys (unique_edges es) /\ NoDup (keys (unique_edges es)) /\
  (forall k, In k (keys (unique_edges es)) <-> In k (map edge_key es)) /\
  (forall k, count_of_key k (unique_edges es) = mult k es).
Proof. exact unique_edges_spec. Qed.
Print Assumptions C12_edges_once.

Theorem C12_face_edges_spec : forall (uniq : list (edge * nat)) (f : face) i0 i1 i2,
  face_edge_indices uniq f = Some (i0, i1, i2) ->
  let '(a, b, c) := f in
  nth i0 (keys uniq) (0, 0) = edge_key (b, c) /\
  nth i1 (keys uniq) (0, 0) = edge_key (c, a) /\
  nth i2 (keys uniq) (0, 0) = edge_key (a, b).
Proof. exact face_edge_indices_spec. Qed.
Print Assumptions C12_face_edges_spec.

Theorem C12_face_edges_total : forall (faces : list face) (f : face),
  In f faces -> exists t, face_edge_indices (unique_edges (naive_edges faces)) f = Some t.
Proof. exact face_edge_indices_total. Qed.
Print Assumptions C12_face_edges_total.

(* ---- boundary loops: termination + every boundary edge exactly once, for EVERY edge list ---- *)
Theorem C12_loops_terminate_exactly_once : forall es : list edge,
  exists s, boundary_loops_full es = Some s /\
            Permutation (concat (ls_edges s)) (seq 0 (length es)) /\
            length (ls_loops s) = length (ls_edges s).
Proof. exact boundary_loops_exactly_once. Qed.
Print Assumptions C12_loops_terminate_exactly_once.

(* ---- ... and they are closed vertex cycles joined by those edges (even boundary degree) ---- *)
Theorem C12_loops_closed_cycles : forall es : list edge,
  proper es -> all_even es (repeat false (length es)) ->
  exists s, boundary_loops_full es = Some s /\ ls_closed s = true /\
            Permutation (concat (ls_edges s)) (seq 0 (length es)) /\
            Forall2 (fun lp ix => cycle_ok es (rev lp) ix) (ls_loops s) (ls_edges s).
Proof. exact boundary_loops_closed_cycles. Qed.
Print Assumptions C12_loops_closed_cycles.

(* ---- patches: partition and connectivity, for every hash-iteration order ---- *)
Theorem C12_patches_partition : forall (pick : list nat -> option nat),
  (forall l x, pick l = Some x -> In x l) -> (forall l, l <> [] -> pick l <> None) ->
  forall faces : list face,
  exists patches, compute_patch_indices pick faces = Some patches /\
                  Permutation (concat patches) (seq 0 (length faces)) /\
                  (forall p, In p patches -> p <> []).
Proof. exact patches_partition. Qed.
Print Assumptions C12_patches_partition.

Theorem C12_patches_same_iff_connected : forall (pick : list nat -> option nat),
  (forall l x, pick l = Some x -> In x l) -> (forall l, l <> [] -> pick l <> None) ->
  forall (faces : list face) patches,
  compute_patch_indices pick faces = Some patches ->
  forall a b, a < length faces ->
    (clos_refl_sym_trans nat (linked faces) a b <-> exists Q, In Q patches /\ In a Q /\ In b Q).
Proof. exact patches_same_iff_connected. Qed.
Print Assumptions C12_patches_same_iff_connected.

(* ---- voxel clusters and index chains ---- *)
Theorem C12_clusters_partition : forall (vpick : list voxel -> option voxel),
  (forall l x, vpick l = Some x -> In x l) -> (forall l, l <> [] -> vpick l <> None) ->
  forall voxels : list voxel, NoDup voxels ->
  exists clusters, clusters_from_sparse vpick voxels = Some clusters /\
                   Permutation (concat clusters) voxels /\ (forall c, In c clusters -> c <> []).
Proof. exact clusters_partition. Qed.
Print Assumptions C12_clusters_partition.

(* maximal connectivity of voxel clusters, for every hash-iteration order: every voxel of a cluster is joined to the
   cluster's seed by a chain of 26-neighbours inside the cluster, and no voxel of one cluster is a 26-neighbour of a
   voxel of another cluster (so the clusters are exactly the 26-connected components) *)
Theorem C12_clusters_connectivity : forall (vpick : list voxel -> option voxel),
  (forall l x, vpick l = Some x -> In x l) ->
  forall (voxels : list voxel) clusters, NoDup voxels -> clusters_from_sparse vpick voxels = Some clusters ->
  (forall c, In c clusters -> exists seed, In seed c /\ forall x, In x c -> path c seed x) /\
  (forall i j c1 c2, i <> j -> nth_error clusters i = Some c1 -> nth_error clusters j = Some c2 ->
     forall a b, In a c1 -> In b c2 -> ~ adj26 a b).
Proof. exact clusters_connectivity. Qed.
Print Assumptions C12_clusters_connectivity.

Theorem C12_chains_exactly_once : forall indices : list edge,
  exists chains used, chained_indices_full indices = Some (chains, used) /\
                      Permutation used (seq 0 (length indices)).
Proof. exact chains_exactly_once. Qed.
Print Assumptions C12_chains_exactly_once.

(* ---- primitive generators ---- *)
Theorem C12_box_wound : consistently_wound box_faces = true /\ closed_surface box_faces = true.
Proof. exact box_consistently_wound. Qed.
Print Assumptions C12_box_wound.
Theorem C12_box_outward : forall w h d : R, (0 < w)%R -> (0 < h)%R -> (0 < d)%R ->
  Forall (box_face_outward w h d) box_faces.
Proof. exact box_outward. Qed.
Print Assumptions C12_box_outward.
Theorem C12_cylinder_wound_upto_64 :
  forallb (fun s => consistently_wound (cylinder_faces s)) (seq 3 62) = true.
Proof. exact cylinder_consistently_wound_upto_64. Qed.
Print Assumptions C12_cylinder_wound_upto_64.
Theorem C12_cylinder_outward : forall (r h : R) (steps i : nat),
  (0 < r)%R -> (0 < h)%R -> 3 <= steps -> i < steps ->
  tri_outward (@cyl_tri1 RNum r h steps i) (@cyl_radial RNum r steps i) /\
  tri_outward (@cyl_tri2 RNum r h steps i) (@cyl_radial RNum r steps i).
Proof. exact cylinder_outward. Qed.
Print Assumptions C12_cylinder_outward.

(* non-vacuity: a bow-tie (two triangles touching at vertex 2) is handled, and its boundary edges have
   even degree everywhere *)
Example C12_bowtie :
  identify_edges [(0, 1, 2); (2, 4, 3)] =
  IE_Ok [(0, 1); (0, 2); (1, 2); (2, 3); (2, 4); (3, 4)] [(2, 1, 0); (5, 3, 4)] [[0; 2; 1]; [2; 3; 4]].
Proof. vm_compute. reflexivity. Qed.

(* the boundary walk of patches.rs (get_patch_boundary_points): when the boundary of a patch is a disjoint union of directed cycles
   the loops returned use every boundary edge exactly once, as closed cycles, whatever key the hash map yields first *)
Theorem C12_patch_boundary_loops : forall (pick : Model.PatchLoops.omap -> option nat) (m : Model.PatchLoops.omap),
  Proofs.PatchLoops.fair_pick pick -> Proofs.PatchLoops.cycles_map m ->
  Permutation (flat_map Model.PatchLoops.cyc_edges (Model.PatchLoops.boundary_loops_of pick m)) m.
Proof. exact Proofs.PatchLoops.boundary_loops_exactly_once. Qed.
Print Assumptions C12_patch_boundary_loops.
