(* C02  Closest-point and distance queries return the global optimum. *)
From Coq Require Import ZArith Reals List Lra Lia.
From Flocq Require Import Core.Raux.
From EG Require Import Num.Num Num.RNum Lib.Vec Model.Types Model.Curve Model.Closest.
From EG Require Import Proofs.VecR Proofs.Closest Proofs.ClosestTri.
Import ListNotations.
Local Open Scope R_scope.

Theorem C02_inner_laws : InnerLaws (@VO2 RNum) /\ InnerLaws (@VO3 RNum).
Proof. split; [exact inner2 | exact inner3]. Qed.
Print Assumptions C02_inner_laws.

(* the clamped projection is the nearest point of the segment, over the continuum of the segment *)
Theorem C02_segment : forall (V : @VOps RNum), InnerLaws V -> forall (q a b : pt V) (s : R), 0 <= s <= 1 ->
  0 <= seg_param V q a b <= 1 /\ dsq V q (seg_closest V q a b) <= dsq V q (on_seg V a b s).
Proof. exact seg_closest_opt. Qed.
Print Assumptions C02_segment.

(* the scan over the edges: the reported point is on the reported edge at the reported fraction, the reported squared
   distance is its distance, and no point of any edge is nearer (global optimum over the whole polyline) *)
Theorem C02_polyline : forall (V : @VOps RNum), InnerLaws V -> forall (q : pt V) (pts : list (pt V)), (2 <= length pts)%nat ->
  exists d2 i t c, poly_closest V q pts = Some (d2, i, t, c) /\
    (S i < length pts)%nat /\ 0 <= t <= 1 /\ c = edge_of V pts i t /\ d2 = dsq V q c /\
    forall j s, (S j < length pts)%nat -> 0 <= s <= 1 -> d2 <= dsq V q (edge_of V pts j s).
Proof. exact poly_closest_opt. Qed.
Print Assumptions C02_polyline.

(* triangles: the plane projection lies in the plane and is the nearest point of the plane (hence of the triangle
   when it falls inside it) *)
Theorem C02_plane_projection : forall (q a n x : @V3 RNum), 0 < dot3 n n -> dot3 (sub3 x a) n = 0 ->
  let p := sub3 q (scale3 n (dot3 (sub3 q a) n / dot3 n n)) in
  dot3 (sub3 p a) n = 0 /\ dsq (@VO3 RNum) q p <= dsq (@VO3 RNum) q x.
Proof. exact plane_projection_opt. Qed.
Print Assumptions C02_plane_projection.

(* triangles, whole: for a triangle of non-zero area the specification's point is a point of the triangle (a convex
   combination of its vertices) and no point of the closed triangle is nearer - also when the plane projection falls
   outside and an edge point is returned *)
Theorem C02_triangle : forall (a b c q : @V3 RNum), 0 < nn a b c ->
  (exists u v w, 0 <= u /\ 0 <= v /\ 0 <= w /\ u + v + w = 1 /\ @tri_closest RNum q a b c = comb a b c u v w) /\
  forall u v w, 0 <= u -> 0 <= v -> 0 <= w -> u + v + w = 1 ->
    dsq (@VO3 RNum) q (@tri_closest RNum q a b c) <= dsq (@VO3 RNum) q (comb a b c u v w).
Proof. intros a b c q Hn. split; [apply tri_closest_in; exact Hn | intros u v w Hu Hv Hw Hs; apply tri_closest_opt; assumption]. Qed.
Print Assumptions C02_triangle.

(* meshes: the scan over the faces reports the specification's point on the reported face at its distance, and no
   point of any face of the mesh is nearer (global optimum over the continuum of every face) *)
Theorem C02_mesh : forall (q : @V3 RNum) (verts : list (@V3 RNum)) (faces : list (nat * nat * nat)),
  faces <> [] -> (forall f, In f faces -> nondeg verts f) ->
  exists d2 i cpt, @mesh_closest RNum q verts faces = Some (d2, i, cpt) /\ (i < length faces)%nat /\
    cpt = @tri_closest RNum q (fa verts (nth i faces dface)) (fb verts (nth i faces dface)) (fc verts (nth i faces dface)) /\
    d2 = dsq (@VO3 RNum) q cpt /\
    forall j u v w, (j < length faces)%nat -> 0 <= u -> 0 <= v -> 0 <= w -> u + v + w = 1 ->
      d2 <= dsq (@VO3 RNum) q (face_pt verts (nth j faces dface) u v w).
Proof. exact mesh_closest_opt. Qed.
Print Assumptions C02_mesh.

Example C02_nonvacuous : exists r, poly_closest (@VO2 RNum) ((0%R, 1%R) : @V2 RNum) [((-1)%R, 0%R); (1%R, 0%R)] = Some r.
Proof.
  destruct (poly_closest_opt (@VO2 RNum) inner2 ((0%R, 1%R) : @V2 RNum) [((-1)%R, 0%R); (1%R, 0%R)]) as (d2 & i & t & c & E & _); [cbn; lia|].
  eexists. exact E.
Qed.

Example C02_triangle_nonvacuous : 0 < nn ((0, 0, 0) : @V3 RNum) ((1, 0, 0) : @V3 RNum) ((0, 1, 0) : @V3 RNum).
Proof. unfold nn, nrm. vec_unfold. lra. Qed.
