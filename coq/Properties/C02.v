(* C02  Closest-point and distance queries return the global optimum. *)
From Coq Require Import ZArith Reals List Lra Lia.
From Flocq Require Import Core.Raux.
From EG Require Import Num.Num Num.RNum Lib.Vec Model.Types Model.Curve Model.Closest.
From EG Require Import Proofs.VecR Proofs.Closest.
Import ListNotations.
Local Open Scope R_scope.

Theorem C02_inner_laws : InnerLaws (@VO2 RNum) /\ InnerLaws (@VO3 RNum).
Proof. split; [exact inner2 | exact inner3]. Qed.
Print Assumptions C02_inner_laws.

(* the clamped projection is the nearest point of the segment, over the continuum of the segment *)
Theorem C02_segment : forall (V : @VOps RNum), InnerLaws V -> forall (q a b : pt V) (s : R), 0 <= s <= 1 ->
  0 <= seg_param V q a b <= 1 /\ dsq V q (seg_closest V q a b) <= dsq V q (on_seg V a b s).
Proof. exact seg_closest_opt. Qed.
Print Assumptions C02_segment.

(* the scan over the edges: the reported point is on the reported edge at the reported fraction, the reported squared
   distance is its distance, and no point of any edge is nearer (global optimum over the whole polyline) *)
Theorem C02_polyline : forall (V : @VOps RNum), InnerLaws V -> forall (q : pt V) (pts : list (pt V)), (2 <= length pts)%nat ->
  exists d2 i t c, poly_closest V q pts = Some (d2, i, t, c) /\
    (S i < length pts)%nat /\ 0 <= t <= 1 /\ c = edge_of V pts i t /\ d2 = dsq V q c /\
    forall j s, (S j < length pts)%nat -> 0 <= s <= 1 -> d2 <= dsq V q (edge_of V pts j s).
Proof. exact poly_closest_opt. Qed.
Print Assumptions C02_polyline.

(* triangles: the plane projection lies in the plane and is the nearest point of the plane (hence of the triangle
   when it falls inside it) *)
Theorem C02_plane_projection : forall (q a n x : @V3 RNum), 0 < dot3 n n -> dot3 (sub3 x a) n = 0 ->
  let p := sub3 q (scale3 n (dot3 (sub3 q a) n / dot3 n n)) in
  dot3 (sub3 p a) n = 0 /\ dsq (@VO3 RNum) q p <= dsq (@VO3 RNum) q x.
Proof. exact plane_projection_opt. Qed.
Print Assumptions C02_plane_projection.

Example C02_nonvacuous : exists r, poly_closest (@VO2 RNum) ((0%R, 1%R) : @V2 RNum) [((-1)%R, 0%R); (1%R, 0%R)] = Some r.
Proof.
  destruct (poly_closest_opt (@VO2 RNum) inner2 ((0%R, 1%R) : @V2 RNum) [((-1)%R, 0%R); (1%R, 0%R)]) as (d2 & i & t & c & E & _); [cbn; lia|].
  eexists. exact E.
Qed.
