(* 2D / 3D vectors over the arithmetic signature; evaluation order follows nalgebra 0.33
   (dot 2D: x*x' + y*y'; 3D: (x*x' + y*y') + z*z'; norm = sqrt(dot v v); normalize = v / norm). *)
From Coq Require Import ZArith List.
From EG Require Import Num.Num.
Import ListNotations.

Section Vec.
  Context {N : Num}.
  Local Open Scope num_scope.

  Definition V2 : Type := num * num.
  Definition V3 : Type := num * num * num.

  Definition add2 (a b : V2) : V2 := (fst a + fst b, snd a + snd b).
  Definition sub2 (a b : V2) : V2 := (fst a - fst b, snd a - snd b).
  Definition neg2 (a : V2) : V2 := (- fst a, - snd a).
  Definition scale2 (a : V2) (s : num) : V2 := (fst a * s, snd a * s).
  Definition div2 (a : V2) (s : num) : V2 := (fst a / s, snd a / s).
  Definition dot2 (a b : V2) : num := fst a * fst b + snd a * snd b.
  Definition nsq2 (a : V2) : num := dot2 a a.
  Definition norm2 (a : V2) : num := nsqrt (nsq2 a).
  Definition normalize2 (a : V2) : V2 := div2 a (norm2 a).
  Definition dist2 (a b : V2) : num := norm2 (sub2 a b).
  Definition cross2 (a b : V2) : num := fst a * snd b - snd a * fst b.
  Definition lerp2 (a b : V2) (f : num) : V2 := add2 a (scale2 (sub2 b a) f).

  Definition x3 (a : V3) : num := fst (fst a).
  Definition y3 (a : V3) : num := snd (fst a).
  Definition z3 (a : V3) : num := snd a.
  Definition mk3 (x y z : num) : V3 := (x, y, z).
  Definition add3 (a b : V3) : V3 := mk3 (x3 a + x3 b) (y3 a + y3 b) (z3 a + z3 b).
  Definition sub3 (a b : V3) : V3 := mk3 (x3 a - x3 b) (y3 a - y3 b) (z3 a - z3 b).
  Definition neg3 (a : V3) : V3 := mk3 (- x3 a) (- y3 a) (- z3 a).
  Definition scale3 (a : V3) (s : num) : V3 := mk3 (x3 a * s) (y3 a * s) (z3 a * s).
  Definition div3 (a : V3) (s : num) : V3 := mk3 (x3 a / s) (y3 a / s) (z3 a / s).
  Definition dot3 (a b : V3) : num := (x3 a * x3 b + y3 a * y3 b) + z3 a * z3 b.
  Definition nsq3 (a : V3) : num := dot3 a a.
  Definition norm3 (a : V3) : num := nsqrt (nsq3 a).
  Definition normalize3 (a : V3) : V3 := div3 a (norm3 a).
  Definition dist3 (a b : V3) : num := norm3 (sub3 a b).
  Definition cross3 (a b : V3) : V3 :=
    mk3 (y3 a * z3 b - z3 a * y3 b) (z3 a * x3 b - x3 a * z3 b) (x3 a * y3 b - y3 a * x3 b).
  Definition lerp3 (a b : V3) (f : num) : V3 := add3 a (scale3 (sub3 b a) f).
End Vec.
