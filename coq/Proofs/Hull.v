(* C15: the farthest pair is a pair of maximal distance over all pairs of hull vertices; the order-direction vote is
   counter-clockwise exactly for hull index lists that ascend cyclically and clockwise for those that descend cyclically. *)
From Coq Require Import ZArith Reals Lra Lia List Bool Arith Sorted.
From Flocq Require Import Core.Raux.
From EG Require Import Num.Num Num.RNum Lib.Vec Model.Types Model.Hull Proofs.VecR.
Import ListNotations.
Local Open Scope R_scope.

Notation V := (@V2 RNum).
Notation D a b := (@dist2 RNum a b).

(* ---- farthest pair ---- *)
Section Far.
  Variable pts : list V.
  Notation P k := (nth k pts ((0, 0) : V)).

  Definition best_ok (best : R * (nat * nat)) : Prop := fst best = D (P (fst (snd best))) (P (snd (snd best))).

  Lemma far_inner_spec : forall rest pi i j best, best_ok best -> pi = P i ->
    (forall q, (q < length rest)%nat -> nth q rest ((0, 0) : V) = P (j + q)) ->
    best_ok (@far_inner RNum pi i j rest best) /\ fst best <= fst (@far_inner RNum pi i j rest best) /\
    forall q, (q < length rest)%nat -> D (P i) (P (j + q)) <= fst (@far_inner RNum pi i j rest best).
  Proof.
    induction rest as [|pj rest IH]; intros pi i j best Hb Hpi Hn; cbn [far_inner].
    - split; [exact Hb|]. split; [apply Rle_refl|]. intros q Hq. cbn in Hq. lia.
    - cbn [nltb RNum]. set (d := D pi pj).
      assert (Epj : pj = P j) by (pose proof (Hn 0%nat ltac:(cbn; lia)) as H0; cbn [nth] in H0; rewrite Nat.add_0_r in H0; exact H0).
      set (best' := if Rlt_bool (fst best) d then (d, (i, j)) else best).
      assert (Hb' : best_ok best' /\ fst best <= fst best' /\ d <= fst best').
      { unfold best'. change (@num RNum) with R in *. destruct (Rlt_bool (fst best) d) eqn:E; rbool.
        - split; [unfold best_ok; cbn [fst snd]; unfold d; rewrite Hpi, Epj; reflexivity|]. cbn [fst]. split; lra.
        - split; [exact Hb|]. split; lra. }
      destruct Hb' as (B1 & B2 & B3).
      destruct (IH pi i (S j) best' B1 Hpi) as (R1 & R2 & R3).
      { intros q Hq. pose proof (Hn (S q) ltac:(cbn; lia)) as Hq'. cbn [nth] in Hq'. rewrite Hq'. f_equal. lia. }
      split; [exact R1|]. split; [eapply Rle_trans; [exact B2 | exact R2]|].
      intros [|q] Hq.
      + rewrite Nat.add_0_r. unfold d in B3. rewrite Hpi, Epj in B3. eapply Rle_trans; [exact B3 | exact R2].
      + replace (j + S q)%nat with (S j + q)%nat by lia. apply R3. cbn in Hq. lia.
  Qed.

  Lemma far_outer_spec : forall l i best, best_ok best ->
    (forall q, (q < length l)%nat -> nth q l ((0, 0) : V) = P (i + q)) ->
    best_ok (@far_outer RNum i l best) /\ fst best <= fst (@far_outer RNum i l best) /\
    forall a b, (i <= a)%nat -> (a < b)%nat -> (b < i + length l)%nat -> D (P a) (P b) <= fst (@far_outer RNum i l best).
  Proof.
    induction l as [|pi rest IH]; intros i best Hb Hn; cbn [far_outer].
    - split; [exact Hb|]. split; [apply Rle_refl|]. intros a b Ha Hab Hbl. cbn in Hbl. lia.
    - assert (Epi : pi = P i) by (pose proof (Hn 0%nat ltac:(cbn; lia)) as H0; cbn [nth] in H0; rewrite Nat.add_0_r in H0; exact H0).
      destruct (far_inner_spec rest pi i (S i) best Hb Epi) as (I1 & I2 & I3).
      { intros q Hq. pose proof (Hn (S q) ltac:(cbn; lia)) as Hq'. cbn [nth] in Hq'. rewrite Hq'. f_equal. lia. }
      destruct (IH (S i) (@far_inner RNum pi i (S i) rest best) I1) as (R1 & R2 & R3).
      { intros q Hq. pose proof (Hn (S q) ltac:(cbn; lia)) as Hq'. cbn [nth] in Hq'. rewrite Hq'. f_equal. lia. }
      split; [exact R1|]. split; [eapply Rle_trans; [exact I2 | exact R2]|].
      intros a b Ha Hab Hbl. cbn [length] in Hbl.
      destruct (Nat.eq_dec a i) as [->|Hne].
      + replace b with (S i + (b - S i))%nat by lia. eapply Rle_trans; [apply (I3 (b - S i)%nat); lia | exact R2].
      + apply R3; lia.
  Qed.

  (* the reported pair realises the maximum over all pairs *)
  Theorem farthest_pair_max :
    let r := @farthest_pair RNum pts in
    forall a b, (a < b)%nat -> (b < length pts)%nat -> D (P a) (P b) <= D (P (fst r)) (P (snd r)).
  Proof.
    intros r a b Hab Hb. unfold r, farthest_pair.
    destruct (far_outer_spec pts 0%nat (0, (0%nat, 0%nat))) as (R1 & _ & R3).
    - unfold best_ok. cbn [fst snd]. destruct (P 0) as [x y]. vec_unfold. cbn [nsqrt nsub nmul nadd RNum].
      replace ((x - x) * (x - x) + (y - y) * (y - y)) with 0 by ring. symmetry. apply sqrt_0.
    - intros q _. reflexivity.
    - unfold best_ok in R1. change (@n0 RNum) with 0 in *.
      eapply Rle_trans; [apply (R3 a b); lia|]. right. exact R1.
  Qed.
End Far.

(* ---- order direction ---- *)
Lemma sgn_lt a b : (a < b)%nat -> sgn a b = 1%Z.
Proof. intros H. unfold sgn. apply Nat.ltb_lt in H. rewrite H. reflexivity. Qed.
Lemma sgn_gt a b : (b < a)%nat -> sgn a b = (-1)%Z.
Proof. intros H. unfold sgn. destruct (a <? b)%nat eqn:E; [apply Nat.ltb_lt in E; lia|]. apply Nat.ltb_lt in H. rewrite H. reflexivity. Qed.

Lemma chain_sum_app : forall a prev b, chain_sum prev (a ++ b) = (chain_sum prev a + chain_sum (last a prev) b)%Z.
Proof.
  induction a as [|x a IH]; intros prev b; cbn [app chain_sum last]; [lia|].
  rewrite IH. replace (match a with [] => x | _ :: _ => last a prev end) with (last a x); [lia|].
  destruct a as [|y a]; [reflexivity|]. clear. revert x y. induction a as [|z a IHa]; intros x y; [reflexivity|]. cbn [last] in *. apply (IHa x z).
Qed.

Lemma chain_sum_asc : forall l prev, StronglySorted lt (prev :: l) -> chain_sum prev l = Z.of_nat (length l).
Proof.
  induction l as [|x l IH]; intros prev H; [reflexivity|]. cbn [chain_sum length].
  apply StronglySorted_inv in H. destruct H as [Hs Hf]. rewrite IH by exact Hs.
  rewrite sgn_lt by (rewrite Forall_forall in Hf; apply Hf; left; reflexivity). lia.
Qed.
Lemma chain_sum_desc : forall l prev, StronglySorted gt (prev :: l) -> chain_sum prev l = (- Z.of_nat (length l))%Z.
Proof.
  induction l as [|x l IH]; intros prev H; [reflexivity|]. cbn [chain_sum length].
  apply StronglySorted_inv in H. destruct H as [Hs Hf]. rewrite IH by exact Hs.
  rewrite sgn_gt by (rewrite Forall_forall in Hf; apply Hf; left; reflexivity). lia.
Qed.

Lemma last_app_ne {A} (l1 l2 : list A) (d : A) : l2 <> [] -> last (l1 ++ l2) d = last l2 d.
Proof.
  intros H. induction l1 as [|a l1 IH]; [reflexivity|]. cbn [app]. destruct (l1 ++ l2) eqn:E; [destruct l1; [cbn in E; congruence | discriminate]|]. exact IH.
Qed.

Lemma sorted_last_in {A} (l : list A) (d : A) : l <> [] -> In (last l d) l.
Proof. induction l as [|a [|b l] IH]; intros H; [congruence | left; reflexivity|]. right. apply IH. discriminate. Qed.

Lemma sorted_app_all {A} (R : A -> A -> Prop) (l1 l2 : list A) : StronglySorted R (l1 ++ l2) ->
  StronglySorted R l1 /\ StronglySorted R l2 /\ forall a b, In a l1 -> In b l2 -> R a b.
Proof.
  induction l1 as [|x l1 IH]; cbn [app]; intros H; [split; [constructor|]; split; [exact H | intros a b []]|].
  apply StronglySorted_inv in H. destruct H as [Hs Hf]. destruct (IH Hs) as (S1 & S2 & S3).
  rewrite Forall_forall in Hf. split; [constructor; [exact S1 | rewrite Forall_forall; intros y Hy; apply Hf; apply in_or_app; left; exact Hy]|].
  split; [exact S2|]. intros a b [<- | Ha] Hb; [apply Hf; apply in_or_app; right; exact Hb | apply S3; assumption].
Qed.

(* a hull whose indices ascend cyclically (a rotation l2 ++ l1 of an increasing list l1 ++ l2) has vote h - 2 *)
Theorem order_sum_cyclic_asc (l1 l2 : list nat) : StronglySorted lt (l1 ++ l2) -> l2 <> [] ->
  order_sum (l2 ++ l1) = (Z.of_nat (length (l2 ++ l1)) - 2)%Z \/ length (l2 ++ l1) = 1%nat.
Proof.
  intros Hs Hne. destruct (sorted_app_all lt l1 l2 Hs) as (S1 & S2 & S12).
  destruct l2 as [|h r2]; [congruence|]. cbn [app order_sum].
  destruct l1 as [|x r1].
  - rewrite app_nil_r. rewrite chain_sum_asc by exact S2.
    destruct r2 as [|y r2']; [right; reflexivity|]. left.
    assert (Hl : (h < last (y :: r2') h)%nat).
    { apply StronglySorted_inv in S2. destruct S2 as [_ Hf]. rewrite Forall_forall in Hf. apply Hf. apply sorted_last_in. discriminate. }
    rewrite sgn_gt by exact Hl. cbn [length]. lia.
  - left. rewrite chain_sum_app. cbn [chain_sum]. rewrite chain_sum_asc by exact S2.
    assert (S1' : StronglySorted lt (x :: r1)) by exact S1. rewrite chain_sum_asc by exact S1'.
    assert (Hj : (x < last r2 h)%nat).
    { apply S12; [left; reflexivity|]. destruct r2 as [|y r2']; [left; reflexivity|]. right. apply sorted_last_in. discriminate. }
    rewrite sgn_gt by exact Hj.
    assert (Hw : (last (r2 ++ x :: r1) h < h)%nat).
    { rewrite last_app_ne by discriminate. apply S12; [|left; reflexivity]. apply sorted_last_in. discriminate. }
    rewrite sgn_lt by exact Hw. cbn [app length]. rewrite app_length. cbn [length]. lia.
Qed.

Theorem order_sum_cyclic_desc (l1 l2 : list nat) : StronglySorted gt (l1 ++ l2) -> l2 <> [] ->
  order_sum (l2 ++ l1) = (2 - Z.of_nat (length (l2 ++ l1)))%Z \/ length (l2 ++ l1) = 1%nat.
Proof.
  intros Hs Hne. destruct (sorted_app_all gt l1 l2 Hs) as (S1 & S2 & S12).
  destruct l2 as [|h r2]; [congruence|]. cbn [app order_sum].
  destruct l1 as [|x r1].
  - rewrite app_nil_r. rewrite chain_sum_desc by exact S2.
    destruct r2 as [|y r2']; [right; reflexivity|]. left.
    assert (Hl : (h > last (y :: r2') h)%nat).
    { apply StronglySorted_inv in S2. destruct S2 as [_ Hf]. rewrite Forall_forall in Hf. apply Hf. apply sorted_last_in. discriminate. }
    rewrite sgn_lt by lia. cbn [length]. lia.
  - left. rewrite chain_sum_app. cbn [chain_sum]. rewrite chain_sum_desc by exact S2.
    assert (S1' : StronglySorted gt (x :: r1)) by exact S1. rewrite chain_sum_desc by exact S1'.
    assert (Hj : (x > last r2 h)%nat).
    { apply S12; [left; reflexivity|]. destruct r2 as [|y r2']; [left; reflexivity|]. right. apply sorted_last_in. discriminate. }
    rewrite sgn_lt by lia.
    assert (Hw : (last (r2 ++ x :: r1) h > h)%nat).
    { rewrite last_app_ne by discriminate. apply S12; [|left; reflexivity]. apply sorted_last_in. discriminate. }
    rewrite sgn_gt by lia. cbn [app length]. rewrite app_length. cbn [length]. lia.
Qed.

(* the vote: counter-clockwise for hulls of three or more vertices whose indices ascend cyclically, clockwise when they descend *)
Theorem order_direction_spec (l1 l2 : list nat) : l2 <> [] -> (3 <= length (l2 ++ l1))%nat ->
  (StronglySorted lt (l1 ++ l2) -> order_ccw (l2 ++ l1) = true) /\
  (StronglySorted gt (l1 ++ l2) -> order_ccw (l2 ++ l1) = false).
Proof.
  intros Hne H3. unfold order_ccw. split; intros Hs.
  - destruct (order_sum_cyclic_asc l1 l2 Hs Hne) as [E | E]; [rewrite E; apply Z.ltb_lt; lia | lia].
  - destruct (order_sum_cyclic_desc l1 l2 Hs Hne) as [E | E]; [rewrite E; apply Z.ltb_ge; lia | lia].
Qed.
