(* C15: the brute-force specifications: radius query = exactly the points within the radius; nearest = a minimiser;
   the greedy Poisson-disk sweep keeps a subset, in order, pairwise farther apart than the radius, and every working
   position is within the radius of a kept one -- for every visiting order. *)
From Coq Require Import ZArith Reals Lra Lia List Bool Arith.
From Flocq Require Import Core.Raux.
From EG Require Import Num.Num Num.RNum Lib.Vec Model.Types Model.Curve Model.Closest Model.Spatial Proofs.VecR.
Import ListNotations.
Local Open Scope R_scope.

Ltac rn := cbn [nltb nleb neqb nadd nsub nmul ndiv nneg nabs nsqrt nmin nmax nofZ nlit RNum num] in *;
           change (@num RNum) with R in *; change (@n0 RNum) with 0 in *; change (@n1 RNum) with 1 in *.

Lemma filter_len_le {A} (f : A -> bool) (l : list A) : (length (filter f l) <= length l)%nat.
Proof. induction l as [|a l IH]; cbn; [lia|]. destruct (f a); cbn; lia. Qed.

Section Spec.
  Variable V : @VOps RNum.
  Notation P := (pt V).
  Hypothesis dsq_refl : forall a : P, dsq V a a = 0.
  Hypothesis dsq_sym : forall a b : P, dsq V a b = dsq V b a.

  Theorem within_iff (pts : list P) (q : P) (r : R) (i : nat) :
    In i (within_idx V pts q r) <-> (i < length pts)%nat /\ pdsq V pts q i <= r * r.
  Proof.
    unfold within_idx. rewrite filter_In, in_seq. rn. split.
    - intros [H1 H2]. rbool. split; [lia | exact H2].
    - intros [H1 H2]. split; [lia | apply Rleb_true; exact H2].
  Qed.

  Lemma nearest_fold (pts : list P) (q : P) : forall l best,
    (forall b, best = Some b -> forall i, In i l -> True) ->
    match fold_left (fun best i => match best with None => Some i | Some b => if Rlt_bool (pdsq V pts q i) (pdsq V pts q b) then Some i else best end) l best with
    | Some m => (best = Some m \/ In m l) /\ (forall i, In i l -> pdsq V pts q m <= pdsq V pts q i) /\
                (forall b, best = Some b -> pdsq V pts q m <= pdsq V pts q b)
    | None => best = None /\ l = []
    end.
  Proof.
    induction l as [|a l IH]; intros best _; cbn [fold_left].
    - destruct best as [b|]; [split; [left; reflexivity|]; split; [intros i []|intros b' E; inversion E; lra] | split; reflexivity].
    - set (best' := match best with None => Some a | Some b => if Rlt_bool (pdsq V pts q a) (pdsq V pts q b) then Some a else best end).
      specialize (IH best' (fun _ _ _ _ => I)).
      destruct (fold_left _ l best') as [m|].
      + destruct IH as (H1 & H2 & H3). split; [|split].
        * destruct H1 as [H1 | H1]; [|right; right; exact H1].
          unfold best' in H1. destruct best as [b|]; [|inversion H1; right; left; reflexivity].
          destruct (Rlt_bool (pdsq V pts q a) (pdsq V pts q b)); [inversion H1; right; left; reflexivity | left; exact H1].
        * intros i [<- | Hi]; [|apply H2; exact Hi].
          unfold best' in H3. destruct best as [b|].
          -- destruct (Rlt_bool (pdsq V pts q a) (pdsq V pts q b)) eqn:E; rbool; [apply H3; reflexivity | specialize (H3 b eq_refl); lra].
          -- apply H3. reflexivity.
        * intros b E. subst best. unfold best' in H3.
          destruct (Rlt_bool (pdsq V pts q a) (pdsq V pts q b)) eqn:E'; rbool; [specialize (H3 a eq_refl); lra | apply H3; reflexivity].
      + destruct IH as [H _]. unfold best' in H. destruct best as [b|]; [destruct (Rlt_bool _ _); discriminate | discriminate].
  Qed.

  (* nearest_one: an index whose distance is minimal over the whole set *)
  Theorem nearest_spec (pts : list P) (q : P) : pts <> [] ->
    exists m, nearest_idx V pts q = Some m /\ (m < length pts)%nat /\ forall i, (i < length pts)%nat -> pdsq V pts q m <= pdsq V pts q i.
  Proof.
    intros Hne. unfold nearest_idx. rn.
    pose proof (nearest_fold pts q (seq 0 (length pts)) None (fun _ _ _ _ => I)) as H.
    destruct (fold_left _ (seq 0 (length pts)) None) as [m|].
    - destruct H as (H1 & H2 & _). exists m. split; [reflexivity|].
      destruct H1 as [H1 | H1]; [discriminate|]. apply in_seq in H1. split; [lia|].
      intros i Hi. apply H2. apply in_seq. lia.
    - destruct H as [_ H]. destruct pts; [congruence | discriminate].
  Qed.

  (* ---- the greedy sweep ---- *)
  Variable wp : list P.
  Variable r : R.
  Definition W (m w : nat) : Prop := pdsq V wp (nth m wp (vzero V)) w <= r * r.

  Lemma W_refl m : W m m.
  Proof. unfold W, pdsq. rewrite dsq_refl. nra. Qed.
  Lemma W_sym a b : W a b -> W b a.
  Proof. unfold W, pdsq. rewrite dsq_sym. auto. Qed.

  Inductive separated : list nat -> Prop :=
  | sep_nil : separated []
  | sep_cons m l : (forall w, In w l -> ~ W m w) -> separated l -> separated (m :: l).

  Lemma filter_W_spec m rest w :
    In w (filter (fun w => negb (Rle_bool (pdsq V wp (nth m wp (vzero V)) w) (r * r))) rest) <-> In w rest /\ ~ W m w.
  Proof.
    rewrite filter_In. unfold W. split; intros [H1 H2]; (split; [exact H1|]).
    - apply negb_true_iff in H2. rbool. lra.
    - apply negb_true_iff. apply Rleb_false. lra.
  Qed.

  Theorem poisson_go_spec : forall fuel cands, (length cands < fuel)%nat ->
    let res := poisson_go V fuel wp r cands in
    incl res cands /\ separated res /\ forall w, In w cands -> exists k, In k res /\ W k w.
  Proof.
    induction fuel as [|fuel IH]; intros cands Hf; [lia|].
    cbn [poisson_go]. destruct cands as [|m rest]; cbn zeta.
    - split; [apply incl_refl|]. split; [constructor | intros w []].
    - rn. set (rest' := filter _ rest).
      assert (Hlen : (length rest' < fuel)%nat).
      { pose proof (filter_len_le (fun w => negb (Rle_bool (pdsq V wp (nth m wp (vzero V)) w) (r * r))) rest). unfold rest'. cbn [length] in Hf. lia. }
      destruct (IH rest' Hlen) as (I1 & I2 & I3). split; [|split].
      + intros x [<- | Hx]; [left; reflexivity|]. right. apply I1 in Hx. apply filter_W_spec in Hx. tauto.
      + constructor; [|exact I2]. intros w Hw. apply I1 in Hw. apply filter_W_spec in Hw. tauto.
      + intros w [<- | Hw]; [exists m; split; [left; reflexivity | apply W_refl]|].
        destruct (Rle_dec (pdsq V wp (nth m wp (vzero V)) w) (r * r)) as [Hin | Hout].
        * exists m. split; [left; reflexivity | exact Hin].
        * destruct (I3 w) as (k & Hk & HW); [apply filter_W_spec; split; [exact Hw | exact Hout]|].
          exists k. split; [right; exact Hk | exact HW].
  Qed.

  (* no two kept positions are within the radius of each other, in either order *)
  Theorem separated_pairwise l : separated l -> forall a b, In a l -> In b l -> a <> b -> NoDup l -> ~ W a b.
  Proof.
    induction 1 as [|m l Hm Hs IH]; intros a b Ha Hb Hab Hnd; [destruct Ha|].
    inversion Hnd; subst. destruct Ha as [<- | Ha], Hb as [<- | Hb].
    - congruence.
    - apply Hm. exact Hb.
    - intros Hw. apply W_sym in Hw. revert Hw. apply Hm. exact Ha.
    - apply IH; assumption.
  Qed.
End Spec.

Lemma dsq_refl2 (a : pt (@VO2 RNum)) : dsq (@VO2 RNum) a a = 0.
Proof. destruct a as [x y]. unfold dsq. cbn [VO2 vdot vsub pt]. vec_unfold. ring. Qed.
Lemma dsq_sym2 (a b : pt (@VO2 RNum)) : dsq (@VO2 RNum) a b = dsq (@VO2 RNum) b a.
Proof. destruct a as [x y], b as [u v]. unfold dsq. cbn [VO2 vdot vsub pt]. vec_unfold. ring. Qed.
Lemma dsq_refl3 (a : pt (@VO3 RNum)) : dsq (@VO3 RNum) a a = 0.
Proof. destruct a as [[x y] z]. unfold dsq. cbn [VO3 vdot vsub pt]. vec_unfold. ring. Qed.
Lemma dsq_sym3 (a b : pt (@VO3 RNum)) : dsq (@VO3 RNum) a b = dsq (@VO3 RNum) b a.
Proof. destruct a as [[x y] z], b as [[u v] w]. unfold dsq. cbn [VO3 vdot vsub pt]. vec_unfold. ring. Qed.
