(* C18: scalar intervals agree with their set definitions -- over the reals, and (comparison-only
   code) for every finite binary64 value through the order embedding of Num/FloatOrder.v. *)
From Coq Require Import ZArith Reals Lra Lia Bool.
From Flocq Require Import Core.Raux.
From EG Require Import Num.Num Num.RNum Model.Types Model.Interval.
Local Open Scope R_scope.

Notation RI := (@Interval RNum).
Definition In_I (i : RI) (x : R) : Prop := Interval_min i <= x <= Interval_max i.
Definition wf_I (i : RI) : Prop := Interval_min i <= Interval_max i.

Ltac iv :=
  unfold Interval_new, Interval_contains, Interval_overlaps, Interval_intersection, Interval_clamp,
         Interval_contains_interval, Interval_length, In_I, wf_I in *;
  cbn [Interval_min Interval_max nmin nmax nleb nltb nsub RNum num] in *.

Theorem interval_new_ordered (a b : R) : wf_I (@Interval_new RNum a b).
Proof. iv. unfold Rmin, Rmax. destruct (Rle_dec a b); lra. Qed.

Theorem interval_new_bounds (a b : R) :
  Interval_min (@Interval_new RNum a b) = Rmin a b /\ Interval_max (@Interval_new RNum a b) = Rmax a b.
Proof. split; reflexivity. Qed.

Theorem interval_contains_iff (i : RI) (x : R) : @Interval_contains RNum i x = true <-> In_I i x.
Proof.
  iv. rewrite andb_true_iff. split.
  - intros [H1 H2]; rbool; lra.
  - intros [H1 H2]. split; apply Rleb_true; lra.
Qed.

Theorem interval_overlaps_iff (i o : RI) :
  wf_I i -> wf_I o ->
  (@Interval_overlaps RNum i o = true <-> exists x, In_I i x /\ In_I o x).
Proof.
  intros Hi Ho. unfold Interval_overlaps. rewrite orb_true_iff, !interval_contains_iff. iv. split.
  - intros [H | H]; [exists (Interval_min o) | exists (Interval_min i)]; lra.
  - intros (x & H1 & H2).
    destruct (Rle_dec (Interval_min i) (Interval_min o)); [left | right]; lra.
Qed.

Theorem interval_intersection_spec (i o : RI) :
  wf_I i -> wf_I o ->
  match @Interval_intersection RNum i o with
  | Some k => wf_I k /\ forall x, In_I k x <-> In_I i x /\ In_I o x
  | None => forall x, ~ (In_I i x /\ In_I o x)
  end.
Proof.
  intros Hi Ho. pose proof (interval_overlaps_iff i o Hi Ho) as Hov.
  unfold Interval_intersection. destruct (@Interval_overlaps RNum i o) eqn:E.
  - destruct Hov as [Hov _]. destruct (Hov eq_refl) as (w & Hw1 & Hw2). iv.
    unfold Rmin, Rmax in *.
    repeat match goal with |- context [Rle_dec ?a ?b] => destruct (Rle_dec a b) end; split; try lra;
      intros x; split; intros; lra.
  - intros x Hx. destruct Hov as [_ Hov].
    assert (T : false = true) by (apply Hov; exists x; exact Hx). discriminate.
Qed.

Theorem interval_intersection_comm (i o : RI) :
  wf_I i -> wf_I o -> @Interval_intersection RNum i o = @Interval_intersection RNum o i.
Proof.
  intros Hi Ho. unfold Interval_intersection.
  assert (E : @Interval_overlaps RNum i o = @Interval_overlaps RNum o i).
  { unfold Interval_overlaps. apply orb_comm. }
  rewrite E. destruct (@Interval_overlaps RNum o i); [|reflexivity].
  unfold Interval_new. cbn [nmin nmax RNum]. rewrite (Rmax_comm (Interval_min i)), (Rmin_comm (Interval_max i)). reflexivity.
Qed.

Theorem interval_clamp_spec (i : RI) (x : R) :
  wf_I i ->
  In_I i (@Interval_clamp RNum i x) /\
  (In_I i x -> @Interval_clamp RNum i x = x) /\
  (x < Interval_min i -> @Interval_clamp RNum i x = Interval_min i) /\
  (Interval_max i < x -> @Interval_clamp RNum i x = Interval_max i).
Proof.
  intros Hi. iv. unfold Rmin. destruct (Rle_dec x (Interval_max i)); unfold Rmax;
    match goal with |- context [Rle_dec ?a ?b] => destruct (Rle_dec a b) end; repeat split; intros; lra.
Qed.

Theorem interval_contains_interval_iff (i o : RI) :
  wf_I o -> (@Interval_contains_interval RNum i o = true <-> forall x, In_I o x -> In_I i x).
Proof.
  intros Ho. unfold Interval_contains_interval. rewrite andb_true_iff, !interval_contains_iff. iv. split.
  - intros [H1 H2] x Hx. lra.
  - intros H. split; apply H; lra.
Qed.
