(* C20: soundness of the flattening certificate.  The per-run certificate checks, for every face, that the three edge
   lengths are kept and that the triangle is positively oriented before and after.  Here: that is the same as "one proper
   rigid motion of the plane maps the whole (edge-connected) mesh onto its layout" - the property's "i.e. the original shape
   up to a rigid motion". *)
From Coq Require Import ZArith Reals Lra Lia List Psatz.
From EG Require Import Num.Num Num.RNum Lib.Vec Proofs.VecR Model.Flatten.
Import ListNotations.
Local Open Scope R_scope.

Notation P2 := (@V2 RNum).

(* a proper rigid motion of the plane: rotation (cs, sn) with cs^2 + sn^2 = 1, then translation *)
Record motion := mkMotion { m_cs : R; m_sn : R; m_tx : R; m_ty : R }.
Definition proper (m : motion) : Prop := m_cs m * m_cs m + m_sn m * m_sn m = 1.
Definition move (m : motion) (p : P2) : P2 :=
  (m_cs m * fst p - m_sn m * snd p + m_tx m, m_sn m * fst p + m_cs m * snd p + m_ty m).

Definition orient2 (a b c : P2) : R := area2 a b c.

Lemma dist2_sq (a b : P2) : dist2 a b * dist2 a b = (fst a - fst b) * (fst a - fst b) + (snd a - snd b) * (snd a - snd b).
Proof. destruct a, b. vec_unfold. apply sqrt_sq_sum2. Qed.

Lemma dist2_eq_sq (a b c d : P2) : dist2 a b = dist2 c d ->
  (fst a - fst b) * (fst a - fst b) + (snd a - snd b) * (snd a - snd b)
  = (fst c - fst d) * (fst c - fst d) + (snd c - snd d) * (snd c - snd d).
Proof. intros H. rewrite <- !dist2_sq, H. reflexivity. Qed.

Lemma sumsq0 x y : x * x + y * y = 0 -> x = 0 /\ y = 0.
Proof. intros H. assert (0 <= x * x) by nra. assert (0 <= y * y) by nra. assert (x * x = 0) by lra. assert (y * y = 0) by lra.
  split; apply Rmult_integral in H2; apply Rmult_integral in H3; tauto. Qed.

(* a proper motion keeps distances and orientation *)
Lemma move_dist m a b : proper m -> dist2 (move m a) (move m b) = dist2 a b.
Proof.
  unfold proper. destruct m as [c s tx ty], a as [ax ay], b as [bx by_]. cbn [m_cs m_sn m_tx m_ty]. intros H.
  unfold move. cbn [m_cs m_sn m_tx m_ty fst snd]. vec_unfold. f_equal.
  replace ((c * ax - s * ay + tx - (c * bx - s * by_ + tx)) * (c * ax - s * ay + tx - (c * bx - s * by_ + tx)) +
           (s * ax + c * ay + ty - (s * bx + c * by_ + ty)) * (s * ax + c * ay + ty - (s * bx + c * by_ + ty)))
    with ((c * c + s * s) * ((ax - bx) * (ax - bx) + (ay - by_) * (ay - by_))) by ring.
  rewrite H. ring.
Qed.
Lemma move_orient m a b c : proper m -> orient2 (move m a) (move m b) (move m c) = orient2 a b c.
Proof.
  unfold proper, orient2, area2, move. destruct m as [cs s tx ty], a as [ax ay], b as [bx by_], c as [cx cy].
  cbn [m_cs m_sn m_tx m_ty fst snd nsub nmul RNum]. intros H.
  replace ((cs * bx - s * by_ + tx - (cs * ax - s * ay + tx)) * (s * cx + cs * cy + ty - (s * ax + cs * ay + ty)) -
           (s * bx + cs * by_ + ty - (s * ax + cs * ay + ty)) * (cs * cx - s * cy + tx - (cs * ax - s * ay + tx)))
    with ((cs * cs + s * s) * ((bx - ax) * (cy - ay) - (by_ - ay) * (cx - ax))) by ring.
  rewrite H. ring.
Qed.

(* the motion carrying the segment a->b onto a'->b' (equal lengths, a <> b) *)
Definition motion_of (a b a' b' : P2) : motion :=
  let ux := fst b - fst a in let uy := snd b - snd a in
  let vx := fst b' - fst a' in let vy := snd b' - snd a' in
  let n := ux * ux + uy * uy in
  let cs := (ux * vx + uy * vy) / n in let sn := (ux * vy - uy * vx) / n in
  mkMotion cs sn (fst a' - (cs * fst a - sn * snd a)) (snd a' - (sn * fst a + cs * snd a)).

Lemma motion_of_spec a b a' b' : a <> b -> dist2 a b = dist2 a' b' ->
  let m := motion_of a b a' b' in proper m /\ move m a = a' /\ move m b = b'.
Proof.
  intros Hab Hd. apply dist2_eq_sq in Hd.
  destruct a as [ax ay], b as [bx by_], a' as [px py], b' as [qx qy]. cbn [fst snd] in Hd.
  assert (Hn : (bx - ax) * (bx - ax) + (by_ - ay) * (by_ - ay) <> 0).
  { intros E. apply Hab. destruct (sumsq0 _ _ E). apply f_equal2; lra. }
  unfold motion_of, proper, move. cbv zeta. cbn [fst snd m_cs m_sn m_tx m_ty].
  set (n := (bx - ax) * (bx - ax) + (by_ - ay) * (by_ - ay)) in *.
  assert (Hd' : (qx - px) * (qx - px) + (qy - py) * (qy - py) = n) by (unfold n; lra).
  repeat split.
  - assert (E : ((bx - ax) * (qx - px) + (by_ - ay) * (qy - py)) / n * (((bx - ax) * (qx - px) + (by_ - ay) * (qy - py)) / n)
            + ((bx - ax) * (qy - py) - (by_ - ay) * (qx - px)) / n * (((bx - ax) * (qy - py) - (by_ - ay) * (qx - px)) / n)
            = (n * ((qx - px) * (qx - px) + (qy - py) * (qy - py))) / (n * n)).
    { unfold n. field. exact Hn. }
    rewrite E, Hd'. field. exact Hn.
  - apply f_equal2; ring.
  - apply f_equal2.
    + apply Rminus_diag_uniq.
      match goal with |- ?L - qx = 0 => replace (L - qx) with (((bx - ax) * (bx - ax) + (by_ - ay) * (by_ - ay) - n) * (qx - px) / n) by (field; exact Hn) end.
      unfold n. field. exact Hn.
    + apply Rminus_diag_uniq.
      match goal with |- ?L - qy = 0 => replace (L - qy) with (((bx - ax) * (bx - ax) + (by_ - ay) * (by_ - ay) - n) * (qy - py) / n) by (field; exact Hn) end.
      unfold n. field. exact Hn.
Qed.

(* a proper motion is determined by the images of two distinct points *)
Lemma motion_unique m1 m2 a b : proper m1 -> proper m2 -> a <> b ->
  move m1 a = move m2 a -> move m1 b = move m2 b -> forall p, move m1 p = move m2 p.
Proof.
  unfold proper, move. destruct m1 as [c1 s1 x1 y1], m2 as [c2 s2 x2 y2], a as [ax ay], b as [bx by_].
  cbn [m_cs m_sn m_tx m_ty fst snd]. intros H1 H2 Hab Ha Hb [px py]. cbn [fst snd].
  injection Ha as Ha1 Ha2. injection Hb as Hb1 Hb2.
  assert (Hn : (bx - ax) * (bx - ax) + (by_ - ay) * (by_ - ay) <> 0).
  { intros E. apply Hab. destruct (sumsq0 _ _ E). apply f_equal2; lra. }
  set (dc := c1 - c2). set (ds := s1 - s2).
  assert (E1 : dc * (bx - ax) - ds * (by_ - ay) = 0) by (unfold dc, ds; nra).
  assert (E2 : ds * (bx - ax) + dc * (by_ - ay) = 0) by (unfold dc, ds; nra).
  assert (Ec : dc * ((bx - ax) * (bx - ax) + (by_ - ay) * (by_ - ay)) = 0).
  { replace (dc * ((bx - ax) * (bx - ax) + (by_ - ay) * (by_ - ay)))
      with ((dc * (bx - ax) - ds * (by_ - ay)) * (bx - ax) + (ds * (bx - ax) + dc * (by_ - ay)) * (by_ - ay)) by ring.
    rewrite E1, E2. ring. }
  assert (Es : ds * ((bx - ax) * (bx - ax) + (by_ - ay) * (by_ - ay)) = 0).
  { replace (ds * ((bx - ax) * (bx - ax) + (by_ - ay) * (by_ - ay)))
      with ((ds * (bx - ax) + dc * (by_ - ay)) * (bx - ax) - (dc * (bx - ax) - ds * (by_ - ay)) * (by_ - ay)) by ring.
    rewrite E1, E2. ring. }
  assert (dc = 0) by (apply Rmult_integral in Ec; tauto).
  assert (ds = 0) by (apply Rmult_integral in Es; tauto).
  assert (c1 = c2) by (unfold dc in *; lra). assert (s1 = s2) by (unfold ds in *; lra). subst c2 s2.
  apply f_equal2; lra.
Qed.

(* one triangle: the three lengths and the orientation sign fix the third vertex *)
Lemma third_vertex m a b c c' : proper m -> a <> b ->
  dist2 a c = dist2 (move m a) c' -> dist2 b c = dist2 (move m b) c' ->
  0 < orient2 a b c -> 0 < orient2 (move m a) (move m b) c' -> move m c = c'.
Proof.
  intros Hm Hab Hac Hbc Ho Ho'.
  (* pull c' back: work with d = c' - move m c in the rotated frame *)
  rewrite <- (move_dist m a c Hm) in Hac. rewrite <- (move_dist m b c Hm) in Hbc.
  rewrite <- (move_orient m a b c Hm) in Ho.
  set (A := move m a) in *. set (B := move m b) in *. set (C := move m c) in *.
  assert (HAB : A <> B).
  { intros E. apply Hab. assert (Hd := move_dist m a b Hm). fold A B in Hd. rewrite E in Hd.
    assert (Hz : dist2 B B = 0). { destruct B as [r r0]. vec_unfold. replace ((r - r) * (r - r) + (r0 - r0) * (r0 - r0)) with 0 by ring. apply sqrt_0. }
    rewrite Hz in Hd. symmetry in Hd. assert (Hs := dist2_sq a b). rewrite Hd in Hs.
    destruct a as [a1 a2], b as [b1 b2]. cbn [fst snd] in Hs. replace (0 * 0) with 0 in Hs by ring. symmetry in Hs.
    destruct (sumsq0 _ _ Hs). apply f_equal2; lra. }
  apply dist2_eq_sq in Hac. apply dist2_eq_sq in Hbc. unfold orient2, area2 in Ho, Ho'.
  destruct A as [ax ay], B as [bx by_], C as [cx cy], c' as [dx dy].
  cbn [fst snd nsub nmul RNum] in *.
  assert (Hn : 0 < (bx - ax) * (bx - ax) + (by_ - ay) * (by_ - ay)).
  { assert (0 <= (bx - ax) * (bx - ax)) by apply sq_nonneg. assert (0 <= (by_ - ay) * (by_ - ay)) by apply sq_nonneg.
    destruct (Req_dec ((bx - ax) * (bx - ax) + (by_ - ay) * (by_ - ay)) 0) as [E|E]; [| lra].
    exfalso. apply HAB. destruct (sumsq0 _ _ E). apply f_equal2; lra. }
  (* dot and cross of (C - A) and (c' - A) against (B - A) agree *)
  set (ux := bx - ax) in *. set (uy := by_ - ay) in *.
  set (px := cx - ax). set (py := cy - ay). set (qx := dx - ax). set (qy := dy - ay).
  assert (Hlen : px * px + py * py = qx * qx + qy * qy) by (unfold px, py, qx, qy; lra).
  assert (Hdot : ux * px + uy * py = ux * qx + uy * qy) by (unfold px, py, qx, qy, ux, uy in *; lra).
  assert (Hc1 : 0 < ux * py - uy * px) by (unfold px, py, ux, uy in *; lra).
  assert (Hc2 : 0 < ux * qy - uy * qx) by (unfold qx, qy, ux, uy in *; lra).
  assert (Hcr : ux * py - uy * px = ux * qy - uy * qx).
  { assert (Hsq : (ux * py - uy * px) * (ux * py - uy * px) = (ux * qy - uy * qx) * (ux * qy - uy * qx)).
    { replace ((ux * py - uy * px) * (ux * py - uy * px)) with ((ux * ux + uy * uy) * (px * px + py * py) - (ux * px + uy * py) * (ux * px + uy * py)) by ring.
      replace ((ux * qy - uy * qx) * (ux * qy - uy * qx)) with ((ux * ux + uy * uy) * (qx * qx + qy * qy) - (ux * qx + uy * qy) * (ux * qx + uy * qy)) by ring.
      rewrite Hlen, Hdot. reflexivity. }
    nra. }
  assert (Ex : (ux * ux + uy * uy) * (px - qx) = 0).
  { replace ((ux * ux + uy * uy) * (px - qx)) with (ux * ((ux * px + uy * py) - (ux * qx + uy * qy)) - uy * ((ux * py - uy * px) - (ux * qy - uy * qx))) by ring.
    rewrite Hdot, Hcr. ring. }
  assert (Ey : (ux * ux + uy * uy) * (py - qy) = 0).
  { replace ((ux * ux + uy * uy) * (py - qy)) with (uy * ((ux * px + uy * py) - (ux * qx + uy * qy)) + ux * ((ux * py - uy * px) - (ux * qy - uy * qx))) by ring.
    rewrite Hdot, Hcr. ring. }
  assert (px = qx). { apply Rmult_integral in Ex. destruct Ex; [unfold ux, uy in *; lra | lra]. }
  assert (py = qy). { apply Rmult_integral in Ey. destruct Ey; [unfold ux, uy in *; lra | lra]. }
  unfold px, py, qx, qy in *. apply f_equal2; lra.
Qed.

Lemma orient_distinct a b c : 0 < orient2 a b c -> a <> b.
Proof.
  unfold orient2, area2. destruct a as [ax ay], b as [bx by_], c as [cx cy]. cbn [fst snd nsub nmul RNum].
  intros H E. injection E as -> ->. nra.
Qed.

Theorem triangle_congruent (a b c a' b' c' : P2) :
  dist2 a b = dist2 a' b' -> dist2 b c = dist2 b' c' -> dist2 a c = dist2 a' c' ->
  0 < orient2 a b c -> 0 < orient2 a' b' c' ->
  exists m, proper m /\ move m a = a' /\ move m b = b' /\ move m c = c'.
Proof.
  intros Hab Hbc Hac Ho Ho'. assert (Hne := orient_distinct _ _ _ Ho).
  destruct (motion_of_spec a b a' b' Hne Hab) as (Hp & Ha & Hb).
  exists (motion_of a b a' b'). repeat split; auto.
  apply (third_vertex _ a b); auto; rewrite ?Ha, ?Hb; auto.
Qed.

(* ---- the whole mesh ---- *)
Section Mesh.
  Variable src img : nat -> P2.             (* flat source coordinates and the layout, by vertex number *)
  Definition fverts (f : nat * nat * nat) : list nat := let '(i, j, k) := f in [i; j; k].
  Definition face_ok (f : nat * nat * nat) : Prop :=
    let '(i, j, k) := f in
    dist2 (src i) (src j) = dist2 (img i) (img j) /\ dist2 (src j) (src k) = dist2 (img j) (img k) /\
    dist2 (src i) (src k) = dist2 (img i) (img k) /\
    0 < orient2 (src i) (src j) (src k) /\ 0 < orient2 (img i) (img j) (img k).
  Definition maps_face (m : motion) (f : nat * nat * nat) : Prop := forall v, In v (fverts f) -> move m (src v) = img v.

  (* two faces with a common edge: two common vertices at different places *)
  Definition share_edge (f g : nat * nat * nat) : Prop :=
    exists u v, In u (fverts f) /\ In v (fverts f) /\ In u (fverts g) /\ In v (fverts g) /\ src u <> src v.
  Inductive econn (fs : list (nat * nat * nat)) (f : nat * nat * nat) : nat * nat * nat -> Prop :=
  | ec_refl : econn fs f f
  | ec_step g h : econn fs f g -> In h fs -> share_edge g h -> econn fs f h.

  Lemma face_motion f : face_ok f -> exists m, proper m /\ maps_face m f.
  Proof.
    destruct f as [[i j] k]. intros (H1 & H2 & H3 & H4 & H5).
    destruct (triangle_congruent _ _ _ _ _ _ H1 H2 H3 H4 H5) as (m & Hp & Ha & Hb & Hc).
    exists m. split; auto. intros v [<-|[<-|[<-|[]]]]; auto.
  Qed.

  Theorem mesh_congruent fs f0 : (forall f, In f fs -> face_ok f) -> In f0 fs ->
    exists m, proper m /\ forall g, econn fs f0 g -> maps_face m g.
  Proof.
    intros Hok Hin. destruct (face_motion f0 (Hok f0 Hin)) as (m & Hp & Hm).
    exists m. split; auto. intros g Hc. induction Hc as [| g h Hc IH Hh (u & v & Hu & Hv & Hu' & Hv' & Hne)]; auto.
    destruct (face_motion h (Hok h Hh)) as (m' & Hp' & Hm').
    intros w Hw. rewrite <- (Hm' w Hw).
    apply (motion_unique m m' (src u) (src v)); auto.
    - rewrite (IH u Hu), (Hm' u Hu'). reflexivity.
    - rewrite (IH v Hv), (Hm' v Hv'). reflexivity.
  Qed.

  (* and conversely a proper motion passes the certificate: nothing weaker would do *)
  Theorem motion_passes m f : proper m -> (forall v, In v (fverts f) -> img v = move m (src v)) ->
    (let '(i, j, k) := f in 0 < orient2 (src i) (src j) (src k)) -> face_ok f.
  Proof.
    destruct f as [[i j] k]. intros Hp Hm Ho. unfold face_ok.
    rewrite (Hm i), (Hm j), (Hm k) by (cbn; auto).
    rewrite !move_dist, move_orient by auto. auto.
  Qed.
End Mesh.
