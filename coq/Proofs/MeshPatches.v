(* C12: the patch decomposition is a partition of the faces, for every hash-iteration order. *)
From Coq Require Import ZArith List Bool Arith Lia Permutation.
From EG Require Import Model.MeshTopo Proofs.MeshLoops.
Import ListNotations.

Lemma remove_nat_in x l y : In y (remove_nat x l) <-> In y l /\ y <> x.
Proof.
  unfold remove_nat. rewrite filter_In. rewrite negb_true_iff, Nat.eqb_neq. tauto.
Qed.
Lemma remove_nat_nodup x l : NoDup l -> NoDup (remove_nat x l).
Proof. apply NoDup_filter. Qed.

Lemma fold_remove_in adj : forall rem y,
  In y (fold_left (fun r f => remove_nat f r) adj rem) <-> In y rem /\ ~ In y adj.
Proof.
  induction adj as [|a adj IH]; intros rem y; cbn.
  - tauto.
  - rewrite IH, remove_nat_in. intuition.
Qed.
Lemma fold_remove_nodup adj : forall rem, NoDup rem -> NoDup (fold_left (fun r f => remove_nat f r) adj rem).
Proof. induction adj; cbn; intros; auto. apply IHadj. apply remove_nat_nodup. assumption. Qed.

Lemma split_perm (rem adj : list nat) :
  NoDup rem -> NoDup adj -> incl adj rem ->
  Permutation rem (fold_left (fun r f => remove_nat f r) adj rem ++ adj).
Proof.
  intros Hr Ha Hi. apply NoDup_Permutation; [exact Hr | |].
  - apply nodup_app; [apply fold_remove_nodup; exact Hr | exact Ha |].
    intros x Hx. apply fold_remove_in in Hx. tauto.
  - intros x. rewrite in_app_iff, fold_remove_in. split.
    + intros Hx. destruct (in_dec Nat.eq_dec x adj); [right | left]; auto.
    + intros [[Hx _] | Hx]; [exact Hx | apply Hi; exact Hx].
Qed.

Lemma adjacent_spec faces rem k i :
  In i (adjacent_remaining faces rem k) <->
  i < length faces /\ In i rem /\ existsb (edge_eqb k) (face_keys (nth i faces (0, 0, 0))) = true.
Proof.
  unfold adjacent_remaining. rewrite filter_In, in_seq, andb_true_iff. split.
  - intros [H1 [H2 H3]]. split; [lia|]. split; [|exact H3].
    apply existsb_exists in H2. destruct H2 as (x & Hx & E). apply Nat.eqb_eq in E. subst. exact Hx.
  - intros (H1 & H2 & H3). split; [lia|]. split; [|exact H3].
    apply existsb_exists. exists i. split; [exact H2 | apply Nat.eqb_refl].
Qed.
Lemma adjacent_nodup faces rem k : NoDup (adjacent_remaining faces rem k).
Proof. unfold adjacent_remaining. apply NoDup_filter. apply seq_NoDup. Qed.

Lemma patch_edges_length f : length (patch_edges f) = 3.
Proof. destruct f as [[a b] c]. reflexivity. Qed.
Lemma flat_patch_edges_length faces adj :
  length (flat_map (fun f => patch_edges (nth f faces (0, 0, 0))) adj) = 3 * length adj.
Proof. induction adj; cbn; [reflexivity|]. rewrite app_length, patch_edges_length. lia. Qed.

Lemma fill_spec faces : forall fuel queue rem patch,
  NoDup rem -> length queue + 3 * length rem < fuel ->
  exists rem' patch',
    fill fuel faces queue rem patch = Some (rem', patch') /\ NoDup rem' /\ incl rem' rem /\
    Permutation (rem' ++ patch') (rem ++ patch).
Proof.
  induction fuel as [|fuel IH]; intros queue rem patch Hnd Hf; [lia|].
  cbn [fill]. destruct queue as [|e queue].
  - exists rem, patch. repeat split; auto. apply incl_refl.
  - set (adj := adjacent_remaining faces rem (edge_key e)).
    set (rem1 := fold_left (fun r f => remove_nat f r) adj rem).
    assert (Hadj : incl adj rem) by (intros x Hx; apply adjacent_spec in Hx; tauto).
    assert (Hsp : Permutation rem (rem1 ++ adj)) by (apply split_perm; [exact Hnd | apply adjacent_nodup | exact Hadj]).
    assert (Hlen : length rem = length rem1 + length adj).
    { rewrite (Permutation_length Hsp), app_length. reflexivity. }
    destruct (IH (rev (flat_map (fun f => patch_edges (nth f faces (0, 0, 0))) adj) ++ queue) rem1 (patch ++ adj))
      as (rem' & patch' & E & N & I & Pm).
    { apply fold_remove_nodup. exact Hnd. }
    { rewrite app_length, rev_length, flat_patch_edges_length. cbn in Hf. lia. }
    exists rem', patch'. split; [exact E|]. split; [exact N|]. split.
    + intros x Hx. apply I in Hx. apply fold_remove_in in Hx. tauto.
    + rewrite Pm. rewrite (Permutation_app_comm patch adj). rewrite app_assoc.
      apply Permutation_app_tail. symmetry. exact Hsp.
Qed.

Section WithOracle.
  Variable pick : list nat -> option nat.
  Hypothesis pick_in : forall l x, pick l = Some x -> In x l.
  Hypothesis pick_some : forall l, l <> [] -> pick l <> None.

  Lemma bounded_nodup_length (l : list nat) n : NoDup l -> (forall x, In x l -> x < n) -> length l <= n.
  Proof.
    intros Hn Hb. rewrite <- (seq_length n 0). apply NoDup_incl_length; [exact Hn|].
    intros x Hx. apply in_seq. specialize (Hb x Hx). lia.
  Qed.

  Lemma patches_loop_spec faces : forall fuel rem acc,
    NoDup rem -> (forall x, In x rem -> x < length faces) -> length rem < fuel ->
    exists result, patches_loop pick fuel faces rem acc = Some result /\
                   Permutation (concat result) (concat acc ++ rem) /\
                   (forall p, In p result -> In p acc \/ p <> []).
  Proof.
    induction fuel as [|fuel IH]; intros rem acc Hnd Hb Hf; [lia|].
    cbn [patches_loop]. destruct rem as [|r0 rem0] eqn:Er.
    - exists acc. rewrite app_nil_r. split; [reflexivity|]. split; [reflexivity | auto].
    - rewrite <- Er in *.
      destruct (pick rem) as [f|] eqn:Ep.
      2:{ exfalso. apply (pick_some rem); [rewrite Er; discriminate | exact Ep]. }
      apply pick_in in Ep.
      set (rem1 := remove_nat f rem).
      assert (N1 : NoDup rem1) by (apply remove_nat_nodup; exact Hnd).
      assert (P1 : Permutation rem (f :: rem1)).
      { apply NoDup_Permutation; [exact Hnd | |].
        - constructor; [|exact N1]. intros Hc. apply remove_nat_in in Hc. tauto.
        - intros x. cbn. unfold rem1. rewrite remove_nat_in. destruct (Nat.eq_dec x f) as [->|Hxf]; [tauto | intuition congruence]. }
      assert (L1 : length rem = S (length rem1)) by (rewrite (Permutation_length P1); reflexivity).
      assert (Hn : length rem <= length faces) by (apply bounded_nodup_length; assumption).
      destruct (fill_spec faces (4 * length faces + 4) (rev (patch_edges (nth f faces (0, 0, 0)))) rem1 [f] N1)
        as (rem2 & patch & E & N2 & I2 & Pm).
      { rewrite rev_length, patch_edges_length. lia. }
      rewrite E.
      assert (L2 : length rem2 <= length rem1) by (apply NoDup_incl_length; assumption).
      destruct (IH rem2 (acc ++ [patch]) N2) as (result & Er2 & Pr & Hne).
      { intros x Hx. apply Hb. apply I2 in Hx. apply remove_nat_in in Hx. tauto. }
      { lia. }
      exists result. split; [exact Er2|]. split.
      + rewrite Pr. rewrite concat_app. cbn [concat]. rewrite app_nil_r, <- app_assoc.
        apply Permutation_app_head. rewrite Permutation_app_comm. rewrite Pm. rewrite P1.
        rewrite Permutation_app_comm. reflexivity.
      + intros p Hp. apply Hne in Hp. destruct Hp as [Hp | Hp]; [|auto].
        apply in_app_or in Hp. destruct Hp as [Hp | [<- | []]]; [auto|]. right.
        intros ->. apply Permutation_length in Pm. rewrite !app_length in Pm. cbn in Pm. lia.
  Qed.

  (* every face index occurs in exactly one patch, exactly once, and no patch is empty *)
  Theorem patches_partition (faces : list face) :
    exists patches, compute_patch_indices pick faces = Some patches /\
                    Permutation (concat patches) (seq 0 (length faces)) /\
                    (forall p, In p patches -> p <> []).
  Proof.
    unfold compute_patch_indices.
    destruct (patches_loop_spec faces (S (length faces)) (seq 0 (length faces)) []) as (r & E & P & Hne).
    - apply seq_NoDup.
    - intros x Hx. apply in_seq in Hx. lia.
    - rewrite seq_length. lia.
    - exists r. split; [exact E|]. split; [exact P|]. intros p Hp. apply Hne in Hp. destruct Hp as [[] | Hp]; exact Hp.
  Qed.
End WithOracle.
