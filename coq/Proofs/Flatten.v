(* C20: area (barycentric) coordinates of a non-degenerate 2D triangle sum to one and reproduce the point; so
   UV -> (triangle, coordinates) -> UV is the identity, and coordinates -> UV -> coordinates as well. *)
From Coq Require Import ZArith Reals Lra Lia List.
From EG Require Import Num.Num Num.RNum Lib.Vec Model.Types Model.Flatten Proofs.VecR.
Local Open Scope R_scope.

Ltac rn := cbn [nltb nleb neqb nadd nsub nmul ndiv nneg nabs nsqrt nmin nmax nofZ nlit RNum num] in *;
           change (@num RNum) with R in *; change (@n0 RNum) with 0 in *; change (@n1 RNum) with 1 in *.
Notation V2R := (@V2 RNum).

Theorem bary_roundtrip (a b c p : V2R) : area2 a b c <> 0 ->
  let '(w0, w1, w2) := bary2 a b c p in w0 + w1 + w2 = 1 /\ uv_point a b c (w0, w1, w2) = p.
Proof.
  destruct a as [ax ay], b as [bx by_], c as [cx cy], p as [px py]. unfold bary2, uv_point, area2. vec_unfold. rn. intros H.
  split; [field; exact H | f_equal; field; exact H].
Qed.

Theorem bary_unique (a b c : V2R) (w0 w1 w2 : R) : area2 a b c <> 0 -> w0 + w1 + w2 = 1 ->
  bary2 a b c (uv_point a b c (w0, w1, w2)) = (w0, w1, w2).
Proof.
  destruct a as [ax ay], b as [bx by_], c as [cx cy]. unfold bary2, uv_point, area2. vec_unfold. rn. intros H Hs.
  assert (E : w2 = 1 - w0 - w1) by lra. subst w2. f_equal; [f_equal|]; field; exact H.
Qed.
