(* C14: selection steps are set algebra over a per-face predicate that does not depend on the
   evaluation order, the other selected faces, or the cache. *)
From Coq Require Import ZArith List Bool Arith Lia Permutation.
From EG Require Import Model.Select.
Import ListNotations.

Lemma mem_in x l : mem x l = true <-> In x l.
Proof.
  unfold mem. rewrite existsb_exists. split.
  - intros (y & Hy & E). apply Nat.eqb_eq in E. subst. exact Hy.
  - intros H. exists x. split; [exact H | apply Nat.eqb_refl].
Qed.
Lemma mem_false x l : mem x l = false <-> ~ In x l.
Proof. rewrite <- mem_in. destruct (mem x l); split; congruence. Qed.

Lemma insert_set_in x s y : In y (insert_set x s) <-> In y s \/ y = x.
Proof.
  unfold insert_set. destruct (mem x s) eqn:E.
  - apply mem_in in E. split; [auto | intros [H | ->]; assumption].
  - rewrite in_app_iff. cbn. intuition.
Qed.
Lemma remove_set_in x s y : In y (remove_set x s) <-> In y s /\ y <> x.
Proof. unfold remove_set. rewrite filter_In, negb_true_iff, Nat.eqb_neq. tauto. Qed.

Lemma fold_insert_in pass : forall s y,
  In y (fold_left (fun s i => insert_set i s) pass s) <-> In y s \/ In y pass.
Proof.
  induction pass as [|p pass IH]; intros s y; cbn; [tauto|].
  rewrite IH, insert_set_in. intuition.
Qed.
Lemma fold_remove_in pass : forall s y,
  In y (fold_left (fun s i => remove_set i s) pass s) <-> In y s /\ ~ In y pass.
Proof.
  induction pass as [|p pass IH]; intros s y; cbn; [tauto|].
  rewrite IH, remove_set_in. intuition.
Qed.

(* mutate_pass_list is set algebra with the pass list *)
Theorem mutate_pass_list_spec sel mode pass y :
  In y (mutate_pass_list sel mode pass) <->
  match mode with
  | OpAdd => In y sel \/ In y pass
  | OpRemove => In y sel /\ ~ In y pass
  | OpKeep => In y sel /\ In y pass
  end.
Proof.
  destruct mode; cbn.
  - apply fold_insert_in.
  - apply fold_remove_in.
  - rewrite filter_In, mem_in. tauto.
Qed.

Section Near.
  Variable nfaces : nat.
  Variable Nrm : Type.
  Variable tri : nat -> nat * nat * nat.
  Variable V : nat -> bool * option Nrm.
  Variable ang : nat -> Nrm -> bool.
  Variable has_angle_tol : bool.

  Notation near_check := (near_check Nrm V ang has_angle_tol).
  Notation face_pass := (face_pass Nrm tri V ang has_angle_tol).
  Notation filter_faces := (filter_faces Nrm tri V ang has_angle_tol).
  Notation pure_vertex := (pure_vertex Nrm V ang has_angle_tol).
  Notation pure_face := (pure_face Nrm tri V ang has_angle_tol).

  (* every cached entry is the vertex-only part of its vertex *)
  Definition cache_ok (c : cache Nrm) : Prop := forall v r, lookup Nrm c v = Some r -> r = V v.

  Lemma near_check_pure c v f :
    cache_ok c -> fst (near_check c v f) = pure_vertex v f /\ cache_ok (snd (near_check c v f)).
  Proof.
    intros Hc. unfold Select.near_check, Select.pure_vertex.
    destruct (lookup Nrm c v) as [r|] eqn:E.
    - rewrite (Hc v r E). cbn. auto.
    - cbn. split; [reflexivity|]. intros w r. cbn. destruct (Nat.eqb_spec v w) as [->|Hn].
      + intros H; inversion H; reflexivity.
      + apply Hc.
  Qed.

  Lemma face_pass_pure all_points c f :
    cache_ok c -> fst (face_pass all_points c f) = pure_face all_points f /\ cache_ok (snd (face_pass all_points c f)).
  Proof.
    intros Hc. unfold Select.face_pass, Select.pure_face. destruct (tri f) as [[v0 v1] v2].
    destruct (near_check_pure c v0 f Hc) as [E0 C0]. destruct (near_check c v0 f) as [b0 c0]. cbn [fst snd] in *.
    destruct (near_check_pure c0 v1 f C0) as [E1 C1]. destruct (near_check c0 v1 f) as [b1 c1]. cbn [fst snd] in *.
    destruct (near_check_pure c1 v2 f C1) as [E2 C2]. destruct (near_check c1 v2 f) as [b2 c2]. cbn [fst snd] in *.
    subst b0 b1 b2.
    destruct all_points, (pure_vertex v0 f), (pure_vertex v1 f); cbn; auto.
  Qed.

  Lemma filter_faces_pure all_points : forall l c,
    cache_ok c -> fst (filter_faces all_points c l) = filter (pure_face all_points) l.
  Proof.
    induction l as [|f l IH]; intros c Hc; cbn; [reflexivity|].
    destruct (face_pass_pure all_points c f Hc) as [E C]. destruct (face_pass all_points c f) as [b c1]. cbn [fst snd] in *.
    specialize (IH c1 C). destruct (filter_faces all_points c1 l) as [r c2]. cbn [fst] in *.
    subst b r. destruct (pure_face all_points f); reflexivity.
  Qed.

  (* near_mesh: for EVERY iteration order [ord] of the selection, the new selection is the set-algebra
     combination of the old one with the faces satisfying the cache-free criterion *)
  Theorem near_mesh_spec sel ord all_points mode y :
    (forall x, In x ord <-> In x sel) -> (forall x, In x sel -> x < nfaces) ->
    (In y (near_mesh nfaces Nrm tri V ang has_angle_tol sel ord all_points mode) <->
     match mode with
     | OpAdd => In y sel \/ (y < nfaces /\ pure_face all_points y = true)
     | OpRemove => In y sel /\ pure_face all_points y = false
     | OpKeep => In y sel /\ pure_face all_points y = true
     end).
  Proof.
    intros Hord Hb. unfold near_mesh. rewrite mutate_pass_list_spec.
    rewrite filter_faces_pure by (intros v r H; discriminate).
    destruct mode; cbn [to_check]; rewrite filter_In.
    - rewrite filter_In, in_seq, negb_true_iff, mem_false. split.
      + intros [H | [[H1 H2] H3]]; [auto | right; split; [lia | exact H3]].
      + intros [H | [H1 H2]]; [auto|]. destruct (in_dec Nat.eq_dec y sel); [auto|]. right. split; [split; [lia | assumption] | exact H2].
    - rewrite Hord. split.
      + intros [H1 H2]. split; [exact H1|]. destruct (pure_face all_points y); [exfalso; apply H2; auto | reflexivity].
      + intros [H1 H2]. split; [exact H1|]. rewrite H2. intros [_ H]; discriminate.
    - rewrite Hord. tauto.
  Qed.
End Near.

(* mutate with a pure predicate (facing) *)
Lemma mutate_add_in (pred : nat -> bool) : forall l s y,
  In y (fold_left (fun s i => if negb (mem i s) && pred i then s ++ [i] else s) l s) <->
  In y s \/ (In y l /\ pred y = true).
Proof.
  induction l as [|a l IH]; intros s y; cbn; [tauto|].
  rewrite IH. destruct (negb (mem a s) && pred a) eqn:E.
  - apply andb_true_iff in E. destruct E as [_ E]. rewrite in_app_iff. cbn. intuition; subst; auto.
  - split; [intuition|]. intros [H | [[<- | H] Hp]]; auto.
    rewrite Hp, andb_true_r, negb_false_iff in E. apply mem_in in E. auto.
Qed.

Theorem mutate_spec nfaces sel mode pred y :
  (forall x, In x sel -> x < nfaces) ->
  (In y (mutate nfaces sel mode pred) <->
   match mode with
   | OpAdd => In y sel \/ (y < nfaces /\ pred y = true)
   | OpRemove => In y sel /\ pred y = false
   | OpKeep => In y sel /\ pred y = true
   end).
Proof.
  intros Hb. destruct mode; cbn [mutate].
  - rewrite mutate_add_in, in_seq. intuition lia.
  - rewrite filter_In, negb_true_iff. tauto.
  - rewrite filter_In. tauto.
Qed.

(* ---- create_from_indices ---- *)
Lemma insert_sorted_in x l y : In y (insert_sorted x l) <-> y = x \/ In y l.
Proof.
  induction l as [|a l IH]; cbn [insert_sorted In]; [intuition|].
  destruct (x <? a); [cbn [In]; intuition|].
  destruct (Nat.eqb_spec x a) as [->|Hn]; cbn [In]; [intuition | rewrite IH; intuition].
Qed.

Lemma index_in_spec x l : forall i j, index_in x l i = Some j -> nth (j - i) l 0 = x /\ i <= j /\ j - i < length l.
Proof.
  induction l as [|a l IH]; cbn; intros i j H; [discriminate|].
  destruct (Nat.eqb_spec x a) as [->|Hn].
  - inversion H; subst. rewrite Nat.sub_diag. cbn. split; [reflexivity | lia].
  - apply IH in H. destruct H as (H1 & H2 & H3). replace (j - i) with (S (j - S i)) by lia. cbn.
    split; [exact H1 | lia].
Qed.
Lemma index_in_some x l i : In x l -> exists j, index_in x l i = Some j.
Proof.
  revert i; induction l as [|a l IH]; cbn; intros i H; [contradiction|].
  destruct (Nat.eqb_spec x a); [eauto|]. destruct H as [-> | H]; [congruence | apply IH; exact H].
Qed.

(* the remapped triangle refers to exactly the same old vertices, in the same order (winding kept) *)
Theorem remap_face_spec keep f t :
  remap_face keep f = Some t ->
  let '(a, b, c) := f in let '(x, y, z) := t in
  nth x keep 0 = a /\ nth y keep 0 = b /\ nth z keep 0 = c /\ x < length keep /\ y < length keep /\ z < length keep.
Proof.
  destruct f as [[a b] c]. unfold remap_face.
  destruct (index_in a keep 0) as [x|] eqn:Ea; [|discriminate].
  destruct (index_in b keep 0) as [y|] eqn:Eb; [|discriminate].
  destruct (index_in c keep 0) as [z|] eqn:Ec; [|discriminate].
  intros H; inversion H; subst.
  apply index_in_spec in Ea, Eb, Ec. rewrite Nat.sub_0_r in *. intuition.
Qed.

(* only used vertices are kept, and every used vertex is kept *)
Theorem unique_vertices_spec faces idx v :
  In v (unique_vertices faces idx) <->
  exists i, In i idx /\ let '(a, b, c) := nth i faces (0, 0, 0) in v = a \/ v = b \/ v = c.
Proof.
  unfold unique_vertices.
  assert (H : forall acc, In v (fold_left (fun acc i => let '(a, b, c) := nth i faces (0, 0, 0) in
                            insert_sorted c (insert_sorted b (insert_sorted a acc))) idx acc) <->
                         In v acc \/ exists i, In i idx /\ let '(a, b, c) := nth i faces (0, 0, 0) in v = a \/ v = b \/ v = c).
  { induction idx as [|i idx IH]; intros acc; cbn.
    - split; [auto | intros [H | (i & [] & _)]; exact H].
    - rewrite IH. destruct (nth i faces (0, 0, 0)) as [[a b] c] eqn:E. rewrite !insert_sorted_in. split.
      + intros [[-> | [-> | [-> | H]]] | (j & Hj & Hv)]; auto.
        * right. exists i. rewrite E. auto.
        * right. exists i. rewrite E. auto.
        * right. exists i. rewrite E. auto.
        * right. exists j. auto.
      + intros [H | (j & [<- | Hj] & Hv)]; auto.
        * rewrite E in Hv. destruct Hv as [-> | [-> | ->]]; auto.
        * right. exists j. auto. }
  rewrite H. cbn. split; [intros [[] | H']; exact H' | auto].
Qed.

(* create_from_indices never fails on valid selections and keeps one triangle per selected face *)
Theorem create_from_indices_total faces idx :
  exists keep tris, create_from_indices faces idx = Some (keep, tris) /\ length tris = length idx /\
    forall j, j < length idx ->
      remap_face keep (nth (nth j idx 0) faces (0, 0, 0)) = Some (nth j tris (0, 0, 0)).
Proof.
  unfold create_from_indices. set (keep := unique_vertices faces idx).
  assert (Hall : forall i, In i idx -> exists t, remap_face keep (nth i faces (0, 0, 0)) = Some t).
  { intros i Hi. destruct (nth i faces (0, 0, 0)) as [[a b] c] eqn:E. unfold remap_face.
    assert (Hin : forall v, v = a \/ v = b \/ v = c -> In v keep).
    { intros v Hv. apply unique_vertices_spec. exists i. rewrite E. auto. }
    destruct (index_in_some a keep 0 (Hin a (or_introl eq_refl))) as [x ->].
    destruct (index_in_some b keep 0 (Hin b (or_intror (or_introl eq_refl)))) as [y ->].
    destruct (index_in_some c keep 0 (Hin c (or_intror (or_intror eq_refl)))) as [z ->]. eauto. }
  clearbody keep. induction idx as [|i idx IH]; cbn.
  - exists keep, []. repeat split; auto. intros j Hj; lia.
  - destruct (Hall i (or_introl eq_refl)) as [t Et]. rewrite Et. cbn.
    destruct IH as (k & tris & E & L & Hn); [intros j Hj; apply Hall; right; exact Hj|].
    destruct (forallb _ (map _ idx)) eqn:Ef; [|discriminate]. inversion E; subst k tris.
    eexists _, _. split; [reflexivity|]. split; [cbn; rewrite L; reflexivity|].
    intros [|j] Hj; cbn; [exact Et | apply Hn; lia].
Qed.
