(* The binary-search specification (last_eq / count_below) only compares: on finite binary64 keys it takes
   exactly the branch it takes on the embedded real values.  Used by DiscreteDomain::index_of,
   Series1::interpolate and Curve::at_length (stored lengths and their ulp neighbours included). *)
From Coq Require Import ZArith Reals Bool List Arith.
From Flocq Require Import Core IEEE754.BinarySingleNaN IEEE754.PrimFloat.
From Coq Require Import Floats.
From EG Require Import Num.FloatOrder Model.TolMap.
Import ListNotations.

Theorem count_below_float (l : list PrimFloat.float) (x : PrimFloat.float) :
  Forall fin l -> fin x ->
  count_below PrimFloat.ltb l x = count_below Rlt_bool (map F2R' l) (F2R' x).
Proof.
  intros Hl Hx. induction Hl as [|a l Ha Hl IH]; [reflexivity|].
  cbn [count_below map]. rewrite (ltb_real a x Ha Hx). rewrite IH. reflexivity.
Qed.

Theorem last_eq_float (l : list PrimFloat.float) (x : PrimFloat.float) : forall i,
  Forall fin l -> fin x ->
  last_eq PrimFloat.ltb l x i = last_eq Rlt_bool (map F2R' l) (F2R' x) i.
Proof.
  intros i Hl Hx. revert i. induction Hl as [|a l Ha Hl IH]; intros i; [reflexivity|].
  cbn [last_eq map]. rewrite IH. rewrite (ltb_real a x Ha Hx), (ltb_real x a Hx Ha). reflexivity.
Qed.
