(* C12: index chaining terminates and consumes every index pair exactly once. *)
From Coq Require Import ZArith List Bool Arith Lia Permutation.
From EG Require Import Model.MeshTopo Proofs.MeshLoops.
Import ListNotations.

Lemma set_nth_perm (l : list nat) k x : k < length l ->
  Permutation (x :: l) (nth k l 0 :: set_nth l k x).
Proof.
  revert k; induction l as [|a l IH]; intros k Hk; cbn in Hk; [lia|].
  destruct k; cbn.
  - apply perm_swap.
  - rewrite perm_swap. rewrite (IH k) by lia. apply perm_swap.
Qed.

Lemma set_nth_app_l (l : list nat) y k x : k < length l -> set_nth (l ++ [y]) k x = set_nth l k x ++ [y].
Proof.
  revert k; induction l as [|a l IH]; intros k Hk; cbn in Hk; [lia|].
  destruct k; cbn; [reflexivity|]. f_equal. apply IH. lia.
Qed.

Lemma swap_remove_perm (l : list nat) k : k < length l ->
  Permutation l (nth k l 0 :: swap_remove l k).
Proof.
  intros Hk. destruct (exists_last (l := l)) as (l' & x & ->); [destruct l; [cbn in Hk; lia | discriminate]|].
  unfold swap_remove. rewrite rev_app_distr. cbn [rev app]. rewrite app_length in *. cbn [length] in *.
  destruct (Nat.eqb_spec k (length l' + 1 - 1)) as [E|NE].
  - rewrite removelast_last. replace k with (length l') by lia. rewrite nth_middle.
    apply Permutation_sym, Permutation_cons_append.
  - assert (Hk' : k < length l') by lia.
    rewrite set_nth_app_l by exact Hk'. rewrite removelast_last. rewrite app_nth1 by exact Hk'.
    rewrite <- (set_nth_perm l' k x Hk'). apply Permutation_sym, Permutation_cons_append.
Qed.

Lemma combine_seq_in (l : list nat) : forall s k i,
  In (k, i) (combine (seq s (length l)) l) -> s <= k < s + length l /\ nth (k - s) l 0 = i.
Proof.
  induction l as [|p ps IH]; cbn; intros s k i Hin; [contradiction|].
  destruct Hin as [Hin | Hin].
  - inversion Hin; subst. rewrite Nat.sub_diag. split; [lia | reflexivity].
  - apply IH in Hin. destruct Hin as [Hb Hn]. split; [lia|].
    replace (k - s) with (S (k - S s)) by lia. exact Hn.
Qed.

Lemma chain_candidates_spec pairs indices lastv fwd k i :
  chain_candidates pairs indices lastv fwd = Some (k, i) -> k < length pairs /\ nth k pairs 0 = i.
Proof.
  unfold chain_candidates.
  destruct (filter _ (combine (seq 0 (length pairs)) pairs)) as [|ki [|? ?]] eqn:E; try discriminate.
  intros H; inversion H; subst.
  assert (Hin : In (k, i) (combine (seq 0 (length pairs)) pairs)).
  { assert (H0 : In (k, i) [(k, i)]) by (left; reflexivity). rewrite <- E in H0. apply filter_In in H0. tauto. }
  apply combine_seq_in in Hin. rewrite Nat.sub_0_r in Hin. destruct Hin as [Hb Hn]. split; [lia | exact Hn].
Qed.

Lemma perm_move (P S U T : list nat) j :
  Permutation P (j :: S) -> Permutation (P ++ U) T -> Permutation (S ++ U ++ [j]) T.
Proof.
  intros H1 H2. rewrite <- H2. rewrite app_assoc.
  eapply Permutation_trans; [apply Permutation_sym, Permutation_cons_append|].
  change (j :: S ++ U) with ((j :: S) ++ U). apply Permutation_app_tail. apply Permutation_sym. exact H1.
Qed.

Definition mu (pairs working : list nat) (forward : bool) : nat :=
  3 * length pairs + match working with [] => 0 | _ => if forward then 2 else 1 end.

Lemma chain_loop_spec indices : forall fuel pairs working forward chains used,
  mu pairs working forward < fuel ->
  Permutation (pairs ++ used) (seq 0 (length indices)) ->
  exists chains' used', chain_loop fuel indices pairs working forward chains used = Some (chains', used') /\
                        Permutation used' (seq 0 (length indices)).
Proof.
  induction fuel as [|fuel IH]; intros pairs working forward chains used Hmu Hp; [lia|].
  cbn [chain_loop]. destruct pairs as [|p0 ps] eqn:Epairs.
  - eexists _, used. split; [reflexivity | exact Hp].
  - rewrite <- Epairs in *. assert (Hne : pairs <> []) by (rewrite Epairs; discriminate).
    assert (Hlen : 1 <= length pairs) by (rewrite Epairs; cbn; lia).
    destruct working as [|w0 ws] eqn:Ew.
    + (* start a new chain with the last pair *)
      pose proof (app_removelast_last 0 Hne) as Hsplit.
      set (i := last pairs 0) in *. set (pairs1 := removelast pairs) in *.
      assert (Hl1 : length pairs = S (length pairs1)) by (rewrite Hsplit at 1; rewrite app_length; cbn; lia).
      assert (Hp1 : Permutation (pairs1 ++ used ++ [i]) (seq 0 (length indices))).
      { rewrite <- Hp. replace (pairs ++ used) with ((pairs1 ++ [i]) ++ used) by (rewrite <- Hsplit; reflexivity).
        rewrite <- !app_assoc. apply Permutation_app_head. apply Permutation_app_comm. }
      cbv zeta. cbn [last]. 
      destruct (chain_candidates pairs1 indices (snd (nth i indices (0, 0))) true) as [[k j]|] eqn:Ec.
      * apply chain_candidates_spec in Ec. destruct Ec as [Hk Hj].
        pose proof (swap_remove_perm pairs1 k Hk) as Hs. rewrite Hj in Hs.
        apply IH.
        -- unfold mu in *. rewrite (Permutation_length Hs) in Hl1. cbn [length] in Hl1. cbn. lia.
        -- apply (perm_move pairs1 _ (used ++ [i]) _ j Hs Hp1).
      * apply IH; [unfold mu in *; cbn; lia | exact Hp1].
    + rewrite <- Ew in *. assert (Hw : working <> []) by (rewrite Ew; discriminate).
      destruct forward.
      * destruct (chain_candidates pairs indices (last working 0) true) as [[k j]|] eqn:Ec.
        -- apply chain_candidates_spec in Ec. destruct Ec as [Hk Hj].
           pose proof (swap_remove_perm pairs k Hk) as Hs. rewrite Hj in Hs.
           apply IH.
           ++ unfold mu in *. rewrite (Permutation_length Hs) in Hmu. cbn [length] in Hmu.
              destruct (working ++ [snd (nth j indices (0, 0))]) eqn:Ea; [destruct working; discriminate|].
              rewrite Ew in Hmu. lia.
           ++ eapply perm_move; [exact Hs | exact Hp].
        -- apply IH; [unfold mu in *; rewrite Ew in *; lia | exact Hp].
      * destruct (chain_candidates pairs indices (hd 0 working) false) as [[k j]|] eqn:Ec.
        -- apply chain_candidates_spec in Ec. destruct Ec as [Hk Hj].
           pose proof (swap_remove_perm pairs k Hk) as Hs. rewrite Hj in Hs.
           apply IH.
           ++ unfold mu in *. rewrite (Permutation_length Hs) in Hmu. cbn [length] in Hmu. rewrite Ew in Hmu. lia.
           ++ eapply perm_move; [exact Hs | exact Hp].
        -- apply IH; [unfold mu in *; rewrite Ew in *; cbn; lia | exact Hp].
Qed.

(* for every list of index pairs: chaining terminates and each pair index is consumed exactly once *)
Theorem chains_exactly_once (indices : list edge) :
  exists chains used, chained_indices_full indices = Some (chains, used) /\
                      Permutation used (seq 0 (length indices)).
Proof.
  unfold chained_indices_full. apply chain_loop_spec.
  - unfold mu. rewrite seq_length. cbn. lia.
  - rewrite app_nil_r. reflexivity.
Qed.
