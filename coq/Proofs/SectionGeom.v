(* C13: what a plane section and a plane split of one triangle are, independent of who computes them (parry does; the results
   are certified per case): the crossing point of an edge whose ends lie strictly on opposite sides is on the plane and inside
   the edge, and it is the only such point; cutting a triangle along the segment between two such crossing points conserves
   its area (corner piece + the two triangles of the remaining quadrilateral). *)
From Coq Require Import ZArith Reals Lra Lia List Psatz.
From EG Require Import Num.Num Num.RNum Lib.Vec Proofs.VecR Model.Types Model.Frames.
Import ListNotations.
Local Open Scope R_scope.

Notation P3 := (@V3 RNum).
Ltac req := match goal with |- @eq _ ?L ?R' => change (@eq R L R') end.

Definition cross_param (da db : R) : R := da / (da - db).
Definition cross_point (a b : P3) (da db : R) : P3 := lerp3 a b (cross_param da db).

Lemma plane_signed_lerp (pl : @plane RNum) (a b : P3) (t : R) :
  plane_signed pl (lerp3 a b t) = (1 - t) * plane_signed pl a + t * plane_signed pl b.
Proof. destruct pl as [[[nx ny] nz] d], a as [[ax ay] az], b as [[bx by_] bz]. unfold plane_signed. cbn [pn pd]. vec_unfold. req. ring. Qed.

Lemma cross_param_range (da db : R) : da * db < 0 -> da - db <> 0 /\ 0 < cross_param da db < 1.
Proof.
  intros H. assert (Hd : da - db <> 0) by nra. split; [exact Hd|].
  unfold cross_param. destruct (Rlt_dec 0 da) as [Hp | Hn].
  - assert (db < 0) by nra. split; [apply Rdiv_lt_0_compat; lra|]. apply Rmult_lt_reg_r with (da - db); [lra|].
    replace (da / (da - db) * (da - db)) with da by (field; lra). lra.
  - assert (da < 0) by nra. assert (0 < db) by nra. split.
    + replace (da / (da - db)) with ((- da) / (db - da)) by (field; lra). apply Rdiv_lt_0_compat; lra.
    + replace (da / (da - db)) with ((- da) / (db - da)) by (field; lra). apply Rmult_lt_reg_r with (db - da); [lra|].
      replace (- da / (db - da) * (db - da)) with (- da) by (field; lra). lra.
Qed.

Theorem crossing_point (pl : @plane RNum) (a b : P3) (da db : R) :
  da = plane_signed pl a -> db = plane_signed pl b -> da * db < 0 ->
  plane_signed pl (cross_point a b da db) = 0 /\ 0 < cross_param da db < 1 /\
  forall t, plane_signed pl (lerp3 a b t) = 0 -> t = cross_param da db.
Proof.
  intros Ea Eb H. destruct (cross_param_range da db H) as [Hd Hp].
  split; [|split; [exact Hp|]].
  - unfold cross_point. rewrite plane_signed_lerp, <- Ea, <- Eb. unfold cross_param. req. field. exact Hd.
  - intros t Ht. rewrite plane_signed_lerp, <- Ea, <- Eb in Ht. unfold cross_param.
    apply Rmult_eq_reg_r with (da - db); [|exact Hd]. replace (da / (da - db) * (da - db)) with da by (field; exact Hd).
    assert (Ht' : (1 - t) * da + t * db = 0) by exact Ht. lra.
Qed.

(* twice the vector area of a triangle *)
Definition varea (a b c : P3) : P3 := cross3 (sub3 b a) (sub3 c a).
Definition tri_area (a b c : P3) : R := norm3 (varea a b c) / 2.

Lemma norm3_scale (v : P3) (k : R) : 0 <= k -> norm3 (scale3 v k) = k * norm3 v.
Proof.
  intros Hk. destruct v as [[x y] z]. vec_unfold.
  replace (x * k * (x * k) + y * k * (y * k) + z * k * (z * k)) with (k * k * (x * x + y * y + z * z)) by ring.
  assert (H1 : 0 <= k * k) by apply sq_nonneg.
  assert (H2 : 0 <= x * x + y * y + z * z) by (pose proof (sq_nonneg x); pose proof (sq_nonneg y); pose proof (sq_nonneg z); lra).
  rewrite (sqrt_mult _ _ H1 H2). rewrite sqrt_square by exact Hk. reflexivity.
Qed.

(* x on the side a-b at parameter s, y on the side a-c at parameter t: the three pieces *)
Theorem split_triangle_area (a b c : P3) (s t : R) : 0 <= s <= 1 -> 0 <= t <= 1 ->
  let x := lerp3 a b s in let y := lerp3 a c t in
  tri_area a x y + tri_area x b c + tri_area x c y = tri_area a b c.
Proof.
  intros Hs Ht x y. unfold tri_area.
  assert (E1 : varea a x y = scale3 (varea a b c) (s * t)).
  { unfold x, y, varea. destruct a as [[ax ay] az], b as [[bx by_] bz], c as [[cx cy] cz]. vec_unfold. apply f_equal2; [apply f_equal2|]; req; ring. }
  assert (E2 : varea x b c = scale3 (varea a b c) (1 - s)).
  { unfold x, varea. destruct a as [[ax ay] az], b as [[bx by_] bz], c as [[cx cy] cz]. vec_unfold. apply f_equal2; [apply f_equal2|]; req; ring. }
  assert (E3 : varea x c y = scale3 (varea a b c) (s * (1 - t))).
  { unfold x, y, varea. destruct a as [[ax ay] az], b as [[bx by_] bz], c as [[cx cy] cz]. vec_unfold. apply f_equal2; [apply f_equal2|]; req; ring. }
  rewrite E1, E2, E3.
  rewrite (norm3_scale _ (s * t)) by (apply Rmult_le_pos; lra). rewrite (norm3_scale _ (1 - s)) by lra.
  rewrite (norm3_scale _ (s * (1 - t))) by (apply Rmult_le_pos; lra). lra.
Qed.
