(* C07: for every history of parameter updates the cached moved points are the points under the transform of the
   CURRENT parameters, the cached closest points are the closest points of those, and the reported residuals are the
   mode-specific distances between them: transform and residuals always describe the same state. *)
From Coq Require Import ZArith List Bool Arith.
From EG Require Import Num.Num Model.LsqProblem.
Import ListNotations.

Section Honest.
  Context {N : Num}.
  Variables X P S : Type.
  Variable tr : X -> P -> P.
  Variable cp : P -> S.
  Variable mdist : P -> S -> num.
  Variable pts : list P.

  Definition last_x (x0 : X) (h : list X) : X := last h x0.

  Lemma fold_set (h : list X) : forall s d, h <> [] ->
    fold_left (set_params X P S tr cp pts) h s = move_points X P S tr cp pts (last h d).
  Proof.
    induction h as [|x h IH]; intros s d Hne; [congruence|].
    cbn [fold_left]. destruct h as [|y h'].
    - reflexivity.
    - rewrite (IH _ d) by discriminate. reflexivity.
  Qed.

  Lemma run_is_move (x0 : X) (h : list X) : run X P S tr cp pts x0 h = move_points X P S tr cp pts (last_x x0 h).
  Proof.
    unfold run, last_x. destruct h as [|x h]; [reflexivity|]. apply fold_set. discriminate.
  Qed.

  Theorem cache_invariant (x0 : X) (h : list X) :
    let s := run X P S tr cp pts x0 h in
    st_x X P S s = last_x x0 h /\ st_moved X P S s = map (tr (last_x x0 h)) pts /\ st_closest X P S s = map cp (st_moved X P S s).
  Proof. intros s. unfold s. rewrite run_is_move. unfold move_points. cbn. auto. Qed.

  Lemma map_combine_self {A B C} (f : A -> B) (g : A -> B -> C) (l : list A) :
    map (fun pc => g (fst pc) (snd pc)) (combine l (map f l)) = map (fun a => g a (f a)) l.
  Proof. induction l as [|a l IH]; cbn; [reflexivity|]. f_equal. exact IH. Qed.

  (* the i-th residual is the distance between the i-th point moved by the current transform and its closest point *)
  Theorem residuals_honest (x0 : X) (h : list X) :
    let s := run X P S tr cp pts x0 h in
    residuals X P S mdist s = map (fun p => let m := tr (st_x X P S s) p in mdist m (cp m)) pts.
  Proof.
    intros s. unfold s. rewrite run_is_move. unfold residuals, move_points. cbn [st_moved st_closest st_x].
    rewrite map_combine_self. rewrite map_map. reflexivity.
  Qed.

  (* what is returned on success describes one state: the residuals are those of the returned transform *)
  Theorem result_consistent (x0 : X) (h : list X) :
    let '(t, res) := finish X P S tr mdist (run X P S tr cp pts x0 h) in
    res = map (fun p => mdist (t p) (cp (t p))) pts.
  Proof. unfold finish. apply residuals_honest. Qed.
End Honest.
