(* C12: proofs about the boundary walk of geom3/mesh/patches.rs (Model/PatchLoops.v). *)
From Coq Require Import List Arith Lia Permutation Bool.
From EG Require Import Model.PatchLoops.
Import ListNotations.

Lemma pe_snoc : forall r a x last, pe a (r ++ [x]) last = pe a r x ++ [(x, last)].
Proof. induction r as [|b r IH]; intros a x last; cbn [pe app]; [reflexivity|]. rewrite IH. reflexivity. Qed.
Lemma path_edges_snoc l x last : l <> [] -> path_edges (l ++ [x]) last = path_edges l x ++ [(x, last)].
Proof. destruct l as [|a r]; [contradiction|]. intros _. cbn [path_edges app]. apply pe_snoc. Qed.

(* ---- map facts ---- *)
Lemma lookup_in k v m : lookup k m = Some v -> In (k, v) m.
Proof. induction m as [|[a b] r IH]; cbn; [discriminate|]. destruct (a =? k) eqn:E; [apply Nat.eqb_eq in E; intros [= <-]; subst; auto | auto]. Qed.
Lemma in_keys_lookup k m : In k (keys m) -> exists v, lookup k m = Some v.
Proof. induction m as [|[a b] r IH]; cbn; [intros []|]. destruct (a =? k) eqn:E; [eauto|]. apply Nat.eqb_neq in E. intros [H | H]; [contradiction | auto]. Qed.
Lemma remove_perm k v m : lookup k m = Some v -> Permutation m ((k, v) :: remove k m).
Proof.
  induction m as [|[a b] r IH]; cbn; [discriminate|]. destruct (a =? k) eqn:E.
  - apply Nat.eqb_eq in E. intros [= <-]. subst. reflexivity.
  - intros H. rewrite perm_swap. apply perm_skip. auto.
Qed.
Lemma remove_length k v m : lookup k m = Some v -> length m = S (length (remove k m)).
Proof. intros H. apply remove_perm in H. apply Permutation_length in H. exact H. Qed.
Lemma remove_incl k m : incl (remove k m) m.
Proof. induction m as [|[a b] r IH]; cbn; [intros x []|]. destruct (a =? k); [intros x H; right; exact H | intros x [<- | H]; [left; reflexivity | right; auto]]. Qed.
Lemma keys_remove_in x k m : In x (keys (remove k m)) -> In x (keys m).
Proof. unfold keys. intros H. apply in_map_iff in H. destruct H as [p [E H]]. apply in_map_iff. exists p. split; [exact E | apply (remove_incl k m); exact H]. Qed.
Lemma vals_remove_in x k m : In x (vals (remove k m)) -> In x (vals m).
Proof. unfold vals. intros H. apply in_map_iff in H. destruct H as [p [E H]]. apply in_map_iff. exists p. split; [exact E | apply (remove_incl k m); exact H]. Qed.
Lemma nodup_keys_remove k m : NoDup (keys m) -> NoDup (keys (remove k m)).
Proof.
  induction m as [|[a b] r IH]; cbn; [auto|]. intros H. inversion H as [|? ? Hn Hr]; subst. destruct (a =? k); [exact Hr|].
  cbn. constructor; [intros Hin; apply Hn; apply (keys_remove_in a k r); exact Hin | auto].
Qed.
Lemma nodup_vals_remove k m : NoDup (vals m) -> NoDup (vals (remove k m)).
Proof.
  induction m as [|[a b] r IH]; cbn; [auto|]. intros H. inversion H as [|? ? Hn Hr]; subst. destruct (a =? k); [exact Hr|].
  cbn. constructor; [intros Hin; apply Hn; apply (vals_remove_in b k r); exact Hin | auto].
Qed.
Lemma key_removed k m : NoDup (keys m) -> ~ In k (keys (remove k m)).
Proof.
  induction m as [|[a b] r IH]; cbn; [auto|]. intros H. inversion H as [|? ? Hn Hr]; subst. destruct (a =? k) eqn:E.
  - apply Nat.eqb_eq in E. subst. exact Hn.
  - apply Nat.eqb_neq in E. cbn. intros [H1 | H1]; [contradiction | exact (IH Hr H1)].
Qed.
Lemma key_kept x k m : x <> k -> In x (keys m) -> In x (keys (remove k m)).
Proof.
  induction m as [|[a b] r IH]; cbn; [auto|]. intros Hne [H | H].
  - subst a. destruct (x =? k) eqn:E; [apply Nat.eqb_eq in E; contradiction | cbn; auto].
  - destruct (a =? k); [exact H | cbn; right; auto].
Qed.
Lemma val_removed k v m : NoDup (vals m) -> lookup k m = Some v -> ~ In v (vals (remove k m)).
Proof.
  induction m as [|[a b] r IH]; cbn; [discriminate|]. intros H. inversion H as [|? ? Hn Hr]; subst. destruct (a =? k) eqn:E.
  - intros [= <-]. exact Hn.
  - intros Hl. cbn. intros [H1 | H1]; [subst b; apply Hn; apply lookup_in in Hl; apply (in_map snd) in Hl; exact Hl | exact (IH Hr Hl H1)].
Qed.
Lemma lookup_val k v m : lookup k m = Some v -> In v (vals m).
Proof. intros H. apply lookup_in in H. apply (in_map snd) in H. exact H. Qed.

(* ---- the walk ---- *)
(* a disjoint union of directed cycles: every vertex has one successor, no two vertices share a successor, every successor is a vertex *)
Definition cycles_map (m : omap) : Prop := NoDup (keys m) /\ NoDup (vals m) /\ incl (vals m) (keys m).

(* state of a walk in progress: the loop from [start] is open, [next] is the vertex to visit *)
Definition walking (start next : nat) (m : omap) : Prop :=
  NoDup (keys m) /\ NoDup (vals m) /\ ~ In start (keys m) /\
  (forall v, In v (vals m) -> v = start \/ In v (keys m)) /\
  (next = start \/ In next (keys m)) /\ ~ In next (vals m).

Lemma follow_spec : forall fuel start next m acc m0,
  (length m < fuel)%nat -> acc <> [] -> walking start next m ->
  Permutation (path_edges acc next ++ m) m0 ->
  exists seq m', follow fuel start next m acc = Some (seq, m') /\ cycles_map m' /\
                 Permutation (path_edges seq start ++ m') m0 /\ (length m' <= length m)%nat /\ hd 0 seq = hd 0 acc.
Proof.
  induction fuel as [|fuel IH]; intros start next m acc m0 Hf Hacc (K & V & S0 & C & D & E) P; [lia|].
  cbn [follow]. destruct (next =? start) eqn:Ens.
  - apply Nat.eqb_eq in Ens. subst next. exists acc, m. split; [reflexivity|]. split; [|split; [exact P | split; [lia | reflexivity]]].
    split; [exact K|]. split; [exact V|]. intros v Hv. destruct (C v Hv) as [-> | H]; [contradiction | exact H].
  - apply Nat.eqb_neq in Ens. destruct D as [D | D]; [contradiction|].
    destruct (in_keys_lookup next m D) as [n' Hl]. rewrite Hl.
    destruct (IH start n' (remove next m) (acc ++ [next]) m0) as (seq & m' & E1 & E2 & E3 & E4 & E5).
    + rewrite (remove_length _ _ _ Hl) in Hf. lia.
    + destruct acc; discriminate.
    + split; [apply nodup_keys_remove; exact K|]. split; [apply nodup_vals_remove; exact V|].
      split; [intros H; apply S0; apply (keys_remove_in _ _ _ H)|].
      split; [intros v Hv; pose proof (vals_remove_in _ _ _ Hv) as Hv'; destruct (C v Hv') as [-> | H]; [left; reflexivity|];
              right; apply key_kept; [intros ->; contradiction | exact H]|].
      split; [|apply (val_removed next n' m V Hl)].
      pose proof (lookup_val _ _ _ Hl) as Hn. destruct (C n' Hn) as [-> | H]; [left; reflexivity|].
      right. apply key_kept; [intros ->; contradiction | exact H].
    + rewrite path_edges_snoc by exact Hacc. rewrite <- app_assoc. cbn [app].
      eapply Permutation_trans; [|exact P]. apply Permutation_app_head. symmetry. apply remove_perm. exact Hl.
    + exists seq, m'. split; [exact E1|]. split; [exact E2|]. split; [exact E3|]. split.
      * pose proof (remove_length _ _ _ Hl). lia.
      * rewrite E5. destruct acc; [contradiction | reflexivity].
Qed.

Lemma take_one_spec (pick : omap -> option nat) (m : omap) (start : nat) :
  cycles_map m -> pick m = Some start -> In start (keys m) ->
  exists seq m', take_one pick m = Some (seq, m') /\ cycles_map m' /\
                 Permutation (cyc_edges seq ++ m') m /\ (length m' < length m)%nat.
Proof.
  intros (K & V & I) Hp Hin. unfold take_one. rewrite Hp. destruct (in_keys_lookup start m Hin) as [nx Hl]. rewrite Hl.
  destruct (follow_spec (S (length m)) start nx (remove start m) [start] m) as (seq & m' & E1 & E2 & E3 & E4 & E5).
  - rewrite (remove_length _ _ _ Hl). lia.
  - discriminate.
  - split; [apply nodup_keys_remove; exact K|]. split; [apply nodup_vals_remove; exact V|].
    split; [apply key_removed; exact K|].
    split; [intros v Hv; pose proof (I v (vals_remove_in _ _ _ Hv)) as Hk; destruct (Nat.eq_dec v start) as [-> | Hne]; [left; reflexivity | right; apply key_kept; assumption]|].
    split; [|apply (val_removed start nx m V Hl)].
    pose proof (I nx (lookup_val _ _ _ Hl)) as Hk. destruct (Nat.eq_dec nx start) as [-> | Hne]; [left; reflexivity | right; apply key_kept; assumption].
  - cbn [path_edges pe app]. symmetry. apply remove_perm. exact Hl.
  - exists seq, m'. split; [exact E1|]. split; [exact E2|]. split.
    + destruct seq as [|a r]; [cbn in E5; cbn [cyc_edges]|].
      * (* an empty sequence cannot come back: the accumulator starts non-empty and only grows *) cbn [path_edges app] in E3.
        exfalso. assert (Hlen := Permutation_length E3). pose proof (remove_length _ _ _ Hl). lia.
      * cbn [hd] in E5. subst a. exact E3.
    + pose proof (remove_length _ _ _ Hl). lia.
Qed.

(* the pick: any key of a non-empty map (the first key in hash order) *)
Definition fair_pick (pick : omap -> option nat) : Prop :=
  forall m, match pick m with Some k => In k (keys m) | None => m = [] end.

Theorem all_loops_spec (pick : omap -> option nat) : fair_pick pick -> forall fuel m,
  (length m < fuel)%nat -> cycles_map m ->
  Permutation (flat_map cyc_edges (all_loops fuel pick m)) m.
Proof.
  intros Hp. induction fuel as [|fuel IH]; intros m Hf Hc; [lia|].
  cbn [all_loops]. pose proof (Hp m) as Hpm. destruct (pick m) as [start|] eqn:Ep.
  - destruct (take_one_spec pick m start Hc Ep Hpm) as (seq & m' & E1 & E2 & E3 & E4). rewrite E1. cbn [flat_map].
    eapply Permutation_trans; [|exact E3]. apply Permutation_app_head. apply IH; [lia | exact E2].
  - subst m. unfold take_one. rewrite Ep. reflexivity.
Qed.

(* every boundary edge exactly once, as closed cycles, whatever the hash order *)
Theorem boundary_loops_exactly_once (pick : omap -> option nat) (m : omap) : fair_pick pick -> cycles_map m ->
  Permutation (flat_map cyc_edges (boundary_loops_of pick m)) m.
Proof. intros Hp Hc. apply all_loops_spec; [exact Hp | lia | exact Hc]. Qed.

(* non-vacuity: two triangles' worth of boundary, picked from the back *)
Example two_cycles : cycles_map [(0, 1); (1, 2); (2, 0); (5, 7); (7, 6); (6, 5)].
Proof. unfold cycles_map. cbn. repeat split; try (repeat constructor; cbn; intuition lia). intros x H. cbn in *. intuition lia. Qed.
