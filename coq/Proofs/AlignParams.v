(* C08: rotation-centred parameters reproduce their isometry, keep inverse and moved centre consistent, translate
   rigidly under pure-translation parameter changes; the Euler derivative matrices are the derivatives of the
   rotation matrix; the analytic Jacobian rows are the derivatives of the residuals (Coquelicot is_derive). *)
From Coq Require Import ZArith Reals Lra Lia List Bool Arith Psatz Nsatz.
From Coquelicot Require Import Coquelicot.
From EG Require Import Num.Num Num.RNum Num.Atan2 Lib.Vec Model.Types Model.Rigid Model.AlignParams.
From EG Require Import Proofs.VecR Proofs.Atan2R.
Import ListNotations.
Local Open Scope R_scope.

Ltac rn := cbn [nltb nleb neqb nadd nsub nmul ndiv nneg nabs nsqrt nmin nmax nofZ nlit nsin ncos natan2 nasin npi RNum num] in *;
           change (@num RNum) with R in *; change (@n0 RNum) with 0 in *; change (@n1 RNum) with 1 in *; change (@n2 RNum) with 2 in *.
Ltac munfold := unfold from_euler, euler_m, mmul, mtrans, mcol, mrow, mvec, mk_m3, rot_x, rot_y, rot_z, P_X, P_Y, P_Z in *;
                cbn [rm_r rm_m rm_dx rm_dy rm_dz rm_rdx rm_rdy rm_rdz fst snd] in *; vec_unfold; rn.

Notation V2R := (@V2 RNum).
Notation V3R := (@V3 RNum).

(* ---------------------------------------------------------------- 2D *)
Lemma cos_sin_atan2 (c s : R) : c * c + s * s = 1 -> cos (atan2 s c) = c /\ sin (atan2 s c) = s.
Proof.
  intros H. destruct (atan2_polar s c) as [Hc Hs]. rewrite H, sqrt_1 in Hc, Hs. lra.
Qed.

(* from_initial reproduces the given isometry, wherever the rotation centre is *)
Theorem rc2_reproduces (T : @rigid2 RNum) (rc p : V2R) : r2c T * r2c T + r2s T * r2s T = 1 ->
  rc2_transform (rc2_from_initial T rc) p = apply2 T p.
Proof.
  intros H. destruct (cos_sin_atan2 _ _ H) as [Ec Es].
  destruct T as [c s [tx ty]], rc as [rx ry], p as [px py]. cbn [r2c r2s r2t] in *.
  unfold rc2_transform, rc2_from_initial, rc2_rot, apply2, rot2. cbn [rc2_rc rc2_x r2c r2s r2t]. vec_unfold. rn.
  rewrite Ec, Es. f_equal; ring.
Qed.

Theorem rc2_inverse_spec (s : @rc2 RNum) (p : V2R) :
  rc2_inverse s (rc2_transform s p) = p /\ rc2_transform s (rc2_inverse s p) = p.
Proof.
  destruct s as [[rx ry] [[x y] th]], p as [px py]. unfold rc2_inverse, rc2_transform, rc2_rot, rot2. cbn [rc2_rc rc2_x r2c r2s r2t]. vec_unfold. rn.
  pose proof (sin2_cos2 th) as H. unfold Rsqr in H. split; f_equal; nsatz.
Qed.

Theorem rc2_current_spec (s : @rc2 RNum) : rc2_current s = add2 (rc2_rc s) (x3 (rc2_x s), y3 (rc2_x s)).
Proof.
  destruct s as [[rx ry] [[x y] th]]. unfold rc2_current, rc2_transform, rc2_rot, rot2. cbn [rc2_rc rc2_x r2c r2s r2t]. vec_unfold. rn. f_equal; ring.
Qed.

(* a pure-translation parameter change translates by that vector *)
Theorem rc2_translation (s : @rc2 RNum) (a b : R) (p : V2R) :
  rc2_transform (rc2_set s (mk3 (x3 (rc2_x s) + a) (y3 (rc2_x s) + b) (z3 (rc2_x s)))) p = add2 (rc2_transform s p) (a, b).
Proof.
  destruct s as [[rx ry] [[x y] th]], p as [px py]. unfold rc2_transform, rc2_set, rc2_rot, rot2. cbn [rc2_rc rc2_x r2c r2s r2t]. vec_unfold. rn. f_equal; ring.
Qed.

(* the Jacobian row is the derivative of the residual sn . (T_x q - sp) in each parameter, where q is the point that
   the current parameters carry to p *)
Section Jac2.
  Variables (rc q sp sn : V2R) (x y th : R).
  Let st (x y th : R) : @rc2 RNum := @mkRc2 RNum rc (x, y, th).
  Definition res2 (x y th : R) : R := dot2 sn (sub2 (rc2_transform (st x y th) q) sp).
  Let p := rc2_transform (st x y th) q.
  Let J := point_surface_jacobian p sn (st x y th).

  Theorem jac2_dx : is_derive (fun t => res2 t y th) x (x3 J).
  Proof.
    unfold J, res2, point_surface_jacobian, st. destruct rc as [rx ry], q as [qx qy], sp as [sx sy], sn as [nx ny].
    unfold rc2_transform, rc2_rot, rot2. cbn [rc2_rc rc2_x r2c r2s r2t]. vec_unfold. rn.
    auto_derive; [exact I|]. ring.
  Qed.
  Theorem jac2_dy : is_derive (fun t => res2 x t th) y (y3 J).
  Proof.
    unfold J, res2, point_surface_jacobian, st. destruct rc as [rx ry], q as [qx qy], sp as [sx sy], sn as [nx ny].
    unfold rc2_transform, rc2_rot, rot2. cbn [rc2_rc rc2_x r2c r2s r2t]. vec_unfold. rn.
    auto_derive; [exact I|]. ring.
  Qed.
  Theorem jac2_dth : is_derive (fun t => res2 x y t) th (z3 J).
  Proof.
    unfold J, p, res2, point_surface_jacobian, rc2_current, st. destruct rc as [rx ry], q as [qx qy], sp as [sx sy], sn as [nx ny].
    unfold rc2_transform, rc2_rot, rot2. cbn [rc2_rc rc2_x r2c r2s r2t]. vec_unfold. rn.
    auto_derive; [exact I|]. ring.
  Qed.
End Jac2.

(* ---------------------------------------------------------------- 3D: Euler matrices *)
Definition m9 (a b c d e f g h i : R) : @M3 RNum := ((a, b, c), (d, e, f), (g, h, i)).
Definition ment (m : @M3 RNum) (i j : nat) : R :=
  let v := mrow m i in match j with O => x3 v | S O => y3 v | _ => z3 v end.

(* Rx(rx) * Ry(ry) * Rz(rz) written out *)
Definition euler_closed (rx ry rz : R) : @M3 RNum :=
  let cx := cos rx in let sx := sin rx in let cy := cos ry in let sy := sin ry in let cz := cos rz in let sz := sin rz in
  m9 (cy * cz) (- cy * sz) sy
     (cx * sz + sx * sy * cz) (cx * cz - sx * sy * sz) (- sx * cy)
     (sx * sz - cx * sy * cz) (sx * cz + cx * sy * sz) (cx * cy).
Definition dx_closed (rx ry rz : R) : @M3 RNum :=
  let m := euler_closed rx ry rz in
  m9 0 0 0 (- ment m 2 0) (- ment m 2 1) (- ment m 2 2) (ment m 1 0) (ment m 1 1) (ment m 1 2).
Definition dy_closed (rx ry rz : R) : @M3 RNum :=
  let m := euler_closed rx ry rz in let cz := cos rz in let sz := sin rz in
  m9 (- cz * ment m 0 2) (sz * ment m 0 2) (cz * ment m 0 0 - sz * ment m 0 1)
     (- cz * ment m 1 2) (sz * ment m 1 2) (cz * ment m 1 0 - sz * ment m 1 1)
     (- cz * ment m 2 2) (sz * ment m 2 2) (cz * ment m 2 0 - sz * ment m 2 1).
Definition dz_closed (rx ry rz : R) : @M3 RNum :=
  let m := euler_closed rx ry rz in
  m9 (ment m 0 1) (- ment m 0 0) 0 (ment m 1 1) (- ment m 1 0) 0 (ment m 2 1) (- ment m 2 0) 0.

Ltac mcbv := cbv [from_euler euler_m mmul mtrans mcol mrow mvec mk_m3 rot_x rot_y rot_z P_X P_Y P_Z
                  rm_r rm_m rm_dx rm_dy rm_dz rm_rdx rm_rdy rm_rdz euler_closed dx_closed dy_closed dz_closed m9 ment
                  dot3 mk3 x3 y3 z3 fst snd n0 n1 nofZ nadd nsub nmul nneg nsin ncos RNum].

Lemma euler_m_closed rx ry rz : @euler_m RNum rx ry rz = euler_closed rx ry rz.
Proof. mcbv. repeat (f_equal; try ring). Qed.
Lemma from_euler_m rx ry rz : rm_m (@from_euler RNum rx ry rz) = euler_closed rx ry rz.
Proof. mcbv. repeat (f_equal; try ring). Qed.
Lemma from_euler_dx rx ry rz : rm_dx (@from_euler RNum rx ry rz) = dx_closed rx ry rz.
Proof. mcbv. repeat (f_equal; try ring). Qed.
Lemma from_euler_dy rx ry rz : rm_dy (@from_euler RNum rx ry rz) = dy_closed rx ry rz.
Proof. mcbv. repeat (f_equal; try ring). Qed.
Lemma from_euler_dz rx ry rz : rm_dz (@from_euler RNum rx ry rz) = dz_closed rx ry rz.
Proof. mcbv. repeat (f_equal; try ring). Qed.

Ltac entries i j := destruct i as [|[|i]]; destruct j as [|[|j]]; mcbv.

(* the three derivative matrices are the entrywise derivatives of the rotation matrix in rx, ry, rz *)
Theorem euler_dx_is_derivative (rx ry rz : R) (i j : nat) :
  is_derive (fun t => ment (@euler_m RNum t ry rz) i j) rx (ment (rm_dx (@from_euler RNum rx ry rz)) i j).
Proof.
  rewrite from_euler_dx. eapply is_derive_ext; [intros t; rewrite euler_m_closed; reflexivity|].
  entries i j; (auto_derive; [exact I|]; ring).
Qed.
Theorem euler_dy_is_derivative (rx ry rz : R) (i j : nat) :
  is_derive (fun t => ment (@euler_m RNum rx t rz) i j) ry (ment (rm_dy (@from_euler RNum rx ry rz)) i j).
Proof.
  rewrite from_euler_dy. eapply is_derive_ext; [intros t; rewrite euler_m_closed; reflexivity|].
  pose proof (sin2_cos2 rz) as Hz. unfold Rsqr in Hz.
  entries i j; (auto_derive; [exact I|]); nsatz.
Qed.
Theorem euler_dz_is_derivative (rx ry rz : R) (i j : nat) :
  is_derive (fun t => ment (@euler_m RNum rx ry t) i j) rz (ment (rm_dz (@from_euler RNum rx ry rz)) i j).
Proof.
  rewrite from_euler_dz. eapply is_derive_ext; [intros t; rewrite euler_m_closed; reflexivity|].
  entries i j; (auto_derive; [exact I|]; ring).
Qed.

(* ---- orthogonality and rd = d * R^T ---- *)
Lemma euler_orthogonal rx ry rz (u : V3R) :
  mvec (mtrans (euler_closed rx ry rz)) (mvec (euler_closed rx ry rz) u) = u /\
  mvec (euler_closed rx ry rz) (mvec (mtrans (euler_closed rx ry rz)) u) = u.
Proof.
  pose proof (sin2_cos2 rx) as Hx. pose proof (sin2_cos2 ry) as Hy. pose proof (sin2_cos2 rz) as Hz. unfold Rsqr in *.
  destruct u as [[ux uy] uz]. mcbv. split; repeat (f_equal; try nsatz).
Qed.

(* generic: (d * m^T) (m u) = d u when m^T m = I *)
Lemma rd_generic (d m : @M3 RNum) (u : V3R) : (forall v, mvec (mtrans m) (mvec m v) = v) ->
  mvec (mmul d (mtrans m)) (mvec m u) = mvec d u.
Proof.
  intros H. rewrite <- (H u) at 2. generalize (mvec m u). intros w.
  destruct d as [[[[d00 d01] d02] [[d10 d11] d12]] [[d20 d21] d22]].
  destruct m as [[[[m00 m01] m02] [[m10 m11] m12]] [[m20 m21] m22]]. destruct w as [[wx wy] wz].
  cbv [mmul mtrans mcol mrow mvec dot3 mk3 x3 y3 z3 fst snd nadd nmul RNum]. repeat (f_equal; try ring).
Qed.

Theorem rd_spec rx ry rz (u : V3R) :
  let r := @from_euler RNum rx ry rz in
  mvec (rm_rdx r) (mvec (rm_m r) u) = mvec (rm_dx r) u /\
  mvec (rm_rdy r) (mvec (rm_m r) u) = mvec (rm_dy r) u /\
  mvec (rm_rdz r) (mvec (rm_m r) u) = mvec (rm_dz r) u.
Proof.
  intros r.
  assert (Ho : forall v, mvec (mtrans (rm_m r)) (mvec (rm_m r) v) = v).
  { intros v. unfold r. rewrite from_euler_m. apply euler_orthogonal. }
  repeat split; unfold r, from_euler; cbn [rm_rdx rm_rdy rm_rdz rm_dx rm_dy rm_dz rm_m]; apply rd_generic; exact Ho.
Qed.

(* ---- RcParams3 ---- *)
Theorem rc3_inverse_spec (s : @rc3 RNum) (x : V3R * V3R) (p : V3R) :
  let s' := rc3_set s x in rc3_inverse s' (rc3_transform s' p) = p /\ rc3_transform s' (rc3_inverse s' p) = p.
Proof.
  intros s'. unfold s'. clear s'. destruct s as [rc rcd xx rot]. destruct x as [t e].
  unfold rc3_set, rc3_inverse, rc3_transform. cbn [rc3_rc rc3_rcd rc3_x rc3_rot fst snd]. rewrite from_euler_m.
  set (M := euler_closed (x3 e) (y3 e) (z3 e)).
  split.
  - replace (sub3 (sub3 (add3 (add3 (mvec M (sub3 p rc)) t) rcd) rcd) t) with (mvec M (sub3 p rc)).
    + destruct (euler_orthogonal (x3 e) (y3 e) (z3 e) (sub3 p rc)) as [H _]. fold M in H. rewrite H.
      destruct p as [[px py] pz], rc as [[rx ry] rz]. vec_unfold. rn. repeat (f_equal; try ring).
    + generalize (mvec M (sub3 p rc)). intros w. destruct w as [[wx wy] wz], t as [[tx ty] tz], rcd as [[a b] c]. vec_unfold. rn. repeat (f_equal; try ring).
  - replace (sub3 (add3 (mvec (mtrans M) (sub3 (sub3 p rcd) t)) rc) rc) with (mvec (mtrans M) (sub3 (sub3 p rcd) t)).
    + destruct (euler_orthogonal (x3 e) (y3 e) (z3 e) (sub3 (sub3 p rcd) t)) as [_ H]. fold M in H. rewrite H.
      destruct p as [[px py] pz], t as [[tx ty] tz], rcd as [[a b] c]. vec_unfold. rn. repeat (f_equal; try ring).
    + generalize (mvec (mtrans M) (sub3 (sub3 p rcd) t)). intros w. destruct w as [[wx wy] wz], rc as [[rx ry] rz]. vec_unfold. rn. repeat (f_equal; try ring).
Qed.

(* a pure-translation parameter change translates by that vector, wherever the rotation centre is *)
Theorem rc3_translation (s : @rc3 RNum) (t e a p : V3R) :
  rc3_transform (rc3_set s (add3 t a, e)) p = add3 (rc3_transform (rc3_set s (t, e)) p) a.
Proof.
  unfold rc3_transform, rc3_set. cbn [rc3_rc rc3_rcd rc3_x rc3_rot fst snd].
  generalize (mvec (rm_m (from_euler (x3 e) (y3 e) (z3 e))) (sub3 p (rc3_rc s))). intros w.
  destruct w as [[wx wy] wz], t as [[tx ty] tz], a as [[ax ay] az]. generalize (rc3_rcd s). intros [[rx ry] rz].
  vec_unfold. rn. repeat (f_equal; try ring).
Qed.

(* ---- the 3D Jacobian rotation entries: derivative of n . (T_x q - c) in rx, ry, rz equals n . (rd_i (p - current_rc)) ---- *)
Section Jac3.
  Variables (rc rcd q cp n t : V3R) (rx ry rz : R).
  Definition st3 (rx ry rz : R) : @rc3 RNum := @mkRc3 RNum rc rcd (t, (rx, ry, rz)) (@from_euler RNum rx ry rz).
  Definition res3 (rx ry rz : R) : R := dot3 n (sub3 (rc3_transform (st3 rx ry rz) q) cp).
  Let p := rc3_transform (st3 rx ry rz) q.
  Let from_rc := sub3 p (rc3_current (st3 rx ry rz)).

  Lemma from_rc_is_rotated : from_rc = mvec (rm_m (@from_euler RNum rx ry rz)) (sub3 q rc).
  Proof.
    unfold from_rc, p, rc3_current, rc3_transform, st3. cbn [rc3_rc rc3_rcd rc3_x rc3_rot fst snd].
    set (M := rm_m _).
    assert (Hz : mvec M (sub3 rc rc) = (0, 0, 0)).
    { destruct rc as [[a b] c]. destruct M as [[[[m00 m01] m02] [[m10 m11] m12]] [[m20 m21] m22]].
      cbv [mvec mrow dot3 sub3 mk3 x3 y3 z3 fst snd nadd nsub nmul RNum]. repeat (f_equal; try ring). }
    rewrite Hz. generalize (mvec M (sub3 q rc)). intros [[wx wy] wz]. destruct t as [[tx ty] tz], rcd as [[a b] c].
    vec_unfold. rn. repeat (f_equal; try ring).
  Qed.

  Lemma res3_unfold a b c : res3 a b c = dot3 n (sub3 (add3 (add3 (mvec (euler_closed a b c) (sub3 q rc)) t) rcd) cp).
  Proof. unfold res3, rc3_transform, st3. cbn [rc3_rc rc3_rcd rc3_x rc3_rot fst snd]. rewrite from_euler_m. reflexivity. Qed.

  Theorem jac3_drx : is_derive (fun a => res3 a ry rz) rx (dot3 n (mvec (rm_rdx (@from_euler RNum rx ry rz)) from_rc)).
  Proof.
    rewrite from_rc_is_rotated. destruct (rd_spec rx ry rz (sub3 q rc)) as (E & _ & _). cbv zeta in E. rewrite E. rewrite from_euler_dx.
    eapply is_derive_ext; [intros a; symmetry; apply res3_unfold|].
    destruct rc as [[r0 r1] r2], rcd as [[d0 d1] d2], q as [[q0 q1] q2], cp as [[c0 c1] c2], n as [[n0' n1'] n2'], t as [[t0 t1] t2].
    mcbv. cbv [sub3 add3]. mcbv. auto_derive; [exact I|]. ring.
  Qed.
  Theorem jac3_dry : is_derive (fun b => res3 rx b rz) ry (dot3 n (mvec (rm_rdy (@from_euler RNum rx ry rz)) from_rc)).
  Proof.
    rewrite from_rc_is_rotated. destruct (rd_spec rx ry rz (sub3 q rc)) as (_ & E & _). cbv zeta in E. rewrite E. rewrite from_euler_dy.
    eapply is_derive_ext; [intros a; symmetry; apply res3_unfold|].
    pose proof (sin2_cos2 rz) as Hz. unfold Rsqr in Hz.
    destruct rc as [[r0 r1] r2], rcd as [[d0 d1] d2], q as [[q0 q1] q2], cp as [[c0 c1] c2], n as [[n0' n1'] n2'], t as [[t0 t1] t2].
    mcbv. cbv [sub3 add3]. mcbv. auto_derive; [exact I|]. nsatz.
  Qed.
  Theorem jac3_drz : is_derive (fun c => res3 rx ry c) rz (dot3 n (mvec (rm_rdz (@from_euler RNum rx ry rz)) from_rc)).
  Proof.
    rewrite from_rc_is_rotated. destruct (rd_spec rx ry rz (sub3 q rc)) as (_ & _ & E). cbv zeta in E. rewrite E. rewrite from_euler_dz.
    eapply is_derive_ext; [intros a; symmetry; apply res3_unfold|].
    destruct rc as [[r0 r1] r2], rcd as [[d0 d1] d2], q as [[q0 q1] q2], cp as [[c0 c1] c2], n as [[n0' n1'] n2'], t as [[t0 t1] t2].
    mcbv. cbv [sub3 add3]. mcbv. auto_derive; [exact I|]. ring.
  Qed.
End Jac3.
