(* Two-argument arctangent: range and the polar decomposition it is used for. *)
From Coq Require Import ZArith Reals Lra Lia.
From EG Require Import Num.Atan2.
Local Open Scope R_scope.

Lemma atan2_range y x : - PI < atan2 y x <= PI.
Proof.
  unfold atan2. pose proof PI_RGT_0 as Hpi.
  destruct (Rlt_dec 0 x) as [Hx|Hx].
  - pose proof (atan_bound (y / x)). lra.
  - destruct (Rlt_dec x 0) as [Hx'|Hx'].
    + assert (Hxi : / x < 0) by (apply Rinv_lt_0_compat; lra).
      destruct (Rle_dec 0 y) as [Hy|Hy].
      * assert (y / x <= 0).
        { unfold Rdiv. replace 0 with (y * 0) by ring. apply Rmult_le_compat_l; lra. }
        assert (atan (y / x) <= 0).
        { destruct (Req_dec (y / x) 0) as [E|E]; [rewrite E, atan_0; lra|].
          left. rewrite <- atan_0. apply atan_increasing. lra. }
        pose proof (atan_bound (y / x)). lra.
      * assert (0 < y / x).
        { unfold Rdiv. replace (y * / x) with ((- y) * (- / x)) by ring. apply Rmult_lt_0_compat; lra. }
        assert (0 < atan (y / x)) by (rewrite <- atan_0; apply atan_increasing; lra).
        pose proof (atan_bound (y / x)). lra.
    + destruct (Rlt_dec 0 y); [lra|]. destruct (Rlt_dec y 0); lra.
Qed.

Lemma sqrt_one_plus_sq x y :
  x <> 0 -> sqrt (1 + (y / x)²) = sqrt (x * x + y * y) / Rabs x.
Proof.
  intros Hx. assert (Ha : 0 < Rabs x) by (apply Rabs_pos_lt; exact Hx).
  assert (Hr0 : 0 <= sqrt (x * x + y * y)) by apply sqrt_pos.
  apply sqrt_lem_1.
  - unfold Rsqr. nra.
  - apply Rmult_le_pos; [exact Hr0 | left; apply Rinv_0_lt_compat; exact Ha].
  - assert (E : sqrt (x * x + y * y) / Rabs x * (sqrt (x * x + y * y) / Rabs x)
               = (sqrt (x * x + y * y) * sqrt (x * x + y * y)) / (Rabs x * Rabs x)) by (field; lra).
    rewrite E, sqrt_sqrt by nra.
    replace (Rabs x * Rabs x) with (x * x) by (unfold Rabs; destruct (Rcase_abs x); ring).
    unfold Rsqr. field. exact Hx.
Qed.

(* x = r cos t, y = r sin t with r = sqrt (x^2 + y^2), t = atan2 y x *)
Lemma atan2_polar y x :
  x = sqrt (x * x + y * y) * cos (atan2 y x) /\ y = sqrt (x * x + y * y) * sin (atan2 y x).
Proof.
  set (r := sqrt (x * x + y * y)).
  assert (Hrr : r * r = x * x + y * y) by (apply sqrt_sqrt; nra).
  assert (Hr0 : 0 <= r) by apply sqrt_pos.
  unfold atan2.
  destruct (Rlt_dec 0 x) as [Hx|Hx]; [|destruct (Rlt_dec x 0) as [Hx'|Hx']].
  - assert (Hne : x <> 0) by lra. assert (Hr : 0 < r) by nra.
    rewrite cos_atan, sin_atan, (sqrt_one_plus_sq x y Hne). fold r.
    rewrite (Rabs_pos_eq x) by lra. split; field; lra.
  - assert (Hne : x <> 0) by lra. assert (Hr : 0 < r) by nra.
    assert (Hab : Rabs x = - x) by (apply Rabs_left; lra).
    destruct (Rle_dec 0 y).
    + rewrite neg_cos, neg_sin, cos_atan, sin_atan, (sqrt_one_plus_sq x y Hne). fold r.
      rewrite Hab. split; field; lra.
    + unfold Rminus. rewrite <- (Ropp_involutive (atan (y / x) + - PI)).
      rewrite cos_neg, sin_neg.
      replace (- (atan (y / x) + - PI)) with (- atan (y / x) + PI) by ring.
      rewrite neg_cos, neg_sin, cos_neg, sin_neg, cos_atan, sin_atan, (sqrt_one_plus_sq x y Hne). fold r.
      rewrite Hab. split; field; lra.
  - assert (x = 0) by lra. subst x.
    assert (Hr : r = Rabs y).
    { unfold r. replace (0 * 0 + y * y) with (y * y) by ring. unfold Rabs. destruct (Rcase_abs y).
      - replace (y * y) with ((- y) * (- y)) by ring. apply sqrt_square. lra.
      - apply sqrt_square. lra. }
    destruct (Rlt_dec 0 y); [|destruct (Rlt_dec y 0)].
    + rewrite cos_PI2, sin_PI2, Hr, Rabs_pos_eq by lra. lra.
    + rewrite cos_neg, sin_neg, cos_PI2, sin_PI2, Hr, Rabs_left by lra. lra.
    + assert (y = 0) by lra. subst y. rewrite cos_0, sin_0, Hr, Rabs_R0. lra.
Qed.
