(* C12: the edge table lists each undirected edge exactly once (sorted), with its multiplicity, and
   every face is mapped to the table entries of its three edges. *)
From Coq Require Import ZArith List Bool Arith Lia Sorted Permutation.
From EG Require Import Model.MeshTopo.
Import ListNotations.

Definition edge_lt (x y : edge) : Prop := edge_ltb x y = true.

Lemma edge_eqb_eq x y : edge_eqb x y = true <-> x = y.
Proof.
  destruct x as [a b], y as [c d]. unfold edge_eqb; cbn. rewrite andb_true_iff, !Nat.eqb_eq.
  split; [intros [-> ->]; reflexivity | intros H; inversion H; auto].
Qed.
Lemma edge_eqb_refl x : edge_eqb x x = true.
Proof. apply edge_eqb_eq; reflexivity. Qed.
Lemma edge_eqb_neq x y : edge_eqb x y = false <-> x <> y.
Proof. rewrite <- edge_eqb_eq. destruct (edge_eqb x y); split; congruence. Qed.

Lemma edge_ltb_spec x y : edge_ltb x y = true <-> (fst x < fst y \/ (fst x = fst y /\ snd x < snd y)).
Proof.
  unfold edge_ltb. rewrite orb_true_iff, andb_true_iff, !Nat.ltb_lt, Nat.eqb_eq. tauto.
Qed.
Lemma edge_lt_trans x y z : edge_lt x y -> edge_lt y z -> edge_lt x z.
Proof. unfold edge_lt. rewrite !edge_ltb_spec. lia. Qed.
Lemma edge_lt_irrefl x : ~ edge_lt x x.
Proof. unfold edge_lt. rewrite edge_ltb_spec. lia. Qed.
Lemma edge_trichotomy x y : edge_eqb x y = false -> edge_ltb x y = false -> edge_lt y x.
Proof.
  intros H1 H2. apply edge_eqb_neq in H1. unfold edge_lt. rewrite edge_ltb_spec.
  assert (~ (fst x < fst y \/ fst x = fst y /\ snd x < snd y)) by (rewrite <- edge_ltb_spec; congruence).
  destruct x, y; cbn in *. destruct (Nat.eq_dec n n1), (Nat.eq_dec n0 n2); subst; try congruence; lia.
Qed.

Definition keys (l : list (edge * nat)) : list edge := map fst l.
Definition sorted_keys (l : list (edge * nat)) : Prop := StronglySorted edge_lt (keys l).

Lemma count_insert_keys k l k' :
  In k' (keys (count_insert k l)) <-> k' = k \/ In k' (keys l).
Proof.
  induction l as [|[k0 c] l IH]; cbn.
  - intuition.
  - destruct (edge_eqb k k0) eqn:E.
    + apply edge_eqb_eq in E. subst. cbn. intuition.
    + destruct (edge_ltb k k0); cbn; [intuition|]. rewrite IH. intuition.
Qed.

Lemma count_insert_sorted k l : sorted_keys l -> sorted_keys (count_insert k l).
Proof.
  unfold sorted_keys. induction l as [|[k0 c] l IH]; cbn; intros Hs.
  - repeat constructor.
  - pose proof (StronglySorted_inv Hs) as [Hs' Hall].
    destruct (edge_eqb k k0) eqn:E; [cbn; constructor; assumption|].
    destruct (edge_ltb k k0) eqn:L; cbn.
    + constructor; [constructor; assumption|]. constructor; [exact L|].
      rewrite Forall_forall in *. intros x Hx. eapply edge_lt_trans; [exact L | apply Hall; exact Hx].
    + constructor; [apply IH; assumption|].
      rewrite Forall_forall in *. intros x Hx. apply count_insert_keys in Hx. destruct Hx as [-> | Hx].
      * apply edge_trichotomy; assumption.
      * apply Hall; exact Hx.
Qed.

Lemma sorted_nodup l : sorted_keys l -> NoDup (keys l).
Proof.
  unfold sorted_keys. induction 1 as [|k l' Hs IH Hall]; constructor; auto.
  intros Hin. rewrite Forall_forall in Hall. apply (edge_lt_irrefl k). apply Hall. exact Hin.
Qed.

(* multiplicity *)
Definition mult (k : edge) (es : list edge) : nat := length (filter (edge_eqb k) (map edge_key es)).

Lemma index_of_key_spec k l : forall i j,
  index_of_key k l i = Some j -> exists n, j = i + n /\ nth_error l n <> None /\ fst (nth n l ((0, 0), 0)) = k.
Proof.
  induction l as [|[k0 c] l IH]; cbn; intros i j H; [discriminate|].
  destruct (edge_eqb k k0) eqn:E.
  - inversion H; subst. exists 0. apply edge_eqb_eq in E. subst. cbn. split; [lia|]. split; congruence.
  - destruct (IH _ _ H) as (m0 & -> & Hn & Hk). exists (S m0). cbn. split; [lia|]. auto.
Qed.
Lemma index_of_key_none k l i : index_of_key k l i = None -> ~ In k (keys l).
Proof.
  revert i; induction l as [|[k0 c] l IH]; cbn; intros i H; [tauto|].
  destruct (edge_eqb k k0) eqn:E; [discriminate|]. apply edge_eqb_neq in E.
  intros [-> | Hin]; [congruence|]. eapply IH; eassumption.
Qed.
Lemma index_of_key_some k l i : In k (keys l) -> exists j, index_of_key k l i = Some j.
Proof.
  intros Hin. destruct (index_of_key k l i) eqn:E; [eauto|]. apply index_of_key_none in E. contradiction.
Qed.

Lemma count_of_key_insert_same k l : sorted_keys l ->
  count_of_key k (count_insert k l) = S (count_of_key k l).
Proof.
  unfold count_of_key. intros Hs. induction l as [|[k0 c] l IH]; cbn.
  - rewrite edge_eqb_refl. reflexivity.
  - destruct (edge_eqb k k0) eqn:E.
    + cbn. rewrite E. reflexivity.
    + destruct (edge_ltb k k0) eqn:L; cbn.
      * rewrite edge_eqb_refl. cbn.
        (* k is below every key of the sorted tail: not found *)
        assert (Hn : index_of_key k l 1 = None).
        { destruct (index_of_key k l 1) eqn:F; [|reflexivity]. exfalso.
          apply index_of_key_spec in F. destruct F as (m0 & _ & Hm0 & Hk).
          pose proof (StronglySorted_inv Hs) as [Hs' Hall]. rewrite Forall_forall in Hall.
          assert (Hin : In k (keys l)).
          { rewrite <- Hk. unfold keys. apply in_map. apply nth_In. apply nth_error_Some. exact Hm0. }
          apply Hall in Hin. apply (edge_lt_irrefl k). eapply edge_lt_trans; eassumption. }
        rewrite Hn. reflexivity.
      * rewrite E.
        pose proof (StronglySorted_inv Hs) as [Hs' Hall]. specialize (IH Hs').
        (* shift the accumulator index by one on both sides *)
        assert (Hshift : forall m i, index_of_key k m (S i) = option_map S (index_of_key k m i)).
        { induction m as [|[k1 c1] m IHm]; cbn; intros i; [reflexivity|].
          destruct (edge_eqb k k1); [reflexivity | apply IHm]. }
        rewrite !Hshift.
        destruct (index_of_key k (count_insert k l) 0) eqn:F1; destruct (index_of_key k l 0) eqn:F2; cbn in *; auto.
Qed.

Lemma count_of_key_insert_other k k' l : k' <> k ->
  count_of_key k' (count_insert k l) = count_of_key k' l.
Proof.
  unfold count_of_key. intros Hne.
  assert (Hshift : forall m i, index_of_key k' m (S i) = option_map S (index_of_key k' m i)).
  { induction m as [|[k1 c1] m IHm]; cbn; intros i; [reflexivity|].
    destruct (edge_eqb k' k1); [reflexivity | apply IHm]. }
  induction l as [|[k0 c] l IH]; cbn.
  - assert (E : edge_eqb k' k = false) by (apply edge_eqb_neq; exact Hne). rewrite E. reflexivity.
  - destruct (edge_eqb k k0) eqn:E.
    + cbn. destruct (edge_eqb k' k0) eqn:E'.
      * apply edge_eqb_eq in E, E'. congruence.
      * rewrite !Hshift. destruct (index_of_key k' l 0); reflexivity.
    + destruct (edge_ltb k k0) eqn:L; cbn.
      * assert (E2 : edge_eqb k' k = false) by (apply edge_eqb_neq; exact Hne). rewrite E2.
        destruct (edge_eqb k' k0) eqn:E'; cbn; [reflexivity|].
        rewrite !Hshift. destruct (index_of_key k' l 0); reflexivity.
      * destruct (edge_eqb k' k0) eqn:E'; [reflexivity|].
        rewrite !Hshift.
        destruct (index_of_key k' (count_insert k l) 0) eqn:F1; destruct (index_of_key k' l 0) eqn:F2; cbn in *; auto.
Qed.

Lemma unique_edges_acc es : forall acc,
  sorted_keys acc ->
  let r := fold_left (fun a e => count_insert (edge_key e) a) es acc in
  sorted_keys r /\
  (forall k, In k (keys r) <-> In k (keys acc) \/ In k (map edge_key es)) /\
  (forall k, count_of_key k r = count_of_key k acc + mult k es).
Proof.
  induction es as [|e es IH]; cbn; intros acc Hs.
  - split; [exact Hs|]. split; [intuition | intros; unfold mult; cbn; lia].
  - destruct (IH (count_insert (edge_key e) acc) (count_insert_sorted _ _ Hs)) as (H1 & H2 & H3).
    split; [exact H1|]. split.
    + intros k. rewrite H2, count_insert_keys. intuition.
    + intros k. rewrite H3. unfold mult. cbn.
      destruct (edge_eqb k (edge_key e)) eqn:E.
      * apply edge_eqb_eq in E. subst. rewrite count_of_key_insert_same by exact Hs. cbn. lia.
      * rewrite count_of_key_insert_other by (apply edge_eqb_neq; exact E). lia.
Qed.

(* the edge table: strictly sorted (hence duplicate free), exactly the undirected edges of the faces,
   each with the number of faces on it *)
Theorem unique_edges_spec (es : list edge) :
  sorted_keys (unique_edges es) /\ NoDup (keys (unique_edges es)) /\
  (forall k, In k (keys (unique_edges es)) <-> In k (map edge_key es)) /\
  (forall k, count_of_key k (unique_edges es) = mult k es).
Proof.
  destruct (unique_edges_acc es [] ltac:(constructor)) as (H1 & H2 & H3).
  split; [exact H1|]. split; [apply sorted_nodup; exact H1|]. split.
  - intros k. unfold unique_edges. rewrite (H2 k). cbn. intuition.
  - intros k. unfold unique_edges. rewrite (H3 k). reflexivity.
Qed.

(* every face is mapped to the table positions of its three undirected edges *)
Theorem face_edge_indices_spec (uniq : list (edge * nat)) (f : face) i0 i1 i2 :
  face_edge_indices uniq f = Some (i0, i1, i2) ->
  let '(a, b, c) := f in
  nth i0 (keys uniq) (0, 0) = edge_key (b, c) /\
  nth i1 (keys uniq) (0, 0) = edge_key (c, a) /\
  nth i2 (keys uniq) (0, 0) = edge_key (a, b).
Proof.
  destruct f as [[a b] c]. unfold face_edge_indices. cbn [face_dedges map].
  destruct (index_of_key (edge_key (b, c)) uniq 0) eqn:E0; [|discriminate].
  destruct (index_of_key (edge_key (c, a)) uniq 0) eqn:E1; [|discriminate].
  destruct (index_of_key (edge_key (a, b)) uniq 0) eqn:E2; [|discriminate].
  intros H; inversion H; subst.
  assert (Hk : forall k j, index_of_key k uniq 0 = Some j -> nth j (keys uniq) (0, 0) = k).
  { intros k j Hj. apply index_of_key_spec in Hj. destruct Hj as (m0 & -> & _ & Hn). cbn.
    unfold keys. change (0, 0) with (fst ((0, 0), 0) : edge). rewrite map_nth. exact Hn. }
  repeat split; apply Hk; assumption.
Qed.

Theorem face_edge_indices_total (faces : list face) (f : face) :
  In f faces -> exists t, face_edge_indices (unique_edges (naive_edges faces)) f = Some t.
Proof.
  intros Hin. destruct (unique_edges_spec (naive_edges faces)) as (_ & _ & Hk & _).
  destruct f as [[a b] c]. unfold face_edge_indices. cbn [face_dedges map].
  assert (Hm : forall e, In e (face_dedges (a, b, c)) ->
                exists j, index_of_key (edge_key e) (unique_edges (naive_edges faces)) 0 = Some j).
  { intros e He. apply index_of_key_some. apply Hk. apply in_map. unfold naive_edges.
    apply in_flat_map. exists (a, b, c). split; assumption. }
  destruct (Hm (b, c)) as [j0 ->]; [cbn; auto|].
  destruct (Hm (c, a)) as [j1 ->]; [cbn; auto|].
  destruct (Hm (a, b)) as [j2 ->]; [cbn; auto|]. eauto.
Qed.
