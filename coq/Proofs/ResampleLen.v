(* C05, continued: resampling never lengthens: the chord between two points of a curve is at most the arc length between
   them, so the polyline through points taken at ascending arc lengths is at most as long as the stretch of curve it
   spans, and tolerance de-duplication only shortens further. *)
From Coq Require Import ZArith Reals Lra Lia List Bool Arith Sorted Psatz.
From Flocq Require Import Core.Raux.
From EG Require Import Num.Num Num.RNum Lib.Vec Model.TolMap Model.Curve Model.Portion Model.Resample.
From EG Require Import Proofs.TolMap Proofs.VecR Proofs.Curve Proofs.Portion Proofs.PortionMore.
Import ListNotations.
Local Open Scope R_scope.

Record MetricLaws (V : @VOps RNum) : Prop := {
  ml_refl : forall a : pt V, vdist V a a = 0;
  ml_tri : forall a b c : pt V, vdist V a c <= vdist V a b + vdist V b c;
  ml_sym : forall a b : pt V, vdist V a b = vdist V b a;
  ml_lerp : forall (a b : pt V) f0 f1, f0 <= f1 -> vdist V (vlerp V a b f1) (vlerp V a b f0) = (f1 - f0) * vdist V b a;
}.

Section Generic.
  Variable V : @VOps RNum.
  Hypothesis L : VLaws V.
  Hypothesis M : MetricLaws V.
  Notation P := (pt V).

  (* the straight line is the shortest path *)
  Lemma last_cons_def {A} (p : A) (l : list A) (d : A) : last (p :: l) d = last l p.
  Proof. revert p d. induction l as [|x l IH]; intros p d; [reflexivity|]. change (last (p :: x :: l) d) with (last (x :: l) d). rewrite (IH x d), (IH x p). reflexivity. Qed.

  Lemma chord_le_path : forall (l : list P) (start : P), vdist V (last l start) start <= path_len V start l.
  Proof.
    induction l as [|p l IH]; intros start; cbn [path_len].
    - cbn [last]. rewrite (ml_refl V M). lra.
    - rewrite last_cons_def. pose proof (IH p) as H1. pose proof (ml_tri V M (last l p) p start) as H2. lra.
  Qed.

  Section OnCurve.
    Variable c : curve V.
    Hypothesis Hwf : WF V c.

    (* chord between two stations at most the arc length between them *)
    Lemma chord_le_arc l0 l1 s e : at_length V c l0 = Some s -> at_length V c l1 = Some e -> l0 <= l1 ->
      vdist V (st_point V e) (st_point V s) <= l1 - l0.
    Proof.
      intros Hs He Hle. pose proof (portion_forward_length V L c Hwf (ml_lerp V M) l0 l1 s e Hs He Hle) as E.
      rewrite <- E. set (mid := map (vtx V c) (seq (S (st_index V s)) (st_index V e - st_index V s))).
      pose proof (chord_le_path (mid ++ [st_point V e]) (st_point V s)) as H. rewrite last_last in H. exact H.
    Qed.

    (* the polyline through the points at ascending positions is at most as long as the stretch of curve it spans *)
    Lemma points_at_length : forall ps pts, StronglySorted Rle ps -> points_at V c ps = Ok pts ->
      length pts = length ps /\ plen V pts <= last ps 0 - hd 0 ps.
    Proof.
      induction ps as [|p0 ps IH]; intros pts Hs E.
      - cbn in E. inversion E. cbn. split; [reflexivity | lra].
      - cbn [points_at] in E. destruct (at_length V c p0) as [s0|] eqn:E0; [|discriminate].
        destruct (points_at V c ps) as [r| |] eqn:Er; try discriminate. inversion E; subst pts. clear E.
        apply StronglySorted_inv in Hs. destruct Hs as [Hs Hall].
        destruct (IH r Hs eq_refl) as [Hl Hp]. split; [cbn; f_equal; exact Hl|].
        destruct ps as [|p1 ps'].
        + cbn in Er. inversion Er; subst r. cbn. lra.
        + cbn [points_at] in Er. destruct (at_length V c p1) as [s1|] eqn:E1; [|discriminate].
          destruct (points_at V c ps') as [r'| |]; try discriminate. inversion Er; subst r.
          rewrite Forall_forall in Hall. assert (H01 : p0 <= p1) by (apply Hall; left; reflexivity).
          pose proof (chord_le_arc p0 p1 s0 s1 E0 E1 H01) as Hc.
          unfold plen in *. cbn [path_len hd] in *.
          replace (last (p0 :: p1 :: ps') 0) with (last (p1 :: ps') 0) by reflexivity. lra.
    Qed.
  End OnCurve.

  (* tolerance de-duplication only removes vertices, which never lengthens a polyline *)
  Lemma path_len_drop : forall (l : list P) (a b : P), path_len V a l <= vdist V b a + path_len V b l.
  Proof.
    intros l a b. destruct l as [|x l]; cbn [path_len]; [pose proof (vdist_nonneg V b a); lra|].
    pose proof (ml_tri V M x b a). lra.
  Qed.

  Lemma dedup_from_shorter tol : forall (l : list P) (kept : P),
    path_len V kept (dedup_from V tol kept l) <= path_len V kept l.
  Proof.
    induction l as [|a l IH]; intros kept; cbn [dedup_from path_len]; [lra|].
    cbn [nleb RNum]. destruct (Rle_bool (vdist V a kept) tol).
    - pose proof (IH kept). pose proof (path_len_drop l kept a). lra.
    - cbn [path_len]. pose proof (IH a). lra.
  Qed.

  Lemma dedup_tol_shorter tol (l : list P) : plen V (dedup_tol V tol l) <= plen V l.
  Proof. destruct l as [|a l]; [cbn; lra|]. unfold plen. cbn [dedup_tol]. apply dedup_from_shorter. Qed.

  (* an open resampled curve is at most as long as the stretch between its first and last requested positions *)
  Theorem resample_not_longer (c : curve V) (Hwf : WF V c) ps r :
    cclosed V c = false -> StronglySorted Rle ps ->
    resample_at_positions V c ps = Ok r -> clength V r <= last ps 0 - hd 0 ps.
  Proof.
    intros Hopen Hs E. unfold resample_at_positions in E.
    destruct (points_at V c ps) as [pts| |] eqn:Ep; try discriminate.
    destruct (points_at_length c Hwf ps pts Hs Ep) as [_ Hp].
    rewrite Hopen in E. unfold from_points in E.
    destruct (length (dedup_tol V (ctol V c) pts) <? 2)%nat; [discriminate|].
    destruct (dedup_tol V (ctol V c) pts) as [|f rest] eqn:Ed; [inversion E; subst r; cbn; pose proof (dedup_tol_shorter (ctol V c) pts) as H; rewrite Ed in H; cbn in H; lra|].
    cbn [andb] in E. inversion E; subst r. unfold clength. cbn [clens]. rn.
    rewrite (last_cum_lengths V), Rplus_0_l. change (path_len V f rest) with (plen V (f :: rest)). pose proof (dedup_tol_shorter (ctol V c) pts) as H. rewrite Ed in H. lra.
  Qed.
End Generic.

(* the laws for the two instances *)
Lemma cauchy2 (ux uy vx vy : R) : (ux * vx + uy * vy) * (ux * vx + uy * vy) <= (ux * ux + uy * uy) * (vx * vx + vy * vy).
Proof. replace ((ux * ux + uy * uy) * (vx * vx + vy * vy)) with ((ux * vx + uy * vy) * (ux * vx + uy * vy) + (ux * vy - uy * vx) * (ux * vy - uy * vx)) by ring.
  pose proof (sq_nonneg (ux * vy - uy * vx)). lra. Qed.
Lemma cauchy3 (ux uy uz vx vy vz : R) :
  (ux * vx + uy * vy + uz * vz) * (ux * vx + uy * vy + uz * vz) <= (ux * ux + uy * uy + uz * uz) * (vx * vx + vy * vy + vz * vz).
Proof. replace ((ux * ux + uy * uy + uz * uz) * (vx * vx + vy * vy + vz * vz)) with
    ((ux * vx + uy * vy + uz * vz) * (ux * vx + uy * vy + uz * vz) + (ux * vy - uy * vx) * (ux * vy - uy * vx) + (ux * vz - uz * vx) * (ux * vz - uz * vx) + (uy * vz - uz * vy) * (uy * vz - uz * vy)) by ring.
  pose proof (sq_nonneg (ux * vy - uy * vx)). pose proof (sq_nonneg (ux * vz - uz * vx)). pose proof (sq_nonneg (uy * vz - uz * vy)). lra. Qed.

(* |u + v| <= |u| + |v| from Cauchy-Schwarz, in the form sqrt (U + 2 D + W) <= sqrt U + sqrt W when D^2 <= U W *)
Lemma sqrt_triangle (U W D : R) : 0 <= U -> 0 <= W -> D * D <= U * W -> 0 <= U + 2 * D + W -> sqrt (U + 2 * D + W) <= sqrt U + sqrt W.
Proof.
  intros HU HW HD HS.
  assert (Hd : D <= sqrt U * sqrt W).
  { destruct (Rle_dec D 0) as [Hn | Hp]; [pose proof (sqrt_pos U); pose proof (sqrt_pos W); nra|].
    apply Rsqr_incr_0_var; [|pose proof (sqrt_pos U); pose proof (sqrt_pos W); nra].
    unfold Rsqr. replace (sqrt U * sqrt W * (sqrt U * sqrt W)) with ((sqrt U * sqrt U) * (sqrt W * sqrt W)) by ring.
    rewrite !sqrt_sqrt by assumption. exact HD. }
  apply Rsqr_incr_0_var; [|pose proof (sqrt_pos U); pose proof (sqrt_pos W); lra].
  unfold Rsqr. rewrite sqrt_sqrt by exact HS.
  replace ((sqrt U + sqrt W) * (sqrt U + sqrt W)) with (sqrt U * sqrt U + 2 * (sqrt U * sqrt W) + sqrt W * sqrt W) by ring.
  rewrite !sqrt_sqrt by assumption. lra.
Qed.

Lemma metric2 : MetricLaws (@VO2 RNum).
Proof.
  constructor.
  - intros [ax ay]. unfold vdist, vnorm. cbn [VO2 vdot vsub pt]. vec_unfold. replace ((ax - ax) * (ax - ax) + (ay - ay) * (ay - ay)) with 0 by ring. apply sqrt_0.
  - intros [ax ay] [bx by_] [cx cy]. unfold vdist, vnorm. cbn [VO2 vdot vsub pt]. vec_unfold.
    replace ((ax - cx) * (ax - cx) + (ay - cy) * (ay - cy)) with
      (((ax - bx) * (ax - bx) + (ay - by_) * (ay - by_)) + 2 * ((ax - bx) * (bx - cx) + (ay - by_) * (by_ - cy)) + ((bx - cx) * (bx - cx) + (by_ - cy) * (by_ - cy))) by ring.
    apply sqrt_triangle.
    + pose proof (sq_nonneg (ax - bx)). pose proof (sq_nonneg (ay - by_)). lra.
    + pose proof (sq_nonneg (bx - cx)). pose proof (sq_nonneg (by_ - cy)). lra.
    + apply cauchy2.
    + replace (((ax - bx) * (ax - bx) + (ay - by_) * (ay - by_)) + 2 * ((ax - bx) * (bx - cx) + (ay - by_) * (by_ - cy)) + ((bx - cx) * (bx - cx) + (by_ - cy) * (by_ - cy)))
        with ((ax - cx) * (ax - cx) + (ay - cy) * (ay - cy)) by ring.
      pose proof (sq_nonneg (ax - cx)). pose proof (sq_nonneg (ay - cy)). lra.
  - exact vdist_sym2.
  - exact vn_lerp2.
Qed.

Lemma metric3 : MetricLaws (@VO3 RNum).
Proof.
  constructor.
  - intros [[ax ay] az]. unfold vdist, vnorm. cbn [VO3 vdot vsub pt]. vec_unfold. replace ((ax - ax) * (ax - ax) + (ay - ay) * (ay - ay) + (az - az) * (az - az)) with 0 by ring. apply sqrt_0.
  - intros [[ax ay] az] [[bx by_] bz] [[cx cy] cz]. unfold vdist, vnorm. cbn [VO3 vdot vsub pt]. vec_unfold.
    replace ((ax - cx) * (ax - cx) + (ay - cy) * (ay - cy) + (az - cz) * (az - cz)) with
      (((ax - bx) * (ax - bx) + (ay - by_) * (ay - by_) + (az - bz) * (az - bz)) + 2 * ((ax - bx) * (bx - cx) + (ay - by_) * (by_ - cy) + (az - bz) * (bz - cz))
       + ((bx - cx) * (bx - cx) + (by_ - cy) * (by_ - cy) + (bz - cz) * (bz - cz))) by ring.
    apply sqrt_triangle.
    + pose proof (sq_nonneg (ax - bx)). pose proof (sq_nonneg (ay - by_)). pose proof (sq_nonneg (az - bz)). lra.
    + pose proof (sq_nonneg (bx - cx)). pose proof (sq_nonneg (by_ - cy)). pose proof (sq_nonneg (bz - cz)). lra.
    + apply cauchy3.
    + replace (((ax - bx) * (ax - bx) + (ay - by_) * (ay - by_) + (az - bz) * (az - bz)) + 2 * ((ax - bx) * (bx - cx) + (ay - by_) * (by_ - cy) + (az - bz) * (bz - cz))
       + ((bx - cx) * (bx - cx) + (by_ - cy) * (by_ - cy) + (bz - cz) * (bz - cz)))
        with ((ax - cx) * (ax - cx) + (ay - cy) * (ay - cy) + (az - cz) * (az - cz)) by ring.
      pose proof (sq_nonneg (ax - cx)). pose proof (sq_nonneg (ay - cy)). pose proof (sq_nonneg (az - cz)). lra.
  - exact vdist_sym3.
  - exact vn_lerp3.
Qed.
