(* C09: the circle-fit Jacobian row (-n.x w, -n.y w, -w) is the derivative of the weighted radial
   residual (|p - c| - r) w with respect to (cx, cy, r), for a fixed weight. *)
From Coq Require Import Reals Lra.
From Coquelicot Require Import Coquelicot.
From EG Require Import Num.Num Num.RNum Lib.Vec Model.Poly Proofs.VecR.
Local Open Scope R_scope.

Definition res_w (p : R * R) (w cx cy r : R) : R := @circle_dist RNum ((cx, cy), r) p * w.

Lemma res_w_unfold p w cx cy r :
  res_w p w cx cy r = (sqrt ((cx - fst p) * (cx - fst p) + (cy - snd p) * (cy - snd p)) - r) * w.
Proof. destruct p. unfold res_w, circle_dist, ccx, ccy, ccr. vec_unfold. reflexivity. Qed.

Definition jac_row (p : R * R) (w cx cy : R) : R * R * R :=
  let n := @normalize2 RNum (@sub2 RNum p (cx, cy)) in (- fst n * w, - snd n * w, - 1 * w).

Section Deriv.
  Variables (p : R * R) (w cx cy r : R).
  Hypothesis Hne : 0 < (cx - fst p) * (cx - fst p) + (cy - snd p) * (cy - snd p).

  Lemma radicand_sym : (fst p - cx) * (fst p - cx) + (snd p - cy) * (snd p - cy)
                       = (cx - fst p) * (cx - fst p) + (cy - snd p) * (cy - snd p).
  Proof. ring. Qed.

  Theorem jac_dcx : is_derive (fun t => res_w p w t cy r) cx (fst (fst (jac_row p w cx cy))).
  Proof.
    eapply is_derive_ext; [intros t; symmetry; apply res_w_unfold|].
    unfold jac_row. destruct p as [px py]. vec_unfold. cbn [fst snd] in *.
    auto_derive; [exact Hne|].
    replace ((px - cx) * (px - cx) + (py - cy) * (py - cy)) with ((cx + - px) * (cx + - px) + (cy - py) * (cy - py)) by ring.
    assert (Hs : sqrt ((cx + - px) * (cx + - px) + (cy - py) * (cy - py)) <> 0).
    { apply Rgt_not_eq. apply sqrt_lt_R0. replace (cx + - px) with (cx - px) by ring. exact Hne. }
    field. exact Hs.
  Qed.

  Theorem jac_dcy : is_derive (fun t => res_w p w cx t r) cy (snd (fst (jac_row p w cx cy))).
  Proof.
    eapply is_derive_ext; [intros t; symmetry; apply res_w_unfold|].
    unfold jac_row. destruct p as [px py]. vec_unfold. cbn [fst snd] in *.
    auto_derive; [exact Hne|].
    replace ((px - cx) * (px - cx) + (py - cy) * (py - cy)) with ((cx - px) * (cx - px) + (cy + - py) * (cy + - py)) by ring.
    assert (Hs : sqrt ((cx - px) * (cx - px) + (cy + - py) * (cy + - py)) <> 0).
    { apply Rgt_not_eq. apply sqrt_lt_R0. replace (cy + - py) with (cy - py) by ring. exact Hne. }
    field. exact Hs.
  Qed.

  Theorem jac_dr : is_derive (fun t => res_w p w cx cy t) r (snd (jac_row p w cx cy)).
  Proof.
    eapply is_derive_ext; [intros t; symmetry; apply res_w_unfold|].
    unfold jac_row. cbn [snd]. auto_derive; [exact I|]. ring.
  Qed.
End Deriv.
