(* C12: the primitive generators are consistently wound with outward normals. *)
From Coq Require Import ZArith Reals Lra Lia List Bool Arith.
From Flocq Require Import Core.Raux.
From EG Require Import Num.Num Num.RNum Lib.Vec Model.MeshTopo Model.MeshGeom Proofs.VecR.
Import ListNotations.
Local Open Scope R_scope.

(* --- box: finite index table, checked completely by computation --- *)
Theorem box_consistently_wound : consistently_wound box_faces = true /\ closed_surface box_faces = true.
Proof. split; vm_compute; reflexivity. Qed.

Definition nth3 (vs : list (@V3 RNum)) (i : nat) : @V3 RNum := nth i vs (0, 0, 0).

(* outward: (b-a)x(c-a) . (a+b+c - 3*centre) > 0, scaled by 2 to avoid halves *)
Definition box_face_outward (w h d : R) (f : face) : Prop :=
  let vs := @box_vertices RNum w h d in
  let '(a, b, c) := f in
  0 < dot3 (tri_normal (nth3 vs a) (nth3 vs b) (nth3 vs c))
           (sub3 (scale3 (add3 (add3 (nth3 vs a) (nth3 vs b)) (nth3 vs c)) 2) (mk3 (3 * w) (3 * h) (3 * d))).

Theorem box_outward (w h d : R) : 0 < w -> 0 < h -> 0 < d -> Forall (box_face_outward w h d) box_faces.
Proof.
  intros Hw Hh Hd. unfold box_faces.
  assert (Hwh : 0 < w * h) by nra. assert (Hwd : 0 < w * d) by nra. assert (Hhd : 0 < h * d) by nra.
  assert (Hwhd : 0 < w * h * d) by nra.
  repeat (constructor; [unfold box_face_outward, box_vertices, box_vertex_sel, nth3, tri_normal; cbn [map nth];
                        vec_unfold; ring_simplify; nra|]).
  constructor.
Qed.

(* --- cylinder --- *)
Theorem cylinder_consistently_wound_upto_64 :
  forallb (fun s => consistently_wound (cylinder_faces s)) (seq 3 62) = true.
Proof. vm_compute. reflexivity. Qed.

Lemma cyl_angle_R steps i : @cyl_angle RNum steps i = INR i * 2 * PI / INR steps.
Proof. unfold cyl_angle, nofnat, n2. cbn [nmul ndiv nofZ npi RNum]. rewrite !INR_IZR_INZ. reflexivity. Qed.

(* sin (angle k - angle i) = sin (2 pi / steps) for k = (i+1) mod steps *)
Lemma cyl_step_sin steps i : (3 <= steps)%nat -> (i < steps)%nat ->
  sin (@cyl_angle RNum steps ((i + 1) mod steps) - @cyl_angle RNum steps i) = sin (2 * PI / INR steps) /\
  0 < sin (2 * PI / INR steps).
Proof.
  intros Hs Hi. rewrite !cyl_angle_R.
  assert (Hn : 3 <= INR steps) by (replace 3 with (INR 3) by (simpl; lra); apply le_INR; exact Hs).
  assert (Hpi := PI_RGT_0).
  assert (Hpos : 0 < 2 * PI / INR steps) by (apply Rdiv_lt_0_compat; lra).
  assert (Hlt : 2 * PI / INR steps < PI).
  { apply Rmult_lt_reg_r with (INR steps); [lra|]. unfold Rdiv. rewrite Rmult_assoc, Rinv_l by lra. nra. }
  split; [|apply sin_gt_0; lra].
  destruct (Nat.eq_dec (i + 1) steps) as [E|NE].
  - rewrite E, Nat.mod_same by lia. simpl INR at 1.
    assert (Ei : INR i = INR steps - 1) by (rewrite <- E, plus_INR; simpl; lra). rewrite Ei.
    replace (0 * 2 * PI / INR steps - (INR steps - 1) * 2 * PI / INR steps)
      with (2 * PI / INR steps - 2 * PI) by (field; lra).
    unfold Rminus. rewrite <- (sin_period _ 1). f_equal. simpl. ring.
  - rewrite Nat.mod_small by lia. rewrite plus_INR. simpl INR.
    f_equal. field. lra.
Qed.

Definition tri_outward (t : @V3 RNum * @V3 RNum * @V3 RNum) (dir : @V3 RNum) : Prop :=
  let '(a, b, c) := t in 0 < dot3 (tri_normal a b c) dir.

Theorem cylinder_outward (r h : R) (steps i : nat) :
  0 < r -> 0 < h -> (3 <= steps)%nat -> (i < steps)%nat ->
  tri_outward (@cyl_tri1 RNum r h steps i) (@cyl_radial RNum r steps i) /\
  tri_outward (@cyl_tri2 RNum r h steps i) (@cyl_radial RNum r steps i).
Proof.
  intros Hr Hh Hs Hi. destruct (cyl_step_sin steps i Hs Hi) as [Es Hp].
  set (k := ((i + 1) mod steps)%nat) in *.
  rewrite sin_minus in Es.
  unfold tri_outward, cyl_tri1, cyl_tri2, cyl_radial, cyl_bottom, cyl_top, tri_normal. fold k.
  set (a := @cyl_angle RNum steps i) in *. set (b := @cyl_angle RNum steps k) in *.
  cbn zeta. vec_unfold. cbn [nsin ncos RNum].
  assert (Hrr : 0 < r * r) by nra. assert (Hrh : 0 < r * r * h) by nra.
  split.
  - match goal with |- 0 < ?e => replace e with (2 * (r * r * h) * (sin b * cos a - cos b * sin a)) by ring end.
    rewrite Es. nra.
  - match goal with |- 0 < ?e => replace e with (2 * (r * r * h) * (sin b * cos a - cos b * sin a)) by ring end.
    rewrite Es. nra.
Qed.
