(* C13: engeom's assembly of a section always terminates, and every vertex of every returned curve is one of the
   polyline vertices parry produced, at an index that is an end of one of its index pairs -- so "on the plane and on
   the surface" reduces to that property of parry's polyline (certified per case). *)
From Coq Require Import ZArith List Bool Arith Lia Permutation.
From EG Require Import Num.Num Num.RNum Lib.Vec Model.Types Model.TolMap Model.Curve Model.MeshTopo Model.Section.
From EG Require Import Proofs.MeshLoops Proofs.MeshChains Proofs.Resample.
Import ListNotations.

Section Members.
  Variable indices : list edge.
  Definition is_end (v : nat) : Prop := exists i, i < length indices /\ (v = fst (nth i indices (0, 0)) \/ v = snd (nth i indices (0, 0))).
  Definition in_range (l : list nat) : Prop := forall i, In i l -> i < length indices.

  Lemma swap_remove_in (l : list nat) k x : k < length l -> In x (swap_remove l k) -> In x l.
  Proof.
    intros Hk Hx. pose proof (swap_remove_perm l k Hk) as Hp. apply Permutation_sym in Hp.
    eapply Permutation_in; [exact Hp | right; exact Hx].
  Qed.
  Lemma removelast_in (l : list nat) x : In x (removelast l) -> In x l.
  Proof. induction l as [|a [|b l] IH]; cbn; [tauto | tauto|]. intros [H | H]; [left; exact H | right; apply IH; exact H]. Qed.
  Lemma last_in (l : list nat) d : l <> [] -> In (last l d) l.
  Proof. induction l as [|a [|b l] IH]; intros H; [congruence | left; reflexivity|]. right. apply IH. discriminate. Qed.

  Lemma chain_loop_members : forall fuel pairs working forward chains used r,
    in_range pairs -> Forall is_end working -> Forall (Forall is_end) chains ->
    chain_loop fuel indices pairs working forward chains used = Some r ->
    Forall (Forall is_end) (fst r).
  Proof.
    induction fuel as [|fuel IH]; intros pairs working forward chains used r Hp Hw Hc H; [discriminate|].
    cbn [chain_loop] in H. destruct pairs as [|p0 pairs0] eqn:Ep.
    - inversion H; subst r. cbn [fst]. destruct working; [exact Hc|]. apply Forall_app. split; [exact Hc | constructor; [exact Hw | constructor]].
    - rewrite <- Ep in *. assert (Hne : pairs <> []) by (rewrite Ep; discriminate).
      set (st := match working with
                 | [] => (removelast pairs, [fst (nth (last pairs 0) indices (0, 0)); snd (nth (last pairs 0) indices (0, 0))], true, used ++ [last pairs 0])
                 | _ => (pairs, working, forward, used) end) in H.
      assert (Hst : let '(pairs1, working1, _, _) := st in in_range pairs1 /\ Forall is_end working1).
      { unfold st. destruct working as [|w ws].
        - split; [intros i Hi; apply Hp; apply removelast_in; exact Hi|].
          assert (Hl : last pairs 0 < length indices) by (apply Hp; apply last_in; exact Hne).
          constructor; [exists (last pairs 0); split; [exact Hl | left; reflexivity]|].
          constructor; [exists (last pairs 0); split; [exact Hl | right; reflexivity] | constructor].
        - split; assumption. }
      destruct st as [[[pairs1 working1] forward1] used1]. destruct Hst as [Hp1 Hw1].
      destruct forward1.
      + destruct (chain_candidates pairs1 indices (last working1 0) true) as [[k i]|] eqn:Ec.
        * apply chain_candidates_spec in Ec. destruct Ec as [Hk Hi].
          apply (IH _ _ _ _ _ _ (fun x Hx => Hp1 x (swap_remove_in _ _ _ Hk Hx))) in H; [exact H | | exact Hc].
          apply Forall_app. split; [exact Hw1|]. constructor; [|constructor].
          exists i. split; [apply Hp1; rewrite <- Hi; apply nth_In; exact Hk | right; reflexivity].
        * apply (IH _ _ _ _ _ _ Hp1 Hw1 Hc) in H. exact H.
      + destruct (chain_candidates pairs1 indices (hd 0 working1) false) as [[k i]|] eqn:Ec.
        * apply chain_candidates_spec in Ec. destruct Ec as [Hk Hi].
          apply (IH _ _ _ _ _ _ (fun x Hx => Hp1 x (swap_remove_in _ _ _ Hk Hx))) in H; [exact H | | exact Hc].
          constructor; [|exact Hw1]. exists i. split; [apply Hp1; rewrite <- Hi; apply nth_In; exact Hk | left; reflexivity].
        * apply (IH _ _ _ _ _ _ Hp1 (Forall_nil _)) in H; [exact H|].
          apply Forall_app. split; [exact Hc | constructor; [exact Hw1 | constructor]].
  Qed.

  Theorem chains_members : forall chains, chained_indices indices = Some chains -> Forall (Forall is_end) chains.
  Proof.
    intros chains H. unfold chained_indices, chained_indices_full in H.
    destruct (chain_loop _ indices (seq 0 (length indices)) [] true [] []) as [r|] eqn:E; [|discriminate].
    cbn in H. inversion H; subst chains.
    eapply chain_loop_members; [| | | exact E]; [intros i Hi; apply in_seq in Hi; lia | constructor | constructor].
  Qed.
End Members.

Section Assemble.
  Context (verts : list (@V3 RNum)) (pairs : list edge) (tol : @num RNum).

  (* the assembly never fails: chaining terminates for every list of index pairs *)
  Theorem assemble_total : exists cs, @assemble RNum verts pairs tol = Some cs.
  Proof.
    unfold assemble. destruct (chains_exactly_once pairs) as (chains & used & E & _).
    unfold chained_indices. rewrite E. cbn [option_map fst]. eexists. reflexivity.
  Qed.

  (* every vertex of every returned curve is a polyline vertex at an index that ends one of the index pairs *)
  Theorem assemble_vertices cs : @assemble RNum verts pairs tol = Some cs ->
    forall c, In c cs -> forall q, In q (cpts (@VO3 RNum) c) ->
    exists i, is_end pairs i /\ q = nth i verts (mk3 n0 n0 n0).
  Proof.
    unfold assemble. destruct (chained_indices pairs) as [chains|] eqn:E; [|discriminate].
    intros H; inversion H; subst cs; clear H. intros c Hc q Hq.
    apply in_flat_map in Hc. destruct Hc as (ch & Hch & Hc).
    pose proof (chains_members pairs chains E) as Hm. rewrite Forall_forall in Hm. specialize (Hm ch Hch). rewrite Forall_forall in Hm.
    destruct (from_points (@VO3 RNum) false (chain_points verts ch) tol false) as [c'| |] eqn:Ef; [|destruct Hc|destruct Hc].
    destruct Hc as [<- | []].
    apply (from_points_incl _ _ _ _ _ _ _ Ef) in Hq. unfold chain_points in Hq. apply in_map_iff in Hq.
    destruct Hq as (i & <- & Hi). exists i. split; [apply Hm; exact Hi | reflexivity].
  Qed.
End Assemble.
