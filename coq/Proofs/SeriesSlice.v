(* C17, continued: a slice (Series1::between) evaluates like its parent on its interval, has its ends exactly at
   the requested bounds, and the areas of the two pieces of a split add up to the whole.
   Stated for strictly increasing abscissae (with repeated abscissae the value at a repeated knot is whichever of
   the equal keys the binary search lands on, see Model/Series.v). *)
From Coq Require Import ZArith Reals Lra Lia List Bool Arith Sorted.
From Flocq Require Import Core.Raux.
From EG Require Import Num.Num Num.RNum Model.TolMap Model.Series Proofs.TolMap Proofs.Series.
Import ListNotations.
Local Open Scope R_scope.

(* ---- generalities on strictly increasing lists ---- *)
Lemma nth_error_nth0 (l : list R) k : (k < length l)%nat -> nth_error l k = Some (nth k l 0).
Proof. intros H. apply nth_error_nth'. exact H. Qed.

Lemma sinc_lt (l : list R) : strictly_increasing l -> forall i j, (i < j)%nat -> (j < length l)%nat -> nth i l 0 < nth j l 0.
Proof.
  intros H i j Hij. induction j as [|j IH]; [lia|]. intros Hj.
  destruct (Nat.eq_dec i j) as [->|Hne]; [apply H; exact Hj|].
  assert (nth i l 0 < nth j l 0) by (apply IH; lia). pose proof (H j Hj). lra.
Qed.

Lemma sinc_le (l : list R) : strictly_increasing l -> forall i j, (i <= j)%nat -> (j < length l)%nat -> nth i l 0 <= nth j l 0.
Proof. intros H i j Hij Hj. destruct (Nat.eq_dec i j) as [->|Hne]; [lra|]. left. apply sinc_lt; [exact H | lia | exact Hj]. Qed.

Lemma sinc_inj (l : list R) : strictly_increasing l -> forall i j, (i < length l)%nat -> (j < length l)%nat ->
  nth i l 0 = nth j l 0 -> i = j.
Proof.
  intros H i j Hi Hj E. destruct (Nat.lt_trichotomy i j) as [Hlt | [-> | Hlt]]; [|reflexivity|].
  - pose proof (sinc_lt l H i j Hlt Hj). lra.
  - pose proof (sinc_lt l H j i Hlt Hi). lra.
Qed.

Lemma pairwise_sorted_R (l : list R) :
  (forall i j, (i < j)%nat -> (j < length l)%nat -> nth i l 0 <= nth j l 0) -> Valid l.
Proof.
  induction l as [|a l IH]; intros H; [constructor|]. constructor.
  - apply IH. intros i j Hij Hj. apply (H (S i) (S j)); cbn; lia.
  - rewrite Forall_forall. intros x Hx. apply In_nth with (d := 0) in Hx. destruct Hx as (q & Hq & <-).
    apply (H 0%nat (S q)); cbn; lia.
Qed.

Lemma sinc_valid (l : list R) : strictly_increasing l -> Valid l.
Proof.
  intros H. apply pairwise_sorted_R. intros i j Hij Hj. apply sinc_le; [exact H | lia | exact Hj].
Qed.

Lemma last_nth0 (l : list R) : l <> [] -> last l 0 = nth (length l - 1) l 0.
Proof.
  intros H. pose proof (last_nth l 0 H) as E. rewrite nth_error_nth0 in E by (destruct l; [congruence | cbn; lia]).
  inversion E. reflexivity.
Qed.

(* ---- the binary search on a strictly increasing list ---- *)
Notation cb := (count_below Rlt_bool).

Lemma last_eq_notin : forall l x k, ~ In x l -> last_eq Rlt_bool l x k = None.
Proof.
  induction l as [|v l IH]; intros x k H; cbn; [reflexivity|].
  rewrite IH by (intros Hin; apply H; right; exact Hin).
  destruct (Rlt_bool v x) eqn:E1; [reflexivity|]. destruct (Rlt_bool x v) eqn:E2; [reflexivity|].
  rbool. exfalso. apply H. left. lra.
Qed.

Section Search.
  Variable xs : list R.
  Hypothesis Hs : strictly_increasing xs.

  Lemma cb_spec x :
    (cb xs x <= length xs)%nat /\ (forall i, (i < cb xs x)%nat -> nth i xs 0 < x) /\
    (forall i, (cb xs x <= i)%nat -> (i < length xs)%nat -> x <= nth i xs 0).
  Proof.
    destruct (count_below_spec xs x (sinc_valid xs Hs)) as (A & B & C). split; [exact A|]. split.
    - intros i Hi. apply (B i); [exact Hi | apply nth_error_nth0; lia].
    - intros i Hi Hl. apply (C i); [exact Hi | apply nth_error_nth0; exact Hl].
  Qed.

  Lemma cb_knot k : (k < length xs)%nat -> cb xs (nth k xs 0) = k.
  Proof.
    intros Hk. destruct (cb_spec (nth k xs 0)) as (A & B & C).
    destruct (Nat.lt_trichotomy (cb xs (nth k xs 0)) k) as [H | [H | H]]; [|exact H|].
    - pose proof (C (cb xs (nth k xs 0)) ltac:(lia) ltac:(lia)). pose proof (sinc_lt xs Hs _ _ H Hk). lra.
    - pose proof (B k H). lra.
  Qed.

  Lemma bsearch_knot k : (k < length xs)%nat -> @bsearch RNum xs (nth k xs 0) = inl k.
  Proof.
    intros Hk. unfold bsearch. rn.
    destruct (last_eq Rlt_bool xs (nth k xs 0) 0) as [j|] eqn:E.
    - apply last_eq_some in E. destruct E as (i & -> & Hi & _). cbn [Nat.add]. f_equal.
      assert (Hil : (i < length xs)%nat) by (apply nth_error_Some; congruence).
      rewrite nth_error_nth0 in Hi by exact Hil. inversion Hi. apply (sinc_inj xs Hs); assumption.
    - apply last_eq_none in E. exfalso. apply E. apply nth_In. exact Hk.
  Qed.

  Lemma bsearch_between x : ~ In x xs -> @bsearch RNum xs x = inr (cb xs x).
  Proof. intros H. unfold bsearch. rn. rewrite last_eq_notin by exact H. reflexivity. Qed.

  (* a point of the domain is a knot or lies strictly between two consecutive knots *)
  Lemma locate x : xs <> [] -> nth 0 xs 0 <= x <= last xs 0 ->
    (exists k, (k < length xs)%nat /\ x = nth k xs 0) \/
    (exists j, (S j < length xs)%nat /\ nth j xs 0 < x < nth (S j) xs 0 /\ cb xs x = S j /\ ~ In x xs).
  Proof.
    intros Hne [Hlo Hhi]. rewrite last_nth0 in Hhi by exact Hne.
    assert (Hlen : (0 < length xs)%nat) by (destruct xs; [congruence | cbn; lia]).
    destruct (cb_spec x) as (A & B & C). set (k := cb xs x) in *.
    destruct (Nat.eq_dec k (length xs)) as [Ek | Nk].
    { pose proof (B (length xs - 1)%nat ltac:(lia)). lra. }
    destruct (Req_dec x (nth k xs 0)) as [E | NE]; [left; exists k; split; [lia | exact E]|].
    right. destruct k as [|j] eqn:Ekk.
    { pose proof (C 0%nat ltac:(lia) Hlen). lra. }
    exists j. split; [lia|]. split; [|split; [reflexivity|]].
    - pose proof (B j ltac:(lia)). pose proof (C (S j) ltac:(lia) ltac:(lia)). lra.
    - intros Hin. apply In_nth with (d := 0) in Hin. destruct Hin as (q & Hq & Eq).
      destruct (Nat.le_gt_cases q j) as [Hqj | Hqj].
      + pose proof (B q ltac:(lia)). lra.
      + pose proof (C (S j) ltac:(lia) ltac:(lia)). pose proof (sinc_le xs Hs (S j) q ltac:(lia) Hq). lra.
  Qed.
End Search.

(* ---- evaluation on a closed segment ---- *)
Definition ell (xs ys : list R) (j : nat) (x : R) : R :=
  nth j ys 0 + (nth (S j) ys 0 - nth j ys 0) / (nth (S j) xs 0 - nth j xs 0) * (x - nth j xs 0).

Section Eval.
  Variables xs ys : list R.
  Hypothesis Hs : strictly_increasing xs.
  Hypothesis Hlen : length ys = length xs.

  Lemma eval_knot k : (k < length xs)%nat -> @s_interpolate RNum (xs, ys) (nth k xs 0) = Ok (Some (nth k ys 0)).
  Proof.
    intros Hk. destruct xs as [|x_first rest] eqn:Ex; [cbn in Hk; lia|]. rewrite <- Ex in *.
    assert (Hv : Valid (x_first :: rest)) by (rewrite <- Ex; apply sinc_valid; exact Hs).
    assert (Hl : length ys = length (x_first :: rest)) by (rewrite <- Ex; exact Hlen).
    destruct (interp_knot x_first rest ys Hv Hl (nth k xs 0)) as (j & Hj & E).
    { rewrite <- Ex. apply nth_In. exact Hk. }
    rewrite <- Ex in Hj, E. rewrite E.
    assert (Hjl : (j < length xs)%nat) by (apply nth_error_Some; congruence).
    rewrite nth_error_nth0 in Hj by exact Hjl. inversion Hj as [Hj'].
    rewrite (sinc_inj xs Hs j k Hjl Hk Hj'). reflexivity.
  Qed.

  Lemma ell_left j : ell xs ys j (nth j xs 0) = nth j ys 0.
  Proof. unfold ell. replace (nth j xs 0 - nth j xs 0) with 0 by ring. ring. Qed.
  Lemma ell_right j : (S j < length xs)%nat -> ell xs ys j (nth (S j) xs 0) = nth (S j) ys 0.
  Proof. intros Hj. pose proof (Hs j Hj). unfold ell. field. lra. Qed.

  Lemma eval_seg j x : (S j < length xs)%nat -> nth j xs 0 <= x <= nth (S j) xs 0 ->
    @s_interpolate RNum (xs, ys) x = Ok (Some (ell xs ys j x)).
  Proof.
    intros Hj [Hlo Hhi].
    destruct (Req_dec x (nth j xs 0)) as [-> | N1]; [rewrite eval_knot by lia; rewrite ell_left; reflexivity|].
    destruct (Req_dec x (nth (S j) xs 0)) as [-> | N2]; [rewrite eval_knot by lia; rewrite ell_right by exact Hj; reflexivity|].
    destruct xs as [|x_first rest] eqn:Ex; [cbn in Hj; lia|]. rewrite <- Ex in *.
    assert (Hv : Valid (x_first :: rest)) by (rewrite <- Ex; apply sinc_valid; exact Hs).
    assert (Hl : length ys = length (x_first :: rest)) by (rewrite <- Ex; exact Hlen).
    pose proof (interp_blend x_first rest ys Hv Hl x j) as E. rewrite <- Ex in E. apply E; [exact Hj | lra].
  Qed.
End Eval.

(* ---- refinement of a window of the parent ---- *)
Definition refines (xs ys xs' ys' : list R) : Prop :=
  strictly_increasing xs' /\ length ys' = length xs' /\ (2 <= length xs')%nat /\
  forall i, (S i < length xs')%nat ->
    exists j, (S j < length xs)%nat /\ nth j xs 0 <= nth i xs' 0 /\ nth (S i) xs' 0 <= nth (S j) xs 0 /\
              nth i ys' 0 = ell xs ys j (nth i xs' 0) /\ nth (S i) ys' 0 = ell xs ys j (nth (S i) xs' 0).

Theorem refines_eval (xs ys xs' ys' : list R) :
  strictly_increasing xs -> length ys = length xs -> refines xs ys xs' ys' ->
  forall x, nth 0 xs' 0 <= x <= last xs' 0 -> @s_interpolate RNum (xs', ys') x = @s_interpolate RNum (xs, ys) x.
Proof.
  intros Hs Hlen (Hs' & Hlen' & H2 & Href) x Hx.
  assert (Hne : xs' <> []) by (destruct xs'; [cbn in H2; lia | discriminate]).
  destruct (locate xs' Hs' x Hne Hx) as [(k & Hk & ->) | (i & Hi & Hb & _ & _)].
  - rewrite (eval_knot xs' ys' Hs' Hlen' k Hk).
    destruct (Nat.eq_dec (S k) (length xs')) as [Elast | Nlast].
    + (* the last knot: use the segment before it *)
      destruct k as [|k']; [lia|]. destruct (Href k' ltac:(lia)) as (j & Hj & A & B & _ & Ey).
      pose proof (Hs' k' ltac:(lia)).
      rewrite (eval_seg xs ys Hs Hlen j _ Hj) by lra. rewrite Ey. reflexivity.
    + destruct (Href k ltac:(lia)) as (j & Hj & A & B & Ey & _).
      pose proof (Hs' k ltac:(lia)).
      rewrite (eval_seg xs ys Hs Hlen j _ Hj) by lra. rewrite Ey. reflexivity.
  - rewrite (eval_seg xs' ys' Hs' Hlen' i x Hi) by lra.
    destruct (Href i Hi) as (j & Hj & A & B & E0 & E1).
    rewrite (eval_seg xs ys Hs Hlen j x Hj) by lra. f_equal. f_equal.
    pose proof (Hs j Hj). unfold ell at 1. rewrite E0, E1. unfold ell. field. split; lra.
Qed.

(* ---- consecutive-pair predicates and windows of knots ---- *)
Inductive adj (P : R -> R -> Prop) : list R -> Prop :=
| adj_nil : adj P []
| adj_one a : adj P [a]
| adj_cons a b l : P a b -> adj P (b :: l) -> adj P (a :: b :: l).

Lemma adj_nth P l : adj P l -> forall i, (S i < length l)%nat -> P (nth i l 0) (nth (S i) l 0).
Proof.
  induction 1 as [|a|a b l Hab Hl IH]; intros i Hi; cbn in Hi; try lia.
  destruct i as [|i]; [exact Hab|]. apply (IH i). cbn. lia.
Qed.

Lemma adj_app P l1 l2 : adj P l1 -> adj P l2 -> (l1 = [] \/ l2 = [] \/ P (last l1 0) (hd 0 l2)) -> adj P (l1 ++ l2).
Proof.
  induction 1 as [|a|a b l Hab Hl IH]; intros H2 Hj; cbn [app].
  - exact H2.
  - destruct l2 as [|c l2]; [constructor|]. constructor; [|exact H2].
    destruct Hj as [Hj | [Hj | Hj]]; [discriminate | discriminate | exact Hj].
  - constructor; [exact Hab|]. apply IH; [exact H2|].
    destruct Hj as [Hj | [Hj | Hj]]; [discriminate | right; left; exact Hj | right; right; exact Hj].
Qed.

Lemma forall2_nth (G : R -> R -> Prop) l m : Forall2 G l m ->
  length m = length l /\ forall i, (i < length l)%nat -> G (nth i l 0) (nth i m 0).
Proof.
  induction 1 as [|a b l m Hab Hlm [IH1 IH2]]; [split; [reflexivity | intros i Hi; cbn in Hi; lia]|].
  split; [cbn; f_equal; exact IH1|]. intros [|i] Hi; [exact Hab|]. apply IH2. cbn in Hi. lia.
Qed.

Definition wnd (l : list R) (a n : nat) : list R := map (fun k => nth k l 0) (seq a n).

Lemma wnd_length l a n : length (wnd l a n) = n.
Proof. unfold wnd. rewrite map_length, seq_length. reflexivity. Qed.
Lemma wnd_nth l : forall n a i, (i < n)%nat -> nth i (wnd l a n) 0 = nth (a + i) l 0.
Proof.
  induction n as [|n IH]; intros a i Hi; [lia|]. change (wnd l a (S n)) with (nth a l 0 :: wnd l (S a) n).
  destruct i as [|i]; [cbn [nth]; f_equal; lia|]. cbn [nth]. rewrite IH by lia. f_equal. lia.
Qed.
Lemma wnd_S l a n : wnd l a (S n) = nth a l 0 :: wnd l (S a) n.
Proof. reflexivity. Qed.
Lemma wnd_snoc l a n : wnd l a (S n) = wnd l a n ++ [nth (a + n) l 0].
Proof. unfold wnd. rewrite seq_S, map_app. reflexivity. Qed.
Lemma wnd_all l : wnd l 0 (length l) = l.
Proof.
  apply nth_ext with (d := 0) (d' := 0); [apply wnd_length|]. intros i Hi. rewrite wnd_length in Hi. rewrite wnd_nth by exact Hi. reflexivity.
Qed.
Lemma wnd_last l a n : (0 < n)%nat -> last (wnd l a n) 0 = nth (a + n - 1) l 0.
Proof. intros Hn. destruct n as [|n]; [lia|]. rewrite wnd_snoc, last_last. f_equal. lia. Qed.

Lemma skipn_cons_nth (l : list R) a : (a < length l)%nat -> skipn a l = nth a l 0 :: skipn (S a) l.
Proof.
  revert a. induction l as [|v l IH]; intros a Ha; [cbn in Ha; lia|].
  destruct a as [|a]; [reflexivity|]. cbn [skipn nth]. rewrite IH by (cbn in Ha; lia). reflexivity.
Qed.

(* take_while_le from index a: the window of knots not above x1 *)
Lemma tw_spec (xs ys : list R) (x1 : R) : length ys = length xs ->
  forall n a, (length xs - a = n)%nat -> (a <= length xs)%nat ->
  exists m, (a + m <= length xs)%nat /\
    @take_while_le RNum (skipn a xs) (skipn a ys) x1 = (wnd xs a m, wnd ys a m) /\
    (forall k, (a <= k < a + m)%nat -> nth k xs 0 <= x1) /\
    ((a + m < length xs)%nat -> x1 < nth (a + m) xs 0).
Proof.
  intros Hlen. induction n as [|n IH]; intros a Hn Ha.
  - exists 0%nat. assert (a = length xs) by lia. subst a. rewrite skipn_all. rewrite <- Hlen, skipn_all.
    split; [lia|]. split; [reflexivity|]. split; intros; lia.
  - assert (Hal : (a < length xs)%nat) by lia.
    rewrite (skipn_cons_nth xs a Hal), (skipn_cons_nth ys a ltac:(lia)). cbn [take_while_le]. rn.
    destruct (Rle_bool (nth a xs 0) x1) eqn:E; rbool.
    + destruct (IH (S a) ltac:(lia) ltac:(lia)) as (m & Hm & Et & Hle & Hgt). rewrite Et.
      exists (S m). split; [lia|]. split; [rewrite !wnd_S; reflexivity|]. split.
      * intros k Hk. destruct (Nat.eq_dec k a) as [->|Hne]; [exact E|]. apply Hle. lia.
      * intros Hlt. replace (a + S m)%nat with (S a + m)%nat by lia. apply Hgt. lia.
    + exists 0%nat. split; [lia|]. split; [reflexivity|]. split; [intros; lia|]. intros _. rewrite Nat.add_0_r. exact E.
Qed.

(* a strictly increasing list of points of the parent's graph with no parent knot strictly between consecutive
   points refines the parent *)
Definition gapP (xs : list R) (a b : R) : Prop := a < b /\ forall k, (k < length xs)%nat -> ~ (a < nth k xs 0 < b).
Definition onG (xs ys : list R) (x v : R) : Prop :=
  nth 0 xs 0 <= x <= last xs 0 /\ @s_interpolate RNum (xs, ys) x = Ok (Some v).

Lemma graph_refines (xs ys xs' ys' : list R) :
  strictly_increasing xs -> length ys = length xs -> xs <> [] ->
  adj (gapP xs) xs' -> Forall2 (onG xs ys) xs' ys' -> (2 <= length xs')%nat -> refines xs ys xs' ys'.
Proof.
  intros Hs Hlen Hne Hadj HG H2. destruct (forall2_nth _ _ _ HG) as [Hl' HGn].
  split; [intros i Hi; apply (adj_nth _ _ Hadj i Hi)|]. split; [exact Hl'|]. split; [exact H2|].
  intros i Hi. destruct (adj_nth _ _ Hadj i Hi) as [Hab Hgap].
  destruct (HGn i ltac:(lia)) as [[Ha0 Ha1] Ea]. destruct (HGn (S i) Hi) as [[Hb0 Hb1] Eb].
  set (a := nth i xs' 0) in *. set (b := nth (S i) xs' 0) in *.
  rewrite last_nth0 in Ha1, Hb1 by exact Hne.
  assert (Hpos : (0 < length xs)%nat) by (destruct xs; [congruence | cbn; lia]).
  destruct (cb_spec xs Hs b) as (A & B & C). set (c := count_below Rlt_bool xs b) in *.
  assert (Hc1 : (1 <= c)%nat).
  { destruct c as [|c']; [|lia]. pose proof (C 0%nat ltac:(lia) Hpos). lra. }
  assert (Hc2 : (c < length xs)%nat).
  { destruct (Nat.eq_dec c (length xs)) as [E|N]; [|lia]. pose proof (B (length xs - 1)%nat ltac:(lia)). lra. }
  exists (c - 1)%nat. replace (S (c - 1)) with c by lia.
  pose proof (B (c - 1)%nat ltac:(lia)) as Hjb. pose proof (C c ltac:(lia) Hc2) as Hbc.
  assert (Hja : nth (c - 1) xs 0 <= a).
  { destruct (Rle_dec (nth (c - 1) xs 0) a) as [H|H]; [exact H|]. exfalso. apply (Hgap (c - 1)%nat ltac:(lia)). lra. }
  split; [exact Hc2|]. split; [exact Hja|]. split; [exact Hbc|].
  pose proof (eval_seg xs ys Hs Hlen (c - 1) a) as Pa. replace (S (c - 1)) with c in Pa by lia.
  pose proof (eval_seg xs ys Hs Hlen (c - 1) b) as Pb. replace (S (c - 1)) with c in Pb by lia.
  rewrite Pa in Ea by (try exact Hc2; lra). rewrite Pb in Eb by (try exact Hc2; lra).
  inversion Ea. inversion Eb. split; reflexivity.
Qed.

(* every point of the domain has a value *)
Lemma domain_value (xs ys : list R) x : strictly_increasing xs -> length ys = length xs -> xs <> [] ->
  nth 0 xs 0 <= x <= last xs 0 -> exists v, @s_interpolate RNum (xs, ys) x = Ok (Some v).
Proof.
  intros Hs Hlen Hne Hx. destruct (locate xs Hs x Hne Hx) as [(k & Hk & ->) | (j & Hj & Hb & _ & _)].
  - eexists. apply eval_knot; assumption.
  - eexists. apply (eval_seg xs ys Hs Hlen j x Hj). lra.
Qed.

(* a window of consecutive knots: strictly increasing, nothing strictly between, on the graph *)
Lemma wnd_adj (xs : list R) : strictly_increasing xs -> forall n a, (a + n <= length xs)%nat -> adj (gapP xs) (wnd xs a n).
Proof.
  intros Hs. induction n as [|n IH]; intros a Ha; [constructor|].
  rewrite wnd_S. destruct n as [|n]; [constructor|]. rewrite wnd_S. constructor.
  - split; [apply Hs; lia|]. intros k Hk [H1 H2].
    destruct (Nat.le_gt_cases k a) as [Hka | Hka].
    + pose proof (sinc_le xs Hs k a Hka ltac:(lia)). lra.
    + pose proof (sinc_le xs Hs (S a) k ltac:(lia) Hk). lra.
  - rewrite <- wnd_S. apply IH. lia.
Qed.

Lemma wnd_onG (xs ys : list R) : strictly_increasing xs -> length ys = length xs ->
  forall n a, (a + n <= length xs)%nat -> Forall2 (onG xs ys) (wnd xs a n) (wnd ys a n).
Proof.
  intros Hs Hlen. induction n as [|n IH]; intros a Ha; [constructor|].
  rewrite !wnd_S. constructor; [|apply IH; lia].
  assert (Hne : xs <> []) by (destruct xs; [cbn in Ha; lia | discriminate]).
  split; [|apply eval_knot; [exact Hs | exact Hlen | lia]].
  rewrite last_nth0 by exact Hne. split; apply sinc_le; try exact Hs; lia.
Qed.

(* ---- Series1::between ---- *)
Lemma adj_sinc xs l : adj (gapP xs) l -> strictly_increasing l.
Proof. intros H i Hi. apply (adj_nth _ _ H i Hi). Qed.

Lemma unwrap_dd_ok (X Y : list R) : strictly_increasing X -> @unwrap_dd RNum X Y = Ok (X, Y).
Proof.
  intros H. unfold unwrap_dd. destruct (dd_try_from_spec X) as (A & _ & _). rewrite (A (sinc_valid X H)). reflexivity.
Qed.

Section Between.
  Variables xs ys : list R.
  Hypothesis Hs : strictly_increasing xs.
  Hypothesis Hlen : length ys = length xs.
  Hypothesis Hne : xs <> [].
  Variables x0 x1 : R.
  Hypothesis H0 : nth 0 xs 0 <= x0.
  Hypothesis H01 : x0 < x1.
  Hypothesis H1 : x1 <= last xs 0.

  Definition finish (hx hy mx my : list R) : res (@series RNum) :=
    match hx ++ mx with
    | [] => Panic
    | _ :: _ =>
        if Rlt_bool (last (hx ++ mx) 0) x1 then
          match @opt_or_nan RNum (@s_interpolate RNum (xs, ys) x1) with
          | Ok v => @unwrap_dd RNum ((hx ++ mx) ++ [x1]) ((hy ++ my) ++ [v])
          | Err => Err | Panic => Panic
          end
        else @unwrap_dd RNum (hx ++ mx) (hy ++ my)
    end.

  (* the shape of the result: an optional interpolated head, the window of knots in [x0, x1], an optional
     interpolated tail *)
  Record shape (X Y : list R) : Prop := {
    sh_adj : adj (gapP xs) X;
    sh_graph : Forall2 (onG xs ys) X Y;
    sh_first : nth 0 X 0 = x0;
    sh_last : last X 0 = x1;
    sh_two : (2 <= length X)%nat }.

  Lemma last_app_ne (l1 l2 : list R) : l2 <> [] -> last (l1 ++ l2) 0 = last l2 0.
  Proof.
    intros H. induction l1 as [|a l1 IH]; [reflexivity|]. cbn [app]. destruct (l1 ++ l2) eqn:E; [|exact IH].
    destruct l1; [cbn in E; congruence | discriminate].
  Qed.

  Lemma finish_ok (hx hy : list R) (i m : nat) :
    let X1 := hx ++ wnd xs i m in let Y1 := hy ++ wnd ys i m in
    (i + m <= length xs)%nat ->
    adj (gapP xs) X1 -> Forall2 (onG xs ys) X1 Y1 -> X1 <> [] -> nth 0 X1 0 = x0 ->
    (forall e, In e X1 -> e <= x1) ->
    (forall k, (k < i + m)%nat -> nth k xs 0 <= last X1 0) ->
    (forall k, (i + m <= k)%nat -> (k < length xs)%nat -> x1 < nth k xs 0) ->
    exists X Y, finish hx hy (wnd xs i m) (wnd ys i m) = Ok (X, Y) /\ shape X Y /\
      ((X = X1 /\ Y = Y1 /\ last X1 0 = x1) \/
       (exists v, X = X1 ++ [x1] /\ Y = Y1 ++ [v] /\ last X1 0 < x1 /\ @s_interpolate RNum (xs, ys) x1 = Ok (Some v))).
  Proof.
    intros X1 Y1 Him Hadj HG HneX Hfirst Hle Hbelow Habove. unfold finish. fold X1 Y1.
    destruct X1 as [|e0 rest] eqn:EX; [congruence|]. rewrite <- EX in *.
    assert (Hlast_in : In (last X1 0) X1).
    { rewrite EX. clear. revert e0. induction rest as [|b r IH]; intros e0; [left; reflexivity|]. right. apply IH. }
    destruct (Rlt_bool (last X1 0) x1) eqn:El; rbool.
    - (* the last retained knot is below x1: append the interpolated end *)
      destruct (domain_value xs ys x1 Hs Hlen Hne ltac:(lra)) as [v Ev]. rewrite Ev. cbn [opt_or_nan].
      assert (Hadj2 : adj (gapP xs) (X1 ++ [x1])).
      { apply adj_app; [exact Hadj | constructor|]. right. right. cbn [hd]. split; [exact El|].
        intros k Hk [Ha Hb]. destruct (Nat.lt_ge_cases k (i + m)) as [Hlt | Hge].
        - pose proof (Hbelow k Hlt). lra.
        - pose proof (Habove k Hge Hk). lra. }
      rewrite (unwrap_dd_ok _ _ (adj_sinc _ _ Hadj2)). exists (X1 ++ [x1]), (Y1 ++ [v]). split; [reflexivity|]. split.
      + constructor.
        * exact Hadj2.
        * apply Forall2_app; [exact HG|]. constructor; [|constructor]. split; [lra | exact Ev].
        * rewrite EX. cbn [app nth]. rewrite EX in Hfirst. exact Hfirst.
        * apply last_last.
        * rewrite app_length. cbn [length]. rewrite EX. cbn [length]. lia.
      + right. exists v. repeat split; try reflexivity; assumption.
    - (* the last retained knot is x1 itself *)
      assert (Elast : last X1 0 = x1) by (pose proof (Hle _ Hlast_in); lra).
      rewrite (unwrap_dd_ok _ _ (adj_sinc _ _ Hadj)). exists X1, Y1. split; [reflexivity|]. split.
      + constructor; try assumption.
        destruct rest as [|e1 rest']; [|rewrite EX; cbn [length]; lia].
        exfalso. rewrite EX in Elast, Hfirst. cbn in Elast, Hfirst. lra.
      + left. repeat split; try reflexivity. exact Elast.
  Qed.
End Between.

Section Between2.
  Variables xs ys : list R.
  Hypothesis Hs : strictly_increasing xs.
  Hypothesis Hlen : length ys = length xs.
  Hypothesis Hne : xs <> [].
  Variables x0 x1 : R.
  Hypothesis H0 : nth 0 xs 0 <= x0.
  Hypothesis H01 : x0 < x1.
  Hypothesis H1 : x1 <= last xs 0.

  Lemma in_wnd e l a n : In e (wnd l a n) -> exists k, (a <= k < a + n)%nat /\ e = nth k l 0.
  Proof. unfold wnd. rewrite in_map_iff. intros (k & <- & Hk). apply in_seq in Hk. exists k. split; [lia | reflexivity]. Qed.

  (* explicit form: which head, which window, which tail *)
  Theorem between_form :
    exists i m hx hy X Y,
      @s_between RNum (xs, ys) x0 x1 = Ok (X, Y) /\ shape xs ys x0 x1 X Y /\ (i + m <= length xs)%nat /\
      ((hx = [] /\ hy = [] /\ (i < length xs)%nat /\ nth i xs 0 = x0) \/
       (exists v0, hx = [x0] /\ hy = [v0] /\ ~ In x0 xs /\ i = count_below Rlt_bool xs x0 /\ (1 <= i < length xs)%nat /\
                   nth (i - 1) xs 0 < x0 < nth i xs 0 /\ v0 = ell xs ys (i - 1) x0)) /\
      ((X = hx ++ wnd xs i m /\ Y = hy ++ wnd ys i m /\ (1 <= m)%nat /\ nth (i + m - 1) xs 0 = x1) \/
       (exists v1, X = (hx ++ wnd xs i m) ++ [x1] /\ Y = (hy ++ wnd ys i m) ++ [v1] /\ ~ In x1 xs /\
                   @s_interpolate RNum (xs, ys) x1 = Ok (Some v1) /\ (i + m < length xs)%nat /\ (1 <= i + m)%nat /\
                   nth (i + m - 1) xs 0 < x1 < nth (i + m) xs 0)).
  Proof.
    assert (Hpos : (0 < length xs)%nat) by (destruct xs; [congruence | cbn; lia]).
    pose proof (last_nth0 xs Hne) as Elast.
    assert (Hdom0 : nth 0 xs 0 <= x0 <= last xs 0) by lra.
    destruct (locate xs Hs x0 Hne Hdom0) as [(a & Ha & E0) | (j & Hj & Hb0 & Hcb0 & Hnot0)].
    - (* x0 is the knot a *)
      destruct (tw_spec xs ys x1 Hlen (length xs - a) a eq_refl ltac:(lia)) as (m & Hm & Et & Hle & Hgt).
      assert (Hm1 : (1 <= m)%nat).
      { destruct m as [|m']; [|lia]. exfalso. rewrite Nat.add_0_r in Hgt. pose proof (Hgt Ha). lra. }
      assert (Hstart : @s_between RNum (xs, ys) x0 x1 = finish xs ys x1 [] [] (wnd xs a m) (wnd ys a m)).
      { unfold s_between. rewrite E0 at 1. rewrite (bsearch_knot xs Hs a Ha). cbv beta iota zeta. rn. rewrite Et. reflexivity. }
      destruct (finish_ok xs ys Hs Hlen Hne x0 x1 H0 H01 H1 [] [] a m) as (X & Y & EF & Hshape & Hform).
      + exact Hm.
      + cbn [app]. apply wnd_adj; assumption.
      + cbn [app]. apply wnd_onG; assumption.
      + cbn [app]. destruct m; [lia | rewrite wnd_S; discriminate].
      + cbn [app]. rewrite wnd_nth by lia. rewrite Nat.add_0_r. symmetry. exact E0.
      + cbn [app]. intros e He. apply in_wnd in He. destruct He as (k & Hk & ->). apply Hle. exact Hk.
      + cbn [app]. intros k Hk. rewrite wnd_last by lia. apply sinc_le; [exact Hs | lia | lia].
      + intros k Hk Hkl. destruct (Nat.eq_dec k (a + m)) as [->|Hneq]; [apply Hgt; exact Hkl|].
        pose proof (Hgt ltac:(lia)). pose proof (sinc_lt xs Hs (a + m) k ltac:(lia) Hkl). lra.
      + exists a, m, [], [], X, Y. split; [rewrite Hstart; exact EF|]. split; [exact Hshape|]. split; [exact Hm|].
        split; [left; repeat split; try reflexivity; [exact Ha | symmetry; exact E0]|].
        cbn [app] in Hform. destruct Hform as [(EX & EY & El) | (v & EX & EY & Hlt & Ev)].
        * left. rewrite wnd_last in El by lia. repeat split; assumption.
        * right. exists v. rewrite wnd_last in Hlt by lia.
          assert (Hnot1 : ~ In x1 xs).
          { intros Hin. apply In_nth with (d := 0) in Hin. destruct Hin as (q & Hq & Eq).
            destruct (Nat.lt_ge_cases q (a + m)) as [Hlt' | Hge].
            - pose proof (sinc_le xs Hs q (a + m - 1) ltac:(lia) ltac:(lia)). lra.
            - destruct (Nat.eq_dec q (a + m)) as [->|Hneq]; [pose proof (Hgt Hq); lra|].
              pose proof (Hgt ltac:(lia)). pose proof (sinc_lt xs Hs (a + m) q ltac:(lia) Hq). lra. }
          assert (Hlt2 : (a + m < length xs)%nat).
          { destruct (Nat.eq_dec (a + m) (length xs)) as [E|N]; [|lia]. exfalso. rewrite Elast in H1. replace (length xs - 1)%nat with (a + m - 1)%nat in H1 by lia. lra. }
          cbn [app]. repeat split; try assumption; try lia. apply Hgt. exact Hlt2.
    - (* x0 lies strictly inside segment j *)
      set (v0 := ell xs ys j x0).
      assert (Ev0 : @s_interpolate RNum (xs, ys) x0 = Ok (Some v0)) by (apply eval_seg; [exact Hs | exact Hlen | exact Hj | lra]).
      destruct (tw_spec xs ys x1 Hlen (length xs - S j) (S j) eq_refl ltac:(lia)) as (m & Hm & Et & Hle & Hgt).
      assert (Hstart : @s_between RNum (xs, ys) x0 x1 = finish xs ys x1 [x0] [v0] (wnd xs (S j) m) (wnd ys (S j) m)).
      { unfold s_between. rewrite (bsearch_between xs x0 Hnot0), Hcb0. cbv beta iota zeta. rewrite Ev0. cbn [opt_or_nan]. cbv beta iota zeta. rn. rewrite Et. reflexivity. }
      assert (Hgap0 : (1 <= m)%nat -> gapP xs x0 (nth (S j) xs 0)).
      { intros _. split; [lra|]. intros k Hk [A B]. destruct (Nat.le_gt_cases k j) as [Hkj | Hkj].
        - pose proof (sinc_le xs Hs k j Hkj ltac:(lia)). lra.
        - pose proof (sinc_le xs Hs (S j) k ltac:(lia) Hk). lra. }
      destruct (finish_ok xs ys Hs Hlen Hne x0 x1 H0 H01 H1 [x0] [v0] (S j) m) as (X & Y & EF & Hshape & Hform).
      + exact Hm.
      + change ([x0] ++ wnd xs (S j) m) with (x0 :: wnd xs (S j) m). destruct m as [|m']; [constructor|].
        rewrite wnd_S. constructor; [apply Hgap0; lia|]. rewrite <- wnd_S. apply wnd_adj; assumption.
      + change ([x0] ++ wnd xs (S j) m) with (x0 :: wnd xs (S j) m). change ([v0] ++ wnd ys (S j) m) with (v0 :: wnd ys (S j) m).
        constructor; [split; [lra | exact Ev0] | apply wnd_onG; assumption].
      + discriminate.
      + reflexivity.
      + intros e [<- | He]; [lra|]. apply in_wnd in He. destruct He as (k & Hk & ->). apply Hle. exact Hk.
      + intros k Hk. destruct m as [|m'].
        * cbn [wnd seq map app last]. rewrite Nat.add_0_r in Hk. pose proof (sinc_le xs Hs k j ltac:(lia) ltac:(lia)). lra.
        * rewrite last_app_ne by (rewrite wnd_S; discriminate). rewrite wnd_last by lia. apply sinc_le; [exact Hs | lia | lia].
      + intros k Hk Hkl. destruct (Nat.eq_dec k (S j + m)) as [->|Hneq]; [apply Hgt; exact Hkl|].
        pose proof (Hgt ltac:(lia)). pose proof (sinc_lt xs Hs (S j + m) k ltac:(lia) Hkl). lra.
      + exists (S j), m, [x0], [v0], X, Y. split; [rewrite Hstart; exact EF|]. split; [exact Hshape|]. split; [exact Hm|].
        split.
        { right. exists v0. replace (S j - 1)%nat with j by lia. repeat split; try reflexivity; try assumption; try lia; try lra. }
        assert (HlastX1 : last ([x0] ++ wnd xs (S j) m) 0 = if (m =? 0)%nat then x0 else nth (S j + m - 1) xs 0).
        { destruct m as [|m']; [reflexivity|]. rewrite last_app_ne by (rewrite wnd_S; discriminate). rewrite wnd_last by lia. reflexivity. }
        destruct Hform as [(EX & EY & El) | (v & EX & EY & Hlt & Ev)].
        * left. rewrite HlastX1 in El. destruct m as [|m']; [cbn in El; lra|]. cbn [Nat.eqb] in El. repeat split; try assumption. lia.
        * right. exists v. rewrite HlastX1 in Hlt.
          assert (Hlt2 : (S j + m < length xs)%nat).
          { destruct (Nat.eq_dec (S j + m) (length xs)) as [E|N]; [|lia]. exfalso.
            destruct m as [|m']; [lia|]. cbn [Nat.eqb] in Hlt. rewrite Elast in H1. replace (length xs - 1)%nat with (S j + S m' - 1)%nat in H1 by lia. lra. }
          assert (Hprev : nth (S j + m - 1) xs 0 < x1).
          { destruct m as [|m']; [|exact Hlt]. replace (S j + 0 - 1)%nat with j by lia. lra. }
          assert (Hnot1 : ~ In x1 xs).
          { intros Hin. apply In_nth with (d := 0) in Hin. destruct Hin as (q & Hq & Eq).
            destruct (Nat.lt_ge_cases q (S j + m)) as [Hlt' | Hge].
            - pose proof (sinc_le xs Hs q (S j + m - 1) ltac:(lia) ltac:(lia)). lra.
            - destruct (Nat.eq_dec q (S j + m)) as [->|Hneq]; [pose proof (Hgt Hq); lra|].
              pose proof (Hgt ltac:(lia)). pose proof (sinc_lt xs Hs (S j + m) q ltac:(lia) Hq). lra. }
          repeat split; try assumption; try lia. apply Hgt. exact Hlt2.
  Qed.

  (* a slice has its ends exactly at the requested bounds and evaluates like its parent on [x0, x1] *)
  Theorem between_ok :
    exists X Y, @s_between RNum (xs, ys) x0 x1 = Ok (X, Y) /\
      nth 0 X 0 = x0 /\ last X 0 = x1 /\ strictly_increasing X /\ length Y = length X /\
      forall x, x0 <= x <= x1 -> @s_interpolate RNum (X, Y) x = @s_interpolate RNum (xs, ys) x.
  Proof.
    destruct between_form as (i & m & hx & hy & X & Y & E & [Hadj HG Hf Hl H2] & _).
    exists X, Y. split; [exact E|]. split; [exact Hf|]. split; [exact Hl|].
    pose proof (graph_refines xs ys X Y Hs Hlen Hne Hadj HG H2) as Href.
    split; [apply Href|]. split; [apply Href|].
    intros x Hx. apply (refines_eval xs ys X Y Hs Hlen Href). rewrite Hf, Hl. exact Hx.
  Qed.
End Between2.

(* ---- areas ---- *)
Definition half : R := @nlit RNum 5 (-1).
Definition trap (xa ya xb yb : R) : R := (xb - xa) * (ya + yb) * half.
Definition sumR (l : list R) : R := fold_right Rplus 0 l.

Lemma fold_left_plus (l : list R) (a : R) : fold_left Rplus l a = a + sumR l.
Proof. revert a. induction l as [|v l IH]; intros a; cbn [fold_left sumR fold_right]; [lra|]. rewrite IH. unfold sumR. lra. Qed.

Lemma area_sum (X Y : list R) : @s_area_under RNum (X, Y) = sumR (@areas RNum X Y).
Proof. unfold s_area_under. cbn [fst snd]. rn. change (@n0 RNum) with 0. rewrite fold_left_plus. lra. Qed.

Lemma areas_cons2 xa xb (l : list R) ya yb (m : list R) :
  @areas RNum (xa :: xb :: l) (ya :: yb :: m) = trap xa ya xb yb :: @areas RNum (xb :: l) (yb :: m).
Proof. reflexivity. Qed.

Lemma areas_join : forall (l1 m1 : list R) a b l2 m2, length l1 = length m1 ->
  sumR (@areas RNum (l1 ++ [a]) (m1 ++ [b])) + sumR (@areas RNum (a :: l2) (b :: m2)) =
  sumR (@areas RNum (l1 ++ a :: l2) (m1 ++ b :: m2)).
Proof.
  induction l1 as [|x l1 IH]; intros m1 a b l2 m2 Hl; destruct m1 as [|y m1]; try discriminate.
  - cbn [app]. change (@areas RNum [a] [b]) with (@nil R). cbn [sumR fold_right]. lra.
  - cbn [app]. destruct l1 as [|x' l1]; destruct m1 as [|y' m1]; try discriminate.
    + cbn [app]. rewrite !areas_cons2. cbn [sumR fold_right]. change (@areas RNum [a] [b]) with (@nil R). cbn [fold_right]. unfold sumR. lra.
    + cbn [app]. rewrite !areas_cons2. cbn [sumR fold_right].
      specialize (IH (y' :: m1) a b l2 m2 ltac:(cbn in *; lia)). cbn [app] in IH. unfold sumR in *. lra.
Qed.

Section Areas.
  Variables xs ys : list R.
  Definition T (k : nat) : R := trap (nth k xs 0) (nth k ys 0) (nth (S k) xs 0) (nth (S k) ys 0).
  Fixpoint W (a n : nat) : R :=
    match n with
    | O => 0
    | S n' => match n' with O => 0 | S _ => T a + W (S a) n' end
    end.

  Lemma W_SS a n : W a (S (S n)) = T a + W (S a) (S n).
  Proof. reflexivity. Qed.

  Lemma areas_wnd : forall n a, sumR (@areas RNum (wnd xs a n) (wnd ys a n)) = W a n.
  Proof.
    induction n as [|n IH]; intros a; [reflexivity|]. destruct n as [|n]; [reflexivity|].
    rewrite W_SS, <- IH. rewrite (wnd_S xs a), (wnd_S ys a), (wnd_S xs (S a)), (wnd_S ys (S a)), areas_cons2.
    cbn [sumR fold_right]. unfold T. reflexivity.
  Qed.

  Lemma W_split : forall p a q, (1 <= p)%nat -> (1 <= q)%nat -> W a (p + q) = W a p + T (a + p - 1) + W (a + p) q.
  Proof.
    induction p as [|p IH]; intros a q Hp Hq; [lia|]. destruct p as [|p].
    - destruct q as [|q]; [lia|]. change (1 + S q)%nat with (S (S q)). rewrite W_SS. cbn [W]. replace (a + 1 - 1)%nat with a by lia. replace (a + 1)%nat with (S a) by lia. lra.
    - change (S (S p) + q)%nat with (S (S (p + q))). rewrite !W_SS. replace (S (p + q)) with (S p + q)%nat by lia.
      rewrite (IH (S a) q ltac:(lia) Hq). replace (S a + S p - 1)%nat with (a + S (S p) - 1)%nat by lia. replace (S a + S p)%nat with (a + S (S p))%nat by lia. lra.
  Qed.

  Lemma W_snoc a p : (1 <= p)%nat -> W a (S p) = W a p + T (a + p - 1).
  Proof. intros Hp. replace (S p) with (p + 1)%nat by lia. rewrite (W_split p a 1 Hp ltac:(lia)). cbn [W]. lra. Qed.

  (* window followed by one more point *)
  Lemma areas_wnd_snoc a n x v : (1 <= n)%nat ->
    sumR (@areas RNum (wnd xs a n ++ [x]) (wnd ys a n ++ [v])) = W a n + trap (nth (a + n - 1) xs 0) (nth (a + n - 1) ys 0) x v.
  Proof.
    intros Hn. destruct n as [|n]; [lia|]. rewrite (wnd_snoc xs), (wnd_snoc ys), <- !app_assoc. cbn [app].
    rewrite <- (areas_join (wnd xs a n) (wnd ys a n)) by (rewrite !wnd_length; reflexivity).
    rewrite <- (wnd_snoc xs), <- (wnd_snoc ys), areas_wnd, areas_cons2. cbn [sumR fold_right].
    change (@areas RNum [x] [v]) with (@nil R). cbn [fold_right]. replace (a + S n - 1)%nat with (a + n)%nat by lia. lra.
  Qed.

  (* one point followed by a window *)
  Lemma areas_cons_wnd a n x v : (1 <= n)%nat ->
    sumR (@areas RNum (x :: wnd xs a n) (v :: wnd ys a n)) = trap x v (nth a xs 0) (nth a ys 0) + W a n.
  Proof.
    intros Hn. destruct n as [|n]; [lia|]. rewrite (wnd_S xs), (wnd_S ys), areas_cons2. cbn [sumR fold_right].
    rewrite <- (wnd_S xs), <- (wnd_S ys). fold (sumR (@areas RNum (wnd xs a (S n)) (wnd ys a (S n)))). rewrite areas_wnd. reflexivity.
  Qed.

  Lemma trap_split j x : nth j xs 0 <> nth (S j) xs 0 ->
    trap (nth j xs 0) (nth j ys 0) x (ell xs ys j x) + trap x (ell xs ys j x) (nth (S j) xs 0) (nth (S j) ys 0) = T j.
  Proof. intros H. unfold T, trap, ell. field. lra. Qed.
End Areas.

(* ---- Series1::split_at_x strictly inside the domain ---- *)
Section Split.
  Variables xs ys : list R.
  Hypothesis Hs : strictly_increasing xs.
  Hypothesis Hlen : length ys = length xs.
  Hypothesis Hne : xs <> [].
  Variable x : R.
  Hypothesis Hlo : nth 0 xs 0 < x.
  Hypothesis Hhi : x < last xs 0.

  Theorem split_area :
    exists XL YL XR YR,
      @s_split_at_x RNum (xs, ys) x = Ok (Some (XL, YL), Some (XR, YR)) /\
      nth 0 XL 0 = nth 0 xs 0 /\ last XL 0 = x /\ nth 0 XR 0 = x /\ last XR 0 = last xs 0 /\
      (forall t, nth 0 xs 0 <= t <= x -> @s_interpolate RNum (XL, YL) t = @s_interpolate RNum (xs, ys) t) /\
      (forall t, x <= t <= last xs 0 -> @s_interpolate RNum (XR, YR) t = @s_interpolate RNum (xs, ys) t) /\
      @s_area_under RNum (XL, YL) + @s_area_under RNum (XR, YR) = @s_area_under RNum (xs, ys).
  Proof.
    assert (Hpos : (0 < length xs)%nat) by (destruct xs; [congruence | cbn; lia]).
    pose proof (last_nth0 xs Hne) as Elast.
    destruct (between_form xs ys Hs Hlen Hne (nth 0 xs 0) x ltac:(lra) Hlo ltac:(lra))
      as (iL & mL & hxL & hyL & XL & YL & EL & ShL & HmL & HheadL & HtailL).
    destruct (between_form xs ys Hs Hlen Hne x (last xs 0) ltac:(lra) Hhi ltac:(lra))
      as (iR & mR & hxR & hyR & XR & YR & ER & ShR & HmR & HheadR & HtailR).
    exists XL, YL, XR, YR.
    assert (Esplit : @s_split_at_x RNum (xs, ys) x = Ok (Some (XL, YL), Some (XR, YR))).
    { unfold s_split_at_x. cbn [fst]. destruct xs as [|xf rest] eqn:Ex; [congruence|]. rewrite <- Ex in *. rn. change (@n0 RNum) with 0.
      assert (B1 : Rlt_bool (last xs 0) x = false) by (apply Rltb_false; lra).
      assert (B2 : Rlt_bool x xf = false) by (apply Rltb_false; rewrite Ex in Hlo; cbn [nth] in Hlo; lra).
      rewrite B1, B2. replace xf with (nth 0 xs 0) by (rewrite Ex; reflexivity). rewrite EL, ER. reflexivity. }
    split; [exact Esplit|].
    destruct ShL as [AdjL GL FL LL TwoL]. destruct ShR as [AdjR GR FR LR TwoR].
    split; [exact FL|]. split; [exact LL|]. split; [exact FR|]. split; [exact LR|].
    pose proof (graph_refines xs ys XL YL Hs Hlen Hne AdjL GL TwoL) as RefL.
    pose proof (graph_refines xs ys XR YR Hs Hlen Hne AdjR GR TwoR) as RefR.
    split; [intros t Ht; apply (refines_eval xs ys XL YL Hs Hlen RefL); rewrite FL, LL; exact Ht|].
    split; [intros t Ht; apply (refines_eval xs ys XR YR Hs Hlen RefR); rewrite FR, LR; exact Ht|].
    (* areas *)
    rewrite !area_sum.
    assert (Ewhole : sumR (@areas RNum xs ys) = W xs ys 0 (length xs)).
    { rewrite <- (areas_wnd xs ys). rewrite wnd_all. rewrite <- Hlen, wnd_all. reflexivity. }
    rewrite Ewhole.
    (* left piece: starts at knot 0 *)
    destruct HheadL as [(-> & -> & HiL & EiL) | (v0 & _ & _ & Hnot & _)]; [|exfalso; apply Hnot; apply nth_In; exact Hpos].
    assert (iL = 0%nat) by (apply (sinc_inj xs Hs); [exact HiL | exact Hpos | exact EiL]). subst iL.
    (* right piece: ends at the last knot *)
    destruct HtailR as [(EXR & EYR & HmR1 & ElastR) | (v1 & _ & _ & Hnot & _)];
      [|exfalso; apply Hnot; rewrite Elast; apply nth_In; lia].
    assert (HendR : (iR + mR = length xs)%nat).
    { rewrite Elast in ElastR. apply (sinc_inj xs Hs) in ElastR; lia. }
    cbn [app Nat.add] in HtailL.
    destruct HtailL as [(EXL & EYL & HmL1 & ElastL) | (v1 & EXL & EYL & Hnot1 & Ev1 & HltL & _ & HbL)].
    - (* x is the knot mL - 1 *)
      destruct HheadR as [(-> & -> & HiR & EiR) | (v0 & _ & _ & Hnot & _)];
        [|exfalso; apply Hnot; rewrite <- ElastL; apply nth_In; lia].
      assert (iR = (mL - 1)%nat) by (apply (sinc_inj xs Hs); [exact HiR | lia | rewrite EiR, <- ElastL; f_equal; lia]). subst iR.
      cbn [app] in EXR, EYR. subst XL YL XR YR. rewrite !areas_wnd.
      destruct (Nat.eq_dec mL 1) as [->|Hm1].
      + cbn [W]. replace (1 - 1)%nat with 0%nat in * by lia. replace mR with (length xs) by lia. lra.
      + rewrite <- HendR. rewrite (W_split xs ys (mL - 1) 0 mR ltac:(lia) HmR1).
        replace mL with (S (mL - 1)) at 1 by lia. rewrite (W_snoc xs ys 0 (mL - 1) ltac:(lia)). cbn [Nat.add]. lra.
    - (* x lies strictly inside segment mL - 1 *)
      destruct HheadR as [(_ & _ & HiR & EiR) | (v0 & -> & -> & _ & EcbR & HiR & HbR & Ev0)];
        [exfalso; apply Hnot1; rewrite <- EiR; apply nth_In; exact HiR|].
      assert (EiR : iR = mL).
      { destruct (Nat.lt_trichotomy iR mL) as [H | [H | H]]; [|exact H|].
        - pose proof (sinc_le xs Hs iR (mL - 1) ltac:(lia) ltac:(lia)). lra.
        - pose proof (sinc_le xs Hs mL (iR - 1) ltac:(lia) ltac:(lia)). lra. }
      subst XL YL XR YR. clear EcbR. subst iR.
      assert (Ev : v1 = ell xs ys (mL - 1) x).
      { pose proof (eval_seg xs ys Hs Hlen (mL - 1) x) as P. replace (S (mL - 1)) with mL in P by lia.
        rewrite P in Ev1 by (try lia; lra). inversion Ev1. reflexivity. }
      cbn [app].
      rewrite (areas_wnd_snoc xs ys 0 mL x v1 ltac:(lia)), (areas_cons_wnd xs ys mL mR x v0 HmR1).
      rewrite <- HendR, (W_split xs ys mL 0 mR ltac:(lia) HmR1). cbn [Nat.add].
      rewrite <- (trap_split xs ys (mL - 1) x) by (replace (S (mL - 1)) with mL by lia; lra).
      rewrite Ev0, Ev. replace (S (mL - 1)) with mL by lia. lra.
  Qed.
End Split.
