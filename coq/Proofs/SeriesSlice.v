(* C17, continued: a slice (Series1::between) evaluates like its parent on its interval, has its ends exactly at
   the requested bounds, and the areas of the two pieces of a split add up to the whole.
   Stated for strictly increasing abscissae (with repeated abscissae the value at a repeated knot is whichever of
   the equal keys the binary search lands on, see Model/Series.v). *)
From Coq Require Import ZArith Reals Lra Lia List Bool Arith Sorted.
From Flocq Require Import Core.Raux.
From EG Require Import Num.Num Num.RNum Model.TolMap Model.Series Proofs.TolMap Proofs.Series.
Import ListNotations.
Local Open Scope R_scope.

(* ---- generalities on strictly increasing lists ---- *)
Lemma nth_error_nth0 (l : list R) k : (k < length l)%nat -> nth_error l k = Some (nth k l 0).
Proof. intros H. apply nth_error_nth'. exact H. Qed.

Lemma sinc_lt (l : list R) : strictly_increasing l -> forall i j, (i < j)%nat -> (j < length l)%nat -> nth i l 0 < nth j l 0.
Proof.
  intros H i j Hij. induction j as [|j IH]; [lia|]. intros Hj.
  destruct (Nat.eq_dec i j) as [->|Hne]; [apply H; exact Hj|].
  assert (nth i l 0 < nth j l 0) by (apply IH; lia). pose proof (H j Hj). lra.
Qed.

Lemma sinc_le (l : list R) : strictly_increasing l -> forall i j, (i <= j)%nat -> (j < length l)%nat -> nth i l 0 <= nth j l 0.
Proof. intros H i j Hij Hj. destruct (Nat.eq_dec i j) as [->|Hne]; [lra|]. left. apply sinc_lt; [exact H | lia | exact Hj]. Qed.

Lemma sinc_inj (l : list R) : strictly_increasing l -> forall i j, (i < length l)%nat -> (j < length l)%nat ->
  nth i l 0 = nth j l 0 -> i = j.
Proof.
  intros H i j Hi Hj E. destruct (Nat.lt_trichotomy i j) as [Hlt | [-> | Hlt]]; [|reflexivity|].
  - pose proof (sinc_lt l H i j Hlt Hj). lra.
  - pose proof (sinc_lt l H j i Hlt Hi). lra.
Qed.

Lemma pairwise_sorted_R (l : list R) :
  (forall i j, (i < j)%nat -> (j < length l)%nat -> nth i l 0 <= nth j l 0) -> Valid l.
Proof.
  induction l as [|a l IH]; intros H; [constructor|]. constructor.
  - apply IH. intros i j Hij Hj. apply (H (S i) (S j)); cbn; lia.
  - rewrite Forall_forall. intros x Hx. apply In_nth with (d := 0) in Hx. destruct Hx as (q & Hq & <-).
    apply (H 0%nat (S q)); cbn; lia.
Qed.

Lemma sinc_valid (l : list R) : strictly_increasing l -> Valid l.
Proof.
  intros H. apply pairwise_sorted_R. intros i j Hij Hj. apply sinc_le; [exact H | lia | exact Hj].
Qed.

Lemma last_nth0 (l : list R) : l <> [] -> last l 0 = nth (length l - 1) l 0.
Proof.
  intros H. pose proof (last_nth l 0 H) as E. rewrite nth_error_nth0 in E by (destruct l; [congruence | cbn; lia]).
  inversion E. reflexivity.
Qed.

(* ---- the binary search on a strictly increasing list ---- *)
Notation cb := (count_below Rlt_bool).

Lemma last_eq_notin : forall l x k, ~ In x l -> last_eq Rlt_bool l x k = None.
Proof.
  induction l as [|v l IH]; intros x k H; cbn; [reflexivity|].
  rewrite IH by (intros Hin; apply H; right; exact Hin).
  destruct (Rlt_bool v x) eqn:E1; [reflexivity|]. destruct (Rlt_bool x v) eqn:E2; [reflexivity|].
  rbool. exfalso. apply H. left. lra.
Qed.

Section Search.
  Variable xs : list R.
  Hypothesis Hs : strictly_increasing xs.

  Lemma cb_spec x :
    (cb xs x <= length xs)%nat /\ (forall i, (i < cb xs x)%nat -> nth i xs 0 < x) /\
    (forall i, (cb xs x <= i)%nat -> (i < length xs)%nat -> x <= nth i xs 0).
  Proof.
    destruct (count_below_spec xs x (sinc_valid xs Hs)) as (A & B & C). split; [exact A|]. split.
    - intros i Hi. apply (B i); [exact Hi | apply nth_error_nth0; lia].
    - intros i Hi Hl. apply (C i); [exact Hi | apply nth_error_nth0; exact Hl].
  Qed.

  Lemma cb_knot k : (k < length xs)%nat -> cb xs (nth k xs 0) = k.
  Proof.
    intros Hk. destruct (cb_spec (nth k xs 0)) as (A & B & C).
    destruct (Nat.lt_trichotomy (cb xs (nth k xs 0)) k) as [H | [H | H]]; [|exact H|].
    - pose proof (C (cb xs (nth k xs 0)) ltac:(lia) ltac:(lia)). pose proof (sinc_lt xs Hs _ _ H Hk). lra.
    - pose proof (B k H). lra.
  Qed.

  Lemma bsearch_knot k : (k < length xs)%nat -> @bsearch RNum xs (nth k xs 0) = inl k.
  Proof.
    intros Hk. unfold bsearch. rn.
    destruct (last_eq Rlt_bool xs (nth k xs 0) 0) as [j|] eqn:E.
    - apply last_eq_some in E. destruct E as (i & -> & Hi & _). cbn [Nat.add]. f_equal.
      assert (Hil : (i < length xs)%nat) by (apply nth_error_Some; congruence).
      rewrite nth_error_nth0 in Hi by exact Hil. inversion Hi. apply (sinc_inj xs Hs); assumption.
    - apply last_eq_none in E. exfalso. apply E. apply nth_In. exact Hk.
  Qed.

  Lemma bsearch_between x : ~ In x xs -> @bsearch RNum xs x = inr (cb xs x).
  Proof. intros H. unfold bsearch. rn. rewrite last_eq_notin by exact H. reflexivity. Qed.

  (* a point of the domain is a knot or lies strictly between two consecutive knots *)
  Lemma locate x : xs <> [] -> nth 0 xs 0 <= x <= last xs 0 ->
    (exists k, (k < length xs)%nat /\ x = nth k xs 0) \/
    (exists j, (S j < length xs)%nat /\ nth j xs 0 < x < nth (S j) xs 0 /\ cb xs x = S j /\ ~ In x xs).
  Proof.
    intros Hne [Hlo Hhi]. rewrite last_nth0 in Hhi by exact Hne.
    assert (Hlen : (0 < length xs)%nat) by (destruct xs; [congruence | cbn; lia]).
    destruct (cb_spec x) as (A & B & C). set (k := cb xs x) in *.
    destruct (Nat.eq_dec k (length xs)) as [Ek | Nk].
    { pose proof (B (length xs - 1)%nat ltac:(lia)). lra. }
    destruct (Req_dec x (nth k xs 0)) as [E | NE]; [left; exists k; split; [lia | exact E]|].
    right. destruct k as [|j] eqn:Ekk.
    { pose proof (C 0%nat ltac:(lia) Hlen). lra. }
    exists j. split; [lia|]. split; [|split; [reflexivity|]].
    - pose proof (B j ltac:(lia)). pose proof (C (S j) ltac:(lia) ltac:(lia)). lra.
    - intros Hin. apply In_nth with (d := 0) in Hin. destruct Hin as (q & Hq & Eq).
      destruct (Nat.le_gt_cases q j) as [Hqj | Hqj].
      + pose proof (B q ltac:(lia)). lra.
      + pose proof (C (S j) ltac:(lia) ltac:(lia)). pose proof (sinc_le xs Hs (S j) q ltac:(lia) Hq). lra.
  Qed.
End Search.

(* ---- evaluation on a closed segment ---- *)
Definition ell (xs ys : list R) (j : nat) (x : R) : R :=
  nth j ys 0 + (nth (S j) ys 0 - nth j ys 0) / (nth (S j) xs 0 - nth j xs 0) * (x - nth j xs 0).

Section Eval.
  Variables xs ys : list R.
  Hypothesis Hs : strictly_increasing xs.
  Hypothesis Hlen : length ys = length xs.

  Lemma eval_knot k : (k < length xs)%nat -> @s_interpolate RNum (xs, ys) (nth k xs 0) = Ok (Some (nth k ys 0)).
  Proof.
    intros Hk. destruct xs as [|x_first rest] eqn:Ex; [cbn in Hk; lia|]. rewrite <- Ex in *.
    assert (Hv : Valid (x_first :: rest)) by (rewrite <- Ex; apply sinc_valid; exact Hs).
    assert (Hl : length ys = length (x_first :: rest)) by (rewrite <- Ex; exact Hlen).
    destruct (interp_knot x_first rest ys Hv Hl (nth k xs 0)) as (j & Hj & E).
    { rewrite <- Ex. apply nth_In. exact Hk. }
    rewrite <- Ex in Hj, E. rewrite E.
    assert (Hjl : (j < length xs)%nat) by (apply nth_error_Some; congruence).
    rewrite nth_error_nth0 in Hj by exact Hjl. inversion Hj as [Hj'].
    rewrite (sinc_inj xs Hs j k Hjl Hk Hj'). reflexivity.
  Qed.

  Lemma ell_left j : ell xs ys j (nth j xs 0) = nth j ys 0.
  Proof. unfold ell. replace (nth j xs 0 - nth j xs 0) with 0 by ring. ring. Qed.
  Lemma ell_right j : (S j < length xs)%nat -> ell xs ys j (nth (S j) xs 0) = nth (S j) ys 0.
  Proof. intros Hj. pose proof (Hs j Hj). unfold ell. field. lra. Qed.

  Lemma eval_seg j x : (S j < length xs)%nat -> nth j xs 0 <= x <= nth (S j) xs 0 ->
    @s_interpolate RNum (xs, ys) x = Ok (Some (ell xs ys j x)).
  Proof.
    intros Hj [Hlo Hhi].
    destruct (Req_dec x (nth j xs 0)) as [-> | N1]; [rewrite eval_knot by lia; rewrite ell_left; reflexivity|].
    destruct (Req_dec x (nth (S j) xs 0)) as [-> | N2]; [rewrite eval_knot by lia; rewrite ell_right by exact Hj; reflexivity|].
    destruct xs as [|x_first rest] eqn:Ex; [cbn in Hj; lia|]. rewrite <- Ex in *.
    assert (Hv : Valid (x_first :: rest)) by (rewrite <- Ex; apply sinc_valid; exact Hs).
    assert (Hl : length ys = length (x_first :: rest)) by (rewrite <- Ex; exact Hlen).
    pose proof (interp_blend x_first rest ys Hv Hl x j) as E. rewrite <- Ex in E. apply E; [exact Hj | lra].
  Qed.
End Eval.

(* ---- refinement of a window of the parent ---- *)
Definition refines (xs ys xs' ys' : list R) : Prop :=
  strictly_increasing xs' /\ length ys' = length xs' /\ (2 <= length xs')%nat /\
  forall i, (S i < length xs')%nat ->
    exists j, (S j < length xs)%nat /\ nth j xs 0 <= nth i xs' 0 /\ nth (S i) xs' 0 <= nth (S j) xs 0 /\
              nth i ys' 0 = ell xs ys j (nth i xs' 0) /\ nth (S i) ys' 0 = ell xs ys j (nth (S i) xs' 0).

Theorem refines_eval (xs ys xs' ys' : list R) :
  strictly_increasing xs -> length ys = length xs -> refines xs ys xs' ys' ->
  forall x, nth 0 xs' 0 <= x <= last xs' 0 -> @s_interpolate RNum (xs', ys') x = @s_interpolate RNum (xs, ys) x.
Proof.
  intros Hs Hlen (Hs' & Hlen' & H2 & Href) x Hx.
  assert (Hne : xs' <> []) by (destruct xs'; [cbn in H2; lia | discriminate]).
  destruct (locate xs' Hs' x Hne Hx) as [(k & Hk & ->) | (i & Hi & Hb & _ & _)].
  - rewrite (eval_knot xs' ys' Hs' Hlen' k Hk).
    destruct (Nat.eq_dec (S k) (length xs')) as [Elast | Nlast].
    + (* the last knot: use the segment before it *)
      destruct k as [|k']; [lia|]. destruct (Href k' ltac:(lia)) as (j & Hj & A & B & _ & Ey).
      pose proof (Hs' k' ltac:(lia)).
      rewrite (eval_seg xs ys Hs Hlen j _ Hj) by lra. rewrite Ey. reflexivity.
    + destruct (Href k ltac:(lia)) as (j & Hj & A & B & Ey & _).
      pose proof (Hs' k ltac:(lia)).
      rewrite (eval_seg xs ys Hs Hlen j _ Hj) by lra. rewrite Ey. reflexivity.
  - rewrite (eval_seg xs' ys' Hs' Hlen' i x Hi) by lra.
    destruct (Href i Hi) as (j & Hj & A & B & E0 & E1).
    rewrite (eval_seg xs ys Hs Hlen j x Hj) by lra. f_equal. f_equal.
    pose proof (Hs j Hj). unfold ell at 1. rewrite E0, E1. unfold ell. field. split; lra.
Qed.

(* ---- consecutive-pair predicates and windows of knots ---- *)
Inductive adj (P : R -> R -> Prop) : list R -> Prop :=
| adj_nil : adj P []
| adj_one a : adj P [a]
| adj_cons a b l : P a b -> adj P (b :: l) -> adj P (a :: b :: l).

Lemma adj_nth P l : adj P l -> forall i, (S i < length l)%nat -> P (nth i l 0) (nth (S i) l 0).
Proof.
  induction 1 as [|a|a b l Hab Hl IH]; intros i Hi; cbn in Hi; try lia.
  destruct i as [|i]; [exact Hab|]. apply (IH i). cbn. lia.
Qed.

Lemma adj_app P l1 l2 : adj P l1 -> adj P l2 -> (l1 = [] \/ l2 = [] \/ P (last l1 0) (hd 0 l2)) -> adj P (l1 ++ l2).
Proof.
  induction 1 as [|a|a b l Hab Hl IH]; intros H2 Hj; cbn [app].
  - exact H2.
  - destruct l2 as [|c l2]; [constructor|]. constructor; [|exact H2].
    destruct Hj as [Hj | [Hj | Hj]]; [discriminate | discriminate | exact Hj].
  - constructor; [exact Hab|]. apply IH; [exact H2|].
    destruct Hj as [Hj | [Hj | Hj]]; [discriminate | right; left; exact Hj | right; right; exact Hj].
Qed.

Lemma forall2_nth (G : R -> R -> Prop) l m : Forall2 G l m ->
  length m = length l /\ forall i, (i < length l)%nat -> G (nth i l 0) (nth i m 0).
Proof.
  induction 1 as [|a b l m Hab Hlm [IH1 IH2]]; [split; [reflexivity | intros i Hi; cbn in Hi; lia]|].
  split; [cbn; f_equal; exact IH1|]. intros [|i] Hi; [exact Hab|]. apply IH2. cbn in Hi. lia.
Qed.

Definition wnd (l : list R) (a n : nat) : list R := map (fun k => nth k l 0) (seq a n).

Lemma wnd_length l a n : length (wnd l a n) = n.
Proof. unfold wnd. rewrite map_length, seq_length. reflexivity. Qed.
Lemma wnd_nth l : forall n a i, (i < n)%nat -> nth i (wnd l a n) 0 = nth (a + i) l 0.
Proof.
  induction n as [|n IH]; intros a i Hi; [lia|]. change (wnd l a (S n)) with (nth a l 0 :: wnd l (S a) n).
  destruct i as [|i]; [cbn [nth]; f_equal; lia|]. cbn [nth]. rewrite IH by lia. f_equal. lia.
Qed.
Lemma wnd_S l a n : wnd l a (S n) = nth a l 0 :: wnd l (S a) n.
Proof. reflexivity. Qed.
Lemma wnd_snoc l a n : wnd l a (S n) = wnd l a n ++ [nth (a + n) l 0].
Proof. unfold wnd. rewrite seq_S, map_app. reflexivity. Qed.
Lemma wnd_all l : wnd l 0 (length l) = l.
Proof.
  apply nth_ext with (d := 0) (d' := 0); [apply wnd_length|]. intros i Hi. rewrite wnd_length in Hi. rewrite wnd_nth by exact Hi. reflexivity.
Qed.
Lemma wnd_last l a n : (0 < n)%nat -> last (wnd l a n) 0 = nth (a + n - 1) l 0.
Proof. intros Hn. destruct n as [|n]; [lia|]. rewrite wnd_snoc, last_last. f_equal. lia. Qed.

Lemma skipn_cons_nth (l : list R) a : (a < length l)%nat -> skipn a l = nth a l 0 :: skipn (S a) l.
Proof.
  revert a. induction l as [|v l IH]; intros a Ha; [cbn in Ha; lia|].
  destruct a as [|a]; [reflexivity|]. cbn [skipn nth]. rewrite IH by (cbn in Ha; lia). reflexivity.
Qed.

(* take_while_le from index a: the window of knots not above x1 *)
Lemma tw_spec (xs ys : list R) (x1 : R) : length ys = length xs ->
  forall n a, (length xs - a = n)%nat -> (a <= length xs)%nat ->
  exists m, (a + m <= length xs)%nat /\
    @take_while_le RNum (skipn a xs) (skipn a ys) x1 = (wnd xs a m, wnd ys a m) /\
    (forall k, (a <= k < a + m)%nat -> nth k xs 0 <= x1) /\
    ((a + m < length xs)%nat -> x1 < nth (a + m) xs 0).
Proof.
  intros Hlen. induction n as [|n IH]; intros a Hn Ha.
  - exists 0%nat. assert (a = length xs) by lia. subst a. rewrite skipn_all. rewrite <- Hlen, skipn_all.
    split; [lia|]. split; [reflexivity|]. split; intros; lia.
  - assert (Hal : (a < length xs)%nat) by lia.
    rewrite (skipn_cons_nth xs a Hal), (skipn_cons_nth ys a ltac:(lia)). cbn [take_while_le]. rn.
    destruct (Rle_bool (nth a xs 0) x1) eqn:E; rbool.
    + destruct (IH (S a) ltac:(lia) ltac:(lia)) as (m & Hm & Et & Hle & Hgt). rewrite Et.
      exists (S m). split; [lia|]. split; [rewrite !wnd_S; reflexivity|]. split.
      * intros k Hk. destruct (Nat.eq_dec k a) as [->|Hne]; [exact E|]. apply Hle. lia.
      * intros Hlt. replace (a + S m)%nat with (S a + m)%nat by lia. apply Hgt. lia.
    + exists 0%nat. split; [lia|]. split; [reflexivity|]. split; [intros; lia|]. intros _. rewrite Nat.add_0_r. exact E.
Qed.
