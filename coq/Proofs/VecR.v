(* Real-number facts about the vector library. *)
From Coq Require Import ZArith Reals Lra Lia List.
From Flocq Require Import Core.Raux.
From EG Require Import Num.Num Num.RNum Lib.Vec.
Local Open Scope R_scope.

#[global] Hint Unfold dist2 norm2 nsq2 normalize2 div2 dot2 sub2 add2 neg2 scale2 lerp2 cross2
         dist3 norm3 nsq3 normalize3 div3 dot3 sub3 add3 neg3 scale3 lerp3 cross3
         mk3 x3 y3 z3 n0 n1 n2 nsq ngtb ngeb nofnat : vec.
Ltac vec_unfold :=
  repeat autounfold with vec in *;
  cbn [fst snd nadd nsub nmul ndiv nneg nabs nsqrt nofZ nltb nleb neqb nmin nmax nlit RNum num] in *.

Lemma sq_nonneg t : 0 <= t * t.
Proof. nra. Qed.

Lemma sqrt_sq_sum2 x y : sqrt (x * x + y * y) * sqrt (x * x + y * y) = x * x + y * y.
Proof. apply sqrt_sqrt; nra. Qed.
Lemma sqrt_sq_sum3 x y z : sqrt (x * x + y * y + z * z) * sqrt (x * x + y * y + z * z) = x * x + y * y + z * z.
Proof. apply sqrt_sqrt; nra. Qed.

Lemma norm2_nonneg (v : @V2 RNum) : 0 <= norm2 v.
Proof. vec_unfold. apply sqrt_ge_0. Qed.
Lemma norm3_nonneg (v : @V3 RNum) : 0 <= norm3 v.
Proof. vec_unfold. apply sqrt_ge_0. Qed.

Lemma norm2_sq (v : @V2 RNum) : norm2 v * norm2 v = dot2 v v.
Proof. destruct v as [x y]. vec_unfold. apply sqrt_sq_sum2. Qed.
Lemma norm3_sq (v : @V3 RNum) : norm3 v * norm3 v = dot3 v v.
Proof. destruct v as [[x y] z]. vec_unfold. apply sqrt_sq_sum3. Qed.

Lemma norm2_neg (v : @V2 RNum) : norm2 (neg2 v) = norm2 v.
Proof. destruct v as [x y]. vec_unfold. f_equal. ring. Qed.
Lemma norm3_neg (v : @V3 RNum) : norm3 (neg3 v) = norm3 v.
Proof. destruct v as [[x y] z]. vec_unfold. f_equal. ring. Qed.

Lemma dist2_sym (a b : @V2 RNum) : dist2 a b = dist2 b a.
Proof. destruct a, b. vec_unfold. f_equal. ring. Qed.
Lemma dist3_sym (a b : @V3 RNum) : dist3 a b = dist3 b a.
Proof. destruct a as [[? ?] ?], b as [[? ?] ?]. vec_unfold. f_equal. ring. Qed.

(* Cauchy-Schwarz in the form used: |v.n| <= |v| for unit n *)
Lemma cs2_unit (v n : @V2 RNum) : dot2 n n = 1 -> Rabs (dot2 v n) <= norm2 v.
Proof.
  destruct v as [x y], n as [a b]. intros Hn. vec_unfold.
  assert (H : (x * a + y * b) * (x * a + y * b) <= x * x + y * y).
  { apply Rle_trans with ((x * x + y * y) * (a * a + b * b)); [| rewrite Hn; lra].
    assert (E : (x * x + y * y) * (a * a + b * b) - (x * a + y * b) * (x * a + y * b)
                = (x * b - y * a) * (x * b - y * a)) by ring.
    pose proof (sq_nonneg (x * b - y * a)). lra. }
  assert (Hs := sqrt_sq_sum2 x y). assert (H0 := sqrt_ge_0 (x * x + y * y)).
  apply Rabs_le. split; nra.
Qed.
Lemma cs3_unit (v n : @V3 RNum) : dot3 n n = 1 -> Rabs (dot3 v n) <= norm3 v.
Proof.
  destruct v as [[x y] z], n as [[a b] c]. intros Hn. vec_unfold.
  assert (H : (x * a + y * b + z * c) * (x * a + y * b + z * c) <= x * x + y * y + z * z).
  { apply Rle_trans with ((x * x + y * y + z * z) * (a * a + b * b + c * c)); [| rewrite Hn; lra].
    assert (E : (x * x + y * y + z * z) * (a * a + b * b + c * c)
                - (x * a + y * b + z * c) * (x * a + y * b + z * c)
                = (x*b - y*a)*(x*b - y*a) + (x*c - z*a)*(x*c - z*a) + (y*c - z*b)*(y*c - z*b)) by ring.
    pose proof (sq_nonneg (x*b - y*a)). pose proof (sq_nonneg (x*c - z*a)).
    pose proof (sq_nonneg (y*c - z*b)). lra. }
  assert (Hs := sqrt_sq_sum3 x y z). assert (H0 := sqrt_ge_0 (x * x + y * y + z * z)).
  apply Rabs_le. split; nra.
Qed.

(* v . normalize v = |v| *)
Lemma dot2_normalize (v : @V2 RNum) : 0 < norm2 v -> dot2 v (normalize2 v) = norm2 v.
Proof.
  destruct v as [x y]. vec_unfold. intros H.
  assert (Hs := sqrt_sq_sum2 x y). set (s := sqrt (x * x + y * y)) in *.
  apply Rmult_eq_reg_r with s; [| lra]. rewrite Hs. field. lra.
Qed.
Lemma dot3_normalize (v : @V3 RNum) : 0 < norm3 v -> dot3 v (normalize3 v) = norm3 v.
Proof.
  destruct v as [[x y] z]. vec_unfold. intros H.
  assert (Hs := sqrt_sq_sum3 x y z). set (s := sqrt (x * x + y * y + z * z)) in *.
  apply Rmult_eq_reg_r with s; [| lra]. rewrite Hs. field. lra.
Qed.
Lemma normalize2_unit (v : @V2 RNum) : 0 < norm2 v -> dot2 (normalize2 v) (normalize2 v) = 1.
Proof.
  destruct v as [x y]. vec_unfold. intros H.
  assert (Hs := sqrt_sq_sum2 x y). set (s := sqrt (x * x + y * y)) in *.
  apply Rmult_eq_reg_r with (s * s); [| nra]. rewrite Rmult_1_l.
  assert (E : (x / s * (x / s) + y / s * (y / s)) * (s * s) = x * x + y * y) by (field; lra).
  rewrite E. lra.
Qed.
Lemma normalize3_unit (v : @V3 RNum) : 0 < norm3 v -> dot3 (normalize3 v) (normalize3 v) = 1.
Proof.
  destruct v as [[x y] z]. vec_unfold. intros H.
  assert (Hs := sqrt_sq_sum3 x y z). set (s := sqrt (x * x + y * y + z * z)) in *.
  apply Rmult_eq_reg_r with (s * s); [| nra]. rewrite Rmult_1_l.
  assert (E : (x / s * (x / s) + y / s * (y / s) + z / s * (z / s)) * (s * s) = x * x + y * y + z * z) by (field; lra).
  rewrite E. lra.
Qed.
