(* C04: the airfoil edge extraction as a consumer of between_lengths - on an open curve exactly one of the two orders is
   well-posed, the other yields nothing, and the result is the same whichever way the spanning ray points. *)
From Coq Require Import ZArith Reals Lra Lia List Bool Arith.
From Flocq Require Import Core.Raux.
From EG Require Import Num.Num Num.RNum Lib.Vec Model.TolMap Model.Curve Model.Portion Proofs.TolMap Proofs.VecR Proofs.Curve Proofs.Portion.
Import ListNotations.
Local Open Scope R_scope.

Section EdgeSub.
  Variable V : @VOps RNum.
  Hypothesis L : VLaws V.
  Variable c : curve V.
  Hypothesis Hwf : WF V c.

  Lemma between_reversed_open la lb : cclosed V c = false -> lb < la -> between_lengths V c la lb = Ok None.
  Proof.
    intros Hc Hlt. unfold between_lengths.
    rewrite (portion_ill_posed V L c Hwf la lb); [reflexivity|]. right. right. right. split; assumption.
  Qed.

  (* what the extraction returns on an open curve: the piece of the well-posed order when it is shorter than the limit *)
  Definition one_order (lo hi frac : R) : res (option (curve V)) :=
    match between_lengths V c lo hi with
    | Ok p => Ok (short_piece V (clength V c * frac) p)
    | Err => Err | Panic => Panic
    end.

  Theorem edge_sub_open_forward la lb frac : cclosed V c = false -> la < lb ->
    edge_sub V c la lb frac = one_order la lb frac.
  Proof.
    intros Hc Hlt. unfold edge_sub, one_order. rewrite (between_reversed_open lb la Hc Hlt).
    destruct (between_lengths V c la lb) as [p| |]; try reflexivity.
    cbv zeta. destruct (short_piece V _ p) as [q|]; reflexivity.
  Qed.

  Theorem edge_sub_open_backward la lb frac : cclosed V c = false -> la < lb ->
    edge_sub V c lb la frac = one_order la lb frac.
  Proof.
    intros Hc Hlt. unfold edge_sub, one_order. rewrite (between_reversed_open lb la Hc Hlt).
    destruct (between_lengths V c la lb) as [p| |]; reflexivity.
  Qed.

  (* the result does not depend on which way the spanning ray points *)
  Theorem edge_sub_open_symmetric la lb frac : cclosed V c = false -> la <> lb ->
    edge_sub V c la lb frac = edge_sub V c lb la frac.
  Proof.
    intros Hc Hne. destruct (Rlt_or_le la lb) as [H|H].
    - rewrite edge_sub_open_forward, edge_sub_open_backward by assumption. reflexivity.
    - assert (H' : lb < la) by lra.
      rewrite (edge_sub_open_backward lb la frac Hc H'), (edge_sub_open_forward lb la frac Hc H'). reflexivity.
  Qed.

  (* whatever is returned is shorter than the stated fraction of the perimeter, on open and closed curves alike *)
  Theorem edge_sub_short la lb frac q : edge_sub V c la lb frac = Ok (Some q) -> clength V q < clength V c * frac.
  Proof.
    unfold edge_sub. destruct (between_lengths V c la lb) as [p0| |]; destruct (between_lengths V c lb la) as [p1| |]; try discriminate.
    cbv zeta. intros H.
    assert (S : forall p r, short_piece V (clength V c * frac) p = Some r -> clength V r < clength V c * frac).
    { intros p r. unfold short_piece. destruct p as [x|]; [|discriminate].
      destruct (nltb (clength V x) (clength V c * frac)) eqn:E; [|discriminate]. intros Hr; inversion Hr; subst.
      cbn [nltb RNum] in E. apply Rltb_true in E. exact E. }
    destruct (short_piece V (clength V c * frac) p0) as [x|] eqn:E0.
    - inversion H; subst. exact (S _ _ E0).
    - inversion H as [H1]. exact (S _ _ H1).
  Qed.
End EdgeSub.
