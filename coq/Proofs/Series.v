(* C17: discrete domains and series -- over the reals. *)
From Coq Require Import ZArith Reals Lra Lia List Bool Arith Sorted.
From Flocq Require Import Core.Raux.
From EG Require Import Num.Num Num.RNum Model.TolMap Model.Series Proofs.TolMap.
Import ListNotations.
Local Open Scope R_scope.

Notation Valid := (StronglySorted Rle).
Ltac rn := cbn [nltb nleb neqb nadd nsub nmul ndiv nneg nabs nmin nmax nofZ nlit nfinite nisnan RNum num] in *.

(* ---- validity check ---- *)
Lemma ascending_valid (l : list R) : @ascending RNum l = true <-> Valid l.
Proof.
  induction l as [|a [|b l] IH].
  - split; [constructor | reflexivity].
  - split; [repeat constructor | reflexivity].
  - cbn [ascending]. rn. rewrite andb_true_iff, IH. split.
    + intros [H1 H2]. rbool. constructor; [exact H2|].
      constructor; [exact H1|]. apply StronglySorted_inv in H2. destruct H2 as [_ H2].
      rewrite Forall_forall in *. intros x Hx. apply H2 in Hx. lra.
    + intros H. apply StronglySorted_inv in H. destruct H as [H1 H2]. split; [|exact H1].
      apply Rleb_true. inversion H2; assumption.
Qed.

Lemma all_finite_R (l : list R) : @all_finite RNum l = true.
Proof. unfold all_finite. apply forallb_forall. reflexivity. Qed.

Theorem dd_try_from_spec (l : list R) :
  (Valid l -> @dd_try_from RNum l = Ok l) /\ (forall d, @dd_try_from RNum l = Ok d -> d = l /\ Valid l) /\
  (@dd_try_from RNum l = Ok l \/ @dd_try_from RNum l = Err).
Proof.
  unfold dd_try_from. rewrite all_finite_R. cbn [negb].
  destruct (@ascending RNum l) eqn:E; cbn [negb].
  - apply ascending_valid in E. split; [auto|]. split; [|auto]. intros d0 H; inversion H; subst; split; [reflexivity | exact E].
  - split; [intros H; apply ascending_valid in H; congruence|]. split; [discriminate | auto].
Qed.

Lemma valid_app_last (l : list R) v : Valid l -> (forall x, In x l -> x <= v) -> Valid (l ++ [v]).
Proof.
  induction 1 as [|a l Hs IH Hf]; intros Hb; cbn; [repeat constructor|].
  constructor; [apply IH; intros x Hx; apply Hb; right; exact Hx|].
  rewrite Forall_forall in *. intros x Hx. apply in_app_or in Hx. destruct Hx as [Hx | [<- | []]]; [apply Hf; exact Hx|].
  apply Hb. left. reflexivity.
Qed.

Lemma valid_last_max (l : list R) d : Valid l -> forall x, In x l -> x <= last l d.
Proof.
  induction 1 as [|a l Hs IH Hf]; intros x Hx; [contradiction|].
  destruct l as [|b l]; [destruct Hx as [<- | []]; cbn; lra|].
  cbn [last]. destruct Hx as [<- | Hx]; [|apply IH; exact Hx].
  rewrite Forall_forall in Hf. apply Rle_trans with b; [apply Hf; left; reflexivity|]. apply IH. left. reflexivity.
Qed.

(* push: accepted exactly for values not below the last one, and validity is preserved *)
Theorem dd_push_spec (vals : list R) (v : R) :
  Valid vals ->
  match @dd_push RNum vals v with
  | Ok r => r = vals ++ [v] /\ Valid r
  | Err => vals <> [] /\ v < last vals 0
  | Panic => False
  end.
Proof.
  intros Hv. unfold dd_push. rn. cbn [negb]. destruct vals as [|a vals].
  - split; [reflexivity | repeat constructor].
  - change (@n0 RNum) with 0. destruct (Rlt_bool v (last (a :: vals) 0)) eqn:E; rbool.
    + split; [discriminate | exact E].
    + split; [reflexivity|]. apply valid_app_last; [exact Hv|]. intros x Hx.
      pose proof (valid_last_max (a :: vals) 0 Hv x Hx). lra.
Qed.

(* ---- linear ---- *)
Lemma valid_map_seq (f : nat -> R) : (forall i j, (i <= j)%nat -> f i <= f j) ->
  forall n s, Valid (map f (seq s n)).
Proof.
  intros Hm. induction n as [|n IH]; intros s; cbn; [constructor|].
  constructor; [apply IH|]. rewrite Forall_forall. intros x Hx. apply in_map_iff in Hx.
  destruct Hx as (j & <- & Hj). apply in_seq in Hj. apply Hm. lia.
Qed.

Lemma nofnat_R (i : nat) : @nofnat RNum i = INR i.
Proof. unfold nofnat. cbn [nofZ RNum]. symmetry. apply INR_IZR_INZ. Qed.

Theorem dd_linear_spec (a b : R) (n : nat) :
  length (@dd_linear RNum a b n) = n /\ Valid (@dd_linear RNum a b n) /\
  ((2 <= n)%nat -> hd 0 (@dd_linear RNum a b n) = Rmin a b /\ last (@dd_linear RNum a b n) 0 = Rmax a b) /\
  (n = 1%nat -> @dd_linear RNum a b n = [Rmin a b]).
Proof.
  unfold dd_linear. rn. destruct n as [|[|n]].
  - split; [reflexivity|]. split; [constructor|]. split; [lia | discriminate].
  - split; [reflexivity|]. split; [repeat constructor|]. split; [lia | reflexivity].
  - set (lo := Rmin a b). set (hi := Rmax a b). set (m := S (S n)).
    assert (Hlh : lo <= hi) by (unfold lo, hi, Rmin, Rmax; destruct (Rle_dec a b); lra).
    replace (@nofnat RNum (m - 1)) with (INR (m - 1)) by (symmetry; apply nofnat_R).
    assert (Hm1 : 0 < INR (m - 1)) by (apply lt_0_INR; unfold m; lia).
    set (step := (hi - lo) / INR (m - 1)).
    assert (Hstep : 0 <= step) by (unfold step; apply Rmult_le_pos; [lra | left; apply Rinv_0_lt_compat; exact Hm1]).
    split; [rewrite map_length, seq_length; reflexivity|]. split.
    + apply valid_map_seq. intros i j Hij. rewrite !nofnat_R.
      assert (INR i <= INR j) by (apply le_INR; exact Hij).
      apply Rplus_le_compat_l. apply Rmult_le_compat_r; assumption.
    + split; [|discriminate]. intros _. split.
      * unfold m. cbn [seq map hd]. rewrite nofnat_R. simpl INR. lra.
      * unfold m. rewrite seq_S, map_app. cbn [map]. rewrite last_last. cbn [Nat.add]. rewrite nofnat_R.
        replace (S n) with (m - 1)%nat by (unfold m; lia). unfold step. field_simplify; lra.
Qed.

Theorem dd_linear_either_order (a b : R) (n : nat) : @dd_linear RNum a b n = @dd_linear RNum b a n.
Proof. unfold dd_linear. rn. rewrite (Rmin_comm a b), (Rmax_comm a b). reflexivity. Qed.

(* ---- scaling and shifting keep the abscissae valid ---- *)
Lemma valid_map_mono (f : R -> R) l : (forall x y, x <= y -> f x <= f y) -> Valid l -> Valid (map f l).
Proof.
  intros Hm. induction 1 as [|a l Hs IH Hf]; cbn; constructor; auto.
  rewrite Forall_forall in *. intros x Hx. apply in_map_iff in Hx. destruct Hx as (y & <- & Hy). apply Hm. apply Hf. exact Hy.
Qed.
Lemma valid_rev_anti (f : R -> R) l : (forall x y, x <= y -> f y <= f x) -> Valid l -> Valid (rev (map f l)).
Proof.
  intros Hm. induction 1 as [|a l Hs IH Hf]; cbn; [constructor|].
  apply valid_app_last; [exact IH|]. intros x Hx. apply in_rev in Hx. apply in_map_iff in Hx.
  destruct Hx as (y & <- & Hy). apply Hm. rewrite Forall_forall in Hf. apply Hf. exact Hy.
Qed.

Theorem s_scaled_by_valid (xs ys : list R) (sx sy : R) :
  Valid xs -> exists xs' ys', @s_scaled_by RNum (xs, ys) sx sy = Ok (xs', ys') /\ Valid xs' /\
                              length xs' = length xs /\ length ys' = length ys.
Proof.
  intros Hv. unfold s_scaled_by, unwrap_dd. cbn [fst snd]. rn. change (@n0 RNum) with 0.
  destruct (Rlt_bool sx 0) eqn:E; rbool.
  - assert (Hr : Valid (rev (map (fun v => v * sx) xs))) by (apply valid_rev_anti; [intros; nra | exact Hv]).
    rewrite (proj1 (dd_try_from_spec _) Hr). eexists _, _. split; [reflexivity|]. split; [exact Hr|].
    rewrite !rev_length, !map_length. auto.
  - assert (Hr : Valid (map (fun v => v * sx) xs)) by (apply valid_map_mono; [intros; nra | exact Hv]).
    rewrite (proj1 (dd_try_from_spec _) Hr). eexists _, _. split; [reflexivity|]. split; [exact Hr|].
    rewrite !map_length. auto.
Qed.

Theorem s_shift_by_valid (xs ys : list R) (dx dy : R) :
  Valid xs -> exists xs' ys', @s_shift_by RNum (xs, ys) dx dy = Ok (xs', ys') /\ Valid xs' /\
                              length xs' = length xs /\ length ys' = length ys.
Proof.
  intros Hv. unfold s_shift_by, unwrap_dd. cbn [fst snd]. rn.
  assert (Hr : Valid (map (fun v => v + dx) xs)) by (apply valid_map_mono; [intros; lra | exact Hv]).
  rewrite (proj1 (dd_try_from_spec _) Hr). eexists _, _. split; [reflexivity|]. split; [exact Hr|].
  rewrite !map_length. auto.
Qed.

(* ---- interpolation ---- *)
Lemma s_interpolate_cons (x_first : R) (rest ys : list R) (x : R) :
  @s_interpolate RNum (x_first :: rest, ys) x =
  if Rlt_bool x x_first || Rlt_bool (last (x_first :: rest) 0) x then Ok None
  else match @bsearch RNum (x_first :: rest) x with
       | inl i => if (i <? length ys)%nat then Ok (Some (nth i ys 0)) else Panic
       | inr O => Panic
       | inr (S j) =>
           if (S j <? length (x_first :: rest))%nat && (S j <? length ys)%nat then
             Ok (Some (nth j ys 0 + (nth (S j) ys 0 - nth j ys 0) / (nth (S j) (x_first :: rest) 0 - nth j (x_first :: rest) 0)
                                    * (x - nth j (x_first :: rest) 0)))
           else Panic
       end.
Proof. reflexivity. Qed.

Section Interp.
  Variables (x_first : R) (xs_rest ys : list R).
  Let xs := x_first :: xs_rest.
  Hypothesis Hvalid : Valid xs.
  Hypothesis Hlen : length ys = length xs.

  Theorem interp_outside x : x < x_first \/ last xs 0 < x -> @s_interpolate RNum (xs, ys) x = Ok None.
  Proof.
    intros Hx. change (@s_interpolate RNum (xs, ys) x) with (@s_interpolate RNum (x_first :: xs_rest, ys) x). rewrite s_interpolate_cons. fold xs.
    destruct Hx as [Hx | Hx].
    - assert (E : Rlt_bool x x_first = true) by (apply Rltb_true; exact Hx). rewrite E. reflexivity.
    - assert (E : Rlt_bool (last xs 0) x = true) by (apply Rltb_true; exact Hx). rewrite E, orb_true_r. reflexivity.
  Qed.

  Lemma in_range_bools x : x_first <= x <= last xs 0 -> Rlt_bool x x_first || Rlt_bool (last xs 0) x = false.
  Proof.
    intros [H1 H2]. apply orb_false_iff. split; apply Rltb_false; assumption.
  Qed.

  (* at a knot the stored value of (one of) the knots with that abscissa is returned *)
  Theorem interp_knot x : In x xs ->
    exists j, nth_error xs j = Some x /\ @s_interpolate RNum (xs, ys) x = Ok (Some (nth j ys 0)).
  Proof.
    intros Hin.
    assert (Hr : x_first <= x <= last xs 0).
    { split; [|apply valid_last_max; assumption].
      apply StronglySorted_inv in Hvalid. destruct Hvalid as [_ Hf]. destruct Hin as [<- | Hin]; [lra|].
      rewrite Forall_forall in Hf. apply Hf. exact Hin. }
    change (@s_interpolate RNum (xs, ys) x) with (@s_interpolate RNum (x_first :: xs_rest, ys) x). rewrite s_interpolate_cons. fold xs.
    rewrite (in_range_bools x Hr). unfold bsearch. rn.
    destruct (last_eq Rlt_bool xs x 0) as [j|] eqn:E.
    - apply last_eq_some in E. destruct E as (i & -> & Hi & _). cbn [Nat.add].
      assert (Hb : (i < length ys)%nat) by (rewrite Hlen; apply nth_error_Some; congruence).
      apply Nat.ltb_lt in Hb. rewrite Hb. exists i. split; [exact Hi | reflexivity].
    - apply last_eq_none in E. contradiction.
  Qed.

  (* strictly inside an interval: the linear blend of its two knots *)
  Theorem interp_blend x j :
    (S j < length xs)%nat -> nth j xs 0 < x < nth (S j) xs 0 ->
    @s_interpolate RNum (xs, ys) x =
    Ok (Some (nth j ys 0 + (nth (S j) ys 0 - nth j ys 0) / (nth (S j) xs 0 - nth j xs 0) * (x - nth j xs 0))).
  Proof.
    intros Hj [Hlo Hhi]. change (@s_interpolate RNum (xs, ys) x) with (@s_interpolate RNum (x_first :: xs_rest, ys) x). rewrite s_interpolate_cons. fold xs.
    assert (Hnj : nth_error xs j = Some (nth j xs 0)) by (apply nth_error_nth'; lia).
    assert (Hnj1 : nth_error xs (S j) = Some (nth (S j) xs 0)) by (apply nth_error_nth'; lia).
    assert (Hr : x_first <= x <= last xs 0).
    { split.
      - assert (x_first <= nth j xs 0) by (eapply (asc_nth xs Hvalid 0 j); [lia | reflexivity | exact Hnj]). lra.
      - assert (nth (S j) xs 0 <= last xs 0) by (apply valid_last_max; [exact Hvalid | eapply nth_error_In; exact Hnj1]). lra. }
    rewrite (in_range_bools x Hr). unfold bsearch. rn.
    assert (Hnot : ~ In x xs).
    { intros Hin. apply In_nth_error in Hin. destruct Hin as [k Hk].
      destruct (Nat.le_gt_cases k j) as [Hkj | Hkj].
      - assert (x <= nth j xs 0) by (eapply (asc_nth xs Hvalid k j); eassumption). lra.
      - assert (nth (S j) xs 0 <= x) by (eapply (asc_nth xs Hvalid (S j) k); [lia | eassumption | eassumption]). lra. }
    destruct (last_eq Rlt_bool xs x 0) as [k|] eqn:E.
    { apply last_eq_some in E. destruct E as (i & _ & Hi & _). exfalso. apply Hnot. eapply nth_error_In. exact Hi. }
    destruct (count_below_spec xs x Hvalid) as (Hcl & Hlt & Hge).
    assert (Hc : count_below Rlt_bool xs x = S j).
    { destruct (Nat.lt_trichotomy (count_below Rlt_bool xs x) (S j)) as [H | [H | H]]; [|exact H|].
      - assert (x <= nth j xs 0) by (apply (Hge j); [lia | exact Hnj]). lra.
      - assert (nth (S j) xs 0 < x) by (apply (Hlt (S j)); [lia | exact Hnj1]). lra. }
    rewrite Hc.
    assert (B1 : (S j <? length xs)%nat = true) by (apply Nat.ltb_lt; exact Hj).
    assert (B2 : (S j <? length ys)%nat = true) by (apply Nat.ltb_lt; rewrite Hlen; exact Hj).
    rewrite B1, B2. cbn [andb]. reflexivity.
  Qed.
End Interp.

(* ---- resampling: count, ends, validity, all abscissae inside the domain ---- *)
Theorem resampled_xs_spec (x_first : R) (xs_rest ys : list R) (n : nat) :
  Valid (x_first :: xs_rest) -> (2 <= n)%nat ->
  length (@s_resampled_xs RNum (x_first :: xs_rest, ys) n) = n /\
  Valid (@s_resampled_xs RNum (x_first :: xs_rest, ys) n) /\
  hd 0 (@s_resampled_xs RNum (x_first :: xs_rest, ys) n) = x_first /\
  last (@s_resampled_xs RNum (x_first :: xs_rest, ys) n) 0 = last (x_first :: xs_rest) 0 /\
  (forall x, In x (@s_resampled_xs RNum (x_first :: xs_rest, ys) n) -> x_first <= x <= last (x_first :: xs_rest) 0).
Proof.
  intros Hv Hn. unfold s_resampled_xs. cbn [fst hd]. rn. change (@n0 RNum) with 0. change (@n1 RNum) with 1.
  set (xmax := last (x_first :: xs_rest) 0).
  assert (Hmm : x_first <= xmax) by (apply valid_last_max; [exact Hv | left; reflexivity]).
  rewrite nofnat_R.
  assert (Hn1 : 0 < INR n - 1). { assert (2 <= INR n) by (replace 2 with (INR 2) by (simpl; lra); apply le_INR; exact Hn). lra. }
  set (step := (xmax - x_first) / (INR n - 1)).
  assert (Hstep : 0 <= step) by (unfold step; apply Rmult_le_pos; [lra | left; apply Rinv_0_lt_compat; exact Hn1]).
  assert (Hlaststep : x_first + (INR n - 1) * step = xmax) by (unfold step; field; lra).
  clearbody step.
  split; [rewrite map_length, seq_length; reflexivity|]. split.
  { apply valid_map_seq. intros i j Hij. rewrite !nofnat_R.
    assert (INR i <= INR j) by (apply le_INR; exact Hij).
    apply Rle_min_compat_r. apply Rplus_le_compat_l. apply Rmult_le_compat_r; assumption. }
  destruct n as [|[|n]]; try lia. split; [|split].
  - cbn [seq map hd]. rewrite nofnat_R. change (INR 0) with 0. unfold Rmin. destruct (Rle_dec _ _); lra.
  - rewrite seq_S, map_app. cbn [map]. rewrite last_last. cbn [Nat.add]. rewrite nofnat_R.
    assert (E : x_first + INR (S n) * step = xmax).
    { rewrite <- Hlaststep. rewrite (S_INR (S n)). ring. }
    rewrite E. unfold Rmin. destruct (Rle_dec xmax xmax); lra.
  - intros x Hx. apply in_map_iff in Hx. destruct Hx as (i & <- & Hi). rewrite nofnat_R.
    assert (0 <= INR i) by apply pos_INR. assert (0 <= INR i * step) by (apply Rmult_le_pos; assumption).
    unfold Rmin. destruct (Rle_dec _ _); lra.
Qed.

(* ---- level crossings ---- *)
Lemma insert_num_in (x : R) l y : In y (@insert_num RNum x l) <-> y = x \/ In y l.
Proof.
  induction l as [|a l IH]; cbn [insert_num In]; [intuition|]. rn.
  destruct (Rlt_bool x a); cbn [In]; [intuition | rewrite IH; intuition].
Qed.
Lemma sort_num_in (l : list R) y : In y (@sort_num RNum l) <-> In y l.
Proof.
  unfold sort_num. assert (H : forall acc, In y (fold_left (fun acc x => @insert_num RNum x acc) l acc) <-> In y acc \/ In y l).
  { induction l as [|a l IH]; intros acc; cbn [fold_left In]; [tauto|]. rewrite IH, insert_num_in. intuition. }
  rewrite H. cbn. tauto.
Qed.
Lemma dedup_close_in (k : R) l y : In y (@dedup_close RNum k l) -> In y l.
Proof.
  revert k; induction l as [|a l IH]; intros k; cbn [dedup_close In]; [tauto|].
  destruct (nltb _ _); cbn [In]; intros H; [right; eapply IH; exact H | destruct H as [H | H]; [auto | right; eapply IH; exact H]].
Qed.
(* sort + merge only drops values: every reported crossing is a computed crossing *)
Lemma sort_and_dedup_subset (l : list R) y : In y (@sort_and_dedup RNum l) -> In y l.
Proof.
  unfold sort_and_dedup. destruct (@sort_num RNum l) as [|a l'] eqn:E; [intros []|].
  intros [<- | H].
  - apply sort_num_in. rewrite E. left. reflexivity.
  - apply dedup_close_in in H. apply sort_num_in. rewrite E. right. exact H.
Qed.

(* (x, level) lies on segment j of the piecewise-linear graph *)
Definition on_segment (xs ys : list R) (j : nat) (x level : R) : Prop :=
  (S j < length xs)%nat /\ nth j xs 0 <= x <= nth (S j) xs 0 /\
  level = nth j ys 0 + (nth (S j) ys 0 - nth j ys 0) / (nth (S j) xs 0 - nth j xs 0) * (x - nth j xs 0).

Definition strictly_increasing (xs : list R) : Prop :=
  forall j, (S j < length xs)%nat -> nth j xs 0 < nth (S j) xs 0.

Lemma crossing_in_range (x0 x1 v0 v1 level : R) :
  x0 < x1 -> (v0 <= level <= v1) \/ (v1 <= level <= v0) -> v1 - v0 <> 0 ->
  x0 <= x0 + (level - v0) / ((v1 - v0) / (x1 - x0)) <= x1.
Proof.
  intros Hd Hbr Hvne.
  assert (Ex : (level - v0) / ((v1 - v0) / (x1 - x0)) = (level - v0) * (x1 - x0) / (v1 - v0)) by (field; split; lra).
  rewrite Ex. split.
  - assert (0 <= (level - v0) * (x1 - x0) / (v1 - v0)).
    { destruct Hbr as [Hb | Hb].
      - apply Rmult_le_pos; [nra | left; apply Rinv_0_lt_compat; lra].
      - replace ((level - v0) * (x1 - x0) / (v1 - v0)) with ((v0 - level) * (x1 - x0) / (v0 - v1)) by (field; lra).
        apply Rmult_le_pos; [nra | left; apply Rinv_0_lt_compat; lra]. }
    lra.
  - assert ((level - v0) * (x1 - x0) / (v1 - v0) <= x1 - x0).
    { destruct Hbr as [Hb | Hb].
      - apply Rmult_le_reg_r with (v1 - v0); [lra|]. unfold Rdiv. rewrite Rmult_assoc, Rinv_l by lra. nra.
      - replace ((level - v0) * (x1 - x0) / (v1 - v0)) with ((v0 - level) * (x1 - x0) / (v0 - v1)) by (field; lra).
        apply Rmult_le_reg_r with (v0 - v1); [lra|]. unfold Rdiv. rewrite Rmult_assoc, Rinv_l by lra. nra. }
    lra.
Qed.

Lemma raw_crossings_sound : forall (xs ys : list R) (level x : R),
  length xs = length ys -> strictly_increasing xs ->
  In x (@raw_crossings RNum xs ys level) -> exists j, on_segment xs ys j x level.
Proof.
  induction xs as [|x0 xs IH]; intros ys level x Hlen Hinc Hin; [destruct ys; cbn in Hin; contradiction|].
  destruct ys as [|v0 ys]; [discriminate|]. destruct xs as [|x1 xs]; [destruct ys; cbn in Hin; contradiction|].
  destruct ys as [|v1 ys]; [discriminate|].
  cbn [raw_crossings] in Hin. rn. change (@n0 RNum) with 0 in Hin.
  assert (Hd : x0 < x1) by (apply (Hinc 0%nat); cbn; lia).
  assert (Hrest : In x (@raw_crossings RNum (x1 :: xs) (v1 :: ys) level) -> exists j, on_segment (x0 :: x1 :: xs) (v0 :: v1 :: ys) j x level).
  { intros H. destruct (IH (v1 :: ys) level x) as (j & Hj1 & Hj2 & Hj3); [cbn in *; lia | | exact H |].
    - intros j Hj. apply (Hinc (S j)). cbn in *. lia.
    - exists (S j). split; [cbn in *; lia|]. split; [exact Hj2 | exact Hj3]. }
  destruct ((Rle_bool v0 level && Rle_bool level v1) || (Rle_bool level v0 && Rle_bool v1 level)) eqn:Eb; [|auto].
  cbn [negb] in Hin.
  set (m := (v1 - v0) / (x1 - x0)) in *.
  assert (Hbr : (v0 <= level <= v1) \/ (v1 <= level <= v0)).
  { apply orb_true_iff in Eb. destruct Eb as [Eb | Eb]; apply andb_true_iff in Eb; destruct Eb as [E1 E2]; rbool; [left | right]; lra. }
  destruct (Req_bool m 0) eqn:Em; rbool.
  - (* plateau at the level: both ends are reported *)
    assert (Hv : v1 = v0).
    { unfold m in Em. assert (H : (v1 - v0) = 0).
      { apply Rmult_eq_reg_r with (/ (x1 - x0)); [|apply Rinv_neq_0_compat; lra]. rewrite Rmult_0_l. exact Em. }
      lra. }
    assert (Hl : level = v0) by lra.
    destruct Hin as [<- | [<- | Hin]]; [| |auto].
    + exists 0%nat. split; [cbn; lia|]. cbn [nth]. split; [lra|]. rewrite Hv, Hl. field. lra.
    + exists 0%nat. split; [cbn; lia|]. cbn [nth]. split; [lra|]. rewrite Hv, Hl. field. lra.
  - assert (Hvne : v1 - v0 <> 0).
    { intros Hz. apply Em. unfold m. rewrite Hz. unfold Rdiv. ring. }
    assert (Ex : (level - v0) / m = (level - v0) * (x1 - x0) / (v1 - v0)) by (unfold m; field; split; lra).
    assert (Hrange : x0 <= x0 + (level - v0) / m <= x1).
    { rewrite Ex. split.
      * assert (0 <= (level - v0) * (x1 - x0) / (v1 - v0)).
        { destruct Hbr as [Hb | Hb].
          - apply Rmult_le_pos; [nra | left; apply Rinv_0_lt_compat; lra].
          - replace ((level - v0) * (x1 - x0) / (v1 - v0)) with ((v0 - level) * (x1 - x0) / (v0 - v1)) by (field; lra).
            apply Rmult_le_pos; [nra | left; apply Rinv_0_lt_compat; lra]. }
        lra.
      * assert ((level - v0) * (x1 - x0) / (v1 - v0) <= x1 - x0).
        { destruct Hbr as [Hb | Hb].
          - apply Rmult_le_reg_r with (v1 - v0); [lra|]. unfold Rdiv. rewrite Rmult_assoc, Rinv_l by lra. nra.
          - replace ((level - v0) * (x1 - x0) / (v1 - v0)) with ((v0 - level) * (x1 - x0) / (v0 - v1)) by (field; lra).
            apply Rmult_le_reg_r with (v0 - v1); [lra|]. unfold Rdiv. rewrite Rmult_assoc, Rinv_l by lra. nra. }
        lra. }
    rewrite (Rmax_left _ x0), (Rmin_left _ x1) in Hin by lra.
    destruct Hin as [<- | Hin]; [|auto].
    exists 0%nat. split; [cbn; lia|]. cbn [nth]. split; [exact Hrange|].
    fold m. replace (x0 + (level - v0) / m - x0) with ((level - v0) / m) by ring. field. exact Em.
Qed.

(* every reported crossing lies on the piecewise-linear graph at the level *)
Theorem y_crossings_sound (xs ys : list R) (level x : R) :
  length xs = length ys -> strictly_increasing xs ->
  In x (@s_y_crossings RNum (xs, ys) level) -> exists j, on_segment xs ys j x level.
Proof.
  intros Hl Hi Hin. unfold s_y_crossings in Hin. cbn [fst snd] in Hin.
  apply sort_and_dedup_subset in Hin. eapply raw_crossings_sound; eassumption.
Qed.

(* a segment that strictly brackets the level always contributes its crossing *)
Lemma raw_crossings_complete : forall (xs ys : list R) (level : R) j,
  length xs = length ys -> strictly_increasing xs -> (S j < length xs)%nat ->
  (nth j ys 0 < level < nth (S j) ys 0 \/ nth (S j) ys 0 < level < nth j ys 0) ->
  In (nth j xs 0 + (level - nth j ys 0) / ((nth (S j) ys 0 - nth j ys 0) / (nth (S j) xs 0 - nth j xs 0)))
     (@raw_crossings RNum xs ys level).
Proof.
  induction xs as [|x0 xs IH]; intros ys level j Hlen Hinc Hj Hbr; [cbn in Hj; lia|].
  destruct ys as [|v0 ys]; [discriminate|]. destruct xs as [|x1 xs]; [cbn in Hj; lia|].
  destruct ys as [|v1 ys]; [discriminate|].
  cbn [raw_crossings]. rn. change (@n0 RNum) with 0.
  assert (Hd : x0 < x1) by (apply (Hinc 0%nat); cbn; lia).
  destruct j as [|j].
  - cbn [nth] in *.
    assert (Eb : (Rle_bool v0 level && Rle_bool level v1) || (Rle_bool level v0 && Rle_bool v1 level) = true).
    { apply orb_true_iff. destruct Hbr as [Hb | Hb]; [left | right]; apply andb_true_iff; split; apply Rleb_true; lra. }
    rewrite Eb. cbn [negb].
    assert (Em : Req_bool ((v1 - v0) / (x1 - x0)) 0 = false).
    { apply Reqb_false. intros Hz.
      assert (v1 - v0 = 0). { apply Rmult_eq_reg_r with (/ (x1 - x0)); [|apply Rinv_neq_0_compat; lra]. rewrite Rmult_0_l. exact Hz. }
      lra. }
    rewrite Em. left.
    pose proof (crossing_in_range x0 x1 v0 v1 level Hd ltac:(lra) ltac:(lra)) as Hr.
    rewrite (Rmax_left _ x0), (Rmin_left _ x1) by lra. reflexivity.
  - assert (Hin : In (nth j (x1 :: xs) 0 + (level - nth j (v1 :: ys) 0) /
                        ((nth (S j) (v1 :: ys) 0 - nth j (v1 :: ys) 0) / (nth (S j) (x1 :: xs) 0 - nth j (x1 :: xs) 0)))
                     (@raw_crossings RNum (x1 :: xs) (v1 :: ys) level)).
    { apply IH; [cbn in *; lia | intros k Hk; apply (Hinc (S k)); cbn in *; lia | cbn in *; lia | exact Hbr]. }
    change (nth (S j) (x0 :: x1 :: xs) 0) with (nth j (x1 :: xs) 0).
    change (nth (S (S j)) (x0 :: x1 :: xs) 0) with (nth (S j) (x1 :: xs) 0).
    change (nth (S j) (v0 :: v1 :: ys) 0) with (nth j (v1 :: ys) 0).
    change (nth (S (S j)) (v0 :: v1 :: ys) 0) with (nth (S j) (v1 :: ys) 0).
    destruct ((Rle_bool v0 level && Rle_bool level v1) || (Rle_bool level v0 && Rle_bool v1 level)); [|exact Hin].
    cbn [negb]. destruct (Req_bool ((v1 - v0) / (x1 - x0)) 0); cbn [In]; auto.
Qed.
