(* C04, continued: reversal of a curve and the two pieces of a split. *)
From Coq Require Import ZArith Reals Lra Lia List Bool Arith Sorted Classical.
From Flocq Require Import Core.Raux.
From EG Require Import Num.Num Num.RNum Lib.Vec Model.TolMap Model.Curve Model.Portion Proofs.TolMap Proofs.VecR Proofs.Curve Proofs.Portion.
Import ListNotations.
Local Open Scope R_scope.

Section Reverse.
  Variable V : @VOps RNum.
  Hypothesis L : VLaws V.
  Hypothesis vsym : forall a b : pt V, vdist V a b = vdist V b a.
  Notation P := (pt V).

  (* ---- a list whose consecutive elements are farther apart than the tolerance is left alone ---- *)
  Lemma spaced_tail tol a l : spaced V tol (a :: l) -> spaced V tol l.
  Proof. intros H i Hi. apply (H (S i)). cbn [length]. lia. Qed.

  Lemma dedup_from_id tol : forall l kept, spaced V tol (kept :: l) -> dedup_from V tol kept l = l.
  Proof.
    induction l as [|a l IH]; intros kept H; cbn [dedup_from]; [reflexivity|].
    pose proof (H 0%nat ltac:(cbn [length]; lia)) as H0. cbn [nth] in H0. rn.
    destruct (Rle_bool (vdist V a kept) tol) eqn:E; rbool; [lra|]. f_equal. apply IH. eapply spaced_tail. exact H.
  Qed.

  Lemma dedup_tol_id tol l : spaced V tol l -> dedup_tol V tol l = l.
  Proof. destruct l as [|a l]; [reflexivity|]. intros H. cbn [dedup_tol]. f_equal. apply dedup_from_id. exact H. Qed.

  Lemma spaced_rev tol l : spaced V tol l -> spaced V tol (rev l).
  Proof.
    intros H i Hi. rewrite rev_length in Hi.
    rewrite !rev_nth by lia. rewrite vsym.
    replace (length l - S i)%nat with (S (length l - S (S i))) by lia. apply H. lia.
  Qed.

  (* ---- total length ---- *)
  Definition plen (l : list P) : R := match l with [] => 0 | a :: l' => path_len V a l' end.

  Lemma last_cum_lengths : forall (l : list P) acc prev,
    last (acc :: cum_lengths V acc prev l) 0 = acc + path_len V prev l.
  Proof.
    induction l as [|v l IH]; intros acc prev; [cbn; lra|].
    cbn [cum_lengths path_len]. rn. set (acc' := vdist V v prev + acc).
    transitivity (last (acc' :: cum_lengths V acc' v l) 0); [reflexivity|].
    rewrite IH. unfold acc'. lra.
  Qed.

  Lemma total_lengths_of (l : list P) : last (lengths_of V l) 0 = plen l.
  Proof.
    destruct l as [|a l]; [reflexivity|]. unfold lengths_of, plen. change (@n0 RNum) with 0.
    rewrite last_cum_lengths. lra.
  Qed.

  Lemma last_snoc (A : Type) (l : list A) (x d : A) : last (l ++ [x]) d = x.
  Proof. apply last_last. Qed.

  Lemma plen_snoc (l : list P) (a b : P) : plen ((l ++ [b]) ++ [a]) = plen (l ++ [b]) + vdist V a b.
  Proof.
    unfold plen. destruct l as [|x r]; [cbn; lra|]. cbn [app].
    rewrite (path_len_app V). cbn [path_len]. rewrite last_snoc. lra.
  Qed.

  Lemma plen_rev : forall l, plen (rev l) = plen l.
  Proof.
    induction l as [|a [|b l] IH]; [reflexivity | reflexivity|].
    change (rev (a :: b :: l)) with ((rev l ++ [b]) ++ [a]). rewrite plen_snoc.
    change (rev l ++ [b]) with (rev (b :: l)). rewrite IH. unfold plen. cbn [path_len]. rewrite (vsym a b). lra.
  Qed.

  (* ---- Curve2::reversed ---- *)
  Theorem reversed_ok (c : curve V) : WF V c ->
    exists r, reversed V c = Ok r /\ cpts V r = rev (cpts V c) /\ clength V r = clength V c /\ ctol V r = ctol V c /\ WF V r.
  Proof.
    intros Hwf. pose proof Hwf as (H2 & Ht & Hs & Hl).
    unfold reversed. destruct (from_points V (cavg V c) (rev (cpts V c)) (ctol V c) false) as [r| |] eqn:E.
    - exists r. split; [reflexivity|]. pose proof (from_points_wf V _ _ _ _ _ Ht E) as Hr.
      unfold from_points in E. rewrite (dedup_tol_id _ _ (spaced_rev _ _ Hs)) in E.
      destruct (length (rev (cpts V c)) <? 2)%nat; [discriminate|].
      destruct (rev (cpts V c)) as [|f rest] eqn:Er.
      + inversion E; subst r. cbn. split; [reflexivity|]. exfalso. apply (f_equal (@length _)) in Er. rewrite rev_length in Er. unfold count in H2. cbn in Er. lia.
      + cbn [andb] in E. inversion E; subst r. cbn [cpts ctol]. split; [reflexivity|]. split; [|split; [reflexivity | exact Hr]].
        unfold clength. cbn [clens]. rewrite Hl. rn. rewrite total_lengths_of, last_cum_lengths, Rplus_0_l. change (path_len V f rest) with (plen (f :: rest)). rewrite <- Er. apply plen_rev.
    - exfalso. unfold from_points in E. rewrite (dedup_tol_id _ _ (spaced_rev _ _ Hs)) in E. rewrite rev_length in E.
      unfold count in H2. destruct (length (cpts V c) <? 2)%nat eqn:El; [apply Nat.ltb_lt in El; lia | discriminate].
    - exfalso. unfold from_points in E. destruct (length (dedup_tol V (ctol V c) (rev (cpts V c))) <? 2)%nat; discriminate.
  Qed.

  (* reversing twice restores the vertex list *)
  Theorem reversed_twice (c : curve V) : WF V c ->
    exists r r2, reversed V c = Ok r /\ reversed V r = Ok r2 /\ cpts V r2 = cpts V c /\ clength V r2 = clength V c.
  Proof.
    intros Hwf. destruct (reversed_ok c Hwf) as (r & E1 & P1 & L1 & _ & W1).
    destruct (reversed_ok r W1) as (r2 & E2 & P2 & L2 & _ & _).
    exists r, r2. split; [exact E1|]. split; [exact E2|]. split; [rewrite P2, P1; apply rev_involutive | lra].
  Qed.
End Reverse.

(* symmetry of the distance for the two instances *)
Lemma vdist_sym2 : forall a b : pt (@VO2 RNum), vdist (@VO2 RNum) a b = vdist (@VO2 RNum) b a.
Proof. intros [ax ay] [bx by_]. unfold vdist, vnorm. cbn [VO2 vdot vsub pt]. vec_unfold. f_equal. ring. Qed.
Lemma vdist_sym3 : forall a b : pt (@VO3 RNum), vdist (@VO3 RNum) a b = vdist (@VO3 RNum) b a.
Proof. intros [[ax ay] az] [[bx by_] bz]. unfold vdist, vnorm. cbn [VO3 vdot vsub pt]. vec_unfold. f_equal. ring. Qed.

Section Split.
  Variable V : @VOps RNum.
  Hypothesis L : VLaws V.
  Variable c : curve V.
  Hypothesis Hwf : WF V c.
  Hypothesis vn_lerp : forall (a b : pt V) f0 f1, f0 <= f1 ->
    vdist V (vlerp V a b f1) (vlerp V a b f0) = (f1 - f0) * vdist V b a.

  (* raw piece from station s to station e of a forward request *)
  Definition piece (s e : station V) : list (pt V) :=
    st_point V s :: map (vtx V c) (seq (S (st_index V s)) (st_index V e - st_index V s)).

  (* the two pieces of a split at l: both exist, the first is requested to end and the second starts at the same
     point (the curve's point at l), and their polyline lengths add up to the length of the curve *)
  Theorem split_pieces l : ctol V c <= l -> ctol V c <= clength V c - l ->
    exists s0 sl sL,
      at_length V c 0 = Some s0 /\ at_length V c l = Some sl /\ at_length V c (clength V c) = Some sL /\
      portion_points V c 0 l = Ok (Some (with_end V c (piece s0 sl) sl)) /\
      portion_points V c l (clength V c) = Ok (Some (with_end V c (piece sl sL) sL)) /\
      path_len V (st_point V s0) (map (vtx V c) (seq (S (st_index V s0)) (st_index V sl - st_index V s0)) ++ [st_point V sl]) +
      path_len V (st_point V sl) (map (vtx V c) (seq (S (st_index V sl)) (st_index V sL - st_index V sl)) ++ [st_point V sL]) = clength V c.
  Proof.
    intros H1 H2. pose proof Hwf as (_ & Ht & _).
    destruct (at_length_inside V L c Hwf 0 ltac:(lra)) as (s0 & E0 & _).
    destruct (at_length_inside V L c Hwf l ltac:(lra)) as (sl & El & _).
    destruct (at_length_inside V L c Hwf (clength V c) ltac:(lra)) as (sL & EL & _).
    exists s0, sl, sL. split; [exact E0|]. split; [exact El|]. split; [exact EL|].
    destruct (portion_forward V L c Hwf 0 l s0 sl E0 El ltac:(lra) ltac:(rewrite Rabs_pos_eq; lra)) as [_ Pa].
    destruct (portion_forward V L c Hwf l (clength V c) sl sL El EL ltac:(lra) ltac:(rewrite Rabs_pos_eq; lra)) as [_ Pb].
    split; [exact Pa|]. split; [exact Pb|].
    rewrite (portion_forward_length V L c Hwf vn_lerp 0 l s0 sl E0 El ltac:(lra)).
    rewrite (portion_forward_length V L c Hwf vn_lerp l (clength V c) sl sL El EL ltac:(lra)). lra.
  Qed.
End Split.
