(* C03: rigid motions preserve distances, hence tolerance de-duplication, cumulative lengths, closedness and the
   whole curve construction commute with them; plane and surface-point measurements are invariant; transforming by
   the inverse restores, transforming by a composition equals transforming in sequence. *)
From Coq Require Import ZArith Reals Lra Lia List Bool Arith Psatz Nsatz.
From Flocq Require Import Core.Raux.
From EG Require Import Num.Num Num.RNum Lib.Vec Model.Types Model.TolMap Model.Curve Model.Frames Model.Rigid.
From EG Require Import Proofs.VecR Proofs.Frames.
Import ListNotations.
Local Open Scope R_scope.

Ltac rn := cbn [nltb nleb neqb nadd nsub nmul ndiv nneg nabs nsqrt nmin nmax nofZ nlit RNum num] in *;
           change (@num RNum) with R in *; change (@n0 RNum) with 0 in *; change (@n1 RNum) with 1 in *.

(* ---- generic: a distance-preserving affine map on the points of a VOps ---- *)
Record IsoLaws (V : @VOps RNum) (T Rm : pt V -> pt V) : Prop := {
  il_sub : forall a b, vsub V (T a) (T b) = Rm (vsub V a b);
  il_dot : forall u v, vdot V (Rm u) (Rm v) = vdot V u v;
}.

Section Generic.
  Variable V : @VOps RNum.
  Variables T Rm : pt V -> pt V.
  Hypothesis IL : IsoLaws V T Rm.
  Notation P := (pt V).

  Lemma vnorm_rot (v : P) : vnorm V (Rm v) = vnorm V v.
  Proof. unfold vnorm. rewrite (il_dot V T Rm IL). reflexivity. Qed.
  Theorem vdist_iso (a b : P) : vdist V (T a) (T b) = vdist V a b.
  Proof. unfold vdist. rewrite (il_sub V T Rm IL). apply vnorm_rot. Qed.

  Lemma dedup_from_iso tol : forall l k, dedup_from V tol (T k) (map T l) = map T (dedup_from V tol k l).
  Proof.
    induction l as [|a l IH]; intros k; cbn [map dedup_from]; [reflexivity|].
    rewrite vdist_iso. destruct (vdist V a k <=? tol)%num; [apply IH | cbn [map]; f_equal; apply IH].
  Qed.
  Lemma dedup_tol_iso tol l : dedup_tol V tol (map T l) = map T (dedup_tol V tol l).
  Proof. destruct l as [|a l]; cbn [map dedup_tol]; [reflexivity|]. f_equal. apply dedup_from_iso. Qed.

  Lemma cum_lengths_iso : forall l acc prev, cum_lengths V acc (T prev) (map T l) = cum_lengths V acc prev l.
  Proof. induction l as [|a l IH]; intros acc prev; cbn [map cum_lengths]; [reflexivity|]. rewrite vdist_iso. f_equal. apply IH. Qed.
  (* the cumulative lengths (hence the total length) do not depend on the frame *)
  Theorem lengths_iso l : lengths_of V (map T l) = lengths_of V l.
  Proof. destruct l as [|a l]; cbn [map lengths_of]; [reflexivity|]. f_equal. apply cum_lengths_iso. Qed.

  Lemma last_map (l : list P) d : last (map T l) (T d) = T (last l d).
  Proof. induction l as [|a [|b l] IH]; cbn [map last] in *; auto. Qed.

  Definition map_curve (c : curve V) : curve V :=
    mkCurve V (map T (cpts V c)) (clens V c) (cclosed V c) (ctol V c) (cavg V c).

  (* building a curve from transformed points = transforming the built curve: same vertex count, same cumulative
     lengths, same closedness, vertices mapped one by one; and it fails in one frame exactly when it fails in the other *)
  Theorem from_points_iso avg pts tol fc :
    from_points V avg (map T pts) tol fc =
    match from_points V avg pts tol fc with Ok c => Ok (map_curve c) | Err => Err | Panic => Panic end.
  Proof.
    unfold from_points. rewrite dedup_tol_iso, map_length.
    destruct (length (dedup_tol V tol pts) <? 2)%nat; [reflexivity|].
    destruct (dedup_tol V tol pts) as [|first rest] eqn:E; cbn [map]; [reflexivity|].
    change (T first :: map T rest) with (map T (first :: rest)).
    rewrite last_map, vdist_iso.
    destruct (fc && (tol <? vdist V first (last (first :: rest) first))%num).
    - unfold map_curve. cbn [cpts clens cclosed ctol cavg].
      replace (map T (first :: rest) ++ [T first]) with (map T ((first :: rest) ++ [first])) by (rewrite map_app; reflexivity).
      rewrite lengths_iso. cbn [app map].
      change (T first :: map T (rest ++ [first])) with (map T (first :: rest ++ [first])).
      rewrite last_map, vdist_iso. reflexivity.
    - unfold map_curve. cbn [cpts clens cclosed ctol cavg]. rewrite lengths_iso. cbn [map].
      change (T first :: map T rest) with (map T (first :: rest)). rewrite last_map, vdist_iso. reflexivity.
  Qed.
End Generic.

(* ---- the 2D instance ---- *)
Definition rigid2_ok (T : @rigid2 RNum) : Prop := r2c T * r2c T + r2s T * r2s T = 1.
Lemma iso_laws2 (T : @rigid2 RNum) : rigid2_ok T -> IsoLaws (@VO2 RNum) (apply2 T) (rot2 T).
Proof.
  intros H. unfold rigid2_ok in H. destruct T as [c s [tx ty]]. cbn [r2c r2s r2t] in *. constructor; cbn [VO2 vsub vdot pt].
  - intros [ax ay] [bx by_]. unfold apply2, rot2. cbn [r2c r2s r2t]. vec_unfold. rn. f_equal; ring.
  - intros [ux uy] [vx vy]. unfold rot2. cbn [r2c r2s r2t]. vec_unfold.
    replace ((c * ux - s * uy) * (c * vx - s * vy) + (s * ux + c * uy) * (s * vx + c * vy)) with ((c * c + s * s) * (ux * vx + uy * vy)) by ring.
    rewrite H. ring.
Qed.

Theorem inv2_apply (T : @rigid2 RNum) (p : @V2 RNum) : rigid2_ok T -> apply2 (inv2 T) (apply2 T p) = p /\ apply2 T (apply2 (inv2 T) p) = p.
Proof.
  intros H. unfold rigid2_ok in H. destruct T as [c s [tx ty]], p as [x y]. unfold apply2, inv2, rot2. cbn [r2c r2s r2t] in *. vec_unfold. rn.
  split; f_equal; nsatz.
Qed.
Theorem compose2_apply (U T : @rigid2 RNum) (p : @V2 RNum) : apply2 (compose2 U T) p = apply2 U (apply2 T p).
Proof. destruct U as [c s [tx ty]], T as [c' s' [tx' ty']], p as [x y]. unfold compose2. unfold apply2, rot2. cbn [r2c r2s r2t]. unfold apply2, rot2. cbn [r2c r2s r2t]. vec_unfold. rn. f_equal; ring. Qed.
Theorem compose2_ok (U T : @rigid2 RNum) : rigid2_ok U -> rigid2_ok T -> rigid2_ok (compose2 U T).
Proof. unfold rigid2_ok. destruct U as [c s t], T as [c' s' t']. cbn [r2c r2s compose2]. intros H1 H2. nsatz. Qed.

(* ---- the 3D instance ---- *)
Notation V3R := (@V3 RNum).
Definition rigid3_ok (T : @rigid3 RNum) : Prop := orthonormal3 (r3x T) (r3y T) (r3z T).

Lemma rot3_dot (T : @rigid3 RNum) (u v : V3R) : rigid3_ok T -> dot3 (rot3 T u) (rot3 T v) = dot3 u v.
Proof.
  intros (H0 & H1 & H2 & H01 & H02 & H12). destruct T as [cx cy cz t]. cbn [r3x r3y r3z] in *.
  d3 cx; d3 cy; d3 cz; d3 u; d3 v. unfold rot3. cbn [r3x r3y r3z]. vec_unfold. rn. nsatz.
Qed.
Lemma iso_laws3 (T : @rigid3 RNum) : rigid3_ok T -> IsoLaws (@VO3 RNum) (apply3 T) (rot3 T).
Proof.
  intros H. constructor; cbn [VO3 vsub vdot pt].
  - intros a b. destruct T as [cx cy cz t]. d3 cx; d3 cy; d3 cz; d3 t; d3 a; d3 b. unfold apply3, rot3. cbn [r3x r3y r3z r3t]. vec_unfold. rn. v3eq; ring.
  - intros u v. apply rot3_dot. exact H.
Qed.

Theorem inv3_apply (T : @rigid3 RNum) (p : V3R) : rigid3_ok T -> apply3 (inv3 T) (apply3 T p) = p.
Proof.
  intros (H0 & H1 & H2 & H01 & H02 & H12). destruct T as [cx cy cz t]. cbn [r3x r3y r3z] in *.
  d3 cx; d3 cy; d3 cz; d3 t; d3 p. unfold apply3, inv3, rot3. cbn [r3x r3y r3z r3t]. vec_unfold. rn. v3eq; nsatz.
Qed.
Theorem compose3_apply (U T : @rigid3 RNum) (p : V3R) : apply3 (compose3 U T) p = apply3 U (apply3 T p).
Proof.
  destruct U as [ux uy uz ut], T as [cx cy cz t]. d3 ux; d3 uy; d3 uz; d3 ut; d3 cx; d3 cy; d3 cz; d3 t; d3 p.
  unfold compose3. unfold apply3, rot3. cbn [r3x r3y r3z r3t]. unfold apply3, rot3. cbn [r3x r3y r3z r3t]. vec_unfold. rn. v3eq; ring.
Qed.

(* ---- measurements ---- *)
Theorem sp3_projection_invariant (T : @rigid3 RNum) (s : @sp3 RNum) (q : V3R) : rigid3_ok T ->
  sp3_scalar_projection (sp3_transformed T s) (apply3 T q) = sp3_scalar_projection s q.
Proof.
  intros H. destruct s as [p n]. unfold sp3_scalar_projection, sp3_transformed. cbn [fst snd].
  pose proof (il_sub _ _ _ (iso_laws3 T H) q p) as E. cbn [VO3 vsub pt] in E. rewrite E. apply rot3_dot. exact H.
Qed.

Lemma rot3_add (T : @rigid3 RNum) (u v : V3R) : rot3 T (add3 u v) = add3 (rot3 T u) (rot3 T v).
Proof. destruct T as [cx cy cz t]. d3 cx; d3 cy; d3 cz; d3 u; d3 v. unfold rot3. cbn [r3x r3y r3z]. vec_unfold. rn. v3eq; ring. Qed.
Lemma rot3_scale (T : @rigid3 RNum) (u : V3R) k : rot3 T (scale3 u k) = scale3 (rot3 T u) k.
Proof. destruct T as [cx cy cz t]. d3 cx; d3 cy; d3 cz; d3 u. unfold rot3. cbn [r3x r3y r3z]. vec_unfold. rn. v3eq; ring. Qed.
Lemma apply3_add (T : @rigid3 RNum) (p v : V3R) : apply3 T (add3 p v) = add3 (apply3 T p) (rot3 T v).
Proof. destruct T as [cx cy cz t]. d3 cx; d3 cy; d3 cz; d3 t; d3 p; d3 v. unfold apply3, rot3. cbn [r3x r3y r3z r3t]. vec_unfold. rn. v3eq; ring. Qed.

Theorem sp3_planar_invariant (T : @rigid3 RNum) (s : @sp3 RNum) (q : V3R) : rigid3_ok T ->
  sp3_planar_distance (sp3_transformed T s) (apply3 T q) = sp3_planar_distance s q.
Proof.
  intros H. unfold sp3_planar_distance, sp3_projection. rewrite (sp3_projection_invariant T s q H).
  destruct s as [p n]. unfold sp3_transformed. cbn [fst snd].
  rewrite <- rot3_scale, <- apply3_add.
  pose proof (vdist_iso _ _ _ (iso_laws3 T H) (add3 p (scale3 n (sp3_scalar_projection (p, n) q))) q) as E.
  unfold vdist, vnorm in E. cbn [VO3 vsub vdot pt] in E. exact E.
Qed.

(* the transformed plane measures the transformed point as the plane measured the point *)
Theorem plane_distance_invariant (T : @rigid3 RNum) (pl : @plane RNum) (q : V3R) : rigid3_ok T -> dot3 (pn pl) (pn pl) = 1 ->
  plane_signed (plane_transform T pl) (apply3 T q) = plane_signed pl q /\
  dot3 (pn (plane_transform T pl)) (pn (plane_transform T pl)) = 1.
Proof.
  intros H Hn. destruct pl as [n d]. cbn [pn pd] in *. unfold plane_transform, plane_signed, plane_from_np, sp3_transformed. cbn [fst snd pn pd].
  split; [|rewrite (rot3_dot T n n H); exact Hn].
  pose proof (sp3_projection_invariant T (scale3 n d, n) q H) as E.
  unfold sp3_scalar_projection, sp3_transformed in E. cbn [fst snd] in E.
  transitivity (dot3 (rot3 T n) (sub3 (apply3 T q) (apply3 T (scale3 n d)))).
  - generalize (rot3 T n) (apply3 T q) (apply3 T (scale3 n d)). intros a b c. d3 a; d3 b; d3 c. vec_unfold. rn. ring.
  - rewrite E. d3 n; d3 q. vec_unfold.
    replace (nx * (qx - nx * d) + ny * (qy - ny * d) + nz * (qz - nz * d)) with (nx * qx + ny * qy + nz * qz - d * (nx * nx + ny * ny + nz * nz)) by ring.
    rewrite Hn. ring.
Qed.

(* lifting a 2D distance into 3D and moving it rigidly keeps its value *)
Theorem dist_to_3d_value (T : @rigid3 RNum) (a b dir : @V2 RNum) : rigid3_ok T -> dot2 dir dir = 1 ->
  let '(a3, b3, d3) := dist_to_3d T a b dir in dist3_value a3 b3 d3 = dist2_value a b dir.
Proof.
  intros H Hd. unfold dist_to_3d, dist3_value, dist2_value.
  pose proof (il_sub _ _ _ (iso_laws3 T H) (up3 b) (up3 a)) as E. cbn [VO3 vsub pt] in E. rewrite E. rewrite (rot3_dot T _ _ H).
  assert (Hn : norm3 (up3 dir) = 1).
  { apply norm_unit. destruct dir as [x y]. unfold up3. vec_unfold. vec_unfold. replace (x * x + y * y + 0 * 0) with (x * x + y * y) by ring. exact Hd. }
  unfold normalize3. rewrite Hn, div3_one. destruct a as [ax ay], b as [bx by_], dir as [x y]. unfold up3. vec_unfold. rn. ring.
Qed.
