(* C11: the interval chosen by Circle2::intersection_interval contains the direction it is chosen for, and both candidates end at
   the second crossing point. *)
From Coq Require Import ZArith Reals Lra Lia List Bool.
From Flocq Require Import Core.Raux.
From EG Require Import Num.Num Num.RNum Lib.Vec Model.Types Model.Angles Model.Circle Proofs.Angles Proofs.ArcBox.
Import ListNotations.
Local Open Scope R_scope.

Lemma turn_into (lo x : R) : exists k : Z, lo <= x + 2 * PI * IZR k < lo + 2 * PI.
Proof.
  pose proof (angle_to_2pi_same (x - lo)) as [j Ej]. pose proof (angle_to_2pi_range (x - lo)) as Hr.
  exists j. rewrite Ej in Hr. lra.
Qed.

Theorem pick_interval_contains (s a theta : R) : - PI < a <= PI ->
  @AngleInterval_contains RNum (@pick_interval RNum s a theta) theta = true.
Proof.
  intros Ha. unfold pick_interval. cbv zeta.
  destruct (@AngleInterval_contains RNum (@AngleInterval_new RNum s a) theta) eqn:E0; [exact E0|].
  rewrite signed_compliment_spec. pose proof PI_RGT_0 as Hpi.
  destruct (Rle_bool 0 a) eqn:Es.
  - apply Rleb_true in Es. destruct (turn_into (s + a - 2 * PI) theta) as [k Hk].
    destruct (Rle_dec s (theta + 2 * PI * IZR k)) as [Hin | Hout].
    + exfalso. assert (C : @AngleInterval_contains RNum (@AngleInterval_new RNum s a) theta = true).
      { apply (swept_is_contained_signed s a theta k); [rewrite Rabs_pos_eq; lra|]. rewrite Rmin_left, Rmax_right by lra. lra. }
      rewrite C in E0. discriminate.
    + apply (swept_is_contained_signed s (a - 2 * PI) theta k); [rewrite Rabs_left; lra|].
      rewrite Rmin_right, Rmax_left by lra. lra.
  - apply Rleb_false in Es. destruct (turn_into (s + a) theta) as [k Hk].
    destruct (Rle_dec (theta + 2 * PI * IZR k) s) as [Hin | Hout].
    + exfalso. assert (C : @AngleInterval_contains RNum (@AngleInterval_new RNum s a) theta = true).
      { apply (swept_is_contained_signed s a theta k); [rewrite Rabs_left; lra|]. rewrite Rmin_right, Rmax_left by lra. lra. }
      rewrite C in E0. discriminate.
    + apply (swept_is_contained_signed s (a + 2 * PI) theta k); [rewrite Rabs_pos_eq; lra|].
      rewrite Rmin_left, Rmax_right by lra. lra.
Qed.

(* both candidates sweep from the first crossing point to the second: their ends differ by a whole turn *)
Theorem pick_interval_ends (a : R) : exists k : Z, @signed_compliment_2pi RNum a = a + 2 * PI * IZR k.
Proof.
  rewrite signed_compliment_spec. destruct (Rle_bool 0 a); [exists (-1)%Z | exists 1%Z]; simpl; lra.
Qed.
