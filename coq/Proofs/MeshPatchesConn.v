(* C12: two faces are in the same patch exactly when they are connected through shared edges. *)
From Coq Require Import ZArith List Bool Arith Lia Permutation Relations.
From EG Require Import Model.MeshTopo Proofs.MeshEdges Proofs.MeshLoops Proofs.MeshPatches.
Import ListNotations.

Definition fkeys (faces : list face) (i : nat) : list edge := face_keys (nth i faces (0, 0, 0)).
Definition linked (faces : list face) (i j : nat) : Prop :=
  i < length faces /\ j < length faces /\ exists k, In k (fkeys faces i) /\ In k (fkeys faces j).
Definition connected (faces : list face) : nat -> nat -> Prop := clos_refl_sym_trans nat (linked faces).

Lemma shares_edge_linked faces i j : i < length faces -> j < length faces ->
  (shares_edge (nth i faces (0, 0, 0)) (nth j faces (0, 0, 0)) = true <-> linked faces i j).
Proof.
  intros Hi Hj. unfold shares_edge, linked, fkeys. rewrite existsb_exists. split.
  - intros (k & Hk & E). apply existsb_exists in E. destruct E as (k' & Hk' & E). apply edge_eqb_eq in E. subst. eauto 6.
  - intros (_ & _ & k & H1 & H2). exists k. split; [exact H1|]. apply existsb_exists. exists k. split; [exact H2 | apply edge_eqb_refl].
Qed.

Lemma existsb_key k l : existsb (edge_eqb k) l = true <-> In k l.
Proof.
  rewrite existsb_exists. split.
  - intros (x & Hx & E). apply edge_eqb_eq in E. subst. exact Hx.
  - intros H. exists k. split; [exact H | apply edge_eqb_refl].
Qed.

Lemma patch_edges_keys faces f e :
  In e (patch_edges (nth f faces (0, 0, 0))) -> In (edge_key e) (fkeys faces f).
Proof. unfold fkeys, face_keys. apply in_map. Qed.

Lemma fkeys_from_edges faces f k :
  In k (fkeys faces f) -> exists e, In e (patch_edges (nth f faces (0, 0, 0))) /\ edge_key e = k.
Proof. unfold fkeys, face_keys. intros H. apply in_map_iff in H. destruct H as (e & E & H). eauto. Qed.

(* invariant of the flood fill *)
Record fill_inv (faces : list face) (seed : nat) (queue : list edge) (rem patch : list nat) : Prop := {
  fi_bound : forall r, In r rem -> r < length faces;
  fi_pbound : forall p, In p patch -> p < length faces;
  fi_conn : forall p, In p patch -> connected faces seed p;
  fi_queue : forall e, In e queue -> exists p, In p patch /\ In (edge_key e) (fkeys faces p);
  fi_done : forall p k, In p patch -> In k (fkeys faces p) ->
            (exists e, In e queue /\ edge_key e = k) \/ (forall r, In r rem -> ~ In k (fkeys faces r))
}.

Lemma fill_conn faces seed : forall fuel queue rem patch rem' patch',
  fill_inv faces seed queue rem patch ->
  fill fuel faces queue rem patch = Some (rem', patch') ->
  fill_inv faces seed [] rem' patch'.
Proof.
  induction fuel as [|fuel IH]; intros queue rem patch rem' patch' Hi Hf; [discriminate|].
  cbn [fill] in Hf. destruct queue as [|e queue].
  - inversion Hf; subst. exact Hi.
  - eapply IH; [|exact Hf]. clear IH Hf.
    set (adj := adjacent_remaining faces rem (edge_key e)).
    set (rem1 := fold_left (fun r f => remove_nat f r) adj rem).
    destruct Hi as [Hb Hpb Hc Hq Hd].
    assert (Hadj : forall a, In a adj -> In a rem /\ In (edge_key e) (fkeys faces a)).
    { intros a Ha. apply adjacent_spec in Ha. destruct Ha as (_ & H1 & H2). split; [exact H1|].
      apply existsb_key. exact H2. }
    assert (Hrem1 : forall r, In r rem1 <-> In r rem /\ ~ In r adj) by (intros r; apply fold_remove_in).
    constructor.
    + intros r Hr. apply Hb. apply Hrem1 in Hr. tauto.
    + intros p Hp. apply in_app_or in Hp. destruct Hp as [Hp | Hp]; [apply Hpb; exact Hp | apply Hb; apply Hadj; exact Hp].
    + intros p Hp. apply in_app_or in Hp. destruct Hp as [Hp | Hp]; [apply Hc; exact Hp|].
      destruct (Hq e (or_introl eq_refl)) as (q & Hq1 & Hq2).
      apply rst_trans with q; [apply Hc; exact Hq1|]. apply rst_step.
      split; [apply Hpb; exact Hq1|]. split; [apply Hb; apply Hadj; exact Hp|]. exists (edge_key e).
      split; [exact Hq2 | apply Hadj; exact Hp].
    + intros e' He'. apply in_app_or in He'. destruct He' as [He' | He'].
      * apply in_rev in He'. apply in_flat_map in He'. destruct He' as (a & Ha & He').
        exists a. split; [apply in_or_app; right; exact Ha | apply patch_edges_keys; exact He'].
      * destruct (Hq e' (or_intror He')) as (q & Hq1 & Hq2). exists q. split; [apply in_or_app; left; exact Hq1 | exact Hq2].
    + intros p k Hp Hk. apply in_app_or in Hp. destruct Hp as [Hp | Hp].
      * destruct (Hd p k Hp Hk) as [(e' & [<- | He'] & Ek) | Hnone].
        -- (* k is the key being processed now: no remaining face carries it afterwards *)
           right. intros r Hr Hkr. apply Hrem1 in Hr. destruct Hr as [Hr Hna]. apply Hna.
           apply adjacent_spec. split; [apply Hb; exact Hr|]. split; [exact Hr | apply existsb_key; rewrite Ek; exact Hkr].
        -- left. exists e'. split; [apply in_or_app; right; exact He' | exact Ek].
        -- right. intros r Hr. apply Hnone. apply Hrem1 in Hr. tauto.
      * left. destruct (fkeys_from_edges faces p k Hk) as (e' & He' & Ek). exists e'. split; [|exact Ek].
        apply in_or_app. left. apply -> in_rev. apply in_flat_map. exists p. split; assumption.
Qed.

Lemma linked_sym faces a b : linked faces a b -> linked faces b a.
Proof. intros (Ha & Hb & k & H1 & H2). split; [exact Hb|]. split; [exact Ha|]. exists k. auto. Qed.

Section WithOracle.
  Variable pick : list nat -> option nat.
  Hypothesis pick_in : forall l x, pick l = Some x -> In x l.
  Hypothesis pick_some : forall l, l <> [] -> pick l <> None.

  Record outer_inv (faces : list face) (rem : list nat) (acc : list (list nat)) : Prop := {
    oi_conn : forall Q, In Q acc -> forall a b, In a Q -> In b Q -> connected faces a b;
    oi_closed : forall Q, In Q acc -> forall q r, In q Q -> linked faces q r -> In r Q;
    oi_cover : forall x, x < length faces -> In x rem \/ In x (concat acc);
    oi_disj : forall x, In x rem -> ~ In x (concat acc);
    oi_bound : forall x, In x rem \/ In x (concat acc) -> x < length faces
  }.

  Lemma patches_loop_conn faces : forall fuel rem acc result,
    NoDup rem -> outer_inv faces rem acc ->
    patches_loop pick fuel faces rem acc = Some result -> outer_inv faces [] result.
  Proof.
    induction fuel as [|fuel IH]; intros rem acc result Hnd Hi Hr; [discriminate|].
    cbn [patches_loop] in Hr. destruct rem as [|r0 rem0] eqn:Er.
    - inversion Hr; subst. exact Hi.
    - rewrite <- Er in *. destruct (pick rem) as [f|] eqn:Ep; [|discriminate].
      apply pick_in in Ep.
      set (rem1 := remove_nat f rem) in *.
      assert (N1 : NoDup rem1) by (apply remove_nat_nodup; exact Hnd).
      destruct (fill (4 * length faces + 4) faces (rev (patch_edges (nth f faces (0, 0, 0)))) rem1 [f])
        as [[rem2 patch]|] eqn:Ef; [|discriminate].
      destruct Hi as [Hc Hcl Hcov Hdis Hbd].
      assert (Hinit : fill_inv faces f (rev (patch_edges (nth f faces (0, 0, 0)))) rem1 [f]).
      { constructor.
        - intros r Hr'. apply Hbd. left. apply remove_nat_in in Hr'. tauto.
        - intros p [<- | []]. apply Hbd. left. exact Ep.
        - intros p [<- | []]. apply rst_refl.
        - intros e He. exists f. split; [left; reflexivity|]. apply patch_edges_keys. apply in_rev. exact He.
        - intros p k [<- | []] Hk. left. destruct (fkeys_from_edges faces f k Hk) as (e & He & Ek).
          exists e. split; [apply -> in_rev; exact He | exact Ek]. }
      pose proof (fill_conn faces f _ _ _ _ _ _ Hinit Ef) as [Fb Fpb Fc Fq Fd].
      (* bookkeeping facts from the partition proof *)
      destruct (fill_spec faces (4 * length faces + 4) (rev (patch_edges (nth f faces (0, 0, 0)))) rem1 [f] N1)
        as (rem2' & patch' & E' & N2 & I2 & Pm).
      { rewrite rev_length, patch_edges_length.
        assert (length rem1 <= length faces).
        { apply (bounded_nodup_length rem1 (length faces) N1). intros x Hx. apply Hbd. left. apply remove_nat_in in Hx. tauto. }
        lia. }
      rewrite Ef in E'. inversion E'; subst rem2' patch'. clear E'.
      assert (Hsplit : forall x, In x rem <-> In x rem2 \/ In x patch).
      { intros x. rewrite <- in_app_iff. rewrite (Permutation_in_iff x Pm) || idtac.
        split.
        - intros Hx. apply (Permutation_in x (Permutation_sym Pm)). apply in_or_app.
          destruct (Nat.eq_dec x f) as [->|Hn]; [right; left; reflexivity | left; apply remove_nat_in; auto].
        - intros Hx. apply (Permutation_in x Pm) in Hx. apply in_app_or in Hx.
          destruct Hx as [Hx | [<- | []]]; [apply remove_nat_in in Hx; tauto | exact Ep]. }
      apply (IH rem2 (acc ++ [patch]) result N2); [|exact Hr].
      constructor.
      + intros Q HQ a b Ha Hb. apply in_app_or in HQ. destruct HQ as [HQ | [<- | []]]; [eapply Hc; eassumption|].
        apply rst_trans with f; [apply rst_sym; apply Fc; exact Ha | apply Fc; exact Hb].
      + intros Q HQ q r Hq Hl. apply in_app_or in HQ. destruct HQ as [HQ | [<- | []]]; [eapply Hcl; eassumption|].
        assert (Hr' : r < length faces) by (destruct Hl as (_ & H & _); exact H).
        destruct (Hcov r Hr') as [Hrr | Hrr].
        * apply Hsplit in Hrr. destruct Hrr as [Hrr | Hrr]; [|exact Hrr]. exfalso.
          destruct Hl as (_ & _ & k & Hk1 & Hk2). destruct (Fd q k Hq Hk1) as [(e & [] & _) | Hnone].
          apply (Hnone r Hrr Hk2).
        * exfalso. apply in_concat in Hrr. destruct Hrr as (Q' & HQ' & Hr2).
          assert (Hq' : In q Q') by (apply (Hcl Q' HQ' r q Hr2); apply linked_sym; exact Hl).
          apply (Hdis q); [apply Hsplit; right; exact Hq | apply in_concat; exists Q'; auto].
      + intros x Hx. destruct (Hcov x Hx) as [Hx' | Hx'].
        * apply Hsplit in Hx'. destruct Hx' as [Hx' | Hx']; [left; exact Hx' | right].
          rewrite concat_app. apply in_or_app. right. cbn. rewrite app_nil_r. exact Hx'.
        * right. rewrite concat_app. apply in_or_app. left. exact Hx'.
      + intros x Hx Hc'. rewrite concat_app in Hc'. apply in_app_or in Hc'. cbn in Hc'. rewrite app_nil_r in Hc'.
        destruct Hc' as [Hc' | Hc'].
        * apply (Hdis x); [apply Hsplit; left; exact Hx | exact Hc'].
        * (* rem2 and patch are disjoint: NoDup of their concatenation *)
          assert (Hnd2 : NoDup (rem2 ++ patch)).
          { apply (Permutation_NoDup (Permutation_sym Pm)). apply nodup_app; [exact N1 | repeat constructor; intros [] |].
            intros y Hy [<- | []]. apply remove_nat_in in Hy. tauto. }
          destruct (nodup_app_inv _ _ Hnd2) as (_ & _ & Hd2). exact (Hd2 x Hx Hc').
      + intros x [Hx | Hx].
        * apply Hbd. left. apply Hsplit. left. exact Hx.
        * rewrite concat_app in Hx. apply in_app_or in Hx. cbn in Hx. rewrite app_nil_r in Hx.
          destruct Hx as [Hx | Hx]; [apply Hbd; right; exact Hx | apply Hbd; left; apply Hsplit; right; exact Hx].
  Qed.

  (* Faces of one patch are connected through shared edges, and any two faces that share an edge are in the
     same patch -- hence (with the partition theorem) same patch <-> edge-connected. For every iteration order. *)
  Theorem patches_connectivity (faces : list face) patches :
    compute_patch_indices pick faces = Some patches ->
    (forall Q, In Q patches -> forall a b, In a Q -> In b Q -> connected faces a b) /\
    (forall a b, linked faces a b -> exists Q, In Q patches /\ In a Q /\ In b Q) /\
    (forall a, a < length faces -> exists Q, In Q patches /\ In a Q).
  Proof.
    unfold compute_patch_indices. intros H.
    assert (Hinit : outer_inv faces (seq 0 (length faces)) []).
    { constructor; cbn; try (intros; contradiction).
      - intros x Hx. left. apply in_seq. lia.
      - intros x Hx []. 
      - intros x [Hx | []]. apply in_seq in Hx. lia. }
    pose proof (patches_loop_conn faces _ _ _ _ (seq_NoDup _ _) Hinit H) as [Hc Hcl Hcov _ _].
    assert (Hcover : forall a, a < length faces -> exists Q, In Q patches /\ In a Q).
    { intros a Ha. destruct (Hcov a Ha) as [[] | Hin]. apply in_concat in Hin. destruct Hin as (Q & HQ & HaQ). eauto. }
    split; [exact Hc|]. split; [|exact Hcover]. intros a b Hl.
    destruct (Hcover a (proj1 Hl)) as (Q & HQ & HaQ).
    exists Q. split; [exact HQ|]. split; [exact HaQ|]. eapply Hcl; eassumption.
  Qed.

  Corollary patches_same_iff_connected (faces : list face) patches :
    compute_patch_indices pick faces = Some patches ->
    forall a b, a < length faces ->
      (connected faces a b <-> exists Q, In Q patches /\ In a Q /\ In b Q).
  Proof.
    intros H a b Ha. destruct (patches_connectivity faces patches H) as (Hc & Hl & Hcover).
    destruct (patches_partition pick pick_in pick_some faces) as (ps & E & Pm & _).
    rewrite H in E. inversion E; subst ps. clear E.
    assert (Hnd : NoDup (concat patches)) by (apply (Permutation_NoDup (Permutation_sym Pm)); apply seq_NoDup).
    (* an index lies in exactly one patch *)
    assert (Huniq : forall Q Q' x, In Q patches -> In Q' patches -> In x Q -> In x Q' -> Q = Q').
    { clear -Hnd. induction patches as [|P ps IH]; intros Q Q' x HQ HQ' Hx Hx'; [contradiction|].
      cbn in Hnd. destruct (nodup_app_inv _ _ Hnd) as (_ & Hps & Hcross).
      destruct HQ as [<- | HQ], HQ' as [<- | HQ']; auto.
      - exfalso. apply (Hcross x Hx). apply in_concat. eauto.
      - exfalso. apply (Hcross x Hx'). apply in_concat. eauto.
      - eapply IH; eassumption. }
    split.
    - intros Hconn.
      assert (Hgen : forall x y, connected faces x y -> forall Q, In Q patches -> (In x Q <-> In y Q)).
      { clear a b Ha Hconn. intros x y Hconn. induction Hconn as [x y Hxy | x | x y _ IH | x y z _ IH1 _ IH2]; intros Q HQ.
        - destruct (Hl x y Hxy) as (Q' & HQ' & HxQ' & HyQ'). split; intros Hin.
          + rewrite (Huniq Q Q' x HQ HQ' Hin HxQ'). exact HyQ'.
          + rewrite (Huniq Q Q' y HQ HQ' Hin HyQ'). exact HxQ'.
        - tauto.
        - symmetry. apply IH. exact HQ.
        - rewrite (IH1 Q HQ). apply IH2. exact HQ. }
      destruct (Hcover a Ha) as (Q & HQ & HaQ). exists Q. split; [exact HQ|]. split; [exact HaQ|].
      apply (Hgen a b Hconn Q HQ). exact HaQ.
    - intros (Q & HQ & HaQ & HbQ). eapply Hc; eassumption.
  Qed.
End WithOracle.
