(* C01: stations of a polyline curve are consistent with arc length -- over the reals, generically in
   the vector operations (instantiated for Curve2 and Curve3 at the end). *)
From Coq Require Import ZArith Reals Lra Lia List Bool Arith Sorted.
From Flocq Require Import Core.Raux.
From EG Require Import Num.Num Num.RNum Lib.Vec Model.TolMap Model.Curve Proofs.TolMap Proofs.VecR.
Import ListNotations.
Local Open Scope R_scope.

Ltac rn := cbn [nltb nleb neqb nadd nsub nmul ndiv nneg nabs nsqrt nmin nmax nofZ nlit RNum num] in *;
           change (@num RNum) with R in *.

Lemma frac_bounds (a b l : R) : a < l -> l < b -> 0 < (l - a) / (b - a) < 1.
Proof.
  intros H1 H2. split; [apply Rdiv_lt_0_compat; lra|].
  apply Rmult_lt_reg_r with (b - a); [lra|]. unfold Rdiv. rewrite Rmult_assoc, Rinv_l by lra. lra.
Qed.
Lemma frac_recombine (a b l : R) : a < b -> a + (b - a) * ((l - a) / (b - a)) = l.
Proof. intros H. field. lra. Qed.

(* the algebraic laws of the vector operations that the proofs use *)
Record VLaws (V : @VOps RNum) : Prop := {
  vl_dot_nonneg : forall v, 0 <= vdot V v v;
  vl_scale_div : forall a v n t, n <> 0 -> vadd V a (vscale V (vdiv V v n) t) = vadd V a (vscale V v (t / n));
  vl_lerp0 : forall a b, vadd V a (vscale V (vsub V b a) 0) = a;
  vl_lerp1 : forall a b, vadd V a (vscale V (vsub V b a) 1) = b;
  vl_div_dot : forall v n, n <> 0 -> vdot V (vdiv V v n) (vdiv V v n) = vdot V v v / (n * n);
}.

Section Generic.
  Variable V : @VOps RNum.
  Hypothesis L : VLaws V.
  Notation P := (pt V).
  Notation curve := (curve V).
  Notation station := (station V).

  Lemma vnorm_nonneg (v : P) : 0 <= vnorm V v.
  Proof. unfold vnorm. rn. apply sqrt_pos. Qed.
  Lemma vdist_nonneg (a b : P) : 0 <= vdist V a b.
  Proof. apply vnorm_nonneg. Qed.
  Lemma vnorm_sq (v : P) : vnorm V v * vnorm V v = vdot V v v.
  Proof. unfold vnorm. rn. apply sqrt_sqrt. apply (vl_dot_nonneg V L). Qed.

  (* normalising a non-zero vector gives a unit vector *)
  Lemma vnormalize_unit (v : P) : 0 < vnorm V v -> vdot V (vnormalize V v) (vnormalize V v) = 1.
  Proof.
    intros H. unfold vnormalize. rewrite (vl_div_dot V L) by lra. pose proof (vnorm_sq v) as E.
    set (n := vnorm V v) in *. rewrite <- E. change (@num RNum) with R in *. field. lra.
  Qed.

  (* ---- cumulative lengths ---- *)
  Definition d0 : P := vzero V.
  Definition lens_ok (pts : list P) (lens : list R) : Prop :=
    length lens = length pts /\ nth 0 lens 0 = 0 /\
    forall i, (S i < length pts)%nat -> nth (S i) lens 0 = vdist V (nth (S i) pts d0) (nth i pts d0) + nth i lens 0.

  Lemma cum_lengths_spec : forall (l : list P) (acc : R) (prev : P),
    length (cum_lengths V acc prev l) = length l /\
    forall i, (i < length l)%nat ->
      nth i (cum_lengths V acc prev l) 0 = vdist V (nth i l d0) (nth i (prev :: l) d0) + nth i (acc :: cum_lengths V acc prev l) 0.
  Proof.
    induction l as [|v l IH]; intros acc prev; cbn [cum_lengths length]; [split; [reflexivity | intros i Hi; lia]|].
    rn. destruct (IH (vdist V v prev + acc) v) as [Hl Hn]. split; [f_equal; exact Hl|].
    intros [|i] Hi; [reflexivity|]. cbn [nth]. apply Hn. lia.
  Qed.

  Lemma lengths_of_ok (pts : list P) : pts <> [] -> lens_ok pts (lengths_of V pts).
  Proof.
    destruct pts as [|v l]; [congruence|]. intros _. unfold lengths_of, lens_ok.
    destruct (cum_lengths_spec l 0 v) as [Hl Hn]. change (@n0 RNum) with 0.
    split; [cbn [length]; f_equal; exact Hl|]. split; [reflexivity|].
    intros i Hi. cbn [nth]. cbn [length] in Hi. apply Hn. lia.
  Qed.

  (* non-decreasing in general, strictly increasing when consecutive vertices are distinct *)
  Lemma lens_monotone pts lens : lens_ok pts lens ->
    forall i, (S i < length pts)%nat -> nth i lens 0 <= nth (S i) lens 0.
  Proof. intros (_ & _ & H) i Hi. rewrite (H i Hi). pose proof (vdist_nonneg (nth (S i) pts d0) (nth i pts d0)). lra. Qed.

  Definition spaced (tol : R) (pts : list P) : Prop :=
    forall i, (S i < length pts)%nat -> tol < vdist V (nth (S i) pts d0) (nth i pts d0).

  Lemma lens_strict tol pts lens : 0 <= tol -> spaced tol pts -> lens_ok pts lens ->
    forall i j, (i < j)%nat -> (j < length pts)%nat -> nth i lens 0 < nth j lens 0.
  Proof.
    intros Ht Hs (Hl & H0 & Hn) i j Hij. induction j as [|j IH]; [lia|]. intros Hj.
    rewrite (Hn j Hj). specialize (Hs j Hj).
    destruct (Nat.eq_dec i j) as [->|Hne]; [lra|]. assert (nth i lens 0 < nth j lens 0) by (apply IH; lia). lra.
  Qed.

  (* sortedness in the form the search lemmas use *)
  Lemma pairwise_sorted (l : list R) :
    (forall i j, (i < j)%nat -> (j < length l)%nat -> nth i l 0 <= nth j l 0) -> StronglySorted Rle l.
  Proof.
    induction l as [|a l IH]; intros H; [constructor|]. constructor.
    - apply IH. intros i j Hij Hj. apply (H (S i) (S j)); cbn; lia.
    - rewrite Forall_forall. intros x Hx. apply In_nth with (d := 0) in Hx. destruct Hx as (q & Hq & <-).
      apply (H 0%nat (S q)); cbn; lia.
  Qed.

  Lemma lens_sorted tol pts lens : 0 <= tol -> spaced tol pts -> lens_ok pts lens -> StronglySorted Rle lens.
  Proof.
    intros Ht Hs Hok. apply pairwise_sorted. intros i j Hij Hj. left.
    apply (lens_strict tol pts lens Ht Hs Hok); [exact Hij|]. destruct Hok as (Hl & _). lia.
  Qed.

  (* ---- tolerance de-duplication leaves consecutive vertices farther apart than the tolerance ---- *)
  Lemma spaced_cons tol a b l : tol < vdist V b a -> spaced tol (b :: l) -> spaced tol (a :: b :: l).
  Proof. intros H Hs [|i] Hi; cbn [nth]; [exact H|]. apply Hs. cbn in *. lia. Qed.

  Lemma dedup_from_spaced tol : forall l kept, spaced tol (kept :: dedup_from V tol kept l).
  Proof.
    induction l as [|a l IH]; intros kept; cbn [dedup_from].
    - intros i Hi; cbn in Hi; lia.
    - rn. destruct (Rle_bool (vdist V a kept) tol) eqn:E; rbool; [apply IH|].
      apply spaced_cons; [exact E | apply IH].
  Qed.

  Lemma dedup_tol_spaced tol l : spaced tol (dedup_tol V tol l).
  Proof. destruct l as [|a l]; [intros i Hi; cbn in Hi; lia|]. apply dedup_from_spaced. Qed.

  Lemma spaced_snoc tol l x : l <> [] -> spaced tol l -> tol < vdist V x (last l d0) -> spaced tol (l ++ [x]).
  Proof.
    intros Hne Hs Hx i Hi. rewrite app_length in Hi. cbn in Hi.
    destruct (Nat.eq_dec (S i) (length l)) as [E|NE].
    - rewrite app_nth2 by lia. replace (S i - length l)%nat with 0%nat by lia. cbn [nth].
      rewrite app_nth1 by lia.
      assert (Hl : nth i l d0 = last l d0).
      { clear -E Hne. revert i E. induction l as [|a [|b l] IH]; intros i E; [congruence | cbn in E; inversion E; reflexivity|].
        destruct i; [cbn in E; lia|]. cbn [nth last]. apply IH; [discriminate | cbn in *; lia]. }
      rewrite Hl. exact Hx.
    - rewrite !app_nth1 by lia. apply Hs. lia.
  Qed.

  (* well-formed curve: what from_points establishes and every query relies on *)
  Definition WF (c : curve) : Prop :=
    (2 <= count V c)%nat /\ 0 <= ctol V c /\ spaced (ctol V c) (cpts V c) /\ clens V c = lengths_of V (cpts V c).

  Theorem from_points_wf avg points tol fc c :
    0 <= tol -> from_points V avg points tol fc = Ok c -> WF c.
  Proof.
    intros Ht. unfold from_points. set (p1 := dedup_tol V tol points).
    destruct (length p1 <? 2)%nat eqn:El; [discriminate|]. apply Nat.ltb_ge in El.
    pose proof (dedup_tol_spaced tol points) as Hs1. fold p1 in Hs1.
    destruct p1 as [|first rest] eqn:Ep; [cbn in El; lia|].
    rn. set (lastp := last (first :: rest) first).
    assert (Hirr : forall (l : list P) a b, l <> [] -> last l a = last l b).
    { clear. induction l as [|x [|y l] IH]; intros a b H; [congruence | reflexivity|]. cbn [last]. apply IH. discriminate. }
    assert (Hlast : last (first :: rest) d0 = lastp) by (apply Hirr; discriminate).
    destruct (fc && Rlt_bool tol (vdist V first lastp)) eqn:Efc; intros H; inversion H; subst c; clear H;
      unfold WF, count; cbn [cpts clens ctol].
    - apply andb_true_iff in Efc. destruct Efc as [_ Efc]. rbool.
      change (first :: rest ++ [first]) with ((first :: rest) ++ [first]).
      split; [rewrite app_length; cbn [length] in *; lia|]. split; [exact Ht|]. split; [|reflexivity].
      apply spaced_snoc; [discriminate | exact Hs1 | rewrite Hlast; exact Efc].
    - split; [exact El|]. split; [exact Ht|]. split; [exact Hs1 | reflexivity].
  Qed.

  (* ---- stations ---- *)
  Section Stations.
    Variable c : curve.
    Hypothesis Hwf : WF c.
    Let n := count V c.
    Let lens := clens V c.

    Lemma wf_lens_ok : lens_ok (cpts V c) lens.
    Proof. destruct Hwf as (H2 & _ & _ & E). unfold lens. rewrite E. apply lengths_of_ok. unfold count in H2. destruct (cpts V c); [cbn in H2; lia | discriminate]. Qed.
    Lemma wf_len_count : length lens = n.
    Proof. destruct wf_lens_ok as (H & _). exact H. Qed.
    Lemma wf_sorted : StronglySorted Rle lens.
    Proof. destruct Hwf as (_ & Ht & Hs & _). eapply lens_sorted; [exact Ht | exact Hs | exact wf_lens_ok]. Qed.
    Lemma wf_strict i j : (i < j)%nat -> (j < n)%nat -> nth i lens 0 < nth j lens 0.
    Proof. destruct Hwf as (_ & Ht & Hs & _). apply (lens_strict (ctol V c) (cpts V c) lens Ht Hs wf_lens_ok). Qed.
    Lemma wf_first : nth 0 lens 0 = 0.
    Proof. destruct wf_lens_ok as (_ & H & _). exact H. Qed.
    Lemma wf_n2 : (2 <= n)%nat.
    Proof. destruct Hwf as (H & _). exact H. Qed.

    Lemma wf_total : clength V c = nth (n - 1) lens 0.
    Proof.
      unfold clength. change (@n0 RNum) with 0. fold lens. pose proof wf_len_count as Hl. pose proof wf_n2.
      rewrite <- Hl. assert (Hne : lens <> []) by (destruct lens; [cbn in Hl; lia | discriminate]).
      assert (Hg : forall l : list R, l <> [] -> last l 0 = nth (length l - 1) l 0).
      { clear. induction l as [|a [|b l] IH]; intros Hne; [congruence | reflexivity|].
        cbn [length last]. replace (S (S (length l)) - 1)%nat with (S (length (b :: l) - 1)) by (cbn; lia). cbn [nth]. apply IH. discriminate. }
      apply Hg. exact Hne.
    Qed.

    (* edge length = difference of the stored cumulative lengths *)
    Lemma wf_edge i : (S i < n)%nat -> nth (S i) lens 0 - nth i lens 0 = vdist V (vtx V c (S i)) (vtx V c i).
    Proof. intros Hi. destruct wf_lens_ok as (_ & _ & H). pose proof (H i Hi) as E. unfold vtx, lens, d0 in *. change (@num RNum) with R in *. lra. Qed.

    (* a length outside [0, L] yields no station *)
    Theorem at_length_outside l : l < 0 \/ clength V c < l -> at_length V c l = None.
    Proof.
      intros H. unfold at_length. rn. change (@n0 RNum) with 0.
      destruct H as [H | H].
      - assert (E : Rlt_bool l 0 = true) by (apply Rltb_true; exact H). rewrite E. reflexivity.
      - assert (E : Rlt_bool (clength V c) l = true) by (apply Rltb_true; exact H). rewrite E, orb_true_r. reflexivity.
    Qed.

    (* the station of a vertex *)
    Lemma at_vertex_spec k : (k < n)%nat ->
      let s := at_vertex V c k in
      st_point V s = vtx V c k /\ (S (st_index V s) < n)%nat /\ length_along V c s = nth k lens 0 /\
      ((k < n - 1)%nat -> st_index V s = k /\ st_frac V s = 0) /\
      (k = (n - 1)%nat -> st_index V s = (n - 2)%nat /\ st_frac V s = 1).
    Proof.
      intros Hk. pose proof wf_n2 as H2. unfold at_vertex. fold n.
      destruct (Nat.eqb_spec k (n - 1)) as [E|NE]; unfold length_along; cbn [st_point st_index st_frac]; unfold len_at; fold lens;
        rn; change (@n0 RNum) with 0; change (@n1 RNum) with 1.
      - split; [reflexivity|]. split; [lia|]. split; [replace (S (k - 1)) with k by lia; ring|]. split; [lia|].
        intros _. split; [lia | reflexivity].
      - split; [reflexivity|]. split; [lia|]. split; [ring|]. split; [auto|]. intros; lia.
    Qed.

    (* every l in [0, L] has a station, it reports length l, its (index, fraction) reproduce its point by
       linear interpolation of the stored vertices, and off the vertices its direction is the unit edge direction *)
    Theorem at_length_inside l : 0 <= l <= clength V c ->
      exists s, at_length V c l = Some s /\
        (S (st_index V s) < n)%nat /\ 0 <= st_frac V s <= 1 /\
        length_along V c s = l /\
        st_point V s = vlerp V (vtx V c (st_index V s)) (vtx V c (S (st_index V s))) (st_frac V s) /\
        ((forall k, (k < n)%nat -> nth k lens 0 <> l) ->
           st_dir V s = dir_of_edge V c (st_index V s) /\ vdot V (st_dir V s) (st_dir V s) = 1 /\ 0 < st_frac V s < 1).
    Proof.
      intros [Hl0 HlL]. pose proof wf_n2 as H2. pose proof wf_len_count as Hlen. pose proof wf_sorted as Hsort.
      unfold at_length. rn. change (@n0 RNum) with 0.
      assert (E1 : Rlt_bool l 0 = false) by (apply Rltb_false; lra).
      assert (E2 : Rlt_bool (clength V c) l = false) by (apply Rltb_false; lra).
      rewrite E1, E2. cbn [orb]. unfold lsearch. rn. fold lens.
      destruct (last_eq Rlt_bool lens l 0) as [k|] eqn:Es.
      - (* exactly on a stored vertex length *)
        apply last_eq_some in Es. destruct Es as (i & -> & Hi & _). cbn [Nat.add].
        assert (Hin : (i < n)%nat) by (rewrite <- Hlen; apply nth_error_Some; congruence).
        assert (Hnth : nth i lens 0 = l) by (apply nth_error_nth; exact Hi).
        destruct (at_vertex_spec i Hin) as (Hp & Hidx & Hla & Hlt & Heq).
        exists (at_vertex V c i). split; [reflexivity|]. split; [exact Hidx|].
        destruct (Nat.eq_dec i (n - 1)) as [E|NE].
        + destruct (Heq E) as [Ei Ef]. rewrite Ef. split; [lra|]. split; [rewrite Hla; exact Hnth|]. split.
          * rewrite Hp, Ei. unfold vlerp. rewrite (vl_lerp1 V L). replace (S (n - 2)) with i by lia. reflexivity.
          * intros Hno. exfalso. apply (Hno i Hin). exact Hnth.
        + destruct (Hlt ltac:(lia)) as [Ei Ef]. rewrite Ef. split; [lra|]. split; [rewrite Hla; exact Hnth|]. split.
          * rewrite Hp, Ei. unfold vlerp. rewrite (vl_lerp0 V L). reflexivity.
          * intros Hno. exfalso. apply (Hno i Hin). exact Hnth.
      - (* strictly inside an edge *)
        apply last_eq_none in Es.
        destruct (count_below_spec lens l Hsort) as (Hcl & Hlt & Hge).
        set (k := count_below Rlt_bool lens l) in *.
        assert (Hk1 : (1 <= k)%nat).
        { destruct (Nat.eq_dec k 0) as [E|]; [|lia]. exfalso.
          assert (Hle0 : l <= nth 0 lens 0) by (apply (Hge 0%nat); [lia | apply nth_error_nth'; lia]).
          pose proof wf_first as Hf0. apply Es.
          assert (El0 : l = nth 0 lens 0) by (change (@num RNum) with R in *; lra). rewrite El0. apply nth_In. lia. }
        assert (Hkn : (k < n)%nat).
        { destruct (Nat.lt_ge_cases k n) as [H|H]; [exact H|]. exfalso.
          assert (Hlast : nth (n - 1) lens 0 < l) by (apply (Hlt (n - 1)%nat); [lia | apply nth_error_nth'; lia]).
          pose proof wf_total as Htot. change (@num RNum) with R in *. lra. }
        set (i := (k - 1)%nat).
        assert (Hi1 : S i = k) by (unfold i; lia).
        assert (Hlo : nth i lens 0 < l) by (apply (Hlt i); [lia | apply nth_error_nth'; lia]).
        assert (Hhi : l < nth (S i) lens 0).
        { rewrite Hi1. assert (l <= nth k lens 0) by (apply (Hge k); [lia | apply nth_error_nth'; lia]).
          assert (nth k lens 0 <> l) by (intros Hc; apply Es; rewrite <- Hc; apply nth_In; lia). lra. }
        pose proof (wf_edge i ltac:(lia)) as Hedge.
        pose proof (frac_bounds _ _ l Hlo Hhi) as Hf.
        assert (Hab : nth i lens 0 < nth (S i) lens 0) by (change (@num RNum) with R in *; lra).
        eexists. split; [reflexivity|]. cbn [st_index st_frac st_point st_dir]. unfold len_at. fold lens. fold i.
        change (@n0 RNum) with 0. rn.
        split; [lia|]. split; [split; left; apply Hf|]. split.
        { unfold length_along. cbn [st_index st_frac]. unfold len_at. fold lens. change (@n0 RNum) with 0. rn.
          apply frac_recombine. exact Hab. }
        split.
        { unfold vlerp, dir_of_edge, vnormalize. fold (vdist V (vtx V c (S i)) (vtx V c i)). rewrite <- Hedge.
          apply (vl_scale_div V L). change (@num RNum) with R in *. lra. }
        intros _. split; [reflexivity|]. split; [|exact Hf].
        apply vnormalize_unit. fold (vdist V (vtx V c (S i)) (vtx V c i)). rewrite <- Hedge.
        change (@num RNum) with R in *. lra.
    Qed.

    (* asking by fraction is asking by length *)
    Theorem at_fraction_eq f : at_fraction V c f = at_length V c (f * clength V c).
    Proof. reflexivity. Qed.

    (* asking for a stored vertex length gives that vertex's station; iterating gives the same stations *)
    Theorem at_length_vertex k : (k < n)%nat -> at_length V c (nth k lens 0) = Some (at_vertex V c k).
    Proof.
      intros Hk. pose proof wf_len_count as Hlen. pose proof wf_sorted as Hsort. pose proof wf_n2 as H2.
      unfold at_length. rn. change (@n0 RNum) with 0.
      assert (H0 : 0 <= nth k lens 0).
      { pose proof wf_first as Hf0. destruct (Nat.eq_dec k 0) as [->|Hk0]; [change (@num RNum) with R in *; lra|].
        pose proof (wf_strict 0 k ltac:(lia) Hk) as Hs0. change (@num RNum) with R in *. lra. }
      assert (HL : nth k lens 0 <= clength V c).
      { pose proof wf_total as Htot. destruct (Nat.eq_dec k (n - 1)) as [->|Hkn]; [change (@num RNum) with R in *; lra|].
        pose proof (wf_strict k (n - 1) ltac:(lia) ltac:(lia)) as Hs1. change (@num RNum) with R in *. lra. }
      assert (E1 : Rlt_bool (nth k lens 0) 0 = false) by (apply Rltb_false; lra).
      assert (E2 : Rlt_bool (clength V c) (nth k lens 0) = false) by (apply Rltb_false; lra).
      rewrite E1, E2. cbn [orb]. unfold lsearch. rn. fold lens.
      destruct (last_eq Rlt_bool lens (nth k lens 0) 0) as [j|] eqn:Es.
      - apply last_eq_some in Es. destruct Es as (i & -> & Hi & _). cbn [Nat.add].
        assert (Hin : (i < n)%nat) by (rewrite <- Hlen; apply nth_error_Some; congruence).
        assert (Hnth : nth i lens 0 = nth k lens 0) by (apply nth_error_nth; exact Hi).
        assert (i = k).
        { destruct (Nat.lt_trichotomy i k) as [H | [H | H]]; [|exact H|].
          - pose proof (wf_strict i k H Hk). change (@num RNum) with R in *. lra.
          - pose proof (wf_strict k i H Hin). change (@num RNum) with R in *. lra. }
        subst i. reflexivity.
      - apply last_eq_none in Es. exfalso. apply Es. apply nth_In. lia.
    Qed.

    Theorem iter_eq k : (k < n)%nat -> nth_error (iter_stations V c) k = Some (at_vertex V c k).
    Proof.
      intros Hk. unfold iter_stations. fold n. rewrite nth_error_map. rewrite nth_error_nth' with (d := 0%nat) by (rewrite seq_length; exact Hk).
      rewrite seq_nth by exact Hk. reflexivity.
    Qed.
  End Stations.
End Generic.

(* ---- the two instances ---- *)
Lemma VLaws2 : VLaws (@VO2 RNum).
Proof.
  constructor; cbn [VO2 vdot vadd vscale vdiv vsub pt].
  - intros [x y]. vec_unfold. nra.
  - intros [ax ay] [x y] n t Hn. vec_unfold. f_equal; field; exact Hn.
  - intros [ax ay] [bx by_]. vec_unfold. f_equal; ring.
  - intros [ax ay] [bx by_]. vec_unfold. f_equal; ring.
  - intros [x y] n Hn. vec_unfold. field. exact Hn.
Qed.

Lemma VLaws3 : VLaws (@VO3 RNum).
Proof.
  constructor; cbn [VO3 vdot vadd vscale vdiv vsub pt].
  - intros [[x y] z]. vec_unfold. nra.
  - intros [[ax ay] az] [[x y] z] n t Hn. vec_unfold. f_equal; [f_equal|]; field; exact Hn.
  - intros [[ax ay] az] [[bx by_] bz]. vec_unfold. f_equal; [f_equal|]; ring.
  - intros [[ax ay] az] [[bx by_] bz]. vec_unfold. f_equal; [f_equal|]; ring.
  - intros [[x y] z] n Hn. vec_unfold. field. exact Hn.
Qed.

(* 2D vertex direction at an interior vertex (or the seam of a closed curve): the normalised sum of the two
   adjacent unit edge directions, a unit vector whenever those are not antiparallel *)
Notation V2R := (@VO2 RNum).
Theorem dir_of_vertex_interior (c : curve V2R) (k : nat) :
  cavg V2R c = true -> (0 < k)%nat -> (k < count V2R c - 1)%nat ->
  dir_of_vertex V2R c k = vnormalize V2R (vadd V2R (dir_of_edge V2R c (k - 1)) (dir_of_edge V2R c k)) /\ (0 < vnorm V2R (vadd V2R (dir_of_edge V2R c (k - 1)) (dir_of_edge V2R c k)) ->
   vdot V2R (dir_of_vertex V2R c k) (dir_of_vertex V2R c k) = 1).
Proof.
  intros Ha H0 Hk. unfold dir_of_vertex. rewrite Ha.
  assert (E1 : (k =? 0)%nat = false) by (apply Nat.eqb_neq; lia).
  assert (E2 : (k =? count V2R c - 1)%nat = false) by (apply Nat.eqb_neq; lia).
  rewrite E1, E2. cbn [orb andb]. rewrite andb_false_r. split; [reflexivity|].
  intros Hn. apply (vnormalize_unit V2R VLaws2). exact Hn.
Qed.

Theorem dir_of_vertex_seam (c : curve V2R) (k : nat) :
  cavg V2R c = true -> cclosed V2R c = true -> (k = 0 \/ k = count V2R c - 1)%nat ->
  dir_of_vertex V2R c k = vnormalize V2R (vadd V2R (dir_of_edge V2R c 0) (dir_of_edge V2R c (count V2R c - 2))).
Proof.
  intros Ha Hc Hk. unfold dir_of_vertex. rewrite Ha, Hc. cbn [andb].
  assert (E : ((k =? 0)%nat || (k =? count V2R c - 1)%nat) = true).
  { apply orb_true_iff. destruct Hk as [-> | ->]; [left | right]; apply Nat.eqb_refl. }
  rewrite E. reflexivity.
Qed.

(* the excluded spike: when the two adjacent edge directions cancel there is nothing to normalise *)
Example spike_has_no_direction :
  @add2 RNum (@sub2 RNum (1, 0) (0, 0)) (@neg2 RNum (@sub2 RNum (1, 0) (0, 0))) = (0, 0).
Proof. vec_unfold. f_equal; ring. Qed.
