(* C09: normal equations => orthogonality => optimality; exact recovery; closed-form line; three-point
   circle; RANSAC bookkeeping.  Over the reals. *)
From Coq Require Import ZArith Reals Lra Lia List Bool Arith.
From Flocq Require Import Core.Raux.
From EG Require Import Num.Num Num.RNum Lib.Vec Model.Poly Proofs.VecR.
Import ListNotations.
Local Open Scope R_scope.

(* ---- finite sums ---- *)
Fixpoint sumf {A} (f : A -> R) (l : list A) : R :=
  match l with [] => 0 | a :: l' => f a + sumf f l' end.

Lemma fold_left_sumf {A} (f : A -> R) (l : list A) (a : R) :
  fold_left (fun acc s => acc + f s) l a = a + sumf f l.
Proof. revert a; induction l as [|x l IH]; intros a; cbn; [lra|]. rewrite IH. lra. Qed.
Lemma sumf_ext {A} (f g : A -> R) l : (forall a, In a l -> f a = g a) -> sumf f l = sumf g l.
Proof. induction l as [|x l IH]; intros H; cbn; [reflexivity|]. rewrite H by (left; reflexivity). rewrite IH; [reflexivity|]. intros; apply H; right; assumption. Qed.
Lemma sumf_plus {A} (f g : A -> R) l : sumf (fun a => f a + g a) l = sumf f l + sumf g l.
Proof. induction l; cbn; lra. Qed.
Lemma sumf_minus {A} (f g : A -> R) l : sumf (fun a => f a - g a) l = sumf f l - sumf g l.
Proof. induction l; cbn; lra. Qed.
Lemma sumf_scal {A} (c : R) (f : A -> R) l : sumf (fun a => c * f a) l = c * sumf f l.
Proof. induction l; cbn; lra. Qed.
Lemma sumf_scal_r {A} (c : R) (f : A -> R) l : sumf (fun a => f a * c) l = sumf f l * c.
Proof. induction l; cbn; lra. Qed.
Lemma sumf_zero {A} (l : list A) : sumf (fun _ => 0) l = 0.
Proof. induction l; cbn; lra. Qed.
Lemma sumf_swap {A B} (g : A -> B -> R) la lb :
  sumf (fun a => sumf (fun b => g a b) lb) la = sumf (fun b => sumf (fun a => g a b) la) lb.
Proof.
  induction la as [|a la IH]; cbn.
  - symmetry. apply sumf_zero.
  - rewrite IH. rewrite <- sumf_plus. reflexivity.
Qed.
Lemma sumf_nonneg {A} (f : A -> R) l : (forall a, In a l -> 0 <= f a) -> 0 <= sumf f l.
Proof. induction l as [|x l IH]; intros H; cbn; [lra|]. assert (0 <= f x) by (apply H; left; reflexivity). assert (0 <= sumf f l) by (apply IH; intros; apply H; right; assumption). lra. Qed.

Lemma npow_pow (x : R) k : @npow RNum x k = x ^ k.
Proof. induction k; cbn; [reflexivity|]. rewrite IHk. reflexivity. Qed.

Notation Rsample := (@sample RNum).
Definition X (s : Rsample) : R := sx s.
Definition Y (s : Rsample) : R := sy s.
Definition W (s : Rsample) : R := sw s.

(* the accumulated sums are the weighted power sums / moments *)
Theorem power_sum_spec (S : list Rsample) (j : nat) : @power_sum RNum S j = sumf (fun s => W s * X s ^ j) S.
Proof.
  unfold power_sum. cbn [nadd nmul RNum]. change (@n0 RNum) with 0.
  rewrite (fold_left_sumf (fun s : Rsample => (W s * @npow RNum (X s) j)%R)). rewrite Rplus_0_l.
  apply sumf_ext. intros s _. rewrite npow_pow. reflexivity.
Qed.
Theorem rhs_entry_spec (S : list Rsample) (k : nat) : @rhs_entry RNum S k = sumf (fun s => W s * X s ^ k * Y s) S.
Proof.
  unfold rhs_entry. cbn [nadd nmul RNum]. change (@n0 RNum) with 0.
  rewrite (fold_left_sumf (fun s : Rsample => (W s * @npow RNum (X s) k * Y s)%R)). rewrite Rplus_0_l.
  apply sumf_ext. intros s _. rewrite npow_pow. reflexivity.
Qed.
Theorem sums_of_spec (K : nat) (S : list Rsample) (j : nat) : (j <= 2 * K)%nat ->
  nth j (@sums_of RNum K S) 0 = sumf (fun s => W s * X s ^ j) S.
Proof.
  intros Hj. unfold sums_of.
  rewrite (nth_indep _ 0 (@power_sum RNum S 0)) by (rewrite map_length, seq_length; lia).
  rewrite map_nth. rewrite seq_nth by lia. cbn [Nat.add]. apply power_sum_spec.
Qed.

(* polynomial with coefficient list c (length K), as a finite sum *)
Definition P (K : nat) (c : list R) (x : R) : R := sumf (fun j => nth j c 0 * x ^ j) (seq 0 K).

(* the normal equations M c = rhs, row by row *)
Definition NE (K : nat) (S : list Rsample) (c : list R) : Prop :=
  forall r, (r < K)%nat ->
    sumf (fun j => sumf (fun s => W s * X s ^ (r + j)) S * nth j c 0) (seq 0 K) = sumf (fun s => W s * X s ^ r * Y s) S.

(* normal equations => the residual is orthogonal, in the weighted inner product, to every monomial column *)
Theorem normal_eq_orthogonal (K : nat) (S : list Rsample) (c : list R) :
  NE K S c -> forall k, (k < K)%nat -> sumf (fun s => W s * X s ^ k * (Y s - P K c (X s))) S = 0.
Proof.
  intros Hne k Hk.
  rewrite (sumf_ext _ (fun s => W s * X s ^ k * Y s - sumf (fun j => W s * X s ^ (k + j) * nth j c 0) (seq 0 K))).
  2:{ intros s _. unfold P. rewrite Rmult_minus_distr_l. f_equal. rewrite <- sumf_scal.
      apply sumf_ext. intros j _. rewrite pow_add. ring. }
  rewrite sumf_minus. rewrite (sumf_swap (fun s j => W s * X s ^ (k + j) * nth j c 0)).
  rewrite <- (Hne k Hk).
  rewrite (sumf_ext (fun b => sumf (fun a => W a * X a ^ (k + b) * nth b c 0) S)
                    (fun j => sumf (fun s => W s * X s ^ (k + j)) S * nth j c 0)).
  - lra.
  - intros j _. rewrite <- sumf_scal_r. reflexivity.
Qed.

(* weighted sum of squared residuals *)
Definition SS (K : nat) (S : list Rsample) (c : list R) : R := sumf (fun s => W s * (Y s - P K c (X s)) ^ 2) S.

(* ... hence no other coefficient vector has a smaller weighted sum of squares (non-negative weights) *)
Theorem lsq_optimal (K : nat) (S : list Rsample) (c c' : list R) :
  NE K S c -> (forall s, In s S -> 0 <= W s) -> SS K S c <= SS K S c'.
Proof.
  intros Hne Hw.
  assert (Hdiff : forall x, P K c x - P K c' x = sumf (fun j => (nth j c 0 - nth j c' 0) * x ^ j) (seq 0 K)).
  { intros x. unfold P. rewrite <- sumf_minus. apply sumf_ext. intros j _. ring. }
  assert (Hcross : sumf (fun s => W s * (Y s - P K c (X s)) * (P K c (X s) - P K c' (X s))) S = 0).
  { rewrite (sumf_ext _ (fun s => sumf (fun j => (nth j c 0 - nth j c' 0) * (W s * X s ^ j * (Y s - P K c (X s)))) (seq 0 K))).
    2:{ intros s _. rewrite Hdiff. rewrite <- sumf_scal. apply sumf_ext. intros j _. ring. }
    rewrite sumf_swap. rewrite (sumf_ext _ (fun _ => 0)); [apply sumf_zero|].
    intros j Hj. apply in_seq in Hj. rewrite sumf_scal. rewrite (normal_eq_orthogonal K S c Hne j) by lia. ring. }
  unfold SS.
  assert (E : sumf (fun s => W s * (Y s - P K c' (X s)) ^ 2) S =
              sumf (fun s => W s * (Y s - P K c (X s)) ^ 2) S
              + (2 * sumf (fun s => W s * (Y s - P K c (X s)) * (P K c (X s) - P K c' (X s))) S
                 + sumf (fun s => W s * (P K c (X s) - P K c' (X s)) ^ 2) S)).
  { rewrite <- sumf_scal, <- !sumf_plus. apply sumf_ext. intros s _. ring. }
  rewrite E, Hcross.
  assert (0 <= sumf (fun s => W s * (P K c (X s) - P K c' (X s)) ^ 2) S).
  { apply sumf_nonneg. intros s Hs. apply Rmult_le_pos; [apply Hw; exact Hs | apply pow2_ge_0]. }
  lra.
Qed.

(* samples of an exact polynomial of that size satisfy the normal equations with its own coefficients, so when
   the normal equations have a unique solution (the matrix is invertible) the fit returns that polynomial *)
Theorem exact_poly_solves (K : nat) (S : list Rsample) (q : list R) :
  (forall s, In s S -> Y s = P K q (X s)) -> NE K S q.
Proof.
  intros Hy r Hr.
  rewrite (sumf_ext (fun s => W s * X s ^ r * Y s) (fun s => sumf (fun j => W s * X s ^ (r + j) * nth j q 0) (seq 0 K))).
  2:{ intros s Hs. rewrite (Hy s Hs). unfold P. rewrite <- sumf_scal. apply sumf_ext. intros j _. rewrite pow_add. ring. }
  rewrite (sumf_swap (fun s j => W s * X s ^ (r + j) * nth j q 0)).
  apply sumf_ext. intros j _. rewrite <- sumf_scal_r. reflexivity.
Qed.

Corollary lsq_exact_recovery (K : nat) (S : list Rsample) (q c : list R) :
  (forall s, In s S -> Y s = P K q (X s)) -> NE K S c ->
  (forall a b, NE K S a -> NE K S b -> forall j, (j < K)%nat -> nth j a 0 = nth j b 0) ->
  forall j, (j < K)%nat -> nth j c 0 = nth j q 0.
Proof. intros Hy Hc Huniq. apply Huniq; [exact Hc | apply exact_poly_solves; exact Hy]. Qed.

(* ---- Series1::best_fit_line is the solution of the degree-1 normal equations ---- *)
Lemma line_solution (n sx sy sxx sxy : R) : n <> 0 -> n * sxx - sx * sx <> 0 ->
  let m := (n * sxy - sx * sy) / (n * sxx - sx * sx) in
  let b := (sy - m * sx) / n in
  n * b + sx * m = sy /\ sx * b + sxx * m = sxy.
Proof. intros Hn Hd m b. unfold b, m. split; field; split; assumption. Qed.

Theorem best_fit_line_normal_eqs (xs ys : list R) :
  INR (length xs) <> 0 ->
  INR (length xs) * @sum_list RNum (map (fun x => @nmul RNum x x) xs) - @sum_list RNum xs * @sum_list RNum xs <> 0 ->
  INR (length xs) * snd (@best_fit_line RNum xs ys) + @sum_list RNum xs * fst (@best_fit_line RNum xs ys) = @sum_list RNum ys /\ @sum_list RNum xs * snd (@best_fit_line RNum xs ys)
    + @sum_list RNum (map (fun x => @nmul RNum x x) xs) * fst (@best_fit_line RNum xs ys)
    = @sum_list RNum (map (fun p => @nmul RNum (fst p) (snd p)) (combine xs ys)).
Proof.
  intros Hn Hd. unfold best_fit_line. cbn [fst snd]. unfold nofnat. cbn [nofZ RNum ndiv nsub nmul]. rewrite <- INR_IZR_INZ.
  apply line_solution; assumption.
Qed.

(* ---- three-point circle ---- *)
Lemma lit_1em6_pos : 0 < Rlit 1 (-6).
Proof. unfold Rlit. apply Rdiv_lt_0_compat; [lra|]. apply IZR_lt. reflexivity. Qed.

Theorem circle3_through (p0 p1 p2 : R * R) cx cy r :
  @circle3 RNum p0 p1 p2 = Ok (cx, cy, r) ->
  (cx - fst p0) ^ 2 + (cy - snd p0) ^ 2 = r ^ 2 /\
  (cx - fst p1) ^ 2 + (cy - snd p1) ^ 2 = r ^ 2 /\
  (cx - fst p2) ^ 2 + (cy - snd p2) ^ 2 = r ^ 2.
Proof.
  destruct p0 as [x0 y0], p1 as [x1 y1], p2 as [x2 y2]. unfold circle3. cbn [fst snd].
  cbn [nmul nsub ndiv nadd nabs nltb nsqrt nlit RNum]. change (@n2 RNum) with 2.
  set (det := (x0 - x1) * (y1 - y2) - (x1 - x2) * (y0 - y1)).
  destruct (Rlt_bool (Rabs det) (Rlit 1 (-6))) eqn:E; [discriminate|]. rbool.
  assert (Hdet : det <> 0).
  { intros Z. rewrite Z, Rabs_R0 in E. pose proof lit_1em6_pos. lra. }
  intros H. inversion H; subst; clear H.
  match goal with |- context [sqrt ?a] => set (A := a) end.
  assert (HA : 0 <= A) by (unfold A; apply Rplus_le_le_0_compat; apply sq_nonneg).
  replace (sqrt A ^ 2) with A by (cbn [pow]; rewrite Rmult_1_r, sqrt_sqrt; [reflexivity | exact HA]).
  unfold A, det. repeat split; field; exact Hdet.
Qed.

Theorem circle3_collinear_rejected (p0 p1 p2 : R * R) :
  (fst p0 - fst p1) * (snd p1 - snd p2) - (fst p1 - fst p2) * (snd p0 - snd p1) = 0 ->
  @circle3 RNum p0 p1 p2 = Err.
Proof.
  destruct p0 as [x0 y0], p1 as [x1 y1], p2 as [x2 y2]. cbn [fst snd]. intros Hd.
  unfold circle3. cbn [fst snd nmul nsub ndiv nadd nabs nltb nlit RNum]. cbv zeta. rewrite Hd, Rabs_R0.
  assert (E : Rlt_bool 0 (Rlit 1 (-6)) = true) by (apply Rltb_true; apply lit_1em6_pos). rewrite E. reflexivity.
Qed.

(* ---- RANSAC bookkeeping: the returned candidate has the largest inlier count of all candidates examined ---- *)
Theorem ransac_pick_best (pts : list (R * R)) (tol : R) (cands : list (option (@circle RNum))) :
  let '(best, k) := @ransac_pick RNum pts tol cands in
  (forall c, In (Some c) cands -> (@inliers RNum pts tol c <= k)%nat) /\
  match best with
  | Some c => In (Some c) cands /\ @inliers RNum pts tol c = k /\ (0 < k)%nat
  | None => k = 0%nat
  end.
Proof.
  unfold ransac_pick.
  assert (H : forall cs (init : option (@circle RNum) * nat),
            (match fst init with Some c => @inliers RNum pts tol c = snd init /\ (0 < snd init)%nat | None => snd init = 0%nat end) ->
            let r := fold_left (fun best cand => match cand with
                                  | None => best
                                  | Some c => let k := @inliers RNum pts tol c in if (snd best <? k)%nat then (Some c, k) else best end) cs init in
            (snd init <= snd r)%nat /\
            (forall c, In (Some c) cs -> (@inliers RNum pts tol c <= snd r)%nat) /\
            match fst r with
            | Some c => (In (Some c) cs \/ fst init = Some c) /\ @inliers RNum pts tol c = snd r /\ (0 < snd r)%nat
            | None => snd r = 0%nat
            end).
  { induction cs as [|cand cs IH]; intros init Hinit; cbn [fold_left].
    - split; [lia|]. split; [intros c []|]. destruct (fst init); [split; [right; reflexivity | exact Hinit] | exact Hinit].
    - destruct cand as [c|].
      + cbv zeta. destruct (Nat.ltb_spec (snd init) (@inliers RNum pts tol c)) as [Hlt|Hge].
        * destruct (IH (Some c, @inliers RNum pts tol c)) as (H1 & H2 & H3); [cbn; split; [reflexivity | lia]|].
          cbn [snd fst] in *. split; [lia|]. split.
          -- intros c' [Hc' | Hc']; [inversion Hc'; subst; exact H1 | apply H2; exact Hc'].
          -- destruct (fst (fold_left _ cs (Some c, @inliers RNum pts tol c))) as [cb|]; [|exact H3].
             destruct H3 as ([Hin | Hin] & Hk); split; auto; left; [right; exact Hin | left; exact Hin].
        * destruct (IH init Hinit) as (H1 & H2 & H3). split; [exact H1|]. split.
          -- intros c' [Hc' | Hc']; [inversion Hc'; subst c'; eapply Nat.le_trans; [exact Hge | exact H1] | apply H2; exact Hc'].
          -- destruct (fst (fold_left _ cs init)) as [cb|]; [|exact H3].
             destruct H3 as ([Hin | Hin] & Hk); split; auto. left. right. exact Hin.
      + destruct (IH init Hinit) as (H1 & H2 & H3). split; [exact H1|]. split.
        * intros c' [Hc' | Hc']; [discriminate | apply H2; exact Hc'].
        * destruct (fst (fold_left _ cs init)) as [cb|]; [|exact H3].
          destruct H3 as ([Hin | Hin] & Hk); split; auto. left. right. exact Hin. }
  specialize (H cands (None, 0%nat) eq_refl). cbv zeta in H.
  destruct (fold_left _ cands (None, 0%nat)) as [best k]. cbn [fst snd] in H.
  destruct H as (_ & H2 & H3). split; [exact H2|].
  destruct best as [c|]; [|exact H3]. destruct H3 as ([Hin | Hin] & Hk); [split; [exact Hin | exact Hk] | discriminate].
Qed.

(* ---- Line1::try_from_points ---- *)

Lemma lit_1em12_pos : 0 < Rlit 1 (-12).
Proof. unfold Rlit. apply Rdiv_lt_0_compat; [lra|]. apply IZR_lt. reflexivity. Qed.

(* the line through two samples with distinct abscissae passes through both, whichever is given first, and the two orders give the same line *)
Theorem line_two_points_through (x0 y0 x1 y1 m b : R) :
  @line_two_points RNum x0 y0 x1 y1 = Ok (m, b) ->
  m * x0 + b = y0 /\ m * x1 + b = y1 /\ @line_two_points RNum x1 y1 x0 y0 = Ok (m, b).
Proof.
  unfold line_two_points. cbn [nmul nsub ndiv nadd nabs nltb nlit RNum].
  destruct (Rlt_bool (Rabs (x1 - x0)) (Rlit 1 (-12))) eqn:E; [discriminate|]. rbool.
  assert (Hd : x1 - x0 <> 0).
  { intros Z. rewrite Z, Rabs_R0 in E. pose proof lit_1em12_pos. lra. }
  intros H. inversion H; subst; clear H. change (@num RNum) with R in *.
  split; [field; exact Hd|]. split; [field; exact Hd|].
  replace (x0 - x1) with (- (x1 - x0)) by ring. rewrite Rabs_Ropp.
  destruct (Rlt_bool (Rabs (x1 - x0)) (Rlit 1 (-12))) eqn:E2; [rbool; lra|].
  f_equal. apply f_equal2; field; lra.
Qed.

(* it is refused exactly when the abscissae are closer than 1e-12, in either order *)
Theorem line_two_points_refused (x0 y0 x1 y1 : R) :
  @line_two_points RNum x0 y0 x1 y1 = Err <-> Rabs (x1 - x0) < Rlit 1 (-12).
Proof.
  unfold line_two_points. cbn [nmul nsub ndiv nadd nabs nltb nlit RNum].
  destruct (Rlt_bool (Rabs (x1 - x0)) (Rlit 1 (-12))) eqn:E; rbool; split; intros H; try exact E; try reflexivity; try discriminate; lra.
Qed.
