(* C18: angle normalisation, directed angles, angular intervals -- over the reals. *)
From Coq Require Import ZArith Reals Lra Lia Bool.
From Flocq Require Import Core.Raux.
From EG Require Import Num.Num Num.RNum Num.Atan2 Model.Types Model.Angles Proofs.Fmod Proofs.Atan2R.
Local Open Scope R_scope.

Local Notation TWO_PI := (2 * PI).
Lemma two_pi_R : @two_pi RNum = 2 * PI.
Proof. reflexivity. Qed.
Lemma two_pi_pos : 0 < 2 * PI.
Proof. pose proof PI_RGT_0. lra. Qed.

(* a and b denote the same direction *)
Definition same_dir (a b : R) : Prop := exists k : Z, b = a + 2 * PI * IZR k.

Lemma same_dir_refl a : same_dir a a.
Proof. exists 0%Z. simpl. ring. Qed.
Lemma same_dir_sym a b : same_dir a b -> same_dir b a.
Proof. intros [k ->]. exists (- k)%Z. rewrite opp_IZR. ring. Qed.
Lemma same_dir_trans a b c : same_dir a b -> same_dir b c -> same_dir a c.
Proof. intros [k ->] [j ->]. exists (k + j)%Z. rewrite plus_IZR. ring. Qed.
Lemma same_dir_shift a b k : same_dir a b -> same_dir a (b + 2 * PI * IZR k).
Proof. intros [j ->]. exists (j + k)%Z. rewrite plus_IZR. ring. Qed.
Lemma same_dir_plus a b c : same_dir a b -> same_dir (a + c) (b + c).
Proof. intros [k ->]. exists k. ring. Qed.

Lemma fmod_same_dir a : same_dir a (Rfmod a (2 * PI)).
Proof. exists (- Ztrunc (a / (2 * PI)))%Z. rewrite opp_IZR. unfold Rfmod. ring. Qed.

(* ---- angle_to_2pi ---- *)
Theorem angle_to_2pi_range (a : R) : 0 <= @angle_to_2pi RNum a < 2 * PI.
Proof.
  unfold angle_to_2pi. cbn [fst snd nfmod nltb nleb neqb nadd nsub nmul ndiv nneg nabs nmin nmax npi natan2 nofZ RNum num]. rewrite two_pi_R. change (@n0 RNum) with 0.
  pose proof two_pi_pos as Hp.
  destruct (Rlt_bool (Rfmod a (2 * PI)) 0) eqn:E; rbool.
  - pose proof (Rfmod_abs_lt a _ Hp). lra.
  - pose proof (Rfmod_abs_lt a _ Hp). lra.
Qed.

Theorem angle_to_2pi_same (a : R) : same_dir a (@angle_to_2pi RNum a).
Proof.
  unfold angle_to_2pi. cbn [fst snd nfmod nltb nleb neqb nadd nsub nmul ndiv nneg nabs nmin nmax npi natan2 nofZ RNum num]. rewrite two_pi_R. change (@n0 RNum) with 0.
  destruct (Rlt_bool (Rfmod a (2 * PI)) 0).
  - replace (Rfmod a (2 * PI) + 2 * PI) with (Rfmod a (2 * PI) + 2 * PI * IZR 1) by (simpl; ring).
    apply same_dir_shift, fmod_same_dir.
  - apply fmod_same_dir.
Qed.

(* ---- angle_signed_pi ---- *)
Theorem angle_signed_pi_range (a : R) : - PI <= @angle_signed_pi RNum a <= PI.
Proof.
  unfold angle_signed_pi. cbn [fst snd nfmod nltb nleb neqb nadd nsub nmul ndiv nneg nabs nmin nmax npi natan2 nofZ RNum num]. rewrite two_pi_R.
  pose proof two_pi_pos as Hp. pose proof (Rfmod_abs_lt a _ Hp) as Hr.
  destruct (Rlt_bool PI (Rfmod a (2 * PI))) eqn:E1; rbool; [lra|].
  destruct (Rlt_bool (Rfmod a (2 * PI)) (- PI)) eqn:E2; rbool; lra.
Qed.

Theorem angle_signed_pi_same (a : R) : same_dir a (@angle_signed_pi RNum a).
Proof.
  unfold angle_signed_pi. cbn [fst snd nfmod nltb nleb neqb nadd nsub nmul ndiv nneg nabs nmin nmax npi natan2 nofZ RNum num]. rewrite two_pi_R.
  destruct (Rlt_bool PI (Rfmod a (2 * PI))).
  - replace (Rfmod a (2 * PI) - 2 * PI) with (Rfmod a (2 * PI) + 2 * PI * IZR (-1)) by (simpl; ring).
    apply same_dir_shift, fmod_same_dir.
  - destruct (Rlt_bool (Rfmod a (2 * PI)) (- PI)).
    + replace (Rfmod a (2 * PI) + 2 * PI) with (Rfmod a (2 * PI) + 2 * PI * IZR 1) by (simpl; ring).
      apply same_dir_shift, fmod_same_dir.
    + apply fmod_same_dir.
Qed.

(* ---- angle_in_direction ---- *)
Theorem angle_in_direction_range (a b : R) d : 0 <= @angle_in_direction RNum a b d <= 2 * PI.
Proof.
  unfold angle_in_direction. cbn [fst snd nfmod nltb nleb neqb nadd nsub nmul ndiv nneg nabs nmin nmax npi natan2 nofZ RNum num]. rewrite two_pi_R.
  pose proof (angle_signed_pi_range a). pose proof (angle_signed_pi_range b).
  destruct d.
  - destruct (Rlt_bool (@angle_signed_pi RNum a) (@angle_signed_pi RNum b)) eqn:E; rbool; lra.
  - destruct (Rlt_bool (@angle_signed_pi RNum b) (@angle_signed_pi RNum a)) eqn:E; rbool; lra.
Qed.

(* rotating the first angle by the result, in the stated direction, gives the second *)
Theorem angle_in_direction_rotates (a b : R) d :
  same_dir (a + @AngleDir_to_sign RNum d * @angle_in_direction RNum a b d) b.
Proof.
  pose proof (angle_signed_pi_same a) as Ha. pose proof (angle_signed_pi_same b) as Hb.
  unfold angle_in_direction. cbn [fst snd nfmod nltb nleb neqb nadd nsub nmul ndiv nneg nabs nmin nmax npi natan2 nofZ RNum num]. rewrite two_pi_R.
  set (t0 := @angle_signed_pi RNum a) in *. set (t1 := @angle_signed_pi RNum b) in *.
  destruct Ha as [ka Ea]. destruct Hb as [kb Eb].
  destruct d; cbn [AngleDir_to_sign nneg RNum]; change (@n1 RNum) with 1.
  - destruct (Rlt_bool t0 t1).
    + exists (ka - kb + 1)%Z. rewrite plus_IZR, minus_IZR. simpl IZR. lra.
    + exists (ka - kb)%Z. rewrite minus_IZR. lra.
  - destruct (Rlt_bool t1 t0).
    + exists (ka - kb - 1)%Z. rewrite minus_IZR, minus_IZR. simpl IZR. lra.
    + exists (ka - kb)%Z. rewrite minus_IZR. lra.
Qed.

Theorem cw_ccw_sum (a b : R) :
  let cw := @angle_in_direction RNum a b AngleDir_Cw in
  let ccw := @angle_in_direction RNum a b AngleDir_Ccw in
  cw + ccw = 2 * PI \/ (cw = 0 /\ ccw = 0).
Proof.
  unfold angle_in_direction. cbn [fst snd nfmod nltb nleb neqb nadd nsub nmul ndiv nneg nabs nmin nmax npi natan2 nofZ RNum num]. rewrite two_pi_R.
  set (t0 := @angle_signed_pi RNum a). set (t1 := @angle_signed_pi RNum b).
  destruct (Rlt_bool t0 t1) eqn:E1; destruct (Rlt_bool t1 t0) eqn:E2; rbool; cbv zeta.
  - exfalso; lra.
  - left; lra.
  - left; lra.
  - right; split; lra.
Qed.

Theorem signed_compliment_spec (r : R) :
  @signed_compliment_2pi RNum r = (if Rle_bool 0 r then r - 2 * PI else r + 2 * PI).
Proof.
  unfold signed_compliment_2pi. cbn [fst snd nfmod nltb nleb neqb nadd nsub nmul ndiv nneg nabs nmin nmax npi natan2 nofZ RNum num]. rewrite two_pi_R.
  change (@n0 RNum) with 0. change (@n2 RNum) with 2.
  destruct (Rle_bool 0 r); ring.
Qed.

(* ---- vector versions ---- *)
Theorem signed_angle_range (v1 v2 : R * R) : - PI < @signed_angle RNum v1 v2 <= PI.
Proof. unfold signed_angle. cbn [fst snd nfmod nltb nleb neqb nadd nsub nmul ndiv nneg nabs nmin nmax npi natan2 nofZ RNum num]. apply atan2_range. Qed.

Theorem directed_angle_range (v1 v2 : R * R) d : 0 <= @directed_angle RNum v1 v2 d <= 2 * PI.
Proof.
  unfold directed_angle. cbn [fst snd nfmod nltb nleb neqb nadd nsub nmul ndiv nneg nabs nmin nmax npi natan2 nofZ RNum num]. rewrite two_pi_R.
  change (@n0 RNum) with 0. change (@n1 RNum) with 1.
  pose proof (signed_angle_range v1 v2) as Hs. set (s := @signed_angle RNum v1 v2) in *.
  destruct d.
  - destruct (Rlt_bool (s * - (1)) 0) eqn:E; rbool; lra.
  - destruct (Rlt_bool (s * 1) 0) eqn:E; rbool; lra.
Qed.

(* rotating v1 by the signed angle gives the direction of v2 (both scaled by |v1||v2|) *)
Theorem signed_angle_rotates (v1 v2 : R * R) :
  let t := @signed_angle RNum v1 v2 in
  let n1 := sqrt (fst v1 * fst v1 + snd v1 * snd v1) in
  let n2 := sqrt (fst v2 * fst v2 + snd v2 * snd v2) in
  n2 * (fst v1 * cos t - snd v1 * sin t) = n1 * fst v2 /\
  n2 * (fst v1 * sin t + snd v1 * cos t) = n1 * snd v2.
Proof.
  destruct v1 as [a b], v2 as [c d]. cbn [fst snd]. unfold signed_angle. cbn [fst snd nfmod nltb nleb neqb nadd nsub nmul ndiv nneg nabs nmin nmax npi natan2 nofZ RNum num].
  set (cr := a * d - b * c). set (dt := a * c + b * d).
  destruct (atan2_polar cr dt) as [Hc Hs]. set (t := atan2 cr dt) in *.
  set (n1 := sqrt (a * a + b * b)). set (n2 := sqrt (c * c + d * d)).
  assert (H1 : n1 * n1 = a * a + b * b) by (apply sqrt_sqrt; nra).
  assert (H2 : n2 * n2 = c * c + d * d) by (apply sqrt_sqrt; nra).
  assert (Hn1 : 0 <= n1) by apply sqrt_pos. assert (Hn2 : 0 <= n2) by apply sqrt_pos.
  assert (Hr : sqrt (dt * dt + cr * cr) = n1 * n2).
  { apply sqrt_lem_1; [nra | nra |].
    replace (n1 * n2 * (n1 * n2)) with ((n1 * n1) * (n2 * n2)) by ring. rewrite H1, H2. unfold cr, dt. ring. }
  rewrite Hr in Hc, Hs.
  destruct (Req_dec n1 0) as [Z1|NZ1].
  { assert (a = 0) by nra. assert (b = 0) by nra. subst a b. rewrite Z1. split; ring. }
  (* n1 <> 0: a*dt - b*cr = n1^2 c,  a*cr + b*dt = n1^2 d *)
  split; apply Rmult_eq_reg_l with n1; try exact NZ1.
  - replace (n1 * (n2 * (a * cos t - b * sin t))) with (a * (n1 * n2 * cos t) - b * (n1 * n2 * sin t)) by ring.
    rewrite <- Hc, <- Hs. unfold cr, dt. replace (n1 * (n1 * c)) with ((n1 * n1) * c) by ring. rewrite H1. ring.
  - replace (n1 * (n2 * (a * sin t + b * cos t))) with (a * (n1 * n2 * sin t) + b * (n1 * n2 * cos t)) by ring.
    rewrite <- Hc, <- Hs. unfold cr, dt. replace (n1 * (n1 * d)) with ((n1 * n1) * d) by ring. rewrite H1. ring.
Qed.

(* ---- AngleInterval ---- *)
Theorem angle_interval_new_wf (s e : R) :
  let i := @AngleInterval_new RNum s e in
  0 <= AngleInterval_start i < 2 * PI /\ 0 <= AngleInterval_angle i <= 2 * PI.
Proof.
  unfold AngleInterval_new. cbn [fst snd nfmod nltb nleb neqb nadd nsub nmul ndiv nneg nabs nmin nmax npi natan2 nofZ RNum num]. rewrite two_pi_R. change (@n0 RNum) with 0.
  pose proof two_pi_pos.
  destruct (Rlt_bool e 0) eqn:E; rbool; cbn [AngleInterval_start AngleInterval_angle].
  - split; [apply angle_to_2pi_range|]. unfold Rmin. destruct (Rle_dec (Rabs e) (2 * PI)); [|lra].
    split; [apply Rabs_pos | assumption].
  - split; [apply angle_to_2pi_range|]. unfold Rmin. destruct (Rle_dec e (2 * PI)); lra.
Qed.

(* a negative extent denotes the same set swept backwards *)
Theorem angle_interval_negative_extent (s e : R) :
  e < 0 -> @AngleInterval_new RNum s e = @AngleInterval_new RNum (s + e) (- e).
Proof.
  intros He. unfold AngleInterval_new. cbn [fst snd nfmod nltb nleb neqb nadd nsub nmul ndiv nneg nabs nmin nmax npi natan2 nofZ RNum num]. change (@n0 RNum) with 0.
  assert (E1 : Rlt_bool e 0 = true) by (apply Rltb_true; lra).
  assert (E2 : Rlt_bool (- e) 0 = false) by (apply Rltb_false; lra).
  rewrite E1, E2. rewrite Rabs_left by lra. reflexivity.
Qed.

Local Notation TOL := (@c_ANGLE_TOL RNum).
Lemma angle_tol_pos : 0 < TOL.
Proof. unfold c_ANGLE_TOL. cbn. lra. Qed.

Section Contains.
  Variable i : @AngleInterval RNum.
  Let st : R := AngleInterval_start i.
  Let ext : R := AngleInterval_angle i.
  Hypothesis wf_start : 0 <= st < 2 * PI.
  Hypothesis wf_ext : 0 <= ext <= 2 * PI.

  (* soundness: an accepted angle is, up to ANGLE_TOL, swept from the start through the extent *)
  Theorem contains_sound (a : R) :
    @AngleInterval_contains RNum i a = true ->
    exists t, - TOL <= t <= ext + TOL /\ same_dir (st + t) a.
  Proof.
    unfold AngleInterval_contains. cbn [fst snd nfmod nltb nleb neqb nadd nsub nmul ndiv nneg nabs nmin nmax npi natan2 nofZ RNum num]. rewrite two_pi_R. fold st ext.
    pose proof (angle_to_2pi_range a) as Hr. pose proof (angle_to_2pi_same a) as Hs.
    set (a' := (@angle_to_2pi RNum a : R)) in *.
    pose proof angle_tol_pos as Htol.
    destruct (Rle_bool (st - TOL) a') eqn:E1; intros E2; rbool.
    - exists (a' - st). split; [lra|]. replace (st + (a' - st)) with a' by ring. apply same_dir_sym. exact Hs.
    - exists (a' + 2 * PI - st). split; [lra|]. replace (st + (a' + 2 * PI - st)) with (a' + 2 * PI * IZR 1) by (simpl; ring).
      destruct Hs as [k Ek]. exists (- k - 1)%Z. rewrite minus_IZR, opp_IZR. simpl IZR. lra.
  Qed.

  (* completeness: every angle swept from the start through the extent is accepted *)
  Theorem contains_complete (a t : R) :
    0 <= t <= ext -> same_dir (st + t) a -> @AngleInterval_contains RNum i a = true.
  Proof.
    intros Ht Hd.
    unfold AngleInterval_contains. cbn [fst snd nfmod nltb nleb neqb nadd nsub nmul ndiv nneg nabs nmin nmax npi natan2 nofZ RNum num]. rewrite two_pi_R. fold st ext.
    pose proof (angle_to_2pi_range a) as Hr. pose proof (angle_to_2pi_same a) as Hs.
    pose proof angle_tol_pos as Htol. pose proof two_pi_pos as Hp.
    set (a' := (@angle_to_2pi RNum a : R)) in *.
    assert (Hk : exists m : Z, a' = st + t + 2 * PI * IZR m).
    { destruct Hd as [k Ek]. destruct Hs as [j Ej]. exists (k + j)%Z. rewrite plus_IZR. lra. }
    destruct Hk as [m Em].
    assert (Hm : (m = 0 \/ m = -1)%Z).
    { assert (-2 < IZR m < 1).
      { split.
        - apply Rmult_lt_reg_l with (2 * PI); [lra|]. lra.
        - apply Rmult_lt_reg_l with (2 * PI); [lra|]. lra. }
      destruct H as [H1 H2]. apply lt_IZR in H1, H2. lia. }
    destruct (Rle_bool (st - TOL) a') eqn:E1; rbool.
    - apply Rleb_true. destruct Hm as [-> | ->]; simpl IZR in Em; lra.
    - apply Rleb_true. destruct Hm as [-> | ->]; simpl IZR in Em; lra.
  Qed.
End Contains.

(* intersects: when it answers true the two intervals share an angle (up to ANGLE_TOL) *)
Theorem intersects_sound (i j : @AngleInterval RNum) :
  0 <= AngleInterval_start i < 2 * PI -> 0 <= AngleInterval_angle i <= 2 * PI ->
  0 <= AngleInterval_start j < 2 * PI -> 0 <= AngleInterval_angle j <= 2 * PI ->
  @AngleInterval_intersects RNum i j = true ->
  exists a, @AngleInterval_contains RNum i a = true /\ @AngleInterval_contains RNum j a = true.
Proof.
  intros Hi1 Hi2 Hj1 Hj2. unfold AngleInterval_intersects. intros H. apply orb_true_iff in H.
  destruct H as [H | H].
  - exists (AngleInterval_start j). split; [exact H|].
    apply (contains_complete j Hj1 Hj2 _ 0); [lra|]. rewrite Rplus_0_r. apply same_dir_refl.
  - exists (AngleInterval_start i). split; [|exact H].
    apply (contains_complete i Hi1 Hi2 _ 0); [lra|]. rewrite Rplus_0_r. apply same_dir_refl.
Qed.

(* intersects, completeness: two intervals whose swept arcs share an angle exactly are reported as intersecting
   (the start of one of them then lies in the other) *)
Theorem intersects_complete (i j : @AngleInterval RNum) (t u : R) :
  0 <= AngleInterval_start i < 2 * PI -> 0 <= AngleInterval_angle i <= 2 * PI ->
  0 <= AngleInterval_start j < 2 * PI -> 0 <= AngleInterval_angle j <= 2 * PI ->
  0 <= t <= AngleInterval_angle i -> 0 <= u <= AngleInterval_angle j ->
  same_dir (AngleInterval_start i + t) (AngleInterval_start j + u) ->
  @AngleInterval_intersects RNum i j = true.
Proof.
  intros Hi1 Hi2 Hj1 Hj2 Ht Hu [k Ek]. pose proof two_pi_pos as Hp.
  set (si := AngleInterval_start i) in *. set (sj := AngleInterval_start j) in *.
  set (ei := AngleInterval_angle i) in *. set (ej := AngleInterval_angle j) in *.
  unfold AngleInterval_intersects. apply orb_true_iff.
  (* 2 pi k = (sj - si) + u - t lies strictly between -4 pi and 4 pi *)
  assert (Hk : (k = -1 \/ k = 0 \/ k = 1)%Z).
  { assert (H : -2 < IZR k < 2).
    { split; apply Rmult_lt_reg_l with (2 * PI); try lra. }
    destruct H as [H1 H2]. apply lt_IZR in H1, H2. lia. }
  set (d := sj - si).
  destruct (Rle_dec 0 d) as [Hd | Hd].
  - destruct (Rle_dec d ei) as [Hin | Hout].
    + left. apply (contains_complete i Hi1 Hi2 sj d); [fold ei; lra|]. exists 0%Z. fold si. unfold d. simpl. change (@num RNum) with R in *. lra.
    + right. apply (contains_complete j Hj1 Hj2 si (2 * PI - d)).
      * fold ej. destruct Hk as [-> | [-> | ->]]; simpl IZR in Ek; unfold d in *; lra.
      * exists (-1)%Z. fold sj. unfold d. simpl. change (@num RNum) with R in *. lra.
  - destruct (Rle_dec (d + 2 * PI) ei) as [Hin | Hout].
    + left. apply (contains_complete i Hi1 Hi2 sj (d + 2 * PI)); [fold ei; unfold d in *; lra|]. exists (-1)%Z. fold si. unfold d. simpl. change (@num RNum) with R in *. lra.
    + right. apply (contains_complete j Hj1 Hj2 si (- d)).
      * fold ej. destruct Hk as [-> | [-> | ->]]; simpl IZR in Ek; unfold d in *; lra.
      * exists 0%Z. fold sj. unfold d. simpl. change (@num RNum) with R in *. lra.
Qed.
