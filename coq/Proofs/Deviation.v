(* C16: signed deviations and directed distances, over the reals. *)
From Coq Require Import ZArith Reals Lra Lia List.
From Flocq Require Import Core.Raux.
From EG Require Import Num.Num Num.RNum Lib.Vec Model.Deviation Proofs.VecR.
Local Open Scope R_scope.

Local Notation E6 := (@eps6 RNum).
Lemma eps6_pos : 0 < E6.
Proof. unfold eps6; cbn. lra. Qed.

Section Dev2.
  Variables sp n p : @V2 RNum.
  Hypothesis n_unit : dot2 n n = 1.
  Let v := sub2 p sp.

  Lemma dev2_normal_unit : dot2 (dev2_normal sp n p) (dev2_normal sp n p) = 1.
  Proof.
    unfold dev2_normal. fold v. cbn [nltb RNum].
    destruct (Rlt_bool (norm2 v) E6) eqn:E1; [exact n_unit|]. rbool.
    pose proof eps6_pos.
    destruct (Rlt_bool (dot2 v n) (@n0 RNum)) eqn:E2.
    - apply normalize2_unit. rewrite norm2_neg. lra.
    - apply normalize2_unit. lra.
  Qed.

  (* point mode, away from the reference point: |deviation| is the full distance, its sign is
     the side of the normal, and the measured point is reconstructed exactly *)
  Lemma dev2_value_far :
    E6 <= norm2 v ->
    dev2_value sp n p = (if Rlt_bool (dot2 v n) 0 then - dist2 p sp else dist2 p sp).
  Proof.
    intros Hf. pose proof eps6_pos as He.
    unfold dev2_value, dev2_normal, dist2. fold v. cbn [nltb RNum].
    assert (E1 : Rlt_bool (norm2 v) E6 = false) by (apply Rltb_false; lra). rewrite E1.
    change (@n0 RNum) with 0.
    destruct (Rlt_bool (dot2 v n) 0) eqn:E2.
    - assert (Hn : 0 < norm2 (neg2 v)) by (rewrite norm2_neg; lra).
      pose proof (dot2_normalize (neg2 v) Hn) as D. rewrite norm2_neg in D.
      rewrite <- D. destruct v as [x y]. vec_unfold. field.
      intro Z. rewrite Z in Hn. lra.
    - apply dot2_normalize. lra.
  Qed.

  Lemma dev2_magnitude_far : E6 <= norm2 v -> Rabs (dev2_value sp n p) = dist2 p sp.
  Proof.
    intros Hf. rewrite dev2_value_far by assumption.
    pose proof (norm2_nonneg v) as Hv. fold v in Hv. unfold dist2. fold v.
    destruct (Rlt_bool (dot2 v n) 0).
    - rewrite Rabs_Ropp. apply Rabs_pos_eq. exact Hv.
    - apply Rabs_pos_eq. exact Hv.
  Qed.

  Lemma dev2_sign_far :
    E6 <= norm2 v ->
    (0 < dot2 v n -> 0 < dev2_value sp n p) /\ (dot2 v n < 0 -> dev2_value sp n p < 0).
  Proof.
    intros Hf. rewrite dev2_value_far by assumption. pose proof eps6_pos.
    unfold dist2. fold v. split; intros Hd.
    - assert (E : Rlt_bool (dot2 v n) 0 = false) by (apply Rltb_false; lra). rewrite E. lra.
    - assert (E : Rlt_bool (dot2 v n) 0 = true) by (apply Rltb_true; lra). rewrite E. lra.
  Qed.

  Lemma dev2_reconstruct_far : E6 <= norm2 v -> dev2_actual sp n p = p.
  Proof.
    intros Hf. pose proof eps6_pos as He. unfold dev2_actual.
    rewrite dev2_value_far by assumption.
    unfold dev2_normal, dist2. fold v. cbn [nltb RNum].
    assert (E1 : Rlt_bool (norm2 v) E6 = false) by (apply Rltb_false; lra). rewrite E1.
    change (@n0 RNum) with 0.
    assert (Hn : norm2 v <> 0) by lra.
    destruct (Rlt_bool (dot2 v n) 0); subst v; destruct p as [px py], sp as [sx sy];
      rewrite ?norm2_neg; vec_unfold; vec_unfold; rewrite ?Rmult_opp_opp; f_equal; field; exact Hn.
  Qed.

  (* within 1e-6 of the reference point the station normal is used: the deviation is the
     normal component, bounded by the distance, so |deviation| and distance differ by < 1e-6 *)
  Lemma dev2_value_near : norm2 v < E6 -> dev2_value sp n p = dot2 v n.
  Proof.
    intros Hf. unfold dev2_value, dev2_normal. fold v. cbn [nltb RNum].
    assert (E1 : Rlt_bool (norm2 v) E6 = true) by (apply Rltb_true; lra). now rewrite E1.
  Qed.
  Lemma dev2_magnitude_near :
    norm2 v < E6 -> Rabs (dev2_value sp n p) <= dist2 p sp /\ dist2 p sp - Rabs (dev2_value sp n p) < E6.
  Proof.
    intros Hf. rewrite dev2_value_near by assumption.
    pose proof (cs2_unit v n n_unit). pose proof (Rabs_pos (dot2 v n)).
    unfold dist2. fold v. split; lra.
  Qed.

  (* the property clause, both regimes: magnitude equals the distance up to the 1e-6 switch *)
  Theorem dev2_magnitude : Rabs (Rabs (dev2_value sp n p) - dist2 p sp) < E6.
  Proof.
    pose proof eps6_pos.
    destruct (Rlt_dec (norm2 v) E6) as [Hn | Hn].
    - destruct (dev2_magnitude_near Hn). apply Rabs_def1; lra.
    - rewrite dev2_magnitude_far by lra. rewrite Rminus_diag_eq by reflexivity. rewrite Rabs_R0. lra.
  Qed.
End Dev2.

Section Dev3.
  Variables cp n p : @V3 RNum.
  Hypothesis n_unit : dot3 n n = 1.
  Let v := sub3 p cp.

  (* plane mode: the value is the normal component of the offset *)
  Lemma dev3_plane_value : dev3_value true cp n p = dot3 n v.
  Proof. reflexivity. Qed.

  Lemma dev3_point_value_far :
    E6 <= norm3 v ->
    dev3_value false cp n p = (if Rlt_bool 0 (dot3 n v) then dist3 p cp else - dist3 p cp).
  Proof.
    intros Hf. pose proof eps6_pos as He.
    unfold dev3_value, dev3_dir, dist3_value, dist3. fold v. cbn [nltb RNum ngtb]. unfold ngtb. cbn [nltb RNum].
    assert (E1 : Rlt_bool (norm3 v) E6 = false) by (apply Rltb_false; lra). rewrite E1.
    change (@n0 RNum) with 0.
    assert (Hn : 0 < norm3 v) by lra.
    pose proof (dot3_normalize v Hn) as D.
    destruct (Rlt_bool 0 (dot3 n v)) eqn:E2.
    - rewrite <- D. destruct v as [[x y] z]. vec_unfold. ring.
    - rewrite <- D. destruct v as [[x y] z]. vec_unfold. ring.
  Qed.

  Lemma dev3_point_magnitude_far : E6 <= norm3 v -> Rabs (dev3_value false cp n p) = dist3 p cp.
  Proof.
    intros Hf. rewrite dev3_point_value_far by assumption.
    pose proof (norm3_nonneg v) as Hv. unfold dist3. fold v.
    destruct (Rlt_bool 0 (dot3 n v)).
    - apply Rabs_pos_eq. exact Hv.
    - rewrite Rabs_Ropp. apply Rabs_pos_eq. exact Hv.
  Qed.

  Lemma dev3_point_sign_far :
    E6 <= norm3 v ->
    (0 < dot3 n v -> 0 < dev3_value false cp n p) /\ (dot3 n v < 0 -> dev3_value false cp n p < 0).
  Proof.
    intros Hf. rewrite dev3_point_value_far by assumption. pose proof eps6_pos.
    unfold dist3. fold v. split; intros Hd.
    - assert (E : Rlt_bool 0 (dot3 n v) = true) by (apply Rltb_true; lra). rewrite E. lra.
    - assert (E : Rlt_bool 0 (dot3 n v) = false) by (apply Rltb_false; lra). rewrite E. lra.
  Qed.

  Lemma dev3_point_value_near : norm3 v < E6 -> dev3_value false cp n p = dot3 n v.
  Proof.
    intros Hf. unfold dev3_value, dev3_dir, dist3_value. fold v. cbn [nltb RNum].
    assert (E1 : Rlt_bool (norm3 v) E6 = true) by (apply Rltb_true; lra). now rewrite E1.
  Qed.

  Theorem dev3_point_magnitude : Rabs (Rabs (dev3_value false cp n p) - dist3 p cp) < E6.
  Proof.
    pose proof eps6_pos.
    destruct (Rlt_dec (norm3 v) E6) as [Hn | Hn].
    - rewrite dev3_point_value_near by assumption.
      assert (C : Rabs (dot3 n v) <= norm3 v).
      { replace (dot3 n v) with (dot3 v n) by (destruct n as [[? ?] ?], v as [[? ?] ?]; vec_unfold; ring).
        apply cs3_unit; assumption. }
      pose proof (Rabs_pos (dot3 n v)). unfold dist3. fold v. apply Rabs_def1; lra.
    - rewrite dev3_point_magnitude_far by lra. rewrite Rminus_diag_eq by reflexivity. rewrite Rabs_R0. lra.
  Qed.

  (* reconstruction: reference point + direction * value is the measured point (point mode, far) *)
  Lemma dev3_point_reconstruct_far :
    E6 <= norm3 v ->
    add3 cp (scale3 (dev3_dir false cp n p) (dev3_value false cp n p)) = p.
  Proof.
    intros Hf. pose proof eps6_pos as He.
    rewrite dev3_point_value_far by assumption.
    unfold dev3_dir, dist3. fold v. cbn [nltb RNum ngtb]. unfold ngtb. cbn [nltb RNum].
    assert (E1 : Rlt_bool (norm3 v) E6 = false) by (apply Rltb_false; lra). rewrite E1.
    change (@n0 RNum) with 0.
    assert (Hn : norm3 v <> 0) by lra.
    destruct (Rlt_bool 0 (dot3 n v)); subst v; destruct p as [[px py] pz], cp as [[sx sy] sz];
      vec_unfold; vec_unfold; repeat f_equal; field; exact Hn.
  Qed.
End Dev3.

(* directed distances (metrology/dimension.rs) *)
Lemma dist2_value_is_projection (a b d : @V2 RNum) : dist2_value a b d = dot2 (sub2 b a) d.
Proof. destruct a, b, d. vec_unfold. unfold dist2_value. vec_unfold. ring. Qed.
Lemma dist2_reversed_same (a b d : @V2 RNum) : dist2_reversed_value a b d = dist2_value a b d.
Proof. destruct a, b, d. unfold dist2_reversed_value, dist2_value. vec_unfold. ring. Qed.
Lemma dist3_reversed_same (a b d : @V3 RNum) : dist3_reversed_value a b d = dist3_value a b d.
Proof. destruct a as [[? ?] ?], b as [[? ?] ?], d as [[? ?] ?]. unfold dist3_reversed_value, dist3_value. vec_unfold. ring. Qed.
Lemma dist2_default_value (a b : @V2 RNum) :
  a <> b -> 0 < norm2 (sub2 b a) -> dist2_value a b (dist2_default_dir a b) = dist2 b a.
Proof.
  intros _ H. unfold dist2_value, dist2_default_dir, dist2.
  rewrite <- (dot2_normalize _ H). destruct a, b. vec_unfold. ring.
Qed.
Lemma dist3_default_value (a b : @V3 RNum) :
  0 < norm3 (sub3 b a) -> dist3_value a b (dist3_default_dir a b) = dist3 b a.
Proof.
  intros H. unfold dist3_value, dist3_default_dir, dist3.
  rewrite <- (dot3_normalize _ H). destruct a as [[? ?] ?], b as [[? ?] ?]. vec_unfold. ring.
Qed.
