(* C10: container logic.  Reversing twice is the identity; the working end of OrientedCircles is the first element iff
   `reversed`; push keeps the existing stations in order, adds exactly one at the working end, oriented like the
   previous working end; find_tmax_circle returns a station of maximal radius. *)
From Coq Require Import ZArith Reals Lra Lia List Bool Arith.
From Flocq Require Import Core.Raux.
From EG Require Import Num.Num Num.RNum Lib.Vec Model.Types Model.Airfoil Proofs.VecR.
Import ListNotations.
Local Open Scope R_scope.

Ltac rn := cbn [nltb nleb neqb nadd nsub nmul ndiv nneg nabs nsqrt nmin nmax nofZ nlit RNum num] in *;
           change (@num RNum) with R in *; change (@n0 RNum) with 0 in *; change (@n1 RNum) with 1 in *; change (@n2 RNum) with 2 in *.
Notation St := (@station RNum).

Theorem st_reversed_involutive (s : St) : st_reversed (st_reversed s) = s.
Proof.
  destruct s as [c r p n [ox oy] [dx dy]]. unfold st_reversed. cbn [s_c s_r s_pos s_neg s_ro s_rd]. vec_unfold. rn.
  f_equal; f_equal; ring.
Qed.

Theorem st_reversed_flips (s : St) : s_rd (st_reversed s) = neg2 (s_rd s) /\ s_pos (st_reversed s) = s_neg s /\ s_neg (st_reversed s) = s_pos s /\
  s_c (st_reversed s) = s_c s /\ s_r (st_reversed s) = s_r s.
Proof.
  destruct s as [c r p n [ox oy] [dx dy]]. unfold st_reversed. cbn [s_c s_r s_pos s_neg s_ro s_rd]. vec_unfold. rn.
  repeat split. f_equal; ring.
Qed.

Theorem reverse_involutive (l : list St) : reverse_inscribed_circles (reverse_inscribed_circles l) = l.
Proof.
  unfold reverse_inscribed_circles. rewrite <- map_rev, rev_involutive, map_map.
  rewrite <- (map_id l) at 2. apply map_ext. apply st_reversed_involutive.
Qed.

(* ---- OrientedCircles ---- *)
Lemma hd_error_rev_snoc {A} (l : list A) (x : A) : hd_error (rev (l ++ [x])) = Some x.
Proof. rewrite rev_app_distr. reflexivity. Qed.

(* after a push the working end holds the pushed station (possibly reversed), the rest is untouched and in order *)
Theorem push_spec (o : @oriented RNum) (c : St) :
  let o' := o_push o c in
  o_reversed o' = o_reversed o /\
  exists c', (c' = c \/ c' = st_reversed c) /\ o_last o' = Some c' /\
             o_circles o' = (if o_reversed o then c' :: o_circles o else o_circles o ++ [c']) /\
             (forall l, o_last o = Some l -> 0 <= dot2 (s_rd l) (s_rd c')).
Proof.
  intros o'. unfold o', o_push. split; [reflexivity|].
  set (c' := match o_last o with Some l => if (dot2 (s_rd l) (s_rd c) <? n0)%num then st_reversed c else c | None => c end).
  exists c'. split; [|split; [|split]].
  - unfold c'. destruct (o_last o) as [l|]; [destruct (dot2 (s_rd l) (s_rd c) <? n0)%num|]; auto.
  - unfold o_last. cbn [o_reversed o_circles]. destruct (o_reversed o); [reflexivity | apply hd_error_rev_snoc].
  - reflexivity.
  - intros l Hl. unfold c'. rewrite Hl. rn. destruct (Rlt_bool (dot2 (s_rd l) (s_rd c)) 0) eqn:E; rbool; [|exact E].
    destruct (st_reversed_flips c) as (Hd & _). rewrite Hd.
    destruct (s_rd l) as [lx ly], (s_rd c) as [cx cy]. vec_unfold. rn. lra.
Qed.

(* the working end is the first element iff the container is reversed *)
Theorem last_is_working_end (o : @oriented RNum) :
  o_last o = if o_reversed o then hd_error (o_circles o) else hd_error (rev (o_circles o)).
Proof. reflexivity. Qed.

(* ---- find_tmax_circle ---- *)
Lemma tmax_fold : forall (l : list St) (bd : R) (bs : option St),
  (forall s, bs = Some s -> bd = s_r s * 2) -> (bs = None -> bd = 0) ->
  let r := fold_left (fun acc s => let d := s_r s * 2 in if Rlt_bool (fst acc) d then (d, Some s) else acc) l (bd, bs) in
  bd <= fst r /\ (forall s, In s l -> s_r s * 2 <= fst r) /\
  (forall s, snd r = Some s -> fst r = s_r s * 2 /\ (bs = Some s \/ In s l)) /\ (snd r = None -> fst r = 0).
Proof.
  induction l as [|a l IH]; intros bd bs Hb Hn; cbn [fold_left].
  - cbn [fst snd]. split; [lra|]. split; [intros s []|]. split; [intros s Hs; split; [apply Hb; exact Hs | left; exact Hs] | exact Hn].
  - cbn [fst]. destruct (Rlt_bool bd (s_r a * 2)) eqn:E; rbool.
    + destruct (IH (s_r a * 2) (Some a)) as (H1 & H2 & H3 & H4); [intros s Hs; inversion Hs; reflexivity | discriminate|].
      split; [lra|]. split; [intros s [<- | Hs]; [exact H1 | apply H2; exact Hs]|]. split; [|exact H4].
      intros s Hs. destruct (H3 s Hs) as [Hv [Hw | Hw]]; (split; [exact Hv|]); [inversion Hw; right; left; reflexivity | right; right; exact Hw].
    + destruct (IH bd bs Hb Hn) as (H1 & H2 & H3 & H4).
      split; [exact H1|]. split; [intros s [<- | Hs]; [lra | apply H2; exact Hs]|]. split; [|exact H4].
      intros s Hs. destruct (H3 s Hs) as [Hv [Hw | Hw]]; (split; [exact Hv|]); [left; exact Hw | right; right; exact Hw].
Qed.

(* the station returned has the largest radius of all; nothing is returned only when no radius is positive *)
Theorem find_tmax_spec (l : list St) :
  match find_tmax l with
  | Some m => In m l /\ forall s, In s l -> s_r s <= s_r m
  | None => forall s, In s l -> s_r s <= 0
  end.
Proof.
  unfold find_tmax. rn.
  pose proof (tmax_fold l 0 None (fun s H => ltac:(discriminate)) (fun _ => eq_refl)) as H. cbv zeta in H.
  destruct (fold_left _ l (0, None)) as [d [m|]]; cbn [fst snd] in *; destruct H as (H1 & H2 & H3 & H4).
  - destruct (H3 m eq_refl) as [Hv [Hw | Hw]]; [discriminate|]. split; [exact Hw|]. intros s Hs. specialize (H2 s Hs). lra.
  - intros s Hs. specialize (H2 s Hs). rewrite (H4 eq_refl) in H2. lra.
Qed.

(* ---- orientation of the station list (airfoil/orientation.rs) ---- *)
Lemma hd_rev_last {A} (l : list A) (d : A) : hd d (rev l) = last l d.
Proof.
  induction l as [|a l IH]; [reflexivity|]. cbn [rev]. destruct l as [|b l]; [reflexivity|].
  change (last (a :: b :: l) d) with (last (b :: l) d). rewrite <- IH. cbn [rev]. destruct (rev l ++ [b]) eqn:E; [destruct (rev l); discriminate | reflexivity].
Qed.
Lemma last_rev_hd {A} (l : list A) (d : A) : last (rev l) d = hd d l.
Proof. rewrite <- (rev_involutive l) at 2. rewrite hd_rev_last. reflexivity. Qed.

Lemma last_indep {A} (l : list A) (a b : A) : l <> [] -> last l a = last l b.
Proof. induction l as [|x [|y l] IH]; intros H; [congruence | reflexivity|]. cbn [last]. apply IH. discriminate. Qed.

Lemma hd_map {A B} (f : A -> B) (l : list A) d : hd (f d) (map f l) = f (hd d l).
Proof. destruct l; reflexivity. Qed.

Lemma half_lit : @nlit RNum 5 (-1) = 1 / 2.
Proof. cbn. unfold Rlit. cbn. lra. Qed.

(* DirectionFwd: the station list comes back as it was or reversed, and then its first centre is at least as far
   along the direction as its last *)
Theorem direction_fwd_spec (dir : @V2 RNum) (l l' : list St) : direction_fwd dir l = Ok l' ->
  l <> [] /\ (l' = l \/ l' = reverse_inscribed_circles l) /\
  forall d, dot2 dir (s_c (last l' d)) <= dot2 dir (s_c (hd d l')).
Proof.
  unfold direction_fwd. destruct l as [|s0 rest] eqn:El; [discriminate|]. rewrite <- El. rn.
  assert (Hne : l <> []) by (rewrite El; discriminate).
  assert (Hhd : forall d, hd d l = s0) by (intros d; rewrite El; reflexivity).
  assert (Hlast : forall d, last l d = last l s0).
  { intros d. apply last_indep. exact Hne. }
  destruct (Rlt_bool (dot2 dir (s_c s0)) (dot2 dir (s_c (last l s0)))) eqn:E; rbool; intros H; inversion H; subst l'.
  - split; [exact Hne|]. split; [right; reflexivity|]. intros d. unfold reverse_inscribed_circles.
    assert (E2 : last (map st_reversed (rev l)) d = st_reversed s0).
    { rewrite map_rev, last_rev_hd. destruct l as [|a l0]; [congruence|]. cbn [map hd]. f_equal. inversion El. reflexivity. }
    rewrite E2.
    assert (E3 : hd d (map st_reversed (rev l)) = st_reversed (last l s0)).
    { destruct (rev l) eqn:Er; [apply (f_equal (@length _)) in Er; rewrite rev_length, El in Er; cbn in Er; lia|].
      cbn [map hd]. f_equal. pose proof (hd_rev_last l s0) as Hh. rewrite Er in Hh. cbn [hd] in Hh. exact Hh. }
    rewrite E3. destruct (st_reversed_flips s0) as (_ & _ & _ & -> & _). destruct (st_reversed_flips (last l s0)) as (_ & _ & _ & -> & _). lra.
  - split; [exact Hne|]. split; [left; reflexivity|]. intros d. rewrite Hhd, Hlast. lra.
Qed.

(* TMaxFwd: the list comes back as it was when the largest circle sits in the first half of the camber length, and
   reversed when it sits in the second half *)
Theorem tmax_fwd_spec (l l' : list St) : tmax_fwd l = Ok l' ->
  exists f, tmax_fraction l = Ok f /\ ((f <= 1 / 2 /\ l' = l) \/ (1 / 2 < f /\ l' = reverse_inscribed_circles l)).
Proof.
  unfold tmax_fwd. destruct (tmax_fraction l) as [f| |]; try discriminate. rewrite half_lit. rn.
  destruct (Rlt_bool (1 / 2) f) eqn:E; rbool; intros H; inversion H; subst l'; exists f; (split; [reflexivity|]).
  - right. split; [exact E | reflexivity].
  - left. split; [exact E | reflexivity].
Qed.

(* either way no station is lost, duplicated or altered beyond its own reversal *)
Theorem orientation_keeps (l : list St) : reverse_inscribed_circles (reverse_inscribed_circles l) = l /\
  length (reverse_inscribed_circles l) = length l.
Proof. split; [apply reverse_involutive|]. unfold reverse_inscribed_circles. rewrite map_length, rev_length. reflexivity. Qed.
