(* C12: voxel clustering puts every voxel in exactly one cluster and always terminates,
   for every hash-iteration order. *)
From Coq Require Import ZArith List Bool Arith Lia Permutation.
From EG Require Import Model.MeshTopo Proofs.MeshLoops.
Import ListNotations.

Lemma voxel_eqb_eq a b : voxel_eqb a b = true <-> a = b.
Proof.
  destruct a as [[ax ay] az], b as [[bx by_] bz]. unfold voxel_eqb.
  rewrite !andb_true_iff, !Z.eqb_eq. split; [intros [[-> ->] ->]; reflexivity | intros H; inversion H; auto].
Qed.
Lemma vmem_in v s : vmem v s = true <-> In v s.
Proof.
  unfold vmem. rewrite existsb_exists. split.
  - intros (x & Hx & E). apply voxel_eqb_eq in E. subst. exact Hx.
  - intros H. exists v. split; [exact H | apply voxel_eqb_eq; reflexivity].
Qed.
Lemma vremove_in v s w : In w (vremove v s) <-> In w s /\ w <> v.
Proof.
  unfold vremove. rewrite filter_In, negb_true_iff. split.
  - intros [H E]. split; [exact H|]. intros ->. rewrite (proj2 (voxel_eqb_eq v v) eq_refl) in E. discriminate.
  - intros [H N]. split; [exact H|]. destruct (voxel_eqb w v) eqn:E; [apply voxel_eqb_eq in E; contradiction | reflexivity].
Qed.
Lemma vremove_nodup v s : NoDup s -> NoDup (vremove v s).
Proof. apply NoDup_filter. Qed.
Lemma vremove_perm v s : NoDup s -> In v s -> Permutation s (v :: vremove v s).
Proof.
  intros Hn Hi. apply NoDup_Permutation; [exact Hn | |].
  - constructor; [|apply vremove_nodup; exact Hn]. intros Hc. apply vremove_in in Hc. tauto.
  - intros w. cbn. rewrite vremove_in.
    destruct (voxel_eqb w v) eqn:E.
    + apply voxel_eqb_eq in E. subst. tauto.
    + assert (w <> v) by (intros ->; rewrite (proj2 (voxel_eqb_eq v v) eq_refl) in E; discriminate).
      split; [tauto | intros [<- | ?]; [contradiction | tauto]].
Qed.

(* moving the present neighbours from the set to the stack conserves the combined contents *)
Lemma visit_neighbours_spec current : forall offs ind tv,
  NoDup ind ->
  let r := fold_left (fun '(ind, tv) off =>
                        let n := vadd current off in
                        if vmem n ind then (vremove n ind, n :: tv) else (ind, tv)) offs (ind, tv) in
  NoDup (fst r) /\ Permutation (fst r ++ snd r) (ind ++ tv) /\ incl (fst r) ind.
Proof.
  induction offs as [|o offs IH]; intros ind tv Hn; cbn [fold_left].
  - cbn. split; [exact Hn|]. split; [reflexivity | apply incl_refl].
  - destruct (vmem (vadd current o) ind) eqn:E.
    + apply vmem_in in E.
      destruct (IH (vremove (vadd current o) ind) (vadd current o :: tv) (vremove_nodup _ _ Hn)) as (H1 & H2 & H3).
      split; [exact H1|]. split.
      * rewrite H2. rewrite (vremove_perm _ _ Hn E) at 2. cbn. symmetry. apply Permutation_middle.
      * intros x Hx. apply H3 in Hx. apply vremove_in in Hx. tauto.
    + apply IH. exact Hn.
Qed.

Section WithOracle.
  Variable vpick : list voxel -> option voxel.
  Hypothesis vpick_in : forall l x, vpick l = Some x -> In x l.
  Hypothesis vpick_some : forall l, l <> [] -> vpick l <> None.

  Lemma cluster_fill_spec : forall fuel ind tv working,
    NoDup ind -> length tv + length ind < fuel ->
    exists ind' working', cluster_fill fuel ind tv working = Some (ind', working') /\
      NoDup ind' /\ incl ind' ind /\ Permutation (ind' ++ working') (ind ++ tv ++ working).
  Proof.
    induction fuel as [|fuel IH]; intros ind tv working Hn Hf; [lia|].
    cbn [cluster_fill]. destruct tv as [|current rest].
    - exists ind, working. repeat split; auto. apply incl_refl.
    - unfold visit_neighbours.
      destruct (visit_neighbours_spec current offsets26 ind rest Hn) as (H1 & H2 & H3).
      destruct (fold_left _ offsets26 (ind, rest)) as [ind1 tv1] eqn:Ev. cbn [fst snd] in *.
      assert (Hl : length ind1 + length tv1 = length ind + length rest).
      { apply Permutation_length in H2. rewrite !app_length in H2. exact H2. }
      destruct (IH ind1 tv1 (working ++ [current]) H1) as (ind' & w' & E & N & I & P); [cbn in Hf; lia|].
      exists ind', w'. split; [exact E|]. split; [exact N|]. split; [intros x Hx; apply H3; apply I; exact Hx|].
      rewrite P. rewrite app_assoc, H2, <- app_assoc. apply Permutation_app_head.
      rewrite app_assoc. rewrite (Permutation_app_comm (rest ++ working) [current]). cbn.
      reflexivity.
  Qed.

  Lemma clusters_loop_spec : forall fuel ind acc,
    NoDup ind -> length ind < fuel ->
    exists result, clusters_loop vpick fuel ind acc = Some result /\
                   Permutation (concat result) (concat acc ++ ind) /\
                   (forall c, In c result -> In c acc \/ c <> []).
  Proof.
    induction fuel as [|fuel IH]; intros ind acc Hn Hf; [lia|].
    cbn [clusters_loop]. destruct ind as [|i0 ind0] eqn:Ei.
    - exists acc. rewrite app_nil_r. split; [reflexivity|]. split; [reflexivity | auto].
    - rewrite <- Ei in *. destruct (vpick ind) as [v|] eqn:Ep.
      2:{ exfalso. apply (vpick_some ind); [rewrite Ei; discriminate | exact Ep]. }
      apply vpick_in in Ep.
      pose proof (vremove_perm v ind Hn Ep) as Pv.
      assert (Lv : length ind = S (length (vremove v ind))) by (rewrite (Permutation_length Pv); reflexivity).
      destruct (cluster_fill_spec (S (length ind)) (vremove v ind) [v] [] (vremove_nodup _ _ Hn)) as (ind' & w & E & N & I & P).
      { cbn. lia. }
      rewrite E.
      assert (L2 : length ind' <= length (vremove v ind)) by (apply NoDup_incl_length; assumption).
      destruct (IH ind' (acc ++ [w]) N) as (result & Er & Pr & Hne); [lia|].
      exists result. split; [exact Er|]. split.
      + rewrite Pr, concat_app. cbn [concat]. rewrite app_nil_r, <- app_assoc. apply Permutation_app_head.
        rewrite Permutation_app_comm, P. cbn [app]. rewrite ?app_nil_r.
        eapply Permutation_trans; [|apply Permutation_sym; exact Pv].
        apply Permutation_sym, Permutation_cons_append.
      + intros c Hc. apply Hne in Hc. destruct Hc as [Hc | Hc]; [|auto].
        apply in_app_or in Hc. destruct Hc as [Hc | [<- | []]]; [auto|]. right.
        intros ->. apply Permutation_length in P. rewrite !app_length in P. cbn in P. lia.
  Qed.

  Theorem clusters_partition (voxels : list voxel) :
    NoDup voxels ->
    exists clusters, clusters_from_sparse vpick voxels = Some clusters /\
                     Permutation (concat clusters) voxels /\ (forall c, In c clusters -> c <> []).
  Proof.
    intros Hn. unfold clusters_from_sparse.
    destruct (clusters_loop_spec (S (length voxels)) voxels [] Hn ltac:(lia)) as (r & E & P & Hne).
    exists r. split; [exact E|]. split; [exact P|]. intros c Hc. apply Hne in Hc. destruct Hc as [[] | Hc]; exact Hc.
  Qed.
End WithOracle.
