(* C05: resampling positions span the curve with the requested count/spacing, every resampled point lies on
   the curve, Ramer-Douglas-Peucker keeps the ends and leaves every dropped vertex within the tolerance of
   the segment that replaces it, gap filling keeps the originals and leaves no gap above the maximum. *)
From Coq Require Import ZArith Reals Lra Lia List Bool Arith Sorted.
From Flocq Require Import Core.Raux.
From EG Require Import Num.Num Num.RNum Lib.Vec Model.TolMap Model.Curve Model.Resample Proofs.TolMap Proofs.VecR Proofs.Curve.
Import ListNotations.
Local Open Scope R_scope.

Ltac rn := cbn [nltb nleb neqb nadd nsub nmul ndiv nneg nabs nsqrt nmin nmax nofZ nlit RNum num] in *;
           change (@num RNum) with R in *; change (@n0 RNum) with 0 in *; change (@n1 RNum) with 1 in *; change (@n2 RNum) with 2 in *.

Lemma nofnat_INR n : @nofnat RNum n = INR n.
Proof. unfold nofnat. cbn [nofZ RNum]. symmetry. apply INR_IZR_INZ. Qed.

(* ---------------------------------------------------------------- positions *)
Lemma nth_map_seq {A} (f : nat -> A) n i d : (i < n)%nat -> nth i (map f (seq 0 n)) d = f i.
Proof.
  intros H. rewrite nth_indep with (d' := f 0%nat) by (rewrite map_length, seq_length; exact H).
  rewrite map_nth. rewrite seq_nth by exact H. reflexivity.
Qed.

Lemma pos_count_nth L n i : (i < n)%nat -> nth i (@positions_by_count RNum L n) 0 = INR i / INR (n - 1) * L.
Proof. intros H. unfold positions_by_count. rewrite nth_map_seq by exact H. rn. rewrite !nofnat_INR. reflexivity. Qed.

Theorem positions_by_count_spec (L : R) (n : nat) : (2 <= n)%nat -> 0 <= L ->
  let ps := @positions_by_count RNum L n in
  length ps = n /\ nth 0 ps 0 = 0 /\ nth (n - 1) ps 0 = L /\
  (forall i, (i < n)%nat -> 0 <= nth i ps 0 <= L) /\
  (forall i, (S i < n)%nat -> nth (S i) ps 0 - nth i ps 0 = L / INR (n - 1)).
Proof.
  intros Hn HL ps. unfold ps.
  assert (Hpos : 0 < INR (n - 1)) by (apply lt_0_INR; lia).
  split; [unfold positions_by_count; rewrite map_length, seq_length; reflexivity|].
  split; [rewrite pos_count_nth by lia; cbn [INR]; rn; unfold Rdiv; ring|].
  split; [rewrite pos_count_nth by lia; rn; field; lra|].
  split.
  - intros i Hi. rewrite pos_count_nth by exact Hi.
    assert (H0 : 0 <= INR i) by apply pos_INR.
    assert (H1 : INR i <= INR (n - 1)) by (apply le_INR; lia).
    assert (Hf : 0 <= INR i / INR (n - 1) <= 1).
    { split; [apply Rmult_le_pos; [exact H0 | left; apply Rinv_0_lt_compat; exact Hpos]|].
      apply Rmult_le_reg_r with (INR (n - 1)); [exact Hpos|]. unfold Rdiv. rewrite Rmult_assoc, Rinv_l by lra. lra. }
    split; [apply Rmult_le_pos; lra|]. replace L with (1 * L) at 2 by ring. apply Rmult_le_compat_r; lra.
  - intros i Hi. rewrite !pos_count_nth by lia. rewrite S_INR. field. lra.
Qed.

(* ByMaxSpacing: n = ceil(L / s) intervals, n + 1 points *)
Definition max_spacing_count (L s : R) : nat := (Z.to_nat (Zceil (L / s)) + 1)%nat.

Theorem max_spacing_count_spec (L s : R) : 0 < s -> 0 < L ->
  let n := max_spacing_count L s in (2 <= n)%nat /\ L / INR (n - 1) <= s.
Proof.
  intros Hs HL n. unfold n, max_spacing_count.
  assert (Hq : 0 < L / s) by (apply Rdiv_lt_0_compat; assumption).
  pose proof (Zceil_ub (L / s)) as Hub.
  assert (Hc : (1 <= Zceil (L / s))%Z).
  { destruct (Z_lt_le_dec (Zceil (L / s)) 1) as [H|H]; [|exact H]. exfalso.
    assert (IZR (Zceil (L / s)) <= 0) by (apply IZR_le; lia). lra. }
  split; [lia|].
  replace (Z.to_nat (Zceil (L / s)) + 1 - 1)%nat with (Z.to_nat (Zceil (L / s))) by lia.
  rewrite INR_IZR_INZ, Z2Nat.id by lia.
  assert (Hp : 0 < IZR (Zceil (L / s))) by (apply IZR_lt; lia).
  apply Rmult_le_reg_r with (IZR (Zceil (L / s))); [exact Hp|].
  unfold Rdiv at 1. rewrite Rmult_assoc, Rinv_l by lra.
  apply Rmult_le_reg_r with (/ s); [apply Rinv_0_lt_compat; exact Hs|].
  replace (s * IZR (Zceil (L / s)) * / s) with (IZR (Zceil (L / s))) by (field; lra).
  unfold Rdiv in Hub. lra.
Qed.

(* BySpacing *)
Lemma spacing_loop_spec (L s : R) : forall fuel len ps,
  @spacing_loop RNum fuel L s len = Some ps ->
  (forall i, (i < length ps)%nat -> nth i ps 0 = len + INR i * s /\ nth i ps 0 < L) /\
  L <= len + INR (length ps) * s.
Proof.
  induction fuel as [|fuel IH]; intros len ps H; [discriminate|].
  cbn [spacing_loop] in H. rn. destruct (Rlt_bool len L) eqn:E; rbool.
  - destruct (@spacing_loop RNum fuel L s (Rplus len s)) as [ps'|] eqn:E'; [|discriminate]. cbn in H. inversion H; subst ps; clear H.
    destruct (IH _ _ E') as [H1 H2]. split.
    + intros [|i] Hi; cbn [nth INR length] in *.
      * split; [ring | exact E].
      * destruct (H1 i ltac:(lia)) as [Ha Hb]. split; [|exact Hb]. rewrite Ha.
        replace (match i with O => 1 | S _ => INR i + 1 end) with (INR (S i)) by reflexivity. rewrite S_INR. ring.
    + cbn [length]. rewrite S_INR. lra.
  - inversion H; subst ps. cbn [length INR]. split; [intros i Hi; cbn in Hi; lia | lra].
Qed.

Lemma spacing_loop_S fuel (L s len : R) :
  @spacing_loop RNum (S fuel) L s len =
  if Rlt_bool len L then option_map (cons len) (@spacing_loop RNum fuel L s (Rplus len s)) else Some [].
Proof. reflexivity. Qed.

Lemma spacing_loop_terminates (L s : R) : 0 < s -> forall k len, L <= len + INR k * s ->
  @spacing_loop RNum (S k) L s len <> None.
Proof.
  intros Hs. induction k as [|k IH]; intros len H; rewrite spacing_loop_S.
  - cbn [INR] in H. assert (E : Rlt_bool len L = false) by (apply Rltb_false; lra). rewrite E. congruence.
  - destruct (Rlt_bool len L) eqn:E; [|congruence].
    specialize (IH (Rplus len s)). rewrite S_INR in H.
    destruct (@spacing_loop RNum (S k) L s (Rplus len s)) eqn:E'; [cbn [option_map]; congruence|]. exfalso. apply IH; [lra | reflexivity].
Qed.

Lemma last_nth_R (l : list R) : l <> [] -> last l 0 = nth (length l - 1) l 0.
Proof.
  induction l as [|a [|b l] IH]; intros Hne; [congruence | reflexivity|].
  cbn [length last]. replace (S (S (length l)) - 1)%nat with (S (length (b :: l) - 1)) by (cbn; lia). cbn [nth]. apply IH. discriminate.
Qed.

Lemma positions_by_spacing_unfold fuel (L s : R) :
  match @spacing_loop RNum fuel L s 0 with
  | None | Some [] => @positions_by_spacing RNum fuel L s = Panic
  | Some qs => @positions_by_spacing RNum fuel L s = Ok (map (fun p => p + (L - last qs 0) / 2) qs)
  end.
Proof. unfold positions_by_spacing. rn. destruct (@spacing_loop RNum fuel L s 0) as [[|q qs]|]; reflexivity. Qed.

(* the fixed-spacing positions are centred: equal margins, positive and at most half a spacing, consecutive
   positions exactly one spacing apart, all inside [0, L] *)
Theorem positions_by_spacing_spec (fuel : nat) (L s : R) ps : 0 < s -> 0 < L ->
  @positions_by_spacing RNum fuel L s = Ok ps ->
  let m := length ps in
  (1 <= m)%nat /\ 0 < nth 0 ps 0 <= s / 2 /\ L - nth (m - 1) ps 0 = nth 0 ps 0 /\
  (forall i, (S i < m)%nat -> nth (S i) ps 0 - nth i ps 0 = s) /\
  (forall i, (i < m)%nat -> 0 <= nth i ps 0 <= L) /\
  L <= INR m * s /\ INR (m - 1) * s < L.
Proof.
  intros Hs HL H. pose proof (positions_by_spacing_unfold fuel L s) as U.
  destruct (@spacing_loop RNum fuel L s 0) as [qs|] eqn:E; [|congruence].
  destruct (spacing_loop_spec L s fuel 0 qs E) as [Hq HqL].
  assert (Hne : qs <> []) by (intros ->; congruence).
  assert (U' : Ok (map (fun p => p + (L - last qs 0) / 2) qs) = Ok ps) by (destruct qs; [congruence | rewrite <- U; exact H]).
  clear U H. inversion U' as [H]; clear U'. try subst ps. intros m; unfold m; clear m.
  assert (Hlen : (1 <= length qs)%nat) by (destruct qs; [congruence | cbn; lia]).
  rn. rewrite !map_length. set (pad := (L - last qs 0) / 2) in *.
  assert (Hnth : forall i, (i < length qs)%nat -> nth i (map (fun p => p + pad) qs) 0 = INR i * s + pad).
  { intros i Hi. rewrite nth_indep with (d' := 0 + pad) by (rewrite map_length; exact Hi).
    rewrite (map_nth (fun p => p + pad)). destruct (Hq i Hi) as [Ha _]. rn. rewrite Ha. ring. }
  assert (Hlast : last qs 0 = INR (length qs - 1) * s).
  { rewrite last_nth_R by exact Hne. destruct (Hq (length qs - 1)%nat ltac:(lia)) as [Ha _]. rn. rewrite Ha. ring. }
  assert (HlastL : INR (length qs - 1) * s < L).
  { destruct (Hq (length qs - 1)%nat ltac:(lia)) as [Ha Hb]. rewrite Ha in Hb. lra. }
  assert (Hmm : INR (length qs) = INR (length qs - 1) + 1).
  { replace (length qs) with (S (length qs - 1)) at 1 by lia. apply S_INR. }
  assert (Hpad : 0 < pad <= s / 2) by (unfold pad; rewrite Hlast; rewrite Hmm in HqL; lra).
  split; [exact Hlen|].
  rewrite !Hnth by lia. cbn [INR]. split; [lra|]. split; [unfold pad at 2; rewrite Hlast; unfold pad; rewrite Hlast; lra|].
  split; [intros i Hi; rewrite !Hnth by lia; rewrite S_INR; ring|]. split.
  - intros i Hi. rewrite Hnth by exact Hi.
    assert (0 <= INR i) by apply pos_INR.
    assert (INR i <= INR (length qs - 1)) by (apply le_INR; lia).
    assert (INR i * s <= INR (length qs - 1) * s) by (apply Rmult_le_compat_r; lra).
    unfold pad in *. rewrite Hlast in *. split; [apply Rplus_le_le_0_compat; [apply Rmult_le_pos|]; lra | lra].
  - split; [lra | exact HlastL].
Qed.

Lemma Forall2_len {A B} (R : A -> B -> Prop) l1 l2 : Forall2 R l1 l2 -> length l1 = length l2.
Proof. induction 1; cbn; congruence. Qed.

(* ---------------------------------------------------------------- resampled points lie on the curve *)
Section OnCurve.
  Variable V : @VOps RNum.
  Hypothesis L : VLaws V.
  Notation P := (pt V).
  Variable c : curve V.
  Hypothesis Hwf : WF V c.
  Let n := count V c.

  (* q is the point of the curve at arc length p: on the edge (i, i+1) at fraction f in [0, 1], and the
     cumulative length there is p *)
  Definition sample_of (p : R) (q : P) : Prop :=
    exists s, at_length V c p = Some s /\ q = st_point V s /\ (S (st_index V s) < n)%nat /\ 0 <= st_frac V s <= 1 /\
              length_along V c s = p /\
              q = vlerp V (vtx V c (st_index V s)) (vtx V c (S (st_index V s))) (st_frac V s).

  Lemma length_pos : 0 < clength V c.
  Proof.
    rewrite (wf_total V c Hwf). pose proof (wf_n2 V c Hwf) as H2.
    pose proof (wf_strict V c Hwf 0 (count V c - 1) ltac:(lia) ltac:(lia)) as Hs.
    rewrite (wf_first V c Hwf) in Hs. exact Hs.
  Qed.

  Theorem points_at_on_curve : forall ps, (forall p, In p ps -> 0 <= p <= clength V c) ->
    exists pts, points_at V c ps = Ok pts /\ Forall2 sample_of ps pts.
  Proof.
    induction ps as [|p ps IH]; intros Hr; cbn [points_at].
    - exists []. split; [reflexivity | constructor].
    - destruct (at_length_inside V L c Hwf p (Hr p (or_introl eq_refl))) as (s & Es & Hi & Hf & Hl & Hp & _).
      rewrite Es. destruct (IH (fun q Hq => Hr q (or_intror Hq))) as (pts & Ep & HF). rewrite Ep.
      exists (st_point V s :: pts). split; [reflexivity|]. constructor; [|exact HF].
      exists s. repeat split; try assumption; apply Hf.
  Qed.

  Lemma at_length_first : at_length V c 0 = Some (at_vertex V c 0).
  Proof. rewrite <- (wf_first V c Hwf). apply (at_length_vertex V c Hwf). pose proof (wf_n2 V c Hwf). lia. Qed.
  Lemma at_length_last : at_length V c (clength V c) = Some (at_vertex V c (n - 1)).
  Proof. rewrite (wf_total V c Hwf). apply (at_length_vertex V c Hwf). pose proof (wf_n2 V c Hwf). unfold n. lia. Qed.

  Lemma points_at_nth : forall ps pts i, points_at V c ps = Ok pts -> (i < length ps)%nat ->
    exists s, at_length V c (nth i ps 0) = Some s /\ nth i pts (vzero V) = st_point V s.
  Proof.
    induction ps as [|p ps IH]; intros pts i H Hi; [cbn in Hi; lia|].
    cbn [points_at] in H. destruct (at_length V c p) as [s|] eqn:Es; [|discriminate].
    destruct (points_at V c ps) as [r| |] eqn:Er; try discriminate. inversion H; subst pts; clear H.
    destruct i as [|i]; cbn [nth].
    - exists s. split; [exact Es | reflexivity].
    - apply IH; [reflexivity | cbn [length] in Hi; lia].
  Qed.

  (* resampling by count k >= 2 (and therefore by maximum spacing): k points, the first and last are the curve's
     first and last vertices, every point is on the curve at its requested arc length, and consecutive requested
     arc lengths differ by L / (k - 1) *)
  Theorem resample_by_count_points (k : nat) : (2 <= k)%nat ->
    exists pts, points_at V c (positions_by_count (clength V c) k) = Ok pts /\ length pts = k /\
      nth 0 pts (vzero V) = vtx V c 0 /\ nth (k - 1) pts (vzero V) = vtx V c (n - 1) /\
      Forall2 sample_of (positions_by_count (clength V c) k) pts.
  Proof.
    intros Hk. pose proof length_pos as HL.
    destruct (positions_by_count_spec (clength V c) k Hk ltac:(lra)) as (Hlen & H0 & Hlast & Hrange & _).
    change (@num RNum) with R in *. cbv zeta in *.
    set (ps := @positions_by_count RNum (clength V c) k) in *.
    destruct (points_at_on_curve ps) as (pts & Ep & HF).
    { intros p Hp. destruct (In_nth _ _ 0 Hp) as (i & Hi & <-). apply Hrange. rewrite <- Hlen. exact Hi. }
    exists pts. split; [exact Ep|]. pose proof (Forall2_len _ _ _ HF) as Hl2. split; [lia|].
    pose proof (wf_n2 V c Hwf) as H2.
    assert (Hlen' : length ps = k) by (unfold ps, positions_by_count; rewrite map_length, seq_length; reflexivity).
    assert (Hi0 : (0 < length ps)%nat) by lia. assert (Hi1 : (k - 1 < length ps)%nat) by lia.
    split; [|split; [|exact HF]].
    - destruct (points_at_nth _ _ 0%nat Ep Hi0) as (s & Es & ->).
      assert (Es' : at_length V c 0 = Some s) by (etransitivity; [|exact Es]; f_equal; symmetry; exact H0).
      clear Es; rename Es' into Es. rewrite at_length_first in Es.
      inversion Es; subst s. apply (at_vertex_spec V c Hwf 0). lia.
    - destruct (points_at_nth _ _ (k - 1)%nat Ep Hi1) as (s & Es & ->).
      assert (Es' : at_length V c (clength V c) = Some s) by (etransitivity; [|exact Es]; f_equal; symmetry; exact Hlast).
      clear Es; rename Es' into Es. rewrite at_length_last in Es.
      inversion Es; subst s. apply (at_vertex_spec V c Hwf (n - 1)). unfold n. lia.
  Qed.

  (* de-duplication and closing only keep (or repeat) given points *)
  Lemma dedup_from_incl tol : forall l kept x, In x (dedup_from V tol kept l) -> In x l.
  Proof.
    induction l as [|a l IH]; intros kept x H; cbn [dedup_from] in H; [exact H|].
    destruct (vdist V a kept <=? tol)%num; [right; eapply IH; exact H|].
    destruct H as [<- | H]; [left; reflexivity | right; eapply IH; exact H].
  Qed.
  Lemma dedup_tol_incl tol l x : In x (dedup_tol V tol l) -> In x l.
  Proof. destruct l as [|a l]; cbn [dedup_tol]; [auto|]. intros [<- | H]; [left; reflexivity | right; eapply dedup_from_incl; exact H]. Qed.

  Lemma from_points_incl avg pts tol fc r x : from_points V avg pts tol fc = Ok r -> In x (cpts V r) -> In x pts.
  Proof.
    unfold from_points. destruct (length (dedup_tol V tol pts) <? 2)%nat; [discriminate|].
    destruct (dedup_tol V tol pts) as [|first rest] eqn:E.
    - intros H; inversion H; subst r; cbn [cpts]. intros [].
    - destruct (fc && (tol <? vdist V first (last (first :: rest) first))%num); intros H; inversion H; subst r; cbn [cpts]; intros Hx.
      + change (first :: rest ++ [first]) with ((first :: rest) ++ [first]) in Hx. apply in_app_or in Hx. apply (dedup_tol_incl tol). rewrite E. destruct Hx as [Hx | [<- | []]]; [exact Hx | left; reflexivity].
      + apply (dedup_tol_incl tol). rewrite E. exact Hx.
  Qed.

  (* every vertex of a resampled curve is a point of the original at one of the requested arc lengths; with
     positions inside [0, L] resampling never panics *)
  Theorem resample_on_curve ps : (forall p, In p ps -> 0 <= p <= clength V c) ->
    resample_at_positions V c ps <> Panic /\
    forall r, resample_at_positions V c ps = Ok r -> forall q, In q (cpts V r) -> exists p, In p ps /\ sample_of p q.
  Proof.
    intros Hr. destruct (points_at_on_curve ps Hr) as (pts & Ep & HF). unfold resample_at_positions. rewrite Ep. split.
    - unfold from_points. destruct (length (dedup_tol V (ctol V c) pts) <? 2)%nat; [discriminate|].
      destruct (dedup_tol V (ctol V c) pts); discriminate.
    - intros r Er q Hq. apply (from_points_incl _ _ _ _ _ _ Er) in Hq.
      clear Er Ep. induction HF as [|p q' ps' pts' Hs HF IH]; [destruct Hq|].
      destruct Hq as [<- | Hq]; [exists p; split; [left; reflexivity | exact Hs]|].
      destruct (IH (fun x Hx => Hr x (or_intror Hx)) Hq) as (p' & Hp' & Hs'). exists p'. split; [right; exact Hp' | exact Hs'].
  Qed.
End OnCurve.

(* ---------------------------------------------------------------- Ramer-Douglas-Peucker *)
Section Rdp.
  Variable V : @VOps RNum.
  Notation P := (pt V).
  Variable pts : list P.
  Variable tol : R.
  Hypothesis Htol : 0 <= tol.
  Let n := length pts.
  Notation pt_at i := (nth i pts (vzero V)).
  Notation K keep i := (nth i keep false = true).

  Lemma set_true_length : forall l i, length (set_true l i) = length l.
  Proof. induction l as [|b l IH]; intros [|i]; cbn [set_true length]; auto. Qed.
  Lemma set_true_nth : forall l i j, nth j (set_true l i) false = if ((j =? i)%nat && (i <? length l)%nat)%bool then true else nth j l false.
  Proof.
    induction l as [|b l IH]; intros i j.
    - cbn [set_true length]. replace (i <? 0)%nat with false by (symmetry; apply Nat.ltb_ge; lia). rewrite andb_false_r. reflexivity.
    - destruct i as [|i], j as [|j]; cbn [set_true nth length]; try reflexivity.
      rewrite IH. replace (S j =? S i)%nat with (j =? i)%nat by reflexivity. replace (S i <? S (length l))%nat with (i <? length l)%nat by reflexivity. reflexivity.
  Qed.

  Lemma farthest_spec p0 p1 : forall cnt i b bi d im,
    farthest V pts p0 p1 i cnt (b, bi) = (d, im) ->
    b <= d /\ (forall j, (i <= j < i + cnt)%nat -> seg_dist V p0 p1 (pt_at j) <= d) /\
    ((d, im) = (b, bi) \/ ((i <= im < i + cnt)%nat /\ b < d)).
  Proof.
    induction cnt as [|cnt IH]; intros i b bi d im H; cbn [farthest] in H.
    - inversion H; subst. split; [lra|]. split; [intros j Hj; lia | left; reflexivity].
    - cbn [fst] in H. rn. destruct (Rlt_bool b (seg_dist V p0 p1 (pt_at i))) eqn:E; rbool.
      + destruct (IH _ _ _ _ _ H) as (H1 & H2 & H3). split; [lra|]. split.
        * intros j Hj. destruct (Nat.eq_dec j i) as [->|Hne]; [exact H1 | apply H2; lia].
        * right. destruct H3 as [H3 | [H3 H4]]; [inversion H3; subst; split; [lia | exact E] | split; [lia | lra]].
      + destruct (IH _ _ _ _ _ H) as (H1 & H2 & H3). split; [exact H1|]. split.
        * intros j Hj. destruct (Nat.eq_dec j i) as [->|Hne]; [lra | apply H2; lia].
        * destruct H3 as [H3 | [H3 H4]]; [left; exact H3 | right; split; [lia | exact H4]].
  Qed.

  (* what a call on (i0, i1) guarantees about the keep flags *)
  Definition covered (keep : list bool) (lo hi k : nat) : Prop :=
    exists a b, (lo <= a < k)%nat /\ (k < b <= hi)%nat /\ K keep a /\ K keep b /\
                (forall m, (a < m < b)%nat -> nth m keep false = false) /\
                seg_dist V (pt_at a) (pt_at b) (pt_at k) <= tol.

  Lemma rdp_spec : forall fuel keep i0 i1,
    (i0 <= i1 < n)%nat -> (i1 - i0 < fuel)%nat -> length keep = n ->
    let keep' := rdp V fuel pts tol keep i0 i1 in
    length keep' = n /\
    (forall j, (j < i0 \/ i1 < j)%nat -> nth j keep' false = nth j keep false) /\
    (forall j, K keep j -> K keep' j) /\
    K keep' i0 /\ K keep' i1 /\
    ((forall j, (i0 < j < i1)%nat -> nth j keep false = false) ->
     forall k, (i0 < k < i1)%nat -> nth k keep' false = false -> covered keep' i0 i1 k).
  Proof.
    induction fuel as [|fuel IH]; intros keep i0 i1 Hi Hf Hlen; [lia|].
    cbn [rdp]. set (k0 := set_true (set_true keep i0) i1).
    assert (Hk0len : length k0 = n) by (unfold k0; rewrite !set_true_length; exact Hlen).
    assert (Hk0 : forall j, nth j k0 false = if ((j =? i0) || (j =? i1))%nat then true else nth j keep false).
    { intros j. unfold k0. rewrite !set_true_nth, !set_true_length, Hlen.
      replace (i1 <? n)%nat with true by (symmetry; apply Nat.ltb_lt; lia).
      replace (i0 <? n)%nat with true by (symmetry; apply Nat.ltb_lt; lia). rewrite !andb_true_r.
      destruct (j =? i1)%nat, (j =? i0)%nat; reflexivity. }
    assert (Hbase : length k0 = n /\
      (forall j, (j < i0 \/ i1 < j)%nat -> nth j k0 false = nth j keep false) /\
      (forall j, K keep j -> K k0 j) /\ K k0 i0 /\ K k0 i1).
    { split; [exact Hk0len|]. split.
      - intros j Hj. rewrite Hk0. replace (j =? i0)%nat with false by (symmetry; apply Nat.eqb_neq; lia).
        replace (j =? i1)%nat with false by (symmetry; apply Nat.eqb_neq; lia). reflexivity.
      - split; [intros j Hj; rewrite Hk0, Hj; destruct ((j =? i0)%nat || (j =? i1)%nat); reflexivity|].
        split; rewrite Hk0, ?Nat.eqb_refl, ?orb_true_r; reflexivity. }
    destruct (i1 - i0 <? 2)%nat eqn:E2.
    - apply Nat.ltb_lt in E2. destruct Hbase as (B1 & B2 & B3 & B4 & B5). repeat split; auto. intros _ k Hk; lia.
    - apply Nat.ltb_ge in E2.
      destruct (farthest V pts (pt_at i0) (pt_at i1) (S i0) (i1 - i0 - 1) (n0, 0%nat)) as [dmax imax] eqn:Ef.
      destruct (farthest_spec _ _ _ _ _ _ _ _ Ef) as (F1 & F2 & F3). rn.
      destruct (Rlt_bool tol dmax) eqn:Et; rbool.
      + (* split at imax *)
        assert (Him : (i0 < imax < i1)%nat).
        { destruct F3 as [F3 | [F3 _]]; [inversion F3; subst; lra | lia]. }
        destruct (IH k0 i0 imax ltac:(lia) ltac:(lia) Hk0len) as (A1 & A2 & A3 & A4 & A5 & A6).
        set (k1 := rdp V fuel pts tol k0 i0 imax) in *.
        destruct (IH k1 imax i1 ltac:(lia) ltac:(lia) A1) as (C1 & C2 & C3 & C4 & C5 & C6).
        set (k2 := rdp V fuel pts tol k1 imax i1) in *.
        destruct Hbase as (B1 & B2 & B3 & B4 & B5).
        split; [exact C1|]. split; [intros j Hj; rewrite C2, A2, B2 by lia; reflexivity|].
        split; [intros j Hj; apply C3, A3, B3, Hj|]. split; [apply C3, A4|]. split; [exact C5|].
        intros Hint k Hk Hkf.
        assert (Hint0 : forall j, (i0 < j < i1)%nat -> nth j k0 false = false).
        { intros j Hj. rewrite Hk0. replace (j =? i0)%nat with false by (symmetry; apply Nat.eqb_neq; lia).
          replace (j =? i1)%nat with false by (symmetry; apply Nat.eqb_neq; lia). apply Hint. exact Hj. }
        destruct (Nat.lt_trichotomy k imax) as [Hlt | [Heq | Hgt]].
        * (* left part: untouched by the second call *)
          assert (Hk1 : nth k k1 false = false) by (rewrite <- C2 by lia; exact Hkf).
          destruct (A6 ltac:(intros j Hj; apply Hint0; lia) k ltac:(lia) Hk1) as (a & b & Ha & Hb & Ka & Kb & Hm & Hd).
          exists a, b. split; [lia|]. split; [lia|]. split; [apply C3, Ka|]. split; [apply C3, Kb|]. split; [|exact Hd].
          intros m Hm'. rewrite C2 by lia. apply Hm. exact Hm'.
        * subst k. rewrite C4 in Hkf. discriminate.
        * assert (Hint1 : forall j, (imax < j < i1)%nat -> nth j k1 false = false).
          { intros j Hj. rewrite A2 by lia. apply Hint0. lia. }
          destruct (C6 Hint1 k ltac:(lia) Hkf) as (a & b & Ha & Hb & Ka & Kb & Hm & Hd).
          exists a, b. split; [lia|]. split; [lia|]. auto.
      + (* everything strictly between is within the tolerance of the chord *)
        destruct Hbase as (B1 & B2 & B3 & B4 & B5). repeat split; auto.
        intros Hint k Hk Hkf. exists i0, i1. split; [lia|]. split; [lia|]. split; [exact B4|]. split; [exact B5|]. split.
        * intros m Hm. rewrite Hk0. replace (m =? i0)%nat with false by (symmetry; apply Nat.eqb_neq; lia).
          replace (m =? i1)%nat with false by (symmetry; apply Nat.eqb_neq; lia). apply Hint. exact Hm.
        * specialize (F2 k ltac:(lia)). lra.
  Qed.

  Definition rdp_flags : list bool := rdp V (length pts) pts tol (map (fun _ => false) pts) 0 (length pts - 1).

  (* both end points are kept, and every vertex that is dropped lies within the tolerance of the segment between
     the nearest kept vertices on either side *)
  Theorem rdp_flags_spec : (2 <= n)%nat ->
    length rdp_flags = n /\ K rdp_flags 0 /\ K rdp_flags (n - 1) /\
    forall k, (k < n)%nat -> nth k rdp_flags false = false -> covered rdp_flags 0 (n - 1) k.
  Proof.
    intros Hn. unfold rdp_flags. fold n.
    assert (Hl0 : length (map (fun _ : P => false) pts) = n) by (rewrite map_length; reflexivity).
    destruct (rdp_spec n (map (fun _ => false) pts) 0 (n - 1) ltac:(lia) ltac:(lia) Hl0) as (A1 & A2 & A3 & A4 & A5 & A6).
    split; [exact A1|]. split; [exact A4|]. split; [exact A5|].
    intros k Hk Hf. apply A6.
    - intros j Hj. clear. revert j. induction pts as [|p l IHl]; intros [|j]; cbn; auto.
    - destruct (Nat.eq_dec k 0) as [->|H0]; [rewrite A4 in Hf; discriminate|].
      destruct (Nat.eq_dec k (n - 1)) as [->|H1]; [rewrite A5 in Hf; discriminate|]. lia.
    - exact Hf.
  Qed.
End Rdp.

(* the points returned are the kept vertices in their original order *)
Inductive subseq {A} : list A -> list A -> Prop :=
| ss_nil : subseq [] []
| ss_skip x l1 l2 : subseq l1 l2 -> subseq l1 (x :: l2)
| ss_take x l1 l2 : subseq l1 l2 -> subseq (x :: l1) (x :: l2).

Lemma subseq_nil {A} (l : list A) : subseq [] l.
Proof. induction l; constructor; assumption. Qed.

Lemma select_subseq {A} : forall (l : list A) (keep : list bool), subseq (map fst (filter snd (combine l keep))) l.
Proof.
  induction l as [|x l IH]; intros keep; [constructor|].
  destruct keep as [|b keep]; cbn [combine filter map]; [apply subseq_nil|].
  cbn [snd]. destruct b; cbn [map fst]; constructor; apply IH.
Qed.

Lemma select_in {A} (d : A) : forall (l : list A) (keep : list bool) k,
  (k < length l)%nat -> nth k keep false = true -> In (nth k l d) (map fst (filter snd (combine l keep))).
Proof.
  induction l as [|x l IH]; intros keep k Hk Hn; [cbn in Hk; lia|].
  destruct keep as [|b keep]; [destruct k; discriminate|].
  cbn [combine filter snd]. destruct k as [|k]; cbn [nth] in *.
  - subst b. left. reflexivity.
  - assert (Hin : In (nth k l d) (map fst (filter snd (combine l keep)))) by (apply IH; [cbn in Hk; lia | exact Hn]).
    destruct b; [right|]; exact Hin.
Qed.

Lemma select_hd {A} (d : A) (l : list A) (keep : list bool) :
  l <> [] -> nth 0 keep false = true -> hd d (map fst (filter snd (combine l keep))) = hd d l.
Proof. destruct l as [|x l]; [congruence|]. destruct keep as [|b keep]; cbn; [discriminate|]. intros _ ->. reflexivity. Qed.

Lemma select_last {A} (d : A) : forall (l : list A) (keep : list bool),
  l <> [] -> length keep = length l -> nth (length l - 1) keep false = true ->
  last (map fst (filter snd (combine l keep))) d = last l d.
Proof.
  induction l as [|x l IH]; intros keep Hne Hlen Hk; [congruence|].
  destruct keep as [|b keep]; [discriminate|]. cbn [combine filter snd].
  destruct l as [|y l].
  - cbn in Hk. subst b. destruct keep; [reflexivity | discriminate].
  - assert (IH' : last (map fst (filter snd (combine (y :: l) keep))) d = last (y :: l) d).
    { apply IH; [discriminate | cbn in Hlen |- *; lia|].
      cbn [length] in Hk |- *. replace (S (S (length l)) - 1)%nat with (S (length l)) in Hk by lia.
      replace (S (length l) - 1)%nat with (length l) by lia. exact Hk. }
    assert (Hne' : map fst (filter snd (combine (y :: l) keep)) <> []).
    { assert (Hin : In (nth (length l) (y :: l) d) (map fst (filter snd (combine (y :: l) keep)))).
      { apply select_in; [cbn; lia|]. cbn [length] in Hk. replace (S (S (length l)) - 1)%nat with (S (length l)) in Hk by lia. exact Hk. }
      intros Hc. rewrite Hc in Hin. destruct Hin. }
    change (last (x :: y :: l) d) with (last (y :: l) d). rewrite <- IH'.
    destruct b; [|reflexivity]. cbn [map fst].
    destruct (map fst (filter snd (combine (y :: l) keep))); [congruence | reflexivity].
Qed.

Theorem rdp_points_spec (V : @VOps RNum) (pts : list (pt V)) (tol : R) : 0 <= tol -> (2 <= length pts)%nat ->
  let out := rdp_points V pts tol in
  subseq out pts /\ hd (vzero V) out = hd (vzero V) pts /\ last out (vzero V) = last pts (vzero V) /\
  forall k, (k < length pts)%nat ->
    In (nth k pts (vzero V)) out \/ covered V pts tol (rdp_flags V pts tol) 0 (length pts - 1) k.
Proof.
  intros Ht Hn out. destruct (rdp_flags_spec V pts tol Ht Hn) as (F1 & F2 & F3 & F4).
  assert (Hne : pts <> []) by (destruct pts; [cbn in Hn; lia | discriminate]).
  unfold out, rdp_points. fold (rdp_flags V pts tol).
  split; [apply select_subseq|]. split; [apply select_hd; assumption|]. split; [apply select_last; assumption|].
  intros k Hk. destruct (nth k (rdp_flags V pts tol) false) eqn:E; [left; apply select_in; assumption | right; apply F4; assumption].
Qed.

(* ---------------------------------------------------------------- gap filling *)
Lemma last_cons {A} (x d : A) (l : list A) : last (x :: l) d = last l x.
Proof.
  revert x d. induction l as [|y l IH]; intros x d; [reflexivity|].
  change (last (x :: y :: l) d) with (last (y :: l) d). rewrite (IH y d), (IH y x). reflexivity.
Qed.

Record VStep (V : @VOps RNum) : Prop := {
  vs_step : forall a v t, vsub V (vadd V a (vscale V v (t + 1))) (vadd V a (vscale V v t)) = v;
  vs_first : forall a v, vsub V (vadd V a (vscale V v 1)) a = v;
  vs_last : forall a b m, m <> 0 -> vsub V b (vadd V a (vscale V (vdiv V (vsub V b a) m) (m - 1))) = vdiv V (vsub V b a) m;
}.

Lemma VStep2 : VStep (@VO2 RNum).
Proof.
  constructor; cbn [VO2 vdot vadd vscale vdiv vsub pt].
  - intros [ax ay] [x y] t. vec_unfold. f_equal; ring.
  - intros [ax ay] [x y]. vec_unfold. f_equal; ring.
  - intros [ax ay] [bx by_] m Hm. vec_unfold. f_equal; field; exact Hm.
Qed.
Lemma VStep3 : VStep (@VO3 RNum).
Proof.
  constructor; cbn [VO3 vdot vadd vscale vdiv vsub pt].
  - intros [[ax ay] az] [[x y] z] t. vec_unfold. f_equal; [f_equal|]; ring.
  - intros [[ax ay] az] [[x y] z]. vec_unfold. f_equal; [f_equal|]; ring.
  - intros [[ax ay] az] [[bx by_] bz] m Hm. vec_unfold. f_equal; [f_equal|]; field; exact Hm.
Qed.

Section Fill.
  Variable V : @VOps RNum.
  Hypothesis L : VLaws V.
  Hypothesis S : VStep V.
  Notation P := (pt V).
  Variable maxd : R.
  Hypothesis Hmax : 0 < maxd.

  (* every consecutive pair, starting from prev, is at most m apart *)
  Fixpoint chain_le (m : R) (prev : P) (l : list P) : Prop :=
    match l with [] => True | p :: l' => vdist V p prev <= m /\ chain_le m p l' end.

  Lemma chain_app m : forall l1 prev l2, chain_le m prev (l1 ++ l2) <-> chain_le m prev l1 /\ chain_le m (last l1 prev) l2.
  Proof.
    induction l1 as [|x l1 IH]; intros prev l2; cbn [app chain_le].
    - cbn [last]. tauto.
    - rewrite IH. rewrite (last_cons x prev l1). tauto.
  Qed.

  Lemma vnorm_div (v : P) (m : R) : 0 < m -> vnorm V (vdiv V v m) = vnorm V v / m.
  Proof.
    intros Hm. unfold vnorm. rn. rewrite (vl_div_dot V L) by lra.
    rewrite sqrt_div_alt by nra. rewrite sqrt_square by lra. reflexivity.
  Qed.

  Lemma gap_count_spec (d : R) : forall fuel n m, @gap_count RNum fuel d maxd n = Some m ->
    (n <= m)%nat /\ d / INR (m + 1) <= maxd /\ forall j, (n <= j < m)%nat -> maxd < d / INR (j + 1).
  Proof.
    induction fuel as [|fuel IH]; intros n m H; [discriminate|]. cbn [gap_count] in H. rn. rewrite nofnat_INR in H.
    destruct (Rlt_bool maxd (d / INR (n + 1))) eqn:E; rbool.
    - destruct (IH _ _ H) as (H1 & H2 & H3). split; [lia|]. split; [exact H2|].
      intros j Hj. destruct (Nat.eq_dec j n) as [->|Hne]; [exact E | apply H3; lia].
    - inversion H; subst m. split; [lia|]. split; [exact E|]. intros j Hj; lia.
  Qed.

  (* the search for the number of inserted points terminates: any fuel above d / maxd suffices *)
  Lemma gap_count_terminates (d : R) : 0 <= d -> forall k n, d <= INR (n + k + 1) * maxd ->
    @gap_count RNum (Datatypes.S k) d maxd n <> None.
  Proof.
    intros Hd. induction k as [|k IH]; intros n Hk.
    - cbn [gap_count]. rn. rewrite nofnat_INR. replace (n + 0 + 1)%nat with (n + 1)%nat in Hk by lia.
      assert (Hp : 0 < INR (n + 1)) by (apply lt_0_INR; lia).
      assert (E : Rlt_bool maxd (d / INR (n + 1)) = false).
      { apply Rltb_false. apply Rmult_le_reg_r with (INR (n + 1)); [exact Hp|]. unfold Rdiv. rewrite Rmult_assoc, Rinv_l by lra. lra. }
      rewrite E. congruence.
    - change (@gap_count RNum (Datatypes.S (Datatypes.S k)) d maxd n) with
        (if Rlt_bool maxd (d / @nofnat RNum (n + 1)) then @gap_count RNum (Datatypes.S k) d maxd (Datatypes.S n) else Some n).
      destruct (Rlt_bool maxd (d / @nofnat RNum (n + 1))); [|congruence]. apply IH.
      replace (Datatypes.S n + k + 1)%nat with (n + Datatypes.S k + 1)%nat by lia. exact Hk.
  Qed.

  Section Even.
    Variables a b : P.
    Variable n : nat.
    Hypothesis Hn : (1 <= n)%nat.
    Let step := vdiv V (vsub V b a) (INR (n + 1)).
    Let g (i : nat) : P := vadd V a (vscale V step (INR i)).

    Lemma even_unfold : evenly_spaced_between V a b n = map g (seq 1 n).
    Proof. unfold evenly_spaced_between. rewrite nofnat_INR. apply map_ext. intros i. rewrite nofnat_INR. reflexivity. Qed.

    Lemma step_norm : vnorm V step = vdist V b a / INR (n + 1).
    Proof. unfold step. apply vnorm_div. apply lt_0_INR. lia. Qed.

    Lemma chain_steps m : vnorm V step <= m -> forall k s, chain_le m (g s) (map g (seq (Datatypes.S s) k)).
    Proof.
      intros Hm. induction k as [|k IH]; intros s; cbn [seq map chain_le]; [exact I|].
      split; [|apply IH]. unfold vdist, g. rewrite S_INR. rewrite (vs_step V S). exact Hm.
    Qed.

    Lemma last_map_seq : forall k s, last (map g (seq (Datatypes.S s) k)) (g s) = g (s + k).
    Proof.
      induction k as [|k IH]; intros s; cbn [seq map].
      - cbn [last]. f_equal. lia.
      - rewrite last_cons, IH. f_equal. lia.
    Qed.

    (* a, the n inserted points, b: every consecutive distance is |b - a| / (n + 1) *)
    Theorem evenly_spaced_chain m : vdist V b a / INR (n + 1) <= m ->
      chain_le m a (evenly_spaced_between V a b n ++ [b]).
    Proof.
      intros Hm. rewrite <- step_norm in Hm. rewrite even_unfold.
      assert (Es : seq 1 n = 1%nat :: seq 2 (n - 1)) by (destruct n as [|k]; [lia|]; cbn [seq]; do 2 f_equal; lia).
      rewrite Es. cbn [map app chain_le].
      assert (H1 : vdist V (g 1) a <= m) by (unfold vdist, g; cbn [INR]; rewrite (vs_first V S); exact Hm).
      split; [exact H1|]. apply chain_app. split; [apply chain_steps; exact Hm|].
      rewrite last_map_seq. cbn [chain_le]. split; [|exact I].
      unfold vdist, g, step. replace (INR (1 + (n - 1))) with (INR (n + 1) - 1) by (rewrite !plus_INR, minus_INR by lia; cbn [INR]; ring).
      rewrite (vs_last V S) by (apply not_0_INR; lia). exact Hm.
    Qed.
  End Even.

  Lemma last_app_single (l : list P) (x d : P) : last (l ++ [x]) d = x.
  Proof. induction l as [|y l IH]; [reflexivity|]. cbn [app last]. destruct (l ++ [x]) eqn:E; [destruct l; discriminate | exact IH]. Qed.

  Lemma fill_from_spec fuel : forall l prev out, fill_gaps_from V fuel maxd prev l = Ok out ->
    subseq l out /\ chain_le maxd prev out.
  Proof.
    induction l as [|p l IH]; intros prev out H; cbn [fill_gaps_from] in H.
    - inversion H; subst. split; [constructor | exact I].
    - rn. destruct (Rlt_bool maxd (vdist V p prev)) eqn:E; rbool.
      + destruct (gap_count fuel (vdist V p prev) maxd 1) as [k|] eqn:Eg; [|discriminate].
        destruct (fill_gaps_from V fuel maxd p l) as [r| |] eqn:Er; try discriminate.
        inversion H; subst out; clear H. destruct (IH _ _ Er) as [I1 I2].
        destruct (gap_count_spec _ _ _ _ Eg) as (G1 & G2 & _). split.
        * clear -I1. induction (evenly_spaced_between V prev p k) as [|x xs IHx]; cbn [app]; [apply ss_take; exact I1 | apply ss_skip; exact IHx].
        * change (evenly_spaced_between V prev p k ++ p :: r) with (evenly_spaced_between V prev p k ++ [p] ++ r).
          rewrite app_assoc. apply chain_app. split; [apply evenly_spaced_chain; assumption|].
          rewrite last_app_single. exact I2.
      + destruct (fill_gaps_from V fuel maxd p l) as [r| |] eqn:Er; try discriminate.
        inversion H; subst out; clear H. destruct (IH _ _ Er) as [I1 I2]. cbn [app chain_le].
        split; [apply ss_take; exact I1 | split; [exact E | exact I2]].
  Qed.

  (* gap filling keeps every original point, in order, and leaves no consecutive pair farther apart than the maximum *)
  Theorem fill_gaps_spec fuel pts out : fill_gaps V fuel pts maxd = Ok out ->
    subseq pts out /\ match out with [] => pts = [] | p :: rest => chain_le maxd p rest end.
  Proof.
    unfold fill_gaps. destruct pts as [|p [|q l]].
    - intros H; inversion H; subst. split; [constructor | reflexivity].
    - intros H; inversion H; subst. split; [apply ss_take; constructor | exact I].
    - destruct (fill_gaps_from V fuel maxd p (q :: l)) as [r| |] eqn:Er; try discriminate.
      intros H; inversion H; subst. destruct (fill_from_spec _ _ _ _ Er) as [I1 I2].
      split; [apply ss_take; exact I1 | exact I2].
  Qed.

  (* with fuel above (largest gap) / maxd the model never runs out of fuel, i.e. the search loop terminates *)
  Theorem fill_gaps_total fuel : forall l prev,
    (forall a b, vdist V a b <= INR fuel * maxd) -> exists out, fill_gaps_from V (Datatypes.S fuel) maxd prev l = Ok out.
  Proof.
    intros l prev Hf. revert prev. induction l as [|p l IH]; intros prev; cbn [fill_gaps_from]; [eexists; reflexivity|].
    destruct (IH p) as (r & Er). rewrite Er. rn.
    destruct (Rlt_bool maxd (vdist V p prev)); [|eexists; reflexivity].
    destruct (@gap_count RNum (Datatypes.S fuel) (vdist V p prev) maxd 1) eqn:Eg; [eexists; reflexivity|].
    exfalso. revert Eg. apply gap_count_terminates; [apply vdist_nonneg|].
    specialize (Hf p prev). assert (INR fuel <= INR (1 + fuel + 1)) by (apply le_INR; lia).
    assert (INR fuel * maxd <= INR (1 + fuel + 1) * maxd) by (apply Rmult_le_compat_r; lra). lra.
  Qed.
End Fill.
