(* C12: every boundary loop is a closed vertex cycle whose consecutive vertices are joined by the
   boundary edges it consumed -- under the even-boundary-degree condition, which holds whenever no
   edge lies on more than two faces (each face contributes two edges at each of its vertices). *)
From Coq Require Import ZArith List Bool Arith Lia Permutation.
From EG Require Import Model.MeshTopo Proofs.MeshLoops.
Import ListNotations.

Fixpoint udeg (es : list edge) (used : list bool) (v : nat) : nat :=
  match es, used with
  | e :: es', u :: used' => (if negb u && touches e v then 1 else 0) + udeg es' used' v
  | _, _ => 0
  end.

Definition proper (es : list edge) : Prop := forall e, In e es -> fst e <> snd e.
Definition all_even (es : list edge) (used : list bool) : Prop := forall v, Nat.odd (udeg es used v) = false.

Lemma udeg_set_nth v : forall es used i,
  i < length es -> i < length used -> nth i used false = false ->
  udeg es used v = (if touches (nth i es (0, 0)) v then 1 else 0) + udeg es (set_nth used i true) v.
Proof.
  induction es as [|e es IH]; intros used i H1 H2 H3; cbn in H1; [lia|].
  destruct used as [|u used]; cbn in H2; [lia|]. destruct i; cbn in *.
  - subst u. cbn. lia.
  - rewrite (IH used i) by (lia || assumption). lia.
Qed.

Lemma first_unused_none v : forall es used i,
  first_unused es used v true i = None -> first_unused es used v false i = None -> udeg es used v = 0.
Proof.
  induction es as [|e es IH]; intros used i H1 H2; [reflexivity|].
  destruct used as [|u used]; [reflexivity|]. cbn in *.
  destruct (negb u && touches e v) eqn:E; cbn in *.
  - destruct (fst e =? v); cbn in *; discriminate.
  - eapply IH; eassumption.
Qed.

Lemma next_edge_none es used v : next_edge es used v = None -> udeg es used v = 0.
Proof.
  unfold next_edge. destruct (first_unused es used v true 0) eqn:E; [discriminate|].
  intros H. eapply first_unused_none; eassumption.
Qed.

Lemma touches_xor (e : edge) v : fst e <> snd e -> touches e v = true ->
  other_end e v <> v /\ forall u, touches e u = xorb (u =? v) (u =? other_end e v).
Proof.
  destruct e as [a b]. unfold touches, other_end. cbn. intros Hne Ht.
  destruct (Nat.eqb_spec a v) as [->|Ha].
  - split; [congruence|]. intros u. rewrite (Nat.eqb_sym v u).
    destruct (Nat.eqb_spec u v), (Nat.eqb_spec b u), (Nat.eqb_spec u b); subst; cbn; try congruence; auto.
  - cbn in Ht. apply Nat.eqb_eq in Ht. subst b. split; [congruence|]. intros u. rewrite (Nat.eqb_sym v u), (Nat.eqb_sym a u).
    destruct (Nat.eqb_spec u v), (Nat.eqb_spec u a); subst; cbn; try congruence; auto.
Qed.

Lemma odd_step a t b : a = t + b -> Nat.odd b = xorb (Nat.odd t) (Nat.odd a).
Proof. intros ->. rewrite Nat.odd_add. destruct (Nat.odd t), (Nat.odd b); reflexivity. Qed.

(* marking an unused proper edge that touches [cur] moves the odd vertex from [cur] to its other end *)
Lemma mark_parity es used i first cur :
  proper es -> length used = length es -> i < length es -> nth i used false = false ->
  touches (nth i es (0, 0)) cur = true ->
  (forall v, Nat.odd (udeg es used v) = xorb (v =? first) (v =? cur)) ->
  forall v, Nat.odd (udeg es (set_nth used i true) v) = xorb (v =? first) (v =? other_end (nth i es (0, 0)) cur).
Proof.
  intros Hp Hl Hi Hn Ht Hinv v.
  assert (Hpe : fst (nth i es (0, 0)) <> snd (nth i es (0, 0))) by (apply Hp; apply nth_In; exact Hi).
  destruct (touches_xor _ cur Hpe Ht) as [_ Hx].
  rewrite (odd_step _ _ _ (udeg_set_nth v es used i Hi ltac:(lia) Hn)). rewrite Hinv, Hx.
  destruct (v =? first), (v =? cur), (v =? other_end (nth i es (0, 0)) cur); reflexivity.
Qed.

Lemma walk_closed : forall fuel es used first current vs ix,
  proper es -> length used = length es -> unused_count used < fuel ->
  (forall v, Nat.odd (udeg es used v) = xorb (v =? first) (v =? current)) ->
  exists vs' ix' used', walk fuel es used first current vs ix = Some (vs', ix', used', true) /\ all_even es used'.
Proof.
  induction fuel as [|fuel IH]; intros es used first current vs ix Hp Hlen Hf Hinv; [lia|].
  cbn [walk]. destruct (Nat.eqb_spec current first) as [->|Hne].
  - exists vs, ix, used. split; [reflexivity|]. intros v. rewrite Hinv. destruct (v =? first); reflexivity.
  - destruct (next_edge es used current) as [j|] eqn:E.
    + apply next_edge_spec in E. destruct E as (Hj1 & Hj2 & Hj3 & Hj4).
      apply IH; auto.
      * rewrite set_nth_length. exact Hlen.
      * pose proof (set_nth_unused used j Hj2 Hj3). lia.
      * apply mark_parity; auto.
    + exfalso. apply next_edge_none in E. specialize (Hinv current). rewrite E in Hinv.
      rewrite Nat.eqb_refl in Hinv. destruct (Nat.eqb_spec current first); [contradiction | discriminate].
Qed.

(* trail invariant: consecutive vertices of the walk are joined by the consumed edges *)
Definition joins (es : list edge) (i a b : nat) : Prop :=
  touches (nth i es (0, 0)) a = true /\ other_end (nth i es (0, 0)) a = b.
Definition trail (es : list edge) (vs ix : list nat) (cur : nat) : Prop :=
  length vs = length ix /\ vs <> [] /\
  (forall j, S j < length vs -> joins es (nth j ix 0) (nth j vs 0) (nth (S j) vs 0)) /\
  joins es (last ix 0) (last vs 0) cur.

Lemma trail_extend es vs ix cur i :
  trail es vs ix cur -> touches (nth i es (0, 0)) cur = true ->
  trail es (vs ++ [cur]) (ix ++ [i]) (other_end (nth i es (0, 0)) cur).
Proof.
  intros (T1 & T2 & T3 & T4) Ht. unfold trail. rewrite !app_length, !last_last. cbn [length].
  split; [lia|]. split; [destruct vs; discriminate|]. split; [|split; [exact Ht | reflexivity]].
  intros j Hj. destruct (Nat.eq_dec (S j) (length vs)) as [E|NE].
  - assert (Hl : forall (l : list nat), l <> [] -> nth (length l - 1) l 0 = last l 0).
    { clear. induction l as [|a [|b l] IH]; intros H; [congruence | reflexivity |].
      cbn [length last]. replace (S (S (length l)) - 1) with (S (length (b :: l) - 1)) by (cbn; lia).
      cbn [nth]. apply IH. discriminate. }
    assert (j = length vs - 1) by lia. subst j.
    rewrite (app_nth1 ix) by lia. rewrite (app_nth1 vs) by lia. rewrite (app_nth2 vs) by lia.
    replace (S (length vs - 1) - length vs) with 0 by lia. cbn [nth].
    rewrite T1 at 1. rewrite Hl by (destruct ix; [destruct vs; cbn in *; congruence | discriminate]).
    rewrite Hl by exact T2. exact T4.
  - rewrite (app_nth1 ix) by lia. rewrite !(app_nth1 vs) by lia. apply T3. lia.
Qed.

Lemma walk_trail : forall fuel es used first current vs ix vs' ix' used',
  trail es vs ix current ->
  walk fuel es used first current vs ix = Some (vs', ix', used', true) -> trail es vs' ix' first.
Proof.
  induction fuel as [|fuel IH]; intros es used first current vs ix vs' ix' used' Ht Hw; [discriminate|].
  cbn [walk] in Hw. destruct (Nat.eqb_spec current first) as [->|Hne].
  - inversion Hw; subst. exact Ht.
  - destruct (next_edge es used current) as [j|] eqn:E; [|discriminate].
    apply next_edge_spec in E. destruct E as (_ & _ & _ & Hj4).
    eapply IH; [|exact Hw]. apply trail_extend; assumption.
Qed.

(* a closed cycle: vertex j is joined to vertex j+1 (cyclically) by the j-th consumed edge *)
Definition cycle_ok (es : list edge) (vs ix : list nat) : Prop :=
  length vs = length ix /\ vs <> [] /\
  forall j, j < length vs -> joins es (nth j ix 0) (nth j vs 0) (nth (S j mod length vs) vs 0).

Lemma trail_cycle es vs ix : trail es vs ix (hd 0 vs) -> cycle_ok es vs ix.
Proof.
  intros (T1 & T2 & T3 & T4). split; [exact T1|]. split; [exact T2|].
  intros j Hj. destruct (Nat.eq_dec (S j) (length vs)) as [E|NE].
  - rewrite E, Nat.mod_same by lia.
    assert (Hl : forall (l : list nat), l <> [] -> nth (length l - 1) l 0 = last l 0).
    { clear. induction l as [|a [|b l] IH]; intros H; [congruence | reflexivity |].
      cbn [length last]. replace (S (S (length l)) - 1) with (S (length (b :: l) - 1)) by (cbn; lia).
      cbn [nth]. apply IH. discriminate. }
    assert (j = length vs - 1) by lia. subst j.
    rewrite Hl by exact T2. rewrite T1 at 1. rewrite Hl by (destruct ix; [destruct vs; cbn in *; congruence | discriminate]).
    destruct vs; [congruence|]. exact T4.
  - rewrite Nat.mod_small by lia. apply T3. lia.
Qed.

Definition cinv (es : list edge) (s : loops_state) : Prop :=
  linv es s /\ all_even es (ls_used s) /\ ls_closed s = true /\
  Forall2 (fun lp ix => cycle_ok es (rev lp) ix) (ls_loops s) (ls_edges s).

Lemma Forall2_snoc {A B} (R : A -> B -> Prop) l1 l2 a b :
  Forall2 R l1 l2 -> R a b -> Forall2 R (l1 ++ [a]) (l2 ++ [b]).
Proof. induction 1; cbn; intros; constructor; auto. Qed.

Lemma loop_step_closed es s start :
  proper es -> cinv es s -> start < length es ->
  exists s', loop_step es (Some s) start = Some s' /\ cinv es s'.
Proof.
  intros Hp (Hl & He & Hc & Hf) Hs.
  destruct (loop_step_spec es s start Hl Hs) as (s' & E & Hl' & _ & _).
  exists s'. split; [exact E|]. revert E. cbn [loop_step].
  destruct (nth start (ls_used s) true) eqn:Eu.
  - intros E; inversion E; subst. repeat split; auto; apply Hl.
  - destruct Hl as (L1 & L2 & L3 & L4 & L5).
    assert (Eu' : nth start (ls_used s) false = false) by (rewrite <- Eu; apply nth_indep; lia).
    assert (Hs' : start < length (ls_used s)) by lia.
    set (used1 := set_nth (ls_used s) start true). set (e := nth start es (0, 0)).
    assert (Hpe : fst e <> snd e) by (apply Hp; apply nth_In; exact Hs).
    assert (Hlen1 : length used1 = length es) by (unfold used1; rewrite set_nth_length; exact L1).
    assert (Hfuel : unused_count used1 < S (length es)) by (pose proof (unused_count_le used1); lia).
    assert (Hpar : forall v, Nat.odd (udeg es used1 v) = xorb (v =? fst e) (v =? snd e)).
    { intros v. unfold used1.
      rewrite (odd_step _ _ _ (udeg_set_nth v es (ls_used s) start Hs Hs' Eu')). rewrite He. fold e.
      unfold touches. destruct e as [a b]. cbn in *. rewrite (Nat.eqb_sym a v), (Nat.eqb_sym b v).
      destruct (Nat.eqb_spec v a), (Nat.eqb_spec v b); subst; cbn; try congruence; auto. }
    destruct (walk_closed (S (length es)) es used1 (fst e) (snd e) [fst e] [start] Hp Hlen1 Hfuel Hpar)
      as (vs' & ix' & used' & Hw & Hev).
    rewrite Hw. intros E; inversion E; subst. cbn [ls_used ls_loops ls_edges ls_closed].
    split; [exact Hl'|]. split; [exact Hev|]. split; [rewrite Hc; reflexivity|].
    apply Forall2_snoc; [exact Hf|]. rewrite rev_involutive.
    assert (Ht0 : trail es [fst e] [start] (snd e)).
    { unfold trail, joins. cbn. fold e. repeat split; try lia; try discriminate.
      - unfold touches. rewrite Nat.eqb_refl. reflexivity.
      - unfold other_end. rewrite Nat.eqb_refl. reflexivity. }
    pose proof (walk_trail _ _ _ _ _ _ _ _ _ _ Ht0 Hw) as Ht.
    apply trail_cycle.
    assert (Hhd : hd 0 vs' = fst e).
    { (* the walk only appends to the vertex list *)
      assert (Hpre : forall fuel used first current vs ix vs'' ix'' used'' c,
                 walk fuel es used first current vs ix = Some (vs'', ix'', used'', c) -> exists t, vs'' = vs ++ t).
      { clear. induction fuel as [|fuel IH]; intros used first current vs ix vs'' ix'' used'' c H; [discriminate|].
        cbn [walk] in H. destruct (current =? first); [inversion H; subst; exists []; rewrite app_nil_r; reflexivity|].
        destruct (next_edge es used current).
        - apply IH in H. destruct H as [t ->]. exists ([current] ++ t). rewrite app_assoc. reflexivity.
        - inversion H; subst. exists [current]. reflexivity. }
      destruct (Hpre _ _ _ _ _ _ _ _ _ _ Hw) as [t ->]. reflexivity. }
    rewrite Hhd. exact Ht.
Qed.

Lemma loops_fold_closed es : proper es -> forall starts s,
  cinv es s -> (forall x, In x starts -> x < length es) ->
  exists s', fold_left (loop_step es) starts (Some s) = Some s' /\ cinv es s'.
Proof.
  intros Hp. induction starts as [|a starts IH]; intros s Hs Hb; cbn [fold_left].
  - exists s. auto.
  - destruct (loop_step_closed es s a Hp Hs (Hb a (or_introl eq_refl))) as (s1 & E1 & I1).
    rewrite E1. apply IH; [exact I1 | intros x Hx; apply Hb; right; exact Hx].
Qed.

(* Main theorem: for proper boundary edges with even degree at every vertex, all loops are closed cycles,
   consecutive vertices joined by the consumed edges, which together are all boundary edges exactly once. *)
Theorem boundary_loops_closed_cycles (es : list edge) :
  proper es -> all_even es (repeat false (length es)) ->
  exists s, boundary_loops_full es = Some s /\ ls_closed s = true /\
            Permutation (concat (ls_edges s)) (seq 0 (length es)) /\
            Forall2 (fun lp ix => cycle_ok es (rev lp) ix) (ls_loops s) (ls_edges s).
Proof.
  intros Hp He. destruct (boundary_loops_exactly_once es) as (s & E & Hperm & _).
  unfold boundary_loops_full in *.
  assert (Hinit : cinv es (mkLS (repeat false (length es)) [] [] true)).
  { split; [|split; [exact He | split; [reflexivity | constructor]]].
    unfold linv; cbn. split; [apply repeat_length|]. split; [constructor|]. split; [intros i []|]. split; [|reflexivity].
    intros i. split; [|intros []]. intros H. exfalso.
    assert (nth i (repeat false (length es)) false = false).
    { clear. generalize (length es). intros n. revert i. induction n; destruct i; cbn; auto. }
    congruence. }
  destruct (loops_fold_closed es Hp (seq 0 (length es)) _ Hinit) as (s' & E' & (_ & _ & Hc & Hf)).
  { intros x Hx. apply in_seq in Hx. lia. }
  rewrite E in E'. inversion E'; subst s'. exists s. auto.
Qed.
