(* C08, continued: converting a rotation matrix to Euler angles (to_wpr) and back (from_euler) reproduces the matrix,
   in the generic branch (|sin ry| away from 1 by the gimbal band) and exactly at the two poles. *)
From Coq Require Import ZArith Reals Lra Lia List Bool Arith Psatz Nsatz.
From Flocq Require Import Core.Raux.
From EG Require Import Num.Num Num.RNum Num.Atan2 Lib.Vec Model.Types Model.Rigid Model.AlignParams.
From EG Require Import Proofs.VecR Proofs.Atan2R Proofs.AlignParams.
Import ListNotations.
Local Open Scope R_scope.

Lemma polar_scaled (x y C : R) : 0 < C -> x * x + y * y = C * C -> cos (atan2 y x) = x / C /\ sin (atan2 y x) = y / C.
Proof.
  intros HC H. destruct (atan2_polar y x) as [Hx Hy]. rewrite H in Hx, Hy. rewrite sqrt_square in Hx, Hy by lra.
  split; [apply Rmult_eq_reg_l with C; [|lra]; rewrite <- Hx; field; lra | apply Rmult_eq_reg_l with C; [|lra]; rewrite <- Hy; field; lra].
Qed.

(* a proper rotation: orthonormal rows and columns, third row = first x second *)
Definition is_rotation (a00 a01 a02 a10 a11 a12 a20 a21 a22 : R) : Prop :=
  a00 * a00 + a01 * a01 + a02 * a02 = 1 /\ a10 * a10 + a11 * a11 + a12 * a12 = 1 /\ a20 * a20 + a21 * a21 + a22 * a22 = 1 /\
  a00 * a10 + a01 * a11 + a02 * a12 = 0 /\ a00 * a20 + a01 * a21 + a02 * a22 = 0 /\ a10 * a20 + a11 * a21 + a12 * a22 = 0 /\
  a20 = a01 * a12 - a02 * a11 /\ a21 = a02 * a10 - a00 * a12 /\ a22 = a00 * a11 - a01 * a10.

Lemma rotation_columns a00 a01 a02 a10 a11 a12 a20 a21 a22 : is_rotation a00 a01 a02 a10 a11 a12 a20 a21 a22 ->
  a02 * a02 + a12 * a12 + a22 * a22 = 1 /\
  a10 * (1 - a02 * a02) = - a22 * a01 - a12 * a02 * a00 /\
  a11 * (1 - a02 * a02) = a22 * a00 - a12 * a02 * a01 /\
  a20 * (1 - a02 * a02) = a12 * a01 - a22 * a02 * a00 /\
  a21 * (1 - a02 * a02) = - a12 * a00 - a22 * a02 * a01.
Proof.
  intros (H0 & H1 & H2 & H01 & H02 & H12 & E0 & E1 & E2). subst a20 a21 a22. repeat split; nsatz.
Qed.

Definition m9' (a00 a01 a02 a10 a11 a12 a20 a21 a22 : R) : @M3 RNum := m9 a00 a01 a02 a10 a11 a12 a20 a21 a22.

(* generic branch: |sin ry| <= 1 - eps *)
Theorem wpr_roundtrip_generic (eps : R) a00 a01 a02 a10 a11 a12 a20 a21 a22 :
  0 < eps -> is_rotation a00 a01 a02 a10 a11 a12 a20 a21 a22 ->
  eps - 1 <= a02 <= 1 - eps ->
  rm_m (@from_rotation RNum eps (m9' a00 a01 a02 a10 a11 a12 a20 a21 a22)) = m9' a00 a01 a02 a10 a11 a12 a20 a21 a22.
Proof.
  intros He Hrot Hs. destruct (rotation_columns _ _ _ _ _ _ _ _ _ Hrot) as (Hc2 & E10 & E11 & E20 & E21).
  destruct Hrot as (H0 & _).
  unfold from_rotation. rewrite from_euler_m.
  unfold to_wpr, m9', m9. cbn [mrow fst snd x3 y3 z3 mk3]. rn.
  assert (B1 : Rlt_bool (1 - eps) a02 = false) by (apply Rltb_false; lra).
  assert (B2 : Rlt_bool a02 (eps - 1) = false) by (apply Rltb_false; lra).
  rewrite B1, B2. cbn [x3 y3 z3 mk3 fst snd].
  set (C := sqrt (1 - a02 * a02)).
  assert (HCC : C * C = 1 - a02 * a02) by (apply sqrt_sqrt; nra).
  assert (HC : 0 < C) by (apply sqrt_lt_R0; nra).
  destruct (polar_scaled a22 (- a12) C HC) as [Cx Sx]; [nra|].
  destruct (polar_scaled a00 (- a01) C HC) as [Cz Sz]; [nra|].
  assert (Hsy : sin (asin a02) = a02) by (apply sin_asin; lra).
  assert (Hcy : cos (asin a02) = C) by (rewrite cos_asin by lra; unfold C, Rsqr; reflexivity).
  unfold euler_closed, m9. rewrite Cx, Sx, Cz, Sz, Hsy, Hcy.
  assert (HC0 : C <> 0) by lra.
  assert (Hinv : forall u, u / C / C = u / (1 - a02 * a02)) by (intros u; rewrite <- HCC; field; exact HC0).
  assert (Hd : 1 - a02 * a02 <> 0) by nra.
  repeat (f_equal; try (field; exact HC0)).
  - apply Rmult_eq_reg_r with (C * C); [|nra]. transitivity (- (a22 * a01) - a12 * a02 * a00); [field; exact HC0|]. rewrite HCC. lra.
  - apply Rmult_eq_reg_r with (C * C); [|nra]. transitivity (a22 * a00 - a12 * a02 * a01); [field; exact HC0|]. rewrite HCC. lra.
  - apply Rmult_eq_reg_r with (C * C); [|nra]. transitivity (a12 * a01 - a22 * a02 * a00); [field; exact HC0|]. rewrite HCC. lra.
  - apply Rmult_eq_reg_r with (C * C); [|nra]. transitivity (- (a12 * a00) - a22 * a02 * a01); [field; exact HC0|]. rewrite HCC. lra.
Qed.

(* exactly at the poles *)
Theorem wpr_roundtrip_pole_pos (eps : R) a00 a01 a10 a11 a12 a20 a21 a22 :
  0 < eps -> is_rotation a00 a01 1 a10 a11 a12 a20 a21 a22 ->
  rm_m (@from_rotation RNum eps (m9' a00 a01 1 a10 a11 a12 a20 a21 a22)) = m9' a00 a01 1 a10 a11 a12 a20 a21 a22.
Proof.
  intros He Hrot. destruct (rotation_columns _ _ _ _ _ _ _ _ _ Hrot) as (Hc2 & _).
  destruct Hrot as (H0 & H1 & H2 & H01 & H02 & H12 & E0 & E1 & E2).
  assert (Z00 : a00 = 0) by nra. assert (Z01 : a01 = 0) by nra. assert (Z12 : a12 = 0) by nra. assert (Z22 : a22 = 0) by nra.
  subst a00 a01 a12 a22.
  unfold from_rotation. rewrite from_euler_m.
  unfold to_wpr, m9', m9. cbn [mrow fst snd x3 y3 z3 mk3]. rn.
  assert (B1 : Rlt_bool (1 - eps) 1 = true) by (apply Rltb_true; lra). rewrite B1. cbn [x3 y3 z3 mk3 fst snd].
  destruct (cos_sin_atan2 a11 a10) as [Cx Sx]; [nra|].
  unfold euler_closed, m9. rewrite Cx, Sx. rewrite cos_PI2, sin_PI2, cos_0, sin_0.
  repeat (f_equal; try lra).
Qed.

Theorem wpr_roundtrip_pole_neg (eps : R) a00 a01 a10 a11 a12 a20 a21 a22 :
  0 < eps < 1 -> is_rotation a00 a01 (-1) a10 a11 a12 a20 a21 a22 ->
  rm_m (@from_rotation RNum eps (m9' a00 a01 (-1) a10 a11 a12 a20 a21 a22)) = m9' a00 a01 (-1) a10 a11 a12 a20 a21 a22.
Proof.
  intros He Hrot. destruct (rotation_columns _ _ _ _ _ _ _ _ _ Hrot) as (Hc2 & _).
  destruct Hrot as (H0 & H1 & H2 & H01 & H02 & H12 & E0 & E1 & E2).
  assert (Z00 : a00 = 0) by nra. assert (Z01 : a01 = 0) by nra. assert (Z12 : a12 = 0) by nra. assert (Z22 : a22 = 0) by nra.
  subst a00 a01 a12 a22.
  unfold from_rotation. rewrite from_euler_m.
  unfold to_wpr, m9', m9. cbn [mrow fst snd x3 y3 z3 mk3]. rn.
  assert (B1 : Rlt_bool (1 - eps) (-1) = false) by (apply Rltb_false; lra).
  assert (B2 : Rlt_bool (-1) (eps - 1) = true) by (apply Rltb_true; lra). rewrite B1, B2. cbn [x3 y3 z3 mk3 fst snd].
  destruct (cos_sin_atan2 a11 a10) as [Cx Sx]; [nra|].
  unfold euler_closed, m9. replace (- PI / 2) with (- (PI / 2)) by field. rewrite !cos_neg, !sin_neg, Cx, Sx, cos_PI2, sin_PI2, cos_0, sin_0.
  repeat (f_equal; try lra).
Qed.
