(* C16: SurfaceDeviationSet reports true extremes after every history. *)
From Coq Require Import ZArith Reals Lra Lia List Bool.
From Flocq Require Import Core.Raux.
From EG Require Import Num.Num Num.RNum Model.DevSet.
Import ListNotations.
Local Open Scope R_scope.

Definition nonan (x : R) := false.
Notation Rsds := (@sds R).

Lemma pcmp_R a b :
  pcmp Rlt_bool nonan a b = Some (if Rlt_bool a b then OLt else if Rlt_bool b a then OGt else OEq).
Proof. unfold pcmp, nonan. cbn. destruct (Rlt_bool a b), (Rlt_bool b a); reflexivity. Qed.

Lemma max_by_aux_ok : forall l pre k a,
  nth_error pre k = Some a -> (forall v, In v pre -> v <= a) ->
  exists j m, max_by_aux Rlt_bool nonan (k, a) (length pre) l = Ok (j, m) /\
              nth_error (pre ++ l) j = Some m /\ forall v, In v (pre ++ l) -> v <= m.
Proof.
  induction l as [|x l IH]; intros pre k a Hk Hle.
  - exists k, a. rewrite app_nil_r. cbn. auto.
  - cbn [max_by_aux snd]. rewrite pcmp_R.
    assert (Hlen : length (pre ++ [x]) = S (length pre)) by (rewrite app_length; cbn; lia).
    replace (pre ++ x :: l) with ((pre ++ [x]) ++ l) by (rewrite <- app_assoc; reflexivity).
    destruct (Rlt_bool a x) eqn:E1; [| destruct (Rlt_bool x a) eqn:E2]; rbool; rewrite <- Hlen.
    + apply IH.
      * rewrite nth_error_app2 by lia. rewrite Nat.sub_diag. reflexivity.
      * intros v Hv. apply in_app_or in Hv. destruct Hv as [Hv | [-> | []]]; [apply Hle in Hv|]; lra.
    + apply IH.
      * rewrite nth_error_app1; [assumption | apply nth_error_Some; congruence].
      * intros v Hv. apply in_app_or in Hv. destruct Hv as [Hv | [-> | []]]; [apply Hle in Hv|]; lra.
    + apply IH.
      * rewrite nth_error_app2 by lia. rewrite Nat.sub_diag. reflexivity.
      * intros v Hv. apply in_app_or in Hv. destruct Hv as [Hv | [-> | []]]; [apply Hle in Hv|]; lra.
Qed.

Lemma min_by_aux_ok : forall l pre k a,
  nth_error pre k = Some a -> (forall v, In v pre -> a <= v) ->
  exists j m, min_by_aux Rlt_bool nonan (k, a) (length pre) l = Ok (j, m) /\
              nth_error (pre ++ l) j = Some m /\ forall v, In v (pre ++ l) -> m <= v.
Proof.
  induction l as [|x l IH]; intros pre k a Hk Hle.
  - exists k, a. rewrite app_nil_r. cbn. auto.
  - cbn [min_by_aux snd]. rewrite pcmp_R.
    assert (Hlen : length (pre ++ [x]) = S (length pre)) by (rewrite app_length; cbn; lia).
    replace (pre ++ x :: l) with ((pre ++ [x]) ++ l) by (rewrite <- app_assoc; reflexivity).
    destruct (Rlt_bool a x) eqn:E1; [| destruct (Rlt_bool x a) eqn:E2]; rbool; rewrite <- Hlen.
    + apply IH.
      * rewrite nth_error_app1; [assumption | apply nth_error_Some; congruence].
      * intros v Hv. apply in_app_or in Hv. destruct Hv as [Hv | [-> | []]]; [apply Hle in Hv|]; lra.
    + apply IH.
      * rewrite nth_error_app2 by lia. rewrite Nat.sub_diag. reflexivity.
      * intros v Hv. apply in_app_or in Hv. destruct Hv as [Hv | [-> | []]]; [apply Hle in Hv|]; lra.
    + apply IH.
      * rewrite nth_error_app1; [assumption | apply nth_error_Some; congruence].
      * intros v Hv. apply in_app_or in Hv. destruct Hv as [Hv | [-> | []]]; [apply Hle in Hv|]; lra.
Qed.

(* The invariant: the cached indices point at true extremes of everything held. *)
Definition sds_inv (s : Rsds) : Prop :=
  match vals s with
  | [] => maxi s = None /\ mini s = None
  | _ => exists i j m n, maxi s = Some i /\ mini s = Some j /\
          nth_error (vals s) i = Some m /\ nth_error (vals s) j = Some n /\
          forall v, In v (vals s) -> n <= v <= m
  end.

Lemma inv_intro vs i j m n :
  vs <> [] -> nth_error vs i = Some m -> nth_error vs j = Some n ->
  (forall v, In v vs -> n <= v <= m) -> sds_inv (mkSds vs (Some i) (Some j)).
Proof.
  intros Hne Hi Hj Hb. unfold sds_inv. cbn [vals maxi mini].
  destruct vs; [congruence|]. exists i, j, m, n. auto.
Qed.

Lemma sds_new_ok (l : list R) :
  exists s, sds_new Rlt_bool nonan l = Ok s /\ vals s = l /\ sds_inv s.
Proof.
  destruct l as [|x l].
  - eexists; cbn; repeat split.
  - unfold sds_new, max_index_of, min_index_of.
    destruct (max_by_aux_ok l [x] 0%nat x eq_refl) as (i & m & Hm & Hi & Hmax).
    { intros v [-> | []]; lra. }
    destruct (min_by_aux_ok l [x] 0%nat x eq_refl) as (j & n & Hn & Hj & Hmin).
    { intros v [-> | []]; lra. }
    cbn [length] in Hm, Hn. rewrite Hm, Hn. cbn.
    eexists; split; [reflexivity|]. split; [reflexivity|].
    apply inv_intro with m n; [discriminate | exact Hi | exact Hj |].
    intros v Hv. split; [apply Hmin | apply Hmax]; exact Hv.
Qed.

Lemma sds_push_ok (s : Rsds) (d : R) :
  sds_inv s -> exists s', sds_push Rlt_bool s d = Ok s' /\ vals s' = vals s ++ [d] /\ sds_inv s'.
Proof.
  unfold sds_inv, sds_push. destruct s as [vs mx mn]; cbn [vals maxi mini].
  destruct vs as [|x vs].
  - intros [-> ->]. cbn. eexists; split; [reflexivity|]. split; [reflexivity|].
    apply inv_intro with d d; [discriminate | reflexivity | reflexivity |].
    intros v [-> | []]; lra.
  - intros (i & j & m & n & -> & -> & Hi & Hj & Hb). rewrite Hi, Hj. cbn [res_bind].
    set (vs' := x :: vs) in *.
    eexists; split; [reflexivity|]. cbn [vals maxi mini]. split; [reflexivity|].
    assert (Hne : vs' ++ [d] <> []) by (subst vs'; discriminate).
    assert (Hnew : nth_error (vs' ++ [d]) (length vs') = Some d).
    { rewrite nth_error_app2 by lia. rewrite Nat.sub_diag. reflexivity. }
    assert (Hold : forall k v, nth_error vs' k = Some v -> nth_error (vs' ++ [d]) k = Some v).
    { intros k v Hk. rewrite nth_error_app1; [assumption | apply nth_error_Some; congruence]. }
    assert (Hmn : n <= m) by (apply (Hb m); eapply nth_error_In; eassumption).
    assert (Hcase : forall v, In v (vs' ++ [d]) -> In v vs' \/ v = d).
    { intros v Hv. apply in_app_or in Hv. destruct Hv as [Hv | [-> | []]]; auto. }
    destruct (Rlt_bool m d) eqn:E1; destruct (Rlt_bool d n) eqn:E2; rbool.
    + lra.
    + apply inv_intro with d n; auto.
      intros v Hv. destruct (Hcase v Hv) as [Hv' | ->]; [apply Hb in Hv'|]; lra.
    + apply inv_intro with m d; auto.
      intros v Hv. destruct (Hcase v Hv) as [Hv' | ->]; [apply Hb in Hv'|]; lra.
    + apply inv_intro with m n; auto.
      intros v Hv. destruct (Hcase v Hv) as [Hv' | ->]; [apply Hb in Hv'|]; lra.
Qed.

Lemma sds_pushes_ok : forall ds (s : Rsds),
  sds_inv s -> exists s', sds_pushes Rlt_bool s ds = Ok s' /\ vals s' = vals s ++ ds /\ sds_inv s'.
Proof.
  induction ds as [|d ds IH]; intros s Hs.
  - exists s. rewrite app_nil_r. cbn. auto.
  - destruct (sds_push_ok s d Hs) as (s1 & H1 & Hv1 & Hi1).
    destruct (IH s1 Hi1) as (s2 & H2 & Hv2 & Hi2).
    exists s2. cbn [sds_pushes]. rewrite H1. cbn [res_bind]. rewrite H2, Hv2, Hv1, <- app_assoc. auto.
Qed.

(* every history: construction from any vector, then any sequence of pushes *)
Theorem sds_run_ok (init ds : list R) :
  exists s, sds_run Rlt_bool nonan init ds = Ok s /\ vals s = init ++ ds /\ sds_inv s.
Proof.
  destruct (sds_new_ok init) as (s0 & H0 & Hv0 & Hi0).
  destruct (sds_pushes_ok ds s0 Hi0) as (s1 & H1 & Hv1 & Hi1).
  exists s1. unfold sds_run. rewrite H0. cbn [res_bind]. rewrite H1, Hv1, Hv0. auto.
Qed.

Theorem sds_extremes (s : Rsds) :
  sds_inv s ->
  match vals s with
  | [] => sds_max s = Ok None /\ sds_min s = Ok None
  | _ => exists m n, sds_max s = Ok (Some m) /\ sds_min s = Ok (Some n) /\
                     In m (vals s) /\ In n (vals s) /\ forall v, In v (vals s) -> n <= v <= m
  end.
Proof.
  unfold sds_inv, sds_max, sds_min, sds_get. destruct (vals s) eqn:E.
  - intros [-> ->]. auto.
  - intros (i & j & m & n & -> & -> & Hi & Hj & Hb). rewrite Hi, Hj.
    exists m, n. repeat split; auto; try (eapply nth_error_In; eassumption); apply Hb; assumption.
Qed.

(* symmetrical zone = twice the largest absolute deviation held *)
Theorem sds_zone_spec (s : Rsds) :
  sds_inv s ->
  exists z, @sds_zone RNum s = Ok z /\
    (vals s = [] -> z = 0) /\
    (forall v, In v (vals s) -> 2 * Rabs v <= z) /\
    (vals s <> [] -> exists v, In v (vals s) /\ z = 2 * Rabs v).
Proof.
  intros Hs. pose proof (sds_extremes s Hs) as He. unfold sds_zone. cbn [num RNum] in *.
  destruct (vals s) eqn:E.
  - exists 0. split; [reflexivity|]. split; [reflexivity|]. split.
    + intros v [].
    + intros Hc. exfalso. apply Hc. reflexivity.
  - destruct He as (m & n & -> & -> & Hm & Hn & Hb).
    eexists; split; [reflexivity|]. cbn [nmax nabs nmul RNum n2 nofZ].
    split; [discriminate|]. split.
    + intros v Hv. apply Hb in Hv. unfold n2; cbn.
      assert (Rabs v <= Rmax (Rabs m) (Rabs n)).
      { unfold Rabs. destruct (Rcase_abs v), (Rcase_abs m), (Rcase_abs n); unfold Rmax;
          destruct (Rle_dec _ _); lra. }
      lra.
    + intros _. unfold n2; cbn. unfold Rmax. destruct (Rle_dec (Rabs m) (Rabs n)).
      * exists n. split; [assumption | lra].
      * exists m. split; [assumption | lra].
Qed.
