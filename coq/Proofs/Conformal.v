(* C20: facts about engeom's arithmetic upstream of the sparse solver in boundary_first_flatten.
   1. the face angles are the geometric angles of the triangle (law of cosines), for every triangle in space;
   2. the assembled matrix is a graph Laplacian plus the regulariser: row i applied to x is
      eps x_i + sum over edges at i of w_e (x_i - x_j); so it is symmetric and constants are mapped to eps;
   3. on a planar, positively oriented triangle the cotangent contributions at a vertex add up to half the opposite edge
      turned by a right angle, and around a closed fan these cancel: the coordinate functions of a planar mesh are
      discrete-harmonic at every interior vertex - the reason a planar disk is reproduced by the flattening. *)
From Coq Require Import ZArith Reals Lra Lia List Psatz Bool Arith Permutation.
From Flocq Require Import Core.Raux.
From EG Require Import Num.Num Num.RNum Lib.Vec Proofs.VecR Model.Types Model.Curve Proofs.ResampleLen Model.Flatten Model.Conformal.
Import ListNotations.
Local Open Scope R_scope.

Notation P2 := (@V2 RNum).
Notation P3 := (@V3 RNum).

Ltac req := match goal with |- @eq _ ?L ?R' => change (@eq R L R') end.
Ltac rn := cbn [num nadd nsub nmul ndiv nneg nabs nsqrt nofZ nltb nleb neqb nmin nmax nlit nsin ncos nacos npi RNum] in *.

(* ---------------------------------------------------------------- 1. law of cosines *)

Lemma cos_rule (U W D : R) : 0 < U -> 0 < W -> (U * U + W * W - (U * U - 2 * D + W * W)) / (2 * U * W) = D / (U * W).
Proof. intros. field. lra. Qed.

Lemma norm3_sub_sq (u v : P3) : norm3 (sub3 v u) * norm3 (sub3 v u) = norm3 u * norm3 u - 2 * dot3 u v + norm3 v * norm3 v.
Proof. rewrite !norm3_sq. destruct u as [[ux uy] uz], v as [[vx vy] vz]. vec_unfold. ring. Qed.

Lemma range_from_cs (D U W : R) : 0 < U -> 0 < W -> D * D <= (U * U) * (W * W) -> -1 <= D / (U * W) <= 1.
Proof.
  intros HU HW Hc. assert (Hp : 0 < U * W) by (apply Rmult_lt_0_compat; assumption).
  assert (Hd : D / (U * W) * (U * W) = D) by (field; lra).
  assert (H2 : - (U * W) <= D <= U * W) by (split; nra).
  split; apply Rmult_le_reg_r with (U * W); try exact Hp; rewrite Hd; lra.
Qed.

Lemma cos_in_range3 (u v : P3) : 0 < norm3 u -> 0 < norm3 v -> -1 <= dot3 u v / (norm3 u * norm3 v) <= 1.
Proof.
  intros Hu Hv. apply range_from_cs; try assumption.
  rewrite !norm3_sq. destruct u as [[ux uy] uz], v as [[vx vy] vz]. vec_unfold. apply cauchy3.
Qed.

Lemma tri3 (a b c : P3) : dist3 a c <= dist3 a b + dist3 b c.
Proof. exact (ml_tri (@VO3 RNum) metric3 a b c). Qed.

(* the angle at the vertex [p] between the rays to [q] and [r] *)
Definition cos_at3 (p q r : P3) : R := dot3 (sub3 q p) (sub3 r p) / (dist3 q p * dist3 r p).

Lemma acos_of_cos_at (p q r : P3) (x : R) : 0 < dist3 q p -> 0 < dist3 r p ->
  x = cos_at3 p q r -> 0 <= acos x <= PI /\ cos (acos x) = cos_at3 p q r.
Proof.
  intros Hq Hr ->. unfold cos_at3, dist3 in *.
  pose proof (cos_in_range3 (sub3 q p) (sub3 r p) Hq Hr) as Hb. split; [apply acos_bound | apply cos_acos; exact Hb].
Qed.

Lemma sub3_sub3 (p q r : P3) : sub3 (sub3 r p) (sub3 q p) = sub3 r q.
Proof. destruct p as [[? ?] ?], q as [[? ?] ?], r as [[? ?] ?]. vec_unfold. repeat (apply f_equal2; try ring). Qed.

(* the general formula: with U = |q - p|, W = |r - p| and the third side |r - q| *)
Lemma cos_formula (p q r : P3) : 0 < dist3 q p -> 0 < dist3 r p ->
  (dist3 q p * dist3 q p + dist3 r p * dist3 r p - dist3 r q * dist3 r q) / (2 * dist3 q p * dist3 r p) = cos_at3 p q r.
Proof.
  intros Hq Hr. unfold cos_at3, dist3 in *.
  rewrite <- (sub3_sub3 p q r). rewrite (norm3_sub_sq (sub3 q p) (sub3 r p)). apply cos_rule; assumption.
Qed.

Theorem face_angles_geometric (p0 p1 p2 : P3) :
  let a := dist3 p1 p2 in let b := dist3 p2 p0 in let c := dist3 p0 p1 in
  0 < a -> 0 < b -> 0 < c ->
  let '(t0, t1, t2) := @face_angles RNum a b c in
  (0 <= t0 <= PI /\ cos t0 = cos_at3 p0 p1 p2) /\
  (0 <= t1 <= PI /\ cos t1 = cos_at3 p1 p2 p0) /\
  (0 <= t2 <= PI /\ cos t2 = cos_at3 p2 p0 p1).
Proof.
  intros a b c Ha Hb Hc. unfold face_angles. unfold ngtb. rn.
  assert (T1 : a <= b + c). { unfold a, b, c. pose proof (tri3 p1 p0 p2). rewrite (dist3_sym p1 p0), (dist3_sym p0 p2) in H. lra. }
  assert (T2 : b <= a + c). { unfold a, b, c. pose proof (tri3 p2 p1 p0). rewrite (dist3_sym p2 p1), (dist3_sym p1 p0) in H. lra. }
  assert (T3 : c <= a + b). { unfold a, b, c. pose proof (tri3 p0 p2 p1). rewrite (dist3_sym p0 p2), (dist3_sym p2 p1) in H. lra. }
  destruct (Rlt_bool (b + c) a) eqn:E1; [apply Rltb_true in E1; lra|].
  destruct (Rlt_bool (a + c) b) eqn:E2; [apply Rltb_true in E2; lra|].
  destruct (Rlt_bool (a + b) c) eqn:E3; [apply Rltb_true in E3; lra|].
  unfold n2. rn.
  assert (Ha' : 0 < dist3 p2 p1) by (rewrite dist3_sym; exact Ha).
  assert (Hb' : 0 < dist3 p0 p2) by (rewrite dist3_sym; exact Hb).
  assert (Hc' : 0 < dist3 p1 p0) by (rewrite dist3_sym; exact Hc).
  assert (Na : a <> 0) by lra. assert (Nb : b <> 0) by lra. assert (Nc : c <> 0) by lra.
  assert (A0 : (b * b + c * c - a * a) / (2 * b * c) = cos_at3 p0 p1 p2).
  { rewrite <- (cos_formula p0 p1 p2) by assumption. rewrite (dist3_sym p1 p0), (dist3_sym p2 p1). fold a b c. field. auto. }
  assert (A1 : (a * a + c * c - b * b) / (2 * a * c) = cos_at3 p1 p2 p0).
  { rewrite <- (cos_formula p1 p2 p0) by assumption. rewrite (dist3_sym p2 p1), (dist3_sym p0 p2). fold a b c. field. auto. }
  assert (A2 : (a * a + b * b - c * c) / (2 * a * b) = cos_at3 p2 p0 p1).
  { rewrite <- (cos_formula p2 p0 p1) by assumption. rewrite (dist3_sym p0 p2), (dist3_sym p1 p0). fold a b c. field. auto. }
  split; [|split].
  - apply (acos_of_cos_at p0 p1 p2); assumption.
  - apply (acos_of_cos_at p1 p2 p0); assumption.
  - apply (acos_of_cos_at p2 p0 p1); assumption.
Qed.

(* ---------------------------------------------------------------- 2. the assembled matrix is a graph Laplacian + eps *)

Notation Rl := (list R).

Lemma upd_at_length (l : Rl) i f : length (@upd_at RNum l i f) = length l.
Proof. revert i; induction l as [|x l IH]; intros [|i]; cbn; auto. Qed.

Lemma nth_add_at (l : Rl) i j v : (i < length l)%nat ->
  nth i (@add_at RNum l j v) 0 = nth i l 0 + (if Nat.eqb j i then v else 0).
Proof.
  unfold add_at. revert i j; induction l as [|x l IH]; intros i j Hi; [cbn in Hi; lia|].
  destruct i as [|i], j as [|j]; cbn [upd_at nth Nat.eqb]; rn; try lra.
  apply IH. cbn in Hi. lia.
Qed.

(* the weight an edge list puts on vertex i, and the Laplacian form *)
Fixpoint deg_sum (i : nat) (ews : list (nat * nat * R)) : R :=
  match ews with
  | [] => 0
  | ((a, b), v) :: r => (if Nat.eqb a i then v else 0) + (if Nat.eqb b i then v else 0) + deg_sum i r
  end.
Fixpoint edge_sum (i : nat) (x : nat -> R) (ews : list (nat * nat * R)) : R :=
  match ews with
  | [] => 0
  | ((a, b), v) :: r => (if Nat.eqb a i then v * (x i - x b) else 0) + (if Nat.eqb b i then v * (x i - x a) else 0) + edge_sum i x r
  end.

Lemma diag_fold (ews : list (nat * nat * R)) : forall (d : Rl) i, (i < length d)%nat ->
  nth i (fold_left (fun d ew => let '((i, j), v) := ew in @add_at RNum (@add_at RNum d i v) j v) ews d) 0 = nth i d 0 + deg_sum i ews.
Proof.
  induction ews as [|[[a b] v] r IH]; intros d i Hi; cbn [fold_left deg_sum]; [rn; lra|].
  rewrite IH by (unfold add_at; rewrite !upd_at_length; exact Hi).
  rewrite nth_add_at by (unfold add_at; rewrite upd_at_length; exact Hi). rewrite nth_add_at by exact Hi. lra.
Qed.

Lemma nth_repeat0 n i : nth i (repeat 0 n) 0 = 0.
Proof. revert i; induction n; intros [|i]; cbn; auto. Qed.

Lemma diagonals_spec n edges w i : (i < n)%nat -> nth i (@diagonals RNum n edges w) 0 = deg_sum i (combine edges w).
Proof.
  intros Hi. unfold diagonals. rewrite diag_fold by (rewrite repeat_length; exact Hi).
  unfold n0. rn. rewrite nth_repeat0. lra.
Qed.

Lemma row_apply_app t1 t2 x i : @row_apply RNum (t1 ++ t2) x i = @row_apply RNum t1 x i + @row_apply RNum t2 x i.
Proof.
  unfold row_apply. induction t1 as [|[[r c] v] t1 IH]; cbn [app fold_right]; [unfold n0; rn; lra|].
  destruct (Nat.eqb r i); rewrite IH; rn; lra.
Qed.

Lemma row_apply_cons r c v t x i :
  @row_apply RNum ((r, c, v) :: t) x i = if Nat.eqb r i then v * x c + @row_apply RNum t x i else @row_apply RNum t x i.
Proof. reflexivity. Qed.

Definition diag_trip (k : nat) (d : Rl) : list (nat * nat * R) :=
  map (fun iv => (fst iv, fst iv, snd iv + @lap_eps RNum)) (combine (seq k (length d)) d).
Lemma diag_trip_cons k y d : diag_trip k (y :: d) = (k, k, y + @lap_eps RNum) :: diag_trip (S k) d.
Proof. reflexivity. Qed.

Lemma row_diag_skip (d : Rl) x i : forall k, (i < k)%nat -> @row_apply RNum (diag_trip k d) x i = 0.
Proof.
  induction d as [|y d IH]; intros k Hk; [reflexivity|].
  rewrite diag_trip_cons, row_apply_cons. destruct (Nat.eqb k i) eqn:E; [apply Nat.eqb_eq in E; lia|]. apply IH. lia.
Qed.

Lemma row_diag (d : Rl) x i : forall k, (k <= i)%nat -> (i < k + length d)%nat ->
  @row_apply RNum (diag_trip k d) x i = (nth (i - k) d 0 + @lap_eps RNum) * x i.
Proof.
  induction d as [|y d IH]; intros k Hk Hi; [cbn in Hi; lia|].
  rewrite diag_trip_cons, row_apply_cons.
  destruct (Nat.eqb k i) eqn:E.
  - apply Nat.eqb_eq in E. subst k. replace (i - i)%nat with O by lia. cbn [nth].
    rewrite row_diag_skip by lia. lra.
  - apply Nat.eqb_neq in E. rewrite (IH (S k)) by (cbn in Hi; lia).
    replace (i - k)%nat with (S (i - S k)) by lia. reflexivity.
Qed.

Lemma row_diag0 (d : Rl) n x i : length d = n -> (i < n)%nat ->
  @row_apply RNum (map (fun iv => (fst iv, fst iv, snd iv + @lap_eps RNum)) (combine (seq 0 n) d)) x i = (nth i d 0 + @lap_eps RNum) * x i.
Proof. intros <- Hi. pose proof (row_diag d x i 0) as H. unfold diag_trip in H. rewrite H by lia. rewrite Nat.sub_0_r. reflexivity. Qed.

Lemma row_offdiag (ews : list (nat * nat * R)) x i :
  @row_apply RNum (flat_map (fun ew => let '((i, j), v) := ew in [(i, j, - v); (j, i, - v)]) ews) x i
  = edge_sum i x ews - deg_sum i ews * x i.
Proof.
  unfold row_apply. induction ews as [|[[a b] v] r IH]; cbn [flat_map app fold_right edge_sum deg_sum]; [unfold n0; rn; lra|].
  rewrite IH. rn. destruct (Nat.eqb a i), (Nat.eqb b i); lra.
Qed.

Lemma diag_fold_length (ews : list (nat * nat * R)) : forall d : Rl,
  length (fold_left (fun d ew => let '((i, j), v) := ew in @add_at RNum (@add_at RNum d i v) j v) ews d) = length d.
Proof. induction ews as [|[[a b] v] r IH]; intros d; cbn [fold_left]; [reflexivity|]. rewrite IH. unfold add_at. rewrite !upd_at_length. reflexivity. Qed.
Lemma diagonals_length n edges (w : Rl) : length (@diagonals RNum n edges w) = n.
Proof. unfold diagonals. rewrite diag_fold_length. apply repeat_length. Qed.

(* row i of the assembled matrix, applied to any x *)
Theorem laplacian_form n edges (w : Rl) x i : (i < n)%nat ->
  @row_apply RNum (@triplets RNum n edges w) x i = @lap_eps RNum * x i + edge_sum i x (combine edges w).
Proof.
  intros Hi. unfold triplets. rewrite row_apply_app, row_offdiag.
  assert (Hl := diagonals_length n edges w).
  match goal with |- ?A + ?B = _ =>
    assert (E : A = (nth i (@diagonals RNum n edges w) 0 + @lap_eps RNum) * x i) by (apply (row_diag0 _ n x i Hl Hi)); rewrite E end.
  rewrite diagonals_spec by exact Hi. rn. lra.
Qed.

(* constants are mapped to eps: every row sums to the regulariser *)
Corollary laplacian_rows_sum n edges (w : Rl) i : (i < n)%nat ->
  @row_apply RNum (@triplets RNum n edges w) (fun _ => 1) i = @lap_eps RNum.
Proof.
  intros Hi. rewrite laplacian_form by exact Hi.
  assert (Z : forall ews, edge_sum i (fun _ => 1) ews = 0).
  { induction ews as [|[[a b] v] r IH]; cbn [edge_sum]; [reflexivity|]. rewrite IH. destruct (Nat.eqb a i), (Nat.eqb b i); lra. }
  rewrite Z. lra.
Qed.

(* symmetric: every off-diagonal entry appears mirrored with the same value *)
Theorem laplacian_symmetric n edges (w : Rl) r c v : r <> c ->
  In (r, c, v) (@triplets RNum n edges w) -> In (c, r, v) (@triplets RNum n edges w).
Proof.
  intros Hne Hin. unfold triplets in *. apply in_app_or in Hin. apply in_or_app. destruct Hin as [Hin | Hin].
  - exfalso. apply in_map_iff in Hin. destruct Hin as [[k d] [E _]]. cbn [fst snd] in E. inversion E; subst. apply Hne; reflexivity.
  - right. apply in_flat_map in Hin. destruct Hin as [[[a b] u] [Hew Hin]]. apply in_flat_map. exists ((a, b), u). split; [exact Hew|].
    cbn in Hin |- *. destruct Hin as [E | [E | []]]; inversion E; subst; auto.
Qed.

(* ---------------------------------------------------------------- 3. planar meshes: coordinates are discrete-harmonic *)

Lemma cot_acos (x : R) : -1 < x < 1 -> @cot RNum (acos x) = x / sqrt (1 - x * x).
Proof.
  intros Hx. unfold cot, ntan, n1. rn.
  rewrite cos_acos by lra. rewrite sin_acos by lra. unfold Rsqr.
  assert (Hs : 0 < sqrt (1 - x * x)) by (apply sqrt_lt_R0; nra).
  destruct (Req_dec x 0) as [-> | Hn].
  - unfold Rdiv. rewrite Rinv_0. rewrite !Rmult_0_r, Rinv_0. lra.
  - req. field. split; lra.
Qed.

(* D = u.v, C = u x v > 0, U = |u|, W = |v| with the Lagrange identity D^2 + C^2 = U^2 W^2 *)
Lemma cot_from_dot_cross (U W D C : R) : 0 < U -> 0 < W -> 0 < C -> D * D + C * C = (U * W) * (U * W) ->
  @cot RNum (acos (D / (U * W))) = D / C.
Proof.
  intros HU HW HC HL. assert (HP : 0 < U * W) by (apply Rmult_lt_0_compat; assumption).
  set (x := D / (U * W)).
  assert (Hx2 : 1 - x * x = (C / (U * W)) * (C / (U * W))).
  { unfold x. apply Rmult_eq_reg_r with ((U * W) * (U * W)); [| nra].
    replace ((1 - D / (U * W) * (D / (U * W))) * (U * W * (U * W))) with ((U * W) * (U * W) - D * D) by (field; lra).
    replace (C / (U * W) * (C / (U * W)) * (U * W * (U * W))) with (C * C) by (field; lra). lra. }
  assert (Hcp : 0 < C / (U * W)) by (apply Rdiv_lt_0_compat; assumption).
  assert (Hx : -1 < x < 1) by (split; nra).
  rewrite cot_acos by exact Hx. rewrite Hx2, sqrt_square by lra. unfold x. req. field. split; lra.
Qed.

Lemma norm2_sub_sq (u v : P2) : norm2 (sub2 v u) * norm2 (sub2 v u) = norm2 u * norm2 u - 2 * dot2 u v + norm2 v * norm2 v.
Proof. rewrite !norm2_sq. destruct u as [ux uy], v as [vx vy]. vec_unfold. ring. Qed.
Lemma lagrange2 (u v : P2) : dot2 u v * dot2 u v + cross2 u v * cross2 u v = (norm2 u * norm2 v) * (norm2 u * norm2 v).
Proof.
  replace ((norm2 u * norm2 v) * (norm2 u * norm2 v)) with ((norm2 u * norm2 u) * (norm2 v * norm2 v)) by ring.
  rewrite !norm2_sq. destruct u as [ux uy], v as [vx vy]. vec_unfold. ring.
Qed.
Lemma cross_pos_norm (u v : P2) : 0 < cross2 u v -> 0 < norm2 u /\ 0 < norm2 v.
Proof.
  intros H. pose proof (lagrange2 u v) as L. pose proof (norm2_nonneg u). pose proof (norm2_nonneg v).
  assert (0 < (norm2 u * norm2 v) * (norm2 u * norm2 v)) by nra.
  split; [destruct (Req_dec (norm2 u) 0) as [E|E] | destruct (Req_dec (norm2 v) 0) as [E|E]]; try lra; rewrite E in *; lra.
Qed.

(* the cotangent of the angle between u and v (u x v > 0), computed from the three lengths as calc_face_angles does *)
Lemma cot_of_lengths (u v : P2) : 0 < cross2 u v ->
  @cot RNum (acos ((norm2 u * norm2 u + norm2 v * norm2 v - norm2 (sub2 v u) * norm2 (sub2 v u)) / (2 * norm2 u * norm2 v)))
  = dot2 u v / cross2 u v.
Proof.
  intros Hc. destruct (cross_pos_norm u v Hc) as [Hu Hv].
  rewrite norm2_sub_sq. rewrite cos_rule by assumption.
  apply cot_from_dot_cross; try assumption. apply lagrange2.
Qed.

Definition J2 (v : P2) : P2 := (- snd v, fst v).          (* a quarter turn counter-clockwise *)

(* what one face (p0, p1, p2) contributes to row p0 of the matrix applied to the positions: half the sum over the two
   edges at p0 of the cotangent of the opposite angle times (p0 - other end) *)
Definition face_contrib (p0 p1 p2 : P2) : P2 :=
  let '(t0, t1, t2) := @face_angles RNum (dist2 p1 p2) (dist2 p2 p0) (dist2 p0 p1) in
  scale2 (add2 (scale2 (sub2 p0 p2) (@cot RNum t1)) (scale2 (sub2 p0 p1) (@cot RNum t2))) (/ 2).

Lemma norm2_sub_sym (a b : P2) : norm2 (sub2 a b) = norm2 (sub2 b a).
Proof. exact (dist2_sym a b). Qed.
Lemma tri2 (a b c : P2) : dist2 a c <= dist2 a b + dist2 b c.
Proof. exact (ml_tri (@VO2 RNum) metric2 a b c). Qed.

Lemma sub2_sub2 (p q r : P2) : sub2 (sub2 r p) (sub2 q p) = sub2 r q.
Proof. destruct p, q, r. vec_unfold. apply f_equal2; ring. Qed.

Theorem face_contrib_planar (p0 p1 p2 : P2) : 0 < area2 p0 p1 p2 ->
  face_contrib p0 p1 p2 = scale2 (J2 (sub2 p2 p1)) (/ 2).
Proof.
  intros HA. unfold face_contrib, face_angles, ngtb. rn.
  set (a := dist2 p1 p2). set (b := dist2 p2 p0). set (c := dist2 p0 p1).
  assert (T1 : a <= b + c). { unfold a, b, c. pose proof (tri2 p1 p0 p2) as H. rewrite (dist2_sym p1 p0), (dist2_sym p0 p2) in H. lra. }
  assert (T2 : b <= a + c). { unfold a, b, c. pose proof (tri2 p2 p1 p0) as H. rewrite (dist2_sym p2 p1), (dist2_sym p1 p0) in H. lra. }
  assert (T3 : c <= a + b). { unfold a, b, c. pose proof (tri2 p0 p2 p1) as H. rewrite (dist2_sym p0 p2), (dist2_sym p2 p1) in H. lra. }
  destruct (Rlt_bool (b + c) a) eqn:E1; [apply Rltb_true in E1; lra|].
  destruct (Rlt_bool (a + c) b) eqn:E2; [apply Rltb_true in E2; lra|].
  destruct (Rlt_bool (a + b) c) eqn:E3; [apply Rltb_true in E3; lra|].
  unfold n2. rn.
  (* angle at p1: u = p2 - p1 (length a), v = p0 - p1 (length c), third side b; u x v = area2 *)
  assert (C1 : cross2 (sub2 p2 p1) (sub2 p0 p1) = area2 p0 p1 p2) by (destruct p0 as [x0 y0], p1 as [x1 y1], p2 as [x2 y2]; unfold area2; vec_unfold; req; ring).
  assert (C2 : cross2 (sub2 p0 p2) (sub2 p1 p2) = area2 p0 p1 p2) by (destruct p0 as [x0 y0], p1 as [x1 y1], p2 as [x2 y2]; unfold area2; vec_unfold; req; ring).
  assert (K1 : @cot RNum (acos ((a * a + c * c - b * b) / (2 * a * c))) = dot2 (sub2 p2 p1) (sub2 p0 p1) / area2 p0 p1 p2).
  { rewrite <- C1. rewrite <- (cot_of_lengths (sub2 p2 p1) (sub2 p0 p1)) by (rewrite C1; exact HA).
    rewrite sub2_sub2. unfold a, b, c, dist2. rewrite (norm2_sub_sym p1 p2), (norm2_sub_sym p2 p0). reflexivity. }
  assert (K2 : @cot RNum (acos ((a * a + b * b - c * c) / (2 * a * b))) = dot2 (sub2 p0 p2) (sub2 p1 p2) / area2 p0 p1 p2).
  { replace ((a * a + b * b - c * c) / (2 * a * b)) with ((b * b + a * a - c * c) / (2 * b * a)) by (f_equal; ring).
    rewrite <- C2. rewrite <- (cot_of_lengths (sub2 p0 p2) (sub2 p1 p2)) by (rewrite C2; exact HA).
    rewrite sub2_sub2. unfold a, b, c, dist2. rewrite (norm2_sub_sym p2 p0), (norm2_sub_sym p0 p1). reflexivity. }
  rewrite K1, K2. destruct p0 as [x0 y0], p1 as [x1 y1], p2 as [x2 y2]. unfold area2 in *. unfold J2. vec_unfold.
  apply f_equal2; field; lra.
Qed.

(* around a vertex c: the faces (c, q_t, q_t+1) of its fan, from [prev] through the list to [first] *)
Fixpoint path_contrib (c prev : P2) (l : list P2) (first : P2) : P2 :=
  match l with
  | [] => face_contrib c prev first
  | q :: l' => add2 (face_contrib c prev q) (path_contrib c q l' first)
  end.
Fixpoint path_pos (c prev : P2) (l : list P2) (first : P2) : Prop :=
  match l with
  | [] => 0 < area2 c prev first
  | q :: l' => 0 < area2 c prev q /\ path_pos c q l' first
  end.

Lemma path_telescopes c : forall l prev first, path_pos c prev l first ->
  path_contrib c prev l first = scale2 (J2 (sub2 first prev)) (/ 2).
Proof.
  induction l as [|q l IH]; intros prev first H; cbn [path_contrib path_pos] in *.
  - apply face_contrib_planar. exact H.
  - destruct H as [H1 H2]. rewrite (face_contrib_planar c prev q H1), (IH q first H2).
    destruct prev as [px py], q as [qx qy], first as [fx fy]. unfold J2. vec_unfold. apply f_equal2; req; field.
Qed.

(* an interior vertex: its fan closes up, every face positively oriented in the plane; the cotangent contributions cancel,
   i.e. row c of the matrix applied to the x (or the y) coordinates is eps * x_c: the layout's coordinate functions are
   discrete-harmonic at c *)
Theorem closed_fan_harmonic (c q0 : P2) (qs : list P2) : path_pos c q0 qs q0 -> path_contrib c q0 qs q0 = (0, 0).
Proof.
  intros H. rewrite (path_telescopes c qs q0 q0 H). destruct q0 as [x y]. unfold J2. vec_unfold. apply f_equal2; req; field.
Qed.

(* non-vacuity: a hexagonal fan around the origin *)
Example hexagon_fan :
  path_pos (0, 0) (2, 0) [(1, 2); (-1, 2); (-2, 0); (-1, -2); (1, -2)] (2, 0).
Proof. cbn [path_pos]. unfold area2. vec_unfold. repeat split; lra. Qed.

(* ---------------------------------------------------------------- 4. the assembly sums the face contributions *)

(* sum over the entries of a list, weighted by a function of the position *)
Fixpoint idx_sum (g : nat -> R) (vals : Rl) (k : nat) : R :=
  match vals with [] => 0 | v :: r => v * g k + idx_sum g r (S k) end.

Lemma idx_sum_shift g : forall vals k, idx_sum g vals (S k) = idx_sum (fun e => g (S e)) vals k.
Proof. induction vals as [|v r IH]; intros k; cbn [idx_sum]; [reflexivity|]. rewrite IH. reflexivity. Qed.

Lemma idx_sum_add_at g : forall (vals : Rl) e c k, (e < length vals)%nat ->
  idx_sum g (@add_at RNum vals e c) k = idx_sum g vals k + c * g (k + e)%nat.
Proof.
  unfold add_at. induction vals as [|v r IH]; intros e c k He; [cbn in He; lia|].
  destruct e as [|e]; cbn [upd_at idx_sum]; rn.
  - rewrite Nat.add_0_r. lra.
  - rewrite IH by (cbn in He; lia). replace (S k + e)%nat with (k + S e)%nat by lia. lra.
Qed.

Lemma idx_sum_scale g s : forall (vals : Rl) k, idx_sum g (map (fun v => v * s) vals) k = s * idx_sum g vals k.
Proof. induction vals as [|v r IH]; intros k; cbn [map idx_sum]; [lra|]. rewrite IH. lra. Qed.

Lemma idx_sum_zero g n : forall k, idx_sum g (repeat 0 n) k = 0.
Proof. induction n as [|n IH]; intros k; cbn [repeat idx_sum]; [reflexivity|]. rewrite IH. lra. Qed.

(* the symmetric edge function of row i *)
Definition hfun (i : nat) (x : nat -> R) (e : nat * nat) : R :=
  (if Nat.eqb (fst e) i then x i - x (snd e) else 0) + (if Nat.eqb (snd e) i then x i - x (fst e) else 0).

Lemma hfun_key i x a b : hfun i x (Nat.min a b, Nat.max a b) = hfun i x (a, b).
Proof.
  unfold hfun. cbn [fst snd]. destruct (Nat.le_ge_cases a b) as [H | H].
  - rewrite Nat.min_l, Nat.max_r by exact H. reflexivity.
  - rewrite Nat.min_r, Nat.max_l by exact H. lra.
Qed.

Lemma edge_sum_idx i x : forall (edges : list (nat * nat)) (w : Rl), length w = length edges ->
  edge_sum i x (combine edges w) = idx_sum (fun e => hfun i x (nth e edges (0%nat, 0%nat))) w 0.
Proof.
  induction edges as [|[a b] edges IH]; intros [|v w] Hl; cbn in Hl; try lia; cbn [combine edge_sum idx_sum]; [reflexivity|].
  rewrite idx_sum_shift. cbn [nth]. rewrite <- IH by lia. unfold hfun. cbn [fst snd].
  destruct (Nat.eqb a i), (Nat.eqb b i); lra.
Qed.

(* one face: its three (edge index, cotangent) entries *)
Definition face_entries (fa : (nat * nat * nat) * (R * R * R)) : list (nat * R) :=
  let '((e0, e1, e2), (a0, a1, a2)) := fa in [(e0, @cot RNum a0); (e1, @cot RNum a1); (e2, @cot RNum a2)].

Lemma scatter_sum g : forall (l : list (nat * R)) (vals : Rl), Forall (fun ec => (fst ec < length vals)%nat) l ->
  idx_sum g (fold_left (fun vals ec => @add_at RNum vals (fst ec) (snd ec)) l vals) 0
  = idx_sum g vals 0 + fold_right (fun ec acc => snd ec * g (fst ec) + acc) 0 l.
Proof.
  induction l as [|[e c] l IH]; intros vals HF; cbn [fold_left fold_right fst snd]; [lra|].
  inversion HF as [|? ? He HF']; subst. cbn [fst] in He.
  rewrite IH by (unfold add_at; rewrite upd_at_length; exact HF').
  rewrite idx_sum_add_at by exact He. cbn [Nat.add]. lra.
Qed.

Lemma edge_weights_flat n (fes : list (nat * nat * nat)) (angs : list (R * R * R)) :
  @edge_weights RNum n fes angs
  = map (fun v => v * @half RNum) (fold_left (fun vals ec => @add_at RNum vals (fst ec) (snd ec)) (flat_map face_entries (combine fes angs)) (repeat 0 n)).
Proof.
  unfold edge_weights. f_equal. unfold n0. rn. generalize (repeat 0 n). generalize (combine fes angs).
  induction l as [|[[[e0 e1] e2] [[a0 a1] a2]] l IH]; intros vals; cbn [fold_left flat_map app face_entries fst snd]; [reflexivity|].
  rewrite IH. reflexivity.
Qed.

Lemma half_val : @half RNum = / 2.
Proof. unfold half. cbn [nlit RNum Rlit]. cbn. lra. Qed.

(* the faces' directed edges, as naive_edges lists them: edge k is opposite vertex k *)
Definition dedge (f : nat * nat * nat) (k : nat) : nat * nat :=
  let '(v0, v1, v2) := f in match k with O => (v1, v2) | S O => (v2, v0) | _ => (v0, v1) end.
Definition key (e : nat * nat) : nat * nat := (Nat.min (fst e) (snd e), Nat.max (fst e) (snd e)).

(* the edge table is consistent with the faces: entry k of a face's edge triple indexes the undirected edge opposite vertex k
   (what identify_edges produces - Model/MeshTopo, C12) *)
Definition table_ok (edges : list (nat * nat)) (f : nat * nat * nat) (fe : nat * nat * nat) : Prop :=
  let '(e0, e1, e2) := fe in
  (e0 < length edges)%nat /\ (e1 < length edges)%nat /\ (e2 < length edges)%nat /\
  nth e0 edges (0%nat, 0%nat) = key (dedge f 0) /\ nth e1 edges (0%nat, 0%nat) = key (dedge f 1) /\ nth e2 edges (0%nat, 0%nat) = key (dedge f 2).

(* what face f with angles (t0, t1, t2) contributes to row i *)
Definition face_row (i : nat) (x : nat -> R) (f : nat * nat * nat) (t : R * R * R) : R :=
  let '(t0, t1, t2) := t in
  / 2 * (@cot RNum t0 * hfun i x (dedge f 0) + @cot RNum t1 * hfun i x (dedge f 1) + @cot RNum t2 * hfun i x (dedge f 2)).

Theorem assembly_is_face_sum (edges : list (nat * nat)) (faces fes : list (nat * nat * nat)) (angs : list (R * R * R)) (x : nat -> R) (i n : nat) :
  (i < n)%nat -> length fes = length faces -> length angs = length faces ->
  Forall2 (table_ok edges) faces fes ->
  @row_apply RNum (@triplets RNum n edges (@edge_weights RNum (length edges) fes angs)) x i
  = @lap_eps RNum * x i + fold_right (fun ft acc => face_row i x (fst ft) (snd ft) + acc) 0 (combine faces angs).
Proof.
  intros Hi Hl1 Hl2 HT. rewrite laplacian_form by exact Hi. f_equal.
  assert (Hlen : length (@edge_weights RNum (length edges) fes angs) = length edges).
  { rewrite edge_weights_flat, map_length.
    assert (G : forall (l : list (nat * R)) (vals : Rl), length (fold_left (fun vals ec => @add_at RNum vals (fst ec) (snd ec)) l vals) = length vals).
    { induction l as [|ec l IH]; intros vals; cbn [fold_left]; [reflexivity|]. rewrite IH. unfold add_at. apply upd_at_length. }
    rewrite G. apply repeat_length. }
  rewrite edge_sum_idx by exact Hlen. rewrite edge_weights_flat, idx_sum_scale, half_val.
  set (g := fun e => hfun i x (nth e edges (0%nat, 0%nat))).
  assert (HF : Forall (fun ec : nat * R => (fst ec < length (repeat 0%R (length edges)))%nat) (flat_map face_entries (combine fes angs))).
  { rewrite repeat_length. clear - HT Hl1 Hl2. revert fes angs Hl1 Hl2 HT.
    induction faces as [|f faces IH]; intros [|fe fes] [|t angs] Hl1 Hl2 HT; cbn in Hl1, Hl2; try lia; cbn [combine flat_map]; [constructor|].
    inversion HT as [|? ? ? ? H1 HT']; subst. destruct fe as [[e0 e1] e2], t as [[t0 t1] t2]. cbn [face_entries app].
    destruct H1 as (A0 & A1 & A2 & _). repeat (constructor; [cbn [fst]; assumption|]). apply IH; auto. }
  rewrite scatter_sum by exact HF. rewrite idx_sum_zero, Rplus_0_l.
  clear HF Hlen. revert fes angs Hl1 Hl2 HT.
  induction faces as [|f faces IH]; intros [|fe fes] [|t angs] Hl1 Hl2 HT; cbn in Hl1, Hl2; try lia; cbn [combine flat_map fold_right]; [lra|].
  inversion HT as [|? ? ? ? H1 HT']; subst. destruct fe as [[e0 e1] e2], t as [[t0 t1] t2]. cbn [face_entries app fold_right fst snd].
  specialize (IH fes angs ltac:(lia) ltac:(lia) HT').
  destruct H1 as (_ & _ & _ & K0 & K1 & K2). unfold face_row, g. rewrite K0, K1, K2.
  unfold key. rewrite !hfun_key. rewrite <- !surjective_pairing.
  match goal with |- / 2 * (?a + (?b + (?c + ?r))) = _ => replace (/ 2 * (a + (b + (c + r)))) with (/ 2 * (a + b + c) + / 2 * r) by ring end.
  f_equal. exact IH.
Qed.

(* ---------------------------------------------------------------- 5. a planar mesh: rows of interior vertices annihilate the coordinates *)


Section Planar.
  Variable p : nat -> P2.                        (* positions of the vertices in the plane of the mesh *)
  Definition angles_of (f : nat * nat * nat) : R * R * R :=
    let '(v0, v1, v2) := f in @face_angles RNum (dist2 (p v1) (p v2)) (dist2 (p v2) (p v0)) (dist2 (p v0) (p v1)).
  Definition face_sum (i : nat) (x : nat -> R) (faces : list (nat * nat * nat)) : R :=
    fold_right (fun f acc => face_row i x f (angles_of f) + acc) 0 faces.

  Lemma face_sum_combine i x faces :
    fold_right (fun ft acc => face_row i x (fst ft) (snd ft) + acc) 0 (combine faces (map angles_of faces)) = face_sum i x faces.
  Proof. induction faces as [|f faces IH]; cbn [map combine fold_right face_sum fst snd]; [reflexivity|]. rewrite IH. reflexivity. Qed.

  Lemma face_sum_app i x l1 l2 : face_sum i x (l1 ++ l2) = face_sum i x l1 + face_sum i x l2.
  Proof. unfold face_sum. induction l1 as [|f l1 IH]; cbn [app fold_right]; [lra|]. rewrite IH. lra. Qed.
  Lemma face_sum_perm i x l1 l2 : Permutation l1 l2 -> face_sum i x l1 = face_sum i x l2.
  Proof. unfold face_sum. induction 1; cbn [fold_right]; lra. Qed.

  (* a face that does not contain i contributes nothing *)
  Lemma face_row_absent i x v0 v1 v2 t : v0 <> i -> v1 <> i -> v2 <> i -> face_row i x (v0, v1, v2) t = 0.
  Proof.
    intros H0 H1 H2. destruct t as [[t0 t1] t2]. unfold face_row, hfun, dedge. cbn [fst snd].
    apply Nat.eqb_neq in H0, H1, H2. rewrite H0, H1, H2. lra.
  Qed.

  (* a positively oriented face with i first contributes the x (or y) component of half the turned opposite edge *)
  Lemma face_row_first_x i j k : j <> i -> k <> i -> 0 < area2 (p i) (p j) (p k) ->
    face_row i (fun v => fst (p v)) (i, j, k) (angles_of (i, j, k)) = fst (scale2 (J2 (sub2 (p k) (p j))) (/ 2)).
  Proof.
    intros Hj Hk HA. rewrite <- (face_contrib_planar (p i) (p j) (p k) HA).
    unfold face_contrib, angles_of. destruct (@face_angles RNum (dist2 (p j) (p k)) (dist2 (p k) (p i)) (dist2 (p i) (p j))) as [[t0 t1] t2].
    unfold face_row, hfun, dedge. cbn [fst snd]. apply Nat.eqb_neq in Hj, Hk. rewrite Hj, Hk, Nat.eqb_refl.
    destruct (p i) as [xi yi], (p j) as [xj yj], (p k) as [xk yk]. vec_unfold. lra.
  Qed.
  Lemma face_row_first_y i j k : j <> i -> k <> i -> 0 < area2 (p i) (p j) (p k) ->
    face_row i (fun v => snd (p v)) (i, j, k) (angles_of (i, j, k)) = snd (scale2 (J2 (sub2 (p k) (p j))) (/ 2)).
  Proof.
    intros Hj Hk HA. rewrite <- (face_contrib_planar (p i) (p j) (p k) HA).
    unfold face_contrib, angles_of. destruct (@face_angles RNum (dist2 (p j) (p k)) (dist2 (p k) (p i)) (dist2 (p i) (p j))) as [[t0 t1] t2].
    unfold face_row, hfun, dedge. cbn [fst snd]. apply Nat.eqb_neq in Hj, Hk. rewrite Hj, Hk, Nat.eqb_refl.
    destruct (p i) as [xi yi], (p j) as [xj yj], (p k) as [xk yk]. vec_unfold. lra.
  Qed.

  (* the fan of i: faces (i, q_t, q_t+1) from [prev] through the list back to [first], all positively oriented *)
  Fixpoint fan_faces (i prev : nat) (l : list nat) (first : nat) : list (nat * nat * nat) :=
    match l with [] => [(i, prev, first)] | q :: l' => (i, prev, q) :: fan_faces i q l' first end.
  Fixpoint fan_ok (i prev : nat) (l : list nat) (first : nat) : Prop :=
    match l with
    | [] => prev <> i /\ first <> i /\ 0 < area2 (p i) (p prev) (p first)
    | q :: l' => prev <> i /\ q <> i /\ 0 < area2 (p i) (p prev) (p q) /\ fan_ok i q l' first
    end.

  Lemma fan_sum_x i : forall l prev first, fan_ok i prev l first ->
    face_sum i (fun v => fst (p v)) (fan_faces i prev l first) = fst (scale2 (J2 (sub2 (p first) (p prev))) (/ 2)).
  Proof.
    induction l as [|q l IH]; intros prev first H; cbn [fan_faces fan_ok] in *; unfold face_sum; cbn [fold_right].
    - destruct H as (H1 & H2 & H3). rewrite face_row_first_x by assumption. lra.
    - destruct H as (H1 & H2 & H3 & H4). rewrite face_row_first_x by assumption. fold (face_sum i (fun v => fst (p v)) (fan_faces i q l first)).
      rewrite (IH q first H4). destruct (p prev), (p q), (p first). unfold J2. vec_unfold. lra.
  Qed.
  Lemma fan_sum_y i : forall l prev first, fan_ok i prev l first ->
    face_sum i (fun v => snd (p v)) (fan_faces i prev l first) = snd (scale2 (J2 (sub2 (p first) (p prev))) (/ 2)).
  Proof.
    induction l as [|q l IH]; intros prev first H; cbn [fan_faces fan_ok] in *; unfold face_sum; cbn [fold_right].
    - destruct H as (H1 & H2 & H3). rewrite face_row_first_y by assumption. lra.
    - destruct H as (H1 & H2 & H3 & H4). rewrite face_row_first_y by assumption. fold (face_sum i (fun v => snd (p v)) (fan_faces i q l first)).
      rewrite (IH q first H4). destruct (p prev), (p q), (p first). unfold J2. vec_unfold. lra.
  Qed.

  Definition absent (i : nat) (f : nat * nat * nat) : Prop := let '(v0, v1, v2) := f in v0 <> i /\ v1 <> i /\ v2 <> i.

  (* the matrix engeom assembles for a planar mesh, applied to the x and to the y coordinates, gives eps times the coordinate at
     every vertex whose faces form a closed, positively oriented fan: with the regulariser aside, the layout that reproduces
     the mesh solves the interior equations of the flattening *)
  Theorem planar_coordinates_harmonic (edges : list (nat * nat)) (faces fes others : list (nat * nat * nat)) (n i q0 : nat) (qs : list nat) :
    (i < n)%nat -> length fes = length faces -> Forall2 (table_ok edges) faces fes ->
    Permutation faces (others ++ fan_faces i q0 qs q0) -> Forall (absent i) others -> fan_ok i q0 qs q0 ->
    let L := @triplets RNum n edges (@edge_weights RNum (length edges) fes (map angles_of faces)) in
    @row_apply RNum L (fun v => fst (p v)) i = @lap_eps RNum * fst (p i) /\
    @row_apply RNum L (fun v => snd (p v)) i = @lap_eps RNum * snd (p i).
  Proof.
    intros Hi Hl HT HP HO HF L. unfold L.
    assert (Z : forall x, face_sum i x others = 0).
    { intros x. clear - HO. induction others as [|[[v0 v1] v2] l IH]; unfold face_sum; cbn [fold_right]; [reflexivity|].
      inversion HO as [|? ? Habs HO']; subst. cbn [absent] in Habs. destruct Habs as (H0 & H1 & H2). rewrite face_row_absent by assumption. fold (face_sum i x l). rewrite (IH HO'). lra. }
    split.
    - rewrite (assembly_is_face_sum edges faces fes (map angles_of faces) _ i n) by (try assumption; rewrite map_length; reflexivity).
      rewrite face_sum_combine, (face_sum_perm _ _ _ _ HP), face_sum_app, Z, (fan_sum_x i qs q0 q0 HF).
      destruct (p q0). unfold J2. vec_unfold. lra.
    - rewrite (assembly_is_face_sum edges faces fes (map angles_of faces) _ i n) by (try assumption; rewrite map_length; reflexivity).
      rewrite face_sum_combine, (face_sum_perm _ _ _ _ HP), face_sum_app, Z, (fan_sum_y i qs q0 q0 HF).
      destruct (p q0). unfold J2. vec_unfold. lra.
  Qed.
End Planar.
