(* C04: the walk of between_lengths terminates and collects exactly the start point and the source vertices
   strictly after the start station up to the end station (through the seam when wrapping). *)
From Coq Require Import ZArith Reals Lra Lia List Bool Arith Sorted Classical.
From Flocq Require Import Core.Raux.
From EG Require Import Num.Num Num.RNum Lib.Vec Model.TolMap Model.Curve Model.Portion Proofs.TolMap Proofs.VecR Proofs.Curve.
Import ListNotations.
Local Open Scope R_scope.

Ltac rn := cbn [nltb nleb neqb nadd nsub nmul ndiv nneg nabs nsqrt nmin nmax nofZ nlit RNum num] in *;
           change (@num RNum) with R in *; change (@n0 RNum) with 0 in *; change (@n1 RNum) with 1 in *.

Section Portion.
  Variable V : @VOps RNum.
  Hypothesis L : VLaws V.
  Variable c : curve V.
  Hypothesis Hwf : WF V c.
  Notation n := (count V c).
  Notation lens := (clens V c).
  Notation len s := (length_along V c s).

  (* a station in normal form: on edge idx, between its two cumulative lengths, and at the far end of its edge
     only on the last edge *)
  Definition valid (s : station V) : Prop :=
    (S (st_index V s) < n)%nat /\ nth (st_index V s) lens 0 <= len s <= nth (S (st_index V s)) lens 0 /\
    (len s = nth (S (st_index V s)) lens 0 -> st_index V s = (n - 2)%nat).

  Lemma at_vertex_valid k : (k < n)%nat -> valid (at_vertex V c k) /\ len (at_vertex V c k) = nth k lens 0 /\
    ((k < n - 1)%nat -> st_index V (at_vertex V c k) = k).
  Proof.
    intros Hk. pose proof (wf_n2 V c Hwf) as H2.
    destruct (at_vertex_spec V c Hwf k Hk) as (Hp & Hi & Hl & Hlt & Heq).
    split; [|split; [exact Hl | intros H; apply Hlt; exact H]].
    unfold valid. split; [exact Hi|]. rewrite Hl.
    destruct (Nat.eq_dec k (n - 1)) as [E|NE].
    - destruct (Heq E) as [Ei _]. rewrite Ei. replace (S (n - 2)) with k by lia. split; [|intros _; reflexivity].
      split; [|lra]. left. apply (wf_strict V c Hwf); lia.
    - destruct (Hlt ltac:(lia)) as [Ei _]. rewrite Ei. split; [split; [lra|]|].
      + left. apply (wf_strict V c Hwf); lia.
      + intros E. pose proof (wf_strict V c Hwf k (S k) ltac:(lia) ltac:(lia)). lra.
  Qed.

  Lemma at_length_valid l s : at_length V c l = Some s -> valid s /\ len s = l.
  Proof.
    intros Hs.
    assert (Hr : 0 <= l <= clength V c).
    { destruct (Rlt_dec l 0) as [H|H]; [rewrite (at_length_outside V c l (or_introl H)) in Hs; discriminate|].
      destruct (Rlt_dec (clength V c) l) as [H'|H']; [rewrite (at_length_outside V c l (or_intror H')) in Hs; discriminate|]. lra. }
    destruct (classic (exists k, (k < n)%nat /\ nth k lens 0 = l)) as [(k & Hk & E) | Hno].
    - rewrite <- E in Hs. rewrite (at_length_vertex V c Hwf k Hk) in Hs. inversion Hs; subst s.
      destruct (at_vertex_valid k Hk) as (Hv & Hl & _). split; [exact Hv | rewrite Hl; exact E].
    - destruct (at_length_inside V L c Hwf l Hr) as (s' & Es & Hi & Hf & Hl & _ & Hstrict). rewrite Es in Hs. inversion Hs; subst s'.
      destruct Hstrict as (_ & _ & Hf2). { intros k Hk E. apply Hno. exists k. split; assumption. }
      split; [|exact Hl]. unfold valid. split; [exact Hi|].
      pose proof (wf_strict V c Hwf (st_index V s) (S (st_index V s)) ltac:(lia) Hi) as Hd.
      unfold length_along, len_at in *. rn. split; [nra|]. intros E. exfalso. nra.
  Qed.

  Lemma valid_len_lo s : valid s -> nth (st_index V s) lens 0 <= len s.
  Proof. intros (_ & H & _). lra. Qed.

  Lemma lens_mono i j : (i <= j)%nat -> (j < n)%nat -> nth i lens 0 <= nth j lens 0.
  Proof.
    intros Hij Hj. destruct (Nat.eq_dec i j) as [->|NE]; [lra|]. left. apply (wf_strict V c Hwf); lia.
  Qed.

  (* stations are ordered like their lengths *)
  Lemma index_mono s e : valid s -> valid e -> len s <= len e -> (st_index V s <= st_index V e)%nat.
  Proof.
    intros (Hs1 & Hs2 & Hs3) (He1 & He2 & He3) Hle.
    destruct (Nat.le_gt_cases (st_index V s) (st_index V e)) as [H|H]; [exact H|]. exfalso.
    pose proof (lens_mono (S (st_index V e)) (st_index V s) ltac:(lia) ltac:(lia)) as Hm.
    assert (E : len e = nth (S (st_index V e)) lens 0) by lra.
    apply He3 in E. lia.
  Qed.

  Section WithEnd.
  Variable e : station V.
  Hypothesis He : valid e.
  Variable last_index : nat.
  Hypothesis Hlast : (st_index V e <= last_index)%nat.

  (* without wrapping: the working point, then the vertices up to the end station's index *)
  Lemma walk_nowrap : forall d fuel working acc,
    (S (st_index V working) < n)%nat -> (st_index V working + d = st_index V e)%nat ->
    (d = 0%nat -> len working <= len e) -> (d < fuel)%nat ->
    walk V fuel c e last_index working false acc =
    Some (acc ++ st_point V working :: map (vtx V c) (seq (S (st_index V working)) d)).
  Proof.
    induction d as [|d IH]; intros fuel working acc Hw Hd Hlen Hf; (destruct fuel as [|fuel]; [lia|]); cbn [walk].
    - replace (st_index V e) with (st_index V working) in * by lia.
      destruct (last_index <? S (st_index V working))%nat; cbn [negb seq map]; [reflexivity|].
      assert (E1 : (len working <=? len e)%num = true) by (rn; apply Rleb_true; apply Hlen; reflexivity).
      assert (E2 : (st_index V working <? S (st_index V working))%nat = true) by (apply Nat.ltb_lt; lia).
      rewrite E1, E2. reflexivity.
    - assert (E0 : (last_index <? S (st_index V working))%nat = false) by (apply Nat.ltb_ge; lia).
      assert (E2 : (st_index V e <? S (st_index V working))%nat = false) by (apply Nat.ltb_ge; lia).
      rewrite E0, E2, andb_false_r.
      destruct He as (He1 & He2 & He3).
      destruct (at_vertex_valid (S (st_index V working)) ltac:(lia)) as (Hv & Hl & Hi).
      specialize (Hi ltac:(lia)).
      rewrite IH; [| rewrite Hi; lia | rewrite Hi; lia | | lia].
      + rewrite Hi. rewrite <- app_assoc. cbn [app seq map]. do 3 f_equal.
        unfold at_vertex. destruct (S (st_index V working) =? n - 1)%nat; reflexivity.
      + intros ->. rewrite Hl. replace (S (st_index V working)) with (st_index V e) by lia. lra.
  Qed.

  (* with wrapping (closed curve, last_index = n - 2): run to the last distinct vertex, restart at the front *)
  Lemma walk_wrap : forall d fuel working acc,
    last_index = (n - 2)%nat -> valid working -> (st_index V working + d = n - 2)%nat -> len e < len working ->
    (d + st_index V e + 2 < fuel)%nat ->
    walk V fuel c e last_index working true acc =
    Some (acc ++ st_point V working :: map (vtx V c) (seq (S (st_index V working)) d) ++
          vtx V c 0 :: map (vtx V c) (seq 1 (st_index V e))).
  Proof.
    pose proof (wf_n2 V c Hwf) as H2.
    induction d as [|d IH]; intros fuel working acc Hl Hwv Hd Hlen Hf; (destruct fuel as [|fuel]; [lia|]); cbn [walk].
    - assert (E0 : (last_index <? S (st_index V working))%nat = true) by (apply Nat.ltb_lt; lia).
      rewrite E0. cbn [negb seq map app].
      destruct (at_vertex_valid 0 ltac:(lia)) as (Hv & Hl0 & Hi0). specialize (Hi0 ltac:(lia)).
      unfold at_front. rewrite walk_nowrap with (d := st_index V e).
      + rewrite Hi0. rewrite <- app_assoc. cbn [app]. do 3 f_equal.
        unfold at_vertex. destruct (0 =? n - 1)%nat; reflexivity.
      + rewrite Hi0. lia.
      + rewrite Hi0. lia.
      + intros E0'. rewrite Hl0. rewrite (wf_first V c Hwf). destruct He as (_ & He2 & _). rewrite E0' in He2.
        rewrite (wf_first V c Hwf) in He2. lra.
      + lia.
    - assert (E0 : (last_index <? S (st_index V working))%nat = false) by (apply Nat.ltb_ge; lia).
      assert (E1 : (len working <=? len e)%num = false) by (rn; apply Rleb_false; lra).
      rewrite E0, E1. cbn [andb].
      destruct (at_vertex_valid (S (st_index V working)) ltac:(lia)) as (Hv & Hlv & Hi).
      specialize (Hi ltac:(lia)).
      rewrite IH; [| exact Hl | exact Hv | rewrite Hi; lia | | lia].
      + rewrite Hi. rewrite <- !app_assoc. cbn [app seq map]. do 3 f_equal.
        unfold at_vertex. destruct (S (st_index V working) =? n - 1)%nat; reflexivity.
      + rewrite Hlv. destruct Hwv as (_ & Hw2 & _). lra.
  Qed.
End WithEnd.

  (* ---- the raw point list of between_lengths ---- *)
  Definition with_end (pts : list (pt V)) (e : station V) : list (pt V) :=
    if Rlt_bool (ctol V c) (vdist V (st_point V e) (last pts (vzero V))) then pts ++ [st_point V e] else pts.

  Lemma last_index_ok e : valid e -> (st_index V e <= (if cclosed V c then n - 2 else n - 1))%nat.
  Proof. intros (H & _). destruct (cclosed V c); lia. Qed.

  (* forward request (l0 <= l1, at least a tolerance apart): the start point, then the source vertices strictly
     after the start station up to the end station's edge, then the end point unless it is within tolerance *)
  Theorem portion_forward l0 l1 s e :
    at_length V c l0 = Some s -> at_length V c l1 = Some e -> l0 <= l1 -> ctol V c <= Rabs (l1 - l0) ->
    (st_index V s <= st_index V e)%nat /\
    portion_points V c l0 l1 =
      Ok (Some (with_end (st_point V s :: map (vtx V c) (seq (S (st_index V s)) (st_index V e - st_index V s))) e)).
  Proof.
    intros Hs Hee Hle Htol. destruct (at_length_valid _ _ Hs) as [Vs Ls]. destruct (at_length_valid _ _ Hee) as [Ve Le].
    assert (Hij : (st_index V s <= st_index V e)%nat) by (apply index_mono; [exact Vs | exact Ve | lra]).
    split; [exact Hij|]. unfold portion_points. rewrite Hs, Hee. rn.
    assert (Ew : Rlt_bool (len e) (len s) = false) by (apply Rltb_false; lra).
    assert (Et : Rlt_bool (Rabs (l1 - l0)) (ctol V c) = false) by (apply Rltb_false; lra).
    rewrite Ew, Et, andb_false_r. cbn [orb].
    rewrite (walk_nowrap e Ve _ (last_index_ok e Ve) (st_index V e - st_index V s)); cbn [app].
    - reflexivity.
    - destruct Vs as (H & _). exact H.
    - lia.
    - intros _. lra.
    - destruct Ve as (H & _). lia.
  Qed.

  (* request through the seam of a closed curve (l1 < l0): on to the last distinct vertex, the first vertex, then up to the end *)
  Theorem portion_through_seam l0 l1 s e :
    cclosed V c = true ->
    at_length V c l0 = Some s -> at_length V c l1 = Some e -> l1 < l0 -> ctol V c <= Rabs (l1 - l0) ->
    portion_points V c l0 l1 =
      Ok (Some (with_end (st_point V s :: map (vtx V c) (seq (S (st_index V s)) (n - 2 - st_index V s)) ++
                          vtx V c 0 :: map (vtx V c) (seq 1 (st_index V e))) e)).
  Proof.
    intros Hc Hs Hee Hlt Htol. destruct (at_length_valid _ _ Hs) as [Vs Ls]. destruct (at_length_valid _ _ Hee) as [Ve Le].
    unfold portion_points. rewrite Hs, Hee, Hc. rn.
    assert (Ew : Rlt_bool (len e) (len s) = true) by (apply Rltb_true; lra).
    assert (Et : Rlt_bool (Rabs (l1 - l0)) (ctol V c) = false) by (apply Rltb_false; lra).
    rewrite Ew, Et. cbn [negb andb orb].
    assert (Hle : (st_index V e <= n - 2)%nat) by (destruct Ve as (H & _); lia).
    rewrite (walk_wrap e Ve (n - 2) Hle (n - 2 - st_index V s)); cbn [app].
    - reflexivity.
    - reflexivity.
    - exact Vs.
    - destruct Vs as (H & _). lia.
    - lra.
    - destruct Ve as (H & _). destruct Vs as (H' & _). lia.
  Qed.

  (* ill-posed requests yield nothing, and no request makes the walk run out of fuel (the loop terminates) *)
  Theorem portion_ill_posed l0 l1 :
    (at_length V c l0 = None \/ at_length V c l1 = None \/ Rabs (l1 - l0) < ctol V c \/ (cclosed V c = false /\ l1 < l0)) ->
    portion_points V c l0 l1 = Ok None.
  Proof.
    intros H. unfold portion_points.
    destruct (at_length V c l0) as [s|] eqn:Hs; [|reflexivity].
    destruct (at_length V c l1) as [e|] eqn:Hee; [|reflexivity].
    destruct (at_length_valid _ _ Hs) as [Vs Ls]. destruct (at_length_valid _ _ Hee) as [Ve Le]. rn.
    destruct H as [H | [H | [H | [Hc H]]]]; try discriminate.
    - assert (Et : Rlt_bool (Rabs (l1 - l0)) (ctol V c) = true) by (apply Rltb_true; exact H). rewrite Et. reflexivity.
    - assert (Ew : Rlt_bool (len e) (len s) = true) by (apply Rltb_true; lra). rewrite Ew, Hc. cbn [negb andb]. rewrite orb_true_r. reflexivity.
  Qed.

  Theorem portion_terminates l0 l1 : portion_points V c l0 l1 <> Panic.
  Proof.
    destruct (at_length V c l0) as [s|] eqn:Hs; [|rewrite portion_ill_posed by (left; exact Hs); discriminate].
    destruct (at_length V c l1) as [e|] eqn:Hee; [|rewrite portion_ill_posed by (right; left; exact Hee); discriminate].
    destruct (Rlt_dec (Rabs (l1 - l0)) (ctol V c)) as [Ht|Ht]; [rewrite portion_ill_posed by (right; right; left; exact Ht); discriminate|].
    destruct (Rle_dec l0 l1) as [Hle|Hgt].
    - destruct (portion_forward l0 l1 s e Hs Hee Hle ltac:(lra)) as [_ E]. rewrite E. discriminate.
    - destruct (cclosed V c) eqn:Hc.
      + rewrite (portion_through_seam l0 l1 s e Hc Hs Hee ltac:(lra) ltac:(lra)). discriminate.
      + rewrite portion_ill_posed by (right; right; right; split; [exact Hc | lra]). discriminate.
  Qed.

  (* ---- length of the raw polyline ---- *)
  Hypothesis vn_lerp : forall (a b : pt V) f0 f1, f0 <= f1 ->
    vdist V (vlerp V a b f1) (vlerp V a b f0) = (f1 - f0) * vdist V b a.

  Fixpoint path_len (prev : pt V) (l : list (pt V)) : R :=
    match l with [] => 0 | p :: l' => vdist V p prev + path_len p l' end.

  Lemma path_len_app : forall l1 prev l2, path_len prev (l1 ++ l2) = path_len prev l1 + path_len (last l1 prev) l2.
  Proof.
    induction l1 as [|x l1 IH]; intros prev l2; cbn [app path_len last]; [lra|].
    rewrite IH. replace (match l1 with [] => x | _ :: _ => last l1 prev end) with (last l1 x).
    - lra.
    - destruct l1 as [|y l1]; [reflexivity|]. clear. revert x y. induction l1 as [|z l1 IHl]; intros x y; [reflexivity|]. cbn [last] in *. apply (IHl x z).
  Qed.

  Lemma path_vertices : forall d k, (k + d < n)%nat ->
    path_len (vtx V c k) (map (vtx V c) (seq (S k) d)) = nth (k + d) lens 0 - nth k lens 0.
  Proof.
    induction d as [|d IH]; intros k Hk; cbn [seq map path_len].
    - replace (k + 0)%nat with k by lia. lra.
    - rewrite IH by lia. rewrite <- (wf_edge V c Hwf k ltac:(lia)). replace (S k + d)%nat with (k + S d)%nat by lia. lra.
  Qed.

  Lemma last_map_vtx : forall d k p, (0 < d)%nat -> last (map (vtx V c) (seq (S k) d)) p = vtx V c (k + d).
  Proof.
    induction d as [|d IH]; intros k p Hd; [lia|]. cbn [seq map].
    destruct d as [|d]; [cbn [seq map last]; f_equal; lia|].
    change (last (vtx V c (S k) :: map (vtx V c) (seq (S (S k)) (S d))) p) with (last (map (vtx V c) (seq (S (S k)) (S d))) p).
    rewrite IH by lia. f_equal. lia.
  Qed.

  Definition on_edge (s : station V) : Prop :=
    st_point V s = vlerp V (vtx V c (st_index V s)) (vtx V c (S (st_index V s))) (st_frac V s) /\ 0 <= st_frac V s <= 1.

  Lemma at_length_on_edge l s : at_length V c l = Some s -> on_edge s.
  Proof.
    intros Hs.
    assert (Hr : 0 <= l <= clength V c).
    { destruct (Rlt_dec l 0) as [H|H]; [rewrite (at_length_outside V c l (or_introl H)) in Hs; discriminate|].
      destruct (Rlt_dec (clength V c) l) as [H'|H']; [rewrite (at_length_outside V c l (or_intror H')) in Hs; discriminate|]. lra. }
    destruct (at_length_inside V L c Hwf l Hr) as (s' & Es & Hi & Hf & Hl & Hp & _). rewrite Es in Hs. inversion Hs; subst s'.
    split; [exact Hp | exact Hf].
  Qed.

  (* start point, the vertices between, end point: the polyline has exactly the requested arc length *)
  Theorem portion_forward_length l0 l1 s e :
    at_length V c l0 = Some s -> at_length V c l1 = Some e -> l0 <= l1 ->
    path_len (st_point V s) (map (vtx V c) (seq (S (st_index V s)) (st_index V e - st_index V s)) ++ [st_point V e]) = l1 - l0.
  Proof.
    intros Hs Hee Hle. destruct (at_length_valid _ _ Hs) as [Vs Ls]. destruct (at_length_valid _ _ Hee) as [Ve Le].
    destruct (at_length_on_edge _ _ Hs) as [Ps Fs]. destruct (at_length_on_edge _ _ Hee) as [Pe Fe].
    assert (Hij : (st_index V s <= st_index V e)%nat) by (apply index_mono; [exact Vs | exact Ve | lra]).
    set (i := st_index V s) in *. set (j := st_index V e) in *.
    destruct Vs as (Vs1 & Vs2 & _). destruct Ve as (Ve1 & Ve2 & _).
    pose proof (wf_edge V c Hwf i Vs1) as Ei. pose proof (wf_edge V c Hwf j Ve1) as Ej.
    unfold length_along, len_at in Ls, Le. fold i in Ls. fold j in Le. rn.
    destruct (Nat.eq_dec i j) as [E|NE].
    - (* same edge *)
      rewrite <- E, Nat.sub_diag. cbn [seq map app path_len]. rewrite Ps, Pe. fold i. rewrite <- E.
      assert (Hd : 0 < nth (S i) lens 0 - nth i lens 0) by (pose proof (wf_strict V c Hwf i (S i) ltac:(lia) Vs1); rn; lra).
      assert (Hff : st_frac V s <= st_frac V e).
      { rewrite <- E in Le. apply Rmult_le_reg_l with (nth (S i) lens 0 - nth i lens 0); [exact Hd | rn; lra]. }
      rewrite vn_lerp by exact Hff. rewrite <- Ei. rewrite <- E in Le. rn. lra.
    - rewrite path_len_app. rewrite last_map_vtx by lia. replace (i + (j - i))%nat with j by lia. cbn [path_len].
      (* first leg: from the start point to vertex i+1 *)
      destruct (j - i)%nat as [|d] eqn:Ed; [lia|]. cbn [seq map path_len].
      rewrite path_vertices by lia. replace (S i + d)%nat with j by lia.
      assert (H1 : vdist V (vtx V c (S i)) (st_point V s) = nth (S i) lens 0 - l0).
      { rewrite Ps. fold i. rewrite <- (vl_lerp1 V L (vtx V c i) (vtx V c (S i))) at 1.
        change (vadd V (vtx V c i) (vscale V (vsub V (vtx V c (S i)) (vtx V c i)) 1)) with (vlerp V (vtx V c i) (vtx V c (S i)) 1).
        rewrite vn_lerp by lra. rewrite <- Ei. rn. lra. }
      assert (H2 : vdist V (st_point V e) (vtx V c j) = l1 - nth j lens 0).
      { rewrite Pe. fold j. rewrite <- (vl_lerp0 V L (vtx V c j) (vtx V c (S j))) at 2.
        change (vadd V (vtx V c j) (vscale V (vsub V (vtx V c (S j)) (vtx V c j)) 0)) with (vlerp V (vtx V c j) (vtx V c (S j)) 0).
        rewrite vn_lerp by lra. rewrite <- Ej. rn. lra. }
      rewrite H1, H2. rn. lra.
  Qed.
End Portion.

(* the interpolation law for the two instances *)
Lemma sqrt_scale_sq (t q : R) : 0 <= t -> 0 <= q -> sqrt (t * t * q) = t * sqrt q.
Proof. intros Ht Hq. rewrite sqrt_mult by nra. rewrite sqrt_square by exact Ht. reflexivity. Qed.

Lemma vn_lerp2 : forall (a b : pt (@VO2 RNum)) f0 f1, f0 <= f1 ->
  vdist (@VO2 RNum) (vlerp (@VO2 RNum) a b f1) (vlerp (@VO2 RNum) a b f0) = (f1 - f0) * vdist (@VO2 RNum) b a.
Proof.
  intros [ax ay] [bx by_] f0 f1 H. unfold vdist, vnorm, vlerp. cbn [VO2 vdot vadd vscale vsub pt]. vec_unfold.
  transitivity (sqrt ((f1 - f0) * (f1 - f0) * ((bx - ax) * (bx - ax) + (by_ - ay) * (by_ - ay)))); [f_equal; ring|].
  rewrite sqrt_scale_sq; [reflexivity | lra | repeat apply Rplus_le_le_0_compat; apply sq_nonneg].
Qed.
Lemma vn_lerp3 : forall (a b : pt (@VO3 RNum)) f0 f1, f0 <= f1 ->
  vdist (@VO3 RNum) (vlerp (@VO3 RNum) a b f1) (vlerp (@VO3 RNum) a b f0) = (f1 - f0) * vdist (@VO3 RNum) b a.
Proof.
  intros [[ax ay] az] [[bx by_] bz] f0 f1 H. unfold vdist, vnorm, vlerp. cbn [VO3 vdot vadd vscale vsub pt]. vec_unfold.
  transitivity (sqrt ((f1 - f0) * (f1 - f0) * ((bx - ax) * (bx - ax) + (by_ - ay) * (by_ - ay) + (bz - az) * (bz - az)))); [f_equal; ring|].
  rewrite sqrt_scale_sq; [reflexivity | lra | repeat apply Rplus_le_le_0_compat; apply sq_nonneg].
Qed.
