(* C12, continued: voxel clusters are the 26-connected components: every voxel of a cluster is joined to the cluster's
   seed by a chain of 26-neighbours inside the cluster, and no voxel of one cluster is a 26-neighbour of a voxel of
   another; for every hash-iteration order. *)
From Coq Require Import ZArith List Bool Arith Lia Permutation.
From EG Require Import Model.MeshTopo Proofs.MeshLoops Proofs.MeshClusters.
Import ListNotations.

Definition adj26 (a b : voxel) : Prop := exists off, In off offsets26 /\ b = vadd a off.

Definition vneg (v : voxel) : voxel := let '(x, y, z) := v in (- x, - y, - z)%Z.
Lemma offsets_sym : forall off, In off offsets26 -> In (vneg off) offsets26.
Proof.
  assert (H : forallb (fun o => vmem (vneg o) offsets26) offsets26 = true) by (vm_compute; reflexivity).
  rewrite forallb_forall in H. intros off Hin. apply vmem_in. apply H. exact Hin.
Qed.
Lemma adj26_sym a b : adj26 a b -> adj26 b a.
Proof.
  intros (off & Hin & ->). exists (vneg off). split; [apply offsets_sym; exact Hin|].
  destruct a as [[ax ay] az], off as [[ox oy] oz]. unfold vadd, vneg. f_equal; [f_equal|]; lia.
Qed.

(* chains of neighbours inside a set *)
Inductive path (S : list voxel) : voxel -> voxel -> Prop :=
| p_refl a : In a S -> path S a a
| p_step a b c : path S a b -> adj26 b c -> In c S -> path S a c.

Lemma path_incl S S' a b : incl S S' -> path S a b -> path S' a b.
Proof. intros Hi H. induction H as [a Ha | a b c Hab IH Hadj Hc]; [apply p_refl; apply Hi; exact Ha | eapply p_step; [exact IH | exact Hadj | apply Hi; exact Hc]]. Qed.

(* ---- one sweep over the 26 neighbours ---- *)
Lemma visit_fold_conn current : forall offs ind tv,
  let r := fold_left (fun '(ind, tv) off =>
                        let n := vadd current off in
                        if vmem n ind then (vremove n ind, n :: tv) else (ind, tv)) offs (ind, tv) in
  (forall x, In x (snd r) -> In x tv \/ ((exists off, In off offs /\ x = vadd current off) /\ In x ind)) /\
  (forall off, In off offs -> ~ In (vadd current off) (fst r)) /\
  incl tv (snd r) /\ incl (fst r) ind.
Proof.
  induction offs as [|o offs IH]; intros ind tv; cbn [fold_left].
  - cbn. split; [intros x Hx; left; exact Hx|]. split; [intros off []|]. split; apply incl_refl.
  - destruct (vmem (vadd current o) ind) eqn:E.
    + apply vmem_in in E. specialize (IH (vremove (vadd current o) ind) (vadd current o :: tv)). cbn zeta in IH.
      destruct IH as (H1 & H2 & H3 & H4). split; [|split; [|split]].
      * intros x Hx. apply H1 in Hx. destruct Hx as [[<- | Hx] | [Ha Hx]].
        -- right. split; [exists o; split; [left; reflexivity | reflexivity] | exact E].
        -- left. exact Hx.
        -- right. split; [destruct Ha as (off & Hoff & ->); exists off; split; [right; exact Hoff | reflexivity]|]. apply vremove_in in Hx. tauto.
      * intros off [<- | Hoff]; [|apply H2; exact Hoff].
        intros Hc. apply H4 in Hc. apply vremove_in in Hc. tauto.
      * intros x Hx. apply H3. right. exact Hx.
      * intros x Hx. apply H4 in Hx. apply vremove_in in Hx. tauto.
    + specialize (IH ind tv). cbn zeta in IH. destruct IH as (H1 & H2 & H3 & H4).
      split; [intros x Hx; apply H1 in Hx; destruct Hx as [Hx | [(off & Hoff & ->) Hx]]; [left; exact Hx | right; split; [exists off; split; [right; exact Hoff | reflexivity] | exact Hx]]|].
      split; [|split; assumption].
      intros off [<- | Hoff]; [|apply H2; exact Hoff].
      intros Hc. apply H4 in Hc. apply vmem_in in Hc. congruence.
Qed.

(* ---- the flood fill from a seed ---- *)
Lemma cluster_fill_conn (seed : voxel) : forall fuel ind tv working ind' working',
  cluster_fill fuel ind tv working = Some (ind', working') ->
  (forall x, In x (tv ++ working) -> path (tv ++ working) seed x) ->
  (forall w off, In w working -> In off offsets26 -> ~ In (vadd w off) ind) ->
  (forall x, In x working' -> path working' seed x) /\
  (forall w off, In w working' -> In off offsets26 -> ~ In (vadd w off) ind') /\
  incl ind' ind.
Proof.
  induction fuel as [|fuel IH]; intros ind tv working ind' working' E Hp Hc; [discriminate|].
  cbn [cluster_fill] in E. destruct tv as [|current rest].
  - inversion E; subst ind' working'. cbn [app] in Hp. split; [exact Hp|]. split; [exact Hc | apply incl_refl].
  - unfold visit_neighbours in E.
    pose proof (visit_fold_conn current offsets26 ind rest) as Hv. cbn zeta in Hv.
    destruct (fold_left _ offsets26 (ind, rest)) as [ind1 tv1] eqn:Ev. cbn [fst snd] in Hv.
    destruct Hv as (V1 & V2 & V3 & V4).
    destruct (IH ind1 tv1 (working ++ [current]) ind' working' E) as (R1 & R2 & R3).
    + (* paths: the new stack members are neighbours of current *)
      assert (Hincl : incl ((current :: rest) ++ working) (tv1 ++ working ++ [current])).
      { intros x Hx. apply in_app_or in Hx. destruct Hx as [[<- | Hx] | Hx].
        - apply in_or_app. right. apply in_or_app. right. left. reflexivity.
        - apply in_or_app. left. apply V3. exact Hx.
        - apply in_or_app. right. apply in_or_app. left. exact Hx. }
      intros x Hx. apply in_app_or in Hx. destruct Hx as [Hx | Hx].
      * destruct (V1 x Hx) as [Hr | [Ha Hi]].
        -- apply (path_incl _ _ _ _ Hincl). apply Hp. right. apply in_or_app. left. exact Hr.
        -- eapply p_step; [| exact Ha | apply in_or_app; left; exact Hx].
           apply (path_incl _ _ _ _ Hincl). apply Hp. left. reflexivity.
      * apply (path_incl _ _ _ _ Hincl). apply Hp. apply in_app_or in Hx. destruct Hx as [Hx | [<- | []]].
        -- right. apply in_or_app. right. exact Hx.
        -- left. reflexivity.
    + (* closure: nothing next to a processed voxel is left in the set *)
      intros w off Hw Hoff Hin. apply in_app_or in Hw. destruct Hw as [Hw | [<- | []]].
      * apply (Hc w off Hw Hoff). apply V4. exact Hin.
      * apply (V2 off Hoff). exact Hin.
    + split; [exact R1|]. split; [exact R2|]. intros x Hx. apply V4. apply R3. exact Hx.
Qed.

Section WithOracle.
  Variable vpick : list voxel -> option voxel.
  Hypothesis vpick_in : forall l x, vpick l = Some x -> In x l.

  Definition conn_cluster (c : list voxel) : Prop := exists seed, In seed c /\ forall x, In x c -> path c seed x.
  Definition separated (c1 c2 : list voxel) : Prop := forall a b, In a c1 -> In b c2 -> ~ adj26 a b.

  Lemma clusters_loop_conn : forall fuel ind acc result,
    NoDup ind -> clusters_loop vpick fuel ind acc = Some result ->
    (forall c, In c acc -> conn_cluster c) ->
    (forall c w off, In c acc -> In w c -> In off offsets26 -> ~ In (vadd w off) ind) ->
    (forall i j c1 c2, i < j -> nth_error acc i = Some c1 -> nth_error acc j = Some c2 -> separated c1 c2) ->
    (forall c, In c result -> conn_cluster c) /\
    (forall i j c1 c2, i < j -> nth_error result i = Some c1 -> nth_error result j = Some c2 -> separated c1 c2).
  Proof.
    induction fuel as [|fuel IH]; intros ind acc result Hn E Hconn Hclosed Hsep; [discriminate|].
    cbn [clusters_loop] in E. destruct ind as [|i0 ind0] eqn:Ei.
    - inversion E; subst result. split; assumption.
    - rewrite <- Ei in *. destruct (vpick ind) as [v|] eqn:Ep; [|discriminate].
      apply vpick_in in Ep.
      destruct (cluster_fill (S (length ind)) (vremove v ind) [v] []) as [[ind' w]|] eqn:Ef; [|discriminate].
      destruct (cluster_fill_spec (S (length ind)) (vremove v ind) [v] [] (vremove_nodup _ _ Hn)) as (ind2 & w2 & E2 & N2 & I2 & P2).
      { pose proof (vremove_perm v ind Hn Ep) as Pv. apply Permutation_length in Pv. cbn [length] in *. lia. }
      rewrite Ef in E2. inversion E2; subst ind2 w2. clear E2.
      destruct (cluster_fill_conn v _ _ _ _ _ _ Ef) as (C1 & C2 & C3).
      { intros x [<- | []]. apply p_refl. left. reflexivity. }
      { intros w0 off []. }
      assert (Hw_in : forall x, In x w -> In x ind).
      { intros x Hx. assert (Hx' : In x (ind' ++ w)) by (apply in_or_app; right; exact Hx).
        apply (Permutation_in _ P2) in Hx'. apply in_app_or in Hx'. destruct Hx' as [Hx' | Hx'].
        - apply vremove_in in Hx'. tauto.
        - cbn in Hx'. destruct Hx' as [<- | []]. exact Ep. }
      assert (Hv_w : In v w).
      { assert (Hx' : In v (vremove v ind ++ [v] ++ [])) by (apply in_or_app; right; left; reflexivity).
        apply (Permutation_in _ (Permutation_sym P2)) in Hx'. apply in_app_or in Hx'. destruct Hx' as [Hx' | Hx']; [|exact Hx'].
        apply I2 in Hx'. apply vremove_in in Hx'. tauto. }
      assert (Hsub : incl ind' ind) by (intros x Hx; apply C3 in Hx; apply vremove_in in Hx; tauto).
      apply (IH ind' (acc ++ [w]) result N2 E).
      + intros c Hc. apply in_app_or in Hc. destruct Hc as [Hc | [<- | []]]; [apply Hconn; exact Hc|].
        exists v. split; [exact Hv_w | exact C1].
      + intros c w0 off Hc Hw0 Hoff Hin. apply in_app_or in Hc. destruct Hc as [Hc | [<- | []]].
        * apply (Hclosed c w0 off Hc Hw0 Hoff). apply Hsub. exact Hin.
        * apply (C2 w0 off Hw0 Hoff). exact Hin.
      + intros i j c1 c2 Hij H1 H2.
        destruct (Nat.lt_ge_cases j (length acc)) as [Hj | Hj].
        * rewrite nth_error_app1 in H1 by lia. rewrite nth_error_app1 in H2 by lia. exact (Hsep i j c1 c2 Hij H1 H2).
        * assert (Hjl : j = length acc).
          { assert (j < length (acc ++ [w])) by (apply nth_error_Some; congruence). rewrite app_length in H. cbn in H. lia. }
          subst j. rewrite nth_error_app2 in H2 by lia. rewrite Nat.sub_diag in H2. cbn in H2. inversion H2; subst c2.
          rewrite nth_error_app1 in H1 by lia.
          intros a b Ha Hb (off & Hoff & Eb). subst b.
          apply (Hclosed c1 a off (nth_error_In _ _ H1) Ha Hoff). apply Hw_in. exact Hb.
  Qed.

  (* every cluster is 26-connected from its seed inside itself; different clusters are not 26-adjacent *)
  Theorem clusters_connectivity (voxels : list voxel) clusters :
    NoDup voxels -> clusters_from_sparse vpick voxels = Some clusters ->
    (forall c, In c clusters -> conn_cluster c) /\
    (forall i j c1 c2, i <> j -> nth_error clusters i = Some c1 -> nth_error clusters j = Some c2 -> separated c1 c2).
  Proof.
    intros Hn E. unfold clusters_from_sparse in E.
    destruct (clusters_loop_conn _ _ _ _ Hn E) as [H1 H2].
    - intros c [].
    - intros c w off [].
    - intros i j c1 c2 _ Hi. destruct i; discriminate.
    - split; [exact H1|]. intros i j c1 c2 Hij Hi Hj.
      destruct (Nat.lt_trichotomy i j) as [Hlt | [Heq | Hgt]]; [exact (H2 i j c1 c2 Hlt Hi Hj) | contradiction|].
      intros a b Ha Hb Hadj. apply adj26_sym in Hadj. exact (H2 j i c2 c1 Hgt Hj Hi b a Hb Ha Hadj).
  Qed.
End WithOracle.
