(* C02, continued: the triangle specification returns the nearest point of the whole (closed) triangle, also when the
   plane projection falls outside it, and the scan over the faces returns the nearest point of the whole mesh. *)
From Coq Require Import ZArith Reals Lra Lia List Bool Arith Psatz.
From Flocq Require Import Core.Raux.
From EG Require Import Num.Num Num.RNum Lib.Vec Model.Types Model.Curve Model.Closest Proofs.VecR Proofs.Closest.
Import ListNotations.
Local Open Scope R_scope.

Notation V := (@V3 RNum).
Notation VR := (@VO3 RNum).

(* ---- leaving a triangle along a segment: pure arithmetic on the three edge functionals ---- *)
Lemma exit_one (x p : R) : 0 <= x -> p < 0 ->
  let l := x / (x - p) in 0 <= l < 1 /\ (1 - l) * x + l * p = 0 /\ forall m, 0 <= m <= l -> 0 <= (1 - m) * x + m * p.
Proof.
  intros Hx Hp l. assert (Hd : 0 < x - p) by lra.
  assert (El : l * (x - p) = x) by (unfold l; field; lra).
  assert (H0 : 0 <= l) by (unfold l; apply Rmult_le_pos; [lra | left; apply Rinv_0_lt_compat; lra]).
  assert (H1 : l < 1) by nra.
  split; [split; assumption|]. split; [nra|]. intros m [Hm0 Hm1]. nra.
Qed.

Lemma stay_in (x p m : R) : 0 <= x -> 0 <= p -> 0 <= m <= 1 -> 0 <= (1 - m) * x + m * p.
Proof. intros. nra. Qed.

(* exit parameter of one functional: the zero crossing when it becomes negative, 1 otherwise *)
Definition exitp (x p : R) : R := if Rlt_dec p 0 then x / (x - p) else 1.
Lemma exitp_spec (x p : R) : 0 <= x ->
  0 <= exitp x p <= 1 /\ (forall m, 0 <= m <= exitp x p -> 0 <= (1 - m) * x + m * p) /\
  (p < 0 -> exitp x p < 1 /\ (1 - exitp x p) * x + exitp x p * p = 0).
Proof.
  intros Hx. unfold exitp. destruct (Rlt_dec p 0) as [Hp | Hp].
  - destruct (exit_one x p Hx Hp) as ([A B] & C & D). split; [lra|]. split; [exact D|]. intros _. split; [exact B | exact C].
  - split; [lra|]. split; [intros m Hm; apply stay_in; lra|]. intros; lra.
Qed.

Lemma exit3 (x1 x2 x3 p1 p2 p3 : R) : 0 <= x1 -> 0 <= x2 -> 0 <= x3 -> ~ (0 <= p1 /\ 0 <= p2 /\ 0 <= p3) ->
  exists l, 0 <= l <= 1 /\
    0 <= (1 - l) * x1 + l * p1 /\ 0 <= (1 - l) * x2 + l * p2 /\ 0 <= (1 - l) * x3 + l * p3 /\
    ((1 - l) * x1 + l * p1 = 0 \/ (1 - l) * x2 + l * p2 = 0 \/ (1 - l) * x3 + l * p3 = 0).
Proof.
  intros H1 H2 H3 Hout.
  destruct (exitp_spec x1 p1 H1) as (R1 & S1 & Z1). destruct (exitp_spec x2 p2 H2) as (R2 & S2 & Z2).
  destruct (exitp_spec x3 p3 H3) as (R3 & S3 & Z3).
  set (l1 := exitp x1 p1) in *. set (l2 := exitp x2 p2) in *. set (l3 := exitp x3 p3) in *.
  set (l := Rmin l1 (Rmin l2 l3)).
  assert (Hl1 : l <= l1) by apply Rmin_l.
  assert (Hl2 : l <= l2) by (eapply Rle_trans; [apply Rmin_r | apply Rmin_l]).
  assert (Hl3 : l <= l3) by (eapply Rle_trans; [apply Rmin_r | apply Rmin_r]).
  assert (Hl0 : 0 <= l) by (unfold l; repeat apply Rmin_glb; lra).
  exists l. split; [lra|]. split; [apply S1; lra|]. split; [apply S2; lra|]. split; [apply S3; lra|].
  (* some functional is negative at p, so l < 1, and the one attaining the minimum vanishes *)
  assert (Hlt : l < 1).
  { destruct (Rlt_dec p1 0) as [N1|N1]; [destruct (Z1 N1); lra|].
    destruct (Rlt_dec p2 0) as [N2|N2]; [destruct (Z2 N2); lra|].
    destruct (Rlt_dec p3 0) as [N3|N3]; [destruct (Z3 N3); lra|]. exfalso. apply Hout. lra. }
  assert (Hcase : l = l1 \/ l = l2 \/ l = l3).
  { unfold l. destruct (Rmin_case_strong l1 (Rmin l2 l3) (fun z => z = l1 \/ z = l2 \/ z = l3)); auto.
    intros _. destruct (Rmin_case_strong l2 l3 (fun z => z = l1 \/ z = l2 \/ z = l3)); auto. }
  destruct Hcase as [E | [E | E]].
  - left. destruct (Rlt_dec p1 0) as [N|N]; [rewrite E; apply (Z1 N)|]. exfalso. unfold l1, exitp in E. destruct (Rlt_dec p1 0); lra.
  - right. left. destruct (Rlt_dec p2 0) as [N|N]; [rewrite E; apply (Z2 N)|]. exfalso. unfold l2, exitp in E. destruct (Rlt_dec p2 0); lra.
  - right. right. destruct (Rlt_dec p3 0) as [N|N]; [rewrite E; apply (Z3 N)|]. exfalso. unfold l3, exitp in E. destruct (Rlt_dec p3 0); lra.
Qed.

(* ---- the three edge functionals of a triangle ---- *)
Section Tri.
  Variables a b c : V.
  Definition nrm : V := cross3 (sub3 b a) (sub3 c a).
  Definition nn : R := dot3 nrm nrm.
  Definition S1 (y : V) : R := dot3 (cross3 (sub3 b a) (sub3 y a)) nrm.
  Definition S2 (y : V) : R := dot3 (cross3 (sub3 c b) (sub3 y b)) nrm.
  Definition S3 (y : V) : R := dot3 (cross3 (sub3 a c) (sub3 y c)) nrm.
  Definition off (y : V) : R := dot3 (sub3 y a) nrm.
  Definition comb (u v w : R) : V := add3 (add3 (scale3 a u) (scale3 b v)) (scale3 c w).
  Definition lerp3 (x p : V) (l : R) : V := add3 x (scale3 (sub3 p x) l).

  Ltac open3 := unfold S1, S2, S3, off, nn, nrm, comb, lerp3 in *;
    destruct a as [[ax ay] az], b as [[bx by_] bz], c as [[cx cy] cz]; vec_unfold.

  Lemma S_comb u v w : u + v + w = 1 ->
    S1 (comb u v w) = w * nn /\ S2 (comb u v w) = u * nn /\ S3 (comb u v w) = v * nn /\ off (comb u v w) = 0.
  Proof. intros H. assert (Ew : w = 1 - u - v) by lra. subst w. open3. repeat split; ring. Qed.

  Lemma S_aff x p l : S1 (lerp3 x p l) = (1 - l) * S1 x + l * S1 p /\ S2 (lerp3 x p l) = (1 - l) * S2 x + l * S2 p /\
    S3 (lerp3 x p l) = (1 - l) * S3 x + l * S3 p /\ off (lerp3 x p l) = (1 - l) * off x + l * off p.
  Proof. destruct x as [[xx xy] xz], p as [[px py] pz]. open3. repeat split; ring. Qed.

  Lemma S_sum y : S1 y + S2 y + S3 y = nn.
  Proof. destruct y as [[yx yy] yz]. open3. ring. Qed.

  (* a point of the plane is the combination of the vertices with weights S2, S3, S1 over nn *)
  Lemma decomp y : off y = 0 -> scale3 y nn = comb (S2 y) (S3 y) (S1 y).
  Proof.
    intros H. destruct y as [[yx yy] yz]. open3.
    set (o := (yx - ax) * ((by_ - ay) * (cz - az) - (bz - az) * (cy - ay)) + (yy - ay) * ((bz - az) * (cx - ax) - (bx - ax) * (cz - az)) + (yz - az) * ((bx - ax) * (cy - ay) - (by_ - ay) * (cx - ax))) in *.
    f_equal; [f_equal|].
    - match goal with |- ?Lh = ?Rh => assert (E : Lh = Rh + o * ((by_ - ay) * (cz - az) - (bz - az) * (cy - ay))) by (unfold o; ring); rewrite E, H; ring end.
    - match goal with |- ?Lh = ?Rh => assert (E : Lh = Rh + o * ((bz - az) * (cx - ax) - (bx - ax) * (cz - az))) by (unfold o; ring); rewrite E, H; ring end.
    - match goal with |- ?Lh = ?Rh => assert (E : Lh = Rh + o * ((bx - ax) * (cy - ay) - (by_ - ay) * (cx - ax))) by (unfold o; ring); rewrite E, H; ring end.
  Qed.
End Tri.

Section Tri2.
  Variables a b c : V.
  Notation nn := (nn a b c).
  Notation S1 := (S1 a b c). Notation S2 := (S2 a b c). Notation S3 := (S3 a b c).
  Notation off := (off a b c). Notation comb := (comb a b c).

  Lemma comb_ab u v : u + v = 1 -> comb u v 0 = on_seg VR a b v.
  Proof. intros H. assert (u = 1 - v) by lra. subst u. unfold Proofs.ClosestTri.comb, on_seg. cbn [VO3 vadd vscale vsub pt].
    destruct a as [[ax ay] az], b as [[bx by_] bz], c as [[cx cy] cz]. vec_unfold. f_equal; [f_equal|]; ring. Qed.
  Lemma comb_bc v w : v + w = 1 -> comb 0 v w = on_seg VR b c w.
  Proof. intros H. assert (v = 1 - w) by lra. subst v. unfold Proofs.ClosestTri.comb, on_seg. cbn [VO3 vadd vscale vsub pt].
    destruct a as [[ax ay] az], b as [[bx by_] bz], c as [[cx cy] cz]. vec_unfold. f_equal; [f_equal|]; ring. Qed.
  Lemma comb_ca u w : u + w = 1 -> comb u 0 w = on_seg VR c a u.
  Proof. intros H. assert (w = 1 - u) by lra. subst w. unfold Proofs.ClosestTri.comb, on_seg. cbn [VO3 vadd vscale vsub pt].
    destruct a as [[ax ay] az], b as [[bx by_] bz], c as [[cx cy] cz]. vec_unfold. f_equal; [f_equal|]; ring. Qed.

  Lemma y_as_comb y : 0 < nn -> off y = 0 -> y = comb (S2 y / nn) (S3 y / nn) (S1 y / nn).
  Proof.
    intros Hn H. pose proof (decomp a b c y H) as E. set (s1 := S1 y) in *. set (s2 := S2 y) in *. set (s3 := S3 y) in *. set (k := nn) in *.
    unfold Proofs.ClosestTri.comb in *. destruct y as [[yx yy] yz], a as [[ax ay] az], b as [[bx by_] bz], c as [[cx cy] cz]. vec_unfold.
    inversion E as [[Ex Ey Ez]]. f_equal; [f_equal|].
    - apply Rmult_eq_reg_r with k; [|lra]. rewrite Ex. field. lra.
    - apply Rmult_eq_reg_r with k; [|lra]. rewrite Ey. field. lra.
    - apply Rmult_eq_reg_r with k; [|lra]. rewrite Ez. field. lra.
  Qed.

  Lemma dsq_convex (q x p : V) l : 0 <= l <= 1 ->
    dsq VR q (lerp3 x p l) <= (1 - l) * dsq VR q x + l * dsq VR q p.
  Proof.
    intros Hl. unfold dsq, lerp3. cbn [VO3 vdot vsub pt]. destruct q as [[qx qy] qz], x as [[xx xy] xz], p as [[px py] pz]. vec_unfold.
    assert (E : (1 - l) * ((qx - xx) * (qx - xx) + (qy - xy) * (qy - xy) + (qz - xz) * (qz - xz)) + l * ((qx - px) * (qx - px) + (qy - py) * (qy - py) + (qz - pz) * (qz - pz))
                - ((qx - (xx + (px - xx) * l)) * (qx - (xx + (px - xx) * l)) + (qy - (xy + (py - xy) * l)) * (qy - (xy + (py - xy) * l)) + (qz - (xz + (pz - xz) * l)) * (qz - (xz + (pz - xz) * l)))
                = l * (1 - l) * ((px - xx) * (px - xx) + (py - xy) * (py - xy) + (pz - xz) * (pz - xz))) by ring.
    assert (0 <= l * (1 - l)) by nra.
    assert (0 <= (px - xx) * (px - xx) + (py - xy) * (py - xy) + (pz - xz) * (pz - xz)).
    { pose proof (sq_nonneg (px - xx)). pose proof (sq_nonneg (py - xy)). pose proof (sq_nonneg (pz - xz)). lra. }
    assert (0 <= l * (1 - l) * ((px - xx) * (px - xx) + (py - xy) * (py - xy) + (pz - xz) * (pz - xz))) by (apply Rmult_le_pos; assumption).
    lra.
  Qed.

  (* the nearest point of the closed triangle: no convex combination of the vertices is nearer *)
  Theorem tri_closest_opt (q : V) (u v w : R) : 0 < nn -> 0 <= u -> 0 <= v -> 0 <= w -> u + v + w = 1 ->
    dsq VR q (@tri_closest RNum q a b c) <= dsq VR q (comb u v w).
  Proof.
    intros Hn Hu Hv Hw Hs. set (x := comb u v w).
    destruct (S_comb a b c u v w Hs) as (X1 & X2 & X3 & Xo). fold x in X1, X2, X3, Xo.
    unfold tri_closest. fold (nrm a b c). change (dot3 (nrm a b c) (nrm a b c)) with nn.
    set (e1 := seg_closest (@VO3' RNum) q a b). set (e2 := seg_closest (@VO3' RNum) q b c). set (e3 := seg_closest (@VO3' RNum) q c a).
    set (best12 := if (dsq (@VO3' RNum) q e2 <? dsq (@VO3' RNum) q e1)%num then e2 else e1).
    set (bestE := if (dsq (@VO3' RNum) q e3 <? dsq (@VO3' RNum) q best12)%num then e3 else best12).
    change (@VO3' RNum) with VR in *.
    assert (B12 : dsq VR q best12 <= dsq VR q e1 /\ dsq VR q best12 <= dsq VR q e2).
    { unfold best12. rn. destruct (Rlt_bool (dsq VR q e2) (dsq VR q e1)) eqn:E; rbool; lra. }
    assert (BE : dsq VR q bestE <= dsq VR q e1 /\ dsq VR q bestE <= dsq VR q e2 /\ dsq VR q bestE <= dsq VR q e3).
    { unfold bestE. rn. destruct (Rlt_bool (dsq VR q e3) (dsq VR q best12)) eqn:E; rbool; lra. }
    rn. assert (En : Rle_bool nn 0 = false) by (apply Rleb_false; exact Hn). rewrite En.
    match goal with |- context [if ?cnd then ?pp else _] => set (p := pp) in * end.
    destruct (plane_projection_opt q a (nrm a b c) x Hn Xo) as [Po Popt].
    change (dot3 (cross3 (sub3 b a) (sub3 p a)) (nrm a b c)) with (S1 p).
    change (dot3 (cross3 (sub3 c b) (sub3 p b)) (nrm a b c)) with (S2 p).
    change (dot3 (cross3 (sub3 a c) (sub3 p c)) (nrm a b c)) with (S3 p).
    assert (Po' : off p = 0) by exact Po. assert (Popt' : dsq VR q p <= dsq VR q x) by exact Popt. clear Po Popt.
    destruct (Rle_bool 0 (S1 p) && Rle_bool 0 (S2 p) && Rle_bool 0 (S3 p)) eqn:Ein.
    - exact Popt'.
    - (* the projection is outside: walk from x towards it until an edge is reached *)
      assert (Hout : ~ (0 <= S1 p /\ 0 <= S2 p /\ 0 <= S3 p)).
      { intros (A & B & C). rewrite !(proj2 (Rleb_true _ _)) in Ein by assumption. discriminate. }
      assert (Hx1 : 0 <= S1 x) by (rewrite X1; apply Rmult_le_pos; lra).
      assert (Hx2 : 0 <= S2 x) by (rewrite X2; apply Rmult_le_pos; lra).
      assert (Hx3 : 0 <= S3 x) by (rewrite X3; apply Rmult_le_pos; lra).
      destruct (exit3 (S1 x) (S2 x) (S3 x) (S1 p) (S2 p) (S3 p) Hx1 Hx2 Hx3 Hout) as (l & Hl & Y1 & Y2 & Y3 & Yz).
      set (y := lerp3 x p l).
      destruct (S_aff a b c x p l) as (A1 & A2 & A3 & Ao). fold y in A1, A2, A3, Ao.
      rewrite <- A1 in Y1, Yz. rewrite <- A2 in Y2, Yz. rewrite <- A3 in Y3, Yz.
      assert (Yo : off y = 0) by (rewrite Ao, Po', Xo; ring).
      assert (Hyx : dsq VR q y <= dsq VR q x).
      { pose proof (dsq_convex q x p l Hl) as Hc. fold y in Hc. nra. }
      pose proof (y_as_comb y Hn Yo) as Ey. pose proof (S_sum a b c y) as Hsum.
      assert (Hq : forall s, 0 <= s -> 0 <= s / nn) by (intros s Hs0; apply Rmult_le_pos; [exact Hs0 | left; apply Rinv_0_lt_compat; exact Hn]).
      assert (Hfrac : forall s t, s + t = nn -> s / nn + t / nn = 1) by (intros s t E; unfold Rdiv; rewrite <- Rmult_plus_distr_r, E; field; lra).
      assert (Hle1 : forall s t, 0 <= s -> s + t = nn -> t / nn <= 1) by (intros s t Hs0 E; pose proof (Hfrac s t E); pose proof (Hq s Hs0); lra).
      destruct Yz as [Z | [Z | Z]].
      + (* on edge ab *)
        rewrite Z in Ey. replace (0 / nn) with 0 in Ey by (unfold Rdiv; ring).
        rewrite (comb_ab (S2 y / nn) (S3 y / nn)) in Ey by (apply Hfrac; lra).
        assert (Ht : 0 <= S3 y / nn <= 1) by (split; [apply Hq; exact Y3 | apply (Hle1 (S2 y)); [exact Y2 | lra]]).
        destruct (seg_closest_opt VR inner3 q a b (S3 y / nn) Ht) as [_ Hopt]. rewrite <- Ey in Hopt. fold e1 in Hopt. lra.
      + (* on edge bc *)
        rewrite Z in Ey. replace (0 / nn) with 0 in Ey by (unfold Rdiv; ring).
        rewrite (comb_bc (S3 y / nn) (S1 y / nn)) in Ey by (apply Hfrac; lra).
        assert (Ht : 0 <= S1 y / nn <= 1) by (split; [apply Hq; exact Y1 | apply (Hle1 (S3 y)); [exact Y3 | lra]]).
        destruct (seg_closest_opt VR inner3 q b c (S1 y / nn) Ht) as [_ Hopt]. rewrite <- Ey in Hopt. fold e2 in Hopt. lra.
      + (* on edge ca *)
        rewrite Z in Ey. replace (0 / nn) with 0 in Ey by (unfold Rdiv; ring).
        rewrite (comb_ca (S2 y / nn) (S1 y / nn)) in Ey by (apply Hfrac; lra).
        assert (Ht : 0 <= S2 y / nn <= 1) by (split; [apply Hq; exact Y2 | apply (Hle1 (S1 y)); [exact Y1 | lra]]).
        destruct (seg_closest_opt VR inner3 q c a (S2 y / nn) Ht) as [_ Hopt]. rewrite <- Ey in Hopt. fold e3 in Hopt. lra.
  Qed.
  (* and it is itself a point of the triangle *)
  Theorem tri_closest_in (q : V) : 0 < nn ->
    exists u v w, 0 <= u /\ 0 <= v /\ 0 <= w /\ u + v + w = 1 /\ @tri_closest RNum q a b c = comb u v w.
  Proof.
    intros Hn.
    assert (He : forall e, (e = seg_closest VR q a b \/ e = seg_closest VR q b c \/ e = seg_closest VR q c a) ->
              exists u v w, 0 <= u /\ 0 <= v /\ 0 <= w /\ u + v + w = 1 /\ e = comb u v w).
    { intros e [-> | [-> | ->]].
      - destruct (seg_closest_opt VR inner3 q a b 0 ltac:(lra)) as [Ht _]. exists (1 - seg_param VR q a b), (seg_param VR q a b), 0.
        repeat split; try lra. rewrite comb_ab by lra. reflexivity.
      - destruct (seg_closest_opt VR inner3 q b c 0 ltac:(lra)) as [Ht _]. exists 0, (1 - seg_param VR q b c), (seg_param VR q b c).
        repeat split; try lra. rewrite comb_bc by lra. reflexivity.
      - destruct (seg_closest_opt VR inner3 q c a 0 ltac:(lra)) as [Ht _]. exists (seg_param VR q c a), 0, (1 - seg_param VR q c a).
        repeat split; try lra. rewrite comb_ca by lra. reflexivity. }
    unfold tri_closest. fold (nrm a b c). change (dot3 (nrm a b c) (nrm a b c)) with nn.
    set (e1 := seg_closest (@VO3' RNum) q a b). set (e2 := seg_closest (@VO3' RNum) q b c). set (e3 := seg_closest (@VO3' RNum) q c a).
    set (best12 := if (dsq (@VO3' RNum) q e2 <? dsq (@VO3' RNum) q e1)%num then e2 else e1).
    set (bestE := if (dsq (@VO3' RNum) q e3 <? dsq (@VO3' RNum) q best12)%num then e3 else best12).
    assert (HbE : bestE = seg_closest VR q a b \/ bestE = seg_closest VR q b c \/ bestE = seg_closest VR q c a).
    { unfold bestE, best12. destruct (dsq (@VO3' RNum) q e3 <? _)%num; [right; right; reflexivity|].
      destruct (dsq (@VO3' RNum) q e2 <? _)%num; [right; left; reflexivity | left; reflexivity]. }
    rn. assert (En : Rle_bool nn 0 = false) by (apply Rleb_false; exact Hn). rewrite En.
    match goal with |- context [if ?cnd then ?pp else _] => set (p := pp) in * end.
    assert (Po : off p = 0).
    { destruct (plane_projection_opt q a (nrm a b c) a Hn) as [Po _]; [|exact Po].
      destruct a as [[ax ay] az]. vec_unfold. ring. }
    change (dot3 (cross3 (sub3 b a) (sub3 p a)) (nrm a b c)) with (S1 p).
    change (dot3 (cross3 (sub3 c b) (sub3 p b)) (nrm a b c)) with (S2 p).
    change (dot3 (cross3 (sub3 a c) (sub3 p c)) (nrm a b c)) with (S3 p).
    destruct (Rle_bool 0 (S1 p) && Rle_bool 0 (S2 p) && Rle_bool 0 (S3 p)) eqn:Ein; [|apply He; exact HbE].
    apply andb_true_iff in Ein. destruct Ein as [Ein E3]. apply andb_true_iff in Ein. destruct Ein as [E1 E2]. rbool.
    assert (Hq : forall s, 0 <= s -> 0 <= s / nn) by (intros s Hs0; apply Rmult_le_pos; [exact Hs0 | left; apply Rinv_0_lt_compat; exact Hn]).
    exists (S2 p / nn), (S3 p / nn), (S1 p / nn). split; [apply Hq; exact E2|]. split; [apply Hq; exact E3|]. split; [apply Hq; exact E1|].
    split; [|apply y_as_comb; assumption].
    pose proof (S_sum a b c p). unfold Rdiv. rewrite <- !Rmult_plus_distr_r. replace (S2 p + S3 p + S1 p) with nn by lra. field. lra.
  Qed.
End Tri2.

(* ---- the scan over the faces ---- *)
Section Mesh.
  Variable q : V.
  Variable verts : list V.
  Definition zv : V := @mk3 RNum 0 0 0.
  Definition fa (f : nat * nat * nat) : V := nth (fst (fst f)) verts zv.
  Definition fb (f : nat * nat * nat) : V := nth (snd (fst f)) verts zv.
  Definition fc (f : nat * nat * nat) : V := nth (snd f) verts zv.
  Definition face_pt (f : nat * nat * nat) (u v w : R) : V := comb (fa f) (fb f) (fc f) u v w.
  Definition nondeg (f : nat * nat * nat) : Prop := 0 < nn (fa f) (fb f) (fc f).
  Definition dface : nat * nat * nat := (0, 0, 0)%nat.

  Definition mbest_ok (faces : list (nat * nat * nat)) (hi : nat) (best : option (R * nat * V)) : Prop :=
    match best with
    | None => hi = 0%nat
    | Some (d2, i, cpt) =>
        (i < hi)%nat /\ cpt = @tri_closest RNum q (fa (nth i faces dface)) (fb (nth i faces dface)) (fc (nth i faces dface)) /\ d2 = dsq VR q cpt /\
        forall j u v w, (j < hi)%nat -> 0 <= u -> 0 <= v -> 0 <= w -> u + v + w = 1 -> d2 <= dsq VR q (face_pt (nth j faces dface) u v w)
    end.

  Lemma mesh_scan_spec (all : list (nat * nat * nat)) : (forall f, In f all -> nondeg f) ->
    forall rest pre k best, all = pre ++ rest -> length pre = k -> mbest_ok all k best ->
    mbest_ok all (k + length rest) (@mesh_scan RNum q verts rest k best).
  Proof.
    intros Hnd. induction rest as [|f rest IH]; intros pre k best Hr Hlen Hb.
    - cbn [mesh_scan length]. rewrite Nat.add_0_r. exact Hb.
    - destruct f as [[i1 i2] i3] eqn:Ef. cbn [mesh_scan]. rn.
      assert (Hk : nth k all dface = (i1, i2, i3)).
      { rewrite Hr, app_nth2 by lia. replace (k - length pre)%nat with 0%nat by lia. reflexivity. }
      change (@mk3 RNum 0 0 0) with zv.
      change (nth i1 verts zv) with (fa (i1, i2, i3)). change (nth i2 verts zv) with (fb (i1, i2, i3)). change (nth i3 verts zv) with (fc (i1, i2, i3)).
      set (cpt := @tri_closest RNum q (fa (i1, i2, i3)) (fb (i1, i2, i3)) (fc (i1, i2, i3))).
      change (@VO3' RNum) with VR.
      assert (Hopt : forall u v w, 0 <= u -> 0 <= v -> 0 <= w -> u + v + w = 1 -> dsq VR q cpt <= dsq VR q (face_pt (nth k all dface) u v w)).
      { intros u v w Hu Hv Hw Hs. rewrite Hk. unfold face_pt. apply tri_closest_opt; try assumption.
        apply (Hnd (i1, i2, i3)). rewrite Hr. apply in_or_app. right. left. reflexivity. }
      replace (k + length ((i1, i2, i3) :: rest))%nat with (S k + length rest)%nat by (cbn [length]; lia).
      apply (IH (pre ++ [(i1, i2, i3)])); [rewrite <- app_assoc; exact Hr | rewrite app_length; cbn [length]; lia|].
      destruct best as [[[bd bi] bc]|].
      + unfold mbest_ok in Hb. destruct Hb as [Hbi [Hbc [Hbd Hall]]].
        destruct (Rlt_bool (dsq VR q cpt) bd) eqn:E; rbool.
        * cbn [mbest_ok]. split; [lia|]. split; [rewrite Hk; reflexivity|]. split; [reflexivity|].
          intros j u v w Hj Hu Hv Hw Hs. destruct (Nat.eq_dec j k) as [->|Hne]; [apply Hopt; assumption|].
          specialize (Hall j u v w ltac:(lia) Hu Hv Hw Hs). lra.
        * cbn [mbest_ok]. split; [lia|]. split; [exact Hbc|]. split; [exact Hbd|].
          intros j u v w Hj Hu Hv Hw Hs. destruct (Nat.eq_dec j k) as [->|Hne]; [pose proof (Hopt u v w Hu Hv Hw Hs); lra | apply Hall; try assumption; lia].
      + cbn [mbest_ok] in Hb. cbn [mbest_ok]. split; [lia|]. split; [rewrite Hk; reflexivity|]. split; [reflexivity|].
        intros j u v w Hj Hu Hv Hw Hs. assert (j = k) by lia. subst j. apply Hopt; assumption.
  Qed.

  (* the reported point is the triangle specification's point on the reported face, and no point of any face of the
     mesh (any convex combination of the vertices of any face) is nearer *)
  Theorem mesh_closest_opt (faces : list (nat * nat * nat)) : faces <> [] -> (forall f, In f faces -> nondeg f) ->
    exists d2 i cpt, @mesh_closest RNum q verts faces = Some (d2, i, cpt) /\ (i < length faces)%nat /\
      cpt = @tri_closest RNum q (fa (nth i faces dface)) (fb (nth i faces dface)) (fc (nth i faces dface)) /\ d2 = dsq VR q cpt /\
      forall j u v w, (j < length faces)%nat -> 0 <= u -> 0 <= v -> 0 <= w -> u + v + w = 1 ->
        d2 <= dsq VR q (face_pt (nth j faces dface) u v w).
  Proof.
    intros Hne Hnd.
    pose proof (mesh_scan_spec faces Hnd faces [] 0%nat None eq_refl eq_refl eq_refl) as H. cbn [Nat.add] in H.
    match type of H with mbest_ok _ _ ?x => remember x as r eqn:Er end.
    assert (Eg : @mesh_closest RNum q verts faces = r) by (rewrite Er; reflexivity). rewrite Eg. clear Eg Er.
    destruct r as [[[d2 i] cpt]|].
    - unfold mbest_ok in H. destruct H as (Hi & Hc & Hd & Hall). exists d2, i, cpt. repeat split; try assumption.
    - cbn [mbest_ok] in H. destruct faces; [congruence | cbn in H; lia].
  Qed.
End Mesh.
