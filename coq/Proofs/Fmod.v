(* Real-number facts about fmod (Rust's % on f64): x - y * trunc(x / y). *)
From Coq Require Import ZArith Reals Lra Lia.
From Flocq Require Import Core.Raux.
From EG Require Import Num.Num Num.RNum.
Local Open Scope R_scope.

Lemma Rfmod_eq x y : Rfmod x y = x - y * IZR (Ztrunc (x / y)).
Proof. reflexivity. Qed.

Lemma Rfmod_nonneg x y : 0 < y -> 0 <= x -> 0 <= Rfmod x y < y.
Proof.
  intros Hy Hx. unfold Rfmod.
  assert (Hq : 0 <= x / y) by (apply Rmult_le_pos; [lra | left; apply Rinv_0_lt_compat; lra]).
  rewrite Ztrunc_floor by exact Hq.
  pose proof (Zfloor_lb (x / y)) as Hl. pose proof (Zfloor_ub (x / y)) as Hu.
  assert (E : x = y * (x / y)) by (field; lra).
  split.
  - assert (y * IZR (Zfloor (x / y)) <= y * (x / y)) by (apply Rmult_le_compat_l; lra). lra.
  - assert (y * (x / y) < y * (IZR (Zfloor (x / y)) + 1)) by (apply Rmult_lt_compat_l; lra). lra.
Qed.

Lemma Rfmod_nonpos x y : 0 < y -> x <= 0 -> - y < Rfmod x y <= 0.
Proof.
  intros Hy Hx. unfold Rfmod.
  assert (Hq : x / y <= 0).
  { unfold Rdiv. replace 0 with (0 * / y) by ring. apply Rmult_le_compat_r; [left; apply Rinv_0_lt_compat; lra | lra]. }
  rewrite Ztrunc_ceil by exact Hq.
  pose proof (Zceil_ub (x / y)) as Hu. pose proof (Zceil_lb (x / y)) as Hl.
  assert (E : x = y * (x / y)) by (field; lra).
  split.
  - assert (y * (IZR (Zceil (x / y)) - 1) < y * (x / y)) by (apply Rmult_lt_compat_l; lra). lra.
  - assert (y * (x / y) <= y * IZR (Zceil (x / y))) by (apply Rmult_le_compat_l; lra). lra.
Qed.

Lemma Rfmod_abs_lt x y : 0 < y -> - y < Rfmod x y < y.
Proof.
  intros Hy. destruct (Rle_dec 0 x).
  - pose proof (Rfmod_nonneg x y Hy r). lra.
  - pose proof (Rfmod_nonpos x y Hy ltac:(lra)). lra.
Qed.
