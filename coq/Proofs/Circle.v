(* C11: circle-circle intersections, tangent points, line-circle intersections, arc ends, bounding boxes.
   Over the reals. *)
From Coq Require Import ZArith Reals Lra Lia List Bool.
From Flocq Require Import Core.Raux.
From EG Require Import Num.Num Num.RNum Num.Atan2 Lib.Vec Model.Types Model.Angles Model.Circle.
From EG Require Import Proofs.VecR Proofs.Atan2R Proofs.Angles.
Import ListNotations.
Local Open Scope R_scope.

Notation Rcirc := (@circ RNum).
Ltac rn := cbn [nltb nleb neqb nadd nsub nmul ndiv nneg nabs nsqrt nmin nmax nofZ nlit nsin ncos nacos natan2 npi RNum num] in *;
           change (@num RNum) with R in *; change (@n0 RNum) with 0 in *; change (@n1 RNum) with 1 in *; change (@n2 RNum) with 2 in *.

Definition on_circle (c : Rcirc) (p : R * R) : Prop :=
  (fst p - fst (cc c)) * (fst p - fst (cc c)) + (snd p - snd (cc c)) * (snd p - snd (cc c)) = cr c * cr c.

Lemma tol10_pos : 0 < @TOL10 RNum.
Proof. unfold TOL10. cbn. unfold Rlit. apply Rdiv_lt_0_compat; [lra|]. apply IZR_lt. reflexivity. Qed.

(* ---- circle-circle ---- *)
Section CC.
  Variables x0 y0 r0 x1 y1 r1 : R.
  Let c0 : Rcirc := mkCirc (x0, y0) r0.
  Let c1 : Rcirc := mkCirc (x1, y1) r1.
  Let dx := x0 - x1.
  Let dy := y0 - y1.
  Let d := sqrt (dx * dx + dy * dy).
  Hypothesis Hr0 : 0 <= r0.
  Hypothesis Hr1 : 0 <= r1.

  Lemma d_sq : d * d = dx * dx + dy * dy.
  Proof. unfold d. apply sqrt_sqrt. nra. Qed.
  Lemma d_nonneg : 0 <= d.
  Proof. apply sqrt_pos. Qed.
  Lemma dist_is_d : @dist2 RNum (cc c0) (cc c1) = d.
  Proof. unfold c0, c1, d, dx, dy. vec_unfold. reflexivity. Qed.

  (* classification of the guards *)
  Definition TOL := @TOL10 RNum.
  Let rs := r0 + r1.
  Let rd := Rabs (r0 - r1).

  Theorem cc_count :
    (d < TOL \/ rs < d \/ d <= rd - TOL -> @intersections_with RNum c0 c1 = []) /\
    (TOL <= d -> d <= rs -> rd - TOL < d -> (Rabs (d - rs) < TOL \/ Rabs (d - rd) < TOL) ->
       exists p, @intersections_with RNum c0 c1 = [p]) /\
    (TOL <= d -> rd + TOL <= d -> d <= rs - TOL ->
       exists p q, @intersections_with RNum c0 c1 = [p; q]).
  Proof.
    unfold intersections_with. rewrite dist_is_d. cbn [cc cr c0 c1]. rn. fold rs rd TOL.
    pose proof tol10_pos as Ht. fold TOL in Ht.
    split; [|split].
    - intros [H | [H | H]].
      + assert (E : Rlt_bool d TOL = true) by (apply Rltb_true; exact H). rewrite E. reflexivity.
      + destruct (Rlt_bool d TOL); [reflexivity|].
        assert (E : Rlt_bool rs d = true) by (apply Rltb_true; exact H). rewrite E. reflexivity.
      + destruct (Rlt_bool d TOL); [reflexivity|]. destruct (Rlt_bool rs d); [reflexivity|].
        assert (E : Rle_bool d (rd - TOL) = true) by (apply Rleb_true; exact H). rewrite E. reflexivity.
    - intros H1 H2 H3 H4.
      assert (E1 : Rlt_bool d TOL = false) by (apply Rltb_false; lra).
      assert (E2 : Rlt_bool rs d = false) by (apply Rltb_false; lra).
      assert (E3 : Rle_bool d (rd - TOL) = false) by (apply Rleb_false; lra).
      rewrite E1, E2, E3.
      assert (E4 : Rlt_bool (Rabs (d - rs)) TOL || Rlt_bool (Rabs (d - rd)) TOL = true).
      { apply orb_true_iff. destruct H4 as [H4 | H4]; [left | right]; apply Rltb_true; exact H4. }
      rewrite E4. eexists. reflexivity.
    - intros H1 H2 H3.
      assert (E1 : Rlt_bool d TOL = false) by (apply Rltb_false; lra).
      assert (E2 : Rlt_bool rs d = false) by (apply Rltb_false; lra).
      assert (E3 : Rle_bool d (rd - TOL) = false) by (apply Rleb_false; lra).
      rewrite E1, E2, E3.
      assert (E4 : Rlt_bool (Rabs (d - rs)) TOL || Rlt_bool (Rabs (d - rd)) TOL = false).
      { apply orb_false_iff. split; apply Rltb_false.
        - rewrite Rabs_left1 by lra. lra.
        - rewrite Rabs_pos_eq by lra. lra. }
      rewrite E4. eexists _, _. reflexivity.
  Qed.

  (* in the two-point branch the radicand is non-negative and both points lie on both circles *)
  Theorem cc_two_points p q :
    @intersections_with RNum c0 c1 = [p; q] ->
    let a := (r0 * r0 - r1 * r1 + d * d) / (2 * d) in
    0 <= r0 * r0 - a * a /\
    on_circle c0 p /\ on_circle c1 p /\ on_circle c0 q /\ on_circle c1 q.
  Proof.
    unfold intersections_with. rewrite dist_is_d. cbn [cc cr c0 c1]. rn. fold rs rd TOL.
    pose proof tol10_pos as Ht. fold TOL in Ht. pose proof d_sq as Hd2. pose proof d_nonneg as Hd0.
    destruct (Rlt_bool d TOL) eqn:E1; [discriminate|].
    destruct (Rlt_bool rs d) eqn:E2; [discriminate|].
    destruct (Rle_bool d (rd - TOL)) eqn:E3; [discriminate|].
    destruct (Rlt_bool (Rabs (d - rs)) TOL || Rlt_bool (Rabs (d - rd)) TOL) eqn:E4; [discriminate|].
    apply orb_false_iff in E4. destruct E4 as [E4 E5]. rbool.
    assert (Hdpos : 0 < d) by lra.
    (* rd + TOL <= d <= rs - TOL *)
    assert (Hlo : rd < d).
    { unfold Rabs in E5. destruct (Rcase_abs (d - rd)); lra. }
    assert (Hhi : d < rs).
    { unfold Rabs in E4. destruct (Rcase_abs (d - rs)); lra. }
    assert (Hrd1 : r0 - r1 <= rd) by (unfold rd; apply Rle_abs).
    assert (Hrd2 : r1 - r0 <= rd) by (unfold rd; rewrite Rabs_minus_sym; apply Rle_abs).
    cbv zeta. set (a := (r0 * r0 - r1 * r1 + d * d) / (2 * d)).
    assert (Ha : a * (2 * d) = r0 * r0 - r1 * r1 + d * d) by (unfold a; field; lra).
    assert (Hh2 : 0 <= r0 * r0 - a * a).
    { assert (P1 : 0 <= (r0 - a) * (2 * d)) by (replace ((r0 - a) * (2 * d)) with (r1 * r1 - (d - r0) * (d - r0)) by nra; unfold rs in *; nra).
      assert (P2 : 0 <= (r0 + a) * (2 * d)) by (replace ((r0 + a) * (2 * d)) with ((d + r0) * (d + r0) - r1 * r1) by nra; nra).
      assert (Q1 : 0 <= r0 - a) by (apply Rmult_le_reg_r with (2 * d); lra).
      assert (Q2 : 0 <= r0 + a) by (apply Rmult_le_reg_r with (2 * d); lra).
      replace (r0 * r0 - a * a) with ((r0 - a) * (r0 + a)) by ring. apply Rmult_le_pos; assumption. }
    intros H. inversion H as [[Hp Hq]]. clear H. split; [exact Hh2|].
    set (h := sqrt (r0 * r0 - a * a)) in *.
    assert (Hhh : h * h = r0 * r0 - a * a) by (apply sqrt_sqrt; exact Hh2).
    (* unit direction v = (c1 - c0) / |c1 - c0| *)
    unfold on_circle, c0, c1. cbn [cc cr fst snd].
    unfold normalize2, div2, norm2, nsq2, dot2, sub2, add2, scale2, perp_ccw in *. cbn [fst snd] in *. rn.
    replace ((x1 - x0) * (x1 - x0) + (y1 - y0) * (y1 - y0)) with (dx * dx + dy * dy) in * by (unfold dx, dy; ring).
    fold d in Hp, Hq |- *.
    set (vx := (x1 - x0) / d) in *. set (vy := (y1 - y0) / d) in *.
    assert (Hv : vx * vx + vy * vy = 1).
    { unfold vx, vy. replace ((x1 - x0) / d * ((x1 - x0) / d) + (y1 - y0) / d * ((y1 - y0) / d)) with ((dx * dx + dy * dy) / (d * d)) by (unfold dx, dy; field; lra).
      rewrite <- Hd2. field. lra. }
    assert (Hx1 : x1 = x0 + vx * d) by (unfold vx; field; lra).
    assert (Hy1 : y1 = y0 + vy * d) by (unfold vy; field; lra).
    subst p q. cbn [fst snd].
    assert (K0 : forall s, (x0 + vx * a + s * (- vy * h) - x0) * (x0 + vx * a + s * (- vy * h) - x0)
                          + (y0 + vy * a + s * (vx * h) - y0) * (y0 + vy * a + s * (vx * h) - y0)
                          = (vx * vx + vy * vy) * (a * a + s * s * (h * h))) by (intros; ring).
    assert (K1 : forall s, (x0 + vx * a + s * (- vy * h) - (x0 + vx * d)) * (x0 + vx * a + s * (- vy * h) - (x0 + vx * d))
                          + (y0 + vy * a + s * (vx * h) - (y0 + vy * d)) * (y0 + vy * a + s * (vx * h) - (y0 + vy * d))
                          = (vx * vx + vy * vy) * ((a - d) * (a - d) + s * s * (h * h))) by (intros; ring).
    assert (Hr1eq : (a - d) * (a - d) + h * h = r1 * r1) by nra.
    repeat split.
    - replace (x0 + vx * a + - vy * h) with (x0 + vx * a + 1 * (- vy * h)) by ring.
      replace (y0 + vy * a + vx * h) with (y0 + vy * a + 1 * (vx * h)) by ring. rewrite K0, Hv. nra.
    - rewrite Hx1, Hy1.
      replace (x0 + vx * a + - vy * h) with (x0 + vx * a + 1 * (- vy * h)) by ring.
      replace (y0 + vy * a + vx * h) with (y0 + vy * a + 1 * (vx * h)) by ring. rewrite K1, Hv. nra.
    - replace (x0 + vx * a - - vy * h) with (x0 + vx * a + (-1) * (- vy * h)) by ring.
      replace (y0 + vy * a - vx * h) with (y0 + vy * a + (-1) * (vx * h)) by ring. rewrite K0, Hv. nra.
    - rewrite Hx1, Hy1.
      replace (x0 + vx * a - - vy * h) with (x0 + vx * a + (-1) * (- vy * h)) by ring.
      replace (y0 + vy * a - vx * h) with (y0 + vy * a + (-1) * (vx * h)) by ring. rewrite K1, Hv. nra.
  Qed.
End CC.

(* ---- tangent points from an external point ---- *)
Section Tangent.
  Variables cx cy r px py : R.
  Let c : Rcirc := mkCirc (cx, cy) r.
  Let p : R * R := (px, py).
  Let d := sqrt ((px - cx) * (px - cx) + (py - cy) * (py - cy)).
  Hypothesis Hr : 0 <= r.

  Lemma tangent_dist : @dist2 RNum (cc c) p = d.
  Proof. unfold c, p, d. vec_unfold. cbn [cc fst snd]. apply (f_equal sqrt). ring. Qed.

  Theorem tangent_points_spec t0 t1 :
    @tangent_points_to RNum c p = Some (t0, t1) ->
    r < d /\
    on_circle c t0 /\ on_circle c t1 /\
    (fst t0 - cx) * (px - fst t0) + (snd t0 - cy) * (py - snd t0) = 0 /\
    (fst t1 - cx) * (px - fst t1) + (snd t1 - cy) * (py - snd t1) = 0.
  Proof.
    unfold tangent_points_to. rewrite tangent_dist. cbn [cc cr c p fst snd]. rn.
    destruct (Rle_bool d r) eqn:E; [discriminate|]. rbool.
    intros H. inversion H as [[H0 H1]]. clear H. split; [exact E|].
    assert (Hd : 0 < d) by lra.
    set (al := acos (r / d)). set (th := atan2 (py - cy) (px - cx)).
    assert (Hca : cos al = r / d).
    { unfold al. apply cos_acos. split.
      - assert (0 <= r / d) by (apply Rmult_le_pos; [lra | left; apply Rinv_0_lt_compat; lra]). lra.
      - apply Rmult_le_reg_r with d; [lra|]. unfold Rdiv. rewrite Rmult_assoc, Rinv_l by lra. lra. }
    destruct (atan2_polar (py - cy) (px - cx)) as [Hx Hy]. fold d th in Hx, Hy.
    assert (Hunit : forall t, cos t * cos t + sin t * sin t = 1) by (intros t; pose proof (sin2_cos2 t) as S; unfold Rsqr in S; lra).
    assert (Hperp : forall s, cos (th + s * al) * cos th + sin (th + s * al) * sin th = cos (s * al)).
    { intros s. rewrite <- cos_minus. f_equal. ring. }
    unfold on_circle, c. cbn [cc cr fst snd].
    repeat split.
    - replace (cx + r * cos (th - al) - cx) with (r * cos (th - al)) by ring.
      replace (cy + r * sin (th - al) - cy) with (r * sin (th - al)) by ring.
      pose proof (Hunit (th - al)). nra.
    - replace (cx + r * cos (th + al) - cx) with (r * cos (th + al)) by ring.
      replace (cy + r * sin (th + al) - cy) with (r * sin (th + al)) by ring.
      pose proof (Hunit (th + al)). nra.
    - replace (px - (cx + r * cos (th - al))) with ((px - cx) - r * cos (th - al)) by ring.
      replace (py - (cy + r * sin (th - al))) with ((py - cy) - r * sin (th - al)) by ring.
      rewrite Hx, Hy. pose proof (Hunit (th - al)) as U. pose proof (Hperp (-1)) as Pp.
      replace (th + -1 * al) with (th - al) in Pp by ring. replace (-1 * al) with (- al) in Pp by ring. rewrite cos_neg, Hca in Pp.
      replace ((cx + r * cos (th - al) - cx) * (d * cos th - r * cos (th - al)) + (cy + r * sin (th - al) - cy) * (d * sin th - r * sin (th - al)))
        with (r * d * (cos (th - al) * cos th + sin (th - al) * sin th) - r * r * (cos (th - al) * cos (th - al) + sin (th - al) * sin (th - al))) by ring.
      rewrite Pp, U. field. lra.
    - replace (px - (cx + r * cos (th + al))) with ((px - cx) - r * cos (th + al)) by ring.
      replace (py - (cy + r * sin (th + al))) with ((py - cy) - r * sin (th + al)) by ring.
      rewrite Hx, Hy. pose proof (Hunit (th + al)) as U. pose proof (Hperp 1) as Pp.
      replace (th + 1 * al) with (th + al) in Pp by ring. replace (1 * al) with al in Pp by ring. rewrite Hca in Pp.
      replace ((cx + r * cos (th + al) - cx) * (d * cos th - r * cos (th + al)) + (cy + r * sin (th + al) - cy) * (d * sin th - r * sin (th + al)))
        with (r * d * (cos (th + al) * cos th + sin (th + al) * sin th) - r * r * (cos (th + al) * cos (th + al) + sin (th + al) * sin (th + al))) by ring.
      rewrite Pp, U. field. lra.
  Qed.

  Theorem tangent_none_iff : @tangent_points_to RNum c p = None <-> d <= r.
  Proof.
    unfold tangent_points_to. rewrite tangent_dist. cbn [cc cr c p fst snd]. rn.
    destruct (Rle_bool d r) eqn:E; rbool; split; intros H; auto; try discriminate; lra.
  Qed.
End Tangent.

(* ---- line / circle ---- *)
Section LineCircle.
  Variables ox oy vx vy cx cy r : R.
  Let c : Rcirc := mkCirc (cx, cy) r.
  Hypothesis Hv : 0 < vx * vx + vy * vy.
  Hypothesis Hr : 0 <= r.

  (* every parameter returned by the two-point branch gives a point of the line that lies on the circle *)
  Theorem line_circle_two t0 t1 :
    @intersection_line_circle RNum (ox, oy) (vx, vy) c = [t0; t1] ->
    on_circle c (ox + vx * t0, oy + vy * t0) /\ on_circle c (ox + vx * t1, oy + vy * t1).
  Proof.
    unfold intersection_line_circle, line_projected_parameter. cbn [cc cr c fst snd]. vec_unfold. rn.
    set (vv := vx * vx + vy * vy) in *.
    set (tc := (vx * (cx - ox) + vy * (cy - oy)) / vv).
    set (fx := ox + vx * tc). set (fy := oy + vy * tc).
    set (dd := sqrt ((cx - fx) * (cx - fx) + (cy - fy) * (cy - fy))).
    destruct (Rlt_bool (Rabs (dd - r)) (@TOL10 RNum)) eqn:E1; [discriminate|].
    destruct (Rlt_bool r dd) eqn:E2; [discriminate|]. rbool.
    intros H. inversion H as [[H0 H1]]. clear H.
    assert (Hdd : dd * dd = (cx - fx) * (cx - fx) + (cy - fy) * (cy - fy)) by (apply sqrt_sqrt; apply Rplus_le_le_0_compat; apply sq_nonneg).
    assert (Hdd0 : 0 <= dd) by apply sqrt_pos.
    assert (Hrad : 0 <= r * r - dd * dd) by nra.
    set (h := sqrt (r * r - dd * dd)) in *.
    assert (Hh : h * h = r * r - dd * dd) by (apply sqrt_sqrt; exact Hrad).
    set (nv := sqrt vv) in *.
    assert (Hnv : nv * nv = vv) by (apply sqrt_sqrt; lra).
    assert (Hnv0 : 0 < nv) by (apply sqrt_lt_R0; exact Hv).
    (* the foot of the perpendicular: (c - foot) . v = 0 *)
    assert (Horth : (cx - fx) * vx + (cy - fy) * vy = 0).
    { assert (Hvv : vv <> 0) by lra. unfold fx, fy, tc. field_simplify_eq; [|exact Hvv]. unfold vv. ring. }
    unfold on_circle. cbn [cc cr c fst snd].
    assert (K : forall s, (ox + vx * (tc + s * (h / nv)) - cx) * (ox + vx * (tc + s * (h / nv)) - cx)
                         + (oy + vy * (tc + s * (h / nv)) - cy) * (oy + vy * (tc + s * (h / nv)) - cy)
                         = ((cx - fx) * (cx - fx) + (cy - fy) * (cy - fy))
                           - 2 * s * (h / nv) * ((cx - fx) * vx + (cy - fy) * vy)
                           + s * s * (h / nv) * (h / nv) * vv) by (intros; unfold fx, fy, vv; ring).
    assert (Hq : (h / nv) * (h / nv) * vv = h * h) by (rewrite <- Hnv; field; lra).
    split.
    - replace (tc - h / nv) with (tc + (-1) * (h / nv)) by ring. rewrite K, Horth, <- Hdd.
      replace (-1 * -1 * (h / nv) * (h / nv) * vv) with ((h / nv) * (h / nv) * vv) by ring. rewrite Hq. lra.
    - replace (tc + h / nv) with (tc + 1 * (h / nv)) by ring. rewrite K, Horth, <- Hdd.
      replace (1 * 1 * (h / nv) * (h / nv) * vv) with ((h / nv) * (h / nv) * vv) by ring. rewrite Hq. lra.
  Qed.
End LineCircle.

(* ---- arcs ---- *)
Lemma point_at_angle_R (c : Rcirc) (t : R) :
  @point_at_angle RNum c t = (fst (cc c) + cr c * cos t, snd (cc c) + cr c * sin t).
Proof. unfold point_at_angle, rot2, add2. cbn [fst snd]. rn. f_equal; ring. Qed.

(* a three-point arc starts at its first point and ends at its third (given that they lie on the circle) *)
Theorem arc_three_points_ends (c : Rcirc) (p0 p1 p2 : R * R) :
  0 <= cr c -> on_circle c p0 -> on_circle c p2 ->
  @arc_start RNum (@arc_three_points RNum c p0 p1 p2) = p0 /\
  @arc_end RNum (@arc_three_points RNum c p0 p1 p2) = p2.
Proof.
  intros Hr H0 H2. destruct c as [[cx cy] r]. destruct p0 as [x0 y0], p2 as [x2 y2].
  unfold on_circle in *. cbn [cc cr fst snd] in *.
  unfold arc_start, arc_end, arc_point_at_angle, arc_three_points. cbn [acirc a0 asweep].
  rewrite !point_at_angle_R. cbn [cc cr fst snd]. unfold angle_of_point, sub2. cbn [cc fst snd]. rn.
  set (th0 := atan2 (y0 - cy) (x0 - cx)).
  destruct (atan2_polar (y0 - cy) (x0 - cx)) as [Hx0 Hy0]. fold th0 in Hx0, Hy0.
  assert (Hn0 : sqrt ((x0 - cx) * (x0 - cx) + (y0 - cy) * (y0 - cy)) = r).
  { rewrite H0. apply sqrt_square. exact Hr. }
  rewrite Hn0 in Hx0, Hy0.
  split.
  - rewrite Rplus_0_r. f_equal; lra.
  - (* the sweep is +- the directed angle from v0 to v2; rotating v0 by it gives v2 *)
    set (v0 := (x0 - cx, y0 - cy)). set (v2 := (x2 - cx, y2 - cy)).
    assert (Hn2 : sqrt ((x2 - cx) * (x2 - cx) + (y2 - cy) * (y2 - cy)) = r).
    { rewrite H2. apply sqrt_square. exact Hr. }
    pose proof (signed_angle_rotates v0 v2) as Hrot. cbv zeta in Hrot. unfold v0, v2 in Hrot. cbn [fst snd] in Hrot.
    rewrite Hn0, Hn2 in Hrot. fold v0 v2 in Hrot. set (sg := @signed_angle RNum v0 v2) in *.
    (* cos/sin of the sweep equal those of the signed angle in every branch *)
    assert (Hsw : forall sw, (cos sw = cos sg /\ sin sw = sin sg) ->
              (cx + r * cos (th0 + sw), cy + r * sin (th0 + sw)) = (x2, y2)).
    { intros sw [Hc Hs]. rewrite cos_plus, sin_plus, Hc, Hs. destruct Hrot as [R1 R2].
      destruct (Req_dec r 0) as [Z|NZ].
      - assert (H2' : Rsqr (x2 - cx) + Rsqr (y2 - cy) = 0) by (unfold Rsqr; rewrite H2, Z; ring).
        destruct (Rplus_sqr_eq_0 (x2 - cx) (y2 - cy) H2') as [E1 E2]. rewrite Z.
        f_equal; lra.
      - f_equal.
        + apply Rmult_eq_reg_l with r; [|exact NZ].
          replace (r * (cx + r * (cos th0 * cos sg - sin th0 * sin sg))) with (r * cx + r * ((r * cos th0) * cos sg - (r * sin th0) * sin sg)) by ring.
          rewrite <- Hx0, <- Hy0. rewrite R1. ring.
        + apply Rmult_eq_reg_l with r; [|exact NZ].
          replace (r * (cy + r * (sin th0 * cos sg + cos th0 * sin sg))) with (r * cy + r * ((r * cos th0) * sin sg + (r * sin th0) * cos sg)) by ring.
          rewrite <- Hx0, <- Hy0. rewrite R2. ring. }
    apply Hsw.
    assert (C2 : forall x, cos (x + 2 * PI) = cos x) by (intros x; rewrite cos_plus, cos_2PI, sin_2PI; ring).
    assert (S2 : forall x, sin (x + 2 * PI) = sin x) by (intros x; rewrite sin_plus, cos_2PI, sin_2PI; ring).
    unfold directed_angle. fold sg. rn. rewrite two_pi_R.
    match goal with |- context [Rlt_bool ?dt 0] => destruct (Rlt_bool dt 0) end.
    + rewrite Rmult_1_r. destruct (Rlt_bool sg 0); [rewrite C2, S2|]; split; reflexivity.
    + replace (sg * - (1)) with (- sg) by ring. destruct (Rlt_bool (- sg) 0).
      * rewrite cos_neg, sin_neg, C2, S2, cos_neg, sin_neg. split; ring.
      * rewrite Ropp_involutive. split; reflexivity.
Qed.

(* arc length / point-at consistency: by definition point_at_length l = point_at_fraction (l / L) *)
Theorem arc_length_spec (a : @arc RNum) :
  @arc_length RNum a = cr (acirc a) * Rabs (asweep a) /\ (forall l, @arc_point_at_length RNum a l = @arc_point_at_fraction RNum a (l / @arc_length RNum a)) /\ (forall f, @arc_point_at_fraction RNum a f = @point_at_angle RNum (acirc a) (a0 a + asweep a * f)).
Proof. repeat split. Qed.

(* the cached bounding box of a circle contains it and touches it on all four sides *)
Theorem circle_aabb_tight (c : Rcirc) : 0 <= cr c ->
  let '(mins, maxs) := @circle_aabb RNum c in
  (forall t, fst mins <= fst (@point_at_angle RNum c t) <= fst maxs /\ snd mins <= snd (@point_at_angle RNum c t) <= snd maxs) /\ fst (@point_at_angle RNum c 0) = fst maxs /\ fst (@point_at_angle RNum c PI) = fst mins /\ snd (@point_at_angle RNum c (PI / 2)) = snd maxs /\ snd (@point_at_angle RNum c (- (PI / 2))) = snd mins.
Proof.
  intros Hr. unfold circle_aabb. cbn [fst snd]. rn. split; [|split; [|split; [|split]]].
  - intros t. rewrite point_at_angle_R. cbn [fst snd]. pose proof (COS_bound t) as [C1 C2]. pose proof (SIN_bound t) as [S1 S2].
    assert (A1 : cr c * cos t <= cr c * 1) by (apply Rmult_le_compat_l; assumption).
    assert (A2 : cr c * (-1) <= cr c * cos t) by (apply Rmult_le_compat_l; assumption).
    assert (A3 : cr c * sin t <= cr c * 1) by (apply Rmult_le_compat_l; assumption).
    assert (A4 : cr c * (-1) <= cr c * sin t) by (apply Rmult_le_compat_l; assumption).
    rn. lra.
  - rewrite point_at_angle_R. cbn [fst]. rewrite cos_0. rn. lra.
  - rewrite point_at_angle_R. cbn [fst]. rewrite cos_PI. rn. lra.
  - rewrite point_at_angle_R. cbn [snd]. rewrite sin_PI2. rn. lra.
  - rewrite point_at_angle_R. cbn [snd]. rewrite sin_neg, sin_PI2. rn. lra.
Qed.
