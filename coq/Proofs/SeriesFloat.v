(* C17 at binary64: the validity check of a discrete domain is comparison-only, so on finite floats it
   decides exactly the real-number ordering of the stored values. *)
From Coq Require Import ZArith Reals Lra Bool List Sorted.
From Flocq Require Import Core IEEE754.BinarySingleNaN IEEE754.PrimFloat.
From Coq Require Import Floats.
From EG Require Import Num.Num Num.RNum Num.FNum Num.FloatOrder Model.Series Proofs.Series.
Import ListNotations.

Theorem ascending_float (l : list PrimFloat.float) :
  Forall fin l -> @ascending FNum l = @ascending RNum (map F2R' l).
Proof.
  induction l as [|a [|b l] IH]; intros Hf; try reflexivity.
  inversion Hf as [|? ? Ha Hf']; subst. inversion Hf' as [|? ? Hb _]; subst.
  cbn [ascending map]. cbn [nleb FNum RNum]. rewrite (leb_real a b Ha Hb). f_equal. apply IH. exact Hf'.
Qed.

(* an accepted vector of finite floats is ascending as real numbers; a rejected one is not *)
Corollary dd_try_from_float (l : list PrimFloat.float) :
  Forall fin l ->
  (@ascending FNum l = true <-> StronglySorted Rle (map F2R' l)).
Proof. intros Hf. rewrite (ascending_float l Hf). apply ascending_valid. Qed.
