(* C18 at binary64: Interval is comparison-only, so on finite floats the model at FNum computes
   exactly what the model at RNum computes on the embedded values (bit-exact, incl. ulp neighbours). *)
From Coq Require Import ZArith Reals Lra Bool.
From Flocq Require Import Core IEEE754.BinarySingleNaN IEEE754.PrimFloat.
From Coq Require Import Floats.
From EG Require Import Num.Num Num.RNum Num.FNum Num.FloatOrder Model.Types Model.Interval Proofs.Interval.
Local Open Scope R_scope.

Notation FI := (@Interval FNum).
Definition mapI (i : FI) : RI := mk_Interval (F2R' (Interval_min i)) (F2R' (Interval_max i)).
Definition finI (i : FI) : Prop := fin (Interval_min i) /\ fin (Interval_max i).

Lemma f_min_real a b : fin a -> fin b -> F2R' (f_min a b) = Rmin (F2R' a) (F2R' b) /\ fin (f_min a b).
Proof.
  intros Ha Hb. unfold f_min. rewrite (fin_not_nan a Ha), (fin_not_nan b Hb), (ltb_real b a Hb Ha).
  unfold Rmin. destruct (Rlt_bool_spec (F2R' b) (F2R' a)); destruct (Rle_dec (F2R' a) (F2R' b)); split; auto; lra.
Qed.
Lemma f_max_real a b : fin a -> fin b -> F2R' (f_max a b) = Rmax (F2R' a) (F2R' b) /\ fin (f_max a b).
Proof.
  intros Ha Hb. unfold f_max. rewrite (fin_not_nan a Ha), (fin_not_nan b Hb), (ltb_real a b Ha Hb).
  unfold Rmax. destruct (Rlt_bool_spec (F2R' a) (F2R' b)); destruct (Rle_dec (F2R' a) (F2R' b)); split; auto; lra.
Qed.

Theorem interval_new_float a b :
  fin a -> fin b ->
  mapI (@Interval_new FNum a b) = @Interval_new RNum (F2R' a) (F2R' b) /\ finI (@Interval_new FNum a b).
Proof.
  intros Ha Hb. destruct (f_min_real a b Ha Hb) as [E1 F1]. destruct (f_max_real a b Ha Hb) as [E2 F2].
  unfold Interval_new, mapI, finI. cbn [Interval_min Interval_max nmin nmax FNum RNum]. rewrite E1, E2. auto.
Qed.

Theorem interval_contains_float (i : FI) x :
  finI i -> fin x -> @Interval_contains FNum i x = @Interval_contains RNum (mapI i) (F2R' x).
Proof.
  intros [H1 H2] Hx. unfold Interval_contains, mapI. cbn [Interval_min Interval_max nleb FNum RNum].
  rewrite (leb_real _ _ H1 Hx), (leb_real _ _ Hx H2). reflexivity.
Qed.

Theorem interval_overlaps_float (i o : FI) :
  finI i -> finI o -> @Interval_overlaps FNum i o = @Interval_overlaps RNum (mapI i) (mapI o).
Proof.
  intros Hi Ho. unfold Interval_overlaps.
  rewrite (interval_contains_float i _ Hi (proj1 Ho)), (interval_contains_float o _ Ho (proj1 Hi)). reflexivity.
Qed.

Theorem interval_intersection_float (i o : FI) :
  finI i -> finI o ->
  option_map mapI (@Interval_intersection FNum i o) = @Interval_intersection RNum (mapI i) (mapI o).
Proof.
  intros Hi Ho. unfold Interval_intersection. rewrite (interval_overlaps_float i o Hi Ho).
  destruct (@Interval_overlaps RNum (mapI i) (mapI o)); [|reflexivity]. cbn [option_map]. f_equal.
  destruct Hi as [Hi1 Hi2], Ho as [Ho1 Ho2].
  destruct (f_max_real _ _ Hi1 Ho1) as [E1 F1]. destruct (f_min_real _ _ Hi2 Ho2) as [E2 F2].
  cbn [nmin nmax FNum]. rewrite (proj1 (interval_new_float _ _ F1 F2)). rewrite E1, E2. reflexivity.
Qed.

Theorem interval_clamp_float (i : FI) x :
  finI i -> fin x -> F2R' (@Interval_clamp FNum i x) = @Interval_clamp RNum (mapI i) (F2R' x).
Proof.
  intros [H1 H2] Hx. unfold Interval_clamp, mapI. cbn [Interval_min Interval_max nmin nmax FNum RNum].
  destruct (f_min_real x _ Hx H2) as [E1 F1]. destruct (f_max_real _ _ F1 H1) as [E2 _].
  rewrite E2, E1. reflexivity.
Qed.

(* the headline consequences, stated directly on binary64 values *)
Theorem interval_contains_float_iff (a b x : PrimFloat.float) :
  fin a -> fin b -> fin x ->
  (@Interval_contains FNum (@Interval_new FNum a b) x = true <->
   Rmin (F2R' a) (F2R' b) <= F2R' x <= Rmax (F2R' a) (F2R' b)).
Proof.
  intros Ha Hb Hx. destruct (interval_new_float a b Ha Hb) as [E F].
  rewrite (interval_contains_float _ x F Hx), E. apply interval_contains_iff.
Qed.

(* NaN is rejected by every checked constructor *)
Theorem interval_nan_rejected (a b : PrimFloat.float) :
  PrimFloat.is_nan a = true \/ PrimFloat.is_nan b = true ->
  @Interval_new__asserts FNum a b = false /\ @Interval_try_new FNum a b = Err.
Proof.
  intros H. unfold Interval_new__asserts, Interval_try_new. cbn [nisnan FNum].
  destruct H as [H | H]; rewrite H; destruct (PrimFloat.is_nan a), (PrimFloat.is_nan b); auto.
Qed.
