(* C12: boundary-loop extraction always terminates and uses every boundary edge exactly once. *)
From Coq Require Import ZArith List Bool Arith Lia Permutation.
From EG Require Import Model.MeshTopo.
Import ListNotations.

Definition unused_count (used : list bool) : nat := length (filter negb used).

Lemma set_nth_length {A} (l : list A) i x : length (set_nth l i x) = length l.
Proof. revert i; induction l; destruct i; cbn; auto. Qed.

Lemma set_nth_nth (l : list bool) i j : i < length l ->
  nth j (set_nth l i true) false = if j =? i then true else nth j l false.
Proof.
  revert i j; induction l as [|a l IH]; intros i j Hi; cbn in Hi; [lia|].
  destruct i, j; cbn; auto. apply IH. lia.
Qed.

Lemma set_nth_unused (l : list bool) i : i < length l -> nth i l false = false ->
  S (unused_count (set_nth l i true)) = unused_count l.
Proof.
  unfold unused_count. revert i; induction l as [|a l IH]; intros i Hi Hn; cbn in Hi; [lia|].
  destruct i; cbn in *.
  - subst a. cbn. reflexivity.
  - destruct a; cbn; [apply IH; [lia | exact Hn] | f_equal; apply IH; [lia | exact Hn]].
Qed.

Lemma first_unused_spec es : forall used v w i0 j,
  first_unused es used v w i0 = Some j ->
  exists n, j = i0 + n /\ n < length es /\ n < length used /\ nth n used false = false /\
            touches (nth n es (0, 0)) v = true.
Proof.
  induction es as [|e es IH]; intros used v w i0 j H; cbn in H; [discriminate|].
  destruct used as [|u used]; [discriminate|].
  destruct (negb u && touches e v && (if w then fst e =? v else negb (fst e =? v))) eqn:E.
  - inversion H; subst. apply andb_true_iff in E. destruct E as [E _]. apply andb_true_iff in E. destruct E as [E1 E2].
    exists 0. cbn. repeat split; try lia; [destruct u; [discriminate | reflexivity] | exact E2].
  - destruct (IH _ _ _ _ _ H) as (n & -> & H1 & H2 & H3 & H4). exists (S n). cbn. repeat split; auto; lia.
Qed.

Lemma next_edge_spec es used v j :
  next_edge es used v = Some j ->
  j < length es /\ j < length used /\ nth j used false = false /\ touches (nth j es (0, 0)) v = true.
Proof.
  unfold next_edge. destruct (first_unused es used v true 0) eqn:E.
  - intros H; inversion H; subst. apply first_unused_spec in E. destruct E as (n & -> & H1 & H2 & H3 & H4).
    cbn. auto.
  - intros H. apply first_unused_spec in H. destruct H as (n & -> & H1 & H2 & H3 & H4). cbn. auto.
Qed.

Definition grows (es : list edge) (used used' : list bool) (new : list nat) : Prop :=
  length used' = length es /\ NoDup new /\
  (forall i, In i new -> i < length es /\ nth i used false = false) /\
  (forall i, nth i used' false = true <-> (nth i used false = true \/ In i new)).

Lemma walk_spec : forall fuel es used first current vs ix,
  length used = length es -> unused_count used < fuel ->
  exists vs' new used' closed,
    walk fuel es used first current vs ix = Some (vs', ix ++ new, used', closed) /\ grows es used used' new.
Proof.
  induction fuel as [|fuel IH]; intros es used first current vs ix Hlen Hf; [lia|].
  cbn [walk]. destruct (current =? first).
  - exists vs, [], used, true. rewrite app_nil_r. split; [reflexivity|].
    split; [exact Hlen|]. split; [constructor|]. split; [intros i []|]. intros i; cbn [In]; tauto.
  - destruct (next_edge es used current) as [j|] eqn:E.
    + apply next_edge_spec in E. destruct E as (Hj1 & Hj2 & Hj3 & _).
      assert (Hlen1 : length (set_nth used j true) = length es) by (rewrite set_nth_length; exact Hlen).
      assert (Hf1 : unused_count (set_nth used j true) < fuel).
      { pose proof (set_nth_unused used j Hj2 Hj3). lia. }
      destruct (IH es (set_nth used j true) first (other_end (nth j es (0, 0)) current) (vs ++ [current]) (ix ++ [j]) Hlen1 Hf1)
        as (vs' & new & used' & closed & Hw & Hg).
      exists vs', (j :: new), used', closed. split.
      { rewrite Hw. rewrite <- app_assoc. reflexivity. }
      destruct Hg as (G1 & G2 & G3 & G4). split; [exact G1|]. split.
      { constructor; [|exact G2]. intros Hin. apply G3 in Hin. destruct Hin as [_ Hin].
        rewrite set_nth_nth in Hin by exact Hj2. rewrite Nat.eqb_refl in Hin. discriminate. }
      split.
      { intros i [<- | Hin]; [split; assumption|]. apply G3 in Hin. destruct Hin as [Hi Hn]. split; [exact Hi|].
        rewrite set_nth_nth in Hn by exact Hj2. destruct (i =? j); [discriminate | exact Hn]. }
      { intros i. rewrite G4. rewrite set_nth_nth by exact Hj2. cbn [In].
        destruct (Nat.eqb_spec i j); [subst; intuition | intuition; congruence]. }
    + exists (vs ++ [current]), [], used, false. rewrite app_nil_r. split; [reflexivity|].
      split; [exact Hlen|]. split; [constructor|]. split; [intros i []|]. intros i; cbn [In]; tauto.
Qed.

Lemma nodup_app {A} (l1 l2 : list A) :
  NoDup l1 -> NoDup l2 -> (forall x, In x l1 -> ~ In x l2) -> NoDup (l1 ++ l2).
Proof.
  induction l1 as [|a l1 IH]; cbn; intros H1 H2 Hd; [exact H2|].
  inversion H1; subst. constructor.
  - intros Hin. apply in_app_or in Hin. destruct Hin as [Hin | Hin]; [contradiction|]. apply (Hd a); auto.
  - apply IH; [assumption | assumption | intros x Hx; apply Hd; right; exact Hx].
Qed.

Lemma nodup_app_inv {A} (l1 l2 : list A) :
  NoDup (l1 ++ l2) -> NoDup l1 /\ NoDup l2 /\ (forall x, In x l1 -> ~ In x l2).
Proof.
  induction l1 as [|a l1 IH]; cbn; intros H.
  - split; [constructor|]. split; [exact H|]. intros x [].
  - inversion H as [|? ? Hn Hr]; subst. destruct (IH Hr) as (H1 & H2 & H3). split; [|split; [exact H2|]].
    + constructor; [|exact H1]. intros Hc. apply Hn. apply in_or_app. left. exact Hc.
    + intros x [<- | Hx]; [intros Hc; apply Hn; apply in_or_app; right; exact Hc | apply H3; exact Hx].
Qed.

(* state invariant across loops *)
Definition linv (es : list edge) (s : loops_state) : Prop :=
  length (ls_used s) = length es /\ NoDup (concat (ls_edges s)) /\
  (forall i, In i (concat (ls_edges s)) -> i < length es) /\
  (forall i, nth i (ls_used s) false = true <-> In i (concat (ls_edges s))) /\
  length (ls_loops s) = length (ls_edges s).

Lemma unused_count_le used : unused_count used <= length used.
Proof. unfold unused_count. induction used as [|[] l IH]; cbn; lia. Qed.

Lemma loop_step_spec es s start :
  linv es s -> start < length es ->
  exists s', loop_step es (Some s) start = Some s' /\ linv es s' /\
             nth start (ls_used s') false = true /\
             (forall i, nth i (ls_used s) false = true -> nth i (ls_used s') false = true).
Proof.
  intros (L1 & L2 & L3 & L4 & L5) Hs. cbn [loop_step].
  destruct (nth start (ls_used s) true) eqn:Eu.
  - exists s. split; [reflexivity|]. split; [repeat split; auto; apply L4|]. split; [|auto].
    rewrite <- Eu. apply nth_indep. lia.
  - assert (Eu' : nth start (ls_used s) false = false) by (rewrite <- Eu; apply nth_indep; lia).
    assert (Hs' : start < length (ls_used s)) by lia.
    set (used1 := set_nth (ls_used s) start true).
    assert (Hlen1 : length used1 = length es) by (unfold used1; rewrite set_nth_length; exact L1).
    assert (Hf : unused_count used1 < S (length es)).
    { pose proof (unused_count_le used1). lia. }
    set (e := nth start es (0, 0)).
    destruct (walk_spec (S (length es)) es used1 (fst e) (snd e) [fst e] [start] Hlen1 Hf)
      as (vs' & new & used' & closed & Hw & G1 & G2 & G3 & G4).
    rewrite Hw. eexists. split; [reflexivity|]. unfold linv. cbn [ls_used ls_loops ls_edges ls_closed].
    assert (Hin_new : forall i, In i new -> ~ In i (concat (ls_edges s)) /\ i <> start /\ i < length es).
    { intros i Hi. apply G3 in Hi. destruct Hi as [Hi Hn]. unfold used1 in Hn.
      rewrite set_nth_nth in Hn by exact Hs'. destruct (Nat.eqb_spec i start); [discriminate|].
      split; [|split; assumption]. intros Hc. apply L4 in Hc. congruence. }
    split; [|split].
    + split; [exact G1|]. rewrite concat_app. cbn [concat]. rewrite app_nil_r. split.
      { change (concat (ls_edges s) ++ ([start] ++ new)) with (concat (ls_edges s) ++ (start :: new)).
        apply nodup_app; [exact L2 | |].
        - constructor; [|exact G2]. intros Hc. apply Hin_new in Hc. lia.
        - intros x Hx [<- | Hc]; [apply L4 in Hx; congruence | apply Hin_new in Hc; tauto]. }
      split.
      { intros i Hi. apply in_app_or in Hi. destruct Hi as [Hi | [<- | Hi]]; [apply L3; exact Hi | exact Hs | apply Hin_new; exact Hi]. }
      split.
      { intros i. rewrite G4. unfold used1. rewrite set_nth_nth by exact Hs'. rewrite in_app_iff. cbn [app In].
        rewrite <- L4. destruct (Nat.eqb_spec i start); [subst; intuition | intuition; congruence]. }
      { rewrite !app_length. cbn. lia. }
    + apply G4. left. unfold used1. rewrite set_nth_nth by exact Hs'. rewrite Nat.eqb_refl. reflexivity.
    + intros i Hi. apply G4. left. unfold used1. rewrite set_nth_nth by exact Hs'.
      destruct (i =? start); [reflexivity | exact Hi].
Qed.

Lemma loops_fold es : forall starts s,
  linv es s -> (forall x, In x starts -> x < length es) ->
  exists s', fold_left (loop_step es) starts (Some s) = Some s' /\ linv es s' /\
             (forall i, nth i (ls_used s) false = true -> nth i (ls_used s') false = true) /\
             (forall x, In x starts -> nth x (ls_used s') false = true).
Proof.
  induction starts as [|a starts IH]; intros s Hs Hb; cbn [fold_left].
  - exists s. split; [reflexivity|]. split; [exact Hs|]. split; [auto|]. intros x [].
  - destruct (loop_step_spec es s a Hs (Hb a (or_introl eq_refl))) as (s1 & E1 & I1 & U1 & M1).
    rewrite E1. destruct (IH s1 I1 (fun x Hx => Hb x (or_intror Hx))) as (s2 & E2 & I2 & M2 & U2).
    exists s2. split; [exact E2|]. split; [exact I2|]. split; [auto|].
    intros x [<- | Hx]; [apply M2; exact U1 | apply U2; exact Hx].
Qed.

(* Termination and exactly-once, for every list of boundary edges: the walk never runs out of fuel, and the
   edge indices consumed by the loops are a permutation of all boundary edges. *)
Theorem boundary_loops_exactly_once (es : list edge) :
  exists s, boundary_loops_full es = Some s /\
            Permutation (concat (ls_edges s)) (seq 0 (length es)) /\
            length (ls_loops s) = length (ls_edges s).
Proof.
  unfold boundary_loops_full.
  assert (Hinit : linv es (mkLS (repeat false (length es)) [] [] true)).
  { unfold linv; cbn. split; [apply repeat_length|]. split; [constructor|]. split; [intros i []|]. split; [|reflexivity].
    intros i. split; [|intros []]. intros H. exfalso.
    assert (nth i (repeat false (length es)) false = false).
    { clear. generalize (length es). intros n. revert i. induction n; destruct i; cbn; auto. }
    congruence. }
  destruct (loops_fold es (seq 0 (length es)) _ Hinit) as (s & E & (L1 & L2 & L3 & L4 & L5) & _ & U).
  { intros x Hx. apply in_seq in Hx. lia. }
  exists s. split; [exact E|]. split; [|exact L5].
  apply NoDup_Permutation; [exact L2 | apply seq_NoDup|].
  intros x. rewrite in_seq. split.
  - intros Hx. apply L3 in Hx. lia.
  - intros Hx. apply L4. apply U. apply in_seq. lia.
Qed.

Corollary boundary_loops_total (es : list edge) : exists loops, boundary_loops es = Some loops.
Proof.
  destruct (boundary_loops_exactly_once es) as (s & E & _). unfold boundary_loops. rewrite E. eexists; reflexivity.
Qed.
