(* C15: sampled points lie on the face they are generated for (convex combinations of its corners), and a uniform draw
   selects face i exactly when it falls in the i-th interval of the running area totals. *)
From Coq Require Import ZArith Reals Lra Lia List Psatz Bool Arith.
From Flocq Require Import Core.Raux.
From EG Require Import Num.Num Num.RNum Lib.Vec Proofs.VecR Model.Types Model.Sampling.
Import ListNotations.
Local Open Scope R_scope.

Notation P3 := (@V3 RNum).
Ltac req := match goal with |- @eq _ ?L ?R' => change (@eq R L R') end.
Ltac rn := cbn [num nadd nsub nmul ndiv nneg nabs nsqrt nofZ nltb nleb neqb nmin nmax nlit nsin ncos nacos npi RNum] in *.

Definition comb3 (a b c : P3) (w0 w1 w2 : R) : P3 := add3 (add3 (scale3 a w0) (scale3 b w1)) (scale3 c w2).
Definition in_tri (a b c q : P3) : Prop :=
  exists w0 w1 w2, 0 <= w0 /\ 0 <= w1 /\ 0 <= w2 /\ w0 + w1 + w2 = 1 /\ q = comb3 a b c w0 w1 w2.

Ltac v3 := repeat match goal with p : P3 |- _ => destruct p as [[? ?] ?] end.
Ltac v3eq := unfold comb3; vec_unfold; apply f_equal2; [apply f_equal2|]; req.

Lemma in_tri_swap12 a b c q : in_tri b a c q -> in_tri a b c q.
Proof. intros (w0 & w1 & w2 & H0 & H1 & H2 & Hs & ->). exists w1, w0, w2. repeat split; try lra. v3. v3eq; ring. Qed.
Lemma in_tri_rot a b c q : in_tri c a b q -> in_tri a b c q.
Proof. intros (w0 & w1 & w2 & H0 & H1 & H2 & Hs & ->). exists w1, w2, w0. repeat split; try lra. v3. v3eq; ring. Qed.

Lemma lattice_in_tri (p x y : P3) (uf vf : R) : 0 <= uf -> 0 <= vf -> uf + vf <= 1 ->
  in_tri p x y (add3 (add3 p (scale3 (sub3 x p) uf)) (scale3 (sub3 y p) vf)).
Proof. intros Hu Hv Hs. exists (1 - uf - vf), uf, vf. repeat split; try lra. v3. v3eq; ring. Qed.

Lemma centre_in_tri (a b c : P3) : in_tri a b c (@mean_tri RNum a b c).
Proof. exists (/ 3), (/ 3), (/ 3). repeat split; try lra. unfold mean_tri, n3, n0. v3. v3eq; field. Qed.

Lemma range_below_spec (x : R) : forall fuel k0 k, In k (@range_below RNum fuel k0 x) -> (k0 <= k)%nat /\ IZR (Z.of_nat (S k)) <= x.
Proof.
  induction fuel as [|fuel IH]; intros k0 k H; cbn [range_below] in H; [destruct H|].
  unfold nofnat in H. rn. destruct (Rle_bool (IZR (Z.of_nat (S k0))) x) eqn:E; [|destruct H].
  destruct H as [<- | H]; [split; [lia | apply Rleb_true; exact E]|].
  destruct (IH (S k0) k H) as [A B]. split; [lia | exact B].
Qed.

Lemma frac_bounds (k : nat) (x : R) : IZR (Z.of_nat (S k)) <= x -> 0 <= IZR (Z.of_nat k) / x.
Proof.
  intros H. assert (H1 : 0 <= IZR (Z.of_nat k)) by (apply IZR_le; lia).
  assert (H2 : IZR (Z.of_nat (S k)) = IZR (Z.of_nat k) + 1) by (rewrite Nat2Z.inj_succ, succ_IZR; reflexivity).
  apply Rmult_le_pos; [exact H1 | left; apply Rinv_0_lt_compat; lra].
Qed.

Theorem dense_face_on_face (fuel : nat) (a b c : P3) (s : R) (q : P3) :
  In q (@dense_face RNum fuel a b c s) -> in_tri a b c q.
Proof.
  unfold dense_face. destruct (negb (has_normal a b c)); [intros []|]. destruct (_ && _ && _) eqn:Ec.
  - intros [<- | []]. apply centre_in_tri.
  - set (aa := (nabs (angle3 (sub3 b a) (sub3 c a)) - half_pi)%num). set (ab := (nabs (angle3 (sub3 a b) (sub3 c b)) - half_pi)%num).
    set (ac := (nabs (angle3 (sub3 a c) (sub3 b c)) - half_pi)%num).
    assert (G : forall (p x y : P3), In q (flat_map (fun ui => flat_map (fun vi =>
                  let uf := (nofnat ui / (norm3 (sub3 x p) / s))%num in let vf := (nofnat vi / (norm3 (sub3 y p) / s))%num in
                  if (uf + vf <=? n1)%num then [add3 (add3 p (scale3 (sub3 x p) uf)) (scale3 (sub3 y p) vf)] else [])
                  (@range_below RNum fuel 0 (norm3 (sub3 y p) / s)%num)) (@range_below RNum fuel 0 (norm3 (sub3 x p) / s)%num)) -> in_tri p x y q).
    { intros p x y H. apply in_flat_map in H. destruct H as (ui & Hui & H). apply in_flat_map in H. destruct H as (vi & Hvi & H).
      cbv zeta in H. unfold nofnat, n1 in H. rn.
      destruct (Rle_bool _ _) eqn:E; [|destruct H]. destruct H as [<- | []]. apply Rleb_true in E.
      apply range_below_spec in Hui, Hvi. destruct Hui as [_ Hu], Hvi as [_ Hv].
      apply lattice_in_tri; [apply frac_bounds; exact Hu | apply frac_bounds; exact Hv | exact E]. }
    destruct ((aa <? ab)%num && (aa <? ac)%num).
    + intros H. apply (G a b c H).
    + destruct ((ab <? aa)%num && (ab <? ac)%num).
      * intros H. apply in_tri_swap12. apply (G b a c H).
      * intros H. apply in_tri_rot. apply (G c a b H).
Qed.

Theorem sample_dense_on_mesh (fuel : nat) (verts : list P3) (faces : list (nat * nat * nat)) (s : R) (q : P3) :
  In q (@sample_dense RNum fuel verts faces s) ->
  exists i j k, In (i, j, k) faces /\ in_tri (nth i verts (0, 0, 0)) (nth j verts (0, 0, 0)) (nth k verts (0, 0, 0)) q.
Proof.
  unfold sample_dense. intros H. apply in_flat_map in H. destruct H as ([[i j] k] & Hf & H).
  exists i, j, k. split; [exact Hf | apply (dense_face_on_face fuel _ _ _ s q H)].
Qed.

(* the uniform sample for draws r1, r2 in [0, 1] *)
Theorem uniform_point_on_face (a b c : P3) (r1 r2 : R) : 0 <= r1 <= 1 -> 0 <= r2 <= 1 ->
  in_tri a b c (@uniform_point RNum a b c r1 r2).
Proof.
  intros H1 H2. assert (Hs : 0 <= sqrt r1 <= 1).
  { split; [apply sqrt_pos|]. rewrite <- sqrt_1. apply sqrt_le_1; lra. }
  exists (1 - sqrt r1), (sqrt r1 * (1 - r2)), (sqrt r1 * r2). repeat split; try nra.
Qed.

(* the face for a draw r: the number of running totals below r; with non-negative areas the totals are non-decreasing, and the
   draw selects face i exactly when total_(i-1) < r <= total_i - an interval as long as the area of face i *)
Lemma count_below_spec (cum : list R) (r : R) :
  let i := @count_below RNum cum r in
  (forall j, (j < i)%nat -> nth j cum 0 < r) /\ ((i < length cum)%nat -> r <= nth i cum 0).
Proof.
  induction cum as [|x l IH]; cbn [count_below]; [split; [intros j Hj; lia | cbn; lia]|].
  rn. destruct (Rlt_bool x r) eqn:E.
  - apply Rltb_true in E. destruct IH as [A B]. split.
    + intros [|j] Hj; cbn [nth]; [exact E | apply A; lia].
    + intros H. cbn [nth]. apply B. cbn in H. lia.
  - apply Rltb_false in E. split; [intros j Hj; lia | intros _; exact E].
Qed.

Lemma cumulative_nth (areas : list R) : forall acc i, (i < length areas)%nat ->
  nth i (@cumulative RNum acc areas) 0 = (match i with O => acc | S i' => nth i' (@cumulative RNum acc areas) 0 end) + nth i areas 0.
Proof.
  induction areas as [|x l IH]; intros acc i Hi; [cbn in Hi; lia|].
  destruct i as [|i]; cbn [cumulative nth]; rn; [reflexivity|].
  rewrite IH by (cbn in Hi; lia). destruct i; reflexivity.
Qed.

Lemma cumulative_length (areas : list R) : forall acc, length (@cumulative RNum acc areas) = length areas.
Proof. induction areas as [|x l IH]; intros acc; cbn [cumulative length]; [reflexivity|]. rewrite IH; reflexivity. Qed.

Theorem uniform_face_interval (areas : list R) (r : R) :
  let cum := @cumulative RNum 0 areas in let i := @count_below RNum cum r in
  (i < length areas)%nat ->
  (match i with O => 0 | S i' => nth i' cum 0 end) + nth i areas 0 = nth i cum 0 /\
  (match i with O => True | S i' => nth i' cum 0 < r end) /\ r <= nth i cum 0.
Proof.
  intros cum i Hi. destruct (count_below_spec cum r) as [A B]. fold i in A, B.
  assert (Hl : length cum = length areas) by apply cumulative_length.
  split; [|split].
  - unfold cum. rewrite (cumulative_nth areas 0 i Hi). reflexivity.
  - destruct i as [|i']; [exact I | apply A; lia].
  - apply B. unfold cum in *. rewrite cumulative_length. exact Hi.
Qed.
