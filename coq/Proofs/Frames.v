(* C19: the two-vector frame constructors give right-handed orthonormal frames with the stated primary and
   secondary axes and fail exactly on zero / parallel arguments; mean/centring facts; planes. *)
From Coq Require Import ZArith Reals Lra Lia List Bool Arith Psatz.
From Flocq Require Import Core.Raux.
From EG Require Import Num.Num Num.RNum Lib.Vec Model.Types Model.Frames Proofs.VecR.
Import ListNotations.
Local Open Scope R_scope.

Notation V := (@V3 RNum).
Ltac rn := cbn [nltb nleb neqb nadd nsub nmul ndiv nneg nabs nsqrt nmin nmax nofZ nlit RNum num] in *;
           change (@num RNum) with R in *; change (@n0 RNum) with 0 in *; change (@n1 RNum) with 1 in *.
Ltac d3 v := let x := fresh v "x" in let y := fresh v "y" in let z := fresh v "z" in destruct v as [[x y] z].
Ltac v3eq := f_equal; [f_equal|].

(* ---- vector algebra ---- *)
Lemma cross_perp_l (a b : V) : dot3 (cross3 a b) a = 0.
Proof. d3 a; d3 b. vec_unfold. ring. Qed.
Lemma cross_perp_r (a b : V) : dot3 (cross3 a b) b = 0.
Proof. d3 a; d3 b. vec_unfold. ring. Qed.
Lemma dot3_sym (a b : V) : dot3 a b = dot3 b a.
Proof. d3 a; d3 b. vec_unfold. ring. Qed.
Lemma lagrange (a b : V) : dot3 (cross3 a b) (cross3 a b) = dot3 a a * dot3 b b - dot3 a b * dot3 a b.
Proof. d3 a; d3 b. vec_unfold. ring. Qed.
Lemma bac_cab (a b c : V) : cross3 a (cross3 b c) = sub3 (scale3 b (dot3 a c)) (scale3 c (dot3 a b)).
Proof. d3 a; d3 b; d3 c. vec_unfold. v3eq; ring. Qed.
Lemma cross_anti (a b : V) : cross3 a b = neg3 (cross3 b a).
Proof. d3 a; d3 b. vec_unfold. v3eq; ring. Qed.
Lemma triple_cyc (a b c : V) : dot3 (cross3 a b) c = dot3 a (cross3 b c).
Proof. d3 a; d3 b; d3 c. vec_unfold. ring. Qed.
Lemma triple_rot (a b c : V) : dot3 (cross3 a b) c = dot3 (cross3 c a) b.
Proof. d3 a; d3 b; d3 c. vec_unfold. ring. Qed.
Lemma dot_div_l (a b : V) n : n <> 0 -> dot3 (div3 a n) b = dot3 a b / n.
Proof. intros Hn. d3 a; d3 b. vec_unfold. field. exact Hn. Qed.
Lemma dot_div_r (a b : V) n : n <> 0 -> dot3 a (div3 b n) = dot3 a b / n.
Proof. intros Hn. d3 a; d3 b. vec_unfold. field. exact Hn. Qed.
Lemma cross_div_l (a b : V) n : n <> 0 -> cross3 (div3 a n) b = div3 (cross3 a b) n.
Proof. intros Hn. d3 a; d3 b. vec_unfold. v3eq; field; exact Hn. Qed.
Lemma cross_div_r (a b : V) n : n <> 0 -> cross3 a (div3 b n) = div3 (cross3 a b) n.
Proof. intros Hn. d3 a; d3 b. vec_unfold. v3eq; field; exact Hn. Qed.
Lemma div3_one (v : V) : div3 v 1 = v.
Proof. d3 v. vec_unfold. v3eq; field. Qed.
Lemma norm3_of_sq (v : V) : norm3 v = sqrt (dot3 v v).
Proof. reflexivity. Qed.
Lemma dot_self_nonneg (v : V) : 0 <= dot3 v v.
Proof. d3 v. vec_unfold. nra. Qed.
Lemma norm_unit (v : V) : dot3 v v = 1 -> norm3 v = 1.
Proof. intros H. rewrite norm3_of_sq, H. apply sqrt_1. Qed.
Lemma unit_of_div (v : V) : 0 < norm3 v -> dot3 (div3 v (norm3 v)) (div3 v (norm3 v)) = 1.
Proof.
  intros H. rewrite dot_div_l, dot_div_r by lra. rewrite <- norm3_sq. rn. field. lra.
Qed.

Definition orthonormal3 (x y z : V) : Prop :=
  dot3 x x = 1 /\ dot3 y y = 1 /\ dot3 z z = 1 /\ dot3 x y = 0 /\ dot3 x z = 0 /\ dot3 y z = 0.

(* two orthogonal unit vectors and their cross product: a right-handed orthonormal triple in every cyclic order *)
Lemma ortho_pair_frame (u v : V) : dot3 u u = 1 -> dot3 v v = 1 -> dot3 u v = 0 ->
  let z := cross3 u v in
  orthonormal3 u v z /\ cross3 v z = u /\ cross3 z u = v.
Proof.
  intros Hu Hv Huv z. unfold z.
  assert (Hz : dot3 (cross3 u v) (cross3 u v) = 1) by (rewrite lagrange, Hu, Hv, Huv; rn; ring).
  split; [|split].
  - repeat split; auto.
    + rewrite dot3_sym. apply cross_perp_l.
    + rewrite dot3_sym. apply cross_perp_r.
  - rewrite bac_cab, Hv, (dot3_sym v u), Huv. d3 u; d3 v. vec_unfold. v3eq; ring.
  - rewrite cross_anti, bac_cab, Hu, Huv. d3 u; d3 v. vec_unfold. v3eq; ring.
Qed.

(* ---- try_normalize ---- *)
Lemma min_norm_small : @MIN_NORM RNum < 1.
Proof. unfold MIN_NORM. cbn. unfold Rlit. cbn. lra. Qed.
Lemma min_norm_pos : 0 < @MIN_NORM RNum.
Proof. unfold MIN_NORM. cbn. unfold Rlit. cbn. lra. Qed.

Lemma try_norm_some (v : V) m u : try_normalize3_min v m = Some u -> m < norm3 v /\ u = div3 v (norm3 v).
Proof.
  unfold try_normalize3_min. rn. destruct (Rle_bool (norm3 v) m) eqn:E; [discriminate|]. rbool.
  intros H; inversion H. split; [lra | reflexivity].
Qed.
Lemma try_norm_none (v : V) m : try_normalize3_min v m = None <-> norm3 v <= m.
Proof.
  unfold try_normalize3_min. rn. destruct (Rle_bool (norm3 v) m) eqn:E; rbool; split; intros H; try discriminate; auto; lra.
Qed.
Lemma try_norm_unit (v : V) : dot3 v v = 1 -> try_normalize3 v = Some v.
Proof.
  intros H. unfold try_normalize3, try_normalize3_min. rn. rewrite (norm_unit v H).
  assert (E : Rle_bool 1 (@MIN_NORM RNum) = false) by (apply Rleb_false; pose proof min_norm_small; lra).
  rewrite E. rewrite div3_one. reflexivity.
Qed.

(* ---- the frame property ---- *)
Definition frame_ok (f : @frame RNum) : Prop :=
  let '(e0, e1, e2) := f in orthonormal3 e0 e1 e2 /\ cross3 e0 e1 = e2.

Definition parallel_or_zero (a b : V) : Prop :=
  norm3 a <= MIN_NORM \/ norm3 (cross3 (normalize3 a) b) <= MIN_NORM * norm3 b.

(* the unit vector along the part of b perpendicular to the unit vector p, two ways round *)
Section Patterns.
  Variables p b : V.
  Hypothesis Hp : dot3 p p = 1.

  Lemma secA n : n = norm3 (cross3 p b) -> 0 < n -> dot3 (cross3 (div3 (cross3 p b) n) p) b = n.
  Proof.
    intros -> Hn. rewrite cross_div_l, dot_div_l by lra. rewrite triple_cyc.
    rewrite <- norm3_sq. rn. field. lra.
  Qed.
  Lemma secB n : n = norm3 (cross3 b p) -> 0 < n -> dot3 (cross3 p (div3 (cross3 b p) n)) b = n.
  Proof.
    intros -> Hn. rewrite cross_div_r, dot_div_l by lra.
    rewrite triple_rot. rewrite <- norm3_sq. rn. field. lra.
  Qed.
  Lemma perpA n : n <> 0 -> dot3 (div3 (cross3 p b) n) p = 0.
  Proof. intros Hn. rewrite dot_div_l by exact Hn. rewrite cross_perp_l. rn. field. exact Hn. Qed.
  Lemma perpB n : n <> 0 -> dot3 (div3 (cross3 b p) n) p = 0.
  Proof. intros Hn. rewrite dot_div_l by exact Hn. rewrite cross_perp_r. rn. field. exact Hn. Qed.
End Patterns.

Lemma norm_cross_anti (a b : V) : norm3 (cross3 a b) = norm3 (cross3 b a).
Proof. rewrite (cross_anti a b). apply norm3_neg. Qed.

Ltac open_frame H :=
  unfold obind in H;
  match type of H with
  | context [try_normalize3 ?a] =>
      let E := fresh "Ea" in destruct (try_normalize3 a) as [?p|] eqn:E; [|discriminate H];
      apply try_norm_some in E
  end;
  match type of H with
  | context [try_cross ?w ?b] =>
      let E := fresh "Et" in unfold try_cross in H; destruct (try_normalize3_min w (MIN_NORM * norm3 b)) as [?t|] eqn:E; [|discriminate H];
      apply try_norm_some in E
  end.

(* every constructor, when it succeeds: orthonormal, right-handed, primary = normalised first argument,
   secondary in the half-plane of the second argument *)
Section Constructors.
  Variables a b : V.

  Lemma first_unit pp : MIN_NORM < norm3 a /\ pp = div3 a (norm3 a) -> dot3 pp pp = 1.
  Proof. intros [H ->]. apply unit_of_div. pose proof min_norm_pos. lra. Qed.

  Lemma second_pos (w : V) : MIN_NORM * norm3 b < norm3 w -> 0 < norm3 w.
  Proof. intros H. pose proof min_norm_pos. pose proof (norm3_nonneg b). nra. Qed.

  Theorem basis_xy_ok f : basis_xy a b = Some f ->
    frame_ok f /\ fst (fst f) = normalize3 a /\ 0 < dot3 (snd (fst f)) b.
  Proof.
    intros H. unfold basis_xy in H. open_frame H. destruct Et as [Ht ->]. pose proof (first_unit _ Ea) as Hp.
    pose proof (second_pos _ Ht) as Hn. set (n := norm3 (cross3 p b)) in *. set (t := div3 (cross3 p b) n) in *.
    assert (Hu : dot3 t t = 1) by (apply unit_of_div; exact Hn).
    assert (Htp : dot3 t p = 0) by (apply perpA; lra).
    destruct (ortho_pair_frame t p Hu Hp Htp) as (O & C1 & C2).
    rewrite try_norm_unit in H by apply O. inversion H; subst f; clear H. cbn [fst snd frame_ok].
    destruct O as (O1 & O2 & O3 & O4 & O5 & O6). split; [|split].
    - split; [|exact C1]. repeat split; auto; rewrite dot3_sym; auto.
    - destruct Ea as [_ ->]. reflexivity.
    - unfold t. rewrite (secA p b n eq_refl Hn). exact Hn.
  Qed.

  Theorem basis_yz_ok f : basis_yz a b = Some f ->
    frame_ok f /\ snd (fst f) = normalize3 a /\ 0 < dot3 (snd f) b.
  Proof.
    intros H. unfold basis_yz in H. open_frame H. destruct Et as [Ht ->]. pose proof (first_unit _ Ea) as Hp.
    pose proof (second_pos _ Ht) as Hn. set (n := norm3 (cross3 p b)) in *. set (t := div3 (cross3 p b) n) in *.
    assert (Hu : dot3 t t = 1) by (apply unit_of_div; exact Hn).
    assert (Htp : dot3 t p = 0) by (apply perpA; lra).
    destruct (ortho_pair_frame t p Hu Hp Htp) as (O & C1 & C2).
    rewrite try_norm_unit in H by apply O. inversion H; subst f; clear H. cbn [fst snd frame_ok].
    split; [|split].
    - split; [exact O | reflexivity].
    - destruct Ea as [_ ->]. reflexivity.
    - unfold t. rewrite (secA p b n eq_refl Hn). exact Hn.
  Qed.

  Theorem basis_zx_ok f : basis_zx a b = Some f ->
    frame_ok f /\ snd f = normalize3 a /\ 0 < dot3 (fst (fst f)) b.
  Proof.
    intros H. unfold basis_zx in H. open_frame H. destruct Et as [Ht ->]. pose proof (first_unit _ Ea) as Hp.
    pose proof (second_pos _ Ht) as Hn. set (n := norm3 (cross3 p b)) in *. set (t := div3 (cross3 p b) n) in *.
    assert (Hu : dot3 t t = 1) by (apply unit_of_div; exact Hn).
    assert (Htp : dot3 t p = 0) by (apply perpA; lra).
    destruct (ortho_pair_frame t p Hu Hp Htp) as (O & C1 & C2).
    rewrite try_norm_unit in H by apply O. inversion H; subst f; clear H. cbn [fst snd frame_ok].
    destruct O as (O1 & O2 & O3 & O4 & O5 & O6). split; [|split].
    - split; [|exact C2]. repeat split; auto; rewrite dot3_sym; auto.
    - destruct Ea as [_ ->]. reflexivity.
    - unfold t. rewrite (secA p b n eq_refl Hn). exact Hn.
  Qed.

  Theorem basis_xz_ok f : basis_xz a b = Some f ->
    frame_ok f /\ fst (fst f) = normalize3 a /\ 0 < dot3 (snd f) b.
  Proof.
    intros H. unfold basis_xz in H. open_frame H. destruct Et as [Ht ->]. pose proof (first_unit _ Ea) as Hp.
    pose proof (second_pos _ Ht) as Hn. set (n := norm3 (cross3 b p)) in *. set (t := div3 (cross3 b p) n) in *.
    assert (Hu : dot3 t t = 1) by (apply unit_of_div; exact Hn).
    assert (Hpt : dot3 p t = 0) by (rewrite dot3_sym; apply perpB; lra).
    destruct (ortho_pair_frame p t Hp Hu Hpt) as (O & C1 & C2).
    rewrite try_norm_unit in H by apply O. inversion H; subst f; clear H. cbn [fst snd frame_ok].
    split; [|split].
    - split; [exact O | reflexivity].
    - destruct Ea as [_ ->]. reflexivity.
    - unfold t. rewrite (secB p b n eq_refl Hn). exact Hn.
  Qed.

  Theorem basis_yx_ok f : basis_yx a b = Some f ->
    frame_ok f /\ snd (fst f) = normalize3 a /\ 0 < dot3 (fst (fst f)) b.
  Proof.
    intros H. unfold basis_yx in H. open_frame H. destruct Et as [Ht ->]. pose proof (first_unit _ Ea) as Hp.
    pose proof (second_pos _ Ht) as Hn. set (n := norm3 (cross3 b p)) in *. set (t := div3 (cross3 b p) n) in *.
    assert (Hu : dot3 t t = 1) by (apply unit_of_div; exact Hn).
    assert (Hpt : dot3 p t = 0) by (rewrite dot3_sym; apply perpB; lra).
    destruct (ortho_pair_frame p t Hp Hu Hpt) as (O & C1 & C2).
    rewrite try_norm_unit in H by apply O. inversion H; subst f; clear H. cbn [fst snd frame_ok].
    destruct O as (O1 & O2 & O3 & O4 & O5 & O6). split; [|split].
    - split; [|exact C2]. repeat split; auto; rewrite dot3_sym; auto.
    - destruct Ea as [_ ->]. reflexivity.
    - unfold t. rewrite (secB p b n eq_refl Hn). exact Hn.
  Qed.

  Theorem basis_zy_ok f : basis_zy a b = Some f ->
    frame_ok f /\ snd f = normalize3 a /\ 0 < dot3 (snd (fst f)) b.
  Proof.
    intros H. unfold basis_zy in H. open_frame H. destruct Et as [Ht ->]. pose proof (first_unit _ Ea) as Hp.
    pose proof (second_pos _ Ht) as Hn. set (n := norm3 (cross3 b p)) in *. set (t := div3 (cross3 b p) n) in *.
    assert (Hu : dot3 t t = 1) by (apply unit_of_div; exact Hn).
    assert (Hpt : dot3 p t = 0) by (rewrite dot3_sym; apply perpB; lra).
    destruct (ortho_pair_frame p t Hp Hu Hpt) as (O & C1 & C2).
    rewrite try_norm_unit in H by apply O. inversion H; subst f; clear H. cbn [fst snd frame_ok].
    destruct O as (O1 & O2 & O3 & O4 & O5 & O6). split; [|split].
    - split; [|exact C1]. repeat split; auto; rewrite dot3_sym; auto.
    - destruct Ea as [_ ->]. reflexivity.
    - unfold t. rewrite (secB p b n eq_refl Hn). exact Hn.
  Qed.
End Constructors.

(* ---- failure exactly on zero or parallel arguments ---- *)
Section Failure.
  Variables a b : V.

  Lemma third_never_fails_A (p : V) n : dot3 p p = 1 -> n = norm3 (cross3 p b) -> 0 < n ->
    try_normalize3 (cross3 (div3 (cross3 p b) n) p) <> None.
  Proof.
    intros Hp -> Hn. rewrite try_norm_unit; [discriminate|].
    apply (ortho_pair_frame (div3 (cross3 p b) (norm3 (cross3 p b))) p); [apply unit_of_div; exact Hn | exact Hp | apply perpA; lra].
  Qed.
  Lemma third_never_fails_B (p : V) n : dot3 p p = 1 -> n = norm3 (cross3 b p) -> 0 < n ->
    try_normalize3 (cross3 p (div3 (cross3 b p) n)) <> None.
  Proof.
    intros Hp -> Hn. rewrite try_norm_unit; [discriminate|].
    apply (ortho_pair_frame p (div3 (cross3 b p) (norm3 (cross3 b p)))); [exact Hp | apply unit_of_div; exact Hn | rewrite dot3_sym; apply perpB; lra].
  Qed.

  Definition degenerate_pair : Prop :=
    norm3 a <= MIN_NORM \/ norm3 (cross3 (normalize3 a) b) <= MIN_NORM * norm3 b.

  Ltac fail_iff tnf wf :=
    unfold degenerate_pair, obind, try_normalize3, try_cross, normalize3;
    destruct (try_normalize3_min a MIN_NORM) as [p|] eqn:Ea;
    [ pose proof (first_unit a p (try_norm_some _ _ _ Ea)) as Hp; apply try_norm_some in Ea; destruct Ea as [Ha ->];
      let w := eval cbv beta in (wf (div3 a (norm3 a))) in
      destruct (try_normalize3_min w (MIN_NORM * norm3 b)) as [t|] eqn:Et;
      [ apply try_norm_some in Et; destruct Et as [Ht ->];
        split; [intros H; exfalso;
                 match type of H with context [try_normalize3_min ?x MIN_NORM] =>
                   assert (Hx : try_normalize3 x <> None) by (apply tnf; [exact Hp | reflexivity | eapply second_pos; exact Ht]);
                   unfold try_normalize3 in Hx; destruct (try_normalize3_min x MIN_NORM); [discriminate H | apply Hx; reflexivity]
                 end
               | intros [H | H]; [rn; lra | first [rn; lra | rewrite norm_cross_anti in H; rn; lra]] ]
      | apply try_norm_none in Et; split; [intros _; right; first [exact Et | rewrite norm_cross_anti; exact Et] | reflexivity] ]
    | apply try_norm_none in Ea; split; [intros _; left; exact Ea | reflexivity] ].

  Theorem basis_xy_none_iff : basis_xy a b = None <-> degenerate_pair.
  Proof. unfold basis_xy. fail_iff third_never_fails_A (fun p : V => cross3 p b). Qed.
  Theorem basis_yz_none_iff : basis_yz a b = None <-> degenerate_pair.
  Proof. unfold basis_yz. fail_iff third_never_fails_A (fun p : V => cross3 p b). Qed.
  Theorem basis_zx_none_iff : basis_zx a b = None <-> degenerate_pair.
  Proof. unfold basis_zx. fail_iff third_never_fails_A (fun p : V => cross3 p b). Qed.
  Theorem basis_xz_none_iff : basis_xz a b = None <-> degenerate_pair.
  Proof. unfold basis_xz. fail_iff third_never_fails_B (fun p : V => cross3 b p). Qed.
  Theorem basis_yx_none_iff : basis_yx a b = None <-> degenerate_pair.
  Proof. unfold basis_yx. fail_iff third_never_fails_B (fun p : V => cross3 b p). Qed.
  Theorem basis_zy_none_iff : basis_zy a b = None <-> degenerate_pair.
  Proof. unfold basis_zy. fail_iff third_never_fails_B (fun p : V => cross3 b p). Qed.
End Failure.

(* ---- weighted mean: invariant under a uniform scaling of the weights; centred vectors scale with it ---- *)
Definition wstep (acc : V * R) (pw : V * R) : V * R := (add3 (fst acc) (scale3 (fst pw) (snd pw)), Rplus (snd acc) (snd pw)).
Lemma wsum3_unfold (pts : list V) (w : list R) : @wsum3 RNum pts w = fold_left wstep (combine pts w) ((0, 0, 0) : V, 0).
Proof. reflexivity. Qed.

Lemma wsum3_scale (s : R) : forall (pw : list (V * R)) (acc : V) (tot : R),
  fold_left wstep (map (fun pw => (fst pw, Rmult (snd pw) s)) pw) (scale3 acc s, Rmult tot s) =
  (scale3 (fst (fold_left wstep pw (acc, tot))) s, Rmult (snd (fold_left wstep pw (acc, tot))) s).
Proof.
  induction pw as [|[p w] pw IH]; intros acc tot; cbn [map fold_left fst snd]; [reflexivity|].
  change (wstep (acc, tot) (p, w)) with (add3 acc (scale3 p w), Rplus tot w).
  rewrite <- IH. f_equal. unfold wstep. cbn [fst snd]. f_equal.
  - d3 acc; d3 p. vec_unfold. v3eq; ring.
  - ring.
Qed.

Lemma combine_map_r {A B C} (f : B -> C) : forall (l : list A) (w : list B),
  combine l (map f w) = map (fun pw => (fst pw, f (snd pw))) (combine l w).
Proof. induction l as [|a l IH]; intros [|b w]; cbn; [reflexivity..|]. rewrite IH. reflexivity. Qed.

Theorem mean3_weighted_scale (pts : list V) (w : list R) (s : R) : s <> 0 ->
  snd (@wsum3 RNum pts w) <> 0 ->
  @mean3_weighted RNum pts (map (fun x => Rmult x s) w) = @mean3_weighted RNum pts w.
Proof.
  intros Hs Hw. unfold mean3_weighted. rewrite !wsum3_unfold in *. rewrite combine_map_r.
  pose proof (wsum3_scale s (combine pts w) ((0, 0, 0) : V) 0) as H.
  replace (@scale3 RNum ((0, 0, 0) : V) s) with ((0, 0, 0) : V) in H by (vec_unfold; v3eq; ring).
  replace (0 * s) with 0 in H by ring.
  rewrite H. cbn [fst snd].
  destruct (fold_left wstep (combine pts w) ((0, 0, 0) : V, 0)) as [[[sx sy] sz] tw]. cbn [fst snd] in *.
  vec_unfold. v3eq; field; split; assumption.
Qed.

(* the whole input of the SVD (centre and centred, weighted vectors) is unchanged by a uniform scaling of the weights *)
Lemma fold_add_scale (s : R) : forall (w : list R) (acc : R),
  fold_left Rplus (map (fun x => Rmult x s) w) (acc * s) = fold_left Rplus w acc * s.
Proof. induction w as [|x w IH]; intros acc; cbn [map fold_left]; [reflexivity|]. rewrite <- IH. f_equal. ring. Qed.
Lemma mean_weight_scale (w : list R) (s : R) : @mean_weight RNum (map (fun x => Rmult x s) w) = @mean_weight RNum w * s.
Proof.
  unfold mean_weight. rewrite map_length. cbn [nadd ndiv RNum]. unfold n0. cbn [nofZ RNum].
  replace 0 with (0 * s) at 1 by ring. rewrite fold_add_scale. unfold Rdiv. rewrite Rmult_assoc, (Rmult_comm s), <- Rmult_assoc. reflexivity.
Qed.
Theorem centred3_weights_scale (pts : list V) (w : list R) (s : R) : s <> 0 ->
  snd (@wsum3 RNum pts w) <> 0 -> @mean_weight RNum w <> 0 ->
  @centred3 RNum pts (Some (map (fun x => Rmult x s) w)) = @centred3 RNum pts (Some w).
Proof.
  intros Hs Hw Hm. unfold centred3. rewrite mean3_weighted_scale by assumption. f_equal.
  rewrite mean_weight_scale, combine_map_r, map_map. apply map_ext. intros [p x]. cbn [fst snd]. f_equal.
  cbn [ndiv nmul RNum]. match goal with |- ?L = ?R' => change (@eq R L R') end. field. split; assumption.
Qed.

(* ---- basis coordinates ---- *)
Theorem to_from_basis3 (b0 b1 b2 c q : V) : orthonormal3 b0 b1 b2 ->
  @to_basis3 RNum (b0, b1, b2) c (@from_basis3 RNum (b0, b1, b2) c q) = q.
Proof.
  intros (H0 & H1 & H2 & H01 & H02 & H12). d3 b0; d3 b1; d3 b2; d3 c; d3 q.
  unfold to_basis3, from_basis3. vec_unfold. v3eq.
  - replace (_ + _ + _) with (qx * (b0x * b0x + b0y * b0y + b0z * b0z) + qy * (b0x * b1x + b0y * b1y + b0z * b1z) + qz * (b0x * b2x + b0y * b2y + b0z * b2z)) by ring.
    rewrite H0, H01, H02. ring.
  - replace (_ + _ + _) with (qx * (b0x * b1x + b0y * b1y + b0z * b1z) + qy * (b1x * b1x + b1y * b1y + b1z * b1z) + qz * (b1x * b2x + b1y * b2y + b1z * b2z)) by ring.
    rewrite H1, H01, H12. ring.
  - replace (_ + _ + _) with (qx * (b0x * b2x + b0y * b2y + b0z * b2z) + qy * (b1x * b2x + b1y * b2y + b1z * b2z) + qz * (b2x * b2x + b2y * b2y + b2z * b2z)) by ring.
    rewrite H2, H02, H12. ring.
Qed.

(* ---- planes ---- *)
Theorem plane_np_contains (n p : V) : plane_signed (plane_from_np n p) p = 0.
Proof. unfold plane_signed, plane_from_np. cbn [pn pd]. rn. ring. Qed.

Theorem plane_project_on_plane (pl : @plane RNum) (q : V) : dot3 (pn pl) (pn pl) = 1 ->
  plane_signed pl (plane_project pl q) = 0.
Proof.
  destruct pl as [n d]. cbn [pn pd]. intros Hn. unfold plane_project. unfold plane_signed. cbn [pn pd].
  d3 n; d3 q. vec_unfold.
  match goal with |- ?L = 0 => replace L with ((nx * qx + ny * qy + nz * qz - d) * (1 - (nx * nx + ny * ny + nz * nz))) by ring end.
  rewrite Hn. ring.
Qed.

Theorem plane_project_idempotent (pl : @plane RNum) (q : V) : dot3 (pn pl) (pn pl) = 1 ->
  plane_project pl (plane_project pl q) = plane_project pl q.
Proof.
  intros Hn. unfold plane_project at 1. rewrite (plane_project_on_plane pl q Hn).
  set (r := plane_project pl q). destruct pl as [n d]. cbn [pn]. d3 n; d3 r. vec_unfold. v3eq; ring.
Qed.

Theorem plane_point_on_plane_fixed (pl : @plane RNum) (q : V) : plane_signed pl q = 0 -> plane_project pl q = q.
Proof. intros H. unfold plane_project. rewrite H. destruct pl as [n d]. cbn [pn]. d3 n; d3 q. vec_unfold. v3eq; ring. Qed.

Theorem plane_inverted_flips (pl : @plane RNum) (q : V) :
  plane_signed (plane_inverted pl) q = - plane_signed pl q /\ plane_dist (plane_inverted pl) q = plane_dist pl q.
Proof.
  assert (E : plane_signed (plane_inverted pl) q = - plane_signed pl q).
  { destruct pl as [n d]. unfold plane_signed, plane_inverted. cbn [pn pd]. d3 n; d3 q. vec_unfold. ring. }
  split; [exact E|]. unfold plane_dist. rewrite E. rn. apply Rabs_Ropp.
Qed.

Lemma plane_np_signed (c p1 p : V) : 0 < norm3 c ->
  plane_signed (plane_from_np (div3 c (norm3 c)) p1) p = dot3 c (sub3 p p1) / norm3 c.
Proof.
  intros Hc. unfold plane_signed, plane_from_np. cbn [pn pd]. rewrite !dot_div_l by lra.
  generalize dependent (norm3 c). intros n Hn. d3 c; d3 p; d3 p1. vec_unfold. field. lra.
Qed.

Theorem plane_from_3_contains (p1 p2 p3 : V) : 0 < norm3 (cross3 (sub3 p2 p1) (sub3 p3 p1)) ->
  let pl := plane_from_3 p1 p2 p3 in
  dot3 (pn pl) (pn pl) = 1 /\ plane_signed pl p1 = 0 /\ plane_signed pl p2 = 0 /\ plane_signed pl p3 = 0.
Proof.
  intros Hc pl. unfold pl, plane_from_3, normalize3.
  split; [apply unit_of_div; exact Hc|]. split; [apply plane_np_contains|].
  split; rewrite plane_np_signed by exact Hc.
  - rewrite cross_perp_l. rn. field. lra.
  - rewrite cross_perp_r. rn. field. lra.
Qed.

(* the other direction needs completeness of an orthonormal triple (B^T B = I implies B B^T = I): Groebner basis *)
From Coq Require Import Nsatz.
Theorem from_to_basis3 (b0 b1 b2 c p : V) : orthonormal3 b0 b1 b2 ->
  @from_basis3 RNum (b0, b1, b2) c (@to_basis3 RNum (b0, b1, b2) c p) = p.
Proof.
  intros (H0 & H1 & H2 & H01 & H02 & H12). d3 b0; d3 b1; d3 b2; d3 c; d3 p.
  unfold to_basis3, from_basis3. vec_unfold. v3eq; nsatz.
Qed.
