(* C16: a point cloud keeps points, normals and colours the same length after any history,
   and a rejected operation changes nothing. *)
From Coq Require Import ZArith Lia List Bool.
From EG Require Import Num.Num Model.Cloud.
Import ListNotations.

Section CloudProofs.
  Context {P Nm C : Type}.
  Notation cloud := (cloud P Nm C).
  Notation cop := (cop P Nm C).

  Lemma try_new_inv p n c (s : cloud) : cloud_try_new p n c = Ok s -> cloud_inv s.
  Proof.
    unfold cloud_try_new, cloud_inv.
    destruct n as [nl|], c as [cl|];
      repeat match goal with |- context [Nat.eqb ?a ?b] => destruct (Nat.eqb_spec a b) end;
      intros H; inversion H; subst; cbn; split; intros l Hl; inversion Hl; subst; auto.
  Qed.

  Lemma try_new_fields p n c (s : cloud) :
    cloud_try_new p n c = Ok s -> pts s = p /\ nrm s = n /\ col s = c.
  Proof.
    unfold cloud_try_new.
    destruct n as [nl|], c as [cl|];
      repeat match goal with |- context [Nat.eqb ?a ?b] => destruct (Nat.eqb a b) end;
      intros H; inversion H; subst; cbn; auto.
  Qed.

  Lemma empty_inv hn hc : cloud_inv (@cloud_empty P Nm C hn hc).
  Proof. unfold cloud_inv, cloud_empty; destruct hn, hc; cbn; split; intros l Hl; inversion Hl; reflexivity. Qed.

  Lemma pick_length {X} (l : list X) idx r : pick l idx = Some r -> length r = length idx.
  Proof.
    revert r; induction idx as [|i idx IH]; cbn; intros r H.
    - inversion H; reflexivity.
    - destruct (nth_error l i); [|discriminate]. destruct (pick l idx); [|discriminate].
      inversion H; subst; cbn. f_equal. apply IH. reflexivity.
  Qed.

  Ltac spec_len :=
    repeat match goal with
    | H : forall l, Some ?x = Some l -> _ |- _ => specialize (H x eq_refl)
    | H : forall l, None = Some l -> _ |- _ => clear H
    end.
  Ltac close_len :=
    cbn; split; (let l := fresh "lx" in let Hl := fresh "Hlx" in intros l Hl; try discriminate; inversion Hl; subst);
    rewrite ?app_length; cbn [length]; try lia; auto.

  Lemma merge_inv (s o : cloud) : cloud_inv s -> cloud_inv o -> cloud_inv (fst (cloud_merge s o)).
  Proof.
    unfold cloud_merge, cloud_inv. destruct s as [ps ns cs], o as [po no co]. cbn [pts nrm col].
    intros [Hn Hc] [Hn' Hc'].
    destruct ns, no, cs, co; spec_len; close_len.
  Qed.

  Lemma append_inv (s : cloud) p n c : cloud_inv s -> cloud_inv (fst (cloud_append s p n c)).
  Proof.
    unfold cloud_append, cloud_inv. destruct s as [ps ns cs]. cbn [pts nrm col].
    intros [Hn Hc].
    destruct ns, n, cs, c; spec_len; close_len.
  Qed.

  Lemma select_inv (s s' : cloud) idx : cloud_select s idx = Ok s' -> cloud_inv s'.
  Proof.
    unfold cloud_select. destruct (pick (pts s) idx); [|discriminate].
    destruct (match nrm s with None => Some None | Some l0 => option_map Some (pick l0 idx) end); [|discriminate].
    destruct (match col s with None => Some None | Some l0 => option_map Some (pick l0 idx) end); [|discriminate].
    destruct (cloud_try_new l o o0) eqn:E; try discriminate.
    intros H; inversion H; subst. eapply try_new_inv; eassumption.
  Qed.

  Theorem cloud_step_inv (s : cloud) (o : cop) : cloud_inv s -> cloud_inv (fst (cloud_step s o)).
  Proof.
    intros Hs. destruct o as [p n c | p n c | idx]; cbn [cloud_step].
    - pose proof (append_inv s p n c Hs). destruct (cloud_append s p n c); exact H.
    - destruct (cloud_try_new p n c) eqn:E; try exact Hs.
      pose proof (merge_inv s c0 Hs (try_new_inv _ _ _ _ E)). destruct (cloud_merge s c0); exact H.
    - destruct (cloud_select s idx) eqn:E; try exact Hs. cbn. eapply select_inv; eassumption.
  Qed.

  (* a rejected (or panicking) operation leaves the cloud exactly as it was *)
  Theorem cloud_step_reject (s : cloud) (o : cop) :
    snd (cloud_step s o) <> 0%Z -> fst (cloud_step s o) = s.
  Proof.
    destruct o as [p n c | p n c | idx]; cbn [cloud_step].
    - unfold cloud_append.
      destruct (negb (eqb (is_some (nrm s)) (is_some n))); [reflexivity|].
      destruct (negb (eqb (is_some (col s)) (is_some c))); [reflexivity|]. cbn. congruence.
    - destruct (cloud_try_new p n c); try reflexivity. unfold cloud_merge.
      destruct (negb (eqb (is_some (nrm s)) (is_some (nrm c0)))); [reflexivity|].
      destruct (negb (eqb (is_some (col s)) (is_some (col c0)))); [reflexivity|]. cbn. congruence.
    - destruct (cloud_select s idx); cbn; congruence.
  Qed.

  (* every history *)
  Theorem cloud_run_inv (ops : list cop) (s : cloud) : cloud_inv s -> cloud_inv (cloud_run s ops).
  Proof.
    revert s; induction ops as [|o ops IH]; intros s Hs; cbn; [exact Hs|].
    apply IH. apply cloud_step_inv. exact Hs.
  Qed.

  Theorem cloud_lengths (s : cloud) :
    cloud_inv s ->
    match nrm s with Some l => length l = length (pts s) | None => True end /\
    match col s with Some l => length l = length (pts s) | None => True end.
  Proof. intros [Hn Hc]. split; [destruct (nrm s) | destruct (col s)]; auto. Qed.
End CloudProofs.
