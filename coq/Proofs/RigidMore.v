(* C03, continued: stations and closest points commute with a rigid motion: the station of the moved curve at l is the
   moved station (moved point, rotated direction, same edge index and fraction), and the closest point of the moved
   polyline to the moved query is the moved closest point on the same edge at the same fraction and distance. *)
From Coq Require Import ZArith Reals Lra Lia List Bool Arith Psatz Sorted.
From Flocq Require Import Core.Raux.
From EG Require Import Num.Num Num.RNum Lib.Vec Model.Types Model.TolMap Model.Curve Model.Closest Model.Frames Model.Rigid.
From EG Require Import Proofs.VecR Proofs.TolMap Proofs.Curve Proofs.Frames Proofs.Rigid.
Import ListNotations.
Local Open Scope R_scope.

(* linearity of the rotation part *)
Record IsoLin (V : @VOps RNum) (T Rm : pt V -> pt V) : Prop := {
  il_add : forall a v, T (vadd V a v) = vadd V (T a) (Rm v);
  il_radd : forall u v, Rm (vadd V u v) = vadd V (Rm u) (Rm v);
  il_scale : forall v t, Rm (vscale V v t) = vscale V (Rm v) t;
  il_div : forall v t, Rm (vdiv V v t) = vdiv V (Rm v) t;
}.

Section Generic.
  Variable V : @VOps RNum.
  Variables T Rm : pt V -> pt V.
  Hypothesis IL : IsoLaws V T Rm.
  Hypothesis LN : IsoLin V T Rm.
  Notation P := (pt V).
  Notation mapc := (map_curve V T).

  Lemma vnormalize_rot (v : P) : vnormalize V (Rm v) = Rm (vnormalize V v).
  Proof. unfold vnormalize. rewrite (vnorm_rot V T Rm IL), (il_div V T Rm LN). reflexivity. Qed.

  Lemma vtx_map (c : curve V) i : (i < count V c)%nat -> vtx V (mapc c) i = T (vtx V c i).
  Proof.
    intros Hi. unfold vtx, map_curve. cbn [cpts]. unfold count in Hi.
    rewrite (nth_indep _ (vzero V) (T (vzero V))) by (rewrite map_length; exact Hi). apply map_nth.
  Qed.
  Lemma count_map (c : curve V) : count V (mapc c) = count V c.
  Proof. unfold count, map_curve. cbn [cpts]. apply map_length. Qed.

  Lemma dir_of_edge_map (c : curve V) i : (S i < count V c)%nat -> dir_of_edge V (mapc c) i = Rm (dir_of_edge V c i).
  Proof.
    intros Hi. unfold dir_of_edge. rewrite !vtx_map by lia. rewrite (il_sub V T Rm IL). apply vnormalize_rot.
  Qed.

  Lemma dir_of_vertex_map (c : curve V) k : (2 <= count V c)%nat -> (k < count V c)%nat ->
    dir_of_vertex V (mapc c) k = Rm (dir_of_vertex V c k).
  Proof.
    intros H2 Hk. unfold dir_of_vertex. rewrite count_map. change (cavg V (mapc c)) with (cavg V c). change (cclosed V (mapc c)) with (cclosed V c).
    destruct (cavg V c).
    - destruct (cclosed V c && ((k =? 0)%nat || (k =? count V c - 1)%nat)).
      + rewrite !dir_of_edge_map by lia. rewrite <- (il_radd V T Rm LN). apply vnormalize_rot.
      + destruct (k =? 0)%nat eqn:E0; [apply dir_of_edge_map; lia|].
        destruct (k =? count V c - 1)%nat eqn:E1; [apply dir_of_edge_map; lia|].
        apply Nat.eqb_neq in E0, E1. rewrite !dir_of_edge_map by lia. rewrite <- (il_radd V T Rm LN). apply vnormalize_rot.
    - destruct (k =? count V c - 1)%nat eqn:E1; [apply Nat.eqb_eq in E1 | apply Nat.eqb_neq in E1]; apply dir_of_edge_map; lia.
  Qed.

  Definition map_station (s : station V) : station V := mkStation V (T (st_point V s)) (Rm (st_dir V s)) (st_index V s) (st_frac V s).

  Lemma at_vertex_map (c : curve V) k : (2 <= count V c)%nat -> (k < count V c)%nat ->
    at_vertex V (mapc c) k = map_station (at_vertex V c k).
  Proof.
    intros H2 Hk. unfold at_vertex. rewrite count_map.
    destruct (k =? count V c - 1)%nat; unfold map_station; cbn [st_point st_dir st_index st_frac];
      rewrite vtx_map by exact Hk; rewrite dir_of_vertex_map by assumption; reflexivity.
  Qed.

  (* which branch of the search a length inside [0, L] takes *)
  Lemma lsearch_cases (c : curve V) (Hwf : WF V c) l : 0 <= l <= clength V c ->
    (exists i, (i < count V c)%nat /\ lsearch V c l = inl i) \/
    (exists k, (1 <= k < count V c)%nat /\ lsearch V c l = inr k).
  Proof.
    intros [Hl0 HlL]. pose proof (wf_n2 V c Hwf) as H2. pose proof (wf_len_count V c Hwf) as Hlen. pose proof (wf_sorted V c Hwf) as Hsort.
    unfold lsearch. rn.
    destruct (last_eq Rlt_bool (clens V c) l 0) as [k|] eqn:Es.
    - left. apply last_eq_some in Es. destruct Es as (i & -> & Hi & _). exists i. split; [|reflexivity].
      rewrite <- Hlen. apply nth_error_Some. congruence.
    - right. apply last_eq_none in Es.
      destruct (count_below_spec (clens V c) l Hsort) as (Hcl & Hlt & Hge).
      set (k := count_below Rlt_bool (clens V c) l) in *. exists k. split; [|reflexivity]. split.
      + destruct (Nat.eq_dec k 0) as [E|]; [|lia]. exfalso.
        assert (Hle0 : l <= nth 0 (clens V c) 0) by (apply (Hge 0%nat); [lia | apply nth_error_nth'; change (@num RNum) with R in *; lia]).
        pose proof (wf_first V c Hwf) as Hf0. apply Es.
        assert (El0 : l = nth 0 (clens V c) 0) by (change (@num RNum) with R in *; lra). rewrite El0. apply nth_In. change (@num RNum) with R in *. lia.
      + destruct (Nat.lt_ge_cases k (count V c)) as [H|H]; [exact H|]. exfalso.
        assert (Hlast : nth (count V c - 1) (clens V c) 0 < l) by (apply (Hlt (count V c - 1)%nat); [lia | apply nth_error_nth'; change (@num RNum) with R in *; lia]).
        pose proof (wf_total V c Hwf) as Htot. change (@num RNum) with R in *. lra.
  Qed.

  (* the station of the moved curve is the moved station *)
  Theorem at_length_iso (c : curve V) (Hwf : WF V c) l :
    at_length V (mapc c) l = option_map map_station (at_length V c l).
  Proof.
    pose proof (wf_n2 V c Hwf) as H2.
    unfold at_length. change (clength V (mapc c)) with (clength V c).
    destruct ((l <? n0)%num || (clength V c <? l)%num) eqn:Eo; [reflexivity|].
    apply orb_false_iff in Eo. destruct Eo as [E1 E2]. cbn [nltb RNum] in E1, E2. change (@n0 RNum) with 0 in E1. rbool.
    change (lsearch V (mapc c) l) with (lsearch V c l).
    destruct (lsearch_cases c Hwf l ltac:(lra)) as [(i & Hi & ->) | (k & Hk & ->)].
    - cbn [option_map]. f_equal. apply at_vertex_map; assumption.
    - cbn [option_map]. f_equal. unfold map_station. cbn [st_point st_dir st_index st_frac].
      change (len_at V (mapc c)) with (len_at V c).
      rewrite dir_of_edge_map by lia. rewrite vtx_map by lia.
      rewrite <- (il_scale V T Rm LN), <- (il_add V T Rm LN). reflexivity.
  Qed.

  (* ---- closest point ---- *)
  Lemma dsq_iso (a b : P) : dsq V (T a) (T b) = dsq V a b.
  Proof. unfold dsq. rewrite (il_sub V T Rm IL), (il_dot V T Rm IL). reflexivity. Qed.

  Lemma seg_param_iso (q a b : P) : seg_param V (T q) (T a) (T b) = seg_param V q a b.
  Proof. unfold seg_param. rewrite !(il_sub V T Rm IL), !(il_dot V T Rm IL). reflexivity. Qed.

  Definition map_best (r : option (R * nat * R * P)) : option (R * nat * R * P) :=
    match r with Some (d, i, t, c) => Some (d, i, t, T c) | None => None end.

  Lemma poly_scan_iso (q : P) : forall pts i best,
    poly_scan V (T q) (map T pts) i (map_best best) = map_best (poly_scan V q pts i best).
  Proof.
    induction pts as [|a pts IH]; intros i best; [reflexivity|].
    destruct pts as [|b rest]; [reflexivity|].
    change (map T (a :: b :: rest)) with (T a :: T b :: map T rest).
    cbn [poly_scan]. rewrite seg_param_iso, (il_sub V T Rm IL).
    rewrite <- (il_scale V T Rm LN), <- (il_add V T Rm LN), dsq_iso.
    change (T b :: map T rest) with (map T (b :: rest)).
    set (t := seg_param V q a b). set (cpt := vadd V a (vscale V (vsub V b a) t)).
    destruct best as [[[[bd bi] bt] bc]|]; cbn [map_best].
    - destruct (dsq V q cpt <? bd)%num.
      + apply (IH (S i) (Some (dsq V q cpt, i, t, cpt))).
      + apply (IH (S i) (Some (bd, bi, bt, bc))).
    - apply (IH (S i) (Some (dsq V q cpt, i, t, cpt))).
  Qed.

  Theorem poly_closest_iso (q : P) (pts : list P) :
    poly_closest V (T q) (map T pts) = map_best (poly_closest V q pts).
  Proof. unfold poly_closest. apply (poly_scan_iso q pts 0%nat None). Qed.
End Generic.

(* ---- the two instances ---- *)
Lemma iso_lin2 (T : @rigid2 RNum) : IsoLin (@VO2 RNum) (apply2 T) (rot2 T).
Proof.
  destruct T as [c s [tx ty]]. constructor; cbn [VO2 vadd vscale vdiv pt]; unfold apply2, rot2; cbn [r2c r2s r2t].
  - intros [ax ay] [vx vy]. vec_unfold. rn. f_equal; ring.
  - intros [ux uy] [vx vy]. vec_unfold. rn. f_equal; ring.
  - intros [vx vy] t. vec_unfold. rn. f_equal; ring.
  - intros [vx vy] t. vec_unfold. rn. f_equal; unfold Rdiv; ring.
Qed.

Lemma iso_lin3 (T : @rigid3 RNum) : IsoLin (@VO3 RNum) (apply3 T) (rot3 T).
Proof.
  constructor; cbn [VO3 vadd vscale vdiv pt].
  - intros a v. apply apply3_add.
  - intros u v. apply rot3_add.
  - intros v t. apply rot3_scale.
  - intros v t. destruct T as [cx cy cz tt]. destruct cx as [[c1 c2] c3], cy as [[c4 c5] c6], cz as [[c7 c8] c9], v as [[vx vy] vz].
    unfold rot3. cbn [r3x r3y r3z]. vec_unfold. rn. f_equal; [f_equal|]; unfold Rdiv; ring.
Qed.
