(* C11: the cached bounding box of an arc (geom2/aabb2.rs arc_aabb2) contains every point of the arc, for every circle, every
   start angle and every signed sweep up to a full turn.  The box is the hull of the two end points and of the axis points
   (angles 0, pi/2, pi, 3pi/2) that AngleInterval::contains accepts; on a stretch of angles that skips an axis angle the
   coordinate is monotone or unimodal, so its extreme is at an end. *)
From Coq Require Import ZArith Reals Lra Lia List Bool Psatz.
From Flocq Require Import Core.Raux.
From EG Require Import Num.Num Num.RNum Num.Atan2 Lib.Vec Model.Types Model.Angles Model.Circle.
From EG Require Import Proofs.VecR Proofs.Atan2R Proofs.Angles Proofs.Circle.
Import ListNotations.
Local Open Scope R_scope.

Lemma cos_shiftZ (x : R) (k : Z) : cos (x + 2 * PI * IZR k) = cos x.
Proof.
  destruct (Z_le_gt_dec 0 k) as [H | H].
  - rewrite <- (Z2Nat.id k H), <- INR_IZR_INZ. replace (x + 2 * PI * INR (Z.to_nat k)) with (x + 2 * INR (Z.to_nat k) * PI) by ring. apply cos_period.
  - assert (Hk : (0 <= - k)%Z) by lia.
    rewrite <- (cos_period (x + 2 * PI * IZR k) (Z.to_nat (- k))). f_equal.
    rewrite INR_IZR_INZ, (Z2Nat.id _ Hk), opp_IZR. ring.
Qed.

(* strictly between two consecutive multiples of the full turn the cosine is largest at an end *)
Lemma cos_le_ends0 (a b t : R) : 0 < a -> b < 2 * PI -> a <= t <= b -> cos t <= Rmax (cos a) (cos b).
Proof.
  intros Ha Hb Ht. pose proof PI_RGT_0 as Hpi. destruct (Rle_dec t PI) as [H | H].
  - apply Rle_trans with (cos a); [|apply Rmax_l]. apply cos_decr_1; lra.
  - apply Rle_trans with (cos b); [|apply Rmax_r]. apply cos_incr_1; lra.
Qed.

Lemma cos_max_interval (a b t : R) : a <= t <= b ->
  (exists k : Z, a <= 2 * PI * IZR k <= b) \/ cos t <= Rmax (cos a) (cos b).
Proof.
  intros Ht. pose proof PI_RGT_0 as Hpi. set (k0 := Zfloor (a / (2 * PI))).
  assert (L : 2 * PI * IZR k0 <= a).
  { pose proof (Zfloor_lb (a / (2 * PI))) as H. fold k0 in H. apply Rmult_le_compat_l with (r := 2 * PI) in H; [|lra].
    replace (2 * PI * (a / (2 * PI))) with a in H by (field; lra). exact H. }
  assert (U : a < 2 * PI * (IZR k0 + 1)).
  { pose proof (Zfloor_ub (a / (2 * PI))) as H. fold k0 in H. apply Rmult_lt_compat_l with (r := 2 * PI) in H; [|lra].
    replace (2 * PI * (a / (2 * PI))) with a in H by (field; lra). exact H. }
  destruct (Req_dec a (2 * PI * IZR k0)) as [E | E]; [left; exists k0; lra|].
  destruct (Rle_dec (2 * PI * (IZR k0 + 1)) b) as [Hb | Hb]; [left; exists (k0 + 1)%Z; rewrite plus_IZR; simpl IZR; lra|].
  right. rewrite <- (cos_shiftZ t (- k0)), <- (cos_shiftZ a (- k0)), <- (cos_shiftZ b (- k0)). rewrite opp_IZR.
  apply cos_le_ends0; lra.
Qed.

(* bounding box of a point list *)
Notation P2 := (@V2 RNum).
Lemma bbox_fold_bounds : forall (l : list P2) (bb : P2 * P2) (q : P2),
  (In q l \/ (fst (fst bb) <= fst q <= fst (snd bb) /\ snd (fst bb) <= snd q <= snd (snd bb))) ->
  (fst (fst bb) <= fst (snd bb) /\ snd (fst bb) <= snd (snd bb)) ->
  let r := fold_left (fun bb q => ((Rmin (fst (fst bb)) (fst q), Rmin (snd (fst bb)) (snd q)), (Rmax (fst (snd bb)) (fst q), Rmax (snd (snd bb)) (snd q)))) l bb in
  fst (fst r) <= fst q <= fst (snd r) /\ snd (fst r) <= snd q <= snd (snd r).
Proof.
  unfold V2. change (@num RNum) with R. induction l as [|p l IH]; intros bb q H Hbb; cbn [fold_left].
  - destruct H as [[] | H]; exact H.
  - apply IH.
    + destruct H as [[<- | H] | H]; [right | left; exact H | right]; cbn [fst snd].
      * pose proof (Rmin_r (fst (fst bb)) (fst p)). pose proof (Rmax_r (fst (snd bb)) (fst p)). pose proof (Rmin_r (snd (fst bb)) (snd p)). pose proof (Rmax_r (snd (snd bb)) (snd p)). lra.
      * pose proof (Rmin_l (fst (fst bb)) (fst p)). pose proof (Rmax_l (fst (snd bb)) (fst p)). pose proof (Rmin_l (snd (fst bb)) (snd p)). pose proof (Rmax_l (snd (snd bb)) (snd p)). lra.
    + cbn [fst snd]. pose proof (Rmin_l (fst (fst bb)) (fst p)). pose proof (Rmax_l (fst (snd bb)) (fst p)). pose proof (Rmin_l (snd (fst bb)) (snd p)). pose proof (Rmax_l (snd (snd bb)) (snd p)). lra.
Qed.

Lemma bbox_of_bounds (pts : list P2) (q : P2) : In q pts ->
  let bb := @bbox_of RNum pts in fst (fst bb) <= fst q <= fst (snd bb) /\ snd (fst bb) <= snd q <= snd (snd bb).
Proof.
  unfold V2. change (@num RNum) with R. destruct pts as [|p l]; [intros []|]. intros H. unfold bbox_of. cbn [nmin nmax RNum].
  apply (bbox_fold_bounds l (p, p) q); cbn [fst snd]; [|lra].
  destruct H as [<- | H]; [right; lra | left; exact H].
Qed.

(* an axis angle phi that the sweep from a0 passes (at some turn) is accepted by the interval check of arc_aabb2 *)
Lemma swept_is_contained (a0 sweep phi : R) (k : Z) : 0 <= sweep <= 2 * PI ->
  a0 <= phi + 2 * PI * IZR k <= a0 + sweep ->
  @AngleInterval_contains RNum (@AngleInterval_new RNum a0 sweep) phi = true.
Proof.
  intros Hs Hk. pose proof (angle_interval_new_wf a0 sweep) as [W1 W2]. cbv zeta in W1, W2.
  apply (contains_complete _ W1 W2 phi (phi + 2 * PI * IZR k - a0)).
  - unfold AngleInterval_new. rn. destruct (Rlt_bool sweep 0) eqn:E; [apply Rltb_true in E; lra|].
    cbn [AngleInterval_angle]. rewrite two_pi_R. rewrite Rmin_left by lra. lra.
  - unfold AngleInterval_new. rn. destruct (Rlt_bool sweep 0) eqn:E; [apply Rltb_true in E; lra|].
    cbn [AngleInterval_start].
    pose proof (angle_to_2pi_same a0) as [j Ej]. exists (- j - k)%Z. rewrite Ej. rewrite minus_IZR, opp_IZR. ring.
Qed.

Lemma swept_is_contained_signed (a0 sweep phi : R) (k : Z) : Rabs sweep <= 2 * PI ->
  Rmin a0 (a0 + sweep) <= phi + 2 * PI * IZR k <= Rmax a0 (a0 + sweep) ->
  @AngleInterval_contains RNum (@AngleInterval_new RNum a0 sweep) phi = true.
Proof.
  intros Hs Hk. destruct (Rle_dec 0 sweep) as [Hp | Hn].
  - rewrite Rabs_pos_eq in Hs by lra. rewrite Rmin_left, Rmax_right in Hk by lra. apply (swept_is_contained a0 sweep phi k); lra.
  - rewrite Rabs_left in Hs by lra. rewrite Rmin_right, Rmax_left in Hk by lra.
    rewrite angle_interval_negative_extent by lra. apply (swept_is_contained (a0 + sweep) (- sweep) phi k); lra.
Qed.

(* the four axis angles as the model writes them *)
Lemma axis_angles : map (fun i => (@nofnat RNum i * (@npi RNum / @n2 RNum))%num) (seq 0 4) = [0 * (PI / 2); 1 * (PI / 2); 2 * (PI / 2); 3 * (PI / 2)].
Proof. reflexivity. Qed.

Lemma candidate_axis (c : Rcirc) (a0 sweep phi : R) :
  In phi [0 * (PI / 2); 1 * (PI / 2); 2 * (PI / 2); 3 * (PI / 2)] ->
  @AngleInterval_contains RNum (@AngleInterval_new RNum a0 sweep) phi = true ->
  In (@point_at_angle RNum c phi) (map (@point_at_angle RNum c) (@arc_aabb_angles RNum a0 sweep)).
Proof.
  intros Hin Hc. apply in_map. unfold arc_aabb_angles. rewrite axis_angles. apply in_or_app. right. apply filter_In. split; assumption.
Qed.
Lemma candidate_ends (c : Rcirc) (a0 sweep : R) :
  In (@point_at_angle RNum c a0) (map (@point_at_angle RNum c) (@arc_aabb_angles RNum a0 sweep)) /\
  In (@point_at_angle RNum c (a0 + sweep)) (map (@point_at_angle RNum c) (@arc_aabb_angles RNum a0 sweep)).
Proof. split; apply in_map; unfold arc_aabb_angles; apply in_or_app; left; cbn; auto. Qed.

(* one coordinate: r * cos (t - phi) over the swept stretch is at most its value at an end, or the axis angle phi is swept *)
Lemma coord_bound (r a0 sweep t phi : R) : 0 <= r -> Rmin a0 (a0 + sweep) <= t <= Rmax a0 (a0 + sweep) ->
  (exists k : Z, Rmin a0 (a0 + sweep) <= phi + 2 * PI * IZR k <= Rmax a0 (a0 + sweep)) \/
  r * cos (t - phi) <= Rmax (r * cos (a0 - phi)) (r * cos (a0 + sweep - phi)).
Proof.
  intros Hr Ht. set (lo := Rmin a0 (a0 + sweep)) in *. set (hi := Rmax a0 (a0 + sweep)) in *.
  destruct (cos_max_interval (lo - phi) (hi - phi) (t - phi) ltac:(lra)) as [[k Hk] | H].
  - left. exists k. lra.
  - right. assert (E : Rmax (cos (lo - phi)) (cos (hi - phi)) = Rmax (cos (a0 - phi)) (cos (a0 + sweep - phi))).
    { unfold lo, hi. destruct (Rle_dec a0 (a0 + sweep)) as [Q | Q].
      - rewrite (Rmin_left _ _ Q), (Rmax_right _ _ Q). reflexivity.
      - assert (Q' : a0 + sweep <= a0) by lra. rewrite (Rmin_right _ _ Q'), (Rmax_left _ _ Q'). apply Rmax_comm. }
    rewrite E in H. rewrite RmaxRmult by exact Hr. apply Rmult_le_compat_l; assumption.
Qed.

Theorem arc_aabb_contains (c : Rcirc) (a0 sweep f : R) : 0 <= cr c -> Rabs sweep <= 2 * PI -> 0 <= f <= 1 ->
  let bb := @arc_aabb RNum c a0 sweep in let p := @point_at_angle RNum c (a0 + sweep * f)%R in
  fst (fst bb) <= fst p <= fst (snd bb) /\ snd (fst bb) <= snd p <= snd (snd bb).
Proof.
  intros Hr Hs Hf bb p. set (t := a0 + sweep * f) in *.
  assert (Ht : Rmin a0 (a0 + sweep) <= t <= Rmax a0 (a0 + sweep)).
  { unfold t. destruct (Rle_dec 0 sweep); [rewrite Rmin_left, Rmax_right by lra | rewrite Rmin_right, Rmax_left by lra]; nra. }
  destruct (candidate_ends c a0 sweep) as [E0 E1].
  pose proof (bbox_of_bounds _ _ E0) as B0. pose proof (bbox_of_bounds _ _ E1) as B1. cbv zeta in B0, B1. fold (@arc_aabb RNum c a0 sweep) in B0, B1. fold bb in B0, B1.
  rewrite point_at_angle_R in B0, B1. cbn [fst snd nadd RNum] in B0, B1.
  (* an accepted axis angle gives its point as a candidate *)
  assert (AX : forall phi, In phi [0 * (PI / 2); 1 * (PI / 2); 2 * (PI / 2); 3 * (PI / 2)] ->
               (exists k : Z, Rmin a0 (a0 + sweep) <= phi + 2 * PI * IZR k <= Rmax a0 (a0 + sweep)) ->
               fst (fst bb) <= fst (cc c) + cr c * cos phi <= fst (snd bb) /\ snd (fst bb) <= snd (cc c) + cr c * sin phi <= snd (snd bb)).
  { intros phi Hin [k Hk]. pose proof (candidate_axis c a0 sweep phi Hin (swept_is_contained_signed a0 sweep phi k Hs Hk)) as Hc.
    pose proof (bbox_of_bounds _ _ Hc) as B. cbv zeta in B. fold (@arc_aabb RNum c a0 sweep) in B. fold bb in B. rewrite point_at_angle_R in B. exact B. }
  unfold p. rewrite point_at_angle_R. cbn [fst snd].
  pose proof (COS_bound t) as [C1 C2]. pose proof (SIN_bound t) as [S1 S2].
  assert (M1 : cr c * cos t <= cr c * 1) by (apply Rmult_le_compat_l; lra).
  assert (M2 : cr c * (-1) <= cr c * cos t) by (apply Rmult_le_compat_l; lra).
  assert (M3 : cr c * sin t <= cr c * 1) by (apply Rmult_le_compat_l; lra).
  assert (M4 : cr c * (-1) <= cr c * sin t) by (apply Rmult_le_compat_l; lra).
  repeat split.
  - (* x min: - cos t = cos (t - pi) *)
    destruct (coord_bound (cr c) a0 sweep t (2 * (PI / 2)) Hr Ht) as [K | K].
    + destruct (AX (2 * (PI / 2)) (or_intror (or_intror (or_introl eq_refl))) K) as [[A _] _]. replace (2 * (PI / 2)) with PI in A by lra. rewrite cos_PI in A. lra.
    + replace (2 * (PI / 2)) with PI in K by lra.
      replace (t - PI) with (- (PI - t)) in K by ring. replace (a0 - PI) with (- (PI - a0)) in K by ring. replace (a0 + sweep - PI) with (- (PI - (a0 + sweep))) in K by ring.
      rewrite !cos_neg, !Rtrigo_facts.cos_pi_minus in K.
      assert (Hm := Rmax_Rle (cr c * - cos a0) (cr c * - cos (a0 + sweep)) (cr c * - cos t)). destruct (proj1 Hm K); lra.
  - (* x max *)
    destruct (coord_bound (cr c) a0 sweep t (0 * (PI / 2)) Hr Ht) as [K | K].
    + destruct (AX (0 * (PI / 2)) (or_introl eq_refl) K) as [[_ A] _]. replace (0 * (PI / 2)) with 0 in A by lra. rewrite cos_0 in A. lra.
    + replace (0 * (PI / 2)) with 0 in K by lra. rewrite !Rminus_0_r in K.
      assert (Hm := Rmax_Rle (cr c * cos a0) (cr c * cos (a0 + sweep)) (cr c * cos t)). destruct (proj1 Hm K); lra.
  - (* y min: - sin t = cos (t - 3 pi / 2) *)
    destruct (coord_bound (cr c) a0 sweep t (3 * (PI / 2)) Hr Ht) as [K | K].
    + destruct (AX (3 * (PI / 2)) (or_intror (or_intror (or_intror (or_introl eq_refl)))) K) as [_ [A _]].
      replace (3 * (PI / 2)) with (PI / 2 + PI) in A by lra. rewrite neg_sin, sin_PI2 in A. lra.
    + assert (Q : forall x, cos (x - 3 * (PI / 2)) = - sin x).
      { intros x. replace (x - 3 * (PI / 2)) with (- ((PI / 2 - x) + PI)) by lra. rewrite cos_neg, neg_cos, cos_shift. reflexivity. }
      rewrite !Q in K.
      assert (Hm := Rmax_Rle (cr c * - sin a0) (cr c * - sin (a0 + sweep)) (cr c * - sin t)). destruct (proj1 Hm K); lra.
  - (* y max: sin t = cos (t - pi / 2) *)
    destruct (coord_bound (cr c) a0 sweep t (1 * (PI / 2)) Hr Ht) as [K | K].
    + destruct (AX (1 * (PI / 2)) (or_intror (or_introl eq_refl)) K) as [_ [_ A]]. replace (1 * (PI / 2)) with (PI / 2) in A by lra. rewrite sin_PI2 in A. lra.
    + assert (Q : forall x, cos (x - 1 * (PI / 2)) = sin x).
      { intros x. replace (x - 1 * (PI / 2)) with (- (PI / 2 - x)) by lra. rewrite cos_neg, cos_shift. reflexivity. }
      rewrite !Q in K.
      assert (Hm := Rmax_Rle (cr c * sin a0) (cr c * sin (a0 + sweep)) (cr c * sin t)). destruct (proj1 Hm K); lra.
Qed.
