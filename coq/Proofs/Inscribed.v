(* C10: the bisection of inscribed_from_spanning_ray ends, for every polyline, every spanning ray and every positive tolerance,
   and what it returns is an inscribed circle within that tolerance: both contacts are points of the section, no point of the
   section is closer to the centre than the radius less the tolerance, and the contacts are at most the radius plus the tolerance
   away - the distance from the centre to the section equals the radius within the tolerance. *)
From Coq Require Import ZArith Reals Lra Lia List Bool Arith Psatz.
From Flocq Require Import Core.Raux.
From EG Require Import Num.Num Num.RNum Lib.Vec Model.Types Model.Curve Model.Closest Model.Inscribed.
From EG Require Import Proofs.VecR Proofs.Closest Proofs.ResampleLen.
Import ListNotations.
Local Open Scope R_scope.

Notation P2 := (@V2 RNum).
Notation VO := (@VO2 RNum).
Ltac req := match goal with |- @eq _ ?L ?R' => change (@eq R L R') end.

Definition on_poly (pts : list P2) (y : P2) : Prop :=
  exists j s, (S j < length pts)%nat /\ 0 <= s <= 1 /\ y = edge_of VO pts j s.

Lemma dist2_dsq (a b : P2) : dist2 a b = sqrt (dsq VO a b).
Proof. reflexivity. Qed.

Lemma tri2' (a b c : P2) : dist2 a c <= dist2 a b + dist2 b c.
Proof. exact (ml_tri VO metric2 a b c). Qed.
Lemma dist2_refl (a : P2) : dist2 a a = 0.
Proof. exact (ml_refl VO metric2 a). Qed.
Lemma dist2_nonneg (a b : P2) : 0 <= dist2 a b.
Proof. unfold dist2. apply norm2_nonneg. Qed.

Lemma closest_spec (pts : list P2) (x : P2) : (2 <= length pts)%nat ->
  on_poly pts (@closest_pt RNum pts x) /\ forall y, on_poly pts y -> dist2 x (@closest_pt RNum pts x) <= dist2 x y.
Proof.
  intros Hn. destruct (poly_closest_opt VO inner2 x pts Hn) as (d2 & i & t & c & E & Hi & Ht & Hc & Hd & Hall).
  unfold closest_pt. rewrite E. split.
  - exists i, t. auto.
  - intros y (j & s & Hj & Hs & ->). rewrite !dist2_dsq. apply sqrt_le_1_alt. rewrite <- Hd. apply Hall; assumption.
Qed.

Lemma ray_dist (r : @sray RNum) (f g : R) : dist2 (@ray_at RNum r f) (@ray_at RNum r g) = Rabs (f - g) * norm2 (sr_dir r).
Proof.
  destruct r as [[ox oy] [dx dy]]. unfold ray_at. cbn [sr_origin sr_dir]. vec_unfold.
  replace ((ox + dx * f - (ox + dx * g)) * (ox + dx * f - (ox + dx * g)) + (oy + dy * f - (oy + dy * g)) * (oy + dy * f - (oy + dy * g)))
    with ((f - g) * (f - g) * (dx * dx + dy * dy)) by ring.
  rewrite sqrt_mult by (try apply sq_nonneg; pose proof (sq_nonneg dx); pose proof (sq_nonneg dy); lra).
  f_equal. replace ((f - g) * (f - g)) with (Rsqr (f - g)) by reflexivity. apply sqrt_Rsqr_abs.
Qed.

Section Bisect.
  Variable pts : list P2.
  Variable r : @sray RNum.
  Variable tol : R.
  Hypothesis Hn : (2 <= length pts)%nat.
  Let nd := norm2 (sr_dir r).

  Definition side_ok (s : @side RNum) : Prop :=
    on_poly pts (s_pt s) /\ s_dist s = dist2 (@ray_at RNum r (s_frac s)) (s_pt s) /\
    forall y, on_poly pts y -> s_dist s <= dist2 (@ray_at RNum r (s_frac s)) y.

  Lemma updated_ok (f : R) :
    side_ok (mkSide f (dist2 (@ray_at RNum r f) (@closest_pt RNum pts (@ray_at RNum r f))) (@closest_pt RNum pts (@ray_at RNum r f))).
  Proof. destruct (closest_spec pts (@ray_at RNum r f) Hn) as [A B]. unfold side_ok. cbn [s_frac s_dist s_pt]. auto. Qed.

  Lemma bisect_inv : forall fuel pos neg res,
    side_ok pos -> side_ok neg -> s_frac neg <= s_frac pos ->
    @bisect RNum fuel pts r tol pos neg = Some res ->
    side_ok (fst res) /\ side_ok (snd res) /\ s_frac (snd res) <= s_frac (fst res) /\
    (s_frac (fst res) - s_frac (snd res)) * nd <= tol.
  Proof.
    induction fuel as [|fuel IH]; intros pos neg res Hp Hg Hle E; cbn [bisect] in E; [discriminate|].
    unfold ngtb in E. cbn [nltb nsub nmul nadd RNum] in E. fold nd in E.
    destruct (Rlt_bool tol ((s_frac pos - s_frac neg) * nd)) eqn:Et.
    - set (f := ((s_frac pos + s_frac neg) * @ihalf RNum)%num) in *.
      assert (Hf : f = (s_frac pos + s_frac neg) / 2) by (unfold f, ihalf; cbn [nlit nmul nadd RNum Rlit]; cbn; lra).
      destruct (Rlt_bool _ _) in E.
      + apply (IH _ _ _ (updated_ok f) Hg) in E; [exact E | cbn [s_frac]; lra].
      + apply (IH _ _ _ Hp (updated_ok f)) in E; [exact E | cbn [s_frac]; lra].
    - apply Rltb_false in Et. inversion E; subst res. cbn [fst snd]. auto.
  Qed.

  Lemma bisect_step fuel pos neg : @bisect RNum (S fuel) pts r tol pos neg =
    if Rlt_bool tol ((s_frac pos - s_frac neg) * nd) then
      let f := ((s_frac pos + s_frac neg) * @ihalf RNum)%num in
      let cp := @closest_pt RNum pts (@ray_at RNum r f) in
      if Rlt_bool 0 (dot2 (sub2 cp (@ray_at RNum r f)) (sr_dir r))
      then @bisect RNum fuel pts r tol (mkSide f (dist2 (@ray_at RNum r f) cp) cp) neg
      else @bisect RNum fuel pts r tol pos (mkSide f (dist2 (@ray_at RNum r f) cp) cp)
    else Some (pos, neg).
  Proof. reflexivity. Qed.

  Lemma bisect_ends : forall k pos neg, s_frac neg <= s_frac pos ->
    (s_frac pos - s_frac neg) * nd * (/ 2) ^ k <= tol ->
    exists res, @bisect RNum (S k) pts r tol pos neg = Some res.
  Proof.
    induction k as [|k IH]; intros pos neg Hle Hw; rewrite bisect_step.
    - destruct (Rlt_bool tol ((s_frac pos - s_frac neg) * nd)) eqn:Et; [apply Rltb_true in Et; cbn [pow] in Hw; lra | eauto].
    - destruct (Rlt_bool tol ((s_frac pos - s_frac neg) * nd)) eqn:Et; [|eauto].
      set (f := ((s_frac pos + s_frac neg) * @ihalf RNum)%num) in *.
      assert (Hf : f = (s_frac pos + s_frac neg) / 2) by (unfold f, ihalf; cbn [nlit nmul nadd RNum Rlit]; cbn; lra).
      cbn [pow] in Hw. cbv zeta. fold f.
      match goal with |- context [if ?b then @bisect _ _ _ _ _ _ _ else _] => destruct b end; apply IH; cbn [s_frac]; try lra.
      + replace ((f - s_frac neg) * nd * (/ 2) ^ k) with ((s_frac pos - s_frac neg) * nd * (/ 2 * (/ 2) ^ k)) by (rewrite Hf; field). exact Hw.
      + replace ((s_frac pos - f) * nd * (/ 2) ^ k) with ((s_frac pos - s_frac neg) * nd * (/ 2 * (/ 2) ^ k)) by (rewrite Hf; field). exact Hw.
  Qed.
End Bisect.

(* the search ends: enough fuel exists for every positive tolerance *)
Theorem inscribed_terminates (pts : list P2) (r : @sray RNum) (tol : R) : 0 < tol ->
  exists fuel, @inscribed RNum fuel pts r tol <> None.
Proof.
  intros Ht. set (nd := norm2 (sr_dir r)). assert (Hnd : 0 <= nd) by apply norm2_nonneg.
  destruct (pow_lt_1_zero (/ 2) ltac:(rewrite Rabs_pos_eq; lra) (tol / (nd + 1)) ltac:(apply Rdiv_lt_0_compat; lra)) as [k Hk].
  specialize (Hk k (Nat.le_refl k)). rewrite Rabs_pos_eq in Hk by (apply pow_le; lra).
  exists (S k). unfold inscribed.
  destruct (bisect_ends pts r tol k (@mkSide RNum 1 0 (@ray_at RNum r 1)) (@mkSide RNum 0 0 (@ray_at RNum r 0))) as [res E].
  - cbn [s_frac]. lra.
  - cbn [s_frac]. fold nd. replace ((1 - 0) * nd * (/ 2) ^ k) with (nd * (/ 2) ^ k) by ring.
    assert ((/ 2) ^ k * (nd + 1) < tol). { apply Rmult_lt_reg_r with (/ (nd + 1)); [apply Rinv_0_lt_compat; lra|]. replace ((/ 2) ^ k * (nd + 1) * / (nd + 1)) with ((/ 2) ^ k) by (field; lra). exact Hk. }
    assert (0 <= (/ 2) ^ k) by (apply pow_le; lra). nra.
  - unfold n1, n0. cbn [nofZ RNum]. rewrite E. destruct res. discriminate.
Qed.

(* what is returned is an inscribed circle within the tolerance *)
Theorem inscribed_spec (pts : list P2) (r : @sray RNum) (tol : R) (fuel : nat) (c : P2) (rad : R) (cp cn : P2) :
  (2 <= length pts)%nat -> 0 <= tol ->
  on_poly pts (@ray_at RNum r 0) -> on_poly pts (@ray_at RNum r 1) ->           (* a spanning ray: both ends on the section *)
  @inscribed RNum fuel pts r tol = Some (c, rad, cp, cn) ->
  on_poly pts cp /\ on_poly pts cn /\
  (forall y, on_poly pts y -> rad - tol <= dist2 c y) /\
  dist2 c cp <= rad + tol /\ dist2 c cn <= rad + tol.
Proof.
  intros Hn Htol H0 H1 E. unfold inscribed in E.
  destruct (@bisect RNum fuel pts r tol _ _) as [[pos neg]|] eqn:Eb; [|discriminate].
  assert (I1 : side_ok pts r (@mkSide RNum 1 0 (@ray_at RNum r 1))).
  { unfold side_ok. cbn [s_frac s_dist s_pt]. split; [exact H1|]. split; [symmetry; apply dist2_refl | intros; apply dist2_nonneg]. }
  assert (I0 : side_ok pts r (@mkSide RNum 0 0 (@ray_at RNum r 0))).
  { unfold side_ok. cbn [s_frac s_dist s_pt]. split; [exact H0|]. split; [symmetry; apply dist2_refl | intros; apply dist2_nonneg]. }
  unfold n1, n0 in Eb. cbn [nofZ RNum] in Eb.
  destruct (bisect_inv pts r tol Hn fuel _ _ _ I1 I0 ltac:(cbn [s_frac]; lra) Eb) as (Hp & Hg & Hle & Hw). cbn [fst snd] in *.
  injection E as <- <- <- <-.
  destruct Hp as (Pp & Pd & Pm), Hg as (Gp & Gd & Gm).
  remember (s_frac pos) as fp eqn:Efp. remember (s_frac neg) as fn eqn:Efn. remember (norm2 (sr_dir r)) as nd eqn:End'.
  assert (Tfp : fp = (fp : R)) by reflexivity. clear Tfp.
  assert (Hm : (fp + fn) * 5e-1 = (fp + fn) / 2) by lra.
  assert (Hr : (s_dist pos + s_dist neg) * 5e-1 = (s_dist pos + s_dist neg) / 2) by lra.
  rewrite Hm, Hr. set (c := @ray_at RNum r ((fp + fn) / 2)%R).
  assert (Hnd : 0 <= nd) by (rewrite End'; apply norm2_nonneg).
  (* distances along the ray *)
  assert (Dcp : dist2 c (@ray_at RNum r fp) = (fp - fn) / 2 * nd).
  { unfold c. rewrite ray_dist, <- End'. rewrite Rabs_left1 by lra. req. field. }
  assert (Dcn : dist2 c (@ray_at RNum r fn) = (fp - fn) / 2 * nd).
  { unfold c. rewrite ray_dist, <- End'. rewrite Rabs_pos_eq by lra. req. field. }
  assert (Dpn : dist2 (@ray_at RNum r fp) (@ray_at RNum r fn) = (fp - fn) * nd).
  { rewrite ray_dist, <- End'. rewrite Rabs_pos_eq by lra. reflexivity. }
  (* the two bracket distances differ by at most the bracket width *)
  assert (Hdiff1 : s_dist pos <= s_dist neg + (fp - fn) * nd).
  { pose proof (Pm (s_pt neg) Gp) as A. pose proof (tri2' (@ray_at RNum r fp) (@ray_at RNum r fn) (s_pt neg)) as T. rewrite Dpn, <- Gd in T. lra. }
  assert (Hdiff2 : s_dist neg <= s_dist pos + (fp - fn) * nd).
  { pose proof (Gm (s_pt pos) Pp) as A. pose proof (tri2' (@ray_at RNum r fn) (@ray_at RNum r fp) (s_pt pos)) as T.
    rewrite (dist2_sym (@ray_at RNum r fn) (@ray_at RNum r fp)), Dpn, <- Pd in T. lra. }
  split; [exact Pp|]. split; [exact Gp|]. split; [|split].
  - intros y Hy. pose proof (Pm y Hy) as A. pose proof (tri2' (@ray_at RNum r fp) c y) as T. rewrite (dist2_sym (@ray_at RNum r fp) c), Dcp in T. lra.
  - pose proof (tri2' c (@ray_at RNum r fp) (s_pt pos)) as T. rewrite Dcp, <- Pd in T. lra.
  - pose proof (tri2' c (@ray_at RNum r fn) (s_pt neg)) as T. rewrite Dcn, <- Gd in T. lra.
Qed.
