(* C16 / C17: DiscreteDomain::index_of finds the last breakpoint not above x; the tolerance map
   returns its zone, the last zone beyond the end and nothing below the start. *)
From Coq Require Import ZArith Reals Lra Lia List Bool Sorted.
From Flocq Require Import Core.Raux.
From EG Require Import Num.Num Num.RNum Model.TolMap.
Import ListNotations.
Local Open Scope R_scope.

Definition nonan (x : R) := false.
Notation Rindex_of := (index_of Rlt_bool Rle_bool nonan).
Notation Rlast_eq := (last_eq Rlt_bool).
Notation Rcount_below := (count_below Rlt_bool).
Definition asc (l : list R) := StronglySorted Rle l.

Lemma last_eq_some : forall l x k j,
  Rlast_eq l x k = Some j ->
  exists i, j = (k + i)%nat /\ nth_error l i = Some x /\
            forall i' w, (i < i')%nat -> nth_error l i' = Some w -> w <> x.
Proof.
  induction l as [|v l IH]; intros x k j H; cbn in H; [discriminate|].
  destruct (Rlast_eq l x (S k)) as [j'|] eqn:E.
  - inversion H; subst j'. destruct (IH _ _ _ E) as (i & -> & Hi & Hafter).
    exists (S i). split; [lia|]. split; [exact Hi|].
    intros [|i'] w Hlt Hw; [lia|]. cbn in Hw. eapply Hafter; [|eassumption]. lia.
  - destruct (Rlt_bool v x) eqn:E1; [discriminate|]. destruct (Rlt_bool x v) eqn:E2; [discriminate|].
    cbn in H. inversion H; subst j. rbool. assert (v = x) by lra. subst v.
    exists 0%nat. split; [lia|]. split; [reflexivity|].
    intros [|i'] w Hlt Hw; [lia|]. cbn in Hw.
    assert (Hnone : forall l x k, Rlast_eq l x k = None -> ~ In x l).
    { clear. induction l as [|v l IH]; intros x k H; cbn in *; [tauto|].
      destruct (Rlast_eq l x (S k)) eqn:E; [discriminate|].
      destruct (Rlt_bool v x) eqn:E1; destruct (Rlt_bool x v) eqn:E2; cbn in H; try discriminate;
        rbool; intros [-> | Hin]; try lra; eapply IH; eassumption. }
    intros ->. eapply Hnone; [exact E|]. eapply nth_error_In; eassumption.
Qed.

Lemma last_eq_none : forall l x k, Rlast_eq l x k = None -> ~ In x l.
Proof.
  induction l as [|v l IH]; intros x k H; cbn in *; [tauto|].
  destruct (Rlast_eq l x (S k)) eqn:E; [discriminate|].
  destruct (Rlt_bool v x) eqn:E1; destruct (Rlt_bool x v) eqn:E2; cbn in H; try discriminate;
    rbool; intros [-> | Hin]; try lra; eapply IH; eassumption.
Qed.

Lemma asc_nth l : asc l -> forall i j a b, (i <= j)%nat ->
  nth_error l i = Some a -> nth_error l j = Some b -> a <= b.
Proof.
  induction 1 as [|v l Hs IH Hf]; intros i j a b Hij Ha Hb.
  - destruct i; discriminate.
  - destruct i, j; cbn in *; try lia.
    + inversion Ha; inversion Hb; lra.
    + inversion Ha; subst. rewrite Forall_forall in Hf. apply Hf. eapply nth_error_In; eassumption.
    + eapply IH; [|eassumption|eassumption]. lia.
Qed.

Lemma count_below_spec l x : asc l ->
  (Rcount_below l x <= length l)%nat /\
  (forall i v, (i < Rcount_below l x)%nat -> nth_error l i = Some v -> v < x) /\
  (forall i v, (Rcount_below l x <= i)%nat -> nth_error l i = Some v -> x <= v).
Proof.
  induction 1 as [|v l Hs IH Hf]; cbn.
  - split; [lia|]. split; intros [|i] w; discriminate.
  - destruct (Rlt_bool v x) eqn:E; rbool.
    + destruct IH as (Hlen & Hlt & Hge). split; [lia|]. split.
      * intros [|i] w Hi Hw; cbn in Hw; [inversion Hw; lra|]. eapply Hlt; [|eassumption]. lia.
      * intros [|i] w Hi Hw; [lia|]. cbn in Hw. eapply Hge; [|eassumption]. lia.
    + split; [lia|]. split; [intros i w Hi; lia|].
      intros [|i] w _ Hw; cbn in Hw; [inversion Hw; lra|].
      rewrite Forall_forall in Hf. apply nth_error_In in Hw. apply Hf in Hw. lra.
Qed.

Lemma last_nth (l : list R) d : l <> [] -> nth_error l (length l - 1) = Some (last l d).
Proof.
  induction l as [|a l IH]; [congruence|]. intros _. destruct l as [|b l]; [reflexivity|].
  cbn [length last]. replace (S (S (length l)) - 1)%nat with (S (length (b :: l) - 1)) by (cbn; lia).
  cbn [nth_error]. apply IH. discriminate.
Qed.

(* index_of: for a non-empty ascending domain, Some i exactly inside [first, last], and then i is
   the LAST index whose breakpoint is not above x *)
Lemma index_of_cons first rest x :
  Rindex_of (first :: rest) x =
  match Rlast_eq (first :: rest) x 0 with
  | Some i => Ok (Some i)
  | None =>
      if Rle_bool (fmin Rlt_bool first (last (first :: rest) first)) x &&
         Rle_bool x (fmax Rlt_bool first (last (first :: rest) first))
      then Ok (Some (Rcount_below (first :: rest) x - 1)%nat) else Ok None
  end.
Proof. reflexivity. Qed.

Theorem index_of_spec (first : R) (rest : list R) (x : R) :
  asc (first :: rest) ->
  (x < first \/ last (first :: rest) first < x -> Rindex_of (first :: rest) x = Ok None) /\
  (first <= x <= last (first :: rest) first ->
     exists i v, Rindex_of (first :: rest) x = Ok (Some i) /\ nth_error (first :: rest) i = Some v /\ v <= x /\
                 forall j w, (i < j)%nat -> nth_error (first :: rest) j = Some w -> x < w).
Proof.
  intros Hasc. rewrite !index_of_cons. set (l := first :: rest) in *. set (lst := last l first).
  assert (Hfl : first <= lst).
  { eapply (asc_nth l Hasc 0 (length l - 1)); [lia | reflexivity | apply last_nth; discriminate]. }
  assert (Hmin : fmin Rlt_bool first lst = first).
  { unfold fmin. destruct (Rlt_bool lst first) eqn:E; rbool; [lra | reflexivity]. }
  assert (Hmax : fmax Rlt_bool first lst = lst).
  { unfold fmax. destruct (Rlt_bool first lst) eqn:E; rbool; [reflexivity | lra]. }
  assert (Hall : forall i v, nth_error l i = Some v -> first <= v <= lst).
  { intros i v Hv. split.
    - eapply (asc_nth l Hasc 0 i); [lia | reflexivity | exact Hv].
    - eapply (asc_nth l Hasc i (length l - 1)); [| exact Hv | apply last_nth; discriminate].
      assert (i < length l)%nat by (apply nth_error_Some; congruence). lia. }
  rewrite Hmin, Hmax.
  split.
  - intros Hout. destruct (Rlast_eq l x 0) eqn:E.
    + apply last_eq_some in E. destruct E as (i & _ & Hi & _). apply Hall in Hi. lra.
    + destruct (Rle_bool first x) eqn:E1; destruct (Rle_bool x lst) eqn:E2; cbn; rbool; try reflexivity. lra.
  - intros Hin. destruct (Rlast_eq l x 0) eqn:E.
    + apply last_eq_some in E. destruct E as (i & -> & Hi & Hafter). cbn [Nat.add].
      exists i, x. repeat split; auto; try lra.
      intros j w Hj Hw. assert (x <= w) by (eapply (asc_nth l Hasc i j); [lia | eassumption | eassumption]).
      pose proof (Hafter j w Hj Hw). lra.
    + assert (E1 : Rle_bool first x = true) by (apply Rleb_true; lra).
      assert (E2 : Rle_bool x lst = true) by (apply Rleb_true; lra). rewrite E1, E2. cbn [andb].
      apply last_eq_none in E.
      destruct (count_below_spec l x Hasc) as (Hlen & Hlt & Hge).
      assert (Hc : (1 <= Rcount_below l x)%nat).
      { cbn. destruct (Rlt_bool first x) eqn:E3; [lia|]. rbool. exfalso. apply E. left. lra. }
      destruct (nth_error l (Rcount_below l x - 1)) as [v|] eqn:Ev.
      * exists (Rcount_below l x - 1)%nat, v. repeat split; auto.
        -- apply Hlt in Ev; [lra | lia].
        -- intros j w Hj Hw. assert (x <= w) by (eapply Hge; [|eassumption]; lia).
           assert (w <> x) by (intros ->; apply E; eapply nth_error_In; eassumption). lra.
      * apply nth_error_None in Ev. lia.
Qed.

(* the tolerance map *)
Theorem tolmap_get_spec {Z0} (first : R) (rest : list R) (zones : list Z0) (x : R) :
  asc (first :: rest) -> length zones = length (first :: rest) ->
  (x < first -> tolmap_get Rlt_bool Rle_bool nonan (first :: rest) zones x = Ok None) /\
  (last (first :: rest) first < x ->
     exists z0, tolmap_get Rlt_bool Rle_bool nonan (first :: rest) zones x = Ok (Some (last zones z0))) /\
  (first <= x <= last (first :: rest) first ->
     exists i v z, tolmap_get Rlt_bool Rle_bool nonan (first :: rest) zones x = Ok (Some z) /\
       nth_error zones i = Some z /\ nth_error (first :: rest) i = Some v /\ v <= x /\
       forall j w, (i < j)%nat -> nth_error (first :: rest) j = Some w -> x < w).
Proof.
  intros Hasc Hlen. destruct (index_of_spec first rest x Hasc) as [Hout Hin].
  unfold tolmap_get. cbv iota. set (l := first :: rest) in *.
  assert (Hfl : first <= last l first).
  { eapply (asc_nth l Hasc 0 (length l - 1)); [lia | reflexivity | apply last_nth; discriminate]. }
  repeat split.
  - intros Hx. rewrite Hout by (left; exact Hx).
    assert (E : Rlt_bool (last l first) x = false) by (apply Rltb_false; lra). rewrite E. reflexivity.
  - intros Hx. rewrite Hout by (right; exact Hx).
    assert (E : Rlt_bool (last l first) x = true) by (apply Rltb_true; lra). rewrite E.
    destruct zones as [|z0 zs]; [cbn in Hlen; lia|]. exists z0. reflexivity.
  - intros Hx. destruct (Hin Hx) as (i & v & Hi & Hv & Hle & Hafter). rewrite Hi.
    destruct (nth_error zones i) as [z|] eqn:Ez.
    + exists i, v, z. auto.
    + apply nth_error_None in Ez. assert (i < length l)%nat by (apply nth_error_Some; congruence). lia.
Qed.
