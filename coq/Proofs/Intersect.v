(* C06: per-edge intersection is sound and complete w.r.t. the determinant guard; the pruning test never discards a
   box the line meets; the post-processing sorts, keeps only computed hits, separates kept hits by 1e-8 and covers
   every computed hit within 1e-8. *)
From Coq Require Import ZArith Reals Lra Lia List Bool Arith Sorted Psatz.
From Flocq Require Import Core.Raux.
From EG Require Import Num.Num Num.RNum Lib.Vec Model.Types Model.Intersect Proofs.VecR.
Import ListNotations.
Local Open Scope R_scope.

Notation V := (@V2 RNum).
Ltac rn := cbn [nltb nleb neqb nadd nsub nmul ndiv nneg nabs nsqrt nmin nmax nofZ nlit RNum num] in *;
           change (@num RNum) with R in *; change (@n0 RNum) with 0 in *; change (@n1 RNum) with 1 in *.

Definition det2 (ad bd : V) : R := fst bd * snd ad - snd bd * fst ad.
Definition at_param (o d : V) (t : R) : V := add2 o (scale2 d t).

Lemma det_tol_pos : 0 < @DET_TOL RNum.
Proof. unfold DET_TOL. cbn. unfold Rlit. cbn. apply Rdiv_lt_0_compat; [lra|]. apply IZR_lt. reflexivity. Qed.
Lemma dedup_tol_pos : 0 < @DEDUP_TOL RNum.
Proof. unfold DEDUP_TOL. cbn. unfold Rlit. cbn. apply Rdiv_lt_0_compat; [lra|]. apply IZR_lt. reflexivity. Qed.

(* ---- intersection_param ---- *)
Theorem intersection_param_sound (a0 ad b0 bd : V) t0 t1 :
  intersection_param a0 ad b0 bd = Some (t0, t1) -> at_param a0 ad t0 = at_param b0 bd t1 /\ (@DET_TOL RNum) <= Rabs (det2 ad bd).
Proof.
  destruct a0 as [ax ay], ad as [dx dy], b0 as [bx by_], bd as [ex ey]. unfold intersection_param, at_param, det2. vec_unfold.
  destruct (Rlt_bool (Rabs (ex * dy - ey * dx)) (@DET_TOL RNum)) eqn:E; [discriminate|]. rbool.
  intros H. inversion H; subst; clear H. split; [|lra].
  assert (Hd : ex * dy - ey * dx <> 0).
  { intros Hz. rewrite Hz, Rabs_R0 in E. pose proof det_tol_pos. lra. }
  f_equal; field; exact Hd.
Qed.

Theorem intersection_param_none (a0 ad b0 bd : V) :
  intersection_param a0 ad b0 bd = None <-> Rabs (det2 ad bd) < (@DET_TOL RNum).
Proof.
  unfold intersection_param, det2. rn. destruct (Rlt_bool _ _) eqn:E; rbool; split; intros H; try discriminate; auto; lra.
Qed.

(* the crossing is unique when the determinant is non-zero, so the computed parameters are THE parameters *)
Theorem intersection_param_complete (a0 ad b0 bd : V) t0 t1 :
  (@DET_TOL RNum) <= Rabs (det2 ad bd) -> at_param a0 ad t0 = at_param b0 bd t1 ->
  intersection_param a0 ad b0 bd = Some (t0, t1).
Proof.
  destruct a0 as [ax ay], ad as [dx dy], b0 as [bx by_], bd as [ex ey]. unfold intersection_param, at_param, det2. vec_unfold.
  intros Hdet Heq. inversion Heq as [[H1 H2]]; clear Heq.
  assert (E : Rlt_bool (Rabs (ex * dy - ey * dx)) (@DET_TOL RNum) = false) by (apply Rltb_false; lra). rewrite E.
  assert (Hd : ex * dy - ey * dx <> 0).
  { intros Hz. rewrite Hz, Rabs_R0 in Hdet. pose proof det_tol_pos. lra. }
  f_equal. f_equal.
  - apply Rmult_eq_reg_r with (ex * dy - ey * dx); [|exact Hd]. unfold Rdiv. rewrite Rmult_assoc, Rinv_l by exact Hd. nra.
  - apply Rmult_eq_reg_r with (ex * dy - ey * dx); [|exact Hd]. unfold Rdiv. rewrite Rmult_assoc, Rinv_l by exact Hd. nra.
Qed.

(* ---- one edge ---- *)
Theorem ray_edge_sound (o d v0 v1 : V) t : ray_edge o d v0 v1 = Some t ->
  exists t1, 0 <= t1 <= 1 /\ at_param o d t = at_param v0 (sub2 v1 v0) t1.
Proof.
  unfold ray_edge. destruct (intersection_param o d v0 (sub2 v1 v0)) as [[t0 t1]|] eqn:E; [|discriminate]. rn.
  destruct (Rle_bool 0 t1) eqn:E0; [|discriminate]. destruct (Rle_bool t1 1) eqn:E1; [|discriminate]. rbool.
  cbn [andb]. intros H; inversion H; subst. exists t1. split; [lra|]. apply (intersection_param_sound _ _ _ _ _ _ E).
Qed.

Theorem ray_edge_complete (o d v0 v1 : V) t t1 :
  (@DET_TOL RNum) <= Rabs (det2 d (sub2 v1 v0)) -> 0 <= t1 <= 1 -> at_param o d t = at_param v0 (sub2 v1 v0) t1 ->
  ray_edge o d v0 v1 = Some t.
Proof.
  intros Hd Ht Heq. unfold ray_edge. rewrite (intersection_param_complete _ _ _ _ t t1 Hd Heq). rn.
  assert (E0 : Rle_bool 0 t1 = true) by (apply Rleb_true; lra). assert (E1 : Rle_bool t1 1 = true) by (apply Rleb_true; lra).
  rewrite E0, E1. reflexivity.
Qed.

(* ---- the per-edge scan lists exactly the edges that are hit ---- *)
Lemma naive_from_cons (o d v0 v1 : V) pts i :
  naive_from o d (v0 :: v1 :: pts) i =
  match ray_edge o d v0 v1 with Some t => (t, i) :: naive_from o d (v1 :: pts) (S i) | None => naive_from o d (v1 :: pts) (S i) end.
Proof. reflexivity. Qed.

Lemma naive_from_spec (o d : V) : forall pts i t k,
  In (t, k) (naive_from o d pts i) <->
  exists j, k = (i + j)%nat /\ (S j < length pts)%nat /\ ray_edge o d (nth j pts (0, 0)) (nth (S j) pts (0, 0)) = Some t.
Proof.
  induction pts as [|v0 pts IH]; intros i t k.
  - cbn. split; [intros [] | intros (j & _ & H & _); cbn in H; lia].
  - destruct pts as [|v1 pts].
    + cbn. split; [intros [] | intros (j & _ & H & _); cbn in H; lia].
    + rewrite naive_from_cons. destruct (ray_edge o d v0 v1) as [t'|] eqn:E.
      * cbn [In]. rewrite IH. split.
        -- intros [H | (j & -> & Hj & Hr)].
           ++ inversion H; subst. exists 0%nat. split; [lia|]. split; [cbn; lia | exact E].
           ++ exists (S j). split; [lia|]. split; [cbn in *; lia | exact Hr].
        -- intros (j & -> & Hj & Hr). destruct j as [|j].
           ++ left. cbn [nth] in Hr. rewrite E in Hr. inversion Hr. f_equal. lia.
           ++ right. exists j. split; [lia|]. split; [cbn in *; lia | exact Hr].
      * rewrite IH. split.
        -- intros (j & -> & Hj & Hr). exists (S j). split; [lia|]. split; [cbn in *; lia | exact Hr].
        -- intros (j & -> & Hj & Hr). destruct j as [|j].
           ++ cbn [nth] in Hr. rewrite E in Hr. discriminate.
           ++ exists j. split; [lia|]. split; [cbn in *; lia | exact Hr].
Qed.

Theorem naive_spec (o d : V) pts t k :
  In (t, k) (naive o d pts) <->
  (S k < length pts)%nat /\ ray_edge o d (nth k pts (0, 0)) (nth (S k) pts (0, 0)) = Some t.
Proof.
  unfold naive. rewrite naive_from_spec. split.
  - intros (j & -> & H). exact H.
  - intros H. exists k. split; [reflexivity | exact H].
Qed.

(* ---- pruning never discards a box the line meets ---- *)
Lemma div_le_pos a d t : 0 < d -> a <= t * d -> a * (1 / d) <= t.
Proof. intros Hd H. apply Rmult_le_reg_r with d; [lra|]. replace (a * (1 / d) * d) with a by (field; lra). lra. Qed.
Lemma div_ge_pos a d t : 0 < d -> t * d <= a -> t <= a * (1 / d).
Proof. intros Hd H. apply Rmult_le_reg_r with d; [lra|]. replace (a * (1 / d) * d) with a by (field; lra). lra. Qed.
Lemma div_le_neg a d t : d < 0 -> t * d <= a -> a * (1 / d) <= t.
Proof. intros Hd H. replace (a * (1 / d)) with ((- a) * (1 / (- d))) by (field; lra). apply div_le_pos; lra. Qed.
Lemma div_ge_neg a d t : d < 0 -> a <= t * d -> t <= a * (1 / d).
Proof. intros Hd H. replace (a * (1 / d)) with ((- a) * (1 / (- d))) by (field; lra). apply div_ge_pos; lra. Qed.

Lemma slab_axis_sound (sl o d lo hi tmin tmax t : R) : 0 <= sl -> tmin <= t <= tmax -> lo <= o + t * d <= hi ->
  let '(h, tmin', tmax') := slab_axis sl o d lo hi tmin tmax in h = true /\ tmin' <= t <= tmax'.
Proof.
  intros Hsl Ht Hbox. unfold slab_axis. rn.
  destruct (Req_bool d 0) eqn:Ed; rbool.
  - subst d. split; [|exact Ht]. apply andb_true_iff. split; apply Rleb_true; lra.
  - set (near := (lo - o) * (1 / d)). set (far := (hi - o) * (1 / d)).
    assert (Hn : (d > 0 -> near <= t <= far) /\ (d < 0 -> far <= t <= near)).
    { unfold near, far. split; intros Hd.
      - split; [apply div_le_pos; lra | apply div_ge_pos; lra].
      - split; [apply div_le_neg; lra | apply div_ge_neg; lra]. }
    destruct Hn as [Hp Hm].
    assert (Hmin : (if Rlt_bool far near then far else near) <= t /\ t <= (if Rlt_bool far near then near else far)).
    { destruct (Rlt_bool far near) eqn:Es; rbool; destruct (Rtotal_order d 0) as [Hd | [Hd | Hd]];
        [destruct (Hm Hd); lra | exfalso; apply Ed; exact Hd | destruct (Hp Hd); lra
        |destruct (Hm Hd); lra | exfalso; apply Ed; exact Hd | destruct (Hp Hd); lra]. }
    destruct Hmin as [H1 H2].
    set (n' := if Rlt_bool far near then far else near) in *. set (f' := if Rlt_bool far near then near else far) in *.
    assert (Ha : Rmax tmin n' <= t) by (apply Rmax_lub; lra).
    assert (Hb : t <= Rmin tmax f') by (apply Rmin_glb; lra).
    split; [|split; assumption].
    apply Rleb_true.
    assert (Hs : 0 <= (Rmax (Rmax tmin n') (- Rmax tmin n') + Rmax (Rmin tmax f') (- Rmin tmax f')) * sl).
    { apply Rmult_le_pos; [|exact Hsl].
      pose proof (Rmax_l (Rmax tmin n') (- Rmax tmin n')). pose proof (Rmax_r (Rmax tmin n') (- Rmax tmin n')).
      pose proof (Rmax_l (Rmin tmax f') (- Rmin tmax f')). pose proof (Rmax_r (Rmin tmax f') (- Rmin tmax f')). lra. }
    lra.
Qed.

Theorem slab_sound (sl fmax : R) (o d lo hi : V) t : 0 <= sl -> - fmax <= t <= fmax ->
  fst lo <= fst (at_param o d t) <= fst hi -> snd lo <= snd (at_param o d t) <= snd hi ->
  slab_hit sl fmax o d lo hi = true.
Proof.
  destruct o as [ox oy], d as [dx dy], lo as [lx ly], hi as [hx hy]. unfold at_param. vec_unfold. intros Hsl Ht Hx Hy.
  unfold slab_hit. cbn [fst snd]. rn.
  pose proof (slab_axis_sound sl ox dx lx hx (- fmax) fmax t Hsl Ht ltac:(lra)) as H0.
  destruct (@slab_axis RNum sl ox dx lx hx (Ropp fmax) fmax) as [[h0 tmin] tmax]. destruct H0 as [-> Ht'].
  pose proof (slab_axis_sound sl oy dy ly hy tmin tmax t Hsl Ht' ltac:(lra)) as H1.
  destruct (@slab_axis RNum sl oy dy ly hy tmin tmax) as [[h1 a] b]. destruct H1 as [-> _]. reflexivity.
Qed.

(* ---- sort and merge ---- *)
Notation hit := (R * nat)%type.
Definition hle (a b : hit) : Prop := fst a <= fst b.

Lemma insert_hit_in (x : hit) l y : In y (@insert_hit RNum x l) <-> y = x \/ In y l.
Proof.
  induction l as [|a l IH]; cbn [insert_hit In]; [intuition|]. rn.
  destruct (Rlt_bool (fst x) (fst a)); cbn [In]; [intuition | rewrite IH; intuition].
Qed.
Lemma sort_hits_in (l : list hit) y : In y (@sort_hits RNum l) <-> In y l.
Proof.
  unfold sort_hits. assert (H : forall acc, In y (fold_left (fun acc x => @insert_hit RNum x acc) l acc) <-> In y acc \/ In y l).
  { induction l as [|a l IH]; intros acc; cbn [fold_left In]; [tauto|]. rewrite IH, insert_hit_in. intuition. }
  rewrite H. cbn. tauto.
Qed.
Lemma insert_hit_sorted (x : hit) l : StronglySorted hle l -> StronglySorted hle (@insert_hit RNum x l).
Proof.
  induction 1 as [|a l Hs IH Ha]; cbn [insert_hit]; [repeat constructor|]. rn.
  destruct (Rlt_bool (fst x) (fst a)) eqn:E; rbool.
  - constructor; [constructor; assumption|]. constructor; [unfold hle; lra|].
    rewrite Forall_forall in *. intros y Hy. specialize (Ha y Hy). unfold hle in *. lra.
  - constructor; [exact IH|]. rewrite Forall_forall in *. intros y Hy. apply insert_hit_in in Hy.
    destruct Hy as [-> | Hy]; [unfold hle; lra | apply Ha; exact Hy].
Qed.
Lemma sort_hits_sorted (l : list hit) : StronglySorted hle (@sort_hits RNum l).
Proof.
  unfold sort_hits. assert (H : forall acc, StronglySorted hle acc -> StronglySorted hle (fold_left (fun acc x => @insert_hit RNum x acc) l acc)).
  { induction l as [|a l IH]; intros acc Ha; cbn [fold_left]; [exact Ha|]. apply IH. apply insert_hit_sorted. exact Ha. }
  apply H. constructor.
Qed.

Lemma dedup_hits_in (k : hit) l y : In y (@dedup_hits RNum k l) -> In y l.
Proof.
  revert k; induction l as [|a l IH]; intros k; cbn [dedup_hits In]; [tauto|].
  destruct (nltb _ _); cbn [In]; intros H; [right; eapply IH; exact H | destruct H as [H | H]; [auto | right; eapply IH; exact H]].
Qed.

(* kept hits are ascending, each at least 1e-8 after the one kept before it *)
Inductive spaced_from : hit -> list hit -> Prop :=
| sf_nil k : spaced_from k []
| sf_cons k x l : (@DEDUP_TOL RNum) <= fst x - fst k -> spaced_from x l -> spaced_from k (x :: l).

Lemma dedup_hits_spaced : forall l k, StronglySorted hle (k :: l) -> spaced_from k (@dedup_hits RNum k l).
Proof.
  induction l as [|a l IH]; intros k Hs; cbn [dedup_hits]; [constructor|].
  inversion Hs as [|? ? Hs' Hk]; subst. inversion Hs' as [|? ? Hs'' Ha]; subst. inversion Hk as [|? ? Hka Hkl]; subst.
  rn. destruct (Rlt_bool (Rabs (fst a - fst k)) (@DEDUP_TOL RNum)) eqn:E; rbool.
  - apply IH. constructor; assumption.
  - constructor; [|apply IH; exact Hs'].
    unfold hle in Hka. rewrite Rabs_pos_eq in E by lra. lra.
Qed.

Lemma dedup_hits_cover : forall l k x, In x l -> exists y, In y (k :: @dedup_hits RNum k l) /\ Rabs (fst x - fst y) < (@DEDUP_TOL RNum).
Proof.
  induction l as [|a l IH]; intros k x Hx; [destruct Hx|]. cbn [dedup_hits]. rn.
  destruct (Rlt_bool (Rabs (fst a - fst k)) (@DEDUP_TOL RNum)) eqn:E; rbool.
  - destruct Hx as [<- | Hx]; [exists k; split; [left; reflexivity | exact E] | apply IH; exact Hx].
  - destruct Hx as [<- | Hx].
    + exists a. split; [right; left; reflexivity|]. rn. replace (fst a - fst a) with 0 by ring. rewrite Rabs_R0. apply dedup_tol_pos.
    + destruct (IH a x Hx) as (y & Hy & Hd). exists y. split; [right; exact Hy | exact Hd].
Qed.

Theorem post_spec (l : list hit) :
  (forall y, In y (@post RNum l) -> In y l) /\
  (match @post RNum l with [] => l = [] | k :: rest => spaced_from k rest end) /\
  (forall x, In x l -> exists y, In y (@post RNum l) /\ Rabs (fst x - fst y) < (@DEDUP_TOL RNum)).
Proof.
  unfold post. pose proof (sort_hits_sorted l) as Hs. pose proof (sort_hits_in l) as Hin.
  destruct (@sort_hits RNum l) as [|k rest] eqn:E.
  - split; [intros y []|]. split.
    + destruct l as [|a l]; [reflexivity|]. exfalso. apply (Hin a). left. reflexivity.
    + intros x Hx. apply Hin in Hx. destruct Hx.
  - split; [|split].
    + intros y [<- | Hy]; [apply Hin; left; reflexivity | apply Hin; right; eapply dedup_hits_in; exact Hy].
    + apply dedup_hits_spaced. exact Hs.
    + intros x Hx. apply Hin in Hx. destruct Hx as [<- | Hx].
      * exists k. split; [left; reflexivity|]. rn. replace (fst k - fst k) with 0 by ring. rewrite Rabs_R0. apply dedup_tol_pos.
      * apply dedup_hits_cover. exact Hx.
Qed.

(* ---- the spanning ray exists exactly when there are two crossings, and runs from the first to the second ---- *)
Theorem spanning_ray_spec (o d : V) pts :
  match @spanning_ray RNum o d pts with
  | Some (p, v) => exists t0 i0 t1 i1, polyline_intersections o d pts = [(t0, i0); (t1, i1)] /\
                                       p = at_param o d t0 /\ add2 p v = at_param o d t1 /\ v = scale2 d (t1 - t0) /\ (@DEDUP_TOL RNum) <= t1 - t0
  | None => length (polyline_intersections o d pts) <> 2%nat
  end.
Proof.
  unfold spanning_ray. pose proof (post_spec (naive o d pts)) as (_ & Hsp & _). unfold polyline_intersections in *.
  destruct (post (naive o d pts)) as [|[t0 i0] [|[t1 i1] [|x rest]]]; cbn [length]; try lia.
  exists t0, i0, t1, i1. split; [reflexivity|]. split; [reflexivity|].
  inversion Hsp as [|? ? ? Hd _]; subst. cbn [fst] in Hd.
  destruct o as [ox oy], d as [dx dy]. unfold at_param. vec_unfold. repeat split; try (f_equal; ring). exact Hd.
Qed.
