(* C02: the specification returns the global optimum: the clamped projection is the nearest point of a segment, the
   scan over the edges returns the nearest point of the whole polyline (over the continuum of every edge), and the
   plane projection is the nearest point of the triangle's plane. *)
From Coq Require Import ZArith Reals Lra Lia List Bool Arith Psatz.
From Flocq Require Import Core.Raux.
From EG Require Import Num.Num Num.RNum Lib.Vec Model.Types Model.Curve Model.Closest Proofs.VecR.
Import ListNotations.
Local Open Scope R_scope.

Ltac rn := cbn [nltb nleb neqb nadd nsub nmul ndiv nneg nabs nsqrt nmin nmax nofZ nlit RNum num] in *;
           change (@num RNum) with R in *; change (@n0 RNum) with 0 in *; change (@n1 RNum) with 1 in *.

(* the one-dimensional fact: W - 2 t X + t^2 D over t in [0,1] is smallest at the clamped X / D *)
Lemma quad_clamp_min (W X D s : R) : 0 < D -> 0 <= s <= 1 ->
  let t := Rmin (Rmax (X / D) 0) 1 in W - 2 * t * X + t * t * D <= W - 2 * s * X + s * s * D.
Proof.
  intros HD Hs t. unfold t. clear t.
  assert (Hq : X = X / D * D) by (field; lra). generalize dependent (X / D). intros u Hq. subst X.
  assert (E : forall t, W - 2 * t * (u * D) + t * t * D = W - u * u * D + (t - u) * (t - u) * D) by (intros; ring).
  rewrite !E.
  assert (Hk : forall t, (t - u) * (t - u) <= (s - u) * (s - u) -> W - u * u * D + (t - u) * (t - u) * D <= W - u * u * D + (s - u) * (s - u) * D).
  { intros t0 H. assert ((t0 - u) * (t0 - u) * D <= (s - u) * (s - u) * D) by (apply Rmult_le_compat_r; lra). lra. }
  apply Hk.
  destruct (Rle_dec u 0) as [H0|H0].
  - rewrite Rmax_right by lra. rewrite Rmin_left by lra. assert (0 <= s * (s - 2 * u)) by (apply Rmult_le_pos; lra). lra.
  - rewrite Rmax_left by lra. destruct (Rle_dec u 1) as [H1|H1].
    + rewrite Rmin_left by lra. replace (u - u) with 0 by ring. pose proof (sq_nonneg (s - u)). lra.
    + rewrite Rmin_right by lra. assert (0 <= (1 - s) * ((u - 1) + (u - s))) by (apply Rmult_le_pos; lra). lra.
Qed.

Record InnerLaws (V : @VOps RNum) : Prop := {
  in_expand : forall q a d t, dsq V q (vadd V a (vscale V d t)) = dsq V q a - 2 * t * vdot V (vsub V q a) d + t * t * vdot V d d;
  in_pos : forall d, 0 <= vdot V d d;
  in_zero : forall d w, vdot V d d = 0 -> vdot V w d = 0;
}.

Lemma inner2 : InnerLaws (@VO2 RNum).
Proof.
  constructor; unfold dsq; cbn [VO2 vdot vadd vscale vsub pt].
  - intros [qx qy] [ax ay] [dx dy] t. vec_unfold. ring.
  - intros [dx dy]. vec_unfold. nra.
  - intros [dx dy] [wx wy]. vec_unfold. intros H. assert (dx = 0) by nra. assert (dy = 0) by nra. subst. ring.
Qed.
Lemma inner3 : InnerLaws (@VO3 RNum).
Proof.
  constructor; unfold dsq; cbn [VO3 vdot vadd vscale vsub pt].
  - intros [[qx qy] qz] [[ax ay] az] [[dx dy] dz] t. vec_unfold. ring.
  - intros [[dx dy] dz]. vec_unfold. nra.
  - intros [[dx dy] dz] [[wx wy] wz]. vec_unfold. intros H. assert (dx = 0) by nra. assert (dy = 0) by nra. assert (dz = 0) by nra. subst. ring.
Qed.

Section Opt.
  Variable V : @VOps RNum.
  Hypothesis IL : InnerLaws V.
  Notation P := (pt V).

  Definition on_seg (a b : P) (s : R) : P := vadd V a (vscale V (vsub V b a) s).

  (* the clamped projection is the nearest point of the segment *)
  Theorem seg_closest_opt (q a b : P) (s : R) : 0 <= s <= 1 ->
    0 <= seg_param V q a b <= 1 /\ dsq V q (seg_closest V q a b) <= dsq V q (on_seg a b s).
  Proof.
    intros Hs. unfold seg_closest, on_seg, seg_param. rn.
    set (d := vsub V b a). pose proof (in_pos V IL d) as Hp.
    destruct (Rle_bool (vdot V d d) 0) eqn:E; rbool.
    - split; [lra|]. assert (Hz : vdot V d d = 0) by lra.
      rewrite !(in_expand V IL). rewrite Hz, (in_zero V IL d _ Hz). lra.
    - split.
      + split; [apply Rmin_glb; [apply Rmax_r | lra] | apply Rmin_r].
      + rewrite !(in_expand V IL). apply quad_clamp_min; lra.
  Qed.

  (* the scan keeps the best edge so far *)
  Definition edge_of (pts : list P) (j : nat) (s : R) : P := on_seg (nth j pts (vzero V)) (nth (S j) pts (vzero V)) s.

  Definition best_ok (pts : list P) (q : P) (lo : nat) (hi : nat) (best : option (R * nat * R * P)) : Prop :=
    match best with
    | None => lo = hi
    | Some (d2, i, t, c) =>
        (lo <= i < hi)%nat /\ 0 <= t <= 1 /\ c = edge_of pts i t /\ d2 = dsq V q c /\
        forall j s, (lo <= j < hi)%nat -> 0 <= s <= 1 -> d2 <= dsq V q (edge_of pts j s)
    end.

  Lemma poly_scan_spec (q : P) (all : list P) : forall rest pre k best,
    all = pre ++ rest -> length pre = k -> best_ok all q 0 k best ->
    best_ok all q 0 (k + (length rest - 1)) (poly_scan V q rest k best).
  Proof.
    induction rest as [|a rest IH]; intros pre k best Hr Hlen Hb.
    - cbn [poly_scan length]. replace (k + (0 - 1))%nat with k by lia. exact Hb.
    - destruct rest as [|b rest'].
      + cbn [poly_scan length]. replace (k + (1 - 1))%nat with k by lia. exact Hb.
      + cbn [poly_scan]. rn.
        assert (Ha : a = nth k all (vzero V) /\ b = nth (S k) all (vzero V)).
        { rewrite Hr. split.
          - rewrite app_nth2 by lia. replace (k - length pre)%nat with 0%nat by lia. reflexivity.
          - rewrite app_nth2 by lia. replace (S k - length pre)%nat with 1%nat by lia. reflexivity. }
        destruct Ha as [Ea Eb].
        set (t := seg_param V q a b). set (c := vadd V a (vscale V (vsub V b a) t)).
        assert (Hopt : forall s, 0 <= s <= 1 -> 0 <= t <= 1 /\ dsq V q c <= dsq V q (edge_of all k s)).
        { intros s Hs. unfold edge_of. rewrite <- Ea, <- Eb. apply (seg_closest_opt q a b s Hs). }
        assert (Hnew : forall best', best_ok all q 0 (S k) best' ->
                  best_ok all q 0 (k + (length (a :: b :: rest') - 1)) (poly_scan V q (b :: rest') (S k) best')).
        { intros best' Hb'. replace (k + (length (a :: b :: rest') - 1))%nat with (S k + (length (b :: rest') - 1))%nat by (cbn [length]; lia).
          apply (IH (pre ++ [a])); [rewrite <- app_assoc; exact Hr | rewrite app_length; cbn [length]; lia | exact Hb']. }
        apply Hnew.
        destruct best as [[[[bd bi] bt] bc]|].
        * destruct Hb as (Hi & Ht & Hc & Hd & Hall).
          destruct (Rlt_bool (dsq V q c) bd) eqn:E; rbool.
          -- cbn [best_ok]. destruct (Hopt 0 ltac:(lra)) as [Htt _].
             split; [lia|]. split; [exact Htt|]. split; [unfold edge_of; rewrite <- Ea, <- Eb; reflexivity|]. split; [reflexivity|].
             intros j s Hj Hs. destruct (Nat.eq_dec j k) as [->|Hne]; [apply Hopt; exact Hs|].
             specialize (Hall j s ltac:(lia) Hs). lra.
          -- cbn [best_ok]. split; [lia|]. split; [exact Ht|]. split; [exact Hc|]. split; [exact Hd|].
             intros j s Hj Hs. destruct (Nat.eq_dec j k) as [->|Hne]; [destruct (Hopt s Hs); lra | apply Hall; [lia | exact Hs]].
        * cbn [best_ok] in Hb. cbn [best_ok]. destruct (Hopt 0 ltac:(lra)) as [Htt _].
          split; [lia|]. split; [exact Htt|]. split; [unfold edge_of; rewrite <- Ea, <- Eb; reflexivity|]. split; [reflexivity|].
          intros j s Hj Hs. assert (j = k) by lia. subst j. apply Hopt. exact Hs.
  Qed.

  (* the reported point lies on the reported edge at the reported fraction, and no point of any edge is nearer *)
  Theorem poly_closest_opt (q : P) (pts : list P) : (2 <= length pts)%nat ->
    exists d2 i t c, poly_closest V q pts = Some (d2, i, t, c) /\
      (S i < length pts)%nat /\ 0 <= t <= 1 /\ c = edge_of pts i t /\ d2 = dsq V q c /\
      forall j s, (S j < length pts)%nat -> 0 <= s <= 1 -> d2 <= dsq V q (edge_of pts j s).
  Proof.
    intros Hn. unfold poly_closest.
    pose proof (poly_scan_spec q pts pts [] 0 None eq_refl eq_refl eq_refl) as H.
    unfold best_ok in H. rn.
    match type of H with match ?x with _ => _ end => remember x as r eqn:Er in H end.
    destruct r as [[[[d2 i] t] c]|].
    - destruct H as (Hi & Ht & Hc & Hd & Hall). exists d2, i, t, c. split; [symmetry; exact Er|].
      split; [lia|]. split; [exact Ht|]. split; [exact Hc|]. split; [exact Hd|].
      intros j s Hj Hs. apply Hall; [lia | exact Hs].
    - lia.
  Qed.
End Opt.

(* the plane projection is the nearest point of the plane: for every x in the plane, |q - p| <= |q - x| *)
Theorem plane_projection_opt (q a n x : @V3 RNum) : 0 < dot3 n n -> dot3 (sub3 x a) n = 0 ->
  let p := sub3 q (scale3 n (dot3 (sub3 q a) n / dot3 n n)) in
  dot3 (sub3 p a) n = 0 /\ dsq (@VO3 RNum) q p <= dsq (@VO3 RNum) q x.
Proof.
  intros Hn Hx p. unfold p, dsq. cbn [VO3 vdot vsub pt].
  destruct q as [[qx qy] qz], a as [[ax ay] az], n as [[nx ny] nz], x as [[xx xy] xz]. vec_unfold.
  set (nn := nx * nx + ny * ny + nz * nz) in *. set (s := ((qx - ax) * nx + (qy - ay) * ny + (qz - az) * nz) / nn).
  assert (Hs : s * nn = (qx - ax) * nx + (qy - ay) * ny + (qz - az) * nz) by (unfold s; field; lra).
  split.
  - replace ((qx - nx * s - ax) * nx + (qy - ny * s - ay) * ny + (qz - nz * s - az) * nz) with
      (((qx - ax) * nx + (qy - ay) * ny + (qz - az) * nz) - s * nn) by (unfold nn; ring). lra.
  - replace ((qx - (qx - nx * s)) * (qx - (qx - nx * s)) + (qy - (qy - ny * s)) * (qy - (qy - ny * s)) + (qz - (qz - nz * s)) * (qz - (qz - nz * s)))
      with (s * s * nn) by (unfold nn; ring).
    (* |q - x|^2 = |q - p|^2 + |p - x|^2 *)
    assert (Hpx : (qx - xx) * (qx - xx) + (qy - xy) * (qy - xy) + (qz - xz) * (qz - xz) =
                  s * s * nn + ((qx - nx * s - xx) * (qx - nx * s - xx) + (qy - ny * s - xy) * (qy - ny * s - xy) + (qz - nz * s - xz) * (qz - nz * s - xz))).
    { assert (Hc : (qx - nx * s - xx) * nx + (qy - ny * s - xy) * ny + (qz - nz * s - xz) * nz = 0).
      { replace ((qx - nx * s - xx) * nx + (qy - ny * s - xy) * ny + (qz - nz * s - xz) * nz) with
          (((qx - ax) * nx + (qy - ay) * ny + (qz - az) * nz) - s * nn - ((xx - ax) * nx + (xy - ay) * ny + (xz - az) * nz)) by (unfold nn; ring). lra. }
      replace ((qx - xx) * (qx - xx) + (qy - xy) * (qy - xy) + (qz - xz) * (qz - xz)) with
        (s * s * nn + ((qx - nx * s - xx) * (qx - nx * s - xx) + (qy - ny * s - xy) * (qy - ny * s - xy) + (qz - nz * s - xz) * (qz - nz * s - xz))
         + 2 * s * ((qx - nx * s - xx) * nx + (qy - ny * s - xy) * ny + (qz - nz * s - xz) * nz)) by (unfold nn; ring).
      rewrite Hc. ring. }
    rewrite Hpx. pose proof (sq_nonneg (qx - nx * s - xx)). pose proof (sq_nonneg (qy - ny * s - xy)). pose proof (sq_nonneg (qz - nz * s - xz)). lra.
Qed.
