(* C20: engeom's own bookkeeping around the flattening: the UV map (geom3/mesh/uv_mapping.rs): a triangle id and
   barycentric coordinates give a UV point; a UV point inside a triangle gives that triangle's barycentric coordinates
   (sub-triangle areas).  The flattening pipeline itself (sparse LU) is certified per case. *)
From Coq Require Import ZArith List Bool Arith.
From EG Require Import Num.Num Lib.Vec Model.Types.
Import ListNotations.

Section Flatten.
  Context {N : Num}.
  Local Open Scope num_scope.

  Definition uv_point (a b c : V2) (bc : num * num * num) : V2 :=
    let '(w0, w1, w2) := bc in add2 (add2 (scale2 a w0) (scale2 b w1)) (scale2 c w2).
  Definition area2 (p q r : V2) : num := (fst q - fst p) * (snd r - snd p) - (snd q - snd p) * (fst r - fst p).
  Definition bary2 (a b c p : V2) : num * num * num :=
    let total := area2 a b c in (area2 p b c / total, area2 a p c / total, area2 a b p / total).
  Definition inside2 (a b c p : V2) : bool :=
    let '(w0, w1, w2) := bary2 a b c p in (n0 <? w0) && (n0 <? w1) && (n0 <? w2).
End Flatten.
