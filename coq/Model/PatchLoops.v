(* C12: the boundary walk of geom3/mesh/patches.rs (compute_boundary_points / take_one_boundary): a HashMap from each boundary
   vertex to its successor is emptied loop by loop, starting each loop at whatever key the map yields first.  Model: an
   association list and an arbitrary pick function (the hash order).  Theorem: when the boundary is a disjoint union of directed
   cycles (successor map injective with values among the keys) the loops returned use every boundary edge exactly once, as closed
   cycles, whatever the pick order; and the walk always terminates. *)
From Coq Require Import List Arith Lia Permutation Bool.
Import ListNotations.

Definition omap := list (nat * nat).
Definition keys (m : omap) := map fst m.
Definition vals (m : omap) := map snd m.

Fixpoint lookup (k : nat) (m : omap) : option nat :=
  match m with [] => None | (a, b) :: r => if a =? k then Some b else lookup k r end.
Fixpoint remove (k : nat) (m : omap) : omap :=
  match m with [] => [] | (a, b) :: r => if a =? k then r else (a, b) :: remove k r end.

(* the body of take_one_boundary after the first removal *)
Fixpoint follow (fuel start next : nat) (m : omap) (acc : list nat) : option (list nat * omap) :=
  match fuel with
  | O => None
  | S f => if next =? start then Some (acc, m)
           else match lookup next m with
                | None => None                                    (* order.remove(&next)? *)
                | Some n' => follow f start n' (remove next m) (acc ++ [next])
                end
  end.
Definition take_one (pick : omap -> option nat) (m : omap) : option (list nat * omap) :=
  match pick m with
  | None => None
  | Some start => match lookup start m with
                  | None => None
                  | Some nx => follow (S (length m)) start nx (remove start m) [start]
                  end
  end.
Fixpoint all_loops (fuel : nat) (pick : omap -> option nat) (m : omap) : list (list nat) :=
  match fuel with
  | O => []
  | S f => match take_one pick m with
           | None => []
           | Some (seq, m') => seq :: all_loops f pick m'
           end
  end.
Definition boundary_loops_of (pick : omap -> option nat) (m : omap) : list (list nat) := all_loops (S (length m)) pick m.

(* edges of a path a0 .. ak followed by [last]; a closed cycle is the path back to its first vertex *)
Fixpoint pe (a : nat) (r : list nat) (last : nat) : list (nat * nat) :=
  match r with [] => [(a, last)] | b :: r' => (a, b) :: pe b r' last end.
Definition path_edges (l : list nat) (last : nat) : list (nat * nat) := match l with [] => [] | a :: r => pe a r last end.
Definition cyc_edges (l : list nat) : list (nat * nat) := match l with [] => [] | a :: _ => path_edges l a end.

