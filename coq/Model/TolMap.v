(* C16 / C17: DiscreteDomain::index_of (common/discrete_domain.rs) and
   DiscreteDomainTolMap::get (metrology/tolerance_map.rs).  Comparison-only. *)
From Coq Require Import ZArith List Bool.
From EG Require Import Num.Num.
Import ListNotations.

Section Core.
  Context {A : Type} (ltb leb : A -> A -> bool) (isnan : A -> bool).

  (* number of leading elements strictly below x: the Err(insertion point) of a binary search
     on a sorted slice that does not contain x *)
  Fixpoint count_below (l : list A) (x : A) : nat :=
    match l with
    | [] => 0
    | v :: l' => if ltb v x then S (count_below l' x) else 0
    end.
  (* index of the LAST element equal to x in a sorted slice, if any.  slice::binary_search_by may
     return any index among equal keys; clients are compared by value, not by index *)
  Fixpoint last_eq (l : list A) (x : A) (i : nat) : option nat :=
    match l with
    | [] => None
    | v :: l' =>
        match last_eq l' x (S i) with
        | Some j => Some j
        | None => if negb (ltb v x) && negb (ltb x v) then Some i else None
        end
    end.

  Definition fmin (a b : A) := if ltb b a then b else a.
  Definition fmax (a b : A) := if ltb a b then b else a.

  (* DiscreteDomain::index_of; the domain is NaN-free by construction, x may be NaN (-> panic) *)
  Definition index_of (l : list A) (x : A) : res (option nat) :=
    match l with
    | [] => Ok None
    | first :: _ =>
        if isnan x then Panic else
        match last_eq l x 0 with
        | Some i => Ok (Some i)
        | None =>
            let last := List.last l first in
            (* bounds_unchecked().contains(x): Interval::new orders the two ends *)
            if leb (fmin first last) x && leb x (fmax first last)
            then Ok (Some (count_below l x - 1)) else Ok None
        end
    end.

  (* DiscreteDomainTolMap::get; zones are abstract *)
  Context {Z0 : Type}.
  Definition tolmap_get (l : list A) (zones : list Z0) (x : A) : res (option Z0) :=
    match l with
    | [] => Ok None
    | first :: _ =>
      match index_of l x with
      | Panic => Panic
      | Err => Err
      | Ok (Some i) => match nth_error zones i with Some z => Ok (Some z) | None => Panic end
      | Ok None =>
          (* after the fix: the last zone only beyond the end, nothing below the start *)
          if ltb (List.last l first) x then
            match zones with [] => Panic | z0 :: _ => Ok (Some (List.last zones z0)) end
          else Ok None
      end
    end.
End Core.
