(* C15: mesh sampling (geom3/mesh/sampling.rs).  sample_dense is deterministic and modelled whole; of sample_uniform the two
   pure steps are modelled (the face chosen for a draw r, the point for a draw (r1, r2)); the random draws themselves are
   rand::random, outside the model. *)
From Coq Require Import ZArith List Bool Arith.
From EG Require Import Num.Num Lib.Vec Model.Types.
Import ListNotations.

Section Sampling.
  Context {N : Num}.
  Local Open Scope num_scope.

  Definition n3 : num := nofZ 3.
  Definition mean_tri (a b c : V3) : V3 := div3 (add3 (add3 (add3 (n0, n0, n0) a) b) c) n3.

  (* nalgebra Matrix::angle *)
  Definition clamp1 (x : num) : num := if x <? - n1 then - n1 else if n1 <? x then n1 else x.
  Definition angle3 (u v : V3) : num :=
    let n1' := norm3 u in let n2' := norm3 v in
    if (n1' =? n0) || (n2' =? n0) then n0 else nacos (clamp1 (dot3 u v / (n1' * n2'))).

  (* 0 .. (x as usize): the naturals k with k + 1 <= x *)
  Fixpoint range_below (fuel k : nat) (x : num) : list nat :=
    match fuel with
    | O => []
    | S fuel' => if nofnat (S k) <=? x then k :: range_below fuel' (S k) x else []
    end.

  Definition half_pi : num := npi / n2.

  (* the lattice of one face *)
  (* parry Triangle::normal(): Unit::try_new(scaled normal, f64::EPSILON) - none when the squared norm is at most epsilon squared *)
  Definition f64_eps : num := n1 / nofZ 4503599627370496.
  Definition has_normal (a b c : V3) : bool :=
    let n := cross3 (sub3 b a) (sub3 c a) in f64_eps * f64_eps <? nsq3 n.

  Definition dense_face (fuel : nat) (a b c : V3) (s : num) : list V3 :=
    if negb (has_normal a b c) then [] else      (* a face without a normal has no surface to sample *)
    let center := mean_tri a b c in
    if (dist3 a center <? s) && (dist3 b center <? s) && (dist3 c center <? s) then [center]
    else
      let ua := sub3 b a in let va := sub3 c a in
      let ub := sub3 a b in let vb := sub3 c b in
      let uc := sub3 a c in let vc := sub3 b c in
      let aa := nabs (angle3 ua va) - half_pi in
      let ab := nabs (angle3 ub vb) - half_pi in
      let ac := nabs (angle3 uc vc) - half_pi in
      let '(u, v, p) := if (aa <? ab) && (aa <? ac) then (ua, va, a)
                        else if (ab <? aa) && (ab <? ac) then (ub, vb, b) else (uc, vc, c) in
      let nu := norm3 u / s in let nv := norm3 v / s in
      flat_map (fun ui =>
        flat_map (fun vi =>
          let uf := nofnat ui / nu in let vf := nofnat vi / nv in
          if uf + vf <=? n1 then [add3 (add3 p (scale3 u uf)) (scale3 v vf)] else [])
          (range_below fuel 0 nv))
        (range_below fuel 0 nu).

  Definition sample_dense (fuel : nat) (verts : list V3) (faces : list (nat * nat * nat)) (s : num) : list V3 :=
    flat_map (fun f => let '(i, j, k) := f in
                dense_face fuel (nth i verts (n0, n0, n0)) (nth j verts (n0, n0, n0)) (nth k verts (n0, n0, n0)) s) faces.

  (* sample_uniform: the point for the draws (r1, r2) ... *)
  Definition uniform_point (a b c : V3) (r1 r2 : num) : V3 :=
    let wa := n1 - nsqrt r1 in let wb := nsqrt r1 * (n1 - r2) in let wc := nsqrt r1 * r2 in
    add3 (add3 (scale3 a wa) (scale3 b wb)) (scale3 c wc).
  (* ... and the face for the draw r against the running totals of the areas: the number of totals below r *)
  Fixpoint cumulative (acc : num) (areas : list num) : list num :=
    match areas with [] => [] | x :: l => let acc' := acc + x in acc' :: cumulative acc' l end.
  Fixpoint count_below (cum : list num) (r : num) : nat :=
    match cum with [] => O | x :: l => if x <? r then S (count_below l r) else O end.
End Sampling.
