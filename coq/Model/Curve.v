(* C01 (and the base of C03-C05): polyline curves, geom2/curve2.rs and geom3/curve3.rs.
   One generic model over a small record of vector operations, instantiated at V2 (Curve2, with the
   averaged vertex directions and closedness) and V3 (Curve3). *)
From Coq Require Import ZArith List Bool Arith.
From EG Require Import Num.Num Lib.Vec Model.TolMap.
Import ListNotations.

Record VOps {N : Num} := mkVOps {
  pt : Type;
  vsub : pt -> pt -> pt;
  vadd : pt -> pt -> pt;
  vscale : pt -> num -> pt;
  vdiv : pt -> num -> pt;
  vdot : pt -> pt -> num;
  vzero : pt;
}.

Section Curve.
  Context {N : Num} (V : VOps).
  Local Open Scope num_scope.
  Notation P := (pt V).

  Definition vnorm (v : P) : num := nsqrt (vdot V v v).
  Definition vnormalize (v : P) : P := vdiv V v (vnorm v).
  Definition vdist (a b : P) : num := vnorm (vsub V a b).
  Definition vlerp (a b : P) (f : num) : P := vadd V a (vscale V (vsub V b a) f).

  (* Vec::dedup_by(|a, b| dist(a, b) <= tol): a = candidate, b = last retained *)
  Fixpoint dedup_from (tol : num) (kept : P) (l : list P) : list P :=
    match l with
    | [] => []
    | a :: l' => if vdist a kept <=? tol then dedup_from tol kept l' else a :: dedup_from tol a l'
    end.
  Definition dedup_tol (tol : num) (l : list P) : list P :=
    match l with [] => [] | a :: l' => a :: dedup_from tol a l' end.

  (* cumulative lengths: lengths[i+1] = dist(v[i+1], v[i]) + lengths[i] *)
  Fixpoint cum_lengths (acc : num) (prev : P) (l : list P) : list num :=
    match l with
    | [] => []
    | v :: l' => let acc' := vdist v prev + acc in acc' :: cum_lengths acc' v l'
    end.
  Definition lengths_of (pts : list P) : list num :=
    match pts with [] => [n0] | v :: l => n0 :: cum_lengths n0 v l end.

  Record curve := mkCurve { cpts : list P; clens : list num; cclosed : bool; ctol : num; cavg : bool }.

  Definition count (c : curve) : nat := length (cpts c).
  Definition vtx (c : curve) (i : nat) : P := nth i (cpts c) (vzero V).
  Definition len_at (c : curve) (i : nat) : num := nth i (clens c) n0.
  Definition clength (c : curve) : num := last (clens c) n0.

  (* Curve2::from_points (avg = true) / Curve3::from_points (avg = false, never force-closed) *)
  Definition from_points (avg : bool) (points : list P) (tol : num) (force_closed : bool) : res curve :=
    let pts := dedup_tol tol points in
    if (length pts <? 2)%nat then Err else
    let pts := match pts with
               | first :: _ => if force_closed && (tol <? vdist first (last pts first)) then pts ++ [first] else pts
               | [] => pts end in
    let is_closed := match pts with first :: _ => vdist first (last pts first) <=? tol | [] => false end in
    Ok (mkCurve pts (lengths_of pts) (if avg then is_closed else false) tol avg).

  Definition dir_of_edge (c : curve) (i : nat) : P := vnormalize (vsub V (vtx c (S i)) (vtx c i)).

  Definition dir_of_vertex (c : curve) (index : nat) : P :=
    let n := count c in
    let is_first := (index =? 0)%nat in
    let is_last := (index =? n - 1)%nat in
    if cavg c then
      if cclosed c && (is_first || is_last) then
        vnormalize (vadd V (dir_of_edge c 0) (dir_of_edge c (n - 2)))
      else if is_first then dir_of_edge c 0
      else if is_last then dir_of_edge c (n - 2)
      else vnormalize (vadd V (dir_of_edge c (index - 1)) (dir_of_edge c index))
    else
      if is_last then dir_of_edge c (index - 1) else dir_of_edge c index.

  Record station := mkStation { st_point : P; st_dir : P; st_index : nat; st_frac : num }.

  Definition at_vertex (c : curve) (index : nat) : station :=
    if (index =? count c - 1)%nat
    then mkStation (vtx c index) (dir_of_vertex c index) (index - 1) n1
    else mkStation (vtx c index) (dir_of_vertex c index) index n0.

  Definition length_along (c : curve) (s : station) : num :=
    len_at c (st_index s) + (len_at c (S (st_index s)) - len_at c (st_index s)) * st_frac s.

  (* binary search over the cumulative lengths (specification: Found = an index holding the key) *)
  Definition lsearch (c : curve) (l : num) : nat + nat :=
    match last_eq nltb (clens c) l 0 with
    | Some i => inl i
    | None => inr (count_below nltb (clens c) l)
    end.

  Definition at_length (c : curve) (l : num) : option station :=
    if (l <? n0) || (clength c <? l) then None
    else match lsearch c l with
         | inl index => Some (at_vertex c index)
         | inr next_index =>
             let index := (next_index - 1)%nat in
             let dir := dir_of_edge c index in
             let remaining := l - len_at c index in
             let f := remaining / (len_at c (S index) - len_at c index) in
             Some (mkStation (vadd V (vtx c index) (vscale V dir remaining)) dir index f)
         end.

  Definition at_fraction (c : curve) (f : num) : option station := at_length c (f * clength c).
  Definition at_front (c : curve) : station := at_vertex c 0.
  Definition at_back (c : curve) : station := at_vertex c (count c - 1).
  Definition iter_stations (c : curve) : list station := map (at_vertex c) (seq 0 (count c)).
End Curve.

Section Instances.
  Context {N : Num}.
  Definition VO2 : VOps := mkVOps N V2 sub2 add2 scale2 div2 dot2 (n0, n0).
  Definition VO3 : VOps := mkVOps N V3 sub3 add3 scale3 div3 dot3 (mk3 n0 n0 n0).
  (* CurveStation2::normal: the direction rotated by -pi/2.  nalgebra builds the rotation from
     (cos, sin) of the angle; the model uses the exact quarter turn (x, y) -> (y, -x). *)
  Definition normal2 (d : V2) : V2 := (snd d, nneg (fst d)).
End Instances.
