(* C17: DiscreteDomain (common/discrete_domain.rs) and Series1 (func1/series1.rs).
   A NaN result of the implementation (interpolation outside the domain) is None in the model.
   slice::binary_search_by is modelled by its specification: Found = an index whose key equals x (the
   model takes the last one), Err = the number of keys below x. *)
From Coq Require Import ZArith List Bool Arith.
From EG Require Import Num.Num Model.TolMap.
Import ListNotations.

Section Series.
  Context {N : Num}.
  Local Open Scope num_scope.

  (* ---- DiscreteDomain ---- *)
  Fixpoint ascending (l : list num) : bool :=
    match l with
    | a :: (b :: _) as l' => (a <=? b) && ascending l'
    | _ => true
    end.
  Definition all_finite (l : list num) : bool := forallb nfinite l.

  Definition dd_try_from (vals : list num) : res (list num) :=
    if negb (all_finite vals) then Err else if negb (ascending vals) then Err else Ok vals.

  Definition dd_push (vals : list num) (v : num) : res (list num) :=
    if negb (nfinite v) then Err
    else match vals with
         | [] => Ok [v]
         | _ => if v <? last vals n0 then Err else Ok (vals ++ [v])
         end.

  Definition dd_linear (start end_ : num) (n : nat) : list num :=
    let lo := nmin start end_ in
    let hi := nmax start end_ in
    match n with
    | O => []
    | S O => [lo]
    | _ => let step := (hi - lo) / nofnat (n - 1) in
           map (fun i => lo + nofnat i * step) (seq 0 n)
    end.

  (* ---- Series1 = (xs, ys) ---- *)
  Definition series : Type := list num * list num.

  Definition s_try_new (xs ys : list num) : res series :=
    if negb (length xs =? length ys)%nat then Err
    else match dd_try_from xs with Ok d => Ok (d, ys) | _ => Err end.

  (* try_from(..).unwrap() *)
  Definition unwrap_dd (xs ys : list num) : res series :=
    match dd_try_from xs with Ok d => Ok (d, ys) | _ => Panic end.

  Definition s_scaled_by (s : series) (sx sy : num) : res series :=
    let xs := map (fun v => v * sx) (fst s) in
    let ys := map (fun v => v * sy) (snd s) in
    if sx <? n0 then unwrap_dd (rev xs) (rev ys) else unwrap_dd xs ys.

  Definition s_shift_by (s : series) (dx dy : num) : res series :=
    unwrap_dd (map (fun v => v + dx) (fst s)) (map (fun v => v + dy) (snd s)).

  Definition bsearch (xs : list num) (x : num) : nat + nat :=   (* inl = Ok(index), inr = Err(insert) *)
    match last_eq nltb xs x 0 with
    | Some i => inl i
    | None => inr (count_below nltb xs x)
    end.

  Definition nth_num (l : list num) (i : nat) : num := nth i l n0.

  (* interpolate: None = NaN (outside the domain); Panic = index out of range / "should never happen" *)
  Definition s_interpolate (s : series) (x : num) : res (option num) :=
    let '(xs, ys) := s in
    match xs with
    | [] => Panic
    | x_first :: _ =>
      if (x <? x_first) || (last xs n0 <? x) then Ok None
      else match bsearch xs x with
           | inl i => if (i <? length ys)%nat then Ok (Some (nth_num ys i)) else Panic
           | inr O => Panic
           | inr (S j) =>
               if (S j <? length xs)%nat && (S j <? length ys)%nat then
                 let x0 := nth_num xs j in let x1 := nth_num xs (S j) in
                 let y0 := nth_num ys j in let y1 := nth_num ys (S j) in
                 let m := (y1 - y0) / (x1 - x0) in
                 Ok (Some (y0 + m * (x - x0)))
               else Panic
           end
    end.

  Definition s_index_of_x_after (s : series) (x : num) : nat :=
    match bsearch (fst s) x with inl i => i | inr i => i end.

  (* Series1::between *)
  Fixpoint take_while_le (xs ys : list num) (x1 : num) : list num * list num :=
    match xs, ys with
    | x :: xs', y :: ys' => if x <=? x1 then let '(a, b) := take_while_le xs' ys' x1 in (x :: a, y :: b) else ([], [])
    | _, _ => ([], [])
    end.

  Definition opt_or_nan (o : res (option num)) : res num :=
    (* a NaN ordinate would then be stored; the model refuses instead (never the case inside the domain) *)
    match o with Ok (Some v) => Ok v | Ok None => Err | Err => Err | Panic => Panic end.

  Definition s_between (s : series) (x0 x1 : num) : res series :=
    let '(xs, ys) := s in
    let start :=
      match bsearch xs x0 with
      | inl i => Ok ([], [], i)
      | inr O => Ok ([], [], O)
      | inr k => match opt_or_nan (s_interpolate s x0) with
                 | Ok v => Ok ([x0], [v], k)
                 | Err => Err | Panic => Panic
                 end
      end in
    match start with
    | Ok (hx, hy, i) =>
        let '(mx, my) := take_while_le (skipn i xs) (skipn i ys) x1 in
        let xs1 := hx ++ mx in let ys1 := hy ++ my in
        match xs1 with
        | [] => Panic                                   (* xs[xs.len() - 1] on an empty vector *)
        | _ =>
            if last xs1 n0 <? x1 then
              match opt_or_nan (s_interpolate s x1) with
              | Ok v => unwrap_dd (xs1 ++ [x1]) (ys1 ++ [v])
              | Err => Err | Panic => Panic
              end
            else unwrap_dd xs1 ys1
        end
    | Err => Err
    | Panic => Panic
    end.

  Definition s_split_at_x (s : series) (x : num) : res (option series * option series) :=
    let xs := fst s in
    match xs with
    | [] => Panic
    | x_first :: _ =>
        if last xs n0 <? x then Ok (Some s, None)
        else if x <? x_first then Ok (None, Some s)
        else match s_between s x_first x, s_between s x (last xs n0) with
             | Ok a, Ok b => Ok (Some a, Some b)
             | Panic, _ | _, Panic => Panic
             | _, _ => Err
             end
    end.

  (* trapezoid areas *)
  Fixpoint areas (xs ys : list num) : list num :=
    match xs, ys with
    | x0 :: (x1 :: _) as xs', y0 :: (y1 :: _) as ys' => (x1 - x0) * (y0 + y1) * nlit 5 (-1) :: areas xs' ys'
    | _, _ => []
    end.
  Definition s_area_under (s : series) : num := fold_left nadd (areas (fst s) (snd s)) n0.

  (* y_crossings before sort_and_dedup *)
  Fixpoint raw_crossings (xs ys : list num) (level : num) : list num :=
    match xs, ys with
    | x0 :: (x1 :: _) as xs', v0 :: (v1 :: _) as ys' =>
        let rest := raw_crossings xs' ys' level in
        if ((v0 <=? level) && (level <=? v1)) || ((level <=? v0) && (v1 <=? level)) then
          let m := (v1 - v0) / (x1 - x0) in
          if negb (nfinite m) then rest
          else if m =? n0 then x0 :: x1 :: rest
          else nmin (nmax (x0 + (level - v0) / m) x0) x1 :: rest
        else rest
    | _, _ => []
    end.

  (* sort_by partial_cmp (insertion sort: any stable sort gives the same list) then dedup_by |a-b| < 1e-10
     against the last kept element *)
  Fixpoint insert_num (x : num) (l : list num) : list num :=
    match l with
    | [] => [x]
    | y :: l' => if x <? y then x :: l else y :: insert_num x l'
    end.
  Definition sort_num (l : list num) : list num := fold_left (fun acc x => insert_num x acc) l [].
  Fixpoint dedup_close (kept : num) (l : list num) : list num :=
    match l with
    | [] => []
    | x :: l' => if nabs (x - kept) <? nlit 1 (-10) then dedup_close kept l' else x :: dedup_close x l'
    end.
  Definition sort_and_dedup (l : list num) : list num :=
    match sort_num l with [] => [] | x :: l' => x :: dedup_close x l' end.

  Definition s_y_crossings (s : series) (level : num) : list num :=
    sort_and_dedup (raw_crossings (fst s) (snd s) level).

  (* resampled_n: even spacing clamped to x_max, ordinates by interpolation *)
  Definition s_resampled_xs (s : series) (n : nat) : list num :=
    let xs := fst s in
    let xmin := hd n0 xs in let xmax := last xs n0 in
    let step := (xmax - xmin) / (nofnat n - n1) in
    map (fun i => nmin (xmin + nofnat i * step) xmax) (seq 0 n).
End Series.
