(* C18: common/angles.rs and geom2/angles2.rs (signed_angle, directed_angle). *)
From Coq Require Import ZArith Bool List.
From EG Require Import Num.Num Model.Types.

Section Angles.
  Context {N : Num}.
  Local Open Scope num_scope.

  Definition two_pi : num := n2 * npi.
  Definition c_ANGLE_TOL : num := nlit 1 (-12).

  Definition AngleDir_to_sign (d : AngleDir) : num :=
    match d with AngleDir_Cw => - n1 | AngleDir_Ccw => n1 end.
  Definition AngleDir_from_sign (sign : num) : AngleDir :=
    if sign <? n0 then AngleDir_Cw else AngleDir_Ccw.
  Definition AngleDir_opposite (d : AngleDir) : AngleDir :=
    match d with AngleDir_Cw => AngleDir_Ccw | AngleDir_Ccw => AngleDir_Cw end.

  Definition angle_signed_pi (radians : num) : num :=
    let angle := nfmod radians two_pi in
    if npi <? angle then angle - two_pi
    else if angle <? - npi then angle + two_pi
    else angle.

  Definition angle_to_2pi (radians : num) : num :=
    let angle := nfmod radians two_pi in
    if angle <? n0 then angle + two_pi else angle.

  Definition angle_in_direction (radians0 radians1 : num) (dir : AngleDir) : num :=
    let t0 := angle_signed_pi radians0 in
    let t1 := angle_signed_pi radians1 in
    match dir with
    | AngleDir_Cw => let t1 := if t0 <? t1 then t1 - two_pi else t1 in t0 - t1
    | AngleDir_Ccw => let t1 := if t1 <? t0 then t1 + two_pi else t1 in t1 - t0
    end.

  Definition signed_compliment_2pi (radians : num) : num :=
    if n0 <=? radians then (- n2) * npi + radians else two_pi + radians.

  Definition AngleInterval_new (start angle : num) : AngleInterval :=
    if angle <? n0
    then mk_AngleInterval (angle_to_2pi (start + angle)) (nmin (nabs angle) two_pi)
    else mk_AngleInterval (angle_to_2pi start) (nmin angle two_pi).

  Definition AngleInterval_contains (i : AngleInterval) (angle : num) : bool :=
    let angle := angle_to_2pi angle in
    if AngleInterval_start i - c_ANGLE_TOL <=? angle
    then angle <=? AngleInterval_start i + AngleInterval_angle i + c_ANGLE_TOL
    else angle + two_pi <=? AngleInterval_start i + AngleInterval_angle i + c_ANGLE_TOL.

  Definition AngleInterval_intersects (a b : AngleInterval) : bool :=
    AngleInterval_contains a (AngleInterval_start b) || AngleInterval_contains b (AngleInterval_start a).

  Definition AngleInterval_at_fraction (i : AngleInterval) (f : num) : num :=
    AngleInterval_start i + AngleInterval_angle i * f.

  (* geom2/angles2.rs *)
  Definition signed_angle (v1 v2 : num * num) : num :=
    natan2 (fst v1 * snd v2 - snd v1 * fst v2) (fst v1 * fst v2 + snd v1 * snd v2).
  Definition directed_angle (v1 v2 : num * num) (direction : AngleDir) : num :=
    let a := signed_angle v1 v2 * match direction with AngleDir_Ccw => n1 | AngleDir_Cw => - n1 end in
    if a <? n0 then a + two_pi else a.
End Angles.
