(* C12: geometry of the primitive generators (geom3/mesh.rs box_geom, create_cylinder). *)
From Coq Require Import ZArith List Bool.
From EG Require Import Num.Num Lib.Vec Model.MeshTopo.
Import ListNotations.

(* which of (width, height, depth) each box vertex uses *)
Definition box_vertex_sel : list (bool * bool * bool) :=
  [(false, false, false); (true, false, false); (false, false, true); (true, false, true);
   (false, true, false); (true, true, false); (false, true, true); (true, true, true)].

Section Geom.
  Context {N : Num}.
  Local Open Scope num_scope.
  Definition box_vertices (w h d : num) : list V3 :=
    map (fun s : bool * bool * bool => let '(sx, sy, sz) := s in
           mk3 (if sx then w else n0) (if sy then h else n0) (if sz then d else n0)) box_vertex_sel.

  Definition cyl_angle (steps i : nat) : num := nofnat i * n2 * npi / nofnat steps.
  Definition cyl_bottom (r : num) (steps i : nat) : V3 :=
    let a := cyl_angle steps i in mk3 (r * ncos a) (r * nsin a) n0.
  Definition cyl_top (r h : num) (steps i : nat) : V3 :=
    let a := cyl_angle steps i in mk3 (r * ncos a) (r * nsin a) h.
  Definition cyl_vertices (r h : num) (steps : nat) : list V3 :=
    flat_map (fun i => [cyl_bottom r steps i; cyl_top r h steps i]) (seq 0 steps).
  (* the two triangles create_cylinder emits for step i (k = (i+1) mod steps), as vertex triples *)
  Definition cyl_tri1 (r h : num) (steps i : nat) : V3 * V3 * V3 :=
    let k := ((i + 1) mod steps)%nat in (cyl_bottom r steps i, cyl_top r h steps k, cyl_top r h steps i).
  Definition cyl_tri2 (r h : num) (steps i : nat) : V3 * V3 * V3 :=
    let k := ((i + 1) mod steps)%nat in (cyl_bottom r steps i, cyl_bottom r steps k, cyl_top r h steps k).
  (* outward test direction for the quad of step i: sum of the two radial directions *)
  Definition cyl_radial (r : num) (steps i : nat) : V3 :=
    let k := ((i + 1) mod steps)%nat in
    add3 (cyl_bottom r steps i) (cyl_bottom r steps k).

  (* (b - a) x (c - a): twice the area vector of the triangle *)
  Definition tri_normal (a b c : V3) : V3 := cross3 (sub3 b a) (sub3 c a).
End Geom.
