(* C20: engeom's own arithmetic inside boundary_first_flatten (geom3/mesh/conformal.rs), upstream of the sparse solver:
   face angles from edge lengths (law of cosines with the degenerate branches), angle defects, the cotangent Laplacian
   (edge weights, diagonals, triplets with the 1e-8 regulariser), boundary edge lengths and vertex masses, and the
   acceptance tests.  The sparse LU and the dense 2x2 algebra of the best-fit step stay with the per-run certificate. *)
From Coq Require Import ZArith List Bool Arith.
From EG Require Import Num.Num Lib.Vec Model.Types.
Import ListNotations.

Section Conformal.
  Context {N : Num}.
  Local Open Scope num_scope.

  Definition half : num := nlit 5 (-1).
  Definition lap_eps : num := nlit 1 (-8).

  (* calc_face_angles: a, b, c are the lengths of the edges opposite vertex 0, 1, 2 of the face *)
  Definition face_angles (a b c : num) : num * num * num :=
    if a >? b + c then (npi, n0, n0)
    else if b >? a + c then (n0, npi, n0)
    else if c >? a + b then (n0, n0, npi)
    else (nacos ((b * b + c * c - a * a) / (n2 * b * c)),
          nacos ((a * a + c * c - b * b) / (n2 * a * c)),
          nacos ((a * a + b * b - c * c) / (n2 * a * b))).

  Definition ntan (x : num) : num := nsin x / ncos x.
  Definition cot (x : num) : num := n1 / ntan x.

  Fixpoint upd_at (l : list num) (i : nat) (f : num -> num) : list num :=
    match l, i with
    | [], _ => []
    | x :: l', O => f x :: l'
    | x :: l', S i' => x :: upd_at l' i' f
    end.
  Definition add_at (l : list num) (i : nat) (v : num) : list num := upd_at l i (fun x => x + v).
  Definition sub_at (l : list num) (i : nat) (v : num) : list num := upd_at l i (fun x => x - v).

  Definition edge_len (verts : list V3) (e : nat * nat) : num :=
    norm3 (sub3 (nth (snd e) verts (n0, n0, n0)) (nth (fst e) verts (n0, n0, n0))).
  Definition edge_lengths (verts : list V3) (edges : list (nat * nat)) : list num := map (edge_len verts) edges.

  Definition all_face_angles (lens : list num) (face_edges : list (nat * nat * nat)) : list (num * num * num) :=
    map (fun fe => let '(e0, e1, e2) := fe in face_angles (nth e0 lens n0) (nth e1 lens n0) (nth e2 lens n0)) face_edges.

  (* calc_angle_defects: 2 pi per vertex, pi on the boundary, minus every face angle at the vertex *)
  Definition angle_defects (n_vert : nat) (i_bound : list nat) (angles : list (num * num * num)) (faces : list (nat * nat * nat)) : list num :=
    let start := fold_left (fun th i => upd_at th i (fun _ => npi)) i_bound (repeat (n2 * npi) n_vert) in
    fold_left (fun th fa => let '((v0, v1, v2), (a0, a1, a2)) := fa in sub_at (sub_at (sub_at th v0 a0) v1 a1) v2 a2)
              (combine faces angles) start.

  (* cotan_laplacian_triplets *)
  Definition edge_weights (n_edges : nat) (face_edges : list (nat * nat * nat)) (angles : list (num * num * num)) : list num :=
    map (fun v => v * half)
        (fold_left (fun vals fa => let '((e0, e1, e2), (a0, a1, a2)) := fa in
                                   add_at (add_at (add_at vals e0 (cot a0)) e1 (cot a1)) e2 (cot a2))
                   (combine face_edges angles) (repeat n0 n_edges)).
  Definition diagonals (n_vert : nat) (edges : list (nat * nat)) (w : list num) : list num :=
    fold_left (fun d ew => let '((i, j), v) := ew in add_at (add_at d i v) j v) (combine edges w) (repeat n0 n_vert).
  Definition triplets (n_vert : nat) (edges : list (nat * nat)) (w : list num) : list (nat * nat * num) :=
    map (fun iv => (fst iv, fst iv, snd iv + lap_eps)) (combine (seq 0 n_vert) (diagonals n_vert edges w))
    ++ flat_map (fun ew => let '((i, j), v) := ew in [(i, j, - v); (j, i, - v)]) (combine edges w).

  (* what a triplet list means: row i of the matrix applied to x (duplicates add up, as in faer) *)
  Definition row_apply (t : list (nat * nat * num)) (x : nat -> num) (i : nat) : num :=
    fold_right (fun rcv acc => let '(r, c, v) := rcv in if Nat.eqb r i then v * x c + acc else acc) n0 t.

  (* boundary_edge_lengths and calc_boundary_vertex_masses *)
  Definition boundary_edge_lengths (verts : list V3) (i_bound : list nat) : list num :=
    map (fun k => dist3 (nth (nth k i_bound O) verts (n0, n0, n0))
                        (nth (nth (Nat.modulo (S k) (length i_bound)) i_bound O) verts (n0, n0, n0)))
        (seq 0 (length i_bound)).
  Definition boundary_vertex_masses (l : list num) : list num :=
    fold_left (fun res k => let ni := Nat.modulo (S k) (length l) in
                            upd_at res ni (fun _ => (nth k l n0 + nth ni l n0) / n2))
              (seq 0 (length l)) (repeat n0 (length l)).

  (* cumulative_sum(a, scale) *)
  Fixpoint cumsum_from (s : num) (a : list num) (scale : num) : list num :=
    match a with [] => [] | x :: a' => let s' := s + x * scale in s' :: cumsum_from s' a' scale end.
  Definition cumulative_sum (a : list num) (scale : num) : list num := cumsum_from n0 a scale.
End Conformal.

(* acceptance tests of boundary_first_flatten, on the edge table of Model/MeshTopo: exactly one boundary loop, no vertex
   twice on it, Euler characteristic one, one edge-connected patch *)
Fixpoint nodupb (l : list nat) : bool :=
  match l with [] => true | x :: l' => negb (existsb (Nat.eqb x) l') && nodupb l' end.
Definition accepts (n_vert n_edges n_faces n_patches : nat) (loops : list (list nat)) : bool :=
  match loops with
  | [lp] => nodupb lp && Z.eqb (Z.of_nat n_vert - Z.of_nat n_edges + Z.of_nat n_faces) 1 && Nat.eqb n_patches 1
  | _ => false
  end.
